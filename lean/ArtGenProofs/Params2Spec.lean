/-
ArtGenProofs.Params2Spec — the generated estimator protocol of the compound estimators (`ArtGen/Params2.lean`,
regenerated from the Python source by `harness/artv/q2trans.py`) equals the reference semantics of
`ArtModel/Params2.lean`, for all stores, all instance `__dict__`s and all keyword lists; and, class by class, the
clauses of C19 proved or refuted on the generated definitions.
-/
import ArtGen.Params2
import ArtModel.Params2
import ArtGenProofs.ParamsSpec

set_option linter.unusedSimpArgs false
set_option linter.unusedVariables false

namespace Art.GenSpec.Params2
open Art Art.Params Art.Params2 Art.Gen.Params2
open Art.GenSpec.Params (bind_apply pure_apply dget_eq dhas_eq dset_eq partition_eq toWorld toSelf vpOf)

/-! ### the five BaseART methods regenerated here are the sibling slice's (`ArtGen/Params.lean`) -/

theorem base_getattr_eq : BaseART.__getattr__ = Art.Gen.Params.BaseART.__getattr__ := rfl
theorem base_setattr_eq : BaseART.__setattr__ = Art.Gen.Params.BaseART.__setattr__ := rfl
theorem base_get_params_eq : BaseART.get_params = Art.Gen.Params.BaseART.get_params := rfl
theorem base_init_eq (vp : Store → Except Err Unit) :
    BaseART.__init__ (fun p => Q.Py.lift (vp p)) = Art.Gen.Params.BaseART.__init__ vp := rfl
theorem base_set_params_eq (vp : Store → Except Err Unit) :
    BaseART.set_params (fun p => Q.Py.lift (vp p)) = Art.Gen.Params.BaseART.set_params vp := rfl
theorem FuzzyART_validate_eq : FuzzyART.validate_params = Art.Gen.Params.FuzzyART.validate_params := rfl
theorem FuzzyART_init_eq : FuzzyART.__init__ = Art.Gen.Params.FuzzyART.__init__ := rfl

/-! ### dict helpers -/

theorem dupdate_eq (p : Store) (kvs : List (String × Val)) : Q2.dupdate p kvs = upsertAll p kvs := by
  induction kvs generalizing p with
  | nil => rfl
  | cons kv r ih =>
    show Q2.dupdate (Q.dset p kv.1 kv.2) r = upsertAll (upsert p kv.1 kv.2) r
    rw [dset_eq]; exact ih _

theorem dset_eq_gupsert {σ : Type} (d : List (String × σ)) (k : String) (v : σ) : Q.dset d k v = gupsert d k v := by
  induction d with
  | nil => rfl
  | cons kv r ih => obtain ⟨k', v'⟩ := kv; simp only [Q.dset, gupsert, ih]

theorem ddset2_eq_ginsert (n : List (String × Store)) (g k : String) (v : Val) :
    Q.ddset2 n g k v = ginsert n g k v := by
  induction n with
  | nil => simp [Q.ddset2, Q.dgetD, Q.dget, Q.dset, ginsert]
  | cons gs r ih =>
    obtain ⟨g', s⟩ := gs
    simp only [Q.ddset2, Q.dgetD, Q.dget, Q.dset, ginsert] at ih ⊢
    by_cases h : g' = g
    · simp [h, dset_eq]
    · simp [h, ih]

theorem prefixed_eq (name : String) (d : Store) :
    List.map (fun (x : String × Val) => match x with | (k, val) => ((name ++ "__") ++ k, val)) (Q.items d)
      = prefixed name d := rfl

theorem keys_upsert_isSome (p : Store) (k k' : String) (v : Val) (h : (get? p k').isSome) :
    (get? (upsert p k v) k').isSome := by
  by_cases hk : k' = k
  · subst hk; rw [Art.Params.get?_upsert_same]; rfl
  · rw [Art.Params.get?_upsert_other v hk]; exact h

theorem upsertAll_isSome (p : Store) (kvs : List (String × Val)) (k' : String) (h : (get? p k').isSome) :
    (get? (upsertAll p kvs) k').isSome := by
  induction kvs generalizing p with
  | nil => exact h
  | cons kv r ih => exact ih _ (keys_upsert_isSome p kv.1 k' kv.2 h)

/-! ### results as outcomes of a generated method -/

def errOf : Option Err → Except Err Unit
  | none => .ok ()
  | some x => .error x

/-- the model's result as the outcome of the generated method started with the call log `c` -/
def ofRes (r : Res Q.Slot) (c : List (Nat × Store)) : Except Err Unit × Q.World :=
  (errOf r.err, ⟨r.dict, c ++ r.delegated⟩)

/-! ### the ARTMAP family: constructors and `get_params` -/

/-- the instance `__dict__` of a SimpleARTMAP -/
def smDict (a : Val) : List (String × Q.Slot) := [("module_a", .val a), ("map", .dict [])]
/-- the instance `__dict__` of an ARTMAP (`module_b` is stored first) -/
def amDict (a b : Val) : List (String × Q.Slot) := [("module_b", .val b), ("module_a", .val a), ("map", .dict [])]

theorem SimpleARTMAP_init_spec (a : Val) (c : List (Nat × Store)) :
    SimpleARTMAP.__init__ a ⟨[], c⟩ = (.ok (), ⟨smDict a, c⟩) := rfl

theorem ARTMAP_init_spec (a b : Val) (c : List (Nat × Store)) :
    ARTMAP.__init__ a b ⟨[], c⟩ = (.ok (), ⟨amDict a b, c⟩) := rfl

theorem selfAttr_of (w : Q.World) (k : String) (v : Val) (h : Q.dget w.self k = some (.val v)) :
    Q2.selfAttr k w = (.ok v, w) := by
  simp [Q2.selfAttr, h]

/-- `SimpleARTMAP.get_params(deep)`: `{module_a: a}`, and when `deep` the nested estimator's own parameters as
`module_a__k`; the object is not touched.  For every nested estimator (`ext.get_params a` may be anything that
returns). -/
theorem SimpleARTMAP_get_params_spec (ext : Q2.Ext) (w : Q.World) (a : Val) (da : Store) (deep : Bool)
    (ha : Q.dget w.self "module_a" = some (.val a)) (hgp : ext.get_params a w = (.ok da, w)) :
    SimpleARTMAP.get_params ext deep w = (.ok (getParamsNode [] [⟨"module_a", a, da⟩] deep), w) := by
  cases deep <;>
    simp [SimpleARTMAP.get_params, bind_apply, pure_apply, selfAttr_of w _ a ha, hgp, getParamsNode, dupdate_eq,
      prefixed, Q.items]

theorem ARTMAP_get_params_spec (ext : Q2.Ext) (w : Q.World) (a b : Val) (da db : Store) (deep : Bool)
    (ha : Q.dget w.self "module_a" = some (.val a)) (hb : Q.dget w.self "module_b" = some (.val b))
    (hga : ext.get_params a w = (.ok da, w)) (hgb : ext.get_params b w = (.ok db, w)) :
    ARTMAP.get_params ext deep w
      = (.ok (getParamsNode [] [⟨"module_a", a, da⟩, ⟨"module_b", b, db⟩] deep), w) := by
  cases deep <;>
    simp [ARTMAP.get_params, bind_apply, pure_apply, selfAttr_of w _ a ha, selfAttr_of w _ b hb, hga, hgb,
      getParamsNode, dupdate_eq, prefixed, Q.items]

/-- C19 (a) for SimpleARTMAP and ARTMAP: `get_params(deep=False)` — what `sklearn.clone` passes back to the
constructor — has exactly the constructor's argument names -/
theorem ARTMAP_family_names (a b : Val) (da db : Store) :
    keys (getParamsNode [] [⟨"module_a", a, da⟩] false) = SimpleARTMAP.args ∧
    keys (getParamsNode [] [⟨"module_a", a, da⟩, ⟨"module_b", b, db⟩] false) = ARTMAP.args := ⟨rfl, rfl⟩

/-! ### `BaseARTMAP.set_params` (and `DeepARTMAP.set_params`): generated = `mapSetParams` -/

abbrev Carried := Store × Store × List (String × Store)

/-- what one pass of the loop does on `(valid_params, local_params, nested_params)` and the instance -/
def MapStep (body : String × Val → Carried → Q.M Carried) : Prop :=
  ∀ key v valid loc nested (w : Q.World), body (key, v) (valid, loc, nested) w =
    if (get? valid (partitionKey key).1).isSome then
      match (partitionKey key).2 with
      | some sub => (.ok (valid, loc, Q.ddset2 nested (partitionKey key).1 sub v), w)
      | none => (.ok (Q.dset valid (partitionKey key).1 v, Q.dset loc (partitionKey key).1 v, nested),
          { w with self := Q.dset w.self (partitionKey key).1 (.val v) })
    else (.error .value, w)

/-- `local_params` after the loop (it is never read again) -/
def locLoop : Store → Store → List (String × Val) → Store
  | _, loc, [] => loc
  | valid, loc, (key, v) :: rest =>
    if (get? valid (partitionKey key).1).isSome then
      match (partitionKey key).2 with
      | some _ => locLoop valid loc rest
      | none => locLoop (upsert valid (partitionKey key).1 v) (Q.dset loc (partitionKey key).1 v) rest
    else loc

theorem map_loop (body : String × Val → Carried → Q.M Carried) (hb : MapStep body) (c : List (Nat × Store)) :
    ∀ (kvs : List (String × Val)) (valid loc : Store) (nested : List (String × Store)) (d : List (String × Q.Slot)),
    Q.Py.forEach kvs (valid, loc, nested) body ⟨d, c⟩ =
      match mapLoop Q.Slot.val ⟨valid, d, nested⟩ kvs with
      | (st, none) => (.ok (st.valid, locLoop valid loc kvs, st.nested), ⟨st.dict, c⟩)
      | (st, some x) => (.error x, ⟨st.dict, c⟩) := by
  intro kvs
  induction kvs with
  | nil => intro valid loc nested d; rfl
  | cons kv rest ih =>
    intro valid loc nested d
    obtain ⟨key, v⟩ := kv
    simp only [Q.Py.forEach, Q.Py.bind, hb key v, mapLoop, locLoop]
    by_cases hk : (get? valid (partitionKey key).1).isSome
    · simp only [hk, if_true]
      cases hs : (partitionKey key).2 with
      | some sub =>
        simp only [ddset2_eq_ginsert]
        exact ih valid loc _ d
      | none =>
        simp only []
        rw [dset_eq valid, dset_eq_gupsert d]
        exact ih _ _ nested _
    · simp only [hk, if_false]
      rfl

theorem route_loop (valid : Store) (body : String × Store → Unit → Q.M Unit)
    (hb : ∀ g sub (w : Q.World), body (g, sub) () w =
      match get? valid g with
      | some v => Q.logSetParams v sub w
      | none => (.error .key, w)) (d : List (String × Q.Slot)) :
    ∀ (n : List (String × Store)) (c : List (Nat × Store)),
    Q.Py.forEach n () body ⟨d, c⟩ = (errOf (route valid n).2, ⟨d, c ++ (route valid n).1⟩) := by
  intro n
  induction n with
  | nil => intro c; simp [Q.Py.forEach, Q.Py.pure, route, errOf]
  | cons gs r ih =>
    intro c
    obtain ⟨g, sub⟩ := gs
    simp only [Q.Py.forEach, Q.Py.bind, hb, route]
    cases hv : get? valid g with
    | none => simp [errOf]
    | some v =>
      cases v with
      | mod id =>
        simp only [Q.logSetParams]
        rw [ih]
        simp
      | _ => simp [Q.logSetParams, errOf]

theorem route_body (valid : Store) (g : String) (sub : Store) (w : Q.World) :
    (do Q.logSetParams (← Q.Py.lift (Q.getitem valid g)) sub; pure () : Q.M Unit) w
      = match get? valid g with
        | some v => Q.logSetParams v sub w
        | none => (.error .key, w) := by
  simp only [bind_apply, Q.Py.lift, Q.getitem, dget_eq, pure_apply]
  cases get? valid g with
  | none => rfl
  | some v =>
    simp only []
    rcases Q.logSetParams v sub w with ⟨r | r, w'⟩ <;> rfl

/-- **`BaseARTMAP.set_params`, generated = reference**, for every instance `__dict__`, every call log, every
keyword list, and every `get_params` override that returns `gp` without touching the object. -/
theorem map_set_params_spec (gpf : Bool → Q.M Store) (gp : Store) (w : Q.World) (kvs : List (String × Val))
    (hgp : gpf true w = (.ok gp, w)) :
    BaseARTMAP.set_params gpf Q.logSetParams kvs w = ofRes (mapSetParams Q.Slot.val gp w.self kvs) w.calls := by
  obtain ⟨d, c⟩ := w
  cases hkvs : kvs with
  | nil => simp [BaseARTMAP.set_params, Q.dictTruth, mapSetParams, ofRes, errOf, pure_apply]
  | cons kv0 rest0 =>
    rw [← hkvs]
    have hne : kvs.isEmpty = false := by rw [hkvs]; rfl
    simp only [BaseARTMAP.set_params, Q.dictTruth, hne, Bool.not_false, Bool.not_true, Bool.false_eq_true, if_false,
      bind_apply, hgp, Q.items, mapSetParams, ofRes]
    have h1 := fun body hb => map_loop body hb c kvs gp gp [] d
    rw [h1]
    · generalize mapLoop Q.Slot.val ⟨gp, d, []⟩ kvs = L
      obtain ⟨st, err⟩ := L
      cases err with
      | some x => simp [errOf]
      | none =>
        simp only []
        rw [route_loop st.valid _ (route_body st.valid) st.dict st.nested c]
        simp only [pure_apply]
        cases (route st.valid st.nested).2 <;> simp [errOf]
    · intro key v valid loc nested w
      simp only [partition_eq, bind_apply, dhas_eq]
      cases hk : (get? valid (partitionKey key).1).isSome with
      | false => simp [Q.Py.raise]
      | true =>
        cases hs : (partitionKey key).2 with
        | some sub => simp [Q.strTruth, pure_apply]
        | none => simp [Q.strTruth, pure_apply, bind_apply, Q.objectSetattr]

/-- `DeepARTMAP.set_params` is a second copy of the same text (its `local_params` starts empty and is never read):
the same reference. -/
theorem deep_set_params_spec (gpf : Bool → Q.M Store) (gp : Store) (w : Q.World) (kvs : List (String × Val))
    (hgp : gpf true w = (.ok gp, w)) :
    DeepARTMAP.set_params gpf Q.logSetParams kvs w = ofRes (mapSetParams Q.Slot.val gp w.self kvs) w.calls := by
  obtain ⟨d, c⟩ := w
  cases hkvs : kvs with
  | nil => simp [DeepARTMAP.set_params, Q.dictTruth, mapSetParams, ofRes, errOf, pure_apply]
  | cons kv0 rest0 =>
    rw [← hkvs]
    have hne : kvs.isEmpty = false := by rw [hkvs]; rfl
    simp only [DeepARTMAP.set_params, Q.dictTruth, hne, Bool.not_false, Bool.not_true, Bool.false_eq_true, if_false,
      bind_apply, hgp, Q.items, mapSetParams, ofRes]
    have h1 := fun body hb => map_loop body hb c kvs gp [] [] d
    rw [h1]
    · generalize mapLoop Q.Slot.val ⟨gp, d, []⟩ kvs = L
      obtain ⟨st, err⟩ := L
      cases err with
      | some x => simp [errOf]
      | none =>
        simp only []
        rw [route_loop st.valid _ (route_body st.valid) st.dict st.nested c]
        simp only [pure_apply]
        cases (route st.valid st.nested).2 <;> simp [errOf]
    · intro key v valid loc nested w
      simp only [partition_eq, bind_apply, dhas_eq]
      cases hk : (get? valid (partitionKey key).1).isSome with
      | false => simp [Q.Py.raise]
      | true =>
        cases hs : (partitionKey key).2 with
        | some sub => simp [Q.strTruth, pure_apply]
        | none => simp [Q.strTruth, pure_apply, bind_apply, Q.objectSetattr]

/-! ### the ARTMAP family: the C19 clauses on the generated methods -/

theorem getParamsNode_module_a (a : Val) (da : Store) (rest : List KidView) :
    (get? (getParamsNode [] (⟨"module_a", a, da⟩ :: rest) true) "module_a").isSome := by
  simp only [getParamsNode, if_true, List.foldl_cons]
  have h0 : (get? (([] : Store) ++ List.map (fun k => (k.name, k.obj)) (⟨"module_a", a, da⟩ :: rest)) "module_a").isSome := by
    simp [get?]
  generalize (([] : Store) ++ List.map (fun k => (k.name, k.obj)) (⟨"module_a", a, da⟩ :: rest)) = base at h0
  have h1 := upsertAll_isSome base (prefixed "module_a" da) "module_a" h0
  generalize upsertAll base (prefixed "module_a" da) = b1 at h1
  induction rest generalizing b1 with
  | nil => exact h1
  | cons k r ih => exact ih _ (upsertAll_isSome b1 _ _ h1)

/-- C19 (d) for SimpleARTMAP: `set_params(module_a=a')` turns the object constructed with `a` into exactly the object
constructed with `a'` (for every nested estimator whose `get_params()` returns) -/
theorem SimpleARTMAP_set_eq_init (ext : Q2.Ext) (a a' : Val) (da : Store) (c : List (Nat × Store))
    (hgp : ∀ w, ext.get_params a w = (.ok da, w)) :
    BaseARTMAP.set_params (SimpleARTMAP.get_params ext) Q.logSetParams [("module_a", a')]
        (SimpleARTMAP.__init__ a ⟨[], c⟩).2
      = (.ok (), (SimpleARTMAP.__init__ a' ⟨[], c⟩).2) := by
  rw [SimpleARTMAP_init_spec, SimpleARTMAP_init_spec]
  rw [map_set_params_spec _ _ _ _ (SimpleARTMAP_get_params_spec ext _ a da true rfl (hgp _))]
  have hk : partitionKey "module_a" = ("module_a", none) := by decide
  have hs := getParamsNode_module_a a da []
  simp [mapSetParams, mapLoop, hk, hs, route, ofRes, errOf, gupsert, smDict]

theorem prefixed_ne (name k : String) : (name ++ "__") ++ k ≠ name := by
  intro e
  have := congrArg String.length e
  simp only [String.length_append] at this
  have h2 : "__".length = 2 := rfl
  omega

theorem get?_upsertAll_prefixed (b : Store) (name : String) (d : Store) :
    get? (upsertAll b (prefixed name d)) name = get? b name := by
  induction d generalizing b with
  | nil => rfl
  | cons kv r ih =>
    obtain ⟨k, v⟩ := kv
    show get? (upsertAll (upsert b ((name ++ "__") ++ k) v) (prefixed name r)) name = _
    rw [ih, Art.Params.get?_upsert_other v (fun e => prefixed_ne name k e.symm)]

/-- a nested name is delegated, not interpreted: `set_params(module_a__sub=v)` is exactly
`module_a.set_params(sub=v)` — the wrapper itself is untouched -/
theorem SimpleARTMAP_nested_routed (ext : Q2.Ext) (id : Nat) (da : Store) (c : List (Nat × Store))
    (k sub : String) (v : Val) (hk : partitionKey k = ("module_a", some sub))
    (hgp : ∀ w, ext.get_params (.mod id) w = (.ok da, w)) :
    BaseARTMAP.set_params (SimpleARTMAP.get_params ext) Q.logSetParams [(k, v)] ⟨smDict (.mod id), c⟩
      = (.ok (), ⟨smDict (.mod id), c ++ [(id, [(sub, v)])]⟩) := by
  rw [map_set_params_spec _ _ _ _ (SimpleARTMAP_get_params_spec ext _ (.mod id) da true rfl (hgp _))]
  have hm : get? (getParamsNode [] [⟨"module_a", .mod id, da⟩] true) "module_a" = some (.mod id) := by
    simp only [getParamsNode, if_true, List.foldl_cons, List.foldl_nil, List.map_cons, List.map_nil, List.nil_append]
    rw [get?_upsertAll_prefixed]; simp [get?]
  simp [mapSetParams, mapLoop, hk, hm, route, ofRes, errOf, ginsert]

/-- the exception raised (if any) and the final state -/
abbrev outcome := @Art.GenSpec.Params.outcome

/-! #### concrete nested estimators for the counterexamples -/

/-- a nested estimator as the wrapper's `ext` calls see it -/
structure Obj where
  isBaseART : Bool
  params : Store
  deep : Store
  validate : Store → Option Err

/-- the `ext` of a wrapper whose nested estimators are the objects `objs` (`set_params` calls are logged) -/
def extOf (objs : Nat → Option Obj) : Q2.Ext where
  isBaseART v := match v with
    | .mod id => (match objs id with | some o => o.isBaseART | none => false)
    | _ => false
  params v := fun w => (match v with
    | .mod id => (match objs id with | some o => .ok o.params | none => .error .attr)
    | _ => .error .attr, w)
  get_params v := fun w => (match v with
    | .mod id => (match objs id with | some o => .ok o.deep | none => .error .attr)
    | _ => .error .attr, w)
  set_params := Q.logSetParams
  validate_params v d := match v with
    | .mod id => (match objs id with | some o => errOf (o.validate d) | none => .error .attr)
    | _ => .error .attr

/-- `FuzzyART(rho, 0.0, 1.0)` -/
def fz (rho : Rat) : Obj :=
  ⟨true, [("rho", .flt rho), ("alpha", .flt 0), ("beta", .flt 1)], [("rho", .flt rho), ("alpha", .flt 0), ("beta", .flt 1)],
    validate fuzzyART.checks⟩

/-- object 7 is `FuzzyART(r7, …)`, object 9 is `FuzzyART(r9, …)` -/
def objs (r7 r9 : Rat) : Nat → Option Obj := fun id => if id = 7 then some (fz r7) else if id = 9 then some (fz r9) else none

def half : Rat := mkRat 1 2

/-- C19 (c) is FALSE for the ARTMAP family: `SimpleARTMAP(m7).set_params(module_a=m9, zz=1.0)` raises `ValueError`
for the unknown name `zz` — and `module_a` IS replaced (the loop assigns each plain name as it meets it). -/
theorem ARTMAP_rejected_changes_counterexample :
    outcome (BaseARTMAP.set_params (SimpleARTMAP.get_params (extOf (objs half half))) Q.logSetParams
      [("module_a", .mod 9), ("zz", .flt 1)] ⟨smDict (.mod 7), []⟩)
      = (some .value, ⟨smDict (.mod 9), []⟩) := by decide +kernel

theorem mapLoop_nested_dict {σ : Type} (inj : Val → σ) (kvs : List (String × Val))
    (h : ∀ kv ∈ kvs, (partitionKey kv.1).2 ≠ none) (st : MapSt σ) : (mapLoop inj st kvs).1.dict = st.dict := by
  induction kvs generalizing st with
  | nil => rfl
  | cons kv r ih =>
    obtain ⟨key, v⟩ := kv
    have h0 := h (key, v) List.mem_cons_self
    simp only [mapLoop]
    split
    · cases hs : (partitionKey key).2 with
      | none => exact absurd hs h0
      | some sub => simp only []; rw [ih (fun kv hm => h kv (List.mem_cons_of_mem _ hm))]
    · rfl

/-- … `_partial`: when every name of the call is a nested one (`module__sub`), the wrapper's own `__dict__` is
exactly what it was, whatever the call raises (the nested estimators validate before they assign: C19 for
`BaseART.set_params`, `Art.GenSpec.Params.gen_rejected_unchanged`). -/
theorem ARTMAP_rejected_unchanged_partial (gpf : Bool → Q.M Store) (gp : Store) (w : Q.World)
    (kvs : List (String × Val)) (hgp : gpf true w = (.ok gp, w))
    (hn : ∀ kv ∈ kvs, (partitionKey kv.1).2 ≠ none) :
    (BaseARTMAP.set_params gpf Q.logSetParams kvs w).2.self = w.self := by
  rw [map_set_params_spec gpf gp w kvs hgp]
  simp only [ofRes, mapSetParams]
  split
  · rfl
  · have := mapLoop_nested_dict Q.Slot.val kvs hn ⟨gp, w.self, []⟩
    generalize mapLoop Q.Slot.val ⟨gp, w.self, []⟩ kvs = L at this
    obtain ⟨st, err⟩ := L
    cases err <;> exact this

/-- C19 (b), on a concrete object: `est.set_params(**est.get_params())` leaves the SimpleARTMAP as it is and hands the
nested estimator exactly its own parameters (for which `BaseART.set_params` is a no-op:
`Art.GenSpec.Params.gen_set_get_noop`) -/
theorem SimpleARTMAP_set_get_example :
    ∃ ps, (SimpleARTMAP.get_params (extOf (objs half half)) true ⟨smDict (.mod 7), []⟩).1.toOption = some ps ∧
      outcome (BaseARTMAP.set_params (SimpleARTMAP.get_params (extOf (objs half half))) Q.logSetParams ps
        ⟨smDict (.mod 7), []⟩) = (none, ⟨smDict (.mod 7), [(7, (fz half).params)]⟩) :=
  ⟨[("module_a", .mod 7), ("module_a__rho", .flt half), ("module_a__alpha", .flt 0), ("module_a__beta", .flt 1)],
    by decide +kernel, by decide +kernel⟩

/-! ### DualVigilanceART -/

theorem validate_DualVigilanceART (p : Store) : DualVigilanceART.validate_params p = vpOf dualChecks p := by
  simp only [DualVigilanceART.validate_params, dualChecks]; validate_tac

/-- `DualVigilanceART.get_params(deep)`: own `rho_lower_bound`, the base module, and when `deep` the base module's
parameters as `base_module__k`; nothing is written -/
theorem DualVigilanceART_get_params_spec (ext : Q2.Ext) (w : Q.World) (p : Store) (r m : Val) (dm : Store)
    (deep : Bool) (hp : Q.dget w.self "params" = some (.dict p)) (hr : get? p "rho_lower_bound" = some r)
    (hm : Q.dget w.self "base_module" = some (.val m)) (hgp : ext.get_params m w = (.ok dm, w)) :
    DualVigilanceART.get_params ext deep w
      = (.ok (getParamsNode [("rho_lower_bound", r)] [⟨"base_module", m, dm⟩] deep), w) := by
  have h1 : Q.selfParams w = (.ok p, w) := by simp [Q.selfParams, hp]
  have h2 : Q2.selfAttrB BaseART.__getattr__ "base_module" w = (.ok m, w) := by
    simp [Q2.selfAttrB, Q.pyGetattr, hm, Q.asVal]
  cases deep <;>
    simp [DualVigilanceART.get_params, bind_apply, pure_apply, h1, h2, hgp, getParamsNode, dupdate_eq, prefixed,
      Q.items, Q.Py.lift, Q.getitem, dget_eq, hr]

/-- C19 (a) for DualVigilanceART: `get_params(deep=False)` has the constructor's argument names (in another order) -/
theorem DualVigilanceART_names (r m : Val) (dm : Store) (k : String) :
    k ∈ keys (getParamsNode [("rho_lower_bound", r)] [⟨"base_module", m, dm⟩] false) ↔ k ∈ DualVigilanceART.args := by
  simp [getParamsNode, keys, DualVigilanceART.args, or_comm]

abbrev dualVP : Store → Q.M Unit := fun p => Q.Py.lift (DualVigilanceART.validate_params p)

/-- `DualVigilanceART(FuzzyART(r7, …), 0.25)` -/
def dualW (r7 : Rat) : Q.World :=
  (DualVigilanceART.__init__ (extOf (objs r7 half)) (.mod 7) (.flt (mkRat 1 4)) ⟨[], []⟩).2

/-- what `set_params` is on a DualVigilanceART: the inherited `BaseART.set_params` with the class's own
`get_params` and `validate_params` -/
abbrev dualSet (r7 : Rat) := BaseART.set_params_dyn (DualVigilanceART.get_params (extOf (objs r7 half))) dualVP Q.logSetParams

/-- the constructor: `rho > rho_lower_bound >= 0` is required -/
theorem DualVigilanceART_init_example :
    outcome (DualVigilanceART.__init__ (extOf (objs half half)) (.mod 7) (.flt (mkRat 1 4)) ⟨[], []⟩)
      = (none, ⟨[("base_module", .val (.mod 7)), ("params", .dict [("rho_lower_bound", .flt (mkRat 1 4))]),
          ("sample_counter_", .val (.int 0)), ("weight_sample_counter_", .val (.lst [])), ("d_min_", .val .non),
          ("d_max_", .val .non), ("map", .dict [])], []⟩) ∧
    outcome (DualVigilanceART.__init__ (extOf (objs half half)) (.mod 7) (.flt (mkRat 3 4)) ⟨[], []⟩)
      = (some .assert, ⟨[], []⟩) ∧
    outcome (DualVigilanceART.__init__ (extOf (objs half half)) (.mod 7) (.flt half) ⟨[], []⟩)
      = (some .assert, ⟨[], []⟩) ∧
    (outcome (DualVigilanceART.__init__ (extOf (objs half half)) (.mod 7) (.flt 0) ⟨[], []⟩)).1 = none ∧
    outcome (DualVigilanceART.__init__ (extOf (objs half half)) (.mod 3) (.flt 0) ⟨[], []⟩)
      = (some .assert, ⟨[], []⟩) := by decide +kernel

/-- NEW deviation (d): `set_params(rho_lower_bound=0.75)` on `DualVigilanceART(FuzzyART(rho=0.5), 0.25)` is ACCEPTED —
`validate_params` only asks `rho_lower_bound >= 0` — although no estimator can be constructed with these values
(the constructor asserts `rho > rho_lower_bound`): "rejects out-of-range values" fails, and the accepted call does
not give a constructed estimator. -/
theorem DualVigilanceART_bound_above_rho_accepted_counterexample :
    (outcome (dualSet half [("rho_lower_bound", .flt (mkRat 3 4))] (dualW half))).1 = none ∧
    Q.dget (dualSet half [("rho_lower_bound", .flt (mkRat 3 4))] (dualW half)).2.self "params"
      = some (.dict [("rho_lower_bound", .flt (mkRat 3 4))]) ∧
    (outcome (DualVigilanceART.__init__ (extOf (objs half half)) (.mod 7) (.flt (mkRat 3 4)) ⟨[], []⟩)).1
      = some .assert := by decide +kernel

/-- … `_partial` (on the same object): a new bound below `rho` gives exactly the constructed estimator; a negative
one is rejected and nothing changes; `base_module__rho` is delegated; `set_params(**get_params())` changes nothing
and hands the base module its own parameters; a new base module replaces the old one -/
theorem DualVigilanceART_set_examples :
    outcome (dualSet half [("rho_lower_bound", .flt (mkRat 1 8))] (dualW half))
      = outcome (DualVigilanceART.__init__ (extOf (objs half half)) (.mod 7) (.flt (mkRat 1 8)) ⟨[], []⟩) ∧
    outcome (dualSet half [("rho_lower_bound", .flt (-1))] (dualW half)) = (some .assert, dualW half) ∧
    outcome (dualSet half [("rho_lower_bound", .int 0)] (dualW half)) = (some .assert, dualW half) ∧
    outcome (dualSet half [("zz", .flt 1)] (dualW half)) = (some .value, dualW half) ∧
    outcome (dualSet half [("base_module__rho", .flt 1)] (dualW half))
      = (none, { dualW half with calls := [(7, [("rho", .flt 1)])] }) ∧
    outcome (dualSet half [("rho_lower_bound", .flt (mkRat 1 4)), ("base_module", .mod 7),
        ("base_module__rho", .flt half), ("base_module__alpha", .flt 0), ("base_module__beta", .flt 1)] (dualW half))
      = (none, { dualW half with calls := [(7, (fz half).params)] }) ∧
    outcome (dualSet half [("base_module", .mod 9)] (dualW half))
      = outcome (DualVigilanceART.__init__ (extOf (objs half half)) (.mod 9) (.flt (mkRat 1 4)) ⟨[], []⟩) := by
  decide +kernel

/-! ### TopoART and CVIART: the private flat copy (F21, F22) -/

abbrev topoVP : Store → Q.M Unit := fun p => Q.Py.lift (TopoART.validate_params p)

/-- `TopoART(FuzzyART(r7, 0.0, 1.0), 0.5, 5, 2)` -/
def topoW (r7 : Rat) : Q.World :=
  (TopoART.__init__ (extOf (objs r7 half)) (.mod 7) (.flt half) (.int 5) (.int 2) ⟨[], []⟩).2

abbrev topoSet := BaseART.set_params topoVP Q.logSetParams

/-- the generated constructor leaves the object of the reference `constructTopo`: `params` is the flat copy -/
theorem TopoART_init_example :
    (constructTopo (.mod 7) (fz half).params (.flt half) (.int 5) (.int 2)).toOption.map (fun e => toWorld e [])
      = some (topoW half) ∧
    (outcome (TopoART.__init__ (extOf (objs half half)) (.mod 7) (.flt half) (.int 5) (.int 2) ⟨[], []⟩)).1 = none ∧
    outcome (TopoART.__init__ (extOf (objs half half)) (.mod 7) (.flt 2) (.int 5) (.int 2) ⟨[], []⟩)
      = (some .assert, ⟨[], []⟩) ∧
    (outcome (TopoART.__init__ (extOf (objs half half)) (.mod 7) (.flt 1) (.int 5) (.int 5) ⟨[], []⟩)).1 = none ∧
    outcome (TopoART.__init__ (extOf (objs half half)) (.mod 7) (.flt half) (.int 5) (.int 6) ⟨[], []⟩)
      = (some .assert, ⟨[], []⟩) ∧
    outcome (TopoART.__init__ (extOf (objs half half)) (.mod 7) (.flt half) (.flt 5) (.int 2) ⟨[], []⟩)
      = (some .assert, ⟨[], []⟩) ∧
    outcome (TopoART.__init__ (extOf (objs half half)) (.mod 3) (.flt half) (.int 5) (.int 2) ⟨[], []⟩)
      = (some .assert, ⟨[], []⟩) := by decide +kernel

/-- F21, C19 (a) is FALSE for TopoART: `get_params` (BaseART's: `self.params`, the flat copy, whatever `deep`) has the
base module's parameter names instead of `base_module` — `sklearn.clone` calls `TopoART(rho=…, alpha=…, …)`. -/
theorem TopoART_names_counterexample :
    ((BaseART.get_params false (topoW half)).1.toOption.map keys)
      = some ["rho", "alpha", "beta", "beta_lower", "tau", "phi"] ∧
    TopoART.args = ["base_module", "beta_lower", "tau", "phi"] ∧
    (outcome (BaseART.set_params topoVP Q.logSetParams [("base_module__rho", .flt 1)] (topoW half))).1
      = some .value := by
  decide +kernel

theorem upsertAll_get_same (p : Store) (kvs : List (String × Val)) (k : String)
    (h : k ∈ keys kvs) : (get? (upsertAll p kvs) k).isSome := by
  induction kvs generalizing p with
  | nil => simp [keys] at h
  | cons kv r ih =>
    simp only [keys, List.map_cons, List.mem_cons] at h
    show (get? (upsertAll (upsert p kv.1 kv.2) r) k).isSome
    rcases h with h | h
    · apply upsertAll_isSome; rw [h, Art.Params.get?_upsert_same]; rfl
    · exact ih _ h

/-- … `_partial`: every constructor argument other than `base_module` is exposed, for every base module -/
theorem TopoART_names_partial (base : Store) (bl tau phi : Val) :
    ∀ a ∈ TopoART.args, a ≠ "base_module" → (get? (topoParams base bl tau phi) a).isSome := by
  intro a ha hne
  apply upsertAll_get_same
  simp only [TopoART.args, List.mem_cons, List.mem_nil_iff, or_false] at ha
  rcases ha with h | h | h | h
  · exact absurd h hne
  all_goals (subst h; simp [keys])

/-- F22, C19 (d) is FALSE for TopoART: `TopoART(FuzzyART(rho=0), …).set_params(rho=0.5)` returns normally and leaves a
wrapper that is, attribute for attribute, the one constructed over `FuzzyART(rho=0.5)` — but NOTHING was delegated
(`calls = []`): the base module, whose `params` training reads, still has `rho = 0`.  `rho = 7.0`, which no
FuzzyART accepts, is accepted too (TopoART.validate_params does not run the base module's checks on the copy). -/
theorem TopoART_flat_copy_counterexample :
    outcome (topoSet [("rho", .flt half)] (topoW 0)) = (none, topoW half) ∧ (topoW half).calls = [] ∧
    ((extOf (objs 0 half)).params (.mod 7) (topoW half)).1.toOption = some (fz 0).params ∧
    (outcome (topoSet [("rho", .flt 7)] (topoW 0))).1 = none := by decide +kernel

/-- … `_partial`: for TopoART's own arguments `set_params` gives exactly the constructed estimator, an out-of-range
value (`beta_lower > beta`, `phi > tau`, a float `tau`) or an unknown name is rejected and nothing changes, and
`set_params(**get_params())` changes nothing -/
theorem TopoART_own_params_examples :
    outcome (topoSet [("beta_lower", .flt 1), ("tau", .int 9), ("phi", .int 9)] (topoW half))
      = outcome (TopoART.__init__ (extOf (objs half half)) (.mod 7) (.flt 1) (.int 9) (.int 9) ⟨[], []⟩) ∧
    outcome (topoSet [("beta_lower", .flt 7)] (topoW half)) = (some .assert, topoW half) ∧
    outcome (topoSet [("phi", .int 6)] (topoW half)) = (some .assert, topoW half) ∧
    outcome (topoSet [("tau", .flt 9)] (topoW half)) = (some .assert, topoW half) ∧
    outcome (topoSet [("tau", .int 9), ("zz", .int 1)] (topoW half)) = (some .value, topoW half) ∧
    (BaseART.get_params true (topoW half)).1.toOption
      = some [("rho", .flt half), ("alpha", .flt 0), ("beta", .flt 1), ("beta_lower", .flt half), ("tau", .int 5),
          ("phi", .int 2)] ∧
    outcome (topoSet [("rho", .flt half), ("alpha", .flt 0), ("beta", .flt 1), ("beta_lower", .flt half),
        ("tau", .int 5), ("phi", .int 2)] (topoW half)) = (none, topoW half) := by decide +kernel

/-- `CVIART(FuzzyART(r7, 0.0, 1.0), 1)` -/
def cviW (r7 : Rat) : Q.World := (CVIART.__init__ (extOf (objs r7 half)) (.mod 7) (.int 1) ⟨[], []⟩).2

abbrev cviSet (r7 : Rat) := BaseART.set_params (CVIART.validate_params (extOf (objs r7 half))) Q.logSetParams

/-- CVIART: the constructor (flat copy `dict(base_module.params, validity=…)`), F21 (the names), F22 (a new `rho`
lands in the copy, nothing is delegated, the wrapper equals the one constructed over `FuzzyART(rho=0.5)` while the
base module keeps `rho = 0`).  Unlike TopoART, CVIART.validate_params runs the base module's checks on the copy:
`rho = 7.0` is rejected and nothing changes; so are `validity = 9` and a float `validity`. -/
theorem CVIART_flat_copy_counterexample :
    Q.dget (cviW half).self "params"
      = some (.dict (cviParams (fz half).params (.int 1))) ∧
    ((BaseART.get_params false (cviW half)).1.toOption.map keys) = some ["rho", "alpha", "beta", "validity"] ∧
    CVIART.args = ["base_module", "validity"] ∧
    outcome (cviSet 0 [("rho", .flt half)] (cviW 0)) = (none, cviW half) ∧ (cviW half).calls = [] ∧
    outcome (cviSet 0 [("rho", .flt 7)] (cviW 0)) = (some .assert, cviW 0) ∧
    outcome (cviSet 0 [("validity", .int 9)] (cviW 0)) = (some .assert, cviW 0) ∧
    outcome (cviSet 0 [("validity", .flt 1)] (cviW 0)) = (some .assert, cviW 0) ∧
    outcome (cviSet 0 [("validity", .int 3)] (cviW 0))
      = outcome (CVIART.__init__ (extOf (objs 0 half)) (.mod 7) (.int 3) ⟨[], []⟩) ∧
    outcome (CVIART.__init__ (extOf (objs 0 half)) (.mod 7) (.int 0) ⟨[], []⟩)
      = (some .assert, ⟨[("base_module", .val (.mod 7))], []⟩) := by decide +kernel

/-! ### iCVIFuzzyART -/

/-- C19 (a) holds for iCVIFuzzyART (since /repo 9f458f8): the parameter store after the constructor has exactly the
constructor's argument names, `offline` included; a float `validity` is rejected — after the FuzzyART part was
constructed (the object exists, with the two extra entries already in `params`) -/
theorem iCVIFuzzyART_names_example :
    ((BaseART.get_params false
        (iCVIFuzzyART.__init__ (.flt half) (.flt 0) (.flt 1) (.int 1) (.int 0) ⟨[], []⟩).2).1.toOption.map keys)
      = some iCVIFuzzyART.args ∧
    (outcome (iCVIFuzzyART.__init__ (.flt half) (.flt 0) (.flt 1) (.int 1) (.int 0) ⟨[], []⟩)).1 = none ∧
    (outcome (iCVIFuzzyART.__init__ (.flt half) (.flt 0) (.flt 1) (.flt 1) (.int 0) ⟨[], []⟩)).1 = some .assert ∧
    (outcome (iCVIFuzzyART.__init__ (.flt 2) (.flt 0) (.flt 1) (.int 1) (.int 0) ⟨[], []⟩)) = (some .assert, ⟨[], []⟩) ∧
    iCVIFuzzyART.defaults = [("offline", .int 1)] := by decide +kernel

/-- C19 `set_rejection_leaves_state` and `set_get_noop` (ArtProps/C19.lean) transported to iCVIFuzzyART, which
inherits `BaseART.set_params` and `FuzzyART.validate_params` (its extra entries `validity` / `offline` are ordinary
keys of the store): a rejected call changes nothing, `set_params(**get_params())` is a no-op. -/
theorem iCVIFuzzyART_rejected_unchanged (e : Est) (c : List (Nat × Store)) (kvs : List (String × Val))
    (hn : (keys kvs).Nodup) (x : Err) (w' : Q.World)
    (h : BaseART.set_params (fun p => Q.Py.lift (FuzzyART.validate_params p)) Q.logSetParams kvs (toWorld e c)
      = (.error x, w')) (hx : x ≠ .attr) : w' = toWorld e c :=
  Art.GenSpec.Params.gen_rejected_unchanged _ fuzzyART.checks Art.GenSpec.Params.validate_FuzzyART e c kvs hn x w' h hx

theorem iCVIFuzzyART_set_get_noop (e : Est) (hwf : e.WF) (hv : validate fuzzyART.checks e.params = none)
    (c : List (Nat × Store)) :
    ∃ ps, BaseART.get_params true (toWorld e c) = (.ok ps, toWorld e c) ∧
      BaseART.set_params (fun p => Q.Py.lift (FuzzyART.validate_params p)) Q.logSetParams ps (toWorld e c)
        = (.ok (), toWorld e c) :=
  Art.GenSpec.Params.gen_set_get_noop _ fuzzyART.checks Art.GenSpec.Params.validate_FuzzyART e hwf hv c

/-! ### the whole tree: the wrapper's generated step, then the delegated calls on the nested estimators -/

/-- the step of an ARTMAP wrapper, from the generated code: `__dict__` after the call, the exception, the calls -/
def artmapStep (ext : Q2.Ext) (kvs : List (String × Val)) (d : List (String × Q.Slot)) :
    List (String × Q.Slot) × Option Err × List (Nat × Store) :=
  let r := BaseARTMAP.set_params (ARTMAP.get_params ext) Q.logSetParams kvs ⟨d, []⟩
  (r.2.self, (outcome r).1, r.2.calls)

def fzEst (rho : Rat) : Est := ⟨"FuzzyART", (fz rho).params, initAttrs⟩

def artmapTree : Tree2 (List (String × Q.Slot)) :=
  ⟨amDict (.mod 7) (.mod 9), [(7, fzEst half, validate fuzzyART.checks), (9, fzEst half, validate fuzzyART.checks)]⟩

/-- C19 (c) on the whole tree is FALSE for ARTMAP: `set_params(module_a__rho=0.75, module_b__rho=7.0)` raises
(module_b rejects 7.0) after module_a was changed.  `_partial`: a call that reaches one nested estimator only is all
or nothing (second and third conjunct) and equals constructing over the changed module. -/
theorem ARTMAP_tree_partial_update_counterexample :
    let ext := extOf (objs half half)
    let r := artmapTree.setParams (artmapStep ext [("module_a__rho", .flt (mkRat 3 4)), ("module_b__rho", .flt 7)])
    let r1 := artmapTree.setParams (artmapStep ext [("module_b__rho", .flt 7), ("module_b__beta", .flt half)])
    let r2 := artmapTree.setParams (artmapStep ext [("module_b__rho", .flt 1), ("module_b__beta", .flt half)])
    (r.2 = some .assert ∧ r.1.top = artmapTree.top ∧
      r.1.kids.map (fun k => (k.1, k.2.1)) = [(7, fzEst (mkRat 3 4)), (9, fzEst half)]) ∧
    (r1.2 = some .assert ∧ r1.1.top = artmapTree.top ∧
      r1.1.kids.map (fun k => (k.1, k.2.1)) = [(7, fzEst half), (9, fzEst half)]) ∧
    (r2.2 = none ∧ r2.1.top = artmapTree.top ∧
      r2.1.kids.map (fun k => (k.1, k.2.1))
        = [(7, fzEst half), (9, ⟨"FuzzyART", [("rho", .flt 1), ("alpha", .flt 0), ("beta", .flt half)], initAttrs⟩)]) := by
  decide +kernel

end Art.GenSpec.Params2
