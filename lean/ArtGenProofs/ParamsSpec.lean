/-
ArtGenProofs.ParamsSpec — the generated estimator protocol (`ArtGen/Params.lean`, regenerated from the Python
source by `harness/artv/qtrans.py`) equals the protocol model of `ArtModel/Params.lean`, for all stores, all
estimators, all keyword lists; the C19 theorems transported to the generated definitions.
-/
import ArtGen.Params
import ArtProps.C19

set_option linter.unusedSimpArgs false

namespace Art.GenSpec.Params
open Art Art.Params Art.Gen.Params

/-! ### dicts: the translator's helpers are the model's store operations -/

theorem dget_eq (p : Store) (k : String) : Q.dget p k = get? p k := by
  induction p with
  | nil => rfl
  | cons kv r ih => obtain ⟨k', v⟩ := kv; simp only [Q.dget, get?, ih]

theorem dhas_eq (p : Store) (k : String) : Q.dhas p k = (get? p k).isSome := by
  simp only [Q.dhas, dget_eq]

theorem dset_eq (p : Store) (k : String) (v : Val) : Q.dset p k v = upsert p k v := by
  induction p with
  | nil => rfl
  | cons kv r ih =>
    obtain ⟨k', v'⟩ := kv
    by_cases h : k' = k
    · simp [Q.dset, upsert, get?, assign, h]
    · simp only [Q.dset, h, if_false, ih]
      simp only [upsert, get?, h, if_false, assign]
      split <;> simp

/-! ### `validate_params`: assert by assert -/

/-- one assert line of the model as the action the generated code performs -/
def chk (p : Store) (c : Check) : Except Err Unit :=
  match evalCheck p c with
  | none => .ok ()
  | some e => .error e

/-- `validate checks` as a `validate_params` function -/
def vpOf (checks : List Check) (p : Store) : Except Err Unit :=
  match validate checks p with
  | none => .ok ()
  | some e => .error e

theorem vpOf_nil (p : Store) : vpOf [] p = pure () := rfl

theorem vpOf_cons (c : Check) (cs : List Check) (p : Store) :
    vpOf (c :: cs) p = (do chk p c; vpOf cs p) := by
  simp only [vpOf, validate, chk]
  cases evalCheck p c <;> rfl

theorem L_has (p : Store) (k : String) : Q.assert (Q.dhas p k) = chk p (.has k) := by
  simp only [Q.assert, dhas_eq, chk, evalCheck]
  cases get? p k <;> rfl

theorem L_float {β : Type} (p : Store) (k : String) (rest : Except Err β) :
    (do Q.assert (Q.isinstance (← Q.getitem p k) Q.PyType.float); rest) = (do chk p (.isFloat k); rest) := by
  simp only [Q.getitem, dget_eq, chk, evalCheck]
  cases get? p k with
  | none => rfl
  | some v => cases v <;> rfl

theorem L_arr {β : Type} (p : Store) (k : String) (rest : Except Err β) :
    (do Q.assert (Q.isinstance (← Q.getitem p k) Q.PyType.ndarray); rest) = (do chk p (.isArr k); rest) := by
  simp only [Q.getitem, dget_eq, chk, evalCheck]
  cases get? p k with
  | none => rfl
  | some v => cases v <;> rfl

/-- `op` is `>=` (`strict = false`) or `>` (`strict = true`) -/
def IsLower (op : Q.Cmp) (strict : Bool) : Prop :=
  ∀ a b : Rat, op.rel a b = if strict then decide (b < a) else decide (b ≤ a)

theorem isLower_ge : IsLower .ge false := fun _ _ => rfl
theorem isLower_gt : IsLower .gt true := fun _ _ => rfl

theorem okLo_eq {op : Q.Cmp} {s : Bool} (h : IsLower op s) (ci : Int) (q : Rat) :
    Bound.okLo ⟨ci, s⟩ q = op.rel q (ci : Rat) := by
  rw [h]; cases s <;> simp [Bound.okLo]

theorem okHi_eq {op : Q.Cmp} {s : Bool} (h : IsLower op s) (ci : Int) (q : Rat) :
    Bound.okHi ⟨ci, s⟩ q = op.rel (ci : Rat) q := by
  rw [h]; cases s <;> simp [Bound.okHi]

/-- `assert params[k] op c` -/
theorem L_lo {β : Type} {op : Q.Cmp} {s : Bool} (h : IsLower op s) (ci : Int) (p : Store) (k : String)
    (rest : Except Err β) :
    (do Q.assert (← Q.truth (← Q.cmpVN op (← Q.getitem p k) (ci : Rat))); rest)
      = (do chk p (.range k (some ⟨ci, s⟩) none); rest) := by
  simp only [Q.getitem, dget_eq, chk, evalCheck]
  cases get? p k with
  | none => rfl
  | some v =>
    cases v with
    | flt q =>
      simp only [Val.numView, inRange, okLo_eq h, Bool.true_and]
      cases hr : op.rel q (ci : Rat) <;> simp [Q.cmpVN, Q.truth, Q.assert, hr, bind, Except.bind]
    | int i =>
      simp only [Val.numView, inRange, okLo_eq h, Bool.true_and]
      cases hr : op.rel (i : Rat) (ci : Rat) <;> simp [Q.cmpVN, Q.truth, Q.assert, hr, bind, Except.bind]
    | arr l =>
      rcases l with _ | ⟨x, _ | ⟨y, t⟩⟩
      · rfl
      · simp only [Val.numView, inRange, okLo_eq h, Bool.true_and]
        cases hr : op.rel x (ci : Rat) <;> simp [Q.cmpVN, Q.truth, Q.assert, hr, bind, Except.bind]
      · rfl
    | lst l => rfl
    | mod i => rfl
    | non => rfl

/-- `assert ch oph params[k] opl cl` -/
theorem L_chain {β : Type} {oph opl : Q.Cmp} {sh sl : Bool} (hh : IsLower oph sh) (hl : IsLower opl sl)
    (chi cli : Int) (p : Store) (k : String) (rest : Except Err β) :
    (do let t ← Q.getitem p k
        Q.assert (← Q.truth (← Q.chain (Q.cmpNV oph (chi : Rat) t) (fun _ => Q.cmpVN opl t (cli : Rat))))
        rest)
      = (do chk p (.range k (some ⟨cli, sl⟩) (some ⟨chi, sh⟩)); rest) := by
  simp only [Q.getitem, dget_eq, chk, evalCheck]
  cases get? p k with
  | none => rfl
  | some v =>
    cases v with
    | flt q =>
      simp only [Val.numView, inRange, okLo_eq hl, okHi_eq hh]
      cases h1 : oph.rel (chi : Rat) q <;> cases h2 : opl.rel q (cli : Rat) <;>
        simp [Q.cmpNV, Q.cmpVN, Q.chain, Q.truth, Q.assert, h1, h2, bind, Except.bind]
    | int i =>
      simp only [Val.numView, inRange, okLo_eq hl, okHi_eq hh]
      cases h1 : oph.rel (chi : Rat) (i : Rat) <;> cases h2 : opl.rel (i : Rat) (cli : Rat) <;>
        simp [Q.cmpNV, Q.cmpVN, Q.chain, Q.truth, Q.assert, h1, h2, bind, Except.bind]
    | arr l =>
      rcases l with _ | ⟨x, _ | ⟨y, t⟩⟩
      · rfl
      · simp only [Val.numView, inRange, okLo_eq hl, okHi_eq hh]
        cases h1 : oph.rel (chi : Rat) x <;> cases h2 : opl.rel x (cli : Rat) <;>
          simp [Q.cmpNV, Q.cmpVN, Q.chain, Q.truth, Q.assert, h1, h2, bind, Except.bind]
      · rfl
    | lst l => rfl
    | mod i => rfl
    | non => rfl

/-! the instances for the literals and operators that occur in the source (`0`, `0.0`, `1.0`; `>=`, `>`) -/

theorem L_lo_ge0 {β : Type} (p : Store) (k : String) (rest : Except Err β) :
    (do Q.assert (← Q.truth (← Q.cmpVN .ge (← Q.getitem p k) (0 : Rat))); rest)
      = (do chk p (.range k ge0 none); rest) := L_lo isLower_ge 0 p k rest

theorem L_lo_gt0 {β : Type} (p : Store) (k : String) (rest : Except Err β) :
    (do Q.assert (← Q.truth (← Q.cmpVN .gt (← Q.getitem p k) (0 : Rat))); rest)
      = (do chk p (.range k gt0 none); rest) := L_lo isLower_gt 0 p k rest

theorem L_lo_ge1 {β : Type} (p : Store) (k : String) (rest : Except Err β) :
    (do Q.assert (← Q.truth (← Q.cmpVN .ge (← Q.getitem p k) (1 : Rat))); rest)
      = (do chk p (.range k ge1 none); rest) := L_lo isLower_ge 1 p k rest

theorem L_chain_ge1_ge0 {β : Type} (p : Store) (k : String) (rest : Except Err β) :
    (do let t ← Q.getitem p k
        Q.assert (← Q.truth (← Q.chain (Q.cmpNV .ge (1 : Rat) t) (fun _ => Q.cmpVN .ge t (0 : Rat))))
        rest)
      = (do chk p (.range k ge0 le1); rest) := L_chain isLower_ge isLower_ge 1 0 p k rest

theorem L_chain_ge1_gt0 {β : Type} (p : Store) (k : String) (rest : Except Err β) :
    (do let t ← Q.getitem p k
        Q.assert (← Q.truth (← Q.chain (Q.cmpNV .ge (1 : Rat) t) (fun _ => Q.cmpVN .gt t (0 : Rat))))
        rest)
      = (do chk p (.range k gt0 le1); rest) := L_chain isLower_ge isLower_gt 1 0 p k rest

/-- the rewriting that turns a generated `validate_params` into the model's list of checks -/
macro "validate_tac" : tactic =>
  `(tactic| simp only [vpOf_cons, vpOf_nil, L_has, L_float, L_arr, L_lo_ge0, L_lo_gt0, L_lo_ge1,
      L_chain_ge1_ge0, L_chain_ge1_gt0])

theorem validate_ART1 (p : Store) : ART1.validate_params p = vpOf art1.checks p := by
  simp only [ART1.validate_params, art1]; validate_tac

theorem validate_ART2A (p : Store) : ART2A.validate_params p = vpOf art2a.checks p := by
  simp only [ART2A.validate_params, art2a]; validate_tac

theorem validate_FuzzyART (p : Store) : FuzzyART.validate_params p = vpOf fuzzyART.checks p := by
  simp only [FuzzyART.validate_params, fuzzyART]; validate_tac

theorem validate_HypersphereART (p : Store) :
    HypersphereART.validate_params p = vpOf hypersphereART.checks p := by
  simp only [HypersphereART.validate_params, hypersphereART]; validate_tac

theorem validate_EllipsoidART (p : Store) : EllipsoidART.validate_params p = vpOf ellipsoidART.checks p := by
  simp only [EllipsoidART.validate_params, ellipsoidART]; validate_tac

theorem validate_BayesianART (p : Store) : BayesianART.validate_params p = vpOf bayesianART.checks p := by
  simp only [BayesianART.validate_params, bayesianART]; validate_tac

theorem validate_QuadraticNeuronART (p : Store) :
    QuadraticNeuronART.validate_params p = vpOf quadraticNeuronART.checks p := by
  simp only [QuadraticNeuronART.validate_params, quadraticNeuronART]; validate_tac

/-- the assert of `GaussianART.validate_params` that the class table of the model does not have
(`assert np.all(params["sigma_init"] > 0.0)`, added by /repo 93b753d): every entry of the array is positive -/
def sigmaPositive (p : Store) : Except Err Unit :=
  match get? p "sigma_init" with
  | some (.arr l) => if l.all (fun x => decide (0 < x)) then .ok () else .error .assert
  | _ => .ok ()

theorem L_sigma (p : Store) :
    (do chk p (.isArr "sigma_init")
        Q.assert (Q.npAll (← Q.cmpVN .gt (← Q.getitem p "sigma_init") (0 : Rat)))
        pure ())
      = (do chk p (.isArr "sigma_init"); sigmaPositive p) := by
  simp only [Q.getitem, dget_eq, chk, evalCheck, sigmaPositive]
  cases get? p "sigma_init" with
  | none => rfl
  | some v =>
    cases v with
    | arr l =>
      cases h : l.all (fun x => decide (0 < x)) <;>
        simp [Q.cmpVN, Q.npAll, Q.assert, Q.Cmp.rel, List.all_map, Function.comp_def, h, bind, Except.bind, pure,
          Except.pure]
    | _ => rfl

/-- GaussianART: the generated `validate_params` is the model's check list **followed by** the entry check
`sigmaPositive` (the deviation of the model from the source). -/
theorem validate_GaussianART (p : Store) :
    GaussianART.validate_params p = (do vpOf gaussianART.checks p; sigmaPositive p) := by
  simp only [GaussianART.validate_params, gaussianART]
  validate_tac
  simp only [bind_assoc, pure_bind, L_sigma]

/-- … so it is the model's `validate` on every store whose `sigma_init` is not an array with a non-positive entry -/
theorem validate_GaussianART_of_positive (p : Store) (h : sigmaPositive p = .ok ()) :
    GaussianART.validate_params p = vpOf gaussianART.checks p := by
  rw [validate_GaussianART, h]
  cases vpOf gaussianART.checks p <;> rfl

/-! ### signatures -/

/-- constructor argument names and default values read off the `__init__` signatures = the class table -/
theorem signatures :
    [ART1.args, ART2A.args, FuzzyART.args, HypersphereART.args, EllipsoidART.args, GaussianART.args,
      BayesianART.args, QuadraticNeuronART.args] = classTable.map (·.args) ∧
    [ART1.defaults, ART2A.defaults, FuzzyART.defaults, HypersphereART.defaults, EllipsoidART.defaults,
      GaussianART.defaults, BayesianART.defaults, QuadraticNeuronART.defaults] = classTable.map (·.defaults) :=
  ⟨rfl, rfl⟩

/-! ### the object -/

/-- the instance `__dict__` of the estimator `e`: the `params` dict first (`BaseART.__init__` stores it first) -/
def toSelf (e : Est) : List (String × Q.Slot) :=
  ("params", .dict e.params) :: e.attrs.map (fun kv => (kv.1, Q.Slot.val kv.2))

/-- the estimator `e` and the log of delegated calls as the state the generated methods run on -/
def toWorld (e : Est) (calls : List (Nat × Store)) : Q.World := ⟨toSelf e, calls⟩

theorem bind_apply {β γ : Type} (m : Q.M β) (f : β → Q.M γ) (w : Q.World) :
    (m >>= f) w = match m w with
      | (.ok b, w') => f b w'
      | (.error e, w') => (.error e, w') := by
  show Q.Py.bind m f w = _
  unfold Q.Py.bind
  rcases m w with ⟨r | r, w'⟩ <;> rfl

theorem pure_apply {β : Type} (b : β) (w : Q.World) : (pure b : Q.M β) w = (.ok b, w) := rfl

theorem selfParams_toWorld (e : Est) (c : List (Nat × Store)) :
    Q.selfParams (toWorld e c) = (.ok e.params, toWorld e c) := by
  simp [Q.selfParams, toWorld, toSelf, Q.dget]

theorem dget_attrs (a : Store) (k : String) :
    Q.dget (a.map (fun kv => (kv.1, Q.Slot.val kv.2))) k = (get? a k).map Q.Slot.val := by
  induction a with
  | nil => rfl
  | cons kv r ih =>
    obtain ⟨k', v⟩ := kv
    simp only [List.map_cons, Q.dget, get?, ih]
    split <;> rfl

theorem dset_attrs (a : Store) (k : String) (v : Val) :
    Q.dset (a.map (fun kv => (kv.1, Q.Slot.val kv.2))) k (.val v)
      = (upsert a k v).map (fun kv => (kv.1, Q.Slot.val kv.2)) := by
  rw [← dset_eq]
  induction a with
  | nil => rfl
  | cons kv r ih =>
    obtain ⟨k', v'⟩ := kv
    simp only [List.map_cons, Q.dset]
    split
    · rfl
    · simp only [List.map_cons, ih]

/-- `__getattr__`: the parameter store, else `AttributeError`; the object is not touched -/
theorem getattr_spec (e : Est) (c : List (Nat × Store)) (k : String) :
    BaseART.__getattr__ k (toWorld e c)
      = (match get? e.params k with
          | some v => .ok v
          | none => .error .attr, toWorld e c) := by
  simp only [BaseART.__getattr__, bind_apply, selfParams_toWorld, dhas_eq]
  cases h : get? e.params k with
  | none => simp [Q.Py.raise]
  | some v => simp [Q.Py.lift, Q.getitem, dget_eq, h, bind_apply, selfParams_toWorld]

/-- `getattr(est, k)` (instance `__dict__`, then the generated `__getattr__`) is the model's `getAttr` -/
theorem pyGetattr_spec (e : Est) (c : List (Nat × Store)) (k : String) (hk : k ≠ "params") :
    Q.pyGetattr BaseART.__getattr__ k (toWorld e c)
      = (match getAttr e k with
          | .ok v => .ok (.val v)
          | .error x => .error x, toWorld e c) := by
  have hk' : ¬ ("params" = k) := fun h => hk h.symm
  simp only [Q.pyGetattr, toWorld, toSelf, Q.dget, hk', if_false, dget_attrs, getAttr]
  cases h1 : get? e.attrs k with
  | some v => rfl
  | none =>
    have := getattr_spec e c k
    simp only [toWorld, toSelf] at this
    simp only [Option.map_none, this]
    cases get? e.params k <;> rfl

/-- `get_params()` returns the parameter store -/
theorem get_params_spec (e : Est) (c : List (Nat × Store)) (deep : Bool) :
    BaseART.get_params deep (toWorld e c) = (.ok (getParams e), toWorld e c) := by
  simp only [BaseART.get_params, bind_apply, selfParams_toWorld, pure_apply, getParams]

/-- `setattr(est, k, v)` is the model's `setAttr` (for every name but `params` itself, whose `__dict__` entry the
model does not have) -/
theorem setattr_spec (e : Est) (c : List (Nat × Store)) (k : String) (v : Val)
    (hk : k ≠ "params" ∨ (get? e.params k).isSome) :
    BaseART.__setattr__ k (.val v) (toWorld e c) = (.ok (), toWorld (setAttr e k v) c) := by
  simp only [BaseART.__setattr__, bind_apply, Q.selfDict, Q.Py.lift, Q.slotHas, Q.dgetD, toWorld, toSelf, Q.dget,
    if_true, Option.getD_some, dhas_eq, setAttr]
  cases h : (get? e.params k).isSome with
  | true =>
    simp [Q.asVal, Q.paramsSetitem, Q.Py.lift, Q.dget, Q.dset, bind_apply, pure_apply, dset_eq, upsert, h]
  | false =>
    have hk' : ¬ ("params" = k) := by
      rcases hk with hk | hk
      · exact fun h => hk h.symm
      · rw [h] at hk; cases hk
    simp [Q.objectSetattr, Q.dset, hk', bind_apply, pure_apply, dset_attrs]

theorem setattr_fresh (e : Est) (c : List (Nat × Store)) (k : String) (v : Val) (hk : k ≠ "params")
    (h : get? e.params k = none) :
    BaseART.__setattr__ k (.val v) (toWorld e c)
      = (.ok (), toWorld { e with attrs := upsert e.attrs k v } c) := by
  rw [setattr_spec e c k v (Or.inl hk)]
  simp [setAttr, h]

/-- the first attribute store of `__init__`, on the empty instance: `self.params = params` -/
theorem setattr_params_empty (cls : String) (p : Store) (c : List (Nat × Store)) :
    BaseART.__setattr__ "params" (.dict p) ⟨[], c⟩ = (.ok (), toWorld ⟨cls, p, []⟩ c) := by
  simp [BaseART.__setattr__, bind_apply, pure_apply, Q.selfDict, Q.Py.lift, Q.slotHas, Q.dgetD, Q.dget, Q.dhas,
    Q.objectSetattr, Q.dset, toWorld, toSelf]

/-- `BaseART.__init__(params)` on a fresh instance: validation first — a rejected dict leaves the instance without
any attribute — then the object of the model's `construct`. -/
theorem init_spec (vp : Store → Except Err Unit) (cls : String) (p : Store) (c : List (Nat × Store))
    (hdis : ∀ k ∈ keys initAttrs, get? p k = none) :
    BaseART.__init__ vp p ⟨[], c⟩
      = match vp p with
        | .error x => (.error x, ⟨[], c⟩)
        | .ok () => (.ok (), toWorld ⟨cls, p, initAttrs⟩ c) := by
  simp only [BaseART.__init__, bind_apply, Q.Py.lift]
  cases vp p with
  | error x => rfl
  | ok u =>
    have h1 := hdis "sample_counter_" (by decide)
    have h2 := hdis "weight_sample_counter_" (by decide)
    have h3 := hdis "d_min_" (by decide)
    have h4 := hdis "d_max_" (by decide)
    simp only [setattr_params_empty cls]
    rw [setattr_fresh _ _ _ _ (by decide) h1]
    simp only []
    rw [setattr_fresh _ _ _ _ (by decide) h2]
    simp only []
    rw [setattr_fresh _ _ _ _ (by decide) h3]
    simp only []
    rw [setattr_fresh _ _ _ _ (by decide) h4]
    rfl

/-- what a constructor call leaves behind: the model's object, or (rejected) the instance without attributes -/
def ofConstruct (r : Except Err Est) (c : List (Nat × Store)) : Except Err Unit × Q.World :=
  match r with
  | .ok e => (.ok (), toWorld e c)
  | .error x => (.error x, ⟨[], c⟩)

theorem init_generic (cs : ClassSpec) (vp extra : Store → Except Err Unit)
    (hvp : ∀ p, vp p = (do vpOf cs.checks p; extra p)) (kw p : Store) (hb : bindArgs cs kw = some p)
    (hdis : ∀ k ∈ keys initAttrs, get? p k = none) (c : List (Nat × Store)) :
    BaseART.__init__ vp p ⟨[], c⟩
      = match construct cs kw with
        | .error x => (.error x, ⟨[], c⟩)
        | .ok e =>
          match extra e.params with
          | .ok () => (.ok (), toWorld e c)
          | .error x => (.error x, ⟨[], c⟩) := by
  rw [init_spec vp cs.name p c hdis]
  simp only [construct, hb, hvp, vpOf]
  cases validate cs.checks p with
  | some x => rfl
  | none =>
    cases h : extra p <;> simp [h, bind, Except.bind]

theorem init_plain (cs : ClassSpec) (vp : Store → Except Err Unit) (hvp : ∀ p, vp p = vpOf cs.checks p)
    (kw p : Store) (hb : bindArgs cs kw = some p) (hdis : ∀ k ∈ keys initAttrs, get? p k = none)
    (c : List (Nat × Store)) :
    BaseART.__init__ vp p ⟨[], c⟩ = ofConstruct (construct cs kw) c := by
  rw [init_generic cs vp (fun _ => .ok ()) (fun p => by rw [hvp]; cases vpOf cs.checks p <;> rfl) kw p hb hdis c]
  cases construct cs kw <;> rfl

/-- the tail `pure ()` of a generated constructor -/
theorem then_pure (m : Q.M Unit) (w : Q.World) : (do m; pure ()) w = m w := by
  simp only [bind_apply, pure_apply]
  rcases m w with ⟨r | r, w'⟩ <;> rfl

/-! `Cls(**kw)`: whenever Python's argument binding (`bindArgs`, trusted) gives the constructor its arguments, the
generated constructor leaves the object of the model's `construct` — or, rejected, an instance without attributes. -/

theorem init_ART1 (kw : Store) (rho L : Val) (c : List (Nat × Store))
    (hb : bindArgs art1 kw = some [("rho", rho), ("L", L)]) :
    ART1.__init__ rho L ⟨[], c⟩ = ofConstruct (construct art1 kw) c := by
  simp only [ART1.__init__, then_pure]
  exact init_plain art1 _ validate_ART1 kw _ hb (by simp [keys, initAttrs, get?]) c

theorem init_ART2A (kw : Store) (rho alpha beta : Val) (c : List (Nat × Store))
    (hb : bindArgs art2a kw = some [("rho", rho), ("alpha", alpha), ("beta", beta)]) :
    ART2A.__init__ rho alpha beta ⟨[], c⟩ = ofConstruct (construct art2a kw) c := by
  simp only [ART2A.__init__, then_pure]
  exact init_plain art2a _ validate_ART2A kw _ hb (by simp [keys, initAttrs, get?]) c

theorem init_FuzzyART (kw : Store) (rho alpha beta : Val) (c : List (Nat × Store))
    (hb : bindArgs fuzzyART kw = some [("rho", rho), ("alpha", alpha), ("beta", beta)]) :
    FuzzyART.__init__ rho alpha beta ⟨[], c⟩ = ofConstruct (construct fuzzyART kw) c := by
  simp only [FuzzyART.__init__, then_pure]
  exact init_plain fuzzyART _ validate_FuzzyART kw _ hb (by simp [keys, initAttrs, get?]) c

theorem init_HypersphereART (kw : Store) (rho alpha beta r_hat : Val) (c : List (Nat × Store))
    (hb : bindArgs hypersphereART kw = some [("rho", rho), ("alpha", alpha), ("beta", beta), ("r_hat", r_hat)]) :
    HypersphereART.__init__ rho alpha beta r_hat ⟨[], c⟩ = ofConstruct (construct hypersphereART kw) c := by
  simp only [HypersphereART.__init__, then_pure]
  exact init_plain hypersphereART _ validate_HypersphereART kw _ hb (by simp [keys, initAttrs, get?]) c

theorem init_EllipsoidART (kw : Store) (rho alpha beta mu r_hat : Val) (c : List (Nat × Store))
    (hb : bindArgs ellipsoidART kw
      = some [("rho", rho), ("alpha", alpha), ("beta", beta), ("mu", mu), ("r_hat", r_hat)]) :
    EllipsoidART.__init__ rho alpha beta mu r_hat ⟨[], c⟩ = ofConstruct (construct ellipsoidART kw) c := by
  simp only [EllipsoidART.__init__, then_pure]
  exact init_plain ellipsoidART _ validate_EllipsoidART kw _ hb (by simp [keys, initAttrs, get?]) c

theorem init_BayesianART (kw : Store) (rho cov_init : Val) (c : List (Nat × Store))
    (hb : bindArgs bayesianART kw = some [("rho", rho), ("cov_init", cov_init)]) :
    BayesianART.__init__ rho cov_init ⟨[], c⟩ = ofConstruct (construct bayesianART kw) c := by
  simp only [BayesianART.__init__, then_pure]
  exact init_plain bayesianART _ validate_BayesianART kw _ hb (by simp [keys, initAttrs, get?]) c

theorem init_QuadraticNeuronART (kw : Store) (rho s_init lr_b lr_w lr_s : Val) (c : List (Nat × Store))
    (hb : bindArgs quadraticNeuronART kw
      = some [("rho", rho), ("s_init", s_init), ("lr_b", lr_b), ("lr_w", lr_w), ("lr_s", lr_s)]) :
    QuadraticNeuronART.__init__ rho s_init lr_b lr_w lr_s ⟨[], c⟩
      = ofConstruct (construct quadraticNeuronART kw) c := by
  simp only [QuadraticNeuronART.__init__, then_pure]
  exact init_plain quadraticNeuronART _ validate_QuadraticNeuronART kw _ hb (by simp [keys, initAttrs, get?]) c

/-- GaussianART: the model's `construct`, then the entry check the model does not have -/
theorem init_GaussianART (kw : Store) (rho sigma_init alpha : Val) (c : List (Nat × Store))
    (hb : bindArgs gaussianART kw = some [("rho", rho), ("sigma_init", sigma_init), ("alpha", alpha)]) :
    GaussianART.__init__ rho sigma_init alpha ⟨[], c⟩
      = match construct gaussianART kw with
        | .error x => (.error x, ⟨[], c⟩)
        | .ok e =>
          match sigmaPositive e.params with
          | .ok () => (.ok (), toWorld e c)
          | .error x => (.error x, ⟨[], c⟩) := by
  simp only [GaussianART.__init__, then_pure]
  exact init_generic gaussianART _ sigmaPositive validate_GaussianART kw _ hb (by simp [keys, initAttrs, get?]) c

/-! ### `set_params` -/

/-! #### `str.partition("__")` -/

theorem partitionChars_eq (l : List Char) :
    Q.partitionChars ['_', '_'] l
      = match (Art.Params.partitionChars l).2 with
        | some b => some ((Art.Params.partitionChars l).1, b)
        | none => none := by
  fun_induction Art.Params.partitionChars l with
  | case1 rest => simp [Q.partitionChars, List.isPrefixOf]
  | case2 c rest hne r ih =>
    have hpre : List.isPrefixOf ['_', '_'] (c :: rest) = false := by
      cases rest with
      | nil => simp [List.isPrefixOf]
      | cons d r' =>
        simp only [List.isPrefixOf, Bool.and_true, Bool.and_eq_false_iff, beq_eq_false_iff_ne, ne_eq]
        by_cases h1 : c = '_'
        · by_cases h2 : d = '_'
          · exact (hne r' h1 (by rw [h2])).elim
          · right; exact fun h => h2 h.symm
        · left; exact fun h => h1 h.symm
    simp only [Q.partitionChars, hpre, Bool.false_eq_true, if_false, ih]
    cases (Art.Params.partitionChars rest).2 <;> rfl
  | case3 => rfl

theorem partitionChars_none (l : List Char) (h : (Art.Params.partitionChars l).2 = none) :
    (Art.Params.partitionChars l).1 = l := by
  fun_induction Art.Params.partitionChars l with
  | case1 rest => simp at h
  | case2 c rest hne r ih => simp only at h ⊢; rw [ih h]
  | case3 => rfl

/-- the generic `partition` with the separator of the source, `"__"`, is the model's `partitionKey` -/
theorem partition_eq (s : String) :
    Q.partition s "__"
      = ((partitionKey s).1, (if (partitionKey s).2.isSome then "__" else ""), ((partitionKey s).2).getD "") := by
  have h2 : ("__" : String).toList = ['_', '_'] := rfl
  simp only [Q.partition, h2, partitionChars_eq, partitionKey]
  have hn := partitionChars_none s.toList
  obtain ⟨a, b, hab⟩ : ∃ a b, Art.Params.partitionChars s.toList = (a, b) := ⟨_, _, rfl⟩
  simp only [hab] at hn ⊢
  cases b with
  | some b => simp
  | none => simp [hn rfl]

/-! #### `nested_params`: a dict of dicts against the model's flat list -/

/-- the sub-parameters the model routes to the group `g` -/
def subOf (n : List (String × String × Val)) (g : String) : Store := (n.filter (·.1 = g)).map (·.2)

/-- the model's flat `nested` list as the `defaultdict(dict)` the code builds -/
def group (n : List (String × String × Val)) : List (String × Store) :=
  (eraseDupKeys (n.map (·.1))).map (fun g => (g, subOf n g))

theorem mem_eraseDupKeys {l : List String} {g : String} : g ∈ eraseDupKeys l ↔ g ∈ l := by
  induction l with
  | nil => simp [eraseDupKeys]
  | cons k ks ih =>
    simp only [eraseDupKeys, List.mem_cons, List.mem_filter, ih, decide_eq_true_eq]
    by_cases h : g = k <;> simp [h]

theorem nodup_eraseDupKeys (l : List String) : (eraseDupKeys l).Nodup := by
  induction l with
  | nil => simp [eraseDupKeys]
  | cons k ks ih =>
    simp only [eraseDupKeys, List.nodup_cons, List.mem_filter, decide_eq_true_eq]
    exact ⟨fun h => h.2 rfl, ih.filter _⟩

theorem eraseDupKeys_snoc (l : List String) (k : String) :
    eraseDupKeys (l ++ [k]) = if k ∈ l then eraseDupKeys l else eraseDupKeys l ++ [k] := by
  induction l with
  | nil => simp [eraseDupKeys]
  | cons a r ih =>
    simp only [List.cons_append, eraseDupKeys, ih, List.mem_cons]
    by_cases hka : k = a
    · subst hka
      by_cases hkr : k ∈ r <;> simp [hkr, List.filter_append]
    · by_cases hkr : k ∈ r <;> simp [hkr, hka, List.filter_append]

section Dict
variable {V : Type}

theorem dget_mapfn (L : List String) (f : String → V) (k : String) :
    Q.dget (L.map (fun g => (g, f g))) k = if k ∈ L then some (f k) else none := by
  induction L with
  | nil => rfl
  | cons a r ih =>
    simp only [List.map_cons, Q.dget, ih, List.mem_cons]
    by_cases h : a = k
    · subst h; simp
    · have h' : ¬ k = a := fun e => h e.symm
      simp [h, h']

theorem dset_snoc (d : List (String × V)) (k : String) (v : V) (h : k ∉ Q.dkeys d) :
    Q.dset d k v = d ++ [(k, v)] := by
  induction d with
  | nil => rfl
  | cons kv r ih =>
    obtain ⟨k', v'⟩ := kv
    simp only [Q.dkeys, List.map_cons, List.mem_cons, not_or] at h
    have h1 : ¬ k' = k := fun e => h.1 e.symm
    simp only [Q.dset, h1, if_false, List.cons_append, ih h.2]

theorem dset_mapfn (L : List String) (hnd : L.Nodup) (f : String → V) (k : String) (new : V) (hk : k ∈ L) :
    Q.dset (L.map (fun g => (g, f g))) k new = L.map (fun g => (g, if g = k then new else f g)) := by
  induction L with
  | nil => cases hk
  | cons a r ih =>
    simp only [List.nodup_cons] at hnd
    simp only [List.map_cons, Q.dset]
    by_cases h : a = k
    · subst h
      simp only [if_true, List.cons.injEq, true_and]
      apply List.map_congr_left
      intro g hg
      have : ¬ g = a := fun e => hnd.1 (e ▸ hg)
      simp [this]
    · simp only [h, if_false, List.cons.injEq, true_and]
      have hk' : k ∈ r := by
        simp only [List.mem_cons] at hk
        rcases hk with hk | hk
        · exact absurd hk.symm h
        · exact hk
      exact ih hnd.2 hk'

theorem dset_dset_same (d : List (String × V)) (k : String) (v : V) :
    Q.dset (Q.dset d k v) k v = Q.dset d k v := by
  induction d with
  | nil => simp [Q.dset]
  | cons kv r ih =>
    obtain ⟨k', v'⟩ := kv
    by_cases h : k' = k <;> simp [Q.dset, h, ih]

end Dict

theorem subOf_snoc (n : List (String × String × Val)) (k s : String) (v : Val) (g : String) :
    subOf (n ++ [(k, s, v)]) g = if g = k then subOf n g ++ [(s, v)] else subOf n g := by
  simp only [subOf, List.filter_append, List.map_append]
  by_cases h : g = k
  · subst h; simp
  · have h' : ¬ k = g := fun e => h e.symm
    simp [h, h']

/-- `nested_params[k][s] = v` on the dict of dicts = appending `(k, s, v)` to the model's flat list, for a
`(k, s)` that was not set before (keyword names are distinct) -/
theorem ddset2_group (n : List (String × String × Val)) (k s : String) (v : Val)
    (h : (k, s) ∉ n.map (fun t => (t.1, t.2.1))) :
    Q.ddset2 (group n) k s v = group (n ++ [(k, s, v)]) := by
  have hs : s ∉ Q.dkeys (subOf n k) := by
    intro hm
    apply h
    simp only [Q.dkeys, subOf, List.map_map, List.mem_map, List.mem_filter, decide_eq_true_eq,
      Function.comp] at hm
    obtain ⟨t, ⟨ht, hk⟩, hs⟩ := hm
    exact List.mem_map.mpr ⟨t, ht, by rw [← hk, ← hs]⟩
  simp only [Q.ddset2, Q.dgetD, group, dget_mapfn, mem_eraseDupKeys, List.map_append, List.map_cons, List.map_nil,
    eraseDupKeys_snoc]
  by_cases hk : k ∈ n.map (·.1)
  · simp only [hk, if_true, Option.getD_some, dset_snoc _ _ _ hs]
    rw [dset_mapfn _ (nodup_eraseDupKeys _) _ _ _ (mem_eraseDupKeys.mpr hk)]
    apply List.map_congr_left
    intro g _
    rw [subOf_snoc]
    by_cases hg : g = k <;> simp [hg]
  · simp only [hk, if_false, Option.getD_none]
    have hk' : k ∉ Q.dkeys ((eraseDupKeys (n.map (·.1))).map (fun g => (g, subOf n g))) := by
      intro hm
      simp only [Q.dkeys, List.map_map, List.mem_map, Function.comp] at hm
      obtain ⟨g, hg, e⟩ := hm
      exact hk (mem_eraseDupKeys.mp (e ▸ hg))
    rw [dset_snoc _ _ _ hk']
    simp only [List.map_append, List.map_cons, List.map_nil, subOf_snoc, if_true]
    have hnil : subOf n k = [] := by
      simp only [subOf, List.map_eq_nil_iff, List.filter_eq_nil_iff, decide_eq_true_eq]
      intro t ht e
      exact hk (List.mem_map.mpr ⟨t, ht, e⟩)
    congr 1
    · apply List.map_congr_left
      intro g hg
      have : ¬ g = k := fun e => hk (mem_eraseDupKeys.mp (e ▸ hg))
      simp [this]
    · simp [hnil, Q.dset]

/-! #### the three loops -/

abbrev Carried := Store × List (String × Store) × Store

/-- what one pass of the first loop does on `(local_params, nested_params, plain_params)` -/
def Step1 (p : Store) (w : Q.World) (body : String × Val → Carried → Q.M Carried) : Prop :=
  ∀ key v lp np pp, body (key, v) (lp, np, pp) w =
    if (get? p (partitionKey key).1).isSome then
      match (partitionKey key).2 with
      | some sub => (.ok (lp, Q.ddset2 np (partitionKey key).1 sub v, pp), w)
      | none => (.ok (Q.dset lp (partitionKey key).1 v, np, Q.dset pp (partitionKey key).1 v), w)
    else (.error .value, w)

theorem loop1 (p : Store) (w : Q.World) (body : String × Val → Carried → Q.M Carried) (hb : Step1 p w body) :
    ∀ (kvs : List (String × Val)) (st : LoopSt),
    (kvs.map (fun kv => partitionKey kv.1)).Nodup →
    (∀ kv ∈ kvs, (partitionKey kv.1).2 = none → (partitionKey kv.1).1 ∉ keys st.plain) →
    (∀ kv ∈ kvs, ∀ sub, (partitionKey kv.1).2 = some sub →
      ((partitionKey kv.1).1, sub) ∉ st.nested.map (fun t => (t.1, t.2.1))) →
    Q.Py.forEach kvs (st.loc, group st.nested, st.plain) body w =
      match setLoop p st kvs with
      | (st', none) => (.ok (st'.loc, group st'.nested, st'.plain), w)
      | (_, some x) => (.error x, w) := by
  intro kvs
  induction kvs with
  | nil => intro st _ _ _; rfl
  | cons kv rest ih =>
    intro st hnd h2a h2b
    obtain ⟨key, v⟩ := kv
    simp only [List.map_cons, List.nodup_cons] at hnd
    simp only [Q.Py.forEach, Q.Py.bind, hb key v, setLoop]
    by_cases hknown : (get? p (partitionKey key).1).isSome
    · simp only [hknown, if_true]
      cases hsub : (partitionKey key).2 with
      | some sub =>
        simp only []
        have hnew := h2b (key, v) List.mem_cons_self sub hsub
        rw [ddset2_group _ _ _ _ hnew]
        apply ih { st with nested := st.nested ++ [((partitionKey key).1, sub, v)] } hnd.2
        · intro kv' hm; exact h2a kv' (List.mem_cons_of_mem _ hm)
        · intro kv' hm sub' hs'
          simp only [List.map_append, List.map_cons, List.map_nil, List.mem_append, List.mem_singleton, not_or]
          refine ⟨h2b kv' (List.mem_cons_of_mem _ hm) sub' hs', ?_⟩
          intro heq
          apply hnd.1
          refine List.mem_map.mpr ⟨kv', hm, ?_⟩
          have h1 : (partitionKey kv'.1).1 = (partitionKey key).1 := (Prod.mk.inj heq).1
          have h2 : sub' = sub := (Prod.mk.inj heq).2
          apply Prod.ext h1
          rw [hs', hsub, h2]
      | none =>
        simp only []
        have hnew := h2a (key, v) List.mem_cons_self hsub
        rw [dset_eq, dset_snoc _ _ _ hnew]
        apply ih { st with plain := st.plain ++ [((partitionKey key).1, v)],
                           loc := upsert st.loc (partitionKey key).1 v } hnd.2
        · intro kv' hm hs'
          simp only [keys, List.map_append, List.map_cons, List.map_nil, List.mem_append, List.mem_singleton, not_or]
          refine ⟨h2a kv' (List.mem_cons_of_mem _ hm) hs', ?_⟩
          intro heq
          apply hnd.1
          refine List.mem_map.mpr ⟨kv', hm, ?_⟩
          apply Prod.ext heq
          rw [hs', hsub]
        · intro kv' hm; exact h2b kv' (List.mem_cons_of_mem _ hm)
    · simp only [hknown, if_false]
      rfl

theorem loop2 (c : List (Nat × Store)) (body : String × Val → Unit → Q.M Unit)
    (hb : ∀ (e : Est) k v, k ∈ keys e.params →
      body (k, v) () (toWorld e c) = (.ok (), toWorld (setAttr e k v) c)) :
    ∀ (kvs : List (String × Val)) (e : Est), (∀ kv ∈ kvs, kv.1 ∈ keys e.params) →
    Q.Py.forEach kvs () body (toWorld e c) = (.ok (), toWorld (assignAll e kvs) c) := by
  intro kvs
  induction kvs with
  | nil => intro e _; rfl
  | cons kv rest ih =>
    intro e h
    obtain ⟨k, v⟩ := kv
    have hk := h (k, v) List.mem_cons_self
    simp only [Q.Py.forEach, Q.Py.bind, hb e k v hk, assignAll, List.foldl_cons]
    apply ih
    intro kv' hm
    rw [setAttr_param v hk]
    simp only [keys_assign]
    exact h kv' (List.mem_cons_of_mem _ hm)

theorem loop3 (e : Est) (n : List (String × String × Val)) (body : String × Store → Unit → Q.M Unit)
    (hb : ∀ g sub c, body (g, sub) () (toWorld e c) =
      match get? e.params g with
      | some v => Q.logSetParams v sub (toWorld e c)
      | none => (.error .key, toWorld e c)) :
    ∀ (gs : List String) (c : List (Nat × Store)), (∀ g ∈ gs, g ∈ keys e.params) →
    Q.Py.forEach (gs.map (fun g => (g, subOf n g))) () body (toWorld e c) =
      (match (runNested.go e.params n gs).2 with
        | none => .ok ()
        | some x => .error x, toWorld e (c ++ (runNested.go e.params n gs).1)) := by
  intro gs
  induction gs with
  | nil => intro c _; simp [Q.Py.forEach, Q.Py.pure, runNested.go]
  | cons g gs ih =>
    intro c h
    have hg := get?_isSome_iff.mpr (h g List.mem_cons_self)
    simp only [List.map_cons, Q.Py.forEach, Q.Py.bind, hb, runNested.go]
    cases hv : get? e.params g with
    | none => rw [hv] at hg; cases hg
    | some v =>
      cases v with
      | mod id =>
        simp only [Q.logSetParams, toWorld]
        have := ih (c ++ [(id, subOf n g)]) (fun g' hm => h g' (List.mem_cons_of_mem _ hm))
        simp only [toWorld] at this
        rw [this]
        simp [subOf]
      | _ => simp [Q.logSetParams, toWorld]

theorem setLoop_nested_known (p : Store) (st : LoopSt) (kvs : List (String × Val)) :
    ∀ t ∈ (setLoop p st kvs).1.nested, t ∈ st.nested ∨ t.1 ∈ keys p := by
  induction kvs generalizing st with
  | nil => intro t hm; left; simpa [setLoop] using hm
  | cons kv r ih =>
    obtain ⟨key, v⟩ := kv
    simp only [setLoop]
    split
    · rename_i hknown
      split
      · rename_i sub _
        intro t hm
        rcases ih { st with nested := st.nested ++ [((partitionKey key).1, sub, v)] } t hm with h1 | h1
        · simp only [List.mem_append, List.mem_singleton] at h1
          rcases h1 with h1 | h1
          · left; exact h1
          · right; subst h1; exact get?_isSome_iff.mp hknown
        · right; exact h1
      · intro t hm
        exact ih { st with plain := st.plain ++ [((partitionKey key).1, v)],
                           loc := upsert st.loc (partitionKey key).1 v } t hm
    · intro t hm; left; exact hm

/-- the result of a `set_params` call of the model as the outcome of the generated method started with the call log `c` -/
def ofSetRes (r : SetRes) (c : List (Nat × Store)) : Except Err Unit × Q.World :=
  (match r.err with
    | none => .ok ()
    | some x => .error x, toWorld r.est (c ++ r.delegated))

/-- one pass of the second loop: `setattr(self, k, v)`, then the same write again through the alias `valid_params` -/
theorem body2_step (c : List (Nat × Store)) (e : Est) (k : String) (v : Val) (hk : k ∈ keys e.params) :
    (do BaseART.__setattr__ k (Q.Slot.val v); Q.paramsSetitem k v; pure () : Q.M Unit) (toWorld e c)
      = (.ok (), toWorld (setAttr e k v) c) := by
  have hs := get?_isSome_iff.mpr hk
  simp only [bind_apply, setattr_spec e c k v (Or.inr hs), pure_apply]
  rw [setAttr_param v hk]
  have h1 : assign e.params k v = Q.dset e.params k v := by rw [dset_eq, upsert_of_mem v hk]
  simp [Q.paramsSetitem, toWorld, toSelf, Q.dget, Q.dset, h1, dset_dset_same]

/-- one pass of the third loop: `valid_params[g].set_params(**sub)` with the logging stand-in -/
theorem body3_step (e : Est) (g : String) (sub : Store) (c : List (Nat × Store)) :
    (do Q.logSetParams (← Q.Py.lift (Q.getitem (← Q.selfParams) g)) sub; pure () : Q.M Unit) (toWorld e c)
      = match get? e.params g with
        | some v => Q.logSetParams v sub (toWorld e c)
        | none => (.error .key, toWorld e c) := by
  simp only [bind_apply, selfParams_toWorld, Q.Py.lift, Q.getitem, dget_eq, pure_apply]
  cases get? e.params g with
  | none => rfl
  | some v =>
    simp only []
    rcases Q.logSetParams v sub (toWorld e c) with ⟨r | r, w'⟩ <;> rfl

theorem set_params_spec (vp : Store → Except Err Unit) (checks : List Check) (e : Est) (c : List (Nat × Store))
    (kvs : List (String × Val)) (hn : (kvs.map (fun kv => partitionKey kv.1)).Nodup)
    (hvp : vp (setLoop e.params ⟨e.params, [], []⟩ kvs).1.loc
      = vpOf checks (setLoop e.params ⟨e.params, [], []⟩ kvs).1.loc) :
    BaseART.set_params vp Q.logSetParams kvs (toWorld e c) = ofSetRes (setParams checks e kvs) c := by
  cases hkvs : kvs with
  | nil => simp [BaseART.set_params, Q.dictTruth, setParams, ofSetRes, pure_apply]
  | cons kv0 rest0 =>
    rw [← hkvs]
    have hne : kvs.isEmpty = false := by rw [hkvs]; rfl
    have h1 := fun body hb => loop1 e.params (toWorld e c) body hb kvs ⟨e.params, [], []⟩ hn
      (fun _ _ _ => by simp [keys]) (fun _ _ _ _ => by simp)
    simp only [group, eraseDupKeys, List.map_nil] at h1
    simp only [BaseART.set_params, Q.dictTruth, hne, Bool.not_false, Bool.not_true, Bool.false_eq_true, if_false,
      bind_apply, get_params_spec, selfParams_toWorld, Q.items]
    rw [h1]
    · have hpk := setLoop_plain_known e.params ⟨e.params, [], []⟩ kvs
      have hnk := setLoop_nested_known e.params ⟨e.params, [], []⟩ kvs
      simp only [setParams, hne, Bool.false_eq_true, if_false, ofSetRes]
      generalize setLoop e.params ⟨e.params, [], []⟩ kvs = L at hvp hpk hnk ⊢
      obtain ⟨st, err⟩ := L
      cases err with
      | some x => simp
      | none =>
        simp only [Q.Py.lift] at hvp ⊢
        rw [hvp]
        simp only [vpOf]
        cases hv : validate checks st.loc with
        | some x => simp
        | none =>
          simp only []
          have hplain : ∀ kv ∈ st.plain, kv.1 ∈ keys e.params := by
            intro kv hm
            rcases hpk kv hm with h | h
            · simp at h
            · exact h
          rw [loop2 c _ (body2_step c) st.plain e hplain]
          simp only []
          have hkeys : keys (assignAll e st.plain).params = keys e.params := (assignAll_inv e st.plain hplain).1
          have hnested : ∀ g ∈ eraseDupKeys (st.nested.map (·.1)), g ∈ keys (assignAll e st.plain).params := by
            intro g hg
            rw [hkeys]
            obtain ⟨t, ht, rfl⟩ := List.mem_map.mp (mem_eraseDupKeys.mp hg)
            rcases hnk t ht with h | h
            · simp at h
            · exact h
          rw [loop3 (assignAll e st.plain) st.nested _ (body3_step _) _ c hnested]
          simp only [runNested]
          cases (runNested.go (assignAll e st.plain).params st.nested (eraseDupKeys (st.nested.map (·.1)))).2 <;> rfl
    · intro key v lp np pp
      simp only [partition_eq, bind_apply, selfParams_toWorld, dhas_eq]
      cases hk : (get? e.params (partitionKey key).1).isSome with
      | false => simp [bind_apply, selfParams_toWorld, Q.Py.raise]
      | true =>
        cases hs : (partitionKey key).2 with
        | some sub => simp [Q.strTruth, pure_apply]
        | none => simp [Q.strTruth, pure_apply]

/-! #### keyword names are distinct (a Python `**kwargs` dict): the hypothesis of `set_params_spec` -/

theorem partitionChars_recon (l : List Char) :
    l = (Art.Params.partitionChars l).1 ++
      (match (Art.Params.partitionChars l).2 with
        | some r => '_' :: '_' :: r
        | none => []) := by
  fun_induction Art.Params.partitionChars l with
  | case1 rest => rfl
  | case2 c rest hne r ih => simp only [List.cons_append]; rw [← ih]
  | case3 => rfl

theorem partitionKey_injective : Function.Injective partitionKey := by
  intro s1 s2 h
  simp only [partitionKey, Prod.mk.injEq] at h
  obtain ⟨h1, h2⟩ := h
  have e1 := String.ofList_injective h1
  have e2 : (Art.Params.partitionChars s1.toList).2 = (Art.Params.partitionChars s2.toList).2 := by
    cases ha : (Art.Params.partitionChars s1.toList).2 <;> cases hb : (Art.Params.partitionChars s2.toList).2 <;>
      simp only [ha, hb, Option.map_some, Option.map_none, Option.some.injEq, reduceCtorEq] at h2 ⊢
    exact String.ofList_injective h2
  apply String.toList_injective
  rw [partitionChars_recon s1.toList, partitionChars_recon s2.toList, e1, e2]

theorem nodup_map_inj {α β : Type} (f : α → β) (hf : ∀ a b, f a = f b → a = b) :
    ∀ l : List α, l.Nodup → (l.map f).Nodup
  | [], _ => List.nodup_nil
  | a :: l, h => by
    simp only [List.map_cons, List.nodup_cons, List.mem_map] at h ⊢
    refine ⟨?_, nodup_map_inj f hf l h.2⟩
    rintro ⟨b, hb, e⟩
    exact h.1 (hf _ _ e ▸ hb)

theorem nodup_partition_of_nodup_names (kvs : List (String × Val)) (h : (keys kvs).Nodup) :
    (kvs.map (fun kv => partitionKey kv.1)).Nodup := by
  have : kvs.map (fun kv => partitionKey kv.1) = (keys kvs).map partitionKey := by
    simp [keys, List.map_map, Function.comp]
  rw [this]
  exact nodup_map_inj _ (fun _ _ e => partitionKey_injective e) _ h

/-- **`BaseART.set_params`, generated = model**, for a `validate_params` that is the model's `validate checks`
(all classes of the table but GaussianART), for every estimator, every call log and every keyword list with
distinct names. -/
theorem set_params_eq (vp : Store → Except Err Unit) (checks : List Check) (hvp : ∀ p, vp p = vpOf checks p)
    (e : Est) (c : List (Nat × Store)) (kvs : List (String × Val)) (hn : (keys kvs).Nodup) :
    BaseART.set_params vp Q.logSetParams kvs (toWorld e c) = ofSetRes (setParams checks e kvs) c :=
  set_params_spec vp checks e c kvs (nodup_partition_of_nodup_names kvs hn) (hvp _)

/-- the generated `validate_params` of the seven classes whose check list the model has completely -/
theorem validate_table :
    (∀ p, ART1.validate_params p = vpOf art1.checks p) ∧ (∀ p, ART2A.validate_params p = vpOf art2a.checks p) ∧
    (∀ p, FuzzyART.validate_params p = vpOf fuzzyART.checks p) ∧
    (∀ p, HypersphereART.validate_params p = vpOf hypersphereART.checks p) ∧
    (∀ p, EllipsoidART.validate_params p = vpOf ellipsoidART.checks p) ∧
    (∀ p, BayesianART.validate_params p = vpOf bayesianART.checks p) ∧
    (∀ p, QuadraticNeuronART.validate_params p = vpOf quadraticNeuronART.checks p) :=
  ⟨validate_ART1, validate_ART2A, validate_FuzzyART, validate_HypersphereART, validate_EllipsoidART,
    validate_BayesianART, validate_QuadraticNeuronART⟩

/-- GaussianART: generated = model whenever the merged dict `local_params` passes the entry check the model
does not have (in particular whenever `sigma_init` is not passed and the estimator's own is positive) -/
theorem set_params_GaussianART (e : Est) (c : List (Nat × Store)) (kvs : List (String × Val))
    (hn : (keys kvs).Nodup)
    (hpos : sigmaPositive (setLoop e.params ⟨e.params, [], []⟩ kvs).1.loc = .ok ()) :
    BaseART.set_params GaussianART.validate_params Q.logSetParams kvs (toWorld e c)
      = ofSetRes (setParams gaussianART.checks e kvs) c :=
  set_params_spec _ _ e c kvs (nodup_partition_of_nodup_names kvs hn) (validate_GaussianART_of_positive _ hpos)

/-! ### the C19 theorems on the generated methods -/

/-- C19 `set_get_noop`: `est.set_params(**est.get_params())`, both generated, returns normally and leaves a valid
estimator (and the call log) exactly as it was. -/
theorem gen_set_get_noop (vp : Store → Except Err Unit) (checks : List Check) (hvp : ∀ p, vp p = vpOf checks p)
    (e : Est) (hwf : e.WF) (hv : validate checks e.params = none) (c : List (Nat × Store)) :
    ∃ ps, BaseART.get_params true (toWorld e c) = (.ok ps, toWorld e c) ∧
      BaseART.set_params vp Q.logSetParams ps (toWorld e c) = (.ok (), toWorld e c) := by
  refine ⟨getParams e, get_params_spec e c true, ?_⟩
  have hn : (keys (getParams e)).Nodup := hwf.nodup
  rw [set_params_eq vp checks hvp e c (getParams e) hn, C19.set_get_noop checks e hwf hv]
  simp [ofSetRes]

/-- C19 `set_rejection_leaves_state`: whatever the generated `set_params` raises — `ValueError` for an unknown
name, anything `validate_params` raises — except the `AttributeError` of the nested routing, the object and the call
log are exactly what they were: nothing was assigned before the rejection. -/
theorem gen_rejected_unchanged (vp : Store → Except Err Unit) (checks : List Check)
    (hvp : ∀ p, vp p = vpOf checks p) (e : Est) (c : List (Nat × Store)) (kvs : List (String × Val))
    (hn : (keys kvs).Nodup) (x : Err) (w' : Q.World)
    (h : BaseART.set_params vp Q.logSetParams kvs (toWorld e c) = (.error x, w')) (hx : x ≠ .attr) :
    w' = toWorld e c := by
  rw [set_params_eq vp checks hvp e c kvs hn] at h
  simp only [ofSetRes, Prod.mk.injEq] at h
  obtain ⟨h1, h2⟩ := h
  have herr : (setParams checks e kvs).err = some x := by
    cases he : (setParams checks e kvs).err with
    | none => rw [he] at h1; cases h1
    | some y => rw [he] at h1; cases h1; rfl
  obtain ⟨h3, h4⟩ := C19.set_rejection_leaves_state checks e kvs x herr hx
  rw [← h2, h3, h4, List.append_nil]

/-- C19 `set_rejects_unknown`: an unknown name anywhere in the call makes the generated `set_params` raise
`ValueError`, and the object is untouched. -/
theorem gen_unknown_rejected (vp : Store → Except Err Unit) (checks : List Check)
    (hvp : ∀ p, vp p = vpOf checks p) (e : Est) (c : List (Nat × Store)) (kvs : List (String × Val))
    (hn : (keys kvs).Nodup) (h : ∃ kv ∈ kvs, (partitionKey kv.1).1 ∉ keys e.params) :
    BaseART.set_params vp Q.logSetParams kvs (toWorld e c) = (.error .value, toWorld e c) := by
  have herr := C19.set_rejects_unknown checks e kvs h
  obtain ⟨h3, h4⟩ := C19.set_rejection_leaves_state checks e kvs .value herr (by decide)
  rw [set_params_eq vp checks hvp e c kvs hn]
  simp [ofSetRes, herr, h3, h4]

/-- C19 `set_params_eq_construct`: for every class of the table, the generated `set_params` with a full set of
new values turns the object constructed with `p` into exactly the object constructed with `p'`. -/
theorem gen_set_params_eq_construct (vp : Store → Except Err Unit) :
    ∀ cs ∈ classTable, (∀ p, vp p = vpOf cs.checks p) → ∀ (p p' : Store) (e e' : Est) (c : List (Nat × Store)),
    construct cs p = .ok e → construct cs p' = .ok e' → (keys p').Nodup →
    (∀ a ∈ cs.args, (get? p' a).isSome) →
    BaseART.set_params vp Q.logSetParams p' (toWorld e c) = (.ok (), toWorld e' c) := by
  intro cs hcs hvp p p' e e' c h h' hn htot
  rw [set_params_eq vp cs.checks hvp e c p' hn, C19.set_params_eq_construct cs hcs p p' e e' h h' hn htot]
  simp [ofSetRes]

/-- the same, entirely on generated definitions, for FuzzyART: construct, then `set_params` with new values
= construct with the new values. -/
theorem gen_FuzzyART_set_eq_init (rho alpha beta rho' alpha' beta' : Val) (c : List (Nat × Store))
    (h1 : (FuzzyART.__init__ rho alpha beta ⟨[], c⟩).1 = .ok ())
    (h2 : (FuzzyART.__init__ rho' alpha' beta' ⟨[], c⟩).1 = .ok ()) :
    BaseART.set_params FuzzyART.validate_params Q.logSetParams
        [("rho", rho'), ("alpha", alpha'), ("beta", beta')] (FuzzyART.__init__ rho alpha beta ⟨[], c⟩).2
      = (.ok (), (FuzzyART.__init__ rho' alpha' beta' ⟨[], c⟩).2) := by
  have hb : ∀ r a b : Val, bindArgs fuzzyART [("rho", r), ("alpha", a), ("beta", b)]
      = some [("rho", r), ("alpha", a), ("beta", b)] := by
    intro r a b; simp [bindArgs, bindList, keys, fuzzyART, get?]
  rw [init_FuzzyART _ rho alpha beta c (hb _ _ _)] at h1 ⊢
  rw [init_FuzzyART _ rho' alpha' beta' c (hb _ _ _)] at h2 ⊢
  cases hc : construct fuzzyART [("rho", rho), ("alpha", alpha), ("beta", beta)] with
  | error x => rw [hc] at h1; cases h1
  | ok e =>
    cases hc' : construct fuzzyART [("rho", rho'), ("alpha", alpha'), ("beta", beta')] with
    | error x => rw [hc'] at h2; cases h2
    | ok e' =>
      simp only [ofConstruct]
      exact gen_set_params_eq_construct _ fuzzyART (by simp [classTable]) validate_FuzzyART _ _ e e' c hc hc'
        (by simp [keys]) (by simp [fuzzyART, get?])

/-- C19 `attr_mirrors`: reading a parameter name as an attribute (`__dict__`, then the generated `__getattr__`)
gives the value the generated `get_params` holds; nothing is written. -/
theorem gen_attr_mirrors (e : Est) (hwf : e.WF) (c : List (Nat × Store)) (k : String)
    (hk : k ∈ keys (getParams e)) (hkp : k ≠ "params") :
    ∃ ps v, BaseART.get_params true (toWorld e c) = (.ok ps, toWorld e c) ∧ Q.dget ps k = some v ∧
      Q.pyGetattr BaseART.__getattr__ k (toWorld e c) = (.ok (.val v), toWorld e c) := by
  obtain ⟨v, hv, ha⟩ := C19.attr_mirrors e hwf k hk
  refine ⟨getParams e, v, get_params_spec e c true, by rw [dget_eq]; exact hv, ?_⟩
  rw [pyGetattr_spec e c k hkp, ha]

/-- C19 `attr_write_mirrors`: writing a parameter name as an attribute (the generated `__setattr__`) writes the
parameter store: afterwards the generated `get_params` and the attribute both show the new value. -/
theorem gen_attr_write_mirrors (e : Est) (hwf : e.WF) (c : List (Nat × Store)) (k : String) (v : Val)
    (hk : k ∈ keys (getParams e)) (hkp : k ≠ "params") :
    ∃ w' ps, BaseART.__setattr__ k (.val v) (toWorld e c) = (.ok (), w') ∧
      BaseART.get_params true w' = (.ok ps, w') ∧ Q.dget ps k = some v ∧
      Q.pyGetattr BaseART.__getattr__ k w' = (.ok (.val v), w') := by
  obtain ⟨h1, h2, _, _⟩ := C19.attr_write_mirrors e hwf k v hk
  refine ⟨toWorld (setAttr e k v) c, getParams (setAttr e k v), setattr_spec e c k v (Or.inl hkp),
    get_params_spec _ c true, by rw [dget_eq]; exact h1, ?_⟩
  rw [pyGetattr_spec _ c k hkp, h2]

/-! ### non-vacuity: the generated code run on concrete data -/

/-- the exception raised (if any) and the final state -/
def outcome (r : Except Err Unit × Q.World) : Option Err × Q.World :=
  (match r.1 with
    | .ok _ => none
    | .error x => some x, r.2)

/-- `FuzzyART(0.5, 0.0, 1.0)` -/
example : outcome (FuzzyART.__init__ (.flt (mkRat 1 2)) (.flt 0) (.flt 1) ⟨[], []⟩)
    = (none, toWorld C19.fuzzyHalf []) := by decide +kernel

/-- `FuzzyART(0.5, 0.0, 0.0)`: `beta > 0` fails, nothing was stored -/
example : outcome (FuzzyART.__init__ (.flt (mkRat 1 2)) (.flt 0) (.flt 0) ⟨[], []⟩)
    = (some .assert, ⟨[], []⟩) := by decide +kernel

/-- `GaussianART(0.5, np.array([0.5, 0.0]))`: the entry check the model lacks rejects -/
example : outcome (GaussianART.__init__ (.flt (mkRat 1 2)) (.arr [mkRat 1 2, 0]) (.flt (mkRat 1 10)) ⟨[], []⟩)
    = (some .assert, ⟨[], []⟩) := by decide +kernel

/-- a rejected value and a valid name before an unknown one (the former defect F25): nothing is assigned -/
example :
    outcome (BaseART.set_params FuzzyART.validate_params Q.logSetParams [("rho", .flt 2)]
      (toWorld C19.fuzzyHalf [])) = (some .assert, toWorld C19.fuzzyHalf []) ∧
    outcome (BaseART.set_params FuzzyART.validate_params Q.logSetParams
      [("alpha", .flt (mkRat 1 4)), ("bogus", .flt 1)] (toWorld C19.fuzzyHalf []))
        = (some .value, toWorld C19.fuzzyHalf []) := by decide +kernel

/-- accepted plain names are assigned; nested names are grouped and routed to the (new) module
(short names: the elaborator's evaluation of computed strings, which `decide` falls back to when it reports a
failure, is slow) -/
example :
    outcome (BaseART.set_params (fun _ => .ok ()) Q.logSetParams
      [("a__r", .flt (mkRat 1 2)), ("k", .int 3), ("b__x", .int 1), ("a__s", .flt 1), ("b", .mod 9)]
      (toWorld ⟨"M", [("a", .mod 7), ("k", .int 2), ("b", .mod 8)], [("n_", .int 0)]⟩ []))
    = (none, toWorld ⟨"M", [("a", .mod 7), ("k", .int 3), ("b", .mod 9)], [("n_", .int 0)]⟩
        [(7, [("r", .flt (mkRat 1 2)), ("s", .flt 1)]), (9, [("x", .int 1)])]) := by decide +kernel

/-- a nested name on a value that is no estimator: `AttributeError` after the plain names were assigned -/
example :
    outcome (BaseART.set_params FuzzyART.validate_params Q.logSetParams
      [("rho", .flt (mkRat 1 4)), ("beta__x", .flt 1)] (toWorld C19.fuzzyHalf []))
    = (some .attr, toWorld ⟨"FuzzyART", [("rho", .flt (mkRat 1 4)), ("alpha", .flt 0), ("beta", .flt 1)], initAttrs⟩ [])
      := by decide +kernel

/-- attribute access mirrors the parameters -/
example :
    (Q.pyGetattr BaseART.__getattr__ "rho" (toWorld C19.fuzzyHalf [])).1 = .ok (.val (.flt (mkRat 1 2))) ∧
    (Q.pyGetattr BaseART.__getattr__ "sample_counter_" (toWorld C19.fuzzyHalf [])).1 = .ok (.val (.int 0)) ∧
    (Q.pyGetattr BaseART.__getattr__ "nope" (toWorld C19.fuzzyHalf [])).1 = .error .attr := ⟨rfl, rfl, rfl⟩

end Art.GenSpec.Params
