/-
ArtGenProofs.ControlFit — `BaseART.step_pred`, `predict`, `partial_fit` and `fit`, as translated from the Python
source by `harness/artv/ctrans.py` (ArtGen/Control.lean), compute the model's `stepPred`, `predict`, `partialFit`
and `fitEpochs` — for all states, streams, modes, epsilons, reset functions and numbers of epochs, under the
kernel contract of ControlSpec.lean.
-/
import ArtGenProofs.ControlSpec

namespace Art.GenSpec.Control

open Art Art.Imp

/-! ### `for` loops without early return are folds -/

theorem forEach_next {R S A : Type} (g : S → A → S) (body : S → A → Flow R S)
    (h : ∀ s a, body s a = .next (g s a)) (as : List A) (s : S) :
    forEach body as s = .next (as.foldl g s) := by
  induction as generalizing s with
  | nil => rfl
  | cons a as ih => simp [forEach, h, ih]

/-- a loop that behaves like `g` on the states satisfying an invariant that `g` preserves -/
theorem forEach_next_inv {R S A : Type} (I : S → Prop) (g : S → A → S) (body : S → A → Flow R S)
    (as : List A)
    (h : ∀ s a, a ∈ as → I s → body s a = .next (g s a) ∧ I (g s a)) (s : S) (hs : I s) :
    forEach body as s = .next (as.foldl g s) ∧ I (as.foldl g s) := by
  induction as generalizing s with
  | nil => exact ⟨rfl, hs⟩
  | cons a as ih =>
    obtain ⟨hb, hi⟩ := h s a (by simp) hs
    have := ih (fun s' a' ha' hs' => h s' a' (by simp [ha']) hs') (g s a) hi
    simp [forEach, hb, this]

/-- writing `f x` at position `k + i` for the `i`-th element, into a vector that is long enough, yields the map -/
theorem foldl_set_zipIdx {A : Type} (f : A → Nat) (xs : List A) (k : Nat) (pre : List Nat) (hk : pre.length = k) (tail : List Nat)
    (ht : tail.length = xs.length) :
    (xs.zipIdx k).foldl (fun y (p : A × Nat) => y.set p.2 (f p.1)) (pre ++ tail) = pre ++ xs.map f := by
  induction xs generalizing k pre tail with
  | nil => cases tail with
    | nil => simp
    | cons _ _ => simp at ht
  | cons x xs ih =>
    cases tail with
    | nil => simp at ht
    | cons t tail =>
      simp only [List.zipIdx_cons, List.foldl_cons, List.map_cons]
      have h1 : (pre ++ t :: tail).set k (f x) = (pre ++ [f x]) ++ tail := by
        rw [← hk]; simp
      rw [h1]
      have := ih (k + 1) (pre ++ [f x]) (by simp [hk]) tail (by simpa using ht)
      rw [this]; simp

/-! ### Prediction -/

section Predict
variable {X Wt P C α μ : Type} [LinearOrder α] [Inhabited Wt] [Inhabited C]

/-- **`step_pred` is the model's `stepPred` and does not touch the estimator.** -/
theorem step_pred_spec (K : Kernel X Wt α μ) (E : Ext X Wt P C α) (self : Self Wt P) (x : X)
    (hch : ∀ w, (E.category_choice self.W x w self.params).1 = K.choice self.W x w) :
    Art.Gen.BaseART.step_pred E self x = (self, (stepPred K self.W x).getD 0) := by
  unfold Art.Gen.BaseART.step_pred stepPred activations
  simp only [List.map_map]
  have : (Prod.fst ∘ fun w => E.category_choice self.W x w self.params) = K.choice self.W x := by
    funext w; exact hch w
  rw [this]

/-- **`predict` is the row-wise map of `stepPred` and returns the estimator unchanged** (C08: pure, row-wise). -/
theorem predict_spec (K : Kernel X Wt α μ) (E : Ext X Wt P C α) (self : Self Wt P) (Xs : List X)
    (hch : ∀ x ∈ Xs, ∀ w, (E.category_choice self.W x w self.params).1 = K.choice self.W x w) :
    Art.Gen.BaseART.predict E self Xs = (self, Xs.map (fun x => (stepPred K self.W x).getD 0)) := by
  unfold Art.Gen.BaseART.predict
  simp only
  let pk : List Nat → List Wt × List Nat × Nat × P × List Nat × Bool × List Nat :=
    fun y => (self.W, self.cnt, self.n, self.params, self.labels, self.hasW, y)
  have hloop := forEach_next_inv (R := Self Wt P × List Nat)
    (I := fun s => ∃ y, s = pk y)
    (g := fun s (p : X × Nat) => pk (s.2.2.2.2.2.2.set p.2 ((stepPred K self.W p.1).getD 0)))
    (body := Art.Gen.BaseART.predict_loop1_body E) (as := List.zipIdx Xs)
    (by
      rintro s ⟨x, i⟩ hmem ⟨y, rfl⟩
      have hx : x ∈ Xs := List.fst_mem_of_mem_zipIdx hmem
      refine ⟨?_, ⟨_, rfl⟩⟩
      unfold Art.Gen.BaseART.predict_loop1_body
      simp only [pk]
      have hsp := step_pred_spec K E self x (hch x hx)
      have hself : (⟨self.W, self.cnt, self.n, self.params, self.labels, self.hasW⟩ : Self Wt P) = self := rfl
      simp only [hself, hsp])
    (pk (List.replicate Xs.length 0)) ⟨_, rfl⟩
  obtain ⟨h1, _⟩ := hloop
  simp only [pk] at h1
  rw [h1]
  have hfold : ∀ (l : List (X × Nat)) (y : List Nat),
      (l.foldl (fun s (p : X × Nat) => pk (s.2.2.2.2.2.2.set p.2 ((stepPred K self.W p.1).getD 0))) (pk y)) =
        pk (l.foldl (fun y (p : X × Nat) => y.set p.2 ((stepPred K self.W p.1).getD 0)) y) := by
    intro l
    induction l with
    | nil => intro y; rfl
    | cons a l ih => intro y; simp only [List.foldl_cons]; exact ih _
  have h2 := hfold (List.zipIdx Xs) (List.replicate Xs.length 0)
  simp only [pk] at h2
  rw [h2]
  have h3 := foldl_set_zipIdx (fun x => (stepPred K self.W x).getD 0) Xs 0 [] rfl (List.replicate Xs.length 0) (by simp)
  simp only [List.nil_append] at h3
  rw [h3]

end Predict

/-! ### Training -/

section Train
variable {X Wt P C α μ θ : Type} [LinearOrder α] [Inhabited Wt] [Inhabited C]

/-- the kernel contract, at every state and sample a training call can meet; the reset function's answer is a
function of the sample and the category only (`vetoF x c` = "category `c` is forbidden for sample `x`") -/
def GContract (K : Kernel X Wt α μ) (cfg : SearchCfg μ θ) (E : Ext X Wt P C α) (th : P → θ) (is_none : Bool)
    (reset : X → Wt → Nat → P → C → Bool) (vetoF : X → Nat → Bool) (mt : MT) (eps : α) : Prop :=
  ∀ (W : List Wt) (x : X) (p0 : P), Contract K cfg E th W x p0 is_none reset (vetoF x) mt eps

/-- one iteration of the `partial_fit` loop: one model `stepFit`, the label written at position `i + j` -/
theorem partial_fit_body_eq (K : Kernel X Wt α μ) (cfg : SearchCfg μ θ) (E : Ext X Wt P C α) (th : P → θ)
    (is_none : Bool) (reset : X → Wt → Nat → P → C → Bool) (vetoF : X → Nat → Bool) (mt : MT) (eps : α)
    (hG : GContract K cfg E th is_none reset vetoF mt eps) (p0 : P) (hw : Bool) (j : Nat)
    (m : ArtState Wt) (lab : List Nat) (x : X) (i : Nat) :
    Art.Gen.BaseART.partial_fit_loop1_body E mt eps j is_none reset (m.W, m.cnt, m.n, p0, lab, hw) (x, i) =
      (let r := stepFit K cfg (th p0) (vetoF x) m x
       Flow.next (r.1.W, r.1.cnt, r.1.n, p0, lab.set (i + j) r.2, hw)) := by
  have href := step_fit_refines K cfg E th
    ({ W := m.W, cnt := m.cnt, n := m.n, params := p0, labels := lab, hasW := hw } : Self Wt P)
    x is_none reset (vetoF x) mt eps (hG m.W x p0)
  simp only at href
  unfold Art.Gen.BaseART.partial_fit_loop1_body
  simp only [href]
  -- the model's step does not look at the labels
  have hfr : ∀ (l1 l2 : List Nat),
      (stepFit K cfg (th p0) (vetoF x) { W := m.W, cnt := m.cnt, n := m.n, labels := l1 } x).1.W =
        (stepFit K cfg (th p0) (vetoF x) { W := m.W, cnt := m.cnt, n := m.n, labels := l2 } x).1.W ∧
      (stepFit K cfg (th p0) (vetoF x) { W := m.W, cnt := m.cnt, n := m.n, labels := l1 } x).1.cnt =
        (stepFit K cfg (th p0) (vetoF x) { W := m.W, cnt := m.cnt, n := m.n, labels := l2 } x).1.cnt ∧
      (stepFit K cfg (th p0) (vetoF x) { W := m.W, cnt := m.cnt, n := m.n, labels := l1 } x).1.n =
        (stepFit K cfg (th p0) (vetoF x) { W := m.W, cnt := m.cnt, n := m.n, labels := l2 } x).1.n ∧
      (stepFit K cfg (th p0) (vetoF x) { W := m.W, cnt := m.cnt, n := m.n, labels := l1 } x).2 =
        (stepFit K cfg (th p0) (vetoF x) { W := m.W, cnt := m.cnt, n := m.n, labels := l2 } x).2 := by
    intro l1 l2
    simp only [stepFit]
    split
    · simp [applyWinner]
    · cases (stepSearch K cfg (th p0) (vetoF x) m.W x).winner with
      | none => simp [applyWinner]
      | some c =>
        simp only [applyWinner]
        split <;> simp
  obtain ⟨h1, h2, h3, h4⟩ := hfr lab m.labels
  have hm : ({ W := m.W, cnt := m.cnt, n := m.n, labels := m.labels } : ArtState Wt) = m := rfl
  rw [hm] at h1 h2 h3 h4
  simp only [h1, h2, h3, h4]

/-- the loop of `partial_fit`: each sample is one `trainStep` of the model; labels are written into the
zero-padded vector at offset `j` -/
theorem partial_fit_loop (K : Kernel X Wt α μ) (cfg : SearchCfg μ θ) (E : Ext X Wt P C α) (th : P → θ)
    (is_none : Bool) (reset : X → Wt → Nat → P → C → Bool) (vetoF : X → Nat → Bool) (mt : MT) (eps : α)
    (hG : GContract K cfg E th is_none reset vetoF mt eps) (p0 : P) (hw : Bool) (j : Nat) :
    ∀ (xs : List X) (k : Nat) (m : ArtState Wt) (tail : List Nat), tail.length = xs.length →
      m.labels.length = j + k →
      forEach (Art.Gen.BaseART.partial_fit_loop1_body E mt eps j is_none reset) (xs.zipIdx k)
          (m.W, m.cnt, m.n, p0, m.labels ++ tail, hw) =
        (let m' := xs.foldl (trainStep K cfg (th p0) (fun _ x c => vetoF x c)) m
         Flow.next (m'.W, m'.cnt, m'.n, p0, m'.labels, hw)) := by
  intro xs
  induction xs with
  | nil =>
    intro k m tail ht _
    cases tail with
    | nil => simp [forEach]
    | cons _ _ => simp at ht
  | cons x xs ih =>
    intro k m tail ht hl
    cases tail with
    | nil => simp at ht
    | cons t tail =>
      simp only [List.zipIdx_cons, forEach, List.foldl_cons]
      rw [partial_fit_body_eq K cfg E th is_none reset vetoF mt eps hG p0 hw j m]
      simp only
      have hset : (m.labels ++ t :: tail).set (k + j) (stepFit K cfg (th p0) (vetoF x) m x).2 =
          (m.labels ++ [(stepFit K cfg (th p0) (vetoF x) m x).2]) ++ tail := by
        have : k + j = m.labels.length := by omega
        rw [this]; simp
      rw [hset]
      obtain ⟨_, hlab, _⟩ := stepFit_frame K cfg (th p0) (vetoF x) m x
      have hts : trainStep K cfg (th p0) (fun _ x c => vetoF x c) m x =
          { (stepFit K cfg (th p0) (vetoF x) m x).1 with
            labels := m.labels ++ [(stepFit K cfg (th p0) (vetoF x) m x).2] } := by
        simp [trainStep, hlab]
      have hlen : (trainStep K cfg (th p0) (fun _ x c => vetoF x c) m x).labels.length = j + (k + 1) := by
        rw [trainStep_labels_length]; omega
      have := ih (k + 1) (trainStep K cfg (th p0) (fun _ x c => vetoF x c) m x) tail (by simpa using ht) hlen
      rw [hts] at this ⊢
      simpa using this

/-- **`partial_fit` is the model's `partialFit`** (a left fold of `trainStep` over the batch): new labels are appended
to the old ones, weights / counters / sample counter are the fold's, `params` is returned untouched.  On a
freshly constructed estimator (`hasattr(self, "W")` false) the fold starts from no categories and no labels. -/
theorem partial_fit_spec (K : Kernel X Wt α μ) (cfg : SearchCfg μ θ) (E : Ext X Wt P C α) (th : P → θ)
    (is_none : Bool) (reset : X → Wt → Nat → P → C → Bool) (vetoF : X → Nat → Bool) (mt : MT) (eps : α)
    (hG : GContract K cfg E th is_none reset vetoF mt eps) (self : Self Wt P) (Xs : List X) :
    Art.Gen.BaseART.partial_fit E self Xs is_none reset mt eps =
      (let s0 : ArtState Wt := if self.hasW then ⟨self.W, self.cnt, self.n, self.labels⟩ else ⟨[], self.cnt, self.n, []⟩
       let r := partialFit K cfg (th self.params) (fun _ x c => vetoF x c) s0 Xs
       (⟨r.W, r.cnt, r.n, self.params, r.labels, true⟩, ())) := by
  unfold Art.Gen.BaseART.partial_fit partialFit
  cases hh : self.hasW with
  | false =>
    simp only [Bool.not_false, if_true, Bool.false_eq_true, if_false]
    have := partial_fit_loop K cfg E th is_none reset vetoF mt eps hG self.params true 0 Xs 0
      ⟨[], self.cnt, self.n, []⟩ (List.replicate Xs.length 0) (by simp) (by simp)
    simp only [List.nil_append] at this
    simp only [this]
  | true =>
    simp only [Bool.not_true, Bool.false_eq_true, if_false, if_true]
    have := partial_fit_loop K cfg E th is_none reset vetoF mt eps hG self.params true self.labels.length Xs 0
      ⟨self.W, self.cnt, self.n, self.labels⟩ (List.replicate Xs.length 0) (by simp) (by simp)
    simp only [this]

/-- one iteration of the inner `fit` loop: one model `stepFit`, the label written at position `i` -/
theorem fit_body_eq (K : Kernel X Wt α μ) (cfg : SearchCfg μ θ) (E : Ext X Wt P C α) (th : P → θ)
    (is_none : Bool) (reset : X → Wt → Nat → P → C → Bool) (vetoF : X → Nat → Bool) (mt : MT) (eps : α)
    (hG : GContract K cfg E th is_none reset vetoF mt eps) (p0 : P) (hw : Bool) (Xs : List X)
    (m : ArtState Wt) (xi : X × Nat) :
    Art.Gen.BaseART.fit_loop1_body E Xs mt eps is_none reset (m.W, m.cnt, m.n, p0, m.labels, hw) xi =
      (let m' := epochStep K cfg (th p0) (fun _ x c => vetoF x c) m xi
       Flow.next (m'.W, m'.cnt, m'.n, p0, m'.labels, hw)) := by
  obtain ⟨x, i⟩ := xi
  have href := step_fit_refines K cfg E th
    ({ W := m.W, cnt := m.cnt, n := m.n, params := p0, labels := m.labels, hasW := hw } : Self Wt P)
    x is_none reset (vetoF x) mt eps (hG m.W x p0)
  simp only at href
  have hm : ({ W := m.W, cnt := m.cnt, n := m.n, labels := m.labels } : ArtState Wt) = m := rfl
  rw [hm] at href
  unfold Art.Gen.BaseART.fit_loop1_body
  obtain ⟨_, hlab, _⟩ := stepFit_frame K cfg (th p0) (vetoF x) m x
  simp only [href, epochStep, hlab]

/-- the inner loop of `fit`: one epoch of the model -/
theorem fit_inner_loop (K : Kernel X Wt α μ) (cfg : SearchCfg μ θ) (E : Ext X Wt P C α) (th : P → θ)
    (is_none : Bool) (reset : X → Wt → Nat → P → C → Bool) (vetoF : X → Nat → Bool) (mt : MT) (eps : α)
    (hG : GContract K cfg E th is_none reset vetoF mt eps) (p0 : P) (hw : Bool) (Xs : List X) :
    ∀ (l : List (X × Nat)) (m : ArtState Wt),
      forEach (Art.Gen.BaseART.fit_loop1_body E Xs mt eps is_none reset) l (m.W, m.cnt, m.n, p0, m.labels, hw) =
        (let m' := l.foldl (epochStep K cfg (th p0) (fun _ x c => vetoF x c)) m
         Flow.next (m'.W, m'.cnt, m'.n, p0, m'.labels, hw)) := by
  intro l
  induction l with
  | nil => intro m; rfl
  | cons a l ih =>
    intro m
    simp only [forEach, List.foldl_cons]
    rw [fit_body_eq K cfg E th is_none reset vetoF mt eps hG p0 hw Xs m a]
    exact ih _

/-- **`fit(X, max_iter = k)` is the model's `fitEpochs`**, for every number of epochs, with or without progress bar:
weights, counters, sample counter and labels; `params` is returned untouched. -/
theorem fit_spec (K : Kernel X Wt α μ) (cfg : SearchCfg μ θ) (E : Ext X Wt P C α) (th : P → θ)
    (is_none : Bool) (reset : X → Wt → Nat → P → C → Bool) (vetoF : X → Nat → Bool) (mt : MT) (eps : α)
    (hG : GContract K cfg E th is_none reset vetoF mt eps) (self : Self Wt P) (Xs : List X) (epochs : Nat)
    (verbose : Bool) :
    Art.Gen.BaseART.fit E self Xs is_none reset epochs mt eps verbose =
      (let r := fitEpochs K cfg (th self.params) (fun _ x c => vetoF x c) epochs Xs
       (⟨r.W, r.cnt, r.n, self.params, r.labels, true⟩, ())) := by
  unfold Art.Gen.BaseART.fit fitEpochs
  simp only
  have houter : ∀ (es : List Nat) (m : ArtState Wt),
      forEach (Art.Gen.BaseART.fit_loop2_body E Xs mt eps verbose is_none reset) es
          (m.W, m.cnt, m.n, self.params, m.labels, true) =
        (let m' := es.foldl (fun s _ => (Xs.zipIdx).foldl (epochStep K cfg (th self.params) (fun _ x c => vetoF x c)) s) m
         Flow.next (m'.W, m'.cnt, m'.n, self.params, m'.labels, true)) := by
    intro es
    induction es with
    | nil => intro m; rfl
    | cons e es ih =>
      intro m
      simp only [forEach, List.foldl_cons]
      have hin := fit_inner_loop K cfg E th is_none reset vetoF mt eps hG self.params true Xs Xs.zipIdx m
      have hb : Art.Gen.BaseART.fit_loop2_body E Xs mt eps verbose is_none reset
          (m.W, m.cnt, m.n, self.params, m.labels, true) e =
          Flow.next (let m' := (Xs.zipIdx).foldl (epochStep K cfg (th self.params) (fun _ x c => vetoF x c)) m
                     (m'.W, m'.cnt, m'.n, self.params, m'.labels, true)) := by
        unfold Art.Gen.BaseART.fit_loop2_body
        cases verbose <;> simp [hin]
      rw [hb]
      exact ih _
  have := houter (List.range epochs) { W := [], cnt := [], n := 0, labels := List.replicate Xs.length 0 }
  simp only at this
  rw [this]

omit [Inhabited Wt] in
/-- the model's training step neither reads nor changes the labels -/
theorem stepFit_with_labels (K : Kernel X Wt α μ) (cfg : SearchCfg μ θ) (th0 : θ) (veto : Nat → Bool)
    (m : ArtState Wt) (l : List Nat) (x : X) :
    stepFit K cfg th0 veto { m with labels := l } x =
      ({ (stepFit K cfg th0 veto m x).1 with labels := l }, (stepFit K cfg th0 veto m x).2) := by
  simp only [stepFit]
  split
  · simp [applyWinner]
  · cases (stepSearch K cfg th0 veto m.W x).winner with
    | none => simp [applyWinner]
    | some c =>
      simp only [applyWinner]
      split <;> simp

/-- writing labels into a pre-allocated vector (one epoch) is appending them (the `partialFit` fold) -/
theorem epoch_fold_eq_train_fold (K : Kernel X Wt α μ) (cfg : SearchCfg μ θ) (th0 : θ) (vetoF : X → Nat → Bool) :
    ∀ (xs : List X) (k : Nat) (m : ArtState Wt) (tail : List Nat), tail.length = xs.length → m.labels.length = k →
      (xs.zipIdx k).foldl (epochStep K cfg th0 (fun _ x c => vetoF x c)) { m with labels := m.labels ++ tail } =
        xs.foldl (trainStep K cfg th0 (fun _ x c => vetoF x c)) m := by
  intro xs
  induction xs with
  | nil =>
    intro k m tail ht _
    cases tail with
    | nil => simp
    | cons _ _ => simp at ht
  | cons x xs ih =>
    intro k m tail ht hl
    cases tail with
    | nil => simp at ht
    | cons t tail =>
      simp only [List.zipIdx_cons, List.foldl_cons]
      obtain ⟨_, hlab, _⟩ := stepFit_frame K cfg th0 (vetoF x) m x
      have h1 : epochStep K cfg th0 (fun _ x c => vetoF x c) { m with labels := m.labels ++ t :: tail } (x, k) =
          { trainStep K cfg th0 (fun _ x c => vetoF x c) m x with
            labels := (trainStep K cfg th0 (fun _ x c => vetoF x c) m x).labels ++ tail } := by
        simp only [epochStep, trainStep, stepFit_with_labels, hlab]
        have : (m.labels ++ t :: tail).set k (stepFit K cfg th0 (vetoF x) m x).2 =
            m.labels ++ [(stepFit K cfg th0 (vetoF x) m x).2] ++ tail := by
          rw [← hl]; simp
        simp [this]
      rw [h1]
      exact ih (k + 1) _ tail (by simpa using ht) (by rw [trainStep_labels_length]; omega)

/-- **one epoch is the model's `fit`** (the statement the C05 / C06 theorems are about) -/
theorem fitEpochs_one (K : Kernel X Wt α μ) (cfg : SearchCfg μ θ) (th0 : θ) (vetoF : X → Nat → Bool)
    (s : ArtState Wt) (xs : List X) :
    fitEpochs K cfg th0 (fun _ x c => vetoF x c) 1 xs = fit K cfg th0 (fun _ x c => vetoF x c) s xs := by
  unfold fitEpochs fit partialFit
  simp only [List.range_one, List.foldl_cons, List.foldl_nil]
  have := epoch_fold_eq_train_fold K cfg th0 vetoF xs 0 {} (List.replicate xs.length 0) (by simp) rfl
  simpa using this

/-- **No training call changes a hyper-parameter** (C07, for the translated `fit` / `partial_fit`): whatever match
tracking did during any of the searches of any epoch, the calls hand back the `params` they were given. -/
theorem fit_restores_params (K : Kernel X Wt α μ) (cfg : SearchCfg μ θ) (E : Ext X Wt P C α) (th : P → θ)
    (is_none : Bool) (reset : X → Wt → Nat → P → C → Bool) (vetoF : X → Nat → Bool) (mt : MT) (eps : α)
    (hG : GContract K cfg E th is_none reset vetoF mt eps) (self : Self Wt P) (Xs : List X) (epochs : Nat) (v : Bool) :
    (Art.Gen.BaseART.fit E self Xs is_none reset epochs mt eps v).1.params = self.params ∧
    (Art.Gen.BaseART.partial_fit E self Xs is_none reset mt eps).1.params = self.params := by
  rw [fit_spec K cfg E th is_none reset vetoF mt eps hG self, partial_fit_spec K cfg E th is_none reset vetoF mt eps hG self]
  exact ⟨rfl, rfl⟩

/-- **Batching is irrelevant** (C06, for the translated code): two `partial_fit` calls are one call on the
concatenated batch. -/
theorem partial_fit_append (K : Kernel X Wt α μ) (cfg : SearchCfg μ θ) (E : Ext X Wt P C α) (th : P → θ)
    (is_none : Bool) (reset : X → Wt → Nat → P → C → Bool) (vetoF : X → Nat → Bool) (mt : MT) (eps : α)
    (hG : GContract K cfg E th is_none reset vetoF mt eps) (self : Self Wt P) (Xs Ys : List X) :
    Art.Gen.BaseART.partial_fit E (Art.Gen.BaseART.partial_fit E self Xs is_none reset mt eps).1 Ys is_none reset mt eps =
      Art.Gen.BaseART.partial_fit E self (Xs ++ Ys) is_none reset mt eps := by
  rw [partial_fit_spec K cfg E th is_none reset vetoF mt eps hG self Xs,
      partial_fit_spec K cfg E th is_none reset vetoF mt eps hG self (Xs ++ Ys)]
  simp only
  rw [partial_fit_spec K cfg E th is_none reset vetoF mt eps hG]
  simp [partialFit, List.foldl_append]

/-- **`fit` forgets the earlier model** (C06, for the translated code): the result depends on the estimator it is
called on only through its hyper-parameters. -/
theorem fit_history_independent (K : Kernel X Wt α μ) (cfg : SearchCfg μ θ) (E : Ext X Wt P C α) (th : P → θ)
    (is_none : Bool) (reset : X → Wt → Nat → P → C → Bool) (vetoF : X → Nat → Bool) (mt : MT) (eps : α)
    (hG : GContract K cfg E th is_none reset vetoF mt eps) (self₁ self₂ : Self Wt P) (hp : self₁.params = self₂.params)
    (Xs : List X) (epochs : Nat) (v₁ v₂ : Bool) :
    Art.Gen.BaseART.fit E self₁ Xs is_none reset epochs mt eps v₁ =
      Art.Gen.BaseART.fit E self₂ Xs is_none reset epochs mt eps v₂ := by
  rw [fit_spec K cfg E th is_none reset vetoF mt eps hG self₁, fit_spec K cfg E th is_none reset vetoF mt eps hG self₂, hp]

/-- one epoch of the translated `fit` = the translated `partial_fit` on a freshly constructed estimator -/
theorem fit_one_eq_partial_fit_fresh (K : Kernel X Wt α μ) (cfg : SearchCfg μ θ) (E : Ext X Wt P C α) (th : P → θ)
    (is_none : Bool) (reset : X → Wt → Nat → P → C → Bool) (vetoF : X → Nat → Bool) (mt : MT) (eps : α)
    (hG : GContract K cfg E th is_none reset vetoF mt eps) (self : Self Wt P) (p0 : P) (Xs : List X) (v : Bool)
    (hp : self.params = p0) :
    Art.Gen.BaseART.fit E self Xs is_none reset 1 mt eps v =
      Art.Gen.BaseART.partial_fit E ⟨[], [], 0, p0, [], false⟩ Xs is_none reset mt eps := by
  rw [fit_spec K cfg E th is_none reset vetoF mt eps hG self, partial_fit_spec K cfg E th is_none reset vetoF mt eps hG]
  simp only [hp, Bool.false_eq_true, if_false]
  rw [fitEpochs_one K cfg (th p0) vetoF {} Xs]
  rfl

end Train

/-! ### Every module with a scalar vigilance, with the generated decision tables -/

section ScalarFit
variable {X Wt β : Type} [Field β] [LinearOrder β] [IsStrictOrderedRing β]

theorem scalar_gcontract (K : Kernel X Wt β β) (inf eps : β) (mt : MT) (is_none : Bool) (vetoF : X → Nat → Bool)
    (hv : is_none = true → ∀ x c, vetoF x c = false) :
    GContract K (scalarCfg mt false (· + eps) (· - eps) inf) (scalarExt K inf) id is_none
      (fun x _ c _ _ => !vetoF x c) vetoF mt eps := by
  intro W x p0
  have h := scalar_contract K W inf p0 eps x mt is_none (vetoF x) (fun h c => hv h x c)
  exact { choice := h.choice, passes := h.passes, track := h.track, keep := h.keep, update := h.update, newW := h.newW,
          tilde := h.tilde, veto_none := h.veto_none, veto_some := fun _ _ _ _ _ _ => rfl }

/-- **`BaseART.fit`, statements and decision tables all translated from the source, is the model's `fitEpochs` under
the scalar configuration.** -/
theorem scalar_fit [Inhabited Wt] (K : Kernel X Wt β β) (inf eps : β) (mt : MT) (is_none : Bool) (vetoF : X → Nat → Bool)
    (hv : is_none = true → ∀ x c, vetoF x c = false) (self : Self Wt β) (Xs : List X) (epochs : Nat) (v : Bool) :
    letI : Inhabited β := ⟨0⟩
    Art.Gen.BaseART.fit (scalarExt K inf) self Xs is_none (fun x _ c _ _ => !vetoF x c) epochs mt eps v =
      (let r := fitEpochs K (scalarCfg mt false (· + eps) (· - eps) inf) self.params (fun _ x c => vetoF x c) epochs Xs
       (⟨r.W, r.cnt, r.n, self.params, r.labels, true⟩, ())) := by
  letI : Inhabited β := ⟨0⟩
  exact fit_spec K _ (scalarExt K inf) id is_none _ vetoF mt eps (scalar_gcontract K inf eps mt is_none vetoF hv) self Xs epochs v

theorem scalar_partial_fit [Inhabited Wt] (K : Kernel X Wt β β) (inf eps : β) (mt : MT) (is_none : Bool)
    (vetoF : X → Nat → Bool) (hv : is_none = true → ∀ x c, vetoF x c = false) (self : Self Wt β) (Xs : List X) :
    letI : Inhabited β := ⟨0⟩
    Art.Gen.BaseART.partial_fit (scalarExt K inf) self Xs is_none (fun x _ c _ _ => !vetoF x c) mt eps =
      (let s0 : ArtState Wt := if self.hasW then ⟨self.W, self.cnt, self.n, self.labels⟩ else ⟨[], self.cnt, self.n, []⟩
       let r := partialFit K (scalarCfg mt false (· + eps) (· - eps) inf) self.params (fun _ x c => vetoF x c) s0 Xs
       (⟨r.W, r.cnt, r.n, self.params, r.labels, true⟩, ())) := by
  letI : Inhabited β := ⟨0⟩
  exact partial_fit_spec K _ (scalarExt K inf) id is_none _ vetoF mt eps (scalar_gcontract K inf eps mt is_none vetoF hv) self Xs

end ScalarFit

/-! ### The inverted vigilance of BayesianART, with ITS generated tables -/

section Bayes
variable {X Wt β : Type} [Field β] [LinearOrder β] [IsStrictOrderedRing β]

/-- externals of BayesianART: `match_criterion_bin` and `_match_tracking` are the class's own overrides, as generated -/
def bayesExt (K : Kernel X Wt β β) (inf : β) : Ext X Wt β β β where
  category_choice := fun W x w _ => (K.choice W x w, K.matchv x w)
  match_criterion_bin := fun x w rho _ strict =>
    (Gen.BayesianART.match_bin (fun a b => if strict then decide (b < a) else decide (b ≤ a)) (K.matchv x w) rho, K.matchv x w)
  update := fun x w _ _ => K.update x w
  new_weight := fun x _ => K.newW x
  match_tracking := fun M eps rho mt =>
    ((Gen.BayesianART.match_tracking inf mt M eps rho).2, (Gen.BayesianART.match_tracking inf mt M eps rho).1)
  operator := Gen.BaseART.strict
  noneC := 0

theorem bayes_gcontract (K : Kernel X Wt β β) (inf eps : β) (mt : MT) (is_none : Bool) (vetoF : X → Nat → Bool)
    (hv : is_none = true → ∀ x c, vetoF x c = false) :
    GContract K (scalarCfg mt true (· - eps) (· + eps) (-inf)) (bayesExt K inf) id is_none
      (fun x _ c _ _ => !vetoF x c) vetoF mt eps := by
  intro W x p0
  exact {
    choice := fun _ => rfl
    passes := fun w p _ => by
      simp only [bayesExt, id]
      exact bayes_match_bin mt (K.matchv x w) p
    track := fun w p _ => by simp only [bayesExt, id, bayes_match_tracking]
    keep := fun _ p => by simp only [bayesExt, bayes_match_tracking]
    update := fun _ _ _ => rfl
    newW := fun _ => rfl
    tilde := by cases mt <;> rfl
    veto_none := fun h c => hv h x c
    veto_some := fun _ _ _ _ _ _ => rfl }

/-- `BaseART.fit` on a BayesianART (statements from BaseART, decisions from BayesianART's overrides, all generated) is
the model's `fitEpochs` under the inverted scalar configuration -/
theorem bayes_fit [Inhabited Wt] (K : Kernel X Wt β β) (inf eps : β) (mt : MT) (is_none : Bool) (vetoF : X → Nat → Bool)
    (hv : is_none = true → ∀ x c, vetoF x c = false) (self : Self Wt β) (Xs : List X) (epochs : Nat) (v : Bool) :
    letI : Inhabited β := ⟨0⟩
    Art.Gen.BaseART.fit (bayesExt K inf) self Xs is_none (fun x _ c _ _ => !vetoF x c) epochs mt eps v =
      (let r := fitEpochs K (scalarCfg mt true (· - eps) (· + eps) (-inf)) self.params (fun _ x c => vetoF x c) epochs Xs
       (⟨r.W, r.cnt, r.n, self.params, r.labels, true⟩, ())) := by
  letI : Inhabited β := ⟨0⟩
  exact fit_spec K _ (bayesExt K inf) id is_none _ vetoF mt eps (bayes_gcontract K inf eps mt is_none vetoF hv) self Xs epochs v

end Bayes

/-! ### SimpleARTMAP: the model's supervised step is the generated A-side step under the generated veto -/

section SMap
variable {X Wt β : Type} [Field β] [LinearOrder β] [IsStrictOrderedRing β]

/-- **One supervised training step of the model (`smapStep`) is**: the generated `BaseART.step_fit` run on the A-side
with the reset function `SimpleARTMAP.match_reset_func` *as generated from its source* (closed over the current map
and the sample's class), followed by the map update and the label bookkeeping.  So for elementary A-sides with a
scalar vigilance the search loop, the decision tables and the class veto of a SimpleARTMAP step all come from the
source; only the two lines that record `map[c_a] = c_b` and the labels are hand-modelled. -/
theorem smap_step_via_generated [Inhabited Wt] (K : Kernel X Wt β β) (inf eps : β) (mt : MT)
    (s : SMapState Wt) (rho : β) (x : X) (y : Nat) :
    letI : Inhabited β := ⟨0⟩
    smapStep K (scalarCfg mt false (· + eps) (· - eps) inf) rho s (x, y) =
      (let r := Art.Gen.BaseART.step_fit (scalarExt K inf) s.a.W.length
                  ⟨s.a.W, s.a.cnt, s.a.n, rho, s.a.labels, true⟩ x false
                  (fun _ _ c _ _ => Gen.SimpleARTMAP.match_reset (mapGet s.map) c y) mt eps
       { a := { W := r.1.W, cnt := r.1.cnt, n := r.1.n, labels := s.a.labels ++ [r.2] }
         map := mapSet s.map r.2 y
         labelsB := s.labelsB ++ [y] }) := by
  letI : Inhabited β := ⟨0⟩
  have hreset : (fun (_ : X) (_ : Wt) (c : Nat) (_ : β) (_ : β) => Gen.SimpleARTMAP.match_reset (mapGet s.map) c y) =
      (fun _ _ c _ _ => !mapVeto s.map y c) := by
    funext _ _ c _ _; exact smap_match_reset s.map c y
  rw [hreset]
  have h := scalar_step_fit K inf eps ⟨s.a.W, s.a.cnt, s.a.n, rho, s.a.labels, true⟩ x mt false (mapVeto s.map y)
    (by intro h; cases h)
  simp only at h
  rw [h]
  obtain ⟨_, hlab, _⟩ := stepFit_frame K (scalarCfg mt false (· + eps) (· - eps) inf) rho (mapVeto s.map y) s.a x
  have hs : ({ W := s.a.W, cnt := s.a.cnt, n := s.a.n, labels := s.a.labels } : ArtState Wt) = s.a := rfl
  simp only [smapStep, hs]
  congr 1
  simp [hlab]

/-- the conditional dict store of `SimpleARTMAP.step_fit` is the model's `mapSet` -/
theorem mapPut_if_absent (m : List (Option Nat)) (c y : Nat) :
    (if (mapGet m c).isNone then mapPut m c y else m) = mapSet m c y := by
  unfold mapSet mapPut mapGet
  by_cases hc : c < m.length
  · simp only [hc, if_true]
    rw [List.getElem?_eq_getElem hc]
    cases h : m[c] with
    | none => simp
    | some v => simp
  · simp only [hc, if_false]
    have : m[c]? = none := List.getElem?_eq_none (by omega)
    simp [this]

/-- the lambda `SimpleARTMAP.step_fit` builds around `match_reset_func`, as translated, is the negated model veto -/
theorem smap_lambda_eq (m : List (Option Nat)) (y c : Nat) :
    (if ((mapGet m c).isSome && ((mapGet m c).getD 0 != y)) = true then false else true) = !mapVeto m y c := by
  unfold mapVeto
  cases h : mapGet m c with
  | none => simp
  | some v => by_cases e : v = y <;> simp [e]

/-- **`SimpleARTMAP.step_fit`, translated statement by statement (lambda, nested call of the generated
`BaseART.step_fit`, dict bookkeeping), is the model's `smapStep`** on the A-side weights / counters, on the map and
on the returned label — for every elementary A-side with a scalar vigilance, every state, sample, class, mode, epsilon. -/
theorem smap_generated_step_fit [Inhabited Wt] (K : Kernel X Wt β β) (inf eps : β) (mt : MT)
    (self : SMapSelf Wt β) (x : X) (y : Nat) :
    letI : Inhabited β := ⟨0⟩
    Art.Gen.SimpleARTMAP.step_fit (scalarExt K inf) self x y mt eps =
      (let s : SMapState Wt := { a := ⟨self.a.W, self.a.cnt, self.a.n, self.a.labels⟩, map := self.map, labelsB := [] }
       let s' := smapStep K (scalarCfg mt false (· + eps) (· - eps) inf) self.a.params s (x, y)
       let c := (stepFit K (scalarCfg mt false (· + eps) (· - eps) inf) self.a.params (mapVeto self.map y) s.a x).2
       (⟨⟨s'.a.W, s'.a.cnt, s'.a.n, self.a.params, self.a.labels, self.a.hasW⟩, s'.map, self.labelsB, self.hasLabels⟩, c)) := by
  letI : Inhabited β := ⟨0⟩
  unfold Art.Gen.SimpleARTMAP.step_fit
  simp only
  have hreset : (fun (i : X) (w : Wt) (cluster : Nat) (params : β) (cache : β) =>
      if ((mapGet self.map cluster).isSome && ((mapGet self.map cluster).getD 0 != y)) = true then false else true) =
      (fun _ _ c _ _ => !mapVeto self.map y c) := by
    funext _ _ c _ _; exact smap_lambda_eq self.map y c
  rw [hreset]
  have h := scalar_step_fit K inf eps self.a x mt false (mapVeto self.map y) (by intro h; cases h)
  simp only at h
  rw [h]
  simp only [mapPut_if_absent, smapStep]

/-- `SimpleARTMAP.step_pred` = (A-side arg-max, its class); the estimator is returned unchanged -/
theorem smap_step_pred_spec [Inhabited Wt] (K : Kernel X Wt β β) (inf : β) (self : SMapSelf Wt β) (x : X) :
    letI : Inhabited β := ⟨0⟩
    Art.Gen.SimpleARTMAP.step_pred (scalarExt K inf) self x =
      (self, ((stepPred K self.a.W x).getD 0, (mapGet self.map ((stepPred K self.a.W x).getD 0)).getD 0)) := by
  letI : Inhabited β := ⟨0⟩
  unfold Art.Gen.SimpleARTMAP.step_pred
  simp only
  rw [step_pred_spec K (scalarExt K inf) self.a x (fun _ => rfl)]

/-- **`SimpleARTMAP.predict` is row-wise `map[arg-max]` and returns the estimator unchanged** (C08 / C09 for the
translated code) -/
theorem smap_predict_spec [Inhabited Wt] (K : Kernel X Wt β β) (inf : β) (self : SMapSelf Wt β) (Xs : List X) :
    letI : Inhabited β := ⟨0⟩
    Art.Gen.SimpleARTMAP.predict (scalarExt K inf) self Xs =
      (self, Xs.map (fun x => (mapGet self.map ((stepPred K self.a.W x).getD 0)).getD 0)) := by
  letI : Inhabited β := ⟨0⟩
  unfold Art.Gen.SimpleARTMAP.predict
  simp only
  let f : X → Nat := fun x => (mapGet self.map ((stepPred K self.a.W x).getD 0)).getD 0
  let pk : List Nat → Self Wt β × List (Option Nat) × List Nat × Bool × List Nat := fun y => (self.a, self.map, self.labelsB, self.hasLabels, y)
  have hloop := forEach_next_inv (R := SMapSelf Wt β × List Nat)
    (I := fun s => ∃ y, s = pk y)
    (g := fun s (p : X × Nat) => pk (s.2.2.2.2.set p.2 (f p.1)))
    (body := Art.Gen.SimpleARTMAP.predict_loop1_body (scalarExt K inf)) (as := List.zipIdx Xs)
    (by
      rintro s ⟨x, i⟩ _ ⟨y, rfl⟩
      refine ⟨?_, ⟨_, rfl⟩⟩
      unfold Art.Gen.SimpleARTMAP.predict_loop1_body
      have hs : ({ a := self.a, map := self.map, labelsB := self.labelsB, hasLabels := self.hasLabels } : SMapSelf Wt β) = self := rfl
      simp only [pk, hs, smap_step_pred_spec K inf self x, f])
    (pk (List.replicate Xs.length 0)) ⟨_, rfl⟩
  obtain ⟨h1, _⟩ := hloop
  simp only [pk] at h1
  rw [h1]
  have hfold : ∀ (l : List (X × Nat)) (y : List Nat),
      (l.foldl (fun s (p : X × Nat) => pk (s.2.2.2.2.set p.2 (f p.1))) (pk y)) =
        pk (l.foldl (fun y (p : X × Nat) => y.set p.2 (f p.1)) y) := by
    intro l
    induction l with
    | nil => intro y; rfl
    | cons a l ih => intro y; simp only [List.foldl_cons]; exact ih _
  have h2 := hfold (List.zipIdx Xs) (List.replicate Xs.length 0)
  simp only [pk] at h2
  rw [h2]
  have h3 := foldl_set_zipIdx f Xs 0 [] rfl (List.replicate Xs.length 0) (by simp)
  simp only [List.nil_append] at h3
  rw [h3]

/-! #### `SimpleARTMAP.partial_fit` and `fit` -/

/-- the model's supervised step neither reads nor changes the A-side labels / the class labels it has recorded -/
theorem smapStep_with_labels [Inhabited Wt] (K : Kernel X Wt β β) (cfg : SearchCfg β β) (th0 : β)
    (m : SMapState Wt) (l lb : List Nat) (xy : X × Nat) :
    smapStep K cfg th0 { a := { m.a with labels := l }, map := m.map, labelsB := lb } xy =
      { a := { (stepFit K cfg th0 (mapVeto m.map xy.2) m.a xy.1).1 with
               labels := l ++ [(stepFit K cfg th0 (mapVeto m.map xy.2) m.a xy.1).2] }
        map := mapSet m.map (stepFit K cfg th0 (mapVeto m.map xy.2) m.a xy.1).2 xy.2
        labelsB := lb ++ [xy.2] } := by
  simp only [smapStep, stepFit_with_labels]

theorem smapStep_eq [Inhabited Wt] (K : Kernel X Wt β β) (cfg : SearchCfg β β) (th0 : β) (m : SMapState Wt) (xy : X × Nat) :
    smapStep K cfg th0 m xy =
      { a := { (stepFit K cfg th0 (mapVeto m.map xy.2) m.a xy.1).1 with
               labels := m.a.labels ++ [(stepFit K cfg th0 (mapVeto m.map xy.2) m.a xy.1).2] }
        map := mapSet m.map (stepFit K cfg th0 (mapVeto m.map xy.2) m.a xy.1).2 xy.2
        labelsB := m.labelsB ++ [xy.2] } := by
  have := smapStep_with_labels K cfg th0 m m.a.labels m.labelsB xy
  simpa using this

/-- one iteration of the `SimpleARTMAP.partial_fit` loop = one model `smapStep`, the A-label written at `i + j` -/
theorem smap_partial_fit_body_eq [Inhabited Wt] (K : Kernel X Wt β β) (inf eps : β) (mt : MT) (p0 : β) (hw : Bool) (j : Nat)
    (m : SMapState Wt) (lab LB : List Nat) (hl : Bool) (x : X) (y i : Nat) :
    letI : Inhabited β := ⟨0⟩
    Art.Gen.SimpleARTMAP.partial_fit_loop1_body (scalarExt K inf) mt eps j
        (⟨m.a.W, m.a.cnt, m.a.n, p0, lab, hw⟩, m.map, LB, hl) ((x, y), i) =
      (let r := stepFit K (scalarCfg mt false (· + eps) (· - eps) inf) p0 (mapVeto m.map y) m.a x
       Flow.next (⟨r.1.W, r.1.cnt, r.1.n, p0, lab.set (i + j) r.2, hw⟩, mapSet m.map r.2 y, LB, hl)) := by
  letI : Inhabited β := ⟨0⟩
  unfold Art.Gen.SimpleARTMAP.partial_fit_loop1_body
  have h := smap_generated_step_fit K inf eps mt
    ({ a := ⟨m.a.W, m.a.cnt, m.a.n, p0, lab, hw⟩, map := m.map, labelsB := LB, hasLabels := hl } : SMapSelf Wt β) x y
  simp only at h
  simp only [h]
  have hs := smapStep_with_labels K (scalarCfg mt false (· + eps) (· - eps) inf) p0 m lab [] (x, y)
  simp only [hs, stepFit_with_labels]

/-- the loop of `SimpleARTMAP.partial_fit` is the model's fold of `smapStep` (A-labels written into the padded vector) -/
theorem smap_partial_fit_loop [Inhabited Wt] (K : Kernel X Wt β β) (inf eps : β) (mt : MT) (p0 : β) (hw : Bool) (j : Nat)
    (LB : List Nat) (hl : Bool) :
    letI : Inhabited β := ⟨0⟩
    ∀ (l : List (X × Nat)) (k : Nat) (m : SMapState Wt) (tail : List Nat), tail.length = l.length →
      m.a.labels.length = j + k →
      forEach (Art.Gen.SimpleARTMAP.partial_fit_loop1_body (scalarExt K inf) mt eps j) (l.zipIdx k)
          (⟨m.a.W, m.a.cnt, m.a.n, p0, m.a.labels ++ tail, hw⟩, m.map, LB, hl) =
        (let m' := l.foldl (smapStep K (scalarCfg mt false (· + eps) (· - eps) inf) p0) m
         Flow.next (⟨m'.a.W, m'.a.cnt, m'.a.n, p0, m'.a.labels, hw⟩, m'.map, LB, hl)) := by
  letI : Inhabited β := ⟨0⟩
  intro l
  induction l with
  | nil =>
    intro k m tail ht _
    cases tail with
    | nil => simp [forEach]
    | cons _ _ => simp at ht
  | cons xy l ih =>
    intro k m tail ht hlen
    obtain ⟨x, y⟩ := xy
    cases tail with
    | nil => simp at ht
    | cons t tail =>
      simp only [List.zipIdx_cons, forEach, List.foldl_cons]
      rw [smap_partial_fit_body_eq K inf eps mt p0 hw j m]
      simp only
      have hset : (m.a.labels ++ t :: tail).set (k + j)
            (stepFit K (scalarCfg mt false (· + eps) (· - eps) inf) p0 (mapVeto m.map y) m.a x).2 =
          (m.a.labels ++ [(stepFit K (scalarCfg mt false (· + eps) (· - eps) inf) p0 (mapVeto m.map y) m.a x).2]) ++ tail := by
        have : k + j = m.a.labels.length := by omega
        rw [this]; simp
      rw [hset]
      have hstep := smapStep_eq K (scalarCfg mt false (· + eps) (· - eps) inf) p0 m (x, y)
      have hlen' : (smapStep K (scalarCfg mt false (· + eps) (· - eps) inf) p0 m (x, y)).a.labels.length = j + (k + 1) := by
        rw [hstep]; simp; omega
      have := ih (k + 1) (smapStep K (scalarCfg mt false (· + eps) (· - eps) inf) p0 m (x, y)) tail (by simpa using ht) hlen'
      rw [hstep] at this ⊢
      simpa using this

theorem smap_fold_labelsB [Inhabited Wt] (K : Kernel X Wt β β) (cfg : SearchCfg β β) (th0 : β) :
    ∀ (l : List (X × Nat)) (m : SMapState Wt),
      (l.foldl (smapStep K cfg th0) m).labelsB = m.labelsB ++ l.map Prod.snd := by
  intro l
  induction l with
  | nil => intro m; simp
  | cons xy l ih =>
    intro m
    simp only [List.foldl_cons, List.map_cons]
    rw [ih, smapStep_eq]
    simp

/-- **`SimpleARTMAP.partial_fit` is the model's `smapPartialFit`** on the batch `zip X y` (same length): A-side weights,
counters, sample counter, A-labels, the class map and the recorded class labels; on an estimator without `labels_` it
starts from an empty A-side.  Batching is then irrelevant for the supervised model too (`smapPartialFit` is a fold). -/
theorem smap_partial_fit_spec [Inhabited Wt] (K : Kernel X Wt β β) (inf eps : β) (mt : MT)
    (self : SMapSelf Wt β) (Xs : List X) (ys : List Nat) (hxy : Xs.length = ys.length)
    (hinv : self.hasLabels = true → self.a.labels.length = self.labelsB.length) :
    letI : Inhabited β := ⟨0⟩
    Art.Gen.SimpleARTMAP.partial_fit (scalarExt K inf) self Xs ys mt eps =
      (let s0 : SMapState Wt :=
         if self.hasLabels then { a := ⟨self.a.W, self.a.cnt, self.a.n, self.a.labels⟩, map := self.map, labelsB := self.labelsB }
         else { a := ⟨[], [], 0, []⟩, map := self.map, labelsB := [] }
       let r := smapPartialFit K (scalarCfg mt false (· + eps) (· - eps) inf) self.a.params s0 (Xs.zip ys)
       (⟨⟨r.a.W, r.a.cnt, r.a.n, self.a.params, r.a.labels, if self.hasLabels then self.a.hasW else true⟩, r.map, r.labelsB, true⟩, ())) := by
  letI : Inhabited β := ⟨0⟩
  unfold Art.Gen.SimpleARTMAP.partial_fit smapPartialFit
  have hzl : (Xs.zip ys).length = Xs.length := by simp [hxy]
  have hsnd : (Xs.zip ys).map Prod.snd = ys := by
    rw [List.map_snd_zip]; omega
  cases hh : self.hasLabels with
  | false =>
    simp only [Bool.not_false, if_true, Bool.false_eq_true, if_false]
    have := smap_partial_fit_loop K inf eps mt self.a.params true 0 ys true (Xs.zip ys) 0
      { a := ⟨[], [], 0, []⟩, map := self.map, labelsB := [] } (List.replicate Xs.length 0) (by simp [hzl]) (by simp)
    simp only [List.nil_append] at this
    simp only [this]
    have hLB := smap_fold_labelsB K (scalarCfg mt false (· + eps) (· - eps) inf) self.a.params (Xs.zip ys)
      { a := ⟨[], [], 0, []⟩, map := self.map, labelsB := [] }
    simp only [List.nil_append, hsnd] at hLB
    rw [hLB]
  | true =>
    simp only [Bool.not_true, Bool.false_eq_true, if_false, if_true]
    have htake : (self.labelsB ++ List.replicate Xs.length 0).take self.labelsB.length ++ ys = self.labelsB ++ ys := by
      simp
    have := smap_partial_fit_loop K inf eps mt self.a.params self.a.hasW self.labelsB.length (self.labelsB ++ ys) true (Xs.zip ys) 0
      { a := ⟨self.a.W, self.a.cnt, self.a.n, self.a.labels⟩, map := self.map, labelsB := self.labelsB }
      (List.replicate Xs.length 0) (by simp [hzl]) (by simpa using hinv hh)
    simp only [htake, this]
    have hLB := smap_fold_labelsB K (scalarCfg mt false (· + eps) (· - eps) inf) self.a.params (Xs.zip ys)
      { a := ⟨self.a.W, self.a.cnt, self.a.n, self.a.labels⟩, map := self.map, labelsB := self.labelsB }
    simp only [hsnd] at hLB
    rw [hLB]

theorem smap_fold_labels_length [Inhabited Wt] (K : Kernel X Wt β β) (cfg : SearchCfg β β) (th0 : β) :
    ∀ (l : List (X × Nat)) (m : SMapState Wt),
      (l.foldl (smapStep K cfg th0) m).a.labels.length = m.a.labels.length + l.length := by
  intro l
  induction l with
  | nil => intro m; simp
  | cons xy l ih =>
    intro m
    simp only [List.foldl_cons, List.length_cons]
    rw [ih, smapStep_eq]
    simp; omega

/-- one epoch of `SimpleARTMAP.fit`: the model's `smapPartialFit` from emptied label vectors; the A-labels of the
previous epoch are overwritten position by position -/
theorem smap_fit_epoch [Inhabited Wt] (K : Kernel X Wt β β) (inf eps : β) (mt : MT) (p0 : β) (hw : Bool)
    (LB : List Nat) (hl : Bool) (l : List (X × Nat)) (m : SMapState Wt) (L : List Nat) (hL : L.length = l.length) :
    letI : Inhabited β := ⟨0⟩
    forEach (Art.Gen.SimpleARTMAP.fit_loop1_body (scalarExt K inf) mt eps) (l.zipIdx)
        (⟨m.a.W, m.a.cnt, m.a.n, p0, L, hw⟩, m.map, LB, hl) =
      (let m' := smapPartialFit K (scalarCfg mt false (· + eps) (· - eps) inf) p0
                   { m with a := { m.a with labels := [] }, labelsB := [] } l
       Flow.next (⟨m'.a.W, m'.a.cnt, m'.a.n, p0, m'.a.labels, hw⟩, m'.map, LB, hl)) := by
  letI : Inhabited β := ⟨0⟩
  have hbody : Art.Gen.SimpleARTMAP.fit_loop1_body (scalarExt K inf) mt eps =
      Art.Gen.SimpleARTMAP.partial_fit_loop1_body (scalarExt K inf) mt eps 0 := by
    funext s p
    obtain ⟨⟨x, y⟩, i⟩ := p
    simp [Art.Gen.SimpleARTMAP.fit_loop1_body, Art.Gen.SimpleARTMAP.partial_fit_loop1_body]
  rw [hbody]
  have := smap_partial_fit_loop K inf eps mt p0 hw 0 LB hl l 0
    { m with a := { m.a with labels := [] }, labelsB := [] } L hL (by simp)
  simpa [smapPartialFit] using this

/-- **`SimpleARTMAP.fit(X, y, max_iter = k)` is the model's `smapFitEpochs`** for every `k >= 1`: A-side weights,
counters, sample counter and labels, the class map; `labels_` is `y`. -/
theorem smap_fit_spec [Inhabited Wt] (K : Kernel X Wt β β) (inf eps : β) (mt : MT)
    (self : SMapSelf Wt β) (Xs : List X) (ys : List Nat) (hxy : Xs.length = ys.length) (epochs : Nat) (v : Bool) :
    letI : Inhabited β := ⟨0⟩
    Art.Gen.SimpleARTMAP.fit (scalarExt K inf) self Xs ys (epochs + 1) mt eps v =
      (let r := smapFitEpochs K (scalarCfg mt false (· + eps) (· - eps) inf) self.a.params (epochs + 1) (Xs.zip ys)
       (⟨⟨r.a.W, r.a.cnt, r.a.n, self.a.params, r.a.labels, true⟩, r.map, ys, true⟩, ())) := by
  letI : Inhabited β := ⟨0⟩
  unfold Art.Gen.SimpleARTMAP.fit smapFitEpochs
  simp only
  have hzl : (Xs.zip ys).length = Xs.length := by simp [hxy]
  let cfg := scalarCfg mt false (· + eps) (· - eps) inf
  let ep : SMapState Wt → SMapState Wt := fun s =>
    smapPartialFit K cfg self.a.params { s with a := { s.a with labels := [] }, labelsB := [] } (Xs.zip ys)
  have hep_len : ∀ s, (ep s).a.labels.length = Xs.length := by
    intro s
    simp only [ep, smapPartialFit]
    rw [smap_fold_labels_length]; simp [hzl]
  have houter : ∀ (es : List Nat) (m : SMapState Wt) (L : List Nat), L.length = Xs.length →
      forEach (Art.Gen.SimpleARTMAP.fit_loop2_body (scalarExt K inf) Xs ys mt eps v) es
          (⟨m.a.W, m.a.cnt, m.a.n, self.a.params, L, true⟩, m.map, ys, true) =
        (let m' := es.foldl (fun s _ => ep s) m
         Flow.next (⟨m'.a.W, m'.a.cnt, m'.a.n, self.a.params, if es = [] then L else m'.a.labels, true⟩, m'.map, ys, true)) := by
    intro es
    induction es with
    | nil => intro m L _; rfl
    | cons e es ih =>
      intro m L hL
      simp only [forEach, List.foldl_cons]
      have hin := smap_fit_epoch K inf eps mt self.a.params true ys true (Xs.zip ys) m L (by simp [hzl, hL])
      have hb : Art.Gen.SimpleARTMAP.fit_loop2_body (scalarExt K inf) Xs ys mt eps v
          (⟨m.a.W, m.a.cnt, m.a.n, self.a.params, L, true⟩, m.map, ys, true) e =
          Flow.next (⟨(ep m).a.W, (ep m).a.cnt, (ep m).a.n, self.a.params, (ep m).a.labels, true⟩, (ep m).map, ys, true) := by
        unfold Art.Gen.SimpleARTMAP.fit_loop2_body
        cases v <;> simp [hin, ep, cfg]
      rw [hb]
      have := ih (ep m) (ep m).a.labels (hep_len m)
      simp only at this ⊢
      rw [this]
      by_cases hes : es = []
      · subst hes; simp
      · simp [hes]
  have h0 := houter (List.range (epochs + 1)) ({} : SMapState Wt) (List.replicate Xs.length 0) (by simp)
  have hne : List.range (epochs + 1) ≠ [] := by simp
  simp only [hne, if_false] at h0
  have hinit : (({} : SMapState Wt).a.W, ({} : SMapState Wt).a.cnt, ({} : SMapState Wt).a.n, ({} : SMapState Wt).map) = ([], [], 0, []) := rfl
  simp only [ep, cfg] at h0
  have hstart : (({ W := [], cnt := [], n := 0, params := self.a.params, labels := List.replicate Xs.length 0 } : Self Wt β),
      ([] : List (Option Nat)), ys, true) =
      ((⟨({} : SMapState Wt).a.W, ({} : SMapState Wt).a.cnt, ({} : SMapState Wt).a.n, self.a.params,
          List.replicate Xs.length 0, true⟩ : Self Wt β), ({} : SMapState Wt).map, ys, true) := rfl
  rw [hstart, h0]

end SMap

end Art.GenSpec.Control
