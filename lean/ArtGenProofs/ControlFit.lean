/-
ArtGenProofs.ControlFit — `BaseART.step_pred`, `predict`, `partial_fit` and `fit`, as translated from the Python
source by `harness/artv/ctrans.py` (ArtGen/Control.lean), compute the model's `stepPred`, `predict`, `partialFit`
and `fitEpochs` — for all states, streams, modes, epsilons, reset functions and numbers of epochs, under the
kernel contract of ControlSpec.lean.
-/
import ArtGenProofs.ControlSpec

namespace Art.GenSpec.Control

open Art Art.Imp

/-! ### `for` loops without early return are folds -/

theorem forEach_next {R S A : Type} (g : S → A → S) (body : S → A → Flow R S)
    (h : ∀ s a, body s a = .next (g s a)) (as : List A) (s : S) :
    forEach body as s = .next (as.foldl g s) := by
  induction as generalizing s with
  | nil => rfl
  | cons a as ih => simp [forEach, h, ih]

/-- a loop that behaves like `g` on the states satisfying an invariant that `g` preserves -/
theorem forEach_next_inv {R S A : Type} (I : S → Prop) (g : S → A → S) (body : S → A → Flow R S)
    (as : List A)
    (h : ∀ s a, a ∈ as → I s → body s a = .next (g s a) ∧ I (g s a)) (s : S) (hs : I s) :
    forEach body as s = .next (as.foldl g s) ∧ I (as.foldl g s) := by
  induction as generalizing s with
  | nil => exact ⟨rfl, hs⟩
  | cons a as ih =>
    obtain ⟨hb, hi⟩ := h s a (by simp) hs
    have := ih (fun s' a' ha' hs' => h s' a' (by simp [ha']) hs') (g s a) hi
    simp [forEach, hb, this]

/-- writing `f x` at position `k + i` for the `i`-th element, into a vector that is long enough, yields the map -/
theorem foldl_set_zipIdx {A : Type} (f : A → Nat) (xs : List A) (k : Nat) (pre : List Nat) (hk : pre.length = k) (tail : List Nat)
    (ht : tail.length = xs.length) :
    (xs.zipIdx k).foldl (fun y (p : A × Nat) => y.set p.2 (f p.1)) (pre ++ tail) = pre ++ xs.map f := by
  induction xs generalizing k pre tail with
  | nil => cases tail with
    | nil => simp
    | cons _ _ => simp at ht
  | cons x xs ih =>
    cases tail with
    | nil => simp at ht
    | cons t tail =>
      simp only [List.zipIdx_cons, List.foldl_cons, List.map_cons]
      have h1 : (pre ++ t :: tail).set k (f x) = (pre ++ [f x]) ++ tail := by
        rw [← hk]; simp
      rw [h1]
      have := ih (k + 1) (pre ++ [f x]) (by simp [hk]) tail (by simpa using ht)
      rw [this]; simp

/-! ### Prediction -/

section Predict
variable {X Wt P C α μ : Type} [LinearOrder α] [Inhabited Wt] [Inhabited C]

/-- **`step_pred` is the model's `stepPred` and does not touch the estimator.** -/
theorem step_pred_spec (K : Kernel X Wt α μ) (E : Ext X Wt P C α) (self : Self Wt P) (x : X)
    (hch : ∀ w, (E.category_choice self.W x w self.params).1 = K.choice self.W x w) :
    Art.Gen.BaseART.step_pred E self x = (self, (stepPred K self.W x).getD 0) := by
  unfold Art.Gen.BaseART.step_pred stepPred activations
  simp only [List.map_map]
  have : (Prod.fst ∘ fun w => E.category_choice self.W x w self.params) = K.choice self.W x := by
    funext w; exact hch w
  rw [this]

/-- **`predict` is the row-wise map of `stepPred` and returns the estimator unchanged** (C08: pure, row-wise). -/
theorem predict_spec (K : Kernel X Wt α μ) (E : Ext X Wt P C α) (self : Self Wt P) (Xs : List X)
    (hch : ∀ x ∈ Xs, ∀ w, (E.category_choice self.W x w self.params).1 = K.choice self.W x w) :
    Art.Gen.BaseART.predict E self Xs = (self, Xs.map (fun x => (stepPred K self.W x).getD 0)) := by
  unfold Art.Gen.BaseART.predict
  simp only
  let pk : List Nat → List Wt × List Nat × Nat × P × List Nat × Bool × List Nat :=
    fun y => (self.W, self.cnt, self.n, self.params, self.labels, self.hasW, y)
  have hloop := forEach_next_inv (R := Self Wt P × List Nat)
    (I := fun s => ∃ y, s = pk y)
    (g := fun s (p : X × Nat) => pk (s.2.2.2.2.2.2.set p.2 ((stepPred K self.W p.1).getD 0)))
    (body := Art.Gen.BaseART.predict_loop1_body E) (as := List.zipIdx Xs)
    (by
      rintro s ⟨x, i⟩ hmem ⟨y, rfl⟩
      have hx : x ∈ Xs := List.fst_mem_of_mem_zipIdx hmem
      refine ⟨?_, ⟨_, rfl⟩⟩
      unfold Art.Gen.BaseART.predict_loop1_body
      simp only [pk]
      have hsp := step_pred_spec K E self x (hch x hx)
      have hself : (⟨self.W, self.cnt, self.n, self.params, self.labels, self.hasW⟩ : Self Wt P) = self := rfl
      simp only [hself, hsp])
    (pk (List.replicate Xs.length 0)) ⟨_, rfl⟩
  obtain ⟨h1, _⟩ := hloop
  simp only [pk] at h1
  rw [h1]
  have hfold : ∀ (l : List (X × Nat)) (y : List Nat),
      (l.foldl (fun s (p : X × Nat) => pk (s.2.2.2.2.2.2.set p.2 ((stepPred K self.W p.1).getD 0))) (pk y)) =
        pk (l.foldl (fun y (p : X × Nat) => y.set p.2 ((stepPred K self.W p.1).getD 0)) y) := by
    intro l
    induction l with
    | nil => intro y; rfl
    | cons a l ih => intro y; simp only [List.foldl_cons]; exact ih _
  have h2 := hfold (List.zipIdx Xs) (List.replicate Xs.length 0)
  simp only [pk] at h2
  rw [h2]
  have h3 := foldl_set_zipIdx (fun x => (stepPred K self.W x).getD 0) Xs 0 [] rfl (List.replicate Xs.length 0) (by simp)
  simp only [List.nil_append] at h3
  rw [h3]

end Predict

end Art.GenSpec.Control
