/-
ArtGenProofs.FusionSpec — FusionART's channel plumbing, as translated from the Python source by
`harness/artv/ftrans.py` (ArtGen/Fusion.lean), computes the definitions of `ArtModel/Fusion.lean` that the
C10 / C11 property theorems are stated about — for every number of channels, every layout of widths, every sample,
weight, cache and set of skipped channels.  The nested estimators are abstract objects (`ModOps`); what is assumed
of them is stated as hypotheses of each theorem (their kernel methods are the channel's `Kernel`), and the section
`Example` instantiates everything with two FuzzyART channels over ℚ and runs the generated code.

  fusion_positions              get_channel_position_tuples = the start/end table of the widths
  fusion_category_choice        category_choice(…, skip_channels) = Fusion.choiceSkip  (gamma-weighted sum, 1·gamma for a skipped channel)
  fusion_match_criterion_bin    match_criterion_bin = conjunction of the modules' own tests over the channels not skipped
  fusion_match_bin_model        … = Fusion.matchBinSkip when each test is the scalar vigilance test
  fusion_update / _new_weight   = Fusion.rawUpdate / rawNew (+ the new `_weight_indices` table)
  fusion_add_weight / _set_weight (_model)   module k receives slice k  (= Fusion.modsAdd / modsSet)
  fusion_match_tracking         a channel whose own test passed lets its module track; all(keep_searching)
  fusion_W_get (_model)         the W property = Fusion.fusedW
  fusion_*_none                 a missing cache raises
-/
import ArtGen.Fusion
import ArtProofs.Fusion

set_option linter.unusedSectionVars false

namespace Art.GenSpec
open Art Art.Fusion Art.Imp Art.Gen.FusionART

section Basics
variable {β γ : Type}

theorem mapM_some_of_forall {l : List γ} {f : γ → Option β} {g : γ → β}
    (h : ∀ a ∈ l, f a = some (g a)) : l.mapM f = some (l.map g) := by
  induction l with
  | nil => rfl
  | cons a l ih =>
    rw [List.mapM_cons, h a (by simp), ih (fun b hb => h b (by simp [hb]))]
    rfl

/-- `get_channel_position_tuples(ws)[k] = (start_k, start_k + ws[k])` -/
def positions (ws : List Nat) : List (Nat × Nat) :=
  (List.range ws.length).map (fun k => (offset ws k, offset ws k + ws.getD k 0))

theorem foldl_positions (ws : List Nat) (acc : List (Nat × Nat)) (start : Nat) :
    ws.foldl (fun (p : List (Nat × Nat) × Nat) len => (p.1 ++ [(p.2, p.2 + len)], p.2 + len)) (acc, start)
      = (acc ++ (List.range ws.length).map (fun k => (start + offset ws k, start + offset ws k + ws.getD k 0)),
          start + ws.sum) := by
  induction ws generalizing acc start with
  | nil => simp [offset]
  | cons w ws ih =>
    rw [List.foldl_cons, ih]
    simp only [List.length_cons, List.range_succ_eq_map, List.map_cons, List.map_map, List.sum_cons]
    congr 1
    · simp [offset, Nat.add_assoc]
    · omega

theorem foldlM_Id {σ : Type} (f : σ → γ → σ) (b : σ) (l : List γ) :
    List.foldlM (m := Id) f b l = l.foldl f b := by
  induction l generalizing b with
  | nil => rfl
  | cons a l ih => simp only [List.foldlM_cons, List.foldl_cons]; exact ih _

theorem fusion_positions (dims : List Nat) : get_channel_position_tuples dims = positions dims := by
  unfold get_channel_position_tuples
  simp only [Id.run, bind, pure]
  rw [foldlM_Id, foldl_positions]
  simp [positions]

theorem positions_getElem? (ws : List Nat) (k : Nat) (hk : k < ws.length) :
    (positions ws)[k]? = some (offset ws k, offset ws k + ws.getD k 0) := by
  simp [positions, hk]

theorem pySlice_positions (ws : List Nat) (k : Nat) (hk : k < ws.length) (v : List β) :
    pySlice v (offset ws k) (offset ws k + ws.getD k 0) = slice ws k v := by
  rw [slice_eq_drop_take ws k v hk, pySlice, List.drop_take, Nat.add_sub_cancel_left]

theorem optSum_eq_osum {α : Type} [Add α] [Zero α] [Mul α] [One α] (l : List (Option α)) : optSum l = osum l := by
  unfold optSum osum
  congr 1

theorem range_map_eq_zipIdx_map {δ : Type} (l : List γ) (G : Nat → δ) (F : γ × Nat → δ)
    (h : ∀ k c, l[k]? = some c → G k = F (c, k)) :
    (List.range l.length).map G = l.zipIdx.map F := by
  apply List.ext_getElem?
  intro k
  rw [zipIdx_map_getElem?]
  by_cases hk : k < l.length
  · simp [hk, h k l[k] (List.getElem?_eq_getElem hk)]
  · simp [hk]

end Basics

section Kernels
variable {M P C Op α : Type} [Add α] [Mul α] [Zero α] [One α]

/-- what ties the abstract nested estimators to the channels of the model: there are as many, the two index tables
are the ones the constructor / `new_weight` build, the gammas are the channels' -/
structure Layout (chans : List (Chan α)) (modules : List M) (n : Nat) (chIdx wIdx : List (Nat × Nat))
    (gamma_values : List α) : Prop where
  n_eq : n = modules.length
  len : modules.length = chans.length
  ch : chIdx = positions (widths chans)
  w : wIdx = positions (wlens chans)
  gam : gamma_values = chans.map (·.gamma)

theorem fusion_category_choice (ops : ModOps M α P C Op) (chans : List (Chan α)) (modules : List M) (n : Nat)
    (chIdx wIdx : List (Nat × Nat)) (gamma_values : List α) (dictEmpty : C)
    (L : Layout chans modules n chIdx wIdx gamma_values) (W : List (List α))
    (hW : ∀ (k : Nat) m, modules[k]? = some m → ops.W m = W.map (slice (wlens chans) k))
    (hK : ∀ (k : Nat) m (c : Chan α), modules[k]? = some m → chans[k]? = some c → ∀ xi wi,
      (ops.category_choice m xi wi (ops.params m)).1 = c.K.choice (ops.W m) xi wi)
    (x w : List α) (skip : List Nat) :
    (category_choice ops modules n chIdx wIdx gamma_values dictEmpty x w skip).map (·.1)
      = some (choiceSkip chans (fun k => skip.contains k) W x w) := by
  obtain ⟨hn, hlen, hch, hw, hg⟩ := L
  subst hn hch hw hg
  unfold category_choice
  let G : Nat → Option α × C := fun k =>
    match modules[k]? with
    | some m => if skip.contains k then (some 1, dictEmpty)
        else ops.category_choice m (slice (widths chans) k x) (slice (wlens chans) k w) (ops.params m)
    | none => (some 1, dictEmpty)
  rw [mapM_some_of_forall (g := G)]
  · simp only [Option.bind_eq_bind, Option.bind_some]
    rw [mapM_some_of_forall (g := fun ak => optMul ak.1 ((chans.map (·.gamma)).getD ak.2 0))]
    · simp only [Option.bind_some, Option.map_some, pure, optSum_eq_osum]
      congr 1
      unfold choiceSkip chanTerms
      congr 1
      apply List.ext_getElem?
      intro k
      rw [zipIdx_map_getElem?, zipIdx_map_getElem?]
      simp only [List.getElem?_map]
      by_cases hk : k < modules.length
      · have hkc : k < chans.length := hlen ▸ hk
        have hm : modules[k]? = some modules[k] := List.getElem?_eq_getElem hk
        have hc : chans[k]? = some chans[k] := List.getElem?_eq_getElem hkc
        simp only [List.getElem?_range hk, Option.map_some, hc, G, hm, chanTerm]
        congr 1
        by_cases hs : k ∈ skip
        · simp [hs, optMul, hc]
        · simp [hs, optMul, hc, hK k _ _ hm hc, hW k _ hm]
      · have hkc : ¬ k < chans.length := hlen ▸ hk
        simp [hk, hkc]
    · intro ak hak
      have h2 := List.snd_lt_of_mem_zipIdx hak
      simp only [List.length_map, List.length_range, Nat.add_zero] at h2
      have hkc : ak.2 < chans.length := hlen ▸ h2
      obtain ⟨a, k⟩ := ak
      simp [hkc]
  · intro k hk
    have hk' : k < modules.length := List.mem_range.1 hk
    have hkc : k < chans.length := hlen ▸ hk'
    have hm : modules[k]? = some modules[k] := List.getElem?_eq_getElem hk'
    have hp1 := positions_getElem? (widths chans) k (by simpa using hkc)
    have hp2 := positions_getElem? (wlens chans) k (by simpa using hkc)
    have hs1 := pySlice_positions (widths chans) k (by simpa using hkc) x
    have hs2 := pySlice_positions (wlens chans) k (by simpa using hkc) w
    simp only [List.getD_eq_getElem?_getD] at hp1 hp2 hs1 hs2
    by_cases hs : k ∈ skip
    · simp [G, hm, hs]
    · simp [G, hm, hs, hp1, hp2, hs1, hs2]

theorem fusion_match_criterion_bin_none (ops : ModOps M α P C Op) (modules : List M) (n : Nat)
    (chIdx wIdx : List (Nat × Nat)) (dictSkip : C) (x w : List α) (op : Op) (skip : List Nat) :
    match_criterion_bin ops modules n chIdx wIdx dictSkip x w none op skip = none := rfl

/-- `all(M_bin)`: the conjunction, over the channels that are not skipped, of the modules' own tests on their own slices -/
theorem fusion_match_criterion_bin (ops : ModOps M α P C Op) (chans : List (Chan α)) (modules : List M) (n : Nat)
    (chIdx wIdx : List (Nat × Nat)) (gamma_values : List α) (dictSkip : C)
    (L : Layout chans modules n chIdx wIdx gamma_values)
    (x w : List α) (cache : List C) (hcache : cache.length = n) (op : Op) (skip : List Nat) :
    (match_criterion_bin ops modules n chIdx wIdx dictSkip x w (some cache) op skip).map (·.1)
      = some (modules.zipIdx.all (fun mk => skip.contains mk.2 ||
          (cache[mk.2]?).any (fun c => (ops.match_criterion_bin mk.1 (slice (widths chans) mk.2 x)
            (slice (wlens chans) mk.2 w) (ops.params mk.1) c op).1))) := by
  obtain ⟨hn, hlen, hch, hw, hg⟩ := L
  subst hn hch hw hg
  unfold match_criterion_bin
  let G : Nat → Bool × C := fun k =>
    match modules[k]?, cache[k]? with
    | some m, some c => if skip.contains k then (true, dictSkip)
        else ops.match_criterion_bin m (slice (widths chans) k x) (slice (wlens chans) k w) (ops.params m) c op
    | _, _ => (true, dictSkip)
  simp only [Option.bind_eq_bind, Option.bind_some]
  rw [mapM_some_of_forall (g := G)]
  · simp only [Option.bind_some, Option.map_some, pure]
    congr 1
    have e : ∀ (l : List (M × Nat)) (F : M × Nat → Bool), l.all F = (l.map F).all id := by
      intro l F; simp [List.all_map, Function.comp_def]
    rw [e]
    congr 1
    rw [List.map_map]
    apply range_map_eq_zipIdx_map
    intro k m hm
    have hk : k < modules.length := (List.getElem?_eq_some_iff.1 hm).1
    have hcc : cache[k]? = some cache[k] := List.getElem?_eq_getElem (hcache ▸ hk)
    by_cases hs : k ∈ skip
    · simp [G, hm, hcc, hs]
    · simp [G, hm, hcc, hs]
  · intro k hk
    have hk' : k < modules.length := List.mem_range.1 hk
    have hkc : k < chans.length := hlen ▸ hk'
    have hm : modules[k]? = some modules[k] := List.getElem?_eq_getElem hk'
    have hcc : cache[k]? = some cache[k] := List.getElem?_eq_getElem (hcache ▸ hk')
    have hp1 := positions_getElem? (widths chans) k (by simpa using hkc)
    have hp2 := positions_getElem? (wlens chans) k (by simpa using hkc)
    have hs1 := pySlice_positions (widths chans) k (by simpa using hkc) x
    have hs2 := pySlice_positions (wlens chans) k (by simpa using hkc) w
    simp only [List.getD_eq_getElem?_getD] at hp1 hp2 hs1 hs2
    by_cases hs : k ∈ skip
    · simp [G, hm, hcc, hs]
    · simp [G, hm, hcc, hs, hp1, hp2, hs1, hs2]

/-- `FusionART.update` = the concatenation of the modules' updates of their own slices -/
theorem fusion_update (ops : ModOps M α P C Op) (chans : List (Chan α)) (modules : List M) (n : Nat)
    (chIdx wIdx : List (Nat × Nat)) (gamma_values : List α)
    (L : Layout chans modules n chIdx wIdx gamma_values)
    (hK : ∀ (k : Nat) m (c : Chan α), modules[k]? = some m → chans[k]? = some c → ∀ xi wi cc,
      ops.update m xi wi (ops.params m) cc = c.K.update xi wi)
    (x w : List α) (cache : List C) (hcache : cache.length = n) :
    update ops modules n chIdx wIdx x w (some cache) = some (rawUpdate chans x w) := by
  obtain ⟨hn, hlen, hch, hw, hg⟩ := L
  subst hn hch hw hg
  unfold update
  simp only [Option.bind_eq_bind, Option.bind_some]
  rw [mapM_some_of_forall (g := fun k => ((chans[k]?).map (fun c => c.K.update (slice (widths chans) k x)
        (slice (wlens chans) k w))).getD [])]
  · simp only [Option.bind_some, pure, rawUpdate, updatePieces]
    congr 2
    apply List.ext_getElem?
    intro k
    rw [zipIdx_map_getElem?]
    by_cases hk : k < modules.length
    · have hkc : k < chans.length := hlen ▸ hk
      simp [hk, hkc]
    · have hkc : ¬ k < chans.length := hlen ▸ hk
      simp [hk, hkc]
  · intro k hk
    have hk' : k < modules.length := List.mem_range.1 hk
    have hkc : k < chans.length := hlen ▸ hk'
    have hm : modules[k]? = some modules[k] := List.getElem?_eq_getElem hk'
    have hc : chans[k]? = some chans[k] := List.getElem?_eq_getElem hkc
    have hcc : cache[k]? = some cache[k] := List.getElem?_eq_getElem (hcache ▸ hk')
    have hp1 := positions_getElem? (widths chans) k (by simpa using hkc)
    have hp2 := positions_getElem? (wlens chans) k (by simpa using hkc)
    have hs1 := pySlice_positions (widths chans) k (by simpa using hkc) x
    have hs2 := pySlice_positions (wlens chans) k (by simpa using hkc) w
    simp only [List.getD_eq_getElem?_getD] at hp1 hp2 hs1 hs2
    simp [hm, hc, hcc, hp1, hp2, hs1, hs2, hK k _ _ hm hc]

theorem fusion_update_none (ops : ModOps M α P C Op) (modules : List M) (n : Nat)
    (chIdx wIdx : List (Nat × Nat)) (x w : List α) :
    update ops modules n chIdx wIdx x w none = none := rfl

/-- `FusionART.new_weight` = the concatenation of the modules' new weights; `_weight_indices` becomes the position
table of their lengths -/
theorem fusion_new_weight (ops : ModOps M α P C Op) (chans : List (Chan α)) (modules : List M) (n : Nat)
    (chIdx wIdx : List (Nat × Nat)) (gamma_values : List α)
    (L : Layout chans modules n chIdx wIdx gamma_values)
    (hK : ∀ (k : Nat) m (c : Chan α), modules[k]? = some m → chans[k]? = some c → ∀ xi,
      ops.new_weight m xi (ops.params m) = c.K.newW xi)
    (x : List α) :
    new_weight ops modules n chIdx wIdx x
      = some (positions ((newPieces chans x).map List.length), rawNew chans x) := by
  obtain ⟨hn, hlen, hch, hw, hg⟩ := L
  subst hn hch hw hg
  unfold new_weight
  simp only [Option.bind_eq_bind]
  rw [mapM_some_of_forall (g := fun k => ((chans[k]?).map (fun c => c.K.newW (slice (widths chans) k x))).getD [])]
  · have e : (List.range modules.length).map (fun k => ((chans[k]?).map (fun c => c.K.newW (slice (widths chans) k x))).getD [])
        = newPieces chans x := by
      unfold newPieces
      apply List.ext_getElem?
      intro k
      rw [zipIdx_map_getElem?]
      by_cases hk : k < modules.length
      · have hkc : k < chans.length := hlen ▸ hk
        simp [hk, hkc]
      · have hkc : ¬ k < chans.length := hlen ▸ hk
        simp [hk, hkc]
    rw [e]
    simp only [Option.bind_some]
    rw [mapM_some_of_forall (g := List.length) (by intro a _; rfl)]
    simp [fusion_positions, rawNew]
  · intro k hk
    have hk' : k < modules.length := List.mem_range.1 hk
    have hkc : k < chans.length := hlen ▸ hk'
    have hm : modules[k]? = some modules[k] := List.getElem?_eq_getElem hk'
    have hc : chans[k]? = some chans[k] := List.getElem?_eq_getElem hkc
    have hp1 := positions_getElem? (widths chans) k (by simpa using hkc)
    have hs1 := pySlice_positions (widths chans) k (by simpa using hkc) x
    simp only [List.getD_eq_getElem?_getD] at hp1 hs1
    simp [hm, hc, hp1, hs1, hK k _ _ hm hc]

/-! ### loops that write through `self.modules[k]` -/

/-- a `for k in range(j)` whose body replaces `modules[k]` by a function of `k` and the old `modules[k]` -/
theorem foldlM_range_set (body : List M → Nat → Option (List M)) (f : Nat → M → M) (n : Nat)
    (hbody : ∀ (ms : List M) (k : Nat) (m : M), ms.length = n → ms[k]? = some m → body ms k = some (ms.set k (f k m)))
    (modules : List M) (hn : modules.length = n) (j : Nat) (hj : j ≤ n) :
    (List.range j).foldlM body modules
      = some (modules.zipIdx.map (fun mk => if mk.2 < j then f mk.2 mk.1 else mk.1)) := by
  induction j with
  | zero =>
    simp only [List.range_zero, List.foldlM_nil, Nat.not_lt_zero, if_false, pure]
    congr 1
    apply List.ext_getElem?
    intro k
    rw [zipIdx_map_getElem?]
    cases modules[k]? <;> rfl
  | succ j ih =>
    rw [List.range_succ, List.foldlM_append, ih (by omega)]
    simp only [Option.bind_eq_bind, Option.bind_some, List.foldlM_cons, List.foldlM_nil]
    have hjl : j < modules.length := by omega
    have hget : (modules.zipIdx.map (fun mk : M × Nat => if mk.2 < j then f mk.2 mk.1 else mk.1))[j]? = some modules[j] := by
      rw [zipIdx_map_getElem?, List.getElem?_eq_getElem hjl]; simp
    rw [hbody _ j _ (by simp [hn]) hget]
    simp only [Option.bind_some, pure]
    congr 1
    apply List.ext_getElem?
    intro k
    rw [List.getElem?_set, zipIdx_map_getElem?, zipIdx_map_getElem?]
    by_cases hk : k < modules.length
    · rw [List.getElem?_eq_getElem hk]
      by_cases hkj : j = k
      · subst hkj; simp [hk]
      · have : (k < j + 1) = (k < j) := by
          apply propext; constructor <;> intro h <;> omega
        simp [hkj, this]
    · rw [List.getElem?_eq_none (Nat.le_of_not_lt hk)]
      by_cases hkj : j = k
      · omega
      · simp [hkj]

/-- `FusionART.add_weight`: module `k` receives the `k`-th `_weight_indices` slice of the fused weight -/
theorem fusion_add_weight (ops : ModOps M α P C Op) (chans : List (Chan α)) (modules : List M) (n : Nat)
    (chIdx wIdx : List (Nat × Nat)) (gamma_values : List α)
    (L : Layout chans modules n chIdx wIdx gamma_values) (new_w : List α) :
    add_weight ops modules n wIdx new_w
      = some (modules.zipIdx.map (fun mk => ops.add_weight mk.1 (slice (wlens chans) mk.2 new_w))) := by
  obtain ⟨hn, hlen, hch, hw, hg⟩ := L
  subst hn hch hw hg
  unfold add_weight
  simp only [Option.bind_eq_bind]
  rw [foldlM_range_set _ (fun k m => ops.add_weight m (slice (wlens chans) k new_w)) modules.length _ modules rfl
    modules.length (Nat.le_refl _)]
  · try simp only [Option.bind_some, pure]
    congr 1
    apply List.map_congr_left
    intro mk hmk
    have := List.snd_lt_of_mem_zipIdx hmk
    have h2 : mk.2 < modules.length := by omega
    simp [h2]
  · intro ms k m hms hm
    have hk : k < ms.length := (List.getElem?_eq_some_iff.1 hm).1
    have hkc : k < chans.length := by omega
    have hp2 := positions_getElem? (wlens chans) k (by simpa using hkc)
    have hs2 := pySlice_positions (wlens chans) k (by simpa using hkc) new_w
    simp only [List.getD_eq_getElem?_getD] at hp2 hs2
    simp [hm, hp2, hs2]

/-- `FusionART.set_weight` -/
theorem fusion_set_weight (ops : ModOps M α P C Op) (chans : List (Chan α)) (modules : List M) (n : Nat)
    (chIdx wIdx : List (Nat × Nat)) (gamma_values : List α)
    (L : Layout chans modules n chIdx wIdx gamma_values) (idx : Nat) (new_w : List α) :
    set_weight ops modules n wIdx idx new_w
      = some (modules.zipIdx.map (fun mk => ops.set_weight mk.1 idx (slice (wlens chans) mk.2 new_w))) := by
  obtain ⟨hn, hlen, hch, hw, hg⟩ := L
  subst hn hch hw hg
  unfold set_weight
  simp only [Option.bind_eq_bind]
  rw [foldlM_range_set _ (fun k m => ops.set_weight m idx (slice (wlens chans) k new_w)) modules.length _ modules rfl
    modules.length (Nat.le_refl _)]
  · try simp only [Option.bind_some, pure]
    congr 1
    apply List.map_congr_left
    intro mk hmk
    have := List.snd_lt_of_mem_zipIdx hmk
    have h2 : mk.2 < modules.length := by omega
    simp [h2]
  · intro ms k m hms hm
    have hk : k < ms.length := (List.getElem?_eq_some_iff.1 hm).1
    have hkc : k < chans.length := by omega
    have hp2 := positions_getElem? (wlens chans) k (by simpa using hkc)
    have hs2 := pySlice_positions (wlens chans) k (by simpa using hkc) new_w
    simp only [List.getD_eq_getElem?_getD] at hp2 hs2
    simp [hm, hp2, hs2]

/-- the same with a list that collects one answer per module -/
theorem foldlM_range_set2 {B : Type} (body : List B × List M → Nat → Option (List B × List M))
    (g : Nat → M → B) (f : Nat → M → M) (n : Nat)
    (hbody : ∀ (acc : List B) (ms : List M) (k : Nat) (m : M), ms.length = n → ms[k]? = some m →
      body (acc, ms) k = some (acc ++ [g k m], ms.set k (f k m)))
    (modules : List M) (hn : modules.length = n) (acc0 : List B) (j : Nat) (hj : j ≤ n) :
    (List.range j).foldlM body (acc0, modules)
      = some (acc0 ++ (modules.take j).zipIdx.map (fun mk => g mk.2 mk.1),
              modules.zipIdx.map (fun mk => if mk.2 < j then f mk.2 mk.1 else mk.1)) := by
  induction j with
  | zero =>
    simp only [List.range_zero, List.foldlM_nil, Nat.not_lt_zero, if_false, pure, List.take_zero, List.zipIdx_nil,
      List.map_nil, List.append_nil]
    congr 2
    apply List.ext_getElem?
    intro k
    rw [zipIdx_map_getElem?]
    cases modules[k]? <;> rfl
  | succ j ih =>
    rw [List.range_succ, List.foldlM_append, ih (by omega)]
    simp only [Option.bind_eq_bind, Option.bind_some, List.foldlM_cons, List.foldlM_nil]
    have hjl : j < modules.length := by omega
    have hget : (modules.zipIdx.map (fun mk : M × Nat => if mk.2 < j then f mk.2 mk.1 else mk.1))[j]? = some modules[j] := by
      rw [zipIdx_map_getElem?, List.getElem?_eq_getElem hjl]; simp
    rw [hbody _ _ j _ (by simp [hn]) hget]
    simp only [Option.bind_some, pure]
    congr 2
    · have e : List.take (j + 1) modules = List.take j modules ++ [modules[j]] := by
        rw [List.take_add_one, List.getElem?_eq_getElem hjl]; rfl
      rw [e, List.zipIdx_append, List.map_append]
      simp [List.length_take, Nat.min_eq_left (Nat.le_of_lt hjl)]
    · apply List.ext_getElem?
      intro k
      rw [List.getElem?_set, zipIdx_map_getElem?, zipIdx_map_getElem?]
      by_cases hk : k < modules.length
      · rw [List.getElem?_eq_getElem hk]
        by_cases hkj : j = k
        · subst hkj; simp [hk]
        · have : (k < j + 1) = (k < j) := by
            apply propext; constructor <;> intro h <;> omega
          simp [hkj, this]
      · rw [List.getElem?_eq_none (Nat.le_of_not_lt hk)]
        by_cases hkj : j = k
        · omega
        · simp [hkj]

/-- what `FusionART._match_tracking` does with channel `k`: a channel whose own vigilance test passed lets its module
track; the others keep searching unconditionally -/
def trackChan (ops : ModOps M α P C Op) (cache : List C) (epsilon : α) (method : Art.MT) (mk : M × Nat) : Bool × M :=
  match cache[mk.2]? with
  | some c => if ops.cache_match_criterion_bin c then ops.match_tracking mk.1 c epsilon (ops.params mk.1) method
              else (true, mk.1)
  | none => (true, mk.1)

theorem fusion_match_tracking (ops : ModOps M α P C Op) (modules : List M) (cache : List C)
    (hc : cache.length = modules.length) (epsilon : α) (method : Art.MT) :
    match_tracking ops modules cache epsilon method
      = some (modules.zipIdx.map (fun mk => (trackChan ops cache epsilon method mk).2),
              (modules.zipIdx.map (fun mk => (trackChan ops cache epsilon method mk).1)).all id) := by
  unfold match_tracking
  simp only [Option.bind_eq_bind]
  rw [foldlM_range_set2 _ (fun k m => (trackChan ops cache epsilon method (m, k)).1)
    (fun k m => (trackChan ops cache epsilon method (m, k)).2) modules.length _ modules rfl [] cache.length (by omega)]
  · simp only [Option.bind_some, pure, List.nil_append, hc, List.take_length]
    congr 2
    apply List.map_congr_left
    intro mk hmk
    have := List.snd_lt_of_mem_zipIdx hmk
    have h2 : mk.2 < modules.length := by omega
    simp [h2]
  · intro acc ms k m hms hm
    have hk : k < ms.length := (List.getElem?_eq_some_iff.1 hm).1
    have hcc : cache[k]? = some cache[k] := List.getElem?_eq_getElem (by omega)
    by_cases hb : ops.cache_match_criterion_bin cache[k]
    · simp [hm, hcc, hb, trackChan]
    · have hset : ms.set k m = ms := by
        obtain ⟨hk2, hmk⟩ := List.getElem?_eq_some_iff.1 hm
        rw [← hmk]; exact List.set_getElem_self hk2
      simp only [hm, hcc, hb, trackChan, Option.bind_some, Bool.false_eq_true, if_false, pure, hset]

/-- the `W` property: category `i` of the fused weight list is the concatenation of the modules' `i`-th weights -/
theorem fusion_W_get (ops : ModOps M α P C Op) (modules : List M) (n : Nat) (hn : n = modules.length) (m0 : M)
    (h0 : modules[0]? = some m0) (hW : ∀ m ∈ modules, ops.n_clusters m0 ≤ (ops.W m).length) :
    W_get ops modules n
      = some ((List.range (ops.n_clusters m0)).map (fun i => (modules.map (fun m => (ops.W m).getD i [])).flatten)) := by
  subst hn
  unfold W_get
  simp only [Option.bind_eq_bind, h0, Option.bind_some]
  rw [mapM_some_of_forall (g := fun i => (modules.map (fun m => (ops.W m).getD i [])).flatten)]
  · rfl
  · intro i hi
    have hi' : i < ops.n_clusters m0 := List.mem_range.1 hi
    rw [mapM_some_of_forall (g := fun k => ((modules[k]?).map (fun m => (ops.W m).getD i [])).getD [])]
    · simp only [Option.bind_some, pure]
      congr 2
      apply List.ext_getElem?
      intro k
      by_cases hk : k < modules.length
      · simp [hk]
      · simp [hk]
    · intro k hk
      have hk' : k < modules.length := List.mem_range.1 hk
      have hm : modules[k]? = some modules[k] := List.getElem?_eq_getElem hk'
      have hl := hW modules[k] (List.getElem_mem hk')
      have : i < (ops.W modules[k]).length := by omega
      simp [hm, this]

/-! ### the same statements in the vocabulary of `ArtModel/Fusion.lean` -/

/-- `add_weight` on the module states = the model's `modsAdd` -/
theorem fusion_add_weight_model (ops : ModOps M α P C Op) (chans : List (Chan α)) (modules : List M) (n : Nat)
    (chIdx wIdx : List (Nat × Nat)) (gamma_values : List α)
    (L : Layout chans modules n chIdx wIdx gamma_values) (st : M → ModState α)
    (hst : ∀ m v, st (ops.add_weight m v) = ⟨(st m).W ++ [v], (st m).cnt ++ [1]⟩) (new_w : List α) :
    (add_weight ops modules n wIdx new_w).map (·.map st)
      = some (modsAdd (wlens chans) (modules.map st) new_w) := by
  rw [fusion_add_weight ops chans modules n chIdx wIdx gamma_values L]
  simp only [Option.map_some, modsAdd]
  congr 1
  apply List.ext_getElem?
  intro k
  rw [List.getElem?_map, zipIdx_map_getElem?, List.getElem?_zipWith, List.getElem?_map]
  have hl : (splitBy (wlens chans) new_w).length = modules.length := by simp [L.len]
  by_cases hk : k < modules.length
  · have h2 : k < (splitBy (wlens chans) new_w).length := hl ▸ hk
    have h3 : (splitBy (wlens chans) new_w)[k]? = some (splitBy (wlens chans) new_w)[k] := List.getElem?_eq_getElem h2
    simp [hk, h3, hst, slice, List.getD_eq_getElem?_getD]
  · simp [hk]

/-- `set_weight` on the module states = the model's `modsSet` -/
theorem fusion_set_weight_model (ops : ModOps M α P C Op) (chans : List (Chan α)) (modules : List M) (n : Nat)
    (chIdx wIdx : List (Nat × Nat)) (gamma_values : List α)
    (L : Layout chans modules n chIdx wIdx gamma_values) (st : M → ModState α)
    (hst : ∀ m c v, st (ops.set_weight m c v) = ⟨(st m).W.set c v, (st m).cnt.set c ((st m).cnt.getD c 0 + 1)⟩)
    (idx : Nat) (new_w : List α) :
    (set_weight ops modules n wIdx idx new_w).map (·.map st)
      = some (modsSet (wlens chans) (modules.map st) idx new_w) := by
  rw [fusion_set_weight ops chans modules n chIdx wIdx gamma_values L]
  simp only [Option.map_some, modsSet]
  congr 1
  apply List.ext_getElem?
  intro k
  rw [List.getElem?_map, zipIdx_map_getElem?, List.getElem?_zipWith, List.getElem?_map]
  have hl : (splitBy (wlens chans) new_w).length = modules.length := by simp [L.len]
  by_cases hk : k < modules.length
  · have h2 : k < (splitBy (wlens chans) new_w).length := hl ▸ hk
    have h3 : (splitBy (wlens chans) new_w)[k]? = some (splitBy (wlens chans) new_w)[k] := List.getElem?_eq_getElem h2
    simp [hk, h3, hst, slice, List.getD_eq_getElem?_getD]
  · simp [hk]

/-- the `W` property = the model's `fusedW` of the module states -/
theorem fusion_W_get_model (ops : ModOps M α P C Op) (modules : List M) (n : Nat) (hn : n = modules.length)
    (st : M → ModState α) (hstW : ∀ m, ops.W m = (st m).W) (hnc : ∀ m, ops.n_clusters m = (st m).W.length)
    (m0 : M) (h0 : modules[0]? = some m0) (hW : ∀ m ∈ modules, (st m0).W.length ≤ (st m).W.length) :
    W_get ops modules n = some (fusedW (modules.map st)) := by
  rw [fusion_W_get ops modules n hn m0 h0 (by intro m hm; rw [hnc, hstW]; exact hW m hm)]
  congr 1
  unfold fusedW
  have hh : (modules.map st).head? = some (st m0) := by
    cases modules with
    | nil => simp at h0
    | cons a l => simp at h0; simp [h0]
  simp [hh, hnc, hstW, Function.comp_def]

end Kernels

section Vigilance
variable {M P C Op α : Type} [Add α] [Mul α] [Zero α] [One α] [LT α] [LE α]
  [DecidableRel (α := α) (· < ·)] [DecidableRel (α := α) (· ≤ ·)]

/-- when every module's own test is the scalar vigilance test of its match value, `match_criterion_bin` is the
model's `matchBinSkip` -/
theorem fusion_match_bin_model (ops : ModOps M α P C Op) (chans : List (Chan α)) (modules : List M) (n : Nat)
    (chIdx wIdx : List (Nat × Nat)) (gamma_values : List α) (dictSkip : C)
    (L : Layout chans modules n chIdx wIdx gamma_values) (mode : MT) (rho : M → α) (op : Op)
    (hB : ∀ (k : Nat) m (c : Chan α), modules[k]? = some m → chans[k]? = some c → ∀ xi wi cc,
      (ops.match_criterion_bin m xi wi (ops.params m) cc op).1 = passesScalar mode false (rho m) (c.K.matchv xi wi))
    (x w : List α) (cache : List C) (hcache : cache.length = n) (skip : List Nat) :
    (match_criterion_bin ops modules n chIdx wIdx dictSkip x w (some cache) op skip).map (·.1)
      = some (matchBinSkip mode (fun k => skip.contains k) (modules.map rho) (matchVec chans x w)) := by
  rw [fusion_match_criterion_bin ops chans modules n chIdx wIdx gamma_values dictSkip L x w cache hcache op skip]
  congr 1
  unfold matchBinSkip
  have e : ∀ {γ : Type} (l : List γ) (F : γ → Bool), l.all F = (l.map F).all id := by
    intro γ l F; simp [List.all_map, Function.comp_def]
  rw [e modules.zipIdx, e (List.zip _ _).zipIdx]
  congr 1
  apply List.ext_getElem?
  intro k
  rw [zipIdx_map_getElem?, zipIdx_map_getElem?]
  have hlen := L.len
  have hn := L.n_eq
  by_cases hk : k < modules.length
  · have hkc : k < chans.length := hlen ▸ hk
    have hm : modules[k]? = some modules[k] := List.getElem?_eq_getElem hk
    have hc : chans[k]? = some chans[k] := List.getElem?_eq_getElem hkc
    have hcc : cache[k]? = some cache[k] := List.getElem?_eq_getElem (by omega)
    have hz : (List.zip (modules.map rho) (matchVec chans x w))[k]?
        = some (rho modules[k], chans[k].K.matchv (slice (widths chans) k x) (slice (wlens chans) k w)) := by
      rw [List.getElem?_zip_eq_some]
      constructor
      · simp [hk]
      · unfold matchVec; rw [zipIdx_map_getElem?, hc]; rfl
    rw [hm, hz]
    simp [hcc, hB k _ _ hm hc]
  · have hz : (List.zip (modules.map rho) (matchVec chans x w))[k]? = none := by
      apply List.getElem?_eq_none
      simp [matchVec]; omega
    rw [List.getElem?_eq_none (Nat.le_of_not_lt hk), hz]
    rfl

end Vigilance

/-! ### the hypotheses are satisfiable: two FuzzyART channels over ℚ -/
section Example

/-- a FuzzyART module as an object: its weight list (alpha = 1/100, beta = 1, data width 2, rho = 1/2) -/
def exOps : ModOps (List (List ℚ)) ℚ Unit Bool Unit :=
  { category_choice := fun m xi wi _ => ((fuzzyKernel (1/100 : ℚ) 1 2).choice m xi wi, true)
    match_criterion_bin := fun _ xi wi _ _ _ =>
      (decide ((1/2 : ℚ) ≤ (fuzzyKernel (1/100 : ℚ) 1 2).matchv xi wi), decide ((1/2 : ℚ) ≤ (fuzzyKernel (1/100 : ℚ) 1 2).matchv xi wi))
    update := fun _ xi wi _ _ => (fuzzyKernel (1/100 : ℚ) 1 2).update xi wi
    new_weight := fun _ xi _ => (fuzzyKernel (1/100 : ℚ) 1 2).newW xi
    match_tracking := fun m _ _ _ _ => (true, m)
    add_weight := fun m v => m ++ [v]
    set_weight := fun m c v => m.set c v
    params := fun _ => ()
    W := fun m => m
    n_clusters := fun m => m.length
    cache_match_criterion_bin := fun c => c }

def exChans : List (Chan ℚ) :=
  [⟨fuzzyKernel (1/100 : ℚ) 1 2, 4, 1/4, 4⟩, ⟨fuzzyKernel (1/100 : ℚ) 1 2, 4, 3/4, 4⟩]

def exModules : List (List (List ℚ)) := [[[1/2, 1/4, 1/2, 3/4]], [[1/4, 1/4, 3/4, 3/4]]]

example : Layout exChans exModules 2 (get_channel_position_tuples [4, 4]) (get_channel_position_tuples [4, 4])
    [1/4, 3/4] :=
  ⟨rfl, rfl, by rw [fusion_positions]; rfl, by rw [fusion_positions]; rfl, rfl⟩

/-- the generated code run on that instance: both channels contribute, channel 1 skipped contributes its gamma -/
example : (category_choice exOps exModules 2 (get_channel_position_tuples [4, 4]) (get_channel_position_tuples [4, 4])
    [1/4, 3/4] false [1/2, 1/2, 1/2, 1/2, 1/4, 1/2, 3/4, 1/2] [1/2, 1/4, 1/2, 3/4, 1/4, 1/4, 3/4, 3/4] [1]).map (·.1)
    = some (some (389/402)) := by
  decide +kernel

example : (set_weight exOps exModules 2 (get_channel_position_tuples [4, 4]) 0 [0, 0, 0, 0, 1, 1, 1, 1])
    = some [[[0, 0, 0, 0]], [[1, 1, 1, 1]]] := by
  decide +kernel

end Example

end Art.GenSpec
