/-
ArtGenProofs.MiscSpec — the last public functions of artlib, as translated from the Python source by
`harness/artv/mtrans.py` (ArtGen/Misc.lean), compute their reference definitions (`ArtModel/Misc.lean`, on top of
`ArtModel/Fusion.lean` / `ArtModel/Falcon.lean`) — for all arguments.

1. `FusionART.match_criterion` (C10 / C11)
  npNanmax_eq                        the generated helper's fold = `Misc.nanmax` (non-empty tuple)
  fusion_match_criterion_none        a missing cache raises
  fusion_match_criterion_empty       no channel: `M, caches = zip(*[])` raises
  fusion_match_criterion_spec        = (nanmax of the answers, their caches): channel k not skipped ↦ module k's own
                                     match_criterion on slice k of i and of w, with modules[k].params and cache[k];
                                     a skipped channel ↦ (NaN, {"match_criterion": inf})
  fusion_match_criterion_model       the value = `Misc.fusionMatch` (nanmax of `Fusion.matchVec`, skipped = NaN)
  fusion_match_criterion_caches      the returned cache holds, per channel, the module's cache / the skip constant
  fusionMatch_is_max / _none_iff     it is an upper bound of the non-skipped channel values and is attained; NaN iff all skipped
  fusion_match_skip_independent      the value does not depend on the skipped columns (C11)
  gen_fusion_resonance_bound         transport of C10.fusion_match_all: when the fused vigilance test passes (non-strict
                                     mode), rho_k ≤ m_k ≤ the generated match_criterion for every channel
  fusion_match_not_bin               …but the converse fails: match_criterion is a max, the resonance test a conjunction
2. `FALCON.get_probabilistic_action` (C16 / C04)
  probVector_pos_sum                 every probability > 0, they sum to 1 — every reward vector (all-zero included), offset ≥ 0
  prob_pipeline_spec                 the generated arithmetic = `Misc.probVector` and never divides by zero
  get_probabilistic_action_spec      generated = `Misc.probAction` of what the generated get_actions_and_rewards returns
  get_probabilistic_action_total     it never raises when the draw is a position of the vector (np.random.choice's contract)
  get_probabilistic_action_model     on top of the FusionART model (FalconSpec's `Tie`)
  prob_min_inverts, clip_nesting_matters
3. `CVIART._set_params / _deep_copy_params`, `BaseART.shrink_clusters`
  cvi_set_params_spec, cvi_deep_copy_params_spec, cvi_get_set, cvi_set_get, cvi_set_set, cvi_set_frame, shrink_clusters_spec
-/
import ArtGen.Misc
import ArtModel.Misc
import ArtGenProofs.FusionSpec
import ArtGenProofs.FalconSpec
import ArtProps.C10
import Mathlib.Tactic.Positivity
import Mathlib.Tactic.FieldSimp
import Mathlib.Tactic.Linarith

set_option linter.unusedSectionVars false
set_option linter.unusedVariables false

namespace Art.GenSpec.Misc
open Art Art.Fusion Art.Imp Art.ImpMisc

/-! ## 1. FusionART.match_criterion -/
section Match
open Art.Gen.Misc.FusionART
variable {TM TP TC α : Type} [LinearOrder α]

theorem foldl_fmax (l : List (Option α)) (acc : Option α) :
    l.foldl fmax acc = fmax acc (Art.Misc.nanmax l) := by
  induction l generalizing acc with
  | nil => cases acc <;> rfl
  | cons t l ih =>
    rw [List.foldl_cons, ih]
    cases acc with
    | none =>
      cases t with
      | none => simp [fmax, Art.Misc.nanmax]
      | some b =>
        cases h : Art.Misc.nanmax l <;> simp [fmax, Art.Misc.nanmax, h]
    | some a =>
      cases t with
      | none => simp [fmax, Art.Misc.nanmax]
      | some b =>
        cases h : Art.Misc.nanmax l <;> simp [fmax, Art.Misc.nanmax, h, max_assoc]

/-- `np.nanmax` as rendered by the translator = the reference `nanmax`; an empty tuple raises -/
theorem npNanmax_eq (l : List (Option α)) :
    npNanmax l = if l = [] then none else some (Art.Misc.nanmax l) := by
  unfold npNanmax
  cases l with
  | nil => rfl
  | cons t l =>
    simp only [List.isEmpty_cons, Bool.false_eq_true, if_false, reduceCtorEq]
    rw [foldl_fmax]
    rfl

/-- the answers of the channels: module `k`'s own `match_criterion` on slice `k` of sample and weight, with its own
`params` and `cache[k]`; `(NaN, {"match_criterion": inf})` for a skipped channel -/
def chanAnswers (ops : ModOps TM α TP TC) (chans : List (Chan α)) (modules : List TM) (dictSkip : TC)
    (x w : List α) (cache : List TC) (skip : List Nat) : List (Option α × TC) :=
  (modules.zip cache).zipIdx.map (fun mck =>
    if skip.contains mck.2 then (none, dictSkip)
    else ops.match_criterion mck.1.1 (slice (widths chans) mck.2 x) (slice (wlens chans) mck.2 w)
      (ops.params mck.1.1) mck.1.2)

theorem fusion_match_criterion_none (ops : ModOps TM α TP TC) (modules : List TM) (n : Nat)
    (chIdx wIdx : List (Nat × Nat)) (dictSkip : TC) (x w : List α) (skip : List Nat) :
    match_criterion ops modules n chIdx wIdx dictSkip x w none skip = none := rfl

/-- a FusionART without channels: `M, caches = zip(*[])` raises -/
theorem fusion_match_criterion_empty (ops : ModOps TM α TP TC) (modules : List TM)
    (chIdx wIdx : List (Nat × Nat)) (dictSkip : TC) (x w : List α) (cache : Option (List TC)) (skip : List Nat) :
    match_criterion ops modules 0 chIdx wIdx dictSkip x w cache skip = none := by
  cases cache <;> rfl

/-- **`FusionART.match_criterion`** = `np.nanmax` of the channels' answers, and their caches -/
theorem fusion_match_criterion_spec (ops : ModOps TM α TP TC) (chans : List (Chan α)) (modules : List TM) (n : Nat)
    (chIdx wIdx : List (Nat × Nat)) (gamma_values : List α) (dictSkip : TC)
    (L : Layout chans modules n chIdx wIdx gamma_values) (hn : 0 < n)
    (x w : List α) (cache : List TC) (hcache : cache.length = n) (skip : List Nat) :
    match_criterion ops modules n chIdx wIdx dictSkip x w (some cache) skip
      = some (Art.Misc.nanmax ((chanAnswers ops chans modules dictSkip x w cache skip).map (·.1)),
              (chanAnswers ops chans modules dictSkip x w cache skip).map (·.2)) := by
  obtain ⟨hn', hlen, hch, hw, hg⟩ := L
  subst hn' hch hw hg
  unfold match_criterion
  let G : Nat → Option α × TC := fun k =>
    match modules[k]?, cache[k]? with
    | some m, some c => if skip.contains k then (none, dictSkip)
        else ops.match_criterion m (slice (widths chans) k x) (slice (wlens chans) k w) (ops.params m) c
    | _, _ => (none, dictSkip)
  have hG : (List.range modules.length).map G = chanAnswers ops chans modules dictSkip x w cache skip := by
    unfold chanAnswers
    apply List.ext_getElem?
    intro k
    rw [zipIdx_map_getElem?]
    by_cases hk : k < modules.length
    · have hkc : k < cache.length := hcache ▸ hk
      simp [hk, hkc, G]
    · have hkc : ¬ k < cache.length := hcache ▸ hk
      simp [hk, hkc]
  simp only [Option.bind_eq_bind, Option.bind_some]
  rw [mapM_some_of_forall (g := G)]
  · have hne : (List.range modules.length).map G ≠ [] := by
      intro h
      have := congrArg List.length h
      simp only [List.length_map, List.length_range, List.length_nil] at this
      omega
    simp only [Option.bind_some, pyUnzip2, pure]
    rw [hG] at hne ⊢
    have he : (chanAnswers ops chans modules dictSkip x w cache skip).isEmpty = false := by
      cases h : chanAnswers ops chans modules dictSkip x w cache skip with
      | nil => exact absurd h hne
      | cons a l => rfl
    have hm : (chanAnswers ops chans modules dictSkip x w cache skip).map (·.1) ≠ [] := by
      simpa using hne
    simp only [he, Bool.false_eq_true, if_false, Option.bind_some, npNanmax_eq, hm]
  · intro k hk
    have hk' : k < modules.length := List.mem_range.1 hk
    have hkc : k < chans.length := hlen ▸ hk'
    have hm : modules[k]? = some modules[k] := List.getElem?_eq_getElem hk'
    have hcc : cache[k]? = some cache[k] := List.getElem?_eq_getElem (hcache ▸ hk')
    have hp1 := positions_getElem? (widths chans) k (by simpa using hkc)
    have hp2 := positions_getElem? (wlens chans) k (by simpa using hkc)
    have hs1 := pySlice_positions (widths chans) k (by simpa using hkc) x
    have hs2 := pySlice_positions (wlens chans) k (by simpa using hkc) w
    simp only [List.getD_eq_getElem?_getD] at hp1 hp2 hs1 hs2
    by_cases hs : k ∈ skip
    · simp [G, hm, hcc, hs]
    · simp [G, hm, hcc, hs, hp1, hp2, hs1, hs2]

theorem maskedMatch_getElem? (chans : List (Chan α)) (skip : Nat → Bool) (x w : List α) (k : Nat) :
    (Art.Misc.maskedMatch chans skip x w)[k]? = (chans[k]?).map (fun c =>
      if skip k then none else some (c.K.matchv (slice (widths chans) k x) (slice (wlens chans) k w))) := by
  unfold Art.Misc.maskedMatch matchVec
  rw [zipIdx_map_getElem?, zipIdx_map_getElem?]
  cases chans[k]? <;> rfl

/-- the answers' values, when every module's match value is its channel kernel's `matchv` -/
theorem chanAnswers_values (ops : ModOps TM α TP TC) (chans : List (Chan α)) (modules : List TM) (dictSkip : TC)
    (hlen : modules.length = chans.length)
    (hK : ∀ (k : Nat) m (c : Chan α), modules[k]? = some m → chans[k]? = some c → ∀ xi wi cc,
      (ops.match_criterion m xi wi (ops.params m) cc).1 = some (c.K.matchv xi wi))
    (x w : List α) (cache : List TC) (hcache : cache.length = modules.length) (skip : List Nat) :
    (chanAnswers ops chans modules dictSkip x w cache skip).map (·.1)
      = Art.Misc.maskedMatch chans (fun k => skip.contains k) x w := by
  unfold chanAnswers
  apply List.ext_getElem?
  intro k
  rw [List.map_map, zipIdx_map_getElem?, maskedMatch_getElem?]
  by_cases hk : k < modules.length
  · have hkc : k < chans.length := hlen ▸ hk
    have hkk : k < cache.length := hcache ▸ hk
    have hm : modules[k]? = some modules[k] := List.getElem?_eq_getElem hk
    have hc : chans[k]? = some chans[k] := List.getElem?_eq_getElem hkc
    have hz : (modules.zip cache)[k]? = some (modules[k], cache[k]) := by
      rw [List.getElem?_zip_eq_some]
      exact ⟨hm, List.getElem?_eq_getElem hkk⟩
    rw [hz, hc]
    by_cases hs : k ∈ skip
    · simp [hs]
    · simp [hs, hK k _ _ hm hc]
  · have hkc : ¬ k < chans.length := hlen ▸ hk
    have hz : (modules.zip cache)[k]? = none := by
      rw [List.getElem?_eq_none]
      simp only [List.length_zip]
      omega
    rw [hz, List.getElem?_eq_none (Nat.le_of_not_lt hkc)]
    rfl

/-- **`FusionART.match_criterion`'s value on the model**: `np.nanmax` of the channel match values `Fusion.matchVec`,
the skipped channels masked by NaN — `Misc.fusionMatch` -/
theorem fusion_match_criterion_model (ops : ModOps TM α TP TC) (chans : List (Chan α)) (modules : List TM) (n : Nat)
    (chIdx wIdx : List (Nat × Nat)) (gamma_values : List α) (dictSkip : TC)
    (L : Layout chans modules n chIdx wIdx gamma_values) (hn : 0 < n)
    (hK : ∀ (k : Nat) m (c : Chan α), modules[k]? = some m → chans[k]? = some c → ∀ xi wi cc,
      (ops.match_criterion m xi wi (ops.params m) cc).1 = some (c.K.matchv xi wi))
    (x w : List α) (cache : List TC) (hcache : cache.length = n) (skip : List Nat) :
    (match_criterion ops modules n chIdx wIdx dictSkip x w (some cache) skip).map (·.1)
      = some (Art.Misc.fusionMatch chans (fun k => skip.contains k) x w) := by
  rw [fusion_match_criterion_spec ops chans modules n chIdx wIdx gamma_values dictSkip L hn x w cache hcache skip]
  obtain ⟨hn', hlen, -, -, -⟩ := L
  subst hn'
  simp only [Option.map_some, Art.Misc.fusionMatch]
  rw [chanAnswers_values ops chans modules dictSkip hlen hK x w cache hcache skip]

/-- the returned cache: per channel, the module's own returned cache, the constant `{"match_criterion": inf}` for a
skipped channel -/
theorem fusion_match_criterion_caches (ops : ModOps TM α TP TC) (chans : List (Chan α)) (modules : List TM) (n : Nat)
    (chIdx wIdx : List (Nat × Nat)) (gamma_values : List α) (dictSkip : TC)
    (L : Layout chans modules n chIdx wIdx gamma_values) (hn : 0 < n)
    (x w : List α) (cache : List TC) (hcache : cache.length = n) (skip : List Nat) :
    ∃ out, match_criterion ops modules n chIdx wIdx dictSkip x w (some cache) skip = some out ∧
      out.2.length = n ∧
      ∀ (k : Nat) m cc, modules[k]? = some m → cache[k]? = some cc →
        out.2[k]? = some (if skip.contains k then dictSkip
          else (ops.match_criterion m (slice (widths chans) k x) (slice (wlens chans) k w) (ops.params m) cc).2) := by
  refine ⟨_, fusion_match_criterion_spec ops chans modules n chIdx wIdx gamma_values dictSkip L hn x w cache hcache skip,
    ?_, ?_⟩
  · obtain ⟨hn', -, -, -, -⟩ := L
    subst hn'
    simp [chanAnswers, hcache]
  · intro k m cc hm hcc
    have hz : (modules.zip cache)[k]? = some (m, cc) := by
      rw [List.getElem?_zip_eq_some]; exact ⟨hm, hcc⟩
    simp only [chanAnswers, List.map_map]
    rw [zipIdx_map_getElem?, hz]
    by_cases hs : k ∈ skip <;> simp [hs]

/-! ### what the value is -/

theorem nanmax_none_iff (l : List (Option α)) : Art.Misc.nanmax l = none ↔ ∀ t ∈ l, t = none := by
  induction l with
  | nil => simp [Art.Misc.nanmax]
  | cons t l ih =>
    cases t with
    | none => simp [Art.Misc.nanmax, ih]
    | some a => cases h : Art.Misc.nanmax l <;> simp [Art.Misc.nanmax, h]

theorem nanmax_some (l : List (Option α)) (v : α) (h : Art.Misc.nanmax l = some v) :
    (∀ a, some a ∈ l → a ≤ v) ∧ some v ∈ l := by
  induction l generalizing v with
  | nil => simp [Art.Misc.nanmax] at h
  | cons t l ih =>
    cases t with
    | none =>
      simp only [Art.Misc.nanmax] at h
      obtain ⟨h1, h2⟩ := ih v h
      exact ⟨fun a ha => h1 a (by simpa using ha), by simp [h2]⟩
    | some b =>
      cases hl : Art.Misc.nanmax l with
      | none =>
        simp only [Art.Misc.nanmax, hl, Option.some.injEq] at h
        subst h
        rw [nanmax_none_iff] at hl
        refine ⟨fun a ha => ?_, by simp⟩
        rcases List.mem_cons.1 ha with ha | ha
        · exact le_of_eq (Option.some.inj ha)
        · exact absurd (hl _ ha) (by simp)
      | some c =>
        simp only [Art.Misc.nanmax, hl, Option.some.injEq] at h
        subst h
        obtain ⟨h1, h2⟩ := ih c hl
        refine ⟨fun a ha => ?_, ?_⟩
        · rcases List.mem_cons.1 ha with ha | ha
          · exact (le_of_eq (Option.some.inj ha)).trans (le_max_left _ _)
          · exact (h1 a ha).trans (le_max_right _ _)
        · rcases max_choice b c with hm | hm <;> simp [hm, h2]

theorem mem_maskedMatch (chans : List (Chan α)) (skip : Nat → Bool) (x w : List α) (t : Option α) :
    t ∈ Art.Misc.maskedMatch chans skip x w ↔
      ∃ (k : Nat) (c : Chan α), chans[k]? = some c ∧
        t = if skip k then none else some (c.K.matchv (slice (widths chans) k x) (slice (wlens chans) k w)) := by
  constructor
  · intro h
    obtain ⟨k, hk⟩ := List.getElem?_of_mem h
    rw [maskedMatch_getElem?] at hk
    cases hc : chans[k]? with
    | none => simp [hc] at hk
    | some c =>
      simp only [hc, Option.map_some, Option.some.injEq] at hk
      exact ⟨k, c, hc, hk.symm⟩
  · rintro ⟨k, c, hc, rfl⟩
    apply List.mem_of_getElem? (i := k)
    rw [maskedMatch_getElem?, hc]
    rfl

/-- **the value is the largest match value among the channels that are not skipped**: an upper bound, attained -/
theorem fusionMatch_is_max (chans : List (Chan α)) (skip : Nat → Bool) (x w : List α) (v : α)
    (h : Art.Misc.fusionMatch chans skip x w = some v) :
    (∀ (k : Nat) (c : Chan α), chans[k]? = some c → skip k = false →
        c.K.matchv (slice (widths chans) k x) (slice (wlens chans) k w) ≤ v) ∧
    ∃ (k : Nat) (c : Chan α), chans[k]? = some c ∧ skip k = false ∧
        v = c.K.matchv (slice (widths chans) k x) (slice (wlens chans) k w) := by
  obtain ⟨h1, h2⟩ := nanmax_some _ v h
  constructor
  · intro k c hc hs
    apply h1
    rw [mem_maskedMatch]
    exact ⟨k, c, hc, by simp [hs]⟩
  · rw [mem_maskedMatch] at h2
    obtain ⟨k, c, hc, hv⟩ := h2
    cases hs : skip k with
    | true => simp [hs] at hv
    | false =>
      simp only [hs, Bool.false_eq_true, if_false, Option.some.injEq] at hv
      exact ⟨k, c, hc, hs, hv⟩

/-- it is NaN exactly when every channel is skipped (numpy: "All-NaN slice encountered") -/
theorem fusionMatch_none_iff (chans : List (Chan α)) (skip : Nat → Bool) (x w : List α) :
    Art.Misc.fusionMatch chans skip x w = none ↔ ∀ k, k < chans.length → skip k = true := by
  unfold Art.Misc.fusionMatch
  rw [nanmax_none_iff]
  constructor
  · intro h k hk
    have := h _ ((mem_maskedMatch chans skip x w _).2 ⟨k, chans[k], List.getElem?_eq_getElem hk, rfl⟩)
    cases hs : skip k with
    | true => rfl
    | false => simp [hs] at this
  · intro h t ht
    rw [mem_maskedMatch] at ht
    obtain ⟨k, c, hc, rfl⟩ := ht
    simp [h k (List.getElem?_eq_some_iff.1 hc).1]

/-- **the value does not depend on the skipped columns** (C11's clause, for the match value): two samples that agree on
the slices of the channels that are not skipped get the same `match_criterion` -/
theorem fusion_match_skip_independent (chans : List (Chan α)) (skip : Nat → Bool) (x x' w : List α)
    (hx : ∀ k, k < chans.length → skip k = false → slice (widths chans) k x = slice (widths chans) k x') :
    Art.Misc.fusionMatch chans skip x w = Art.Misc.fusionMatch chans skip x' w := by
  unfold Art.Misc.fusionMatch
  congr 1
  apply List.ext_getElem?
  intro k
  rw [maskedMatch_getElem?, maskedMatch_getElem?]
  cases hc : chans[k]? with
  | none => rfl
  | some c =>
    have hk := (List.getElem?_eq_some_iff.1 hc).1
    cases hs : skip k with
    | true => simp
    | false => simp [hx k hk hs]

end Match

/-! ### the relation with the resonance test `match_criterion_bin` -/
section MatchBin
open Art.Gen.Misc.FusionART
variable {TM TP TC α : Type} [Field α] [LinearOrder α] [IsStrictOrderedRing α]

/-- **transport of `C10.fusion_match_all`**: when the fused vigilance test of the training loop passes with a
non-strict operator (MT+, MT-, MT1), every channel has `rho_k ≤ m_k`, and the *generated* `match_criterion` (no channel
skipped) returns a number that is at least every `m_k`: the resonance test implies `match_criterion ≥ rho_k` for all k -/
theorem gen_fusion_resonance_bound (ops : ModOps TM α TP TC) (chans : List (Chan α)) (modules : List TM) (n : Nat)
    (chIdx wIdx : List (Nat × Nat)) (gamma_values : List α) (dictSkip : TC)
    (L : Layout chans modules n chIdx wIdx gamma_values) (hn : 0 < n)
    (hK : ∀ (k : Nat) m (c : Chan α), modules[k]? = some m → chans[k]? = some c → ∀ xi wi cc,
      (ops.match_criterion m xi wi (ops.params m) cc).1 = some (c.K.matchv xi wi))
    (x w : List α) (cache : List TC) (hcache : cache.length = n)
    (mode : MT) (hmode : mtStrict mode = false) (adjP adjM : α → α) (top : α) (th : List α)
    (hpass : (fusionCfg mode adjP adjM top).passes th ((fusionKernel chans).matchv x w) = true) :
    ∃ v caches, match_criterion ops modules n chIdx wIdx dictSkip x w (some cache) [] = some (some v, caches) ∧
      ∀ (k : Nat) (c : Chan α) (rho : α), chans[k]? = some c → th[k]? = some rho →
        rho ≤ c.K.matchv (slice (widths chans) k x) (slice (wlens chans) k w) ∧
        c.K.matchv (slice (widths chans) k x) (slice (wlens chans) k w) ≤ v := by
  have hspec := fusion_match_criterion_spec ops chans modules n chIdx wIdx gamma_values dictSkip L hn x w cache hcache []
  have hmodel := fusion_match_criterion_model ops chans modules n chIdx wIdx gamma_values dictSkip L hn hK x w cache
    hcache []
  rw [hspec] at hmodel
  simp only [Option.map_some, Option.some.injEq] at hmodel
  obtain ⟨hn', hlen, -, -, -⟩ := L
  subst hn'
  cases hv : Art.Misc.fusionMatch chans (fun k => ([] : List Nat).contains k) x w with
  | none =>
    rw [fusionMatch_none_iff] at hv
    have := hv 0 (hlen ▸ hn)
    simp at this
  | some v =>
    refine ⟨v, _, by rw [hspec, hmodel, hv], ?_⟩
    intro k c rho hc hr
    have hall := (Art.C10.fusion_match_all chans mode adjP adjM top th x w).1 hpass k c rho hc hr
    constructor
    · simpa [passesScalar, hmode] using hall
    · exact (fusionMatch_is_max chans _ x w v hv).1 k c hc (by simp)

/-- two constant-match channels: match values 1 and 0 -/
def exKernel (m : ℚ) : Kernel (List ℚ) (List ℚ) ℚ ℚ :=
  { choice := fun _ _ _ => some 0, matchv := fun _ _ => m, update := fun _ w => w, newW := fun x => x }

/-- **…but not conversely**: `match_criterion` is the *largest* channel match, the resonance test
(`match_criterion_bin`) is the *conjunction* of the channel tests.  Two channels with match values 1 and 0 and
vigilances 1/2, 1/2: `match_criterion = 1 ≥ rho_k` for both k, and `match_criterion_bin` is false.  (So thresholding
FusionART.match_criterion the way `BaseART.match_criterion_bin` thresholds a module's value would not be FusionART's
resonance test; FusionART overrides `match_criterion_bin` and never calls its own `match_criterion`.) -/
theorem fusion_match_not_bin :
    Art.Misc.fusionMatch [⟨exKernel 1, 1, 1/2, 1⟩, ⟨exKernel 0, 1, 1/2, 1⟩] noSkip [0, 0] [0, 0] = some (1 : ℚ) ∧
    matchBinSkip MT.plus noSkip [1/2, 1/2]
      (matchVec [⟨exKernel 1, 1, 1/2, 1⟩, ⟨exKernel 0, 1, 1/2, 1⟩] [0, 0] [0, 0]) = false := by
  constructor <;> decide +kernel

/-! #### the generated code runs: two FuzzyART channels over ℚ (widths 2 | 2, `d = 1`); a module is its channel -/

def exChans : List (Chan ℚ) := [⟨fuzzyKernel (1/4) 1 1, 2, 1/2, 2⟩, ⟨fuzzyKernel (1/4) 1 1, 2, 1/2, 2⟩]
/-- a module's cache is a number (the match value it stored), its params are trivial -/
def exOps : ModOps (Chan ℚ) ℚ Unit ℚ :=
  { match_criterion := fun m xi wi _ _ => (some (m.K.matchv xi wi), m.K.matchv xi wi), params := fun _ => () }

example : match_criterion exOps exChans 2 [(0, 2), (2, 4)] [(0, 2), (2, 4)] (-1) [1/2, 1/2, 1, 0] [1/2, 1/4, 1/2, 0]
    (some [0, 0]) [] = some (some (3/4), [3/4, 1/2]) := by decide +kernel
-- channel 0 skipped: its value is ignored, its cache is the constant
example : match_criterion exOps exChans 2 [(0, 2), (2, 4)] [(0, 2), (2, 4)] (-1) [1/2, 1/2, 1, 0] [1/2, 1/4, 1/2, 0]
    (some [0, 0]) [0] = some (some (1/2), [-1, 1/2]) := by decide +kernel
-- every channel skipped: NaN
example : match_criterion exOps exChans 2 [(0, 2), (2, 4)] [(0, 2), (2, 4)] (-1) [1/2, 1/2, 1, 0] [1/2, 1/4, 1/2, 0]
    (some [0, 0]) [0, 1] = some (none, [-1, -1]) := by decide +kernel
-- a cache that is too short raises (KeyError)
example : match_criterion exOps exChans 2 [(0, 2), (2, 4)] [(0, 2), (2, 4)] (-1) [1/2, 1/2, 1, 0] [1/2, 1/4, 1/2, 0]
    (some [0]) [] = none := by decide +kernel
example : Layout exChans exChans 2 [(0, 2), (2, 4)] [(0, 2), (2, 4)] [1/2, 1/2] :=
  ⟨rfl, rfl, by decide, by decide, rfl⟩

end MatchBin

/-! ## 2. FALCON.get_probabilistic_action -/
section Prob
open Art.Gen.Misc.FALCON Art.Falcon Art.Misc
variable {F α θ : Type} [Field α] [LinearOrder α] [IsStrictOrderedRing α]

theorem probFloor_pos : (0 : α) < probFloor := by
  unfold probFloor
  positivity

theorem decLit_floor : (decLit 1 4 : α) = probFloor := rfl

theorem clipProb_ge (offset p : α) : probFloor ≤ clipProb offset p := le_max_right _ _

theorem foldl_add_eq_sum (l : List α) (a : α) : l.foldl (· + ·) a = a + l.sum := by
  induction l generalizing a with
  | nil => simp
  | cons b l ih => rw [List.foldl_cons, ih, List.sum_cons, add_assoc]

theorem npSum_eq_sum (l : List α) : npSum l = l.sum := by
  unfold npSum
  rw [foldl_add_eq_sum, zero_add]

theorem sum_map_div (l : List α) (s : α) : (l.map (· / s)).sum = l.sum / s := by
  induction l with
  | nil => simp
  | cons a l ih => simp only [List.map_cons, List.sum_cons, ih, add_div]

theorem sum_pos_of_forall_pos (l : List α) (hne : l ≠ []) (h : ∀ a ∈ l, 0 < a) : 0 < l.sum := by
  induction l with
  | nil => exact absurd rfl hne
  | cons a l ih =>
    rw [List.sum_cons]
    by_cases hl : l = []
    · subst hl; simpa using h a (by simp)
    · exact add_pos (h a (by simp)) (ih hl (fun b hb => h b (by simp [hb])))

theorem rewardDist_length (inv : Bool) (rs : List α) : (rewardDist inv rs).length = rs.length := by
  unfold rewardDist normalise
  split <;> split <;> simp

/-- a bounded vector has a positive sum: the second normalisation never divides by zero -/
theorem clipped_sum_pos (offset : α) (d : List α) (hne : d ≠ []) : 0 < (d.map (clipProb offset)).sum := by
  apply sum_pos_of_forall_pos
  · simpa using hne
  · intro a ha
    obtain ⟨p, -, rfl⟩ := List.mem_map.1 ha
    exact lt_of_lt_of_le probFloor_pos (clipProb_ge offset p)

theorem normalise_clipped (offset : α) (d : List α) (hne : d ≠ []) :
    (normalise (d.map (clipProb offset))).length = d.length ∧
      (∀ q ∈ normalise (d.map (clipProb offset)), 0 < q) ∧ (normalise (d.map (clipProb offset))).sum = 1 := by
  have hS := clipped_sum_pos offset d hne
  refine ⟨by simp [normalise], ?_, ?_⟩
  · intro q hq
    obtain ⟨c, hc, rfl⟩ := List.mem_map.1 hq
    obtain ⟨p, -, rfl⟩ := List.mem_map.1 hc
    exact div_pos (lt_of_lt_of_le probFloor_pos (clipProb_ge offset p)) hS
  · unfold normalise
    rw [sum_map_div, div_self (ne_of_gt hS)]

/-- **every action probability is positive and they sum to 1** — for every reward vector (negative entries and the
all-zero vector included), every `offset` (in particular every `offset ≥ 0`, also below the floor 1e-4), "max" and
"min": the vector handed to `np.random.choice` is a probability vector -/
theorem probVector_pos_sum (offset : α) (inv : Bool) (rs : List α) (hne : rs ≠ []) :
    (probVector offset inv rs).length = rs.length ∧ (∀ q ∈ probVector offset inv rs, 0 < q) ∧
      (probVector offset inv rs).sum = 1 := by
  have hd : rewardDist inv rs ≠ [] := by
    intro h
    have := congrArg List.length h
    rw [rewardDist_length] at this
    exact hne (List.length_eq_zero_iff.1 this)
  have := normalise_clipped offset (rewardDist inv rs) hd
  rw [rewardDist_length] at this
  exact this

/-- **the generated arithmetic after the first normalisation**: bound, normalise (never by zero), draw, look the action
up — for every intermediate vector `d` -/
theorem prob_pipeline_spec (choice : List α → Nat) (sp : List (List α)) (offset : α) (d : List α) :
    ((npDivS1 (npMaximumS1 (npMinimumS1 d offset) (decLit 1 4))
        (npSum (npMaximumS1 (npMinimumS1 d offset) (decLit 1 4)))).bind fun p =>
      (npRandomChoice1 choice (List.range sp.length) p).bind fun a =>
        a[0]?.bind fun i => sp[i]?.bind fun r => r[0]?)
      = if d ≠ [] ∧ sp.length = d.length then
          (sp[choice (normalise (d.map (clipProb offset)))]?).bind (·[0]?)
        else none := by
  have hc : npMaximumS1 (npMinimumS1 d offset) (decLit 1 4) = d.map (clipProb offset) := by
    simp [npMaximumS1, npMinimumS1, clipProb, decLit_floor]
  rw [hc, npSum_eq_sum]
  by_cases hne : d = []
  · subst hne
    simp [npDivS1]
  · have hS := clipped_sum_pos offset d hne
    obtain ⟨hl, hpos, hsum⟩ := normalise_clipped offset d hne
    have hdiv : npDivS1 (d.map (clipProb offset)) (d.map (clipProb offset)).sum
        = some (normalise (d.map (clipProb offset))) := by
      simp [npDivS1, ne_of_gt hS, normalise]
    rw [hdiv]
    simp only [Option.bind_some, hne, ne_eq, not_false_eq_true, true_and]
    by_cases hlen : sp.length = d.length
    · have h0 : sp.length ≠ 0 := by
        rw [hlen]; exact fun h => hne (List.length_eq_zero_iff.1 h)
      have hall : (normalise (d.map (clipProb offset))).all (fun x => decide (0 ≤ x)) = true := by
        rw [List.all_eq_true]
        intro q hq
        exact decide_eq_true (le_of_lt (hpos q hq))
      have hrc : npRandomChoice1 choice (List.range sp.length) (normalise (d.map (clipProb offset)))
          = ((List.range sp.length)[choice (normalise (d.map (clipProb offset)))]?).map (fun c => [c]) := by
        unfold npRandomChoice1
        rw [if_pos]
        exact ⟨by simpa using h0, by simp [hl, hlen], hall, by rw [npSum_eq_sum, hsum]⟩
      rw [hrc, if_pos hlen]
      by_cases hi : choice (normalise (d.map (clipProb offset))) < sp.length
      · rw [List.getElem?_range hi]
        rfl
      · rw [List.getElem?_eq_none (by simpa using hi), List.getElem?_eq_none (by simpa using hi)]
        rfl
    · simp [npRandomChoice1, hl, hlen]

theorem get_probabilistic_action_spec (ops : Art.Gen.FALCON.FusionOps F α) (choice : List α → Nat) (fa : F)
    (state : List α) (space : Option (List (List α))) (offset : α) (optimality : String) :
    get_probabilistic_action ops choice fa state space offset optimality
      = (Art.Gen.FALCON.get_actions_and_rewards ops fa state space).bind (fun sr =>
          if sr.2.flatten ≠ [] ∧ sr.1.length = sr.2.flatten.length then
            probAction choice sr.1 sr.2 offset (optimality == "min")
          else none) := by
  unfold get_probabilistic_action
  simp only [Option.bind_eq_bind, Option.pure_def]
  cases Art.Gen.FALCON.get_actions_and_rewards ops fa state space with
  | none => rfl
  | some sr =>
    obtain ⟨sp, R⟩ := sr
    simp only [Option.bind_some]
    have hsum2 : npSum2 R = R.flatten.sum := npSum_eq_sum _
    have hfl : ∀ f : α → α, (R.map (·.map f)).flatten = R.flatten.map f := by
      intro f; rw [List.map_flatten]
    unfold probAction
    by_cases ht : 0 < R.flatten.sum
    · have hdiv : npDivS2 R R.flatten.sum = some (R.map (·.map (· / R.flatten.sum))) := by
        unfold npDivS2
        rw [if_neg (ne_of_gt ht)]
      simp only [hsum2, gt_iff_lt, ht, decide_true, if_true, hdiv, Option.bind_some, hfl]
      generalize R.flatten = rs at *
      cases hopt : optimality == "min"
      · simp only [Bool.false_eq_true, if_false]
        rw [prob_pipeline_spec]
        simp [probVector, rewardDist, normalise, ht]
      · simp only [if_true]
        rw [prob_pipeline_spec]
        simp [probVector, rewardDist, normalise, ht, npSSub1]
    · simp only [hsum2, gt_iff_lt, ht, decide_false, Bool.false_eq_true, if_false]
      generalize R.flatten = rs at *
      cases hopt : optimality == "min"
      · simp only [Bool.false_eq_true, if_false]
        rw [prob_pipeline_spec]
        simp [probVector, rewardDist, ht]
      · simp only [if_true]
        rw [prob_pipeline_spec]
        simp [probVector, rewardDist, ht, npSSub1]

/-- **`get_probabilistic_action` never raises on a well-formed query**: when `get_actions_and_rewards` answers with one
scalar reward per member of a non-empty action space of non-empty actions, and the draw is a position of the
probability vector (what `np.random.choice` returns), the call succeeds and returns the first coordinate of the drawn
member — for **every** reward array (all-zero, negative) and **every** `offset`.  Neither normalisation can divide by
zero: the first is guarded by `total > 0`, the second divides by a sum of terms ≥ 1e-4. -/
theorem get_probabilistic_action_total (ops : Art.Gen.FALCON.FusionOps F α) (choice : List α → Nat)
    (hchoice : ∀ p : List α, p ≠ [] → choice p < p.length) (fa : F)
    (state : List α) (space : Option (List (List α))) (offset : α) (optimality : String)
    (sp R : List (List α)) (hget : Art.Gen.FALCON.get_actions_and_rewards ops fa state space = some (sp, R))
    (hR : R.flatten.length = sp.length) (hsp : sp ≠ []) (hact : ∀ a ∈ sp, a ≠ []) :
    ∃ a a0, sp[choice (probVector offset (optimality == "min") R.flatten)]? = some a ∧ a[0]? = some a0 ∧
      get_probabilistic_action ops choice fa state space offset optimality = some a0 := by
  have hne : R.flatten ≠ [] := by
    intro h
    rw [h] at hR
    exact hsp (List.length_eq_zero_iff.1 hR.symm)
  obtain ⟨hl, -, -⟩ := probVector_pos_sum offset (optimality == "min") R.flatten hne
  have hp : probVector offset (optimality == "min") R.flatten ≠ [] := by
    intro h
    rw [h] at hl
    exact hne (List.length_eq_zero_iff.1 hl.symm)
  have hi : choice (probVector offset (optimality == "min") R.flatten) < sp.length := by
    have := hchoice _ hp
    omega
  have ha := hact _ (List.getElem_mem hi)
  refine ⟨sp[choice (probVector offset (optimality == "min") R.flatten)],
    (sp[choice (probVector offset (optimality == "min") R.flatten)])[0]'(List.length_pos_iff.2 ha),
    List.getElem?_eq_getElem hi, List.getElem?_eq_getElem _, ?_⟩
  rw [get_probabilistic_action_spec, hget]
  simp only [Option.bind_some, ne_eq, hne, not_false_eq_true, hR, and_self, if_true, probAction]
  rw [List.getElem?_eq_getElem hi]
  simp only [Option.bind_some]
  exact List.getElem?_eq_getElem _

/-- **on the FusionART model** (FalconSpec's `Tie`): the action space and the predicted rewards are the model's
`actionSpace` / `actionRewards` -/
theorem get_probabilistic_action_model {ops : Art.Gen.FALCON.FusionOps F α} {chans : List (Chan α)}
    {centre prep : Nat → List α → List α} {st : F → ArtState (List α)} {cfg : SearchCfg (List α) θ} {th0 : θ}
    (T : Art.GenSpec.Falcon.Tie ops chans centre prep st cfg th0) (choice : List α → Nat) (fa : F)
    (state : List α) (space : Option (List (List α))) (offset : α) (optimality : String) :
    get_probabilistic_action ops choice fa state space offset optimality
      = (allSome (actionRewards chans (centre 1) (centre 2) (prep 1) (st fa).W state space)).bind (fun rs =>
          if rs.flatten ≠ [] ∧ (actionSpace chans (centre 1) (st fa).W space).length = rs.flatten.length then
            probAction choice (actionSpace chans (centre 1) (st fa).W space) rs offset (optimality == "min")
          else none) := by
  rw [get_probabilistic_action_spec, Art.GenSpec.Falcon.get_actions_and_rewards_spec T]
  cases allSome (actionRewards chans (centre 1) (centre 2) (prep 1) (st fa).W state space) <;> rfl

theorem clipProb_mono (offset : α) {a b : α} (h : a ≤ b) : clipProb offset a ≤ clipProb offset b :=
  max_le_max (min_le_min h le_rfl) le_rfl

/-- **"min" inverts, "max" does not**: the probability of an action is a monotone function of its predicted reward for
`optimality = "max"`, an antitone one for "min" (the same function for all members of the action space) -/
theorem prob_min_inverts (offset : α) (inv : Bool) (rs : List α) :
    ∃ f : α → α, probVector offset inv rs = rs.map f ∧
      ∀ a b, a ≤ b → if inv then f b ≤ f a else f a ≤ f b := by
  by_cases hne : rs = []
  · subst hne
    exact ⟨fun _ => 0, by cases inv <;> simp [probVector, normalise, rewardDist], fun a b _ => by cases inv <;> simp⟩
  have hd : rewardDist inv rs ≠ [] := by
    intro h
    have := congrArg List.length h
    rw [rewardDist_length] at this
    exact hne (List.length_eq_zero_iff.1 this)
  have hS := le_of_lt (clipped_sum_pos offset (rewardDist inv rs) hd)
  generalize hSd : ((rewardDist inv rs).map (clipProb offset)).sum = S at hS
  have hh : ∀ a b : α, a ≤ b →
      (if 0 < rs.sum then a / rs.sum else a) ≤ (if 0 < rs.sum then b / rs.sum else b) := by
    intro a b hab
    by_cases ht : 0 < rs.sum
    · simp only [ht, if_true]
      exact div_le_div_of_nonneg_right hab (le_of_lt ht)
    · simpa only [ht, if_false] using hab
  cases inv with
  | false =>
    refine ⟨fun r => clipProb offset (if 0 < rs.sum then r / rs.sum else r) / S, ?_, ?_⟩
    · unfold probVector normalise
      rw [hSd]
      unfold rewardDist normalise
      by_cases ht : 0 < rs.sum <;> simp [ht]
    · intro a b hab
      simp only [Bool.false_eq_true, if_false]
      exact div_le_div_of_nonneg_right (clipProb_mono offset (hh a b hab)) hS
  | true =>
    refine ⟨fun r => clipProb offset (1 - (if 0 < rs.sum then r / rs.sum else r)) / S, ?_, ?_⟩
    · unfold probVector normalise
      rw [hSd]
      unfold rewardDist normalise
      by_cases ht : 0 < rs.sum <;> simp [ht]
    · intro a b hab
      simp only [if_true]
      exact div_le_div_of_nonneg_right (clipProb_mono offset (sub_le_sub_left (hh a b hab) 1)) hS

/-- **the nesting of the bounds matters** (seeded C04m): with the cap `offset = 0` the source's
`np.maximum(np.minimum(p, 0), 1e-4)` is the floor 1e-4 for every `p` (uniform draw), whereas `np.clip(p, 1e-4, 0)` =
`np.minimum(np.maximum(p, 1e-4), 0)` is 0 for every `p`: all "probabilities" 0, and the normalisation divides by zero -/
theorem clip_nesting_matters (p : α) (v : List α) :
    clipProb 0 p = probFloor ∧ npClip1 v (decLit 1 4) (0 : α) = v.map (fun _ => 0) ∧
      npDivS1 (npClip1 v (decLit 1 4) (0 : α)) (npSum (npClip1 v (decLit 1 4) (0 : α))) = none := by
  have hfl := probFloor_pos (α := α)
  have h2 : npClip1 v (decLit 1 4) (0 : α) = v.map (fun _ => 0) := by
    unfold npClip1
    apply List.map_congr_left
    intro x _
    rw [decLit_floor]
    exact min_eq_right (le_trans (le_of_lt hfl) (le_max_right _ _))
  refine ⟨?_, h2, ?_⟩
  · unfold clipProb
    exact max_eq_right (le_trans (min_le_right _ _) (le_of_lt hfl))
  · rw [h2, npSum_eq_sum]
    simp [npDivS1]

end Prob

/-! #### the generated code runs: FalconSpec's three-channel FuzzyART FALCON over ℚ, trained on three transitions;
the generator is "the first most probable position" -/
section ProbExample
open Art.Gen.Misc.FALCON Art.GenSpec.Falcon

def exChoice (p : List ℚ) : Nat := (Art.argmaxFirst p).getD 0

-- rewards 1/4 (action 0) and 1/2 (action 1) in state [0,1]: normalised 1/3, 2/3; capped at offset = 1/2: 1/3, 1/2
example : get_probabilistic_action Falcon.exOps exChoice exFa [0, 1] (some [[0], [1]]) (1/2) "max" = some 1 := by
  decide +kernel
-- "min": 1 - p = 2/3, 1/3, capped 1/2, 1/3: action 0
example : get_probabilistic_action Falcon.exOps exChoice exFa [0, 1] (some [[0], [1]]) (1/2) "min" = some 0 := by
  decide +kernel
-- offset = 0 (every probability at the floor: uniform) still answers; the first position wins the tie
example : get_probabilistic_action Falcon.exOps exChoice exFa [0, 1] (some [[0], [1]]) 0 "max" = some 0 := by
  decide +kernel
-- an untrained object has no reward centre to read: the call raises (as get_action does)
example : get_probabilistic_action Falcon.exOps exChoice {} [0, 1] (some [[0], [1]]) (1/2) "max" = none := by
  decide +kernel
-- the probability vector itself; the all-zero reward vector gives the uniform distribution (F46)
example : Art.Misc.probVector (1/2 : ℚ) false [1/4, 1/2] = [2/5, 3/5] := by decide +kernel
example : Art.Misc.probVector (1/10 : ℚ) false [0, 0, 0, 0] = [1/4, 1/4, 1/4, 1/4] := by decide +kernel
example : Art.Misc.probVector (0 : ℚ) true [0, 3] = [1/2, 1/2] := by decide +kernel

end ProbExample

/-! ## 3. CVIART._set_params / _deep_copy_params, BaseART.shrink_clusters -/
section Plumb
open Art.Gen.Misc.CVIART
variable {TP TR TS α : Type}

/-- **`CVIART._set_params(new_params)`** stores `new_params` as the held `base_module`'s `params` -/
theorem cvi_set_params_spec (s : Wrapper TP TR TS) (p : TP) :
    _set_params s p = { s with base_module := { s.base_module with params := p } } := rfl

/-- **`CVIART._deep_copy_params()`** returns (a copy of) the held `base_module`'s `params` -/
theorem cvi_deep_copy_params_spec (s : Wrapper TP TR TS) : _deep_copy_params s = s.base_module.params := rfl

/-- reading after writing returns what was written -/
theorem cvi_get_set (s : Wrapper TP TR TS) (p : TP) : _deep_copy_params (_set_params s p) = p := rfl

/-- writing back what was read changes nothing -/
theorem cvi_set_get (s : Wrapper TP TR TS) : _set_params s (_deep_copy_params s) = s := rfl

/-- the second write wins; in particular the save / track / restore bracket of `BaseART.step_fit` (C07's mechanism:
`base_params = self._deep_copy_params()` … `self._set_params(base_params)`) restores the wrapper exactly -/
theorem cvi_set_set (s : Wrapper TP TR TS) (p q : TP) :
    _set_params (_set_params s p) q = _set_params s q ∧
      _set_params (_set_params s p) (_deep_copy_params s) = s := ⟨rfl, rfl⟩

/-- `_set_params` touches nothing but `base_module.params` -/
theorem cvi_set_frame (s : Wrapper TP TR TS) (p : TP) :
    (_set_params s p).rest = s.rest ∧ (_set_params s p).base_module.rest = s.base_module.rest := ⟨rfl, rfl⟩

/-- **`BaseART.shrink_clusters(shrink_ratio)`** (the base class's default) returns the estimator unchanged -/
theorem shrink_clusters_spec (s : TS) (r : α) : Art.Gen.Misc.BaseART.shrink_clusters s r = s := rfl

example : _deep_copy_params (_set_params (⟨⟨3, "W"⟩, "cvi"⟩ : Wrapper Nat String String) 7) = 7 := by decide
example : (_set_params (⟨⟨3, "W"⟩, "cvi"⟩ : Wrapper Nat String String) 7).base_module.rest = "W" := by decide
example : Art.Gen.Misc.BaseART.shrink_clusters (5 : Nat) (1/10 : ℚ) = 5 := by decide

end Plumb

end Art.GenSpec.Misc
