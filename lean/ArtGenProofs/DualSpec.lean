/-
ArtGenProofs.DualSpec — `DualVigilanceART.step_fit`, `step_pred` and `n_clusters`, as translated from the Python
source by `harness/artv/dtrans.py` (ArtGen/Dual.lean), compute the model's `dualStepFit`, `dualStepPred`, `nClusters`
(ArtModel/DualVig.lean) — for every state, sample, reset function, match-tracking mode and epsilon, under the kernel
contract `Contract` on the base module's methods; no bound on the number of categories.
-/
import Mathlib.Order.Basic
import Mathlib.Order.Defs.LinearOrder
import ArtGen.Dual
import ArtProofs.DualVig
import ArtProps.C13
import ArtGenProofs.GenSpec
import Mathlib.Algebra.Order.Field.Rat

namespace Art.GenSpec.Dual

open Art Art.Imp

set_option linter.unusedSectionVars false

/-! ### The dict `map` (keyed by category, `none` = absent) against the model's `List Nat` -/

theorem mapGet_map_some (m : List Nat) (c : Nat) : (mapGet (m.map some) c).getD 0 = m.getD c 0 := by
  simp only [mapGet, List.getElem?_map, List.getD_eq_getElem?_getD]
  cases m[c]? <;> rfl

theorem mapPut_map_some_length (m : List Nat) (v : Nat) : mapPut (m.map some) m.length v = (m ++ [v]).map some := by
  simp [mapPut]

theorem dictValues_map_some (m : List Nat) : dictValues (m.map some) = m := by
  induction m with
  | nil => rfl
  | cons a as ih => simp [dictValues]

theorem getD_append_length (m : List Nat) (v : Nat) : (m ++ [v]).getD m.length 0 = v := by
  simp [List.getD_eq_getElem?_getD]

theorem mapGet_append_some (m : List Nat) (v : Nat) : (mapGet (m.map some ++ [some v]) m.length).getD 0 = v := by
  have := mapGet_map_some (m ++ [v]) m.length
  rw [getD_append_length] at this
  simpa using this

section Loop
variable {P α μ θ : Type} [LinearOrder α]

/-- `any(T > 0)` as translated is the model's `anyPos` -/
theorem any_vecGtZero [Zero α] (T : List (Option α)) : ((vecGtZero T).any id) = anyPos (posOf (0 : α)) T := by
  simp [vecGtZero, anyPos, List.any_map]

theorem anyPos_blank (pos : α → Bool) (T : List (Option α)) (c : Nat) :
    anyPos pos ((T.map (fun _ => (none : Option α))).set c none) = false := by
  simp only [anyPos, List.any_eq_false]
  intro t ht
  rcases List.mem_or_eq_of_mem_set ht with h | h
  · simp only [List.mem_map] at h
    obtain ⟨_, _, rfl⟩ := h
    simp [isPos]
  · subst h; simp [isPos]

theorem whileFuel_stop {R S : Type} (cond : S → Bool) (body : S → Flow R S) (n : Nat) (s : S)
    (h : cond s = false) : whileFuel cond body n s = .next s := by
  cases n with
  | zero => rfl
  | succ n => simp [whileFuel, h]

/-- what one iteration of the translated loop body does, in the model's vocabulary (`pack p T` is the tuple of
loop-carried variables when the base module's params are `p` and the activation vector is `T`) -/
structure BodySpec {R S : Type} (cfg : SearchCfg μ θ) (lb : θ) (M : Nat → μ) (veto : Nat → Bool) (th : P → θ)
    (pack : P → List (Option α) → S) (resA resS : Nat → R) (body : S → Flow R S) (L : Nat) : Prop where
  step : ∀ (p : P) (T : List (Option α)) (c : Nat), T.length = L → nanargmax T = some c →
    if veto c then
      if cfg.passes (th p) (M c) then
        ∃ p1, th p1 = cfg.track (th p) (M c) ∧
          body (pack p T) = .next (pack p1 (if cfg.keep then T.set c none else (T.map (fun _ => none)).set c none))
      else body (pack p T) = .next (pack p (T.set c none))
    else if cfg.passes (th p) (M c) then body (pack p T) = .ret (resA c)
    else if cfg.passes lb (M c) then body (pack p T) = .ret (resS c)
    else body (pack p T) = .next (pack p (T.set c none))

/-- **the translated `while any(T > 0)` loop follows the model's `dualSearch`**: it returns from inside the loop
exactly when the model absorbs or spawns (with the corresponding value), and falls through when the model answers
`fresh` — for every fuel, every params state and every activation vector. -/
theorem loop_follows_dualSearch {R S : Type} (cfg : SearchCfg μ θ) (lb : θ) (pos : α → Bool) (M : Nat → μ)
    (veto : Nat → Bool) (th : P → θ) (pack : P → List (Option α) → S) (resA resS : Nat → R)
    (cond : S → Bool) (body : S → Flow R S)
    (hcond : ∀ p T, cond (pack p T) = anyPos pos T)
    (L : Nat) (hbody : BodySpec cfg lb M veto th pack resA resS body L) :
    ∀ (fuel : Nat) (p : P) (T : List (Option α)), T.length = L →
      match (dualSearch cfg lb pos M veto fuel T (th p)).outcome with
      | .absorb c => whileFuel cond body fuel (pack p T) = .ret (resA c)
      | .spawn c => whileFuel cond body fuel (pack p T) = .ret (resS c)
      | .fresh => ∃ p' T', whileFuel cond body fuel (pack p T) = .next (pack p' T') := by
  intro fuel
  induction fuel with
  | zero =>
    intro p T _
    simp only [dualSearch, whileFuel]
    exact ⟨p, T, rfl⟩
  | succ n ih =>
    intro p T hL
    rw [dualSearch_succ]
    simp only [whileFuel, hcond]
    cases hp : anyPos pos T with
    | false => exact ⟨p, T, by simp⟩
    | true =>
      obtain ⟨c, hc⟩ := nanargmax_isSome_of_anyPos hp
      have hs := hbody.step p T c hL hc
      simp only [hc, if_true]
      cases hv : veto c with
      | true =>
        simp only [hv, if_true, Bool.not_true, Bool.false_eq_true, if_false] at hs ⊢
        cases hm1 : cfg.passes (th p) (M c) with
        | false =>
          simp only [hm1, Bool.false_eq_true, if_false] at hs ⊢
          rw [hs]
          simpa using ih p (T.set c none) (by simp [hL])
        | true =>
          simp only [hm1, if_true] at hs ⊢
          obtain ⟨p1, hp1, hb⟩ := hs
          rw [hb]
          cases hk : cfg.keep with
          | true =>
            simp only [if_true]
            have := ih p1 (T.set c none) (by simp [hL])
            rw [hp1] at this
            simpa using this
          | false =>
            simp only [Bool.false_eq_true, if_false]
            exact ⟨p1, (T.map (fun _ => none)).set c none,
              whileFuel_stop cond body n _ (by rw [hcond]; exact anyPos_blank pos T c)⟩
      | false =>
        simp only [hv, Bool.false_eq_true, if_false, Bool.not_false, if_true] at hs ⊢
        cases hm1 : cfg.passes (th p) (M c) with
        | true =>
          simp only [hm1, if_true] at hs ⊢
          simp [hs]
        | false =>
          simp only [hm1, Bool.false_eq_true, if_false] at hs ⊢
          cases hm2 : cfg.passes lb (M c) with
          | true =>
            simp only [hm2, if_true] at hs ⊢
            simp [hs]
          | false =>
            simp only [hm2, Bool.false_eq_true, if_false] at hs ⊢
            rw [hs]
            simpa using ih p (T.set c none) (by simp [hL])

end Loop

/-! ### The kernel contract and the loop body -/

section Step
variable {X Wt P C α μ θ : Type} [LinearOrder α] [Zero α]

/-- The kernel contract: how the base module's methods called by `DualVigilanceART.step_fit` (fields of `E`) relate
to the model's kernel `K` and search configuration `cfg`.  `th` reads the vigilance state out of a `params`
dictionary; `lb` is what it reads after `rho` was replaced by `rho_lower_bound` (`rlb`); `m` is the category → cluster
map; `vetoL` answers for a cluster label (the model's reset function). -/
structure Contract (K : Kernel X Wt α μ) (cfg : SearchCfg μ θ) (E : DualExt X Wt P C α) (th : P → θ) (lb : θ) (rlb : α)
    (W : List Wt) (m : List Nat) (x : X) (p0 : P) (is_none : Bool) (reset : X → Wt → Nat → P → C → Bool)
    (vetoL : Nat → Bool) (mt : MT) (eps : α) : Prop where
  /-- activations are computed with the configured parameters -/
  choice : ∀ w, (E.category_choice W x w p0).1 = K.choice W x w
  /-- the binary match test depends on `params` only through the vigilance state -/
  passes : ∀ w p c, (E.match_criterion_bin x w p c (E.operator mt)).1 = cfg.passes (th p) (K.matchv x w)
  /-- `dict(params, rho=rho_lower_bound)` carries the lower threshold -/
  lower : ∀ p, th (E.dict_with p "rho" rlb) = lb
  /-- `_match_tracking` reads the match value from the cache `match_criterion_bin` returned -/
  track : ∀ w p c, th (E.match_tracking (E.match_criterion_bin x w p c (E.operator mt)).2 eps p mt).2
            = cfg.track (th p) (K.matchv x w)
  keep : ∀ c p, (E.match_tracking c eps p mt).1 = cfg.keep
  /-- learning does not depend on the vigilance state or the cache contents beyond the kernel's own rule -/
  update : ∀ w p c, E.update x w p c = K.update x w
  newW : ∀ p, E.new_weight x p = K.newW x
  /-- `base_module.add_weight` appends the weight with a count of one and touches nothing else -/
  add_weight : ∀ (b : Self Wt P) w, E.add_weight b w = { b with W := b.W ++ [w], cnt := b.cnt ++ [1] }
  /-- `base_module.set_weight` replaces the weight, counts the sample and touches nothing else -/
  set_weight : ∀ (b : Self Wt P) i w,
    E.set_weight b i w = { b with W := b.W.set i w, cnt := b.cnt.set i (b.cnt[i]! + 1) }
  veto_none : is_none = true → ∀ l, vetoL l = false
  /-- the reset function's answer for category `c` is a function of its cluster label `m[c]` -/
  veto_some : is_none = false → ∀ c w p ch, W[c]? = some w → reset x w (m.getD c 0) p ch = !vetoL (m.getD c 0)

variable [Inhabited Wt] [Inhabited C]

/-- one iteration of the translated loop body, in the model's vocabulary -/
theorem body_spec (K : Kernel X Wt α μ) (cfg : SearchCfg μ θ) (E : DualExt X Wt P C α) (th : P → θ) (lb : θ)
    (base : Self Wt P) (m : List Nat) (n : Nat) (rlb : α) (x : X) (is_none : Bool)
    (reset : X → Wt → Nat → P → C → Bool) (vetoL : Nat → Bool) (mt : MT) (eps : α) (Tc : List C)
    (hlen : m.length = base.W.length)
    (hC : Contract K cfg E th lb rlb base.W m x base.params is_none reset vetoL mt eps) :
    BodySpec cfg lb (matchAt K base.W x) (fun c => vetoL (m.getD c 0)) th
      (fun p T => (({ base with params := p } : Self Wt P), m.map some, T))
      (fun c => (({ base := { base with W := base.W.set c (K.update x base.W[c]!),
                                        cnt := base.cnt.set c (base.cnt[c]! + 1) },
                    map := m.map some, n := n, rho_lower_bound := rlb } : DualSelf Wt P α), m.getD c 0))
      (fun c => (({ base := { base with W := base.W ++ [K.newW x], cnt := base.cnt ++ [1] },
                    map := (m ++ [m.getD c 0]).map some, n := n, rho_lower_bound := rlb } : DualSelf Wt P α),
                 m.getD c 0))
      (Art.Gen.DualVigilanceART.step_fit_loop1_body E n rlb x mt eps base.params (E.operator mt) Tc is_none reset)
      base.W.length := by
  constructor
  intro p T c hL hn
  have hc : c < base.W.length := hL ▸ nanargmax_lt_length hn
  have hWc : base.W[c]? = some base.W[c] := List.getElem?_eq_getElem hc
  have hget : base.W[c]! = base.W[c] := by simp [hc]
  have hM : matchAt K base.W x c = K.matchv x base.W[c] := by simp [matchAt, hWc]
  unfold Art.Gen.DualVigilanceART.step_fit_loop1_body
  simp only [hn, Option.getD_some, hget, hM, mapGet_map_some]
  have hok : ∀ (pp : P) (ch : C), (is_none || reset x base.W[c] (m.getD c 0) pp ch) = !vetoL (m.getD c 0) := by
    intro pp ch
    cases hn' : is_none with
    | true => simp only [Bool.true_or, hC.veto_none hn' (m.getD c 0), Bool.not_false]
    | false => simp only [Bool.false_or]; exact hC.veto_some hn' c _ pp ch hWc
  simp only [hC.passes, hC.update, hC.keep, hC.newW, hC.lower, hC.add_weight, hC.set_weight, hok]
  cases hv : vetoL (m.getD c 0) <;> cases hm1 : cfg.passes (th p) (K.matchv x base.W[c])
  · cases hm2 : cfg.passes lb (K.matchv x base.W[c])
    · simp
    · simp [← hlen, mapPut_map_some_length, mapGet_append_some]
  · simp
  · simp
  · simp only [Bool.not_true, Bool.false_eq_true, if_false, if_true]
    refine ⟨_, hC.track base.W[c] p Tc[c]!, ?_⟩
    cases cfg.keep <;> simp

omit [Inhabited Wt] [Inhabited C] [Zero α] in
/-- the activation vector computed before the loop is the model's -/
theorem activations_spec (K : Kernel X Wt α μ) (cfg : SearchCfg μ θ) (E : DualExt X Wt P C α) (th : P → θ) (lb : θ)
    (rlb : α) (W : List Wt) (m : List Nat) (p0 : P) (x : X) (is_none : Bool) (reset : X → Wt → Nat → P → C → Bool)
    (vetoL : Nat → Bool) (mt : MT) (eps : α) (hC : Contract K cfg E th lb rlb W m x p0 is_none reset vetoL mt eps) :
    (W.map (fun w => E.category_choice W x w p0)).map Prod.fst = activations K W x := by
  simp only [activations, List.map_map]
  apply List.map_congr_left
  intro w _
  exact hC.choice w

/-- the first sample: one category, `map = {0: 0}`, label 0 — whatever `map` held before -/
theorem step_fit_first_sample (K : Kernel X Wt α μ) (cfg : SearchCfg μ θ) (E : DualExt X Wt P C α) (th : P → θ)
    (lb : θ) (self : DualSelf Wt P α) (m : List Nat) (x : X) (is_none : Bool)
    (reset : X → Wt → Nat → P → C → Bool) (vetoL : Nat → Bool) (mt : MT) (eps : α) (fuel : Nat)
    (hW : self.base.W = [])
    (hC : Contract K cfg E th lb self.rho_lower_bound self.base.W m x self.base.params is_none reset vetoL mt eps) :
    Art.Gen.DualVigilanceART.step_fit E fuel self x is_none reset mt eps =
      (let r := dualStepFit K cfg (th self.base.params) lb (posOf 0) vetoL
                  ⟨⟨self.base.W, self.base.cnt, self.n, self.base.labels⟩, m⟩ x
       ({ base := { self.base with W := r.1.base.W, cnt := r.1.base.cnt }, map := r.1.map.map some, n := r.1.base.n,
          rho_lower_bound := self.rho_lower_bound }, r.2)) := by
  unfold Art.Gen.DualVigilanceART.step_fit dualStepFit dualDecide
  simp [hW, dualApply, hC.newW, hC.add_weight, mapPut]

/-- **The translated `DualVigilanceART.step_fit` computes the model's `dualStepFit`** — base weights, counters, the
wrapper's sample counter, the category → cluster map (as a dict), the returned cluster label — and leaves the base
module's `params` exactly as it found them, for every state with one map entry per category, every sample, reset
function, mode and epsilon that satisfy the kernel contract.  `fuel = len(W)` iterations suffice. -/
theorem step_fit_spec (K : Kernel X Wt α μ) (cfg : SearchCfg μ θ) (E : DualExt X Wt P C α) (th : P → θ)
    (lb : θ) (self : DualSelf Wt P α) (m : List Nat) (x : X) (is_none : Bool)
    (reset : X → Wt → Nat → P → C → Bool) (vetoL : Nat → Bool) (mt : MT) (eps : α)
    (hmap : self.map = m.map some) (hlen : m.length = self.base.W.length)
    (hC : Contract K cfg E th lb self.rho_lower_bound self.base.W m x self.base.params is_none reset vetoL mt eps) :
    Art.Gen.DualVigilanceART.step_fit E self.base.W.length self x is_none reset mt eps =
      (let r := dualStepFit K cfg (th self.base.params) lb (posOf 0) vetoL
                  ⟨⟨self.base.W, self.base.cnt, self.n, self.base.labels⟩, m⟩ x
       ({ base := { self.base with W := r.1.base.W, cnt := r.1.base.cnt }, map := r.1.map.map some, n := r.1.base.n,
          rho_lower_bound := self.rho_lower_bound }, r.2)) := by
  by_cases hW : self.base.W = []
  · exact step_fit_first_sample K cfg E th lb self m x is_none reset vetoL mt eps _ hW hC
  · unfold Art.Gen.DualVigilanceART.step_fit dualStepFit dualDecide
    have hlen0 : (self.base.W.length == 0) = false := by simp [hW]
    have hemp : self.base.W.isEmpty = false := by simp [hW]
    simp only [hlen0, hemp, Bool.false_eq_true, if_false]
    rw [activations_spec K cfg E th lb _ self.base.W m self.base.params x is_none reset vetoL mt eps hC]
    have hTlen : (activations K self.base.W x).length = self.base.W.length := by
      simp [activations]
    have hloop := fun Tc => loop_follows_dualSearch cfg lb (posOf (0 : α)) (matchAt K self.base.W x)
      (fun c => vetoL (m.getD c 0)) th
      (fun p T => (({ self.base with params := p } : Self Wt P), m.map some, T))
      (fun c => (({ base := { self.base with W := self.base.W.set c (K.update x self.base.W[c]!),
                                             cnt := self.base.cnt.set c (self.base.cnt[c]! + 1) },
                    map := m.map some, n := self.n + 1, rho_lower_bound := self.rho_lower_bound } : DualSelf Wt P α),
                 m.getD c 0))
      (fun c => (({ base := { self.base with W := self.base.W ++ [K.newW x], cnt := self.base.cnt ++ [1] },
                    map := (m ++ [m.getD c 0]).map some, n := self.n + 1,
                    rho_lower_bound := self.rho_lower_bound } : DualSelf Wt P α), m.getD c 0))
      (Art.Gen.DualVigilanceART.step_fit_loop1_cond E)
      (Art.Gen.DualVigilanceART.step_fit_loop1_body E (self.n + 1) self.rho_lower_bound x mt eps self.base.params
        (E.operator mt) Tc is_none reset)
      (by intro p T; exact any_vecGtZero T) self.base.W.length
      (body_spec K cfg E th lb self.base m (self.n + 1) self.rho_lower_bound x is_none reset vetoL mt eps Tc hlen hC)
      self.base.W.length self.base.params (activations K self.base.W x) hTlen
    unfold dualStepSearch
    simp only [hTlen, hmap]
    have hlt := dualSearch_outcome_lt cfg lb (posOf (0 : α)) (matchAt K self.base.W x)
      (fun c => vetoL (m.getD c 0)) self.base.W.length (activations K self.base.W x) (th self.base.params)
      (hTlen ▸ liveCount_le_length _)
    cases ho : (dualSearch cfg lb (posOf (0 : α)) (matchAt K self.base.W x) (fun c => vetoL (m.getD c 0))
        self.base.W.length (activations K self.base.W x) (th self.base.params)).outcome with
    | absorb c =>
      have h1 := hloop
      simp only [ho] at h1
      rw [h1 _]
      have hcl : c < self.base.W.length := hTlen ▸ hlt c (Or.inl ho)
      have hWc : self.base.W[c]? = some self.base.W[c] := List.getElem?_eq_getElem hcl
      simp [dualApply, hcl]
    | spawn c =>
      have h1 := hloop
      simp only [ho] at h1
      rw [h1 _]
      simp [dualApply, dualAdd]
    | fresh =>
      have h1 := hloop
      simp only [ho] at h1
      obtain ⟨p', T', h2⟩ := h1 _
      rw [h2]
      simp [dualApply, dualAdd, hC.newW, hC.add_weight, dictValues_map_some, ← hlen, mapPut_map_some_length,
        mapGet_append_some]

/-- **The base module's hyper-parameters are restored**: whatever match tracking did to `rho` during the search, the
translated `step_fit` hands the base module back with the dictionary it had. -/
theorem step_fit_restores_params (K : Kernel X Wt α μ) (cfg : SearchCfg μ θ) (E : DualExt X Wt P C α) (th : P → θ)
    (lb : θ) (self : DualSelf Wt P α) (m : List Nat) (x : X) (is_none : Bool)
    (reset : X → Wt → Nat → P → C → Bool) (vetoL : Nat → Bool) (mt : MT) (eps : α)
    (hmap : self.map = m.map some) (hlen : m.length = self.base.W.length)
    (hC : Contract K cfg E th lb self.rho_lower_bound self.base.W m x self.base.params is_none reset vetoL mt eps) :
    (Art.Gen.DualVigilanceART.step_fit E self.base.W.length self x is_none reset mt eps).1.base.params = self.base.params ∧
    (Art.Gen.DualVigilanceART.step_fit E self.base.W.length self x is_none reset mt eps).1.rho_lower_bound
      = self.rho_lower_bound ∧
    (Art.Gen.DualVigilanceART.step_fit E self.base.W.length self x is_none reset mt eps).1.base.labels = self.base.labels ∧
    (Art.Gen.DualVigilanceART.step_fit E self.base.W.length self x is_none reset mt eps).1.base.n = self.base.n := by
  rw [step_fit_spec K cfg E th lb self m x is_none reset vetoL mt eps hmap hlen hC]
  exact ⟨rfl, rfl, rfl, rfl⟩

/-! ### `step_pred` and `n_clusters` -/

/-- **The translated `step_pred` answers what the model's `dualStepPred` answers** (the model answers `none` exactly
where the Python code raises: no category, or a winner without map entry). -/
theorem step_pred_spec (K : Kernel X Wt α μ) (E : DualExt X Wt P C α) (self : DualSelf Wt P α) (m : List Nat) (x : X)
    (hmap : self.map = m.map some)
    (hchoice : ∀ w, (E.category_choice self.base.W x w self.base.params).1 = K.choice self.base.W x w) :
    (Art.Gen.DualVigilanceART.step_pred E self x).1 = self ∧
    ∀ l, dualStepPred K ⟨⟨self.base.W, self.base.cnt, self.n, self.base.labels⟩, m⟩ x = some l →
      (Art.Gen.DualVigilanceART.step_pred E self x).2 = l := by
  refine ⟨rfl, ?_⟩
  intro l hl
  unfold Art.Gen.DualVigilanceART.step_pred
  have hT : (self.base.W.map (fun w => E.category_choice self.base.W x w self.base.params)).map Prod.fst
      = activations K self.base.W x := by
    simp only [activations, List.map_map]
    exact List.map_congr_left (fun w _ => hchoice w)
  simp only [hT, hmap, mapGet_map_some]
  simp only [dualStepPred, stepPred, Option.bind_eq_some_iff] at hl
  obtain ⟨c, hc, hm⟩ := hl
  simp [hc, List.getD_eq_getElem?_getD, hm]

/-- on a consistent non-empty model the translated `step_pred` *is* the model's answer -/
theorem step_pred_spec_inv (K : Kernel X Wt α μ) (E : DualExt X Wt P C α) (self : DualSelf Wt P α) (m : List Nat) (x : X)
    (hmap : self.map = m.map some)
    (hchoice : ∀ w, (E.category_choice self.base.W x w self.base.params).1 = K.choice self.base.W x w)
    (hi : DualInv (⟨⟨self.base.W, self.base.cnt, self.n, self.base.labels⟩, m⟩ : DualState Wt))
    (hne : self.base.W ≠ []) :
    dualStepPred K ⟨⟨self.base.W, self.base.cnt, self.n, self.base.labels⟩, m⟩ x =
      some (Art.Gen.DualVigilanceART.step_pred E self x).2 := by
  obtain ⟨l, hl⟩ := dualStepPred_isSome K _ x hi hne
  rw [hl, (step_pred_spec K E self m x hmap hchoice).2 l hl]

/-- **The translated `n_clusters` property is the model's `nClusters`** -/
theorem n_clusters_spec (E : DualExt X Wt P C α) (self : DualSelf Wt P α) (m : List Nat)
    (hmap : self.map = m.map some) :
    Art.Gen.DualVigilanceART.n_clusters E self = (self, nClusters m) := by
  unfold Art.Gen.DualVigilanceART.n_clusters
  cases self
  simp_all [dictValues_map_some, nClusters]

/-! ### Property theorems of C13, transported to the generated code -/

/-- **C13 on the generated code: the map stays total, the returned label is a cluster label below the generated
`n_clusters`.**  From a consistent state (`DualInv`: one map entry per category, values an initial segment of ℕ) the
translated `step_fit` ends in a state whose map again has one entry per category, and the label it returns is an entry
of that map and is `<` the translated `n_clusters` of the new state (`dualApply_spec`, `nClusters_spec`). -/
theorem gen_step_fit_inv (K : Kernel X Wt α μ) (cfg : SearchCfg μ θ) (E : DualExt X Wt P C α) (th : P → θ)
    (lb : θ) (self : DualSelf Wt P α) (m : List Nat) (x : X) (is_none : Bool)
    (reset : X → Wt → Nat → P → C → Bool) (vetoL : Nat → Bool) (mt : MT) (eps : α)
    (hmap : self.map = m.map some)
    (hi : DualInv (⟨⟨self.base.W, self.base.cnt, self.n, self.base.labels⟩, m⟩ : DualState Wt))
    (hC : Contract K cfg E th lb self.rho_lower_bound self.base.W m x self.base.params is_none reset vetoL mt eps) :
    let r := Art.Gen.DualVigilanceART.step_fit E self.base.W.length self x is_none reset mt eps
    r.1.map.length = r.1.base.W.length ∧ some r.2 ∈ r.1.map ∧ (∀ e ∈ r.1.map, e.isSome) ∧
      r.2 < (Art.Gen.DualVigilanceART.n_clusters E r.1).2 := by
  intro r
  have hs := step_fit_spec K cfg E th lb self m x is_none reset vetoL mt eps hmap hi.total hC
  obtain ⟨h1, h2, h3, _, _⟩ := dualApply_spec K ⟨⟨self.base.W, self.base.cnt, self.n, self.base.labels⟩, m⟩ x
    (dualDecide K cfg (th self.base.params) lb (posOf 0) vetoL ⟨⟨self.base.W, self.base.cnt, self.n, self.base.labels⟩, m⟩ x)
    (dualDecide_none_iff K cfg (th self.base.params) lb (posOf 0) vetoL _ x) hi
  have hr : r = _ := hs
  simp only at hr
  rw [hr]
  refine ⟨by simpa [dualStepFit] using h1, ?_, by simp, ?_⟩
  · simp only [List.mem_map, Option.some.injEq, exists_eq_right]
    exact h3
  · rw [n_clusters_spec E _ _ rfl]
    exact (nClusters_spec h2).1 _ h3

/-- **C13 (`dual_upper_bound_respected`) on the generated code: frame and upper vigilance.**  On a non-empty model the
translated `step_fit` either appends exactly the category `new_weight x` (no existing weight changes), or changes one
weight `W[c]` to `update x W[c]`, where `c` was not vetoed and passed the UPPER vigilance test against the threshold in
force at its visit. -/
theorem gen_upper_bound (K : Kernel X Wt α μ) (cfg : SearchCfg μ θ) (E : DualExt X Wt P C α) (th : P → θ)
    (lb : θ) (self : DualSelf Wt P α) (m : List Nat) (x : X) (is_none : Bool)
    (reset : X → Wt → Nat → P → C → Bool) (vetoL : Nat → Bool) (mt : MT) (eps : α)
    (hmap : self.map = m.map some) (hlen : m.length = self.base.W.length) (hne : self.base.W ≠ [])
    (hC : Contract K cfg E th lb self.rho_lower_bound self.base.W m x self.base.params is_none reset vetoL mt eps) :
    let r := Art.Gen.DualVigilanceART.step_fit E self.base.W.length self x is_none reset mt eps
    (r.1.base.W = self.base.W ++ [K.newW x] ∧ r.1.map.take m.length = self.map) ∨
    (∃ c w th', self.base.W[c]? = some w ∧ r.1.base.W = self.base.W.set c (K.update x w) ∧ r.1.map = self.map ∧
      cfg.passes th' (K.matchv x w) = true ∧ vetoL (m.getD c 0) = false) := by
  intro r
  have hr : r = _ := step_fit_spec K cfg E th lb self m x is_none reset vetoL mt eps hmap hlen hC
  simp only at hr
  rw [hr, hmap]
  rcases C13.dual_upper_bound_respected K cfg (th self.base.params) lb (posOf 0) vetoL
      ⟨⟨self.base.W, self.base.cnt, self.n, self.base.labels⟩, m⟩ x hne with h | h
  · left
    obtain ⟨h1, _, h3, _⟩ := h
    refine ⟨h1, ?_⟩
    simp only at h3 ⊢
    rw [← List.map_take, h3]
  · right
    obtain ⟨c, w, th', _, hw, hW, hm, _, hp, hv⟩ := h
    exact ⟨c, w, th', hw, hW, by simp only at hm ⊢; rw [hm], hp, hv⟩

end Step

/-! ### The contract is met by every base module with a scalar, non-inverted vigilance — with the decision tables
taken from the GENERATED `DualVigilanceART._match_tracking`, `_match_tracking_operator` and `match_criterion_bin`
(ArtGen/Kernels.lean) and `add_weight` / `set_weight` as `BaseART` defines them -/

section Scalar
variable {X Wt β : Type} [Field β] [LinearOrder β] [IsStrictOrderedRing β]

/-- externals of a wrapped elementary module: the numeric kernel `K`, and for the decisions the generated tables.
`params` is abstracted to the vigilance value `rho`, a cache to the match value it carries. -/
def scalarExt (K : Kernel X Wt β β) (inf : β) : DualExt X Wt β β β where
  category_choice := fun W x w _ => (K.choice W x w, K.matchv x w)
  match_criterion_bin := fun x w rho _ strict =>
    (Gen.BaseART.match_bin (fun a b => if strict then decide (b < a) else decide (b ≤ a)) (K.matchv x w) rho, K.matchv x w)
  update := fun x w _ _ => K.update x w
  new_weight := fun x _ => K.newW x
  match_tracking := fun M eps rho mt =>
    ((Gen.DualVigilanceART.match_tracking inf mt M eps rho).2, (Gen.DualVigilanceART.match_tracking inf mt M eps rho).1)
  operator := Gen.BaseART.strict
  noneC := 0
  add_weight := fun b w => { b with W := b.W ++ [w], cnt := b.cnt ++ [1] }
  set_weight := fun b i w => { b with W := b.W.set i w, cnt := b.cnt.set i (b.cnt[i]! + 1) }
  dict_with := fun p key v => if key = "rho" then v else p

theorem scalar_contract (K : Kernel X Wt β β) (W : List Wt) (m : List Nat) (inf rho lb eps : β) (x : X) (mt : MT)
    (is_none : Bool) (vetoL : Nat → Bool) (hv : is_none = true → ∀ l, vetoL l = false) :
    Contract K (scalarCfg mt false (· + eps) (· - eps) inf) (scalarExt K inf) id lb lb W m x rho is_none
      (fun _ _ l _ _ => !vetoL l) vetoL mt eps where
  choice := fun _ => rfl
  passes := fun w p _ => by
    simp only [scalarExt, id]
    exact base_match_bin mt (K.matchv x w) p
  lower := fun _ => by simp [scalarExt]
  track := fun w p _ => by
    simp only [scalarExt, id, dual_match_tracking, base_match_tracking]
  keep := fun _ p => by
    simp only [scalarExt, dual_match_tracking, base_match_tracking]
  update := fun _ _ _ => rfl
  newW := fun _ => rfl
  add_weight := fun _ _ => rfl
  set_weight := fun _ _ _ => rfl
  veto_none := hv
  veto_some := fun _ _ _ _ _ _ => rfl

/-- **`DualVigilanceART.step_fit`, as translated from the source and with the decision tables as translated from the
source, is the model's `dualStepFit` under the scalar configuration** — for every wrapped module with a scalar,
non-inverted vigilance, every consistent state, sample, label-veto pattern, mode and epsilon. -/
theorem scalar_step_fit [Inhabited Wt] (K : Kernel X Wt β β) (inf eps : β) (self : DualSelf Wt β β) (m : List Nat)
    (x : X) (mt : MT) (is_none : Bool) (vetoL : Nat → Bool) (hv : is_none = true → ∀ l, vetoL l = false)
    (hmap : self.map = m.map some) (hlen : m.length = self.base.W.length) :
    letI : Inhabited β := ⟨0⟩
    Art.Gen.DualVigilanceART.step_fit (scalarExt K inf) self.base.W.length self x is_none (fun _ _ l _ _ => !vetoL l) mt eps =
      (let r := dualStepFit K (scalarCfg mt false (· + eps) (· - eps) inf) self.base.params self.rho_lower_bound
                  (posOf 0) vetoL ⟨⟨self.base.W, self.base.cnt, self.n, self.base.labels⟩, m⟩ x
       ({ base := { self.base with W := r.1.base.W, cnt := r.1.base.cnt }, map := r.1.map.map some, n := r.1.base.n,
          rho_lower_bound := self.rho_lower_bound }, r.2)) := by
  let _ : Inhabited β := ⟨0⟩
  exact step_fit_spec K _ (scalarExt K inf) id self.rho_lower_bound self m x is_none _ vetoL mt eps hmap hlen
    (scalar_contract K self.base.W m inf self.base.params self.rho_lower_bound eps x mt is_none vetoL hv)

end Scalar

/-! ### Non-vacuity: the generated code run on concrete data (Fuzzy ART over ℚ, `rho = 7/8`, `rho_lower_bound = 5/8`,
the stream of `C13.fzX1`: spawn under cluster 0, fresh cluster 1, absorb into category 0) -/

section Examples

private def exE : DualExt (List ℚ) (List ℚ) ℚ ℚ ℚ := scalarExt C13.fzK1 1000

private def exInit : DualSelf (List ℚ) ℚ ℚ :=
  { base := { W := [], cnt := [], n := 0, params := 7/8 }, map := [], n := 0, rho_lower_bound := 5/8 }

/-- one translated `step_fit` with no reset function, MT+ and `epsilon = 0`; fuel = `len(W)` -/
private def exStep (s : DualSelf (List ℚ) ℚ ℚ × List Nat) (x : List ℚ) : DualSelf (List ℚ) ℚ ℚ × List Nat :=
  letI : Inhabited ℚ := ⟨0⟩
  let r := Art.Gen.DualVigilanceART.step_fit exE s.1.base.W.length s.1 x true (fun _ _ _ _ _ => true) MT.plus 0
  (r.1, s.2 ++ [r.2])

/-- the translated code on the four samples: labels `[0, 0, 1, 0]`, `map = {0: 0, 1: 0, 2: 1}`, counters `[2, 1, 1]`,
`sample_counter_ = 4`, the base module's `rho` back at 7/8, translated `n_clusters = 2`, translated `step_pred` of the
third sample = cluster 1 -/
example :
    letI : Inhabited ℚ := ⟨0⟩
    let s := C13.fzX1.foldl exStep (exInit, [])
    s.2 = [0, 0, 1, 0] ∧ s.1.map = [some 0, some 0, some 1] ∧ s.1.base.cnt = [2, 1, 1] ∧ s.1.n = 4 ∧
      s.1.base.params = 7/8 ∧ (Art.Gen.DualVigilanceART.n_clusters exE s.1).2 = 2 ∧
      (Art.Gen.DualVigilanceART.step_pred exE s.1 [1, 0]).2 = 1 := by
  decide +kernel

/-- a vetoing reset function (cluster label 0 is refused), MT+ with `epsilon = 1/1000`: the sample that category 0
would absorb is refused there, the threshold tracks, and a fresh cluster 2 is opened; `rho` is restored -/
example :
    letI : Inhabited ℚ := ⟨0⟩
    let s := (C13.fzX1.foldl exStep (exInit, [])).1
    let r := Art.Gen.DualVigilanceART.step_fit exE s.base.W.length s [1/4, 3/4] false (fun _ _ l _ _ => !(l == 0)) MT.plus (1/1000)
    r.2 = 2 ∧ r.1.map = [some 0, some 0, some 1, some 2] ∧ r.1.base.params = 7/8 ∧ r.1.base.cnt = [2, 1, 1, 1] := by
  decide +kernel

/-- and the contract holds there (so `scalar_step_fit` / `step_fit_spec` apply) -/
example : Contract C13.fzK1 (scalarCfg MT.plus false (· + 1/1000) (· - 1/1000) 1000) exE id (5/8) (5/8)
    [[1/4, 3/4], [1/2, 1/2], [1, 0]] [0, 0, 1] [1/4, 3/4] (7/8) false (fun _ _ l _ _ => !(l == 0)) (fun l => l == 0)
    MT.plus (1/1000) :=
  scalar_contract _ _ _ _ _ _ _ _ _ _ _ (by simp)

end Examples

end Art.GenSpec.Dual
