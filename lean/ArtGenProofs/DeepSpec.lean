/-
ArtGenProofs.DeepSpec — DeepARTMAP (`artlib/hierarchical/DeepARTMAP.py`) and SMART (`artlib/hierarchical/SMART.py`),
as translated from the Python source by `harness/artv/htrans.py` (ArtGen/Deep.lean), compute the definitions of
`ArtModel/Deep.lean` that the C12 property theorems are stated about — for any number of layers, all data, all labels,
all levels.  The layers (SimpleARTMAP / ARTMAP objects) are abstract (`LayerOps`); what is assumed of them is the
structure `ReadTie` (attributes and read-only methods are those of the SimpleARTMAP model state `st l`) and, for
training, `Tie` (constructors, `fit`, `partial_fit` are `smapFit` / `smapPartialFit` / `artmapFit` /
`artmapPartialFit` with the `Level` of the module the layer was built from; `max_iter = 1`).  `exTie` shows the
assumptions satisfiable and the section `Example` runs the generated code.

  pyIndex_natCast … pyRepeat_singleton   the Python helpers of ImpDeep on natural arguments (pySliceFrom_neg: v[-n:] = lastN)
  npConcat1_cols / npConcat1_cols_some   np.concatenate(axis=1) of (n,1) columns: entry (i, l) = column l at i
  n_modules_spec / n_layers_spec         = len(modules) / len(layers)
  labels_deep_spec / labels_deep_rows / labels_deep_some
                                         labels_deep_ = the columns of labelsDeep, transposed; succeeds under DeepInv
  map_deep_spec                          map_deep = mapDeep for -n_layers ≤ level, fuel > n_layers
  predict_spec / predict_list_spec       predict = deepPredict with the last layer's kernel (a list of matrices: the last)
  validate_data_sup / validate_data_unsup   validate_data passes iff ValidBatch / when UnsupValid and as many matrices as modules
  fit_loop / pfit_loop                   the index loops over layers = the structural recursion chainOps
  fit_sup_spec / partial_fit_sup_spec    fit / partial_fit with labels = deepFitSup / deepPartialFitSup
  fit_unsup_spec / partial_fit_unsup_spec   … without labels = deepFitUnsup / deepPartialFitUnsup
  smart_fit_spec / smart_partial_fit_spec   SMART.fit / partial_fit = smartFit / smartPartialFit
  gen_deep_nested / gen_map_deep_consistent / gen_predict_nested / gen_fit_sup_inv   C12 transported to the generated code
Hypotheses that restrict the domain: at least one module (the constructor asserts it; with none the code raises
where the model returns no layers); `map_deep` for `-n_layers ≤ level` (below that Python's negative indexing may
still find a layer where the model returns `none`); `partial_fit` on existing layers needs layers built from these
modules in the same mode.
-/
import ArtGen.Deep
import ArtProps.C12

set_option linter.unusedSectionVars false
set_option linter.unusedVariables false

namespace Art.GenSpec.Deep
open Art Art.ImpDeep Art.Gen.DeepARTMAP

/-! ### the Python helpers of ImpDeep -/
section Helpers
variable {β γ : Type}

/-- a non-negative Python index is `l[n]?` -/
theorem pyIndex_natCast (l : List β) (n : Nat) : pyIndex l (n : Int) = l[n]? := by
  simp [pyIndex]

theorem pyIndex_zero (l : List β) : pyIndex l 0 = l[0]? := pyIndex_natCast l 0
theorem pyIndex_one (l : List β) : pyIndex l 1 = l[1]? := pyIndex_natCast l 1

/-- `xs[-1]` is the last element -/
theorem pyIndex_neg_one (l : List β) : pyIndex l (-1) = l.getLast? := by
  unfold pyIndex
  cases l with
  | nil => simp
  | cons a t =>
    have h1 : ¬ (0 : Int) ≤ -1 := by omega
    have h2 : (0 : Int) ≤ -1 + ((a :: t).length : Int) := by simp; omega
    have h3 : (-1 + ((a :: t).length : Int)).toNat = t.length := by simp; omega
    rw [if_neg h1, if_pos h2, h3, List.getLast?_eq_getElem?]
    simp

theorem pySet_natCast (l : List β) (n : Nat) (v : β) (h : n < l.length) :
    pySet l (n : Int) v = some (l.set n v) := by
  simp [pySet, h]

theorem pyRange_self (a : Int) : pyRange a a = [] := by simp [pyRange]

theorem pyRange_cons (a b : Int) (h : a < b) : pyRange a b = a :: pyRange (a + 1) b := by
  unfold pyRange
  obtain ⟨k, hk⟩ : ∃ k : Nat, (b - a).toNat = k + 1 := ⟨(b - a).toNat - 1, by omega⟩
  have hk' : (b - (a + 1)).toNat = k := by omega
  rw [hk, hk', List.range_succ_eq_map]
  simp only [List.map_cons, List.map_map]
  congr 1
  · simp
  · apply List.map_congr_left
    intro x _
    simp only [Function.comp]
    push_cast
    omega

/-- `v[-n:]` for a natural `n` is the model's `lastN` -/
theorem pySliceFrom_neg (l : List β) (n : Nat) : pySliceFrom l (-(n : Int)) = lastN n l := by
  unfold pySliceFrom lastN
  by_cases hn : n = 0
  · subst hn; simp
  · have h1 : ¬ (0 : Int) ≤ -(n : Int) := by omega
    rw [if_neg h1, if_neg hn]
    congr 1
    omega

/-- `xs[:-1]` drops the last element -/
theorem pySliceTo_neg_one (l : List β) : pySliceTo l (-1) = l.dropLast := by
  unfold pySliceTo
  have h1 : ¬ (0 : Int) ≤ -1 := by omega
  rw [if_neg h1, List.dropLast_eq_take]
  congr 1
  omega

/-- `[x] * n` -/
theorem pyRepeat_singleton (x : β) (n : Nat) : pyRepeat [x] (n : Int) = List.replicate n x := by
  unfold pyRepeat
  simp only [Int.toNat_natCast]
  induction n with
  | zero => rfl
  | succ n ih => simp [List.replicate_succ, ih]

theorem mapM_pure_eq (f : β → γ) (l : List β) : l.mapM (fun a => some (f a)) = some (l.map f) := by
  induction l with
  | nil => rfl
  | cons a l ih => simp [List.mapM_cons, ih]

theorem zipSame_getElem? {δ : Type} (f : β → γ → δ) (as : List β) (bs : List γ) (cs : List δ)
    (h : zipSame f as bs = some cs) (i : Nat) (c : δ) (hc : cs[i]? = some c) :
    ∃ a b, as[i]? = some a ∧ bs[i]? = some b ∧ c = f a b := by
  induction as generalizing bs cs i with
  | nil =>
    cases bs with
    | nil => simp [zipSame] at h; subst h; simp at hc
    | cons b bs => simp [zipSame] at h
  | cons a as ih =>
    cases bs with
    | nil => simp [zipSame] at h
    | cons b bs =>
      simp only [zipSame, Option.map_eq_some_iff] at h
      obtain ⟨cs', hcs', rfl⟩ := h
      cases i with
      | zero => simp at hc; exact ⟨a, b, by simp, by simp, hc.symm⟩
      | succ i =>
        simp only [List.getElem?_cons_succ] at hc ⊢
        exact ih bs cs' hcs' i hc

/-- **`np.concatenate(…, axis=1)` of column vectors**: when the call succeeds, entry `l` of row `i` is entry `i` of
column `l` (and all columns have as many entries as there are rows). -/
theorem npConcat1_cols (cols : List (List β)) (rows : List (List β))
    (h : npConcat1 (cols.map npCol) = some rows) (i : Nat) (r : List β) (hr : rows[i]? = some r) (l : Nat) :
    r[l]? = (cols[l]?).bind (·[i]?) := by
  induction cols generalizing rows r l with
  | nil => simp [npConcat1] at h
  | cons c cs ih =>
    cases cs with
    | nil =>
      simp only [List.map_cons, List.map_nil, npConcat1, Option.some.injEq] at h
      subst h
      simp only [npCol, List.getElem?_map, Option.map_eq_some_iff] at hr
      obtain ⟨x, hx, rfl⟩ := hr
      cases l with
      | zero => simp [hx]
      | succ l => simp
    | cons c' cs' =>
      simp only [List.map_cons, npConcat1] at h ih
      cases hB : npConcat1 (npCol c' :: List.map npCol cs') with
      | none => simp [hB] at h
      | some B =>
        simp only [hB] at h
        obtain ⟨a, b, ha, hb, rfl⟩ := zipSame_getElem? _ _ _ _ h i r hr
        simp only [npCol, List.getElem?_map, Option.map_eq_some_iff] at ha
        obtain ⟨x, hx, rfl⟩ := ha
        cases l with
        | zero => simp [hx]
        | succ l =>
          have := ih B hB b hb l
          simpa using this

theorem zipSame_some {δ : Type} (f : β → γ → δ) (as : List β) (bs : List γ) (h : as.length = bs.length) :
    zipSame f as bs = some (List.zipWith f as bs) := by
  induction as generalizing bs with
  | nil => cases bs with
    | nil => rfl
    | cons b bs => simp at h
  | cons a as ih => cases bs with
    | nil => simp at h
    | cons b bs => simp [zipSame, ih bs (by simpa using h)]

/-- columns of equal length can be concatenated -/
theorem npConcat1_cols_some (cols : List (List β)) (n : Nat) (hne : cols ≠ []) (hl : ∀ c ∈ cols, c.length = n) :
    ∃ rows, npConcat1 (cols.map npCol) = some rows ∧ rows.length = n := by
  induction cols with
  | nil => exact absurd rfl hne
  | cons c cs ih =>
    cases cs with
    | nil => exact ⟨npCol c, rfl, by simp [npCol, hl c (by simp)]⟩
    | cons c' cs' =>
      obtain ⟨B, hB, hBl⟩ := ih (by simp) (fun x hx => hl x (by simp [hx]))
      simp only [List.map_cons] at hB
      refine ⟨List.zipWith (· ++ ·) (npCol c) B, ?_, by simp [npCol, hl c (by simp), hBl]⟩
      simp only [List.map_cons, npConcat1, hB]
      exact zipSame_some _ _ _ (by simp [npCol, hl c (by simp), hBl])

end Helpers

/-! ### reading a hierarchy: `n_modules`, `n_layers`, `labels_deep_`, `map_deep`, `predict` -/
section Read
variable {M L R ε Wt α μ θ : Type} [LinearOrder α]

/-- what ties the attributes and read-only methods of an abstract layer to the SimpleARTMAP model:
`st` reads the model state off the layer object, `K` the kernel of its A-side module -/
structure ReadTie (ops : LayerOps M L R ε) (K : L → Kernel R Wt α μ) (st : L → SMapState Wt) : Prop where
  labels_ : ∀ l, ops.labels_ l = (st l).labelsB
  labels_a : ∀ l, ops.labels_a l = (st l).a.labels
  map_a2b : ∀ l ya, ops.map_a2b l ya = mapA2B? (st l).map ya
  predict_ab : ∀ l xs, ops.predict_ab l xs =
    (xs.mapM (smapStepPred (K l) (st l))).map (fun ab => (ab.map (·.1), ab.map (·.2)))

variable {ops : LayerOps M L R ε} {K : L → Kernel R Wt α μ} {st : L → SMapState Wt}

theorem n_modules_spec (modules : List M) : n_modules modules = some (modules.length : Int) := rfl
theorem n_layers_spec (layers : List L) : n_layers layers = some (layers.length : Int) := rfl

theorem labelsDeep_eq (ss : List (SMapState Wt)) (last : SMapState Wt) (h : ss.getLast? = some last) :
    labelsDeep ss = ss.map (·.labelsB) ++ [last.a.labels] := by
  induction ss with
  | nil => simp at h
  | cons s r ih =>
    cases r with
    | nil => simp at h; subst h; rfl
    | cons t r =>
      rw [labelsDeep_cons_cons, ih (by simpa [List.getLast?_cons_cons] using h)]
      simp

/-- **`labels_deep_`** = the columns of the model's `labelsDeep`, reshaped to `(n, 1)` and concatenated along axis 1
(no layers: `self.layers[-1]` raises) -/
theorem labels_deep_spec (T : ReadTie ops K st) (layers : List L) :
    labels_deep_ ops layers =
      if layers = [] then none else npConcat1 ((labelsDeep (layers.map st)).map npCol) := by
  unfold labels_deep_
  simp only [pyIndex_neg_one, bind, pure, mapM_pure_eq, Option.bind_some]
  cases h : layers.getLast? with
  | none =>
    have : layers = [] := by simpa using h
    simp [this]
  | some last =>
    have hne : layers ≠ [] := by intro e; rw [e] at h; simp at h
    have hl : (layers.map st).getLast? = some (st last) := by simp [List.getLast?_map, h]
    simp only [Option.bind_some, if_neg hne, labelsDeep_eq _ _ hl, T.labels_, T.labels_a, List.map_append,
      List.map_map, List.map_cons, List.map_nil]
    rfl

/-- **rows of `labels_deep_`**: when the call succeeds, entry `l` of row `i` is entry `i` of column `l` of the
model's `labelsDeep` -/
theorem labels_deep_rows (T : ReadTie ops K st) (layers : List L) (rows : List (List Nat))
    (h : labels_deep_ ops layers = some rows) (i : Nat) (r : List Nat) (hr : rows[i]? = some r) (l : Nat) :
    r[l]? = ((labelsDeep (layers.map st))[l]?).bind (·[i]?) := by
  rw [labels_deep_spec T] at h
  split at h
  · cases h
  · exact npConcat1_cols _ rows h i r hr l

/-- in a hierarchy in good standing all columns of `labelsDeep` have the same length -/
theorem labelsDeep_lengths {ss : List (SMapState Wt)} (h : DeepInv ss) (top : SMapState Wt)
    (htop : ss[0]? = some top) : ∀ c ∈ labelsDeep ss, c.length = top.labelsB.length := by
  have hne : ss ≠ [] := by intro e; rw [e] at htop; simp at htop
  have hlen := labelsDeep_length ss hne
  have h0 : (labelsDeep ss)[0]? = some top.labelsB := labelsDeep_getElem?_labelsB ss 0 top htop
  suffices H : ∀ (l : Nat) (c : List Nat), (labelsDeep ss)[l]? = some c → c.length = top.labelsB.length by
    intro c hc
    obtain ⟨l, hl⟩ := List.getElem?_of_mem hc
    exact H l c hl
  intro l
  induction l with
  | zero => intro c hc; rw [h0] at hc; cases hc; rfl
  | succ l ih =>
    intro c hc
    have hlt : l + 1 < (labelsDeep ss).length := (List.getElem?_eq_some_iff.mp hc).1
    obtain ⟨cc, hcc⟩ : ∃ cc, (labelsDeep ss)[l]? = some cc :=
      ⟨(labelsDeep ss)[l]'(by omega), List.getElem?_eq_getElem (by omega)⟩
    rw [(Art.C12.deep_nested h l cc c hcc hc).1]
    exact ih cc hcc

/-- in a hierarchy in good standing `labels_deep_` succeeds and has one row per sample -/
theorem labels_deep_some (T : ReadTie ops K st) (layers : List L) (h : DeepInv (layers.map st))
    (top : L) (htop : layers[0]? = some top) :
    ∃ rows, labels_deep_ ops layers = some rows ∧ rows.length = (st top).labelsB.length := by
  have hne : layers ≠ [] := by intro e; rw [e] at htop; simp at htop
  rw [labels_deep_spec T, if_neg hne]
  have htop' : (layers.map st)[0]? = some (st top) := by simp [htop]
  apply npConcat1_cols_some _ _ _ (labelsDeep_lengths h (st top) htop')
  intro e
  have := labelsDeep_length (layers.map st) (by simpa using hne)
  rw [e] at this; simp at this

/-! #### `map_deep` -/

theorem mapDeepNat_out_of_range (ss : List (SMapState Wt)) (k : Nat) (hk : ss.length ≤ k) (ya : List Nat) :
    mapDeepNat ss k ya = none := by
  cases k with
  | zero => have : ss = [] := by simpa using hk
            simp [mapDeepNat, this]
  | succ k => simp [mapDeepNat, List.getElem?_eq_none hk]

/-- a non-negative level: the recursion of the generated `map_deep` is the model's `mapDeepNat` -/
theorem map_deep_nat (T : ReadTie ops K st) (layers : List L) (k : Nat) :
    ∀ (fuel : Nat) (ya : List Nat), k < fuel →
      map_deep ops layers fuel (k : Int) ya = mapDeepNat (layers.map st) k ya := by
  induction k with
  | zero =>
    intro fuel ya hf
    obtain ⟨f, rfl⟩ : ∃ f, fuel = f + 1 := ⟨fuel - 1, by omega⟩
    have h0 : ((0 : Nat) : Int) = 0 := rfl
    rw [h0]
    unfold map_deep
    simp only [Int.lt_irrefl, decide_false, Bool.false_eq_true, if_false, bind, pure,
      Option.bind_some, pyIndex_zero, gt_iff_lt, mapDeepNat, List.getElem?_map, T.map_a2b]
    cases layers[0]? <;> simp
  | succ k ih =>
    intro fuel ya hf
    obtain ⟨f, rfl⟩ : ∃ f, fuel = f + 1 := ⟨fuel - 1, by omega⟩
    unfold map_deep
    have h1 : ¬ (((k + 1 : Nat) : Int) < 0) := by omega
    have h2 : (0 : Int) < ((k + 1 : Nat) : Int) := by omega
    have h3 : ((k + 1 : Nat) : Int) - 1 = (k : Int) := by omega
    simp only [h1, h2, h3, decide_false, decide_true, Bool.false_eq_true, if_false, if_true, bind, pure,
      Option.bind_some, pyIndex_natCast, gt_iff_lt, mapDeepNat, List.getElem?_map, T.map_a2b]
    cases layers[k + 1]? with
    | none => simp
    | some l =>
      simp only [Option.bind_some, Option.map_some]
      cases mapA2B? (st l).map ya with
      | none => simp
      | some yb => simp only [Option.bind_some]; exact ih f yb (by omega)

theorem map_deep_out_of_range (layers : List L) (k : Nat) (hk : layers.length ≤ k) (fuel : Nat) (ya : List Nat) :
    map_deep ops layers fuel (k : Int) ya = none := by
  cases fuel with
  | zero => rfl
  | succ f =>
    unfold map_deep
    have h1 : ¬ ((k : Int) < 0) := by omega
    simp [h1, pyIndex_natCast, List.getElem?_eq_none hk]

/-- a negative level is first shifted by `len(self.layers)` -/
theorem map_deep_neg (layers : List L) (level : Int) (hneg : level < 0) (fuel : Nat) (ya : List Nat)
    (h0 : 0 ≤ level + (layers.length : Int)) :
    map_deep ops layers fuel level ya = map_deep ops layers fuel (level + (layers.length : Int)) ya := by
  cases fuel with
  | zero => rfl
  | succ f =>
    rw [map_deep, map_deep]
    have h1 : ¬ (level + (layers.length : Int) < 0) := by omega
    simp [hneg, h1]

/-- **`map_deep`** = the model's `mapDeep`, for every level in the documented domain `-n_layers ≤ level`
(too large a level raises in both) and every fuel above the number of layers -/
theorem map_deep_spec (T : ReadTie ops K st) (layers : List L) (fuel : Nat) (level : Int) (ya : List Nat)
    (hlo : -(layers.length : Int) ≤ level) (hf : layers.length < fuel) :
    map_deep ops layers fuel level ya = mapDeep (layers.map st) level ya := by
  have core : ∀ k : Nat, map_deep ops layers fuel (k : Int) ya = mapDeepNat (layers.map st) k ya := by
    intro k
    by_cases hk : k < layers.length
    · exact map_deep_nat T layers k fuel ya (by omega)
    · rw [map_deep_out_of_range layers k (by omega), mapDeepNat_out_of_range _ k (by simpa using hk)]
  unfold mapDeep
  simp only [List.length_map]
  by_cases hneg : level < 0
  · rw [map_deep_neg layers level hneg fuel ya (by omega)]
    obtain ⟨k, hk⟩ : ∃ k : Nat, level + (layers.length : Int) = (k : Int) :=
      ⟨(level + (layers.length : Int)).toNat, by omega⟩
    have h2 : ¬ ((k : Int) < 0) := by omega
    simp only [hneg, if_true, hk, h2, if_false, Int.toNat_natCast]
    exact core k
  · obtain ⟨k, rfl⟩ : ∃ k : Nat, level = (k : Int) := ⟨level.toNat, by omega⟩
    simp only [hneg, if_false, Int.toNat_natCast]
    exact core k

/-! #### `predict` -/

theorem mapUp_ne_nil (ss : List (SMapState Wt)) (y : List Nat) (cols : List (List Nat))
    (h : mapUp ss y = some cols) : cols ≠ [] := by
  cases ss with
  | nil => simp [mapUp] at h; subst h; simp
  | cons s ss =>
    simp only [mapUp, Option.bind_eq_some_iff, Option.map_eq_some_iff] at h
    obtain ⟨c, _, _, _, rfl⟩ := h
    simp

theorem getLast?_append_reverse {β : Type} (p cols : List β) (h : cols ≠ []) :
    (p ++ cols.reverse).getLast? = cols.head? := by
  cases cols with
  | nil => exact absurd rfl h
  | cons c cs => simp [List.getLast?_append]

/-- the loop `for layer in layers[:-1][::-1]: pred.append(layer.map_a2b(pred[-1]))` is the model's `mapUp` -/
theorem predict_loop (T : ReadTie ops K st) (ls : List L) (p0 : List (List Nat)) (y : List Nat) :
    ls.reverse.foldlM (fun pred layer =>
        (pyIndex pred (-1)).bind fun a => (ops.map_a2b layer a).bind fun b => some (pred ++ [b])) (p0 ++ [y])
      = (mapUp (ls.map st) y).map (fun cols => p0 ++ cols.reverse) := by
  induction ls with
  | nil => simp [mapUp]
  | cons l ls ih =>
    rw [List.reverse_cons, List.foldlM_append, ih]
    simp only [List.map_cons, mapUp]
    cases hm : mapUp (ls.map st) y with
    | none => simp
    | some cols =>
      have hne := mapUp_ne_nil _ _ _ hm
      simp only [Option.map_some, Option.bind_eq_bind, Option.bind_some, List.foldlM_cons, List.foldlM_nil,
        pyIndex_neg_one, getLast?_append_reverse p0 cols hne, T.map_a2b]
      cases cols.head? with
      | none => simp
      | some hd =>
        simp only [Option.bind_some]
        cases mapA2B? (st l).map hd <;> simp

/-- **`predict(X)`** on one data matrix = the model's `deepPredict` with the kernel of the last layer's module
(no layers: `self.layers[-1]` raises) -/
theorem predict_spec (T : ReadTie ops K st) (layers : List L) (xs : List R) :
    Gen.DeepARTMAP.predict ops layers (Sum.inl xs) =
      (layers.getLast?).bind (fun last => deepPredict (K last) (layers.map st) xs) := by
  unfold Gen.DeepARTMAP.predict
  simp only [bind, pure, Option.bind_some, pyIndex_neg_one, pySliceTo_neg_one]
  cases h : layers.getLast? with
  | none => simp
  | some last =>
    have hl : (layers.map st).getLast? = some (st last) := by simp [List.getLast?_map, h]
    simp only [Option.bind_some, T.predict_ab, deepPredict, hl]
    cases hab : xs.mapM (smapStepPred (K last) (st last)) with
    | none => simp
    | some ab =>
      simp only [Option.map_some, Option.bind_some]
      have := predict_loop T layers.dropLast [ab.map (·.1)] (ab.map (·.2))
      simp only [List.cons_append, List.nil_append, pyIndex_neg_one] at this
      rw [this, List.map_dropLast]
      cases mapUp (List.map st layers).dropLast (ab.map (·.2)) <;> simp

/-- **`predict(X)`** on a list of data matrices uses the last one -/
theorem predict_list_spec (T : ReadTie ops K st) (layers : List L) (Xs : List (List R)) :
    Gen.DeepARTMAP.predict ops layers (Sum.inr Xs) = (Xs.getLast?).bind (fun xs => Gen.DeepARTMAP.predict ops layers (Sum.inl xs)) := by
  unfold Gen.DeepARTMAP.predict
  simp only [bind, pure, Option.bind_some, pyIndex_neg_one]
  cases Xs.getLast? <;> simp

end Read

/-! ### training: the loops over layers, independent of the model -/
section Loops
variable {M L R ε : Type}

/-- the chain of layers as a structural recursion: layer `i` is trained by `f` on its data matrix and the labels
`la` reads off the trained layer `i - 1` -/
def chainOps (f : L → List R → List Nat → L) (la : L → List Nat) : List L → List (List R) → List Nat → List L
  | l :: ls, x :: xs, y => f l x y :: chainOps f la ls xs (la (f l x y))
  | _, _, _ => []

theorem chainOps_length (f : L → List R → List Nat → L) (la : L → List Nat) (ls : List L) (xs : List (List R))
    (y : List Nat) (h : ls.length ≤ xs.length) : (chainOps f la ls xs y).length = ls.length := by
  induction ls generalizing xs y with
  | nil => simp [chainOps]
  | cons l ls ih =>
    cases xs with
    | nil => simp at h
    | cons x xs => simp [chainOps, ih xs _ (by simpa using h)]

theorem mapM_index (f : M → L) (suf pre : List M) :
    List.mapM (fun i => (pyIndex (pre ++ suf) i).bind fun a => some (f a))
      (pyRange (pre.length : Int) ((pre ++ suf).length : Int)) = some (suf.map f) := by
  induction suf generalizing pre with
  | nil => simp [pyRange_self]
  | cons m suf ih =>
    rw [pyRange_cons _ _ (by simp; omega), List.mapM_cons, pyIndex_natCast]
    have h1 : (pre ++ m :: suf)[pre.length]? = some m := by simp
    have e : ((pre.length : Int) + 1) = ((pre ++ [m]).length : Int) := by simp
    have e2 : pre ++ m :: suf = (pre ++ [m]) ++ suf := by simp
    rw [h1, e, e2, ih (pre ++ [m])]
    simp

/-- `[C(self.modules[i]) for i in range(a, self.n_modules)]` -/
theorem mapM_modules (f : M → L) (modules : List M) (a : Nat) (ha : a ≤ modules.length) :
    List.mapM (fun i => (pyIndex modules i).bind fun m => some (f m))
      (pyRange (a : Int) (modules.length : Int)) = some ((modules.drop a).map f) := by
  have := mapM_index f (modules.drop a) (modules.take a)
  rw [List.take_append_drop, List.length_take, Nat.min_eq_left ha] at this
  exact this

theorem drop_succ_of_drop {β : Type} (l : List β) (m : Nat) (x : β) (xs : List β) (h : l.drop m = x :: xs) :
    l[m]? = some x ∧ l.drop (m + 1) = xs := by
  constructor
  · have : (l.drop m)[0]? = some x := by rw [h]; rfl
    simpa using this
  · have : (l.drop m).drop 1 = xs := by rw [h]; rfl
    rw [List.drop_drop] at this
    exact this

/-- **the `fit` loop** `for art_i in range(1, n_layers): layers[art_i] = layers[art_i].fit(X[art_i + x_off],
layers[art_i - 1].labels_a, …)`, started after `pre ++ [p]` have been trained: it is the structural chain -/
theorem fit_loop (ops : LayerOps M L R ε) (mi : Int) (mt : String) (eps : ε) (Xall : List (List R)) (off : Int)
    (k : Nat) (hoff : off = (k : Int)) :
    ∀ (ls pre : List L) (p : L) (xs : List (List R)) (a b : Int),
      a = (pre.length : Int) + 1 → b = a + (ls.length : Int) → ls.length ≤ xs.length →
      Xall.drop (pre.length + 1 + k) = xs →
      List.foldlM (fun layers art_i =>
          (pyIndex layers (art_i - 1)).bind fun a =>
            (pyIndex layers art_i).bind fun a_1 =>
              (pyIndex Xall (art_i + off)).bind fun a_2 =>
                (pySet layers art_i (ops.fit a_1 a_2 (ops.labels_a a) mi mt eps)).bind fun a => some a)
        (pre ++ p :: ls) (pyRange a b)
      = some (pre ++ p :: chainOps (fun l x y => ops.fit l x y mi mt eps) ops.labels_a ls xs (ops.labels_a p)) := by
  intro ls
  induction ls with
  | nil =>
    intro pre p xs a b ha hb _ _
    have : b = a := by simpa using hb
    subst this
    simp [pyRange_self, chainOps]
  | cons l ls ih =>
    intro pre p xs a b ha hb hlen hdrop
    cases xs with
    | nil => simp at hlen
    | cons x xs =>
      obtain ⟨hx, hdrop'⟩ := drop_succ_of_drop _ _ _ _ hdrop
      have h1 : a - 1 = ((pre.length : Nat) : Int) := by omega
      have h2 : a = ((pre.length + 1 : Nat) : Int) := by omega
      have h3 : a + off = ((pre.length + 1 + k : Nat) : Int) := by omega
      have hi1 : pyIndex (pre ++ p :: l :: ls) (a - 1) = some p := by rw [h1, pyIndex_natCast]; simp
      have hi2 : pyIndex (pre ++ p :: l :: ls) a = some l := by
        rw [h2, pyIndex_natCast, List.getElem?_append_right (by omega)]; simp
      have hi3 : pyIndex Xall (a + off) = some x := by rw [h3, pyIndex_natCast]; exact hx
      have hs : ∀ v, pySet (pre ++ p :: l :: ls) a v = some ((pre ++ [p]) ++ v :: ls) := by
        intro v
        rw [h2, pySet_natCast _ _ _ (by simp)]
        congr 1
        rw [List.set_append_right _ _ (by omega)]
        simp
      have hb' : a < b := by simp at hb; omega
      rw [pyRange_cons a b hb', List.foldlM_cons]
      simp only [hi1, hi2, hi3, hs, Option.bind_some, Option.bind_eq_bind]
      rw [ih (pre ++ [p]) _ xs (a + 1) b (by simp; omega) (by simp at hb ⊢; omega) (by simpa using hlen)
        (by simpa [Nat.add_assoc, Nat.add_comm, Nat.add_left_comm] using hdrop')]
      simp [chainOps]

/-- **the `partial_fit` loop** `for art_i in range(1, n_layers): layers[art_i] = layers[art_i].partial_fit(X[x_i],
layers[art_i - 1].labels_a[-n_samples:], …); x_i += 1` -/
theorem pfit_loop (ops : LayerOps M L R ε) (mt : String) (eps : ε) (Xall : List (List R)) (n : Int) (k : Nat) :
    ∀ (ls pre : List L) (p : L) (xs : List (List R)) (a b xi : Int),
      a = (pre.length : Int) + 1 → b = a + (ls.length : Int) → xi = a + (k : Int) → ls.length ≤ xs.length →
      Xall.drop (pre.length + 1 + k) = xs →
      ∃ xj, List.foldlM (fun (x : List L × Int) art_i =>
          (pyIndex x.1 (art_i - 1)).bind fun a =>
            (pyIndex x.1 art_i).bind fun a_1 =>
              (pyIndex Xall x.2).bind fun a_2 =>
                (pySet x.1 art_i (ops.partial_fit a_1 a_2 (pySliceFrom (ops.labels_a a) n) mt eps)).bind
                  fun a => some (a, x.2 + 1))
        (pre ++ p :: ls, xi) (pyRange a b)
      = some (pre ++ p :: chainOps (fun l x y => ops.partial_fit l x y mt eps)
            (fun l => pySliceFrom (ops.labels_a l) n) ls xs (pySliceFrom (ops.labels_a p) n), xj) := by
  intro ls
  induction ls with
  | nil =>
    intro pre p xs a b xi ha hb _ _ _
    have : b = a := by simpa using hb
    subst this
    exact ⟨xi, by simp [pyRange_self, chainOps]⟩
  | cons l ls ih =>
    intro pre p xs a b xi ha hb hxi hlen hdrop
    cases xs with
    | nil => simp at hlen
    | cons x xs =>
      obtain ⟨hx, hdrop'⟩ := drop_succ_of_drop _ _ _ _ hdrop
      have h1 : a - 1 = ((pre.length : Nat) : Int) := by omega
      have h2 : a = ((pre.length + 1 : Nat) : Int) := by omega
      have h3 : xi = ((pre.length + 1 + k : Nat) : Int) := by omega
      have hi1 : pyIndex (pre ++ p :: l :: ls) (a - 1) = some p := by rw [h1, pyIndex_natCast]; simp
      have hi2 : pyIndex (pre ++ p :: l :: ls) a = some l := by
        rw [h2, pyIndex_natCast, List.getElem?_append_right (by omega)]; simp
      have hi3 : pyIndex Xall xi = some x := by rw [h3, pyIndex_natCast]; exact hx
      have hs : ∀ v, pySet (pre ++ p :: l :: ls) a v = some ((pre ++ [p]) ++ v :: ls) := by
        intro v
        rw [h2, pySet_natCast _ _ _ (by simp)]
        congr 1
        rw [List.set_append_right _ _ (by omega)]
        simp
      have hb' : a < b := by simp at hb; omega
      rw [pyRange_cons a b hb', List.foldlM_cons]
      simp only [hi1, hi2, hi3, hs, Option.bind_some, Option.bind_eq_bind]
      obtain ⟨xj, hxj⟩ := ih (pre ++ [p])
        (ops.partial_fit l x (pySliceFrom (ops.labels_a p) n) mt eps) xs (a + 1) b (xi + 1)
        (by simp; omega) (by simp at hb ⊢; omega) (by omega) (by simpa using hlen)
        (by simpa [Nat.add_assoc, Nat.add_comm, Nat.add_left_comm] using hdrop')
      exact ⟨xj, by rw [hxj]; simp [chainOps]⟩

end Loops

/-! ### training: `validate_data`, `fit`, `partial_fit`, SMART -/
section Train
variable {M L R ε Wt α μ θ : Type} [LinearOrder α]

/-- what ties the abstract modules and layers to the SimpleARTMAP / ARTMAP model, for the `match_tracking` and
`epsilon` of a call and `max_iter = 1` (the model is single-epoch): `lev` reads the `Level` (kernel, search
configuration, vigilance) off a module, `lv` / `lvB` the levels of a layer's A-side / B-side module, `st` the
SimpleARTMAP state of a layer and `stB` the state of an ARTMAP layer's B-side module.  A newly constructed layer
behaves as the empty model state (`SimpleARTMAP.fit` and the first `partial_fit` empty the wrapped module; for an
ARTMAP this says that `modules[0]` is untrained when the first unsupervised `partial_fit` wraps it). -/
structure Tie (ops : LayerOps M L R ε) (lev : M → Level R Wt α μ θ) (mt : String) (eps : ε)
    (lv lvB : L → Level R Wt α μ θ) (st : L → SMapState Wt) (stB : L → ArtState Wt) : Prop where
  read : ReadTie ops (fun l => (lv l).K) st
  mk_simple_lv : ∀ m, lv (ops.mk_simple m) = lev m
  mk_simple_st : ∀ m, st (ops.mk_simple m) = {}
  mk_artmap_lv : ∀ a b, lv (ops.mk_artmap a b) = lev a ∧ lvB (ops.mk_artmap a b) = lev b
  mk_artmap_st : ∀ a b, st (ops.mk_artmap a b) = {} ∧ stB (ops.mk_artmap a b) = {}
  fit_lv : ∀ l X y, lv (ops.fit l X y 1 mt eps) = lv l
  fit_st : ∀ l X y, st (ops.fit l X y 1 mt eps) = smapFit (lv l).K (lv l).cfg (lv l).th (st l) (X.zip y)
  pfit_lv : ∀ l X y, lv (ops.partial_fit l X y mt eps) = lv l
  pfit_st : ∀ l X y, st (ops.partial_fit l X y mt eps) =
    smapPartialFit (lv l).K (lv l).cfg (lv l).th (st l) (X.zip y)
  fit_ab_lv : ∀ l X Y, lv (ops.fit_ab l X Y 1 mt eps) = lv l ∧ lvB (ops.fit_ab l X Y 1 mt eps) = lvB l
  fit_ab_st : ∀ l X Y, (⟨stB (ops.fit_ab l X Y 1 mt eps), st (ops.fit_ab l X Y 1 mt eps)⟩ : ArtmapState Wt Wt) =
    artmapFit (lv l).K (lvB l).K (lv l).cfg (lvB l).cfg (lv l).th (lvB l).th ⟨stB l, st l⟩ X Y
  pfit_ab_lv : ∀ l X Y, lv (ops.partial_fit_ab l X Y mt eps) = lv l ∧ lvB (ops.partial_fit_ab l X Y mt eps) = lvB l
  pfit_ab_st : ∀ l X Y,
    (⟨stB (ops.partial_fit_ab l X Y mt eps), st (ops.partial_fit_ab l X Y mt eps)⟩ : ArtmapState Wt Wt) =
    artmapPartialFit (lv l).K (lvB l).K (lv l).cfg (lvB l).cfg (lv l).th (lvB l).th ⟨stB l, st l⟩ X Y

variable {ops : LayerOps M L R ε} {lev : M → Level R Wt α μ θ} {mt : String} {eps : ε}
  {lv lvB : L → Level R Wt α μ θ} {st : L → SMapState Wt} {stB : L → ArtState Wt}

/-- **`validate_data(X, y)`** with labels passes exactly when the model's `ValidBatch` holds -/
theorem validate_data_sup (modules : List M) (X : List (List R)) (y : List Nat) :
    validate_data modules X (some y) = some () ↔ ValidBatch modules.length X y := by
  unfold validate_data ValidBatch
  simp only [bind, pure, n_modules_spec, Option.bind_some, pyAssert]
  by_cases h1 : X.length = modules.length
  · by_cases h2 : ∀ xs ∈ X, xs.length = y.length
    · have : (X.all fun x => decide ((x.length : Int) = (y.length : Int))) = true := by
        simp only [List.all_eq_true, decide_eq_true_eq]
        intro x hx; rw [h2 x hx]
      simpa [h1, this] using h2
    · have : ¬ (X.all fun x => decide ((x.length : Int) = (y.length : Int))) = true := by
        simp only [List.all_eq_true, decide_eq_true_eq]
        intro h; apply h2; intro x hx; have := h x hx; omega
      simpa [h1, this] using h2
  · have : ¬ ((X.length : Int) = (modules.length : Int)) := by omega
    simp [h1, this]

/-- **`validate_data(X, None)`** passes when the data matrices are as many as the modules and have equal row counts -/
theorem validate_data_unsup (modules : List M) (X0 : List R) (Xs : List (List R))
    (hl : (X0 :: Xs).length = modules.length) (hx : ∀ xs ∈ Xs, xs.length = X0.length) :
    validate_data modules (X0 :: Xs) none = some () := by
  unfold validate_data
  simp only [bind, pure, n_modules_spec, Option.bind_some, pyAssert, pyIndex_zero]
  have h1 : (((X0 :: Xs).length : Int) = (modules.length : Int)) := by omega
  have : ((X0 :: Xs).all fun x => decide ((x.length : Int) = (X0.length : Int))) = true := by
    simp only [List.all_eq_true, decide_eq_true_eq, List.mem_cons]
    intro x hx'
    rcases hx' with rfl | hx'
    · rfl
    · rw [hx x hx']
  simp only [List.getElem?_cons_zero, Option.bind_some, decide_eq_true h1, this, if_true]

/-- the chain of abstract layers trained by `fit` is the model's `chainFit` -/
theorem chainOps_fit (T : Tie ops lev mt eps lv lvB st stB) (ls : List L) (xs : List (List R)) (y : List Nat) :
    (chainOps (fun l x y => ops.fit l x y 1 mt eps) ops.labels_a ls xs y).map st = chainFit (ls.map lv) xs y := by
  induction ls generalizing xs y with
  | nil => simp [chainOps, chainFit]
  | cons l ls ih =>
    cases xs with
    | nil => simp [chainOps, chainFit]
    | cons x xs =>
      simp only [chainOps, chainFit, List.map_cons, T.fit_st, T.read.labels_a]
      rw [ih]
      rfl

theorem chainOps_fit_lv (T : Tie ops lev mt eps lv lvB st stB) (ls : List L) (xs : List (List R)) (y : List Nat)
    (h : ls.length ≤ xs.length) :
    (chainOps (fun l x y => ops.fit l x y 1 mt eps) ops.labels_a ls xs y).map lv = ls.map lv := by
  induction ls generalizing xs y with
  | nil => simp [chainOps]
  | cons l ls ih =>
    cases xs with
    | nil => simp at h
    | cons x xs => simp [chainOps, T.fit_lv, ih xs _ (by simpa using h)]

/-- the chain of abstract layers trained by `partial_fit` is the model's `chainPartialFit` -/
theorem chainOps_pfit (T : Tie ops lev mt eps lv lvB st stB) (n : Nat) (ls : List L) (xs : List (List R))
    (y : List Nat) :
    (chainOps (fun l x y => ops.partial_fit l x y mt eps) (fun l => pySliceFrom (ops.labels_a l) (-(n : Int)))
        ls xs y).map st = chainPartialFit n (ls.map lv) (ls.map st) xs y := by
  have hla : (fun l => pySliceFrom (ops.labels_a l) (-(n : Int))) = fun l => lastN n (st l).a.labels := by
    funext l; rw [T.read.labels_a, pySliceFrom_neg]
  rw [hla]
  induction ls generalizing xs y with
  | nil => simp [chainOps, chainPartialFit]
  | cons l ls ih =>
    cases xs with
    | nil => simp [chainOps, chainPartialFit]
    | cons x xs =>
      simp only [chainOps, chainPartialFit, List.map_cons, T.pfit_st]
      rw [ih]

theorem chainOps_pfit_lv (T : Tie ops lev mt eps lv lvB st stB) (n : Int) (ls : List L) (xs : List (List R))
    (y : List Nat) (h : ls.length ≤ xs.length) :
    (chainOps (fun l x y => ops.partial_fit l x y mt eps) (fun l => pySliceFrom (ops.labels_a l) n)
        ls xs y).map lv = ls.map lv := by
  induction ls generalizing xs y with
  | nil => simp [chainOps]
  | cons l ls ih =>
    cases xs with
    | nil => simp at h
    | cons x xs => simp [chainOps, T.pfit_lv, ih xs _ (by simpa using h)]

/-- **`DeepARTMAP.fit(X, y)`** with labels = the model's `deepFitSup` on the modules' levels: the call succeeds,
sets `is_supervised = True`, and every layer carries the model's state (and still the level of its module) -/
theorem fit_sup_spec (T : Tie ops lev mt eps lv lvB st stB) (modules : List M) (hne : modules ≠ [])
    (layers0 : List L) (is0 : Option Bool) (X : List (List R)) (y : List Nat)
    (hv : ValidBatch modules.length X y) :
    ∃ ls, Gen.DeepARTMAP.fit ops modules layers0 is0 X (some y) 1 mt eps = some (ls, some true) ∧
      ls.map st = deepFitSup (modules.map lev) X y ∧ ls.map lv = modules.map lev := by
  obtain ⟨m, ms, rfl⟩ : ∃ m ms, modules = m :: ms := by
    cases modules with
    | nil => exact absurd rfl hne
    | cons m ms => exact ⟨m, ms, rfl⟩
  obtain ⟨x, xs, rfl⟩ : ∃ x xs, X = x :: xs := by
    cases X with
    | nil => have := hv.1; simp at this
    | cons x xs => exact ⟨x, xs, rfl⟩
  have hlen : ms.length = xs.length := by have := hv.1; simp at this; omega
  have hmods := mapM_modules ops.mk_simple (m :: ms) 0 (by simp)
  simp only [List.drop_zero, List.map_cons] at hmods
  have hT : pyTruthy (some true) = true := rfl
  refine ⟨chainOps (fun l x y => ops.fit l x y 1 mt eps) ops.labels_a ((m :: ms).map ops.mk_simple) (x :: xs) y,
    ?_, ?_, ?_⟩
  · unfold Gen.DeepARTMAP.fit
    simp only [bind, pure, n_modules_spec, n_layers_spec, Option.bind_some, (validate_data_sup _ _ _).mpr hv]
    erw [hmods]
    simp only [Option.bind_some, pyIndex_zero, List.getElem?_cons_zero]
    have hs : ∀ v, pySet (ops.mk_simple m :: List.map ops.mk_simple ms) 0 v
        = some (v :: List.map ops.mk_simple ms) := by intro v; rfl
    simp only [hs, Option.bind_some, hT, if_true]
    have := fit_loop ops 1 mt eps (x :: xs) 0 0 rfl (ms.map ops.mk_simple) [] (ops.fit (ops.mk_simple m) x y 1 mt eps)
      xs 1 ((ops.fit (ops.mk_simple m) x y 1 mt eps :: ms.map ops.mk_simple).length : Int) (by simp)
      (by simp; omega) (by simp [hlen]) (by simp)
    simp only [List.nil_append] at this
    rw [this]
    simp [chainOps]
  · rw [chainOps_fit T]
    simp [deepFitSup, List.map_map, Function.comp_def, T.mk_simple_lv]
  · rw [chainOps_fit_lv T _ _ _ (by simp [hlen])]
    simp [List.map_map, Function.comp_def, T.mk_simple_lv]

/-- `partial_fit` on an estimator without layers first builds fresh SimpleARTMAP layers -/
theorem partial_fit_fresh_sup (modules : List M) (hne : modules ≠ []) (is0 : Option Bool) (X : List (List R))
    (y : List Nat) :
    Gen.DeepARTMAP.partial_fit ops modules [] is0 X (some y) mt eps =
      Gen.DeepARTMAP.partial_fit ops modules (modules.map ops.mk_simple) (some true) X (some y) mt eps := by
  have hmods := mapM_modules ops.mk_simple modules 0 (by simp)
  simp only [List.drop_zero] at hmods
  have hd1 : decide (((([] : List L).length : Int)) = 0) = true := by simp
  have hd2 : decide ((((modules.map ops.mk_simple).length : Int)) = 0) = false := by simpa using hne
  unfold Gen.DeepARTMAP.partial_fit
  simp only [bind, pure, n_modules_spec, Option.bind_some, hd1, hd2, if_true, Bool.false_eq_true, if_false]
  erw [hmods]
  rfl

/-- `partial_fit(X, y)` with labels on existing supervised layers whose levels are the modules' -/
theorem partial_fit_sup_core (T : Tie ops lev mt eps lv lvB st stB) (modules : List M) (layers : List L)
    (hlv : layers.map lv = modules.map lev) (hne : modules ≠ []) (X : List (List R)) (y : List Nat)
    (hv : ValidBatch modules.length X y) :
    ∃ ls, Gen.DeepARTMAP.partial_fit ops modules layers (some true) X (some y) mt eps = some (ls, some true) ∧
      ls.map st = chainPartialFit (batchSize X) (modules.map lev) (layers.map st) X y ∧
      ls.map lv = modules.map lev := by
  have hll : layers.length = modules.length := by simpa using congrArg List.length hlv
  obtain ⟨l0, ls, rfl⟩ : ∃ l0 ls, layers = l0 :: ls := by
    cases layers with
    | nil => exact absurd (List.eq_nil_of_length_eq_zero (by simpa using hll.symm)) hne
    | cons l0 ls => exact ⟨l0, ls, rfl⟩
  obtain ⟨x, xs, rfl⟩ : ∃ x xs, X = x :: xs := by
    cases X with
    | nil => have := hv.1; rw [← hll] at this; simp at this
    | cons x xs => exact ⟨x, xs, rfl⟩
  have hlen : ls.length = xs.length := by have := hv.1; rw [← hll] at this; simp at this; omega
  have hT : pyTruthy (some true) = true := rfl
  have hd : decide ((((l0 :: ls).length : Int)) = 0) = false := by simp; omega
  refine ⟨chainOps (fun l x y => ops.partial_fit l x y mt eps)
    (fun l => pySliceFrom (ops.labels_a l) (-(x.length : Int))) (l0 :: ls) (x :: xs) y, ?_, ?_, ?_⟩
  · unfold Gen.DeepARTMAP.partial_fit
    simp only [bind, pure, n_layers_spec, Option.bind_some, (validate_data_sup _ _ _).mpr hv, hd,
      Bool.false_eq_true, if_false, hT, pyAssert, if_true, pyIndex_zero, List.getElem?_cons_zero]
    have hs : ∀ v, pySet (l0 :: ls) 0 v = some (v :: ls) := by intro v; rfl
    simp only [hs, Option.bind_some]
    obtain ⟨xj, hxj⟩ := pfit_loop ops mt eps (x :: xs) (-(x.length : Int)) 0 ls []
      (ops.partial_fit l0 x y mt eps) xs 1 ((ops.partial_fit l0 x y mt eps :: ls).length : Int) 1
      (by simp) (by simp; omega) (by simp) (by simp [hlen]) (by simp)
    simp only [List.nil_append] at hxj
    rw [hxj]
    simp [chainOps]
  · rw [chainOps_pfit T, hlv]
    simp [batchSize]
  · rw [chainOps_pfit_lv T _ _ _ _ (by simp [hlen]), hlv]

/-- **`DeepARTMAP.partial_fit(X, y)`** with labels = the model's `deepPartialFitSup`: on an estimator without
layers, or on supervised layers built from these modules -/
theorem partial_fit_sup_spec (T : Tie ops lev mt eps lv lvB st stB) (modules : List M) (hne : modules ≠ [])
    (layers : List L) (is0 : Option Bool)
    (hst : layers = [] ∨ (layers.map lv = modules.map lev ∧ is0 = some true))
    (X : List (List R)) (y : List Nat) (hv : ValidBatch modules.length X y) :
    ∃ ls, Gen.DeepARTMAP.partial_fit ops modules layers is0 X (some y) mt eps = some (ls, some true) ∧
      ls.map st = deepPartialFitSup (modules.map lev) (layers.map st) X y ∧ ls.map lv = modules.map lev := by
  rcases hst with rfl | ⟨hlv, rfl⟩
  · rw [partial_fit_fresh_sup modules hne]
    obtain ⟨ls, h1, h2, h3⟩ := partial_fit_sup_core T modules (modules.map ops.mk_simple)
      (by simp [List.map_map, Function.comp_def, T.mk_simple_lv]) hne X y hv
    refine ⟨ls, h1, ?_, h3⟩
    rw [h2]
    simp only [deepPartialFitSup, List.map_nil, List.isEmpty_nil, if_true, List.length_map, List.map_map]
    congr 1
    rw [List.eq_replicate_iff]
    simp [T.mk_simple_st]
  · obtain ⟨ls, h1, h2, h3⟩ := partial_fit_sup_core T modules layers hlv hne X y hv
    refine ⟨ls, h1, ?_, h3⟩
    rw [h2]
    have : (layers.map st).isEmpty = false := by
      have hll : layers.length = modules.length := by simpa using congrArg List.length hlv
      cases layers with
      | nil => exact absurd (List.eq_nil_of_length_eq_zero (by simpa using hll.symm)) hne
      | cons a b => rfl
    simp [deepPartialFitSup, this]

/-! #### unsupervised: an ARTMAP layer on `modules[1]` / `modules[0]`, then the chain on `modules[2:]` -/

/-- **`DeepARTMAP.fit(X)`** without labels = the model's `deepFitUnsup` on the modules' levels: the call succeeds,
sets `is_supervised = False`; layer 0 (the ARTMAP) carries the model's `top`, the other layers the model's `rest` -/
theorem fit_unsup_spec (T : Tie ops lev mt eps lv lvB st stB) (m0 m1 : M) (ms : List M)
    (layers0 : List L) (is0 : Option Bool) (x0 x1 : List R) (xs : List (List R))
    (hlen : xs.length = ms.length) (hx : ∀ z ∈ x1 :: xs, z.length = x0.length) :
    ∃ top ls, Gen.DeepARTMAP.fit ops (m0 :: m1 :: ms) layers0 is0 (x0 :: x1 :: xs) none 1 mt eps
        = some (top :: ls, some false) ∧
      deepFitUnsup ((m0 :: m1 :: ms).map lev) (x0 :: x1 :: xs) = some ⟨⟨stB top, st top⟩, ls.map st⟩ ∧
      lv top = lev m1 ∧ lvB top = lev m0 ∧ ls.map lv = ms.map lev := by
  have hmods := mapM_modules ops.mk_simple (m0 :: m1 :: ms) 2 (by simp)
  simp only [List.drop_succ_cons, List.drop_zero] at hmods
  have hT : pyTruthy (some false) = false := rfl
  have hge : decide (((m0 :: m1 :: ms).length : Int) ≥ 2) = true := by simp; omega
  have hval := validate_data_unsup (m0 :: m1 :: ms) x0 (x1 :: xs) (by simp [hlen]) hx
  refine ⟨ops.fit_ab (ops.mk_artmap m1 m0) x1 x0 1 mt eps,
    chainOps (fun l x y => ops.fit l x y 1 mt eps) ops.labels_a (ms.map ops.mk_simple) xs
      (ops.labels_a (ops.fit_ab (ops.mk_artmap m1 m0) x1 x0 1 mt eps)), ?_, ?_, ?_, ?_, ?_⟩
  · unfold Gen.DeepARTMAP.fit
    simp only [bind, pure, n_modules_spec, n_layers_spec, Option.bind_some, hval, hge, pyAssert, if_true,
      pyIndex_one, pyIndex_zero, List.getElem?_cons_succ, List.getElem?_cons_zero]
    erw [hmods]
    simp only [Option.bind_some, List.cons_append, List.nil_append, List.getElem?_cons_zero]
    have hs : ∀ v, pySet (ops.mk_artmap m1 m0 :: List.map ops.mk_simple ms) 0 v
        = some (v :: List.map ops.mk_simple ms) := by intro v; rfl
    simp only [hs, Option.bind_some, hT, Bool.false_eq_true, if_false]
    have := fit_loop ops 1 mt eps (x0 :: x1 :: xs) 1 1 rfl (ms.map ops.mk_simple) []
      (ops.fit_ab (ops.mk_artmap m1 m0) x1 x0 1 mt eps) xs 1
      ((ops.fit_ab (ops.mk_artmap m1 m0) x1 x0 1 mt eps :: ms.map ops.mk_simple).length : Int) (by simp)
      (by simp; omega) (by simp [hlen]) (by simp)
    simp only [List.nil_append] at this
    rw [this]
    rfl
  · have htop := T.fit_ab_st (ops.mk_artmap m1 m0) x1 x0
    rw [(T.mk_artmap_lv m1 m0).1, (T.mk_artmap_lv m1 m0).2, (T.mk_artmap_st m1 m0).1,
      (T.mk_artmap_st m1 m0).2] at htop
    simp only [List.map_cons, deepFitUnsup]
    congr 2
    · rw [htop]
    · rw [chainOps_fit T, T.read.labels_a]
      have : st (ops.fit_ab (ops.mk_artmap m1 m0) x1 x0 1 mt eps) =
          (artmapFit (lev m1).K (lev m0).K (lev m1).cfg (lev m0).cfg (lev m1).th (lev m0).th
            ({} : ArtmapState Wt Wt) x1 x0).s := by
        have := congrArg ArtmapState.s htop
        exact this
      rw [this]
      simp [List.map_map, Function.comp_def, T.mk_simple_lv]
  · rw [(T.fit_ab_lv _ _ _).1, (T.mk_artmap_lv m1 m0).1]
  · rw [(T.fit_ab_lv _ _ _).2, (T.mk_artmap_lv m1 m0).2]
  · rw [chainOps_fit_lv T _ _ _ (by simp [hlen])]
    simp [List.map_map, Function.comp_def, T.mk_simple_lv]

/-- unsupervised `partial_fit` on an estimator without layers first builds the ARTMAP and fresh SimpleARTMAP layers -/
theorem partial_fit_fresh_unsup (m0 m1 : M) (ms : List M) (is0 : Option Bool) (X : List (List R)) :
    Gen.DeepARTMAP.partial_fit ops (m0 :: m1 :: ms) [] is0 X none mt eps =
      Gen.DeepARTMAP.partial_fit ops (m0 :: m1 :: ms) (ops.mk_artmap m1 m0 :: ms.map ops.mk_simple) (some false) X none
        mt eps := by
  have hmods := mapM_modules ops.mk_simple (m0 :: m1 :: ms) 2 (by simp)
  simp only [List.drop_succ_cons, List.drop_zero] at hmods
  have hd1 : decide (((([] : List L).length : Int)) = 0) = true := by simp
  have hd2 : decide ((((ops.mk_artmap m1 m0 :: ms.map ops.mk_simple).length : Int)) = 0) = false := by
    simp; omega
  have hge : decide (((m0 :: m1 :: ms).length : Int) ≥ 2) = true := by simp; omega
  unfold Gen.DeepARTMAP.partial_fit
  simp only [bind, pure, n_modules_spec, Option.bind_some, hd1, hd2, if_true, Bool.false_eq_true, if_false, hge,
    pyAssert, pyIndex_one, pyIndex_zero, List.getElem?_cons_succ, List.getElem?_cons_zero]
  erw [hmods]
  rfl

/-- `partial_fit(X)` without labels on existing unsupervised layers whose levels are the modules' -/
theorem partial_fit_unsup_core (T : Tie ops lev mt eps lv lvB st stB) (m0 m1 : M) (ms : List M)
    (top : L) (ls : List L) (hlv : lv top = lev m1) (hlvB : lvB top = lev m0) (hls : ls.map lv = ms.map lev)
    (x0 x1 : List R) (xs : List (List R)) (hlen : xs.length = ms.length)
    (hx : ∀ z ∈ x1 :: xs, z.length = x0.length) :
    ∃ top' ls', Gen.DeepARTMAP.partial_fit ops (m0 :: m1 :: ms) (top :: ls) (some false) (x0 :: x1 :: xs) none mt eps
        = some (top' :: ls', some false) ∧
      deepPartialFitUnsup ((m0 :: m1 :: ms).map lev) (some ⟨⟨stB top, st top⟩, ls.map st⟩) (x0 :: x1 :: xs)
        = some ⟨⟨stB top', st top'⟩, ls'.map st⟩ ∧
      lv top' = lev m1 ∧ lvB top' = lev m0 ∧ ls'.map lv = ms.map lev := by
  have hll : ls.length = ms.length := by simpa using congrArg List.length hls
  have hT : pyTruthy (some false) = false := rfl
  have hd : decide ((((top :: ls).length : Int)) = 0) = false := by simp; omega
  have hval := validate_data_unsup (m0 :: m1 :: ms) x0 (x1 :: xs) (by simp [hlen]) hx
  refine ⟨ops.partial_fit_ab top x1 x0 mt eps,
    chainOps (fun l x y => ops.partial_fit l x y mt eps) (fun l => pySliceFrom (ops.labels_a l) (-(x0.length : Int)))
      ls xs (pySliceFrom (ops.labels_a (ops.partial_fit_ab top x1 x0 mt eps)) (-(x0.length : Int))),
    ?_, ?_, ?_, ?_, ?_⟩
  · unfold Gen.DeepARTMAP.partial_fit
    simp only [bind, pure, n_layers_spec, Option.bind_some, hval, hd, Bool.false_eq_true, if_false, hT, pyAssert,
      Bool.not_false, if_true, pyIndex_zero, pyIndex_one, List.getElem?_cons_succ, List.getElem?_cons_zero]
    have hs : ∀ v, pySet (top :: ls) 0 v = some (v :: ls) := by intro v; rfl
    simp only [hs, Option.bind_some]
    obtain ⟨xj, hxj⟩ := pfit_loop ops mt eps (x0 :: x1 :: xs) (-(x0.length : Int)) 1 ls []
      (ops.partial_fit_ab top x1 x0 mt eps) xs 1 ((ops.partial_fit_ab top x1 x0 mt eps :: ls).length : Int) 2
      (by simp) (by simp; omega) (by simp) (by simp [hlen, hll]) (by simp)
    simp only [List.nil_append] at hxj
    rw [hxj]
    rfl
  · have htop := T.pfit_ab_st top x1 x0
    rw [hlv, hlvB] at htop
    have hst' : st (ops.partial_fit_ab top x1 x0 mt eps) =
        (artmapPartialFit (lev m1).K (lev m0).K (lev m1).cfg (lev m0).cfg (lev m1).th (lev m0).th
          ⟨stB top, st top⟩ x1 x0).s := by
      have := congrArg ArtmapState.s htop
      simpa using this
    simp only [List.map_cons, deepPartialFitUnsup, Option.getD_some]
    congr 2
    · rw [htop]
    · rw [chainOps_pfit T, T.read.labels_a, pySliceFrom_neg, hls, hst']
  · rw [(T.pfit_ab_lv _ _ _).1, hlv]
  · rw [(T.pfit_ab_lv _ _ _).2, hlvB]
  · rw [chainOps_pfit_lv T _ _ _ _ (by simp [hlen, hll]), hls]

/-- **`DeepARTMAP.partial_fit(X)`** without labels = the model's `deepPartialFitUnsup`: on an estimator without
layers (`st = none`), or on unsupervised layers built from these modules -/
theorem partial_fit_unsup_spec (T : Tie ops lev mt eps lv lvB st stB) (m0 m1 : M) (ms : List M)
    (layers : List L) (is0 : Option Bool) (d : Option (DeepUnsup Wt))
    (hst : (layers = [] ∧ d = none) ∨
      (∃ top ls, layers = top :: ls ∧ is0 = some false ∧ d = some ⟨⟨stB top, st top⟩, ls.map st⟩ ∧
        lv top = lev m1 ∧ lvB top = lev m0 ∧ ls.map lv = ms.map lev))
    (x0 x1 : List R) (xs : List (List R)) (hlen : xs.length = ms.length)
    (hx : ∀ z ∈ x1 :: xs, z.length = x0.length) :
    ∃ top' ls', Gen.DeepARTMAP.partial_fit ops (m0 :: m1 :: ms) layers is0 (x0 :: x1 :: xs) none mt eps
        = some (top' :: ls', some false) ∧
      deepPartialFitUnsup ((m0 :: m1 :: ms).map lev) d (x0 :: x1 :: xs) = some ⟨⟨stB top', st top'⟩, ls'.map st⟩ ∧
      lv top' = lev m1 ∧ lvB top' = lev m0 ∧ ls'.map lv = ms.map lev := by
  rcases hst with ⟨rfl, rfl⟩ | ⟨top, ls, rfl, rfl, rfl, hlv, hlvB, hls⟩
  · rw [partial_fit_fresh_unsup]
    obtain ⟨top', ls', h1, h2, h3⟩ := partial_fit_unsup_core T m0 m1 ms (ops.mk_artmap m1 m0)
      (ms.map ops.mk_simple) (T.mk_artmap_lv m1 m0).1 (T.mk_artmap_lv m1 m0).2
      (by simp [List.map_map, Function.comp_def, T.mk_simple_lv]) x0 x1 xs hlen hx
    refine ⟨top', ls', h1, ?_, h3⟩
    rw [← h2]
    have e : (⟨⟨stB (ops.mk_artmap m1 m0), st (ops.mk_artmap m1 m0)⟩, (ms.map ops.mk_simple).map st⟩ : DeepUnsup Wt)
        = { top := {}, rest := List.replicate ms.length {} } := by
      rw [(T.mk_artmap_st m1 m0).1, (T.mk_artmap_st m1 m0).2]
      congr 1
      rw [List.eq_replicate_iff]
      simp [T.mk_simple_st]
    rw [e]
    simp only [List.map_cons, deepPartialFitUnsup, Option.getD_some, Option.getD_none, List.length_map]
  · exact partial_fit_unsup_core T m0 m1 ms top ls hlv hlvB hls x0 x1 xs hlen hx

/-! #### SMART: the same data matrix for every module -/

/-- **`SMART.fit(X)`** = the model's `smartFit`, for modules that differ only in their vigilance -/
theorem smart_fit_spec (T : Tie ops lev mt eps lv lvB st stB) (m0 m1 : M) (ms : List M)
    (layers0 : List L) (is0 : Option Bool) (xs : List R) (y0 : Option (List Nat))
    (K : Kernel R Wt α μ) (cfg : SearchCfg μ θ) (rhos : List θ)
    (hlev : (m0 :: m1 :: ms).map lev = smartLevels K cfg rhos) :
    ∃ top ls, SMART_fit ops (m0 :: m1 :: ms) layers0 is0 xs y0 1 mt eps = some (top :: ls, some false) ∧
      smartFit K cfg rhos xs = some ⟨⟨stB top, st top⟩, ls.map st⟩ := by
  have hr : rhos.length = ms.length + 2 := by
    have := congrArg List.length hlev
    simp [smartLevels] at this; omega
  obtain ⟨top, ls, h1, h2, _⟩ := fit_unsup_spec T m0 m1 ms layers0 is0 xs xs (List.replicate ms.length xs)
    (by simp) (by intro z hz; simp only [List.mem_cons, List.mem_replicate] at hz; rcases hz with rfl | ⟨_, rfl⟩ <;> rfl)
  refine ⟨top, ls, ?_, ?_⟩
  · unfold SMART_fit
    simp only [bind, n_modules_spec, Option.bind_some, pyRepeat_singleton, List.length_cons,
      List.replicate_succ]
    exact h1
  · rw [smartFit, ← hlev, hr]
    simpa [List.replicate_succ] using h2

/-- **`SMART.partial_fit(X)`** = the model's `smartPartialFit` -/
theorem smart_partial_fit_spec (T : Tie ops lev mt eps lv lvB st stB) (m0 m1 : M) (ms : List M)
    (layers : List L) (is0 : Option Bool) (d : Option (DeepUnsup Wt))
    (hst : (layers = [] ∧ d = none) ∨
      (∃ top ls, layers = top :: ls ∧ is0 = some false ∧ d = some ⟨⟨stB top, st top⟩, ls.map st⟩ ∧
        lv top = lev m1 ∧ lvB top = lev m0 ∧ ls.map lv = ms.map lev))
    (xs : List R) (y0 : Option (List Nat))
    (K : Kernel R Wt α μ) (cfg : SearchCfg μ θ) (rhos : List θ)
    (hlev : (m0 :: m1 :: ms).map lev = smartLevels K cfg rhos) :
    ∃ top' ls', SMART_partial_fit ops (m0 :: m1 :: ms) layers is0 xs y0 mt eps = some (top' :: ls', some false) ∧
      smartPartialFit K cfg rhos d xs = some ⟨⟨stB top', st top'⟩, ls'.map st⟩ ∧
      lv top' = lev m1 ∧ lvB top' = lev m0 ∧ ls'.map lv = ms.map lev := by
  have hr : rhos.length = ms.length + 2 := by
    have := congrArg List.length hlev
    simp [smartLevels] at this; omega
  obtain ⟨top', ls', h1, h2, h3⟩ := partial_fit_unsup_spec T m0 m1 ms layers is0 d hst xs xs
    (List.replicate ms.length xs) (by simp)
    (by intro z hz; simp only [List.mem_cons, List.mem_replicate] at hz; rcases hz with rfl | ⟨_, rfl⟩ <;> rfl)
  refine ⟨top', ls', ?_, ?_, h3⟩
  · unfold SMART_partial_fit
    simp only [bind, n_modules_spec, Option.bind_some, pyRepeat_singleton, List.length_cons,
      List.replicate_succ]
    exact h1
  · rw [smartPartialFit, ← hlev, hr]
    simpa [List.replicate_succ] using h2

end Train

/-! ### the C12 property theorems, transported to the generated code -/
section Transport
variable {M L R ε Wt α μ θ : Type} [LinearOrder α]
variable {ops : LayerOps M L R ε} {K : L → Kernel R Wt α μ} {st : L → SMapState Wt}

/-- **the generated `labels_deep_` describes a tree** (transport of `C12.deep_nested`): in a hierarchy in good
standing the call succeeds with one row per sample, and two samples (rows `i`, `j`) that share the label of the finer
level `l + 1` share the label of the coarser level `l`, for every layer `l`. -/
theorem gen_deep_nested (T : ReadTie ops K st) (layers : List L) (h : DeepInv (layers.map st))
    (top : L) (htop : layers[0]? = some top) :
    ∃ rows, labels_deep_ ops layers = some rows ∧ rows.length = (ops.labels_ top).length ∧
      ∀ (l : Nat), l < layers.length → ∀ (i j : Nat) (ri rj : List Nat), rows[i]? = some ri → rows[j]? = some rj →
        ri[l + 1]? = rj[l + 1]? → ri[l]? = rj[l]? := by
  obtain ⟨rows, hrows, hlen⟩ := labels_deep_some T layers h top htop
  refine ⟨rows, hrows, by rw [hlen, T.labels_], ?_⟩
  intro l hl i j ri rj hi hj
  have hne : layers.map st ≠ [] := by intro e; rw [List.map_eq_nil_iff] at e; rw [e] at htop; simp at htop
  have hcl := labelsDeep_length (layers.map st) hne
  simp only [List.length_map] at hcl
  obtain ⟨cc, hcc⟩ : ∃ cc, (labelsDeep (layers.map st))[l]? = some cc :=
    ⟨(labelsDeep (layers.map st))[l]'(by omega), List.getElem?_eq_getElem (by omega)⟩
  obtain ⟨cf, hcf⟩ : ∃ cf, (labelsDeep (layers.map st))[l + 1]? = some cf :=
    ⟨(labelsDeep (layers.map st))[l + 1]'(by omega), List.getElem?_eq_getElem (by omega)⟩
  rw [labels_deep_rows T layers rows hrows i ri hi, labels_deep_rows T layers rows hrows j rj hj,
    labels_deep_rows T layers rows hrows i ri hi, labels_deep_rows T layers rows hrows j rj hj, hcc, hcf]
  simp only [Option.bind_some]
  exact (Art.C12.deep_nested h l cc cf hcc hcf).2 i j

/-- **the generated `map_deep` is consistent** (transport of `C12.map_deep_consistent`): for every level in
`-n_layers ≤ level < n_layers` and enough fuel, `map_deep(level, ·)` carries the `labels_a` of the layer at that
level to the `labels_` of layer 0 — the top-level labels of the same samples. -/
theorem gen_map_deep_consistent (T : ReadTie ops K st) (layers : List L) (h : DeepInv (layers.map st))
    (fuel : Nat) (hf : layers.length < fuel) (level : Int)
    (hlo : -(layers.length : Int) ≤ level) (hhi : level < layers.length)
    (l top : L) (hl : layers[Art.C12.normLevel layers.length level]? = some l) (htop : layers[0]? = some top) :
    map_deep ops layers fuel level (ops.labels_a l) = some (ops.labels_ top) := by
  rw [map_deep_spec T layers fuel level _ hlo hf, T.labels_a, T.labels_]
  have hl' : (layers.map st)[Art.C12.normLevel (layers.map st).length level]? = some (st l) := by
    simp [hl]
  have htop' : (layers.map st)[0]? = some (st top) := by simp [htop]
  exact Art.C12.map_deep_consistent h level (by simpa using hlo) (by simpa using hhi) _ _
    (labelsDeep_getElem?_labelsA h _ _ hl') (labelsDeep_getElem?_labelsB _ 0 _ htop')

/-- **the generated `predict` returns nested label vectors** (transport of `C12.predict_nested`): one vector per
level, one label per query, and two queries that share the predicted label at level `l + 1` share it at level `l`. -/
theorem gen_predict_nested (T : ReadTie ops K st) (layers : List L) (h : DeepInv (layers.map st))
    (last : L) (hlast : layers.getLast? = some last) (hne : (st last).a.W ≠ []) (xs : List R) :
    ∃ cols, Gen.DeepARTMAP.predict ops layers (Sum.inl xs) = some cols ∧ cols.length = layers.length + 1 ∧
      (∀ p ∈ cols, p.length = xs.length) ∧
      ∀ (l : Nat), l < layers.length → ∃ pf pc, cols[l + 1]? = some pf ∧ cols[l]? = some pc ∧
        ∀ i j : Nat, pf[i]? = pf[j]? → pc[i]? = pc[j]? := by
  have hl : (layers.map st).getLast? = some (st last) := by simp [List.getLast?_map, hlast]
  obtain ⟨cols, h1, h2, h3, h4, _⟩ := Art.C12.predict_nested (K last) h (st last) hl hne xs
  refine ⟨cols, by rw [predict_spec T, hlast]; exact h1, by simpa using h2, h3, ?_⟩
  intro l hlt
  obtain ⟨pf, pc, a, b, _, d⟩ := h4 l (st (layers[l]'hlt)) (by simp [List.getElem?_eq_getElem hlt])
  exact ⟨pf, pc, a, b, d⟩

variable {lev : M → Level R Wt α μ θ} {mt : String} {eps : ε}
  {lv lvB : L → Level R Wt α μ θ} {stB : L → ArtState Wt}

/-- **the generated supervised `fit` leaves the hierarchy in good standing** (transport of `deepFitSup_inv`, the
`fit` case of `C12.deep_layer_inv`): all of the above applies to the layers it returns. -/
theorem gen_fit_sup_inv (T : Tie ops lev mt eps lv lvB st stB) (modules : List M) (hne : modules ≠ [])
    (layers0 : List L) (is0 : Option Bool) (X : List (List R)) (y : List Nat)
    (hv : ValidBatch modules.length X y) :
    ∃ ls, Gen.DeepARTMAP.fit ops modules layers0 is0 X (some y) 1 mt eps = some (ls, some true) ∧
      DeepInv (ls.map st) ∧ ls.length = modules.length := by
  obtain ⟨ls, h1, h2, h3⟩ := fit_sup_spec T modules hne layers0 is0 X y hv
  refine ⟨ls, h1, ?_, by simpa using congrArg List.length h3⟩
  rw [h2]
  exact deepFitSup_inv _ X y hv.2

end Transport

/-! ### the hypotheses are satisfiable, and the generated code runs: a layer object is the model state itself, with
the levels of its modules attached.  Three levels, a 1-D "nearest centre" kernel on ℤ (match value −distance),
vigilance ladder −4 < −1 < 0, as in the non-vacuity section of `ArtProps/C12.lean`. -/
section Example

abbrev ExLv := Level Int Int Int Int Int

structure ExLayer where
  lv : ExLv
  lvB : ExLv
  s : ArtmapState Int Int

def exOps : LayerOps ExLv ExLayer Int Unit :=
  { mk_simple := fun m => ⟨m, m, {}⟩
    mk_artmap := fun a b => ⟨a, b, {}⟩
    fit := fun l X y _ _ _ => { l with s := { l.s with s := smapFit l.lv.K l.lv.cfg l.lv.th l.s.s (X.zip y) } }
    fit_ab := fun l X Y _ _ _ =>
      { l with s := artmapFit l.lv.K l.lvB.K l.lv.cfg l.lvB.cfg l.lv.th l.lvB.th l.s X Y }
    partial_fit := fun l X y _ _ =>
      { l with s := { l.s with s := smapPartialFit l.lv.K l.lv.cfg l.lv.th l.s.s (X.zip y) } }
    partial_fit_ab := fun l X Y _ _ =>
      { l with s := artmapPartialFit l.lv.K l.lvB.K l.lv.cfg l.lvB.cfg l.lv.th l.lvB.th l.s X Y }
    labels_ := fun l => l.s.s.labelsB
    labels_a := fun l => l.s.s.a.labels
    map_a2b := fun l ya => mapA2B? l.s.s.map ya
    predict_ab := fun l xs =>
      (xs.mapM (smapStepPred l.lv.K l.s.s)).map (fun ab => (ab.map (·.1), ab.map (·.2))) }

theorem exTie : Tie exOps id "MT+" () (·.lv) (·.lvB) (·.s.s) (·.s.b) :=
  { read := ⟨fun _ => rfl, fun _ => rfl, fun _ _ => rfl, fun _ _ => rfl⟩
    mk_simple_lv := fun _ => rfl
    mk_simple_st := fun _ => rfl
    mk_artmap_lv := fun _ _ => ⟨rfl, rfl⟩
    mk_artmap_st := fun _ _ => ⟨rfl, rfl⟩
    fit_lv := fun _ _ _ => rfl
    fit_st := fun _ _ _ => rfl
    pfit_lv := fun _ _ _ => rfl
    pfit_st := fun _ _ _ => rfl
    fit_ab_lv := fun _ _ _ => ⟨rfl, rfl⟩
    fit_ab_st := fun _ _ _ => rfl
    pfit_ab_lv := fun _ _ _ => ⟨rfl, rfl⟩
    pfit_ab_st := fun _ _ _ => rfl }

def exK : Kernel Int Int Int Int :=
  { choice := fun _ x w => some (-(x - w).natAbs), matchv := fun x w => -(x - w).natAbs,
    update := fun _ w => w, newW := fun x => x }
def exCfg : SearchCfg Int Int := scalarCfg .plus false (· + 1) (· - 1) 1000
def exMods : List ExLv := [⟨exK, exCfg, -4⟩, ⟨exK, exCfg, -1⟩, ⟨exK, exCfg, 0⟩]
def exX : List Int := [0, 1, 3, 10, 11]

/-- the generated supervised `fit`, run on an estimator without layers -/
def exSup : List ExLayer :=
  ((Gen.DeepARTMAP.fit exOps exMods [] none [exX, exX, exX] (some [0, 0, 1, 1, 1]) 1 "MT+" ()).map (·.1)).getD []

example : (Gen.DeepARTMAP.fit exOps exMods [] none [exX, exX, exX] (some [0, 0, 1, 1, 1]) 1 "MT+" ()).map (·.2)
    = some (some true) := by decide +kernel
-- the rows of labels_deep_: classes, then three finer and finer clusterings
example : labels_deep_ exOps exSup =
    some [[0, 0, 0, 0], [0, 0, 0, 1], [1, 1, 1, 2], [1, 2, 2, 3], [1, 2, 2, 4]] := by decide +kernel
example : n_layers exSup = some 3 := by decide +kernel
example : map_deep exOps exSup 4 (-1) [0, 1, 2, 3, 4] = some [0, 0, 1, 1, 1] := by decide +kernel
example : map_deep exOps exSup 4 2 [3] = some [1] := by decide +kernel
example : map_deep exOps exSup 4 3 [3] = none := by decide +kernel
example : Gen.DeepARTMAP.predict exOps exSup (Sum.inl [2, 12]) = some [[0, 1], [0, 2], [0, 2], [1, 4]] := by
  decide +kernel
example : Gen.DeepARTMAP.predict exOps exSup (Sum.inr [[5], [2, 12]]) = some [[0, 1], [0, 2], [0, 2], [1, 4]] := by
  decide +kernel
-- a data matrix too few / labels of another length: validate_data raises
example : Gen.DeepARTMAP.fit exOps exMods [] none [exX, exX] (some [0, 0, 1, 1, 1]) 1 "MT+" () = none := by
  decide +kernel
example : Gen.DeepARTMAP.fit exOps exMods [] none [exX, exX, exX] (some [0, 0, 1, 1]) 1 "MT+" () = none := by
  decide +kernel
-- two partial_fit batches (2 + 3 samples) give the layers of fit
def exTwo : Option (List ExLayer × Option Bool) :=
  (Gen.DeepARTMAP.partial_fit exOps exMods [] none [[0, 1], [0, 1], [0, 1]] (some [0, 0]) "MT+" ()).bind
    (fun r => Gen.DeepARTMAP.partial_fit exOps exMods r.1 r.2 [[3, 10, 11], [3, 10, 11], [3, 10, 11]]
      (some [1, 1, 1]) "MT+" ())
example : exTwo.map (fun r => r.1.map (fun l => l.s.s.a.W)) = some (exSup.map (fun l => l.s.s.a.W)) := by
  decide +kernel
example : exTwo.map (fun r => r.1.map (fun l => l.s.s.a.labels)) = some (exSup.map (fun l => l.s.s.a.labels)) := by
  decide +kernel
example : exTwo.map (fun r => r.1.map (fun l => l.s.s.map)) = some (exSup.map (fun l => l.s.s.map)) := by
  decide +kernel
example : exTwo.map (·.2) = some (some true) := by decide +kernel
-- labels after unsupervised layers exist: partial_fit asserts
example : (Gen.DeepARTMAP.partial_fit exOps exMods exSup (some false) [exX, exX, exX] (some [0, 0, 1, 1, 1]) "MT+" ())
    = none := by decide +kernel
-- SMART / unsupervised on the same data: 3 modules = 2 layers, 3 columns
example : ((SMART_fit exOps exMods [] none exX none 1 "MT+" ()).bind (fun r => labels_deep_ exOps r.1)) =
    some [[0, 0, 0], [0, 0, 1], [0, 1, 2], [1, 2, 3], [1, 2, 4]] := by decide +kernel
example : ((SMART_partial_fit exOps exMods [] none exX none "MT+" ()).bind (fun r => labels_deep_ exOps r.1)) =
    some [[0, 0, 0], [0, 0, 1], [0, 1, 2], [1, 2, 3], [1, 2, 4]] := by decide +kernel
-- one module only: unsupervised fit asserts n_modules >= 2
example : SMART_fit exOps [⟨exK, exCfg, -4⟩] [] none exX none 1 "MT+" () = none := by decide +kernel

end Example

end Art.GenSpec.Deep
