/-
ArtGenProofs.FalconSpec — FALCON / TD-FALCON (`artlib/reinforcement/FALCON.py`) and the complement-coding helpers of
`artlib/common/utils.py`, as translated from the Python source by `harness/artv/rtrans.py` (ArtGen/Falcon.lean),
compute the definitions of `ArtModel/Falcon.lean` that the C16 property theorems are stated about — for all array
lengths, all states of the nested estimator, all action spaces.  The nested FusionART is an abstract object
(`FusionOps`); what is assumed of it is the structure `Tie` (its `join_channel_data` / `fit` / `partial_fit` /
`predict` / `get_channel_centers` / `modules[k].prepare_data` are the FusionART model's, with three channels);
`exTie` shows the assumptions satisfiable and the section `Example` runs the generated code over ℚ.

  npArgmax_eq / npArgmin_eq        the numpy scans of ImpFalcon = the model's argmaxFirst / argminFirst
  compliment_code_col              compliment_code of an (n,1) array = rows [t, 1 - t]  (ccScalar)
  de_compliment_code_eq            de_compliment_code of width-2 rows = the (n,1) array of deccScalar
  falcon_fit_spec / falcon_partial_fit_spec     fit / partial_fit = falconFit / falconPartialFit
  get_rewards_spec                 get_rewards = allSome (getRewards …)
  get_actions_and_rewards_spec     = (actionSpace …, allSome (actionRewards …))
  get_action_spec                  get_action … optimality = getAction … (optimality == "max")
  calculate_SARSA_spec             calculate_SARSA = calcSarsa, for any scalar Q that get_rewards returns as (n,1) array
  calculate_SARSA_model            … with Q = qValue of the FusionART model (scalar reward centres)
  td_partial_fit_spec              TD_FALCON.partial_fit = tdPartialFit
  gen_sarsa_target_formula / gen_sarsa_target_valid / gen_get_action_greedy    C16 transported to the generated code
Hypotheses that restrict the domain (outside them the generated code returns `none` = numpy raises, where the model
truncates): equal numbers of states / actions / rewards; reward rows of width 2; reward centres of width 1.
-/
import ArtGen.Falcon
import ArtProps.C16

set_option linter.unusedSectionVars false

namespace Art.GenSpec.Falcon
open Art Art.Fusion Art.Falcon Art.ImpFalcon Art.Gen.FALCON

section Arg
variable {α : Type} [LinearOrder α]

theorem argScan_max (v : α) (k i : Nat) (xs : List α) :
    argScan (fun x best => decide (best < x)) (some (k, v)) i xs =
      match nanargmaxV (xs.map some) with
      | none => some (k, v)
      | some (j, u) => if v < u then some (i + j, u) else some (k, v) := by
  induction xs generalizing v k i with
  | nil => simp [argScan, nanargmaxV]
  | cons x xs ih =>
    simp only [argScan, List.map_cons, nanargmaxV, decide_eq_true_eq]
    split
    · rename_i hvx
      rw [ih]
      cases h : nanargmaxV (xs.map some) with
      | none => simp [hvx]
      | some ju =>
        obtain ⟨j, u⟩ := ju
        simp only
        by_cases hxu : x < u
        · simp [hxu, lt_trans hvx hxu, Nat.add_assoc, Nat.add_comm 1 j]
        · simp [hxu, hvx]
    · rename_i hvx
      rw [ih]
      cases h : nanargmaxV (xs.map some) with
      | none => simp [hvx]
      | some ju =>
        obtain ⟨j, u⟩ := ju
        simp only
        by_cases hxu : x < u
        · simp [hxu, Nat.add_assoc, Nat.add_comm 1 j]
        · have : ¬ v < u := fun h =>
            absurd (lt_of_lt_of_le h (le_trans (not_lt.mp hxu) (not_lt.mp hvx))) (lt_irrefl v)
          simp [hxu, hvx, this]

theorem argScan_min (v : α) (k i : Nat) (xs : List α) :
    argScan (fun x best => decide (x < best)) (some (k, v)) i xs =
      match argminV xs with
      | none => some (k, v)
      | some (j, u) => if u < v then some (i + j, u) else some (k, v) := by
  induction xs generalizing v k i with
  | nil => simp [argScan, argminV]
  | cons x xs ih =>
    simp only [argScan, argminV, decide_eq_true_eq]
    split
    · rename_i hxv
      rw [ih]
      cases h : argminV xs with
      | none => simp [hxv]
      | some ju =>
        obtain ⟨j, u⟩ := ju
        simp only
        by_cases hux : u < x
        · simp [hux, lt_trans hux hxv, Nat.add_assoc, Nat.add_comm 1 j]
        · simp [hux, hxv]
    · rename_i hxv
      rw [ih]
      cases h : argminV xs with
      | none => simp [hxv]
      | some ju =>
        obtain ⟨j, u⟩ := ju
        simp only
        by_cases hux : u < x
        · simp [hux, Nat.add_assoc, Nat.add_comm 1 j]
        · have : ¬ u < v := fun h =>
            absurd (lt_of_lt_of_le h (le_trans (not_lt.mp hxv) (not_lt.mp hux))) (lt_irrefl u)
          simp [hux, hxv, this]

/-- `np.argmax` (left-to-right scan, first occurrence) = the model's `argmaxFirst` -/
theorem npArgmax_eq (l : List α) : npArgmax l = argmaxFirst l := by
  cases l with
  | nil => rfl
  | cons x xs =>
    simp only [npArgmax, argScan, argScan_max, argmaxFirst, nanargmax, List.map_cons, nanargmaxV]
    cases h : nanargmaxV (xs.map some) with
    | none => rfl
    | some ju =>
      obtain ⟨j, u⟩ := ju
      simp only
      split <;> simp [Nat.add_comm]

/-- `np.argmin` = the model's `argminFirst` -/
theorem npArgmin_eq (l : List α) : npArgmin l = argminFirst l := by
  cases l with
  | nil => rfl
  | cons x xs =>
    simp only [npArgmin, argScan, argScan_min, argminFirst, argminV]
    cases h : argminV xs with
    | none => rfl
    | some ju =>
      obtain ⟨j, u⟩ := ju
      simp only
      split <;> simp [Nat.add_comm]

end Arg

section Basics
variable {β γ : Type}

theorem mapM_eq_allSome (f : β → Option γ) (l : List β) : l.mapM f = allSome (l.map f) := by
  induction l with
  | nil => rfl
  | cons a l ih =>
    rw [List.mapM_cons, ih, List.map_cons]
    cases hfa : f a with
    | none => simp [allSome]
    | some b => cases h : allSome (l.map f) <;> simp [allSome, h]

theorem allSome_bind_mapM {δ : Type} (g : β → Option γ) (h : γ → Option δ) (l : List β) :
    (allSome (l.map g)).bind (fun C => allSome (C.map h)) = allSome (l.map (fun x => (g x).bind h)) := by
  induction l with
  | nil => rfl
  | cons a l ih =>
    simp only [List.map_cons]
    cases hg : g a with
    | none => simp [allSome]
    | some c =>
      simp only [allSome, Option.bind_some]
      cases hh : h c with
      | none => cases allSome (l.map g) <;> simp [allSome, hh]
      | some d =>
        simp only [allSome]
        rw [← ih]; cases allSome (l.map g) <;> simp [allSome, hh]

/-- a loop that appends one answer per element is a `mapM` -/
theorem foldlM_append (f : β → Option γ) (l : List β) (acc : List γ) :
    l.foldlM (fun acc a => (f a).bind (fun c => some (acc ++ [c]))) acc
      = (allSome (l.map f)).map (acc ++ ·) := by
  induction l generalizing acc with
  | nil => simp [allSome]
  | cons a l ih =>
    rw [List.foldlM_cons]
    cases hf : f a with
    | none => simp [allSome, hf]
    | some c =>
      simp only [Option.bind_some, Option.bind_eq_bind, List.map_cons, hf, allSome]
      rw [ih]
      cases allSome (l.map f) <;> simp

end Basics

section Col
variable {α : Type}

/-- a list of numbers as an `(n, 1)` array -/
def col (xs : List α) : List (List α) := xs.map (fun x => [x])

theorem zipSame_eq {β γ δ : Type} (f : β → γ → δ) (as : List β) (bs : List γ) (h : as.length = bs.length) :
    zipSame f as bs = some (List.zipWith f as bs) := by
  induction as generalizing bs with
  | nil => cases bs with
    | nil => rfl
    | cons b bs => simp at h
  | cons a as ih => cases bs with
    | nil => simp at h
    | cons b bs => simp [zipSame, ih bs (by simpa using h)]

theorem npZip2_col (f : α → α → α) (xs ys : List α) (h : xs.length = ys.length) :
    npZip2 f (col xs) (col ys) = some (col (List.zipWith f xs ys)) := by
  induction xs generalizing ys with
  | nil => cases ys with
    | nil => rfl
    | cons b bs => simp at h
  | cons a as ih => cases ys with
    | nil => simp at h
    | cons b bs =>
      have := ih bs (by simpa using h)
      simp only [col, List.map_cons] at this ⊢
      simp [npZip2, zipSame, this]

theorem pyDropLast_one {β : Type} (v : List β) : pyDropLast v 1 = v.dropLast := by
  simp [pyDropLast, List.dropLast_eq_take]

theorem pyDropLast_col (xs : List α) : pyDropLast (col xs) 1 = col xs.dropLast := by
  simp [pyDropLast_one, col]

theorem drop_col (xs : List α) (k : Nat) : (col xs).drop k = col (xs.drop k) := by
  simp [col]

end Col

section CC
variable {α : Type} [Add α] [Sub α] [Mul α] [Div α] [Min α] [Max α] [Zero α] [One α]
  [LT α] [LE α] [DecidableRel (α := α) (· < ·)] [DecidableRel (α := α) (· ≤ ·)]

theorem npSMul_col (s : α) (xs : List α) : npSMul s (col xs) = col (xs.map (s * ·)) := by
  simp [npSMul, col]
theorem npSSub_col (s : α) (xs : List α) : npSSub s (col xs) = col (xs.map (s - ·)) := by
  simp [npSSub, col]
theorem npMinimumS_col (s : α) (xs : List α) : npMinimumS (col xs) s = col (xs.map (min · s)) := by
  simp [npMinimumS, col]
theorem npMaximumS_col (s : α) (xs : List α) : npMaximumS (col xs) s = col (xs.map (max · s)) := by
  simp [npMaximumS, col]
theorem npZerosLike_col (xs : List α) : npZerosLike (col xs) = col (xs.map (fun _ => (0 : α))) := by
  simp only [npZerosLike, col, List.map_map]
  rfl

/-- `compliment_code` of an `(n, 1)` array: the rows `[t, 1 - t]` -/
theorem compliment_code_col (ts : List α) : compliment_code (col ts) = some (ts.map ccScalar) := by
  unfold compliment_code
  simp only [npHstack, npSSub_col]
  rw [zipSame_eq _ _ _ (by simp [col])]
  simp only [Option.bind_eq_bind, Option.bind_some, pure]
  congr 1
  simp [col, ccScalar, List.zipWith_map]

theorem decc_core (R : List (List α)) (h : ∀ r ∈ R, r.length = 2) :
    npAdd (npColsTo R 1) (npSSub 1 (npColsFrom R 1))
      = some (R.map (fun r => [r.getD 0 0 + (1 - r.getD 1 0)])) := by
  induction R with
  | nil => rfl
  | cons r R ih =>
    have hr := h r (by simp)
    have := ih (fun r' hr' => h r' (by simp [hr']))
    match r, hr with
    | [a, b], _ =>
      simp only [npAdd, npColsTo, npSSub, npColsFrom, List.map_cons, List.map_map] at this ⊢
      simp only [npZip2, this]
      simp [zipSame]

/-- `de_compliment_code` of width-2 rows: the `(n, 1)` array of `(r0 + (1 - r1)) / 2` -/
theorem de_compliment_code_eq (R : List (List α)) (h : ∀ r ∈ R, r.length = 2) :
    de_compliment_code R = some (col (R.map deccScalar)) := by
  unfold de_compliment_code
  cases R with
  | nil => simp [npShape, pyAssert, npColsTo, npColsFrom, npSSub, npAdd, npZip2, npDivS, col]
  | cons r R =>
    have hr := h r (by simp)
    have hc := decc_core (r :: R) h
    simp only [npShape, List.head?_cons, Option.map_some, Option.getD_some, hr, pyAssert]
    simp only [decide_true, if_true, Option.bind_eq_bind, Option.bind_some, Nat.div_self (by decide : 0 < 2), hc, pure]
    congr 1
    simp [npDivS, col, deccScalar, List.map_map, Function.comp_def]

end CC

section Join
variable {α : Type}

/-- `join_channel_data` on whole arrays, row by row through the model's `joinRow`:
`n_samples = channel_data[0].shape[0]` (an empty list raises), and `np.hstack` needs every array to have that many rows -/
def joinMat (ws : List Nat) (skip : Nat → Bool) (filler : α) (data : List (List (List α))) :
    Option (List (List α)) :=
  match data with
  | [] => none
  | d0 :: _ =>
    if data.all (fun d => d.length == d0.length) then
      allSome ((List.range d0.length).map (fun i => joinRow ws skip filler (data.map (fun d => d.getD i []))))
    else none

theorem joinMat_three (w0 w1 w2 : Nat) (skip : Nat → Bool) (hs : ∀ k, skip k = false) (filler : α)
    (S A R : List (List α)) (hA : A.length = S.length) (hR : R.length = S.length) :
    joinMat [w0, w1, w2] skip filler [S, A, R] = some (falconRows S A R) := by
  simp only [joinMat, List.all_cons, List.all_nil, hA, hR, beq_self_eq_true, Bool.and_true, if_true]
  rw [← allSome_map_some (falconRows S A R)]
  congr 1
  apply List.ext_getElem?
  intro i
  simp only [List.getElem?_map, falconRows, List.getElem?_zipWith]
  by_cases hi : i < S.length
  · have hiA : i < A.length := hA ▸ hi
    have hiR : i < R.length := hR ▸ hi
    simp [List.getElem?_range hi, List.getElem?_eq_getElem hi, List.getElem?_eq_getElem hiA,
      List.getElem?_eq_getElem hiR, joinRow, joinFrom, hs, falconRow, List.zip, List.getElem?_zipWith]
  · have hiA : ¬ i < A.length := hA ▸ hi
    simp [hi]

end Join

section TieSec
variable {F α θ : Type} [Add α] [Sub α] [Mul α] [Div α] [Min α] [Max α] [Zero α] [One α]
  [LT α] [LE α] [DecidableRel (α := α) (· < ·)] [DecidableRel (α := α) (· ≤ ·)]

theorem joinMat_query (chans : List (Chan α)) (hn : chans.length = 3) (S A : List (List α))
    (hA : A.length = S.length) :
    joinMat (widths chans) skipReward (half : α) [S, A] = some (List.zipWith (queryRow chans) S A) := by
  match chans, hn with
  | [c0, c1, c2], _ =>
    simp only [joinMat, List.all_cons, List.all_nil, hA, beq_self_eq_true, Bool.and_true, if_true]
    rw [← allSome_map_some (List.zipWith _ S A)]
    congr 1
    apply List.ext_getElem?
    intro i
    simp only [List.getElem?_map, List.getElem?_zipWith]
    have e0 : skipReward 0 = false := by decide
    have e1 : skipReward 1 = false := by decide
    have e2 : skipReward 2 = true := by decide
    by_cases hi : i < S.length
    · have hiA : i < A.length := hA ▸ hi
      simp [List.getElem?_range hi, List.getElem?_eq_getElem hi, List.getElem?_eq_getElem hiA,
        joinRow, joinFrom, e0, e1, e2, queryRow, widths]
    · have hiA : ¬ i < A.length := hA ▸ hi
      simp [hi]

/-- what ties the abstract nested estimator to the FusionART model: `st` reads the model state off the object;
`centre k` / `prep k` are module `k`'s weight-to-centre map and `prepare_data` (row by row) -/
structure Tie (ops : FusionOps F α) (chans : List (Chan α)) (centre prep : Nat → List α → List α)
    (st : F → ArtState (List α)) (cfg : SearchCfg (List α) θ) (th0 : θ) : Prop where
  nchan : chans.length = 3
  join : ∀ fa data skip, ops.join_channel_data fa data skip
      = joinMat (widths chans) (skipSet chans.length skip) (half : α) data
  fit : ∀ fa X, st (ops.fit fa X) = Art.fit (fusionKernel chans) cfg th0 noVeto (st fa) X
  partial_fit : ∀ fa X, st (ops.partial_fit fa X) = partialFit (fusionKernel chans) cfg th0 noVeto (st fa) X
  predict : ∀ fa X skip, ops.predict fa X skip = allSome (predictSkip chans skip (st fa).W X)
  centers : ∀ fa k, ops.get_channel_centers fa k = channelCentres chans centre (st fa).W k
  prepare : ∀ fa k X, ops.module_prepare_data fa k X = X.map (prep k)

variable {ops : FusionOps F α} {chans : List (Chan α)} {centre prep : Nat → List α → List α}
  {st : F → ArtState (List α)} {cfg : SearchCfg (List α) θ} {th0 : θ}

theorem Tie.join3 (T : Tie ops chans centre prep st cfg th0) (fa : F) (S A R : List (List α))
    (hA : A.length = S.length) (hR : R.length = S.length) :
    ops.join_channel_data fa [S, A, R] [] = some (falconRows S A R) := by
  rw [T.join]
  match chans, T.nchan with
  | [c0, c1, c2], _ =>
    exact joinMat_three _ _ _ _ (by intro k; simp [skipSet]) _ S A R hA hR

theorem Tie.join2 (T : Tie ops chans centre prep st cfg th0) (fa : F) (S A : List (List α))
    (hA : A.length = S.length) :
    ops.join_channel_data fa [S, A] [2] = some (List.zipWith (queryRow chans) S A) := by
  rw [T.join, T.nchan]
  exact joinMat_query chans T.nchan S A hA

/-- **`FALCON.fit`** = the model's `falconFit` -/
theorem falcon_fit_spec (T : Tie ops chans centre prep st cfg th0) (fa : F) (S A R : List (List α))
    (hA : A.length = S.length) (hR : R.length = S.length) :
    (Art.Gen.FALCON.fit ops fa S A R).map st = some (falconFit chans cfg th0 (st fa) S A R) := by
  unfold Art.Gen.FALCON.fit
  rw [T.join3 fa S A R hA hR]
  simp [T.fit, falconFit]

/-- **`FALCON.partial_fit`** = the model's `falconPartialFit` -/
theorem falcon_partial_fit_spec (T : Tie ops chans centre prep st cfg th0) (fa : F) (S A R : List (List α))
    (hA : A.length = S.length) (hR : R.length = S.length) :
    (Art.Gen.FALCON.partial_fit ops fa S A R).map st = some (falconPartialFit chans cfg th0 (st fa) S A R) := by
  unfold Art.Gen.FALCON.partial_fit
  rw [T.join3 fa S A R hA hR]
  simp [T.partial_fit, falconPartialFit]

theorem predict_rows (T : Tie ops chans centre prep st cfg th0) (fa : F) (X : List (List α)) :
    ops.predict fa X [2] = allSome (X.map (stepPredSkip chans skipReward (st fa).W)) := by
  rw [T.predict, predictSkip, T.nchan]
  rfl

/-- **`FALCON.get_rewards`** = the model's `getRewards` (all of them present, or the call raises) -/
theorem get_rewards_spec (T : Tie ops chans centre prep st cfg th0) (fa : F) (S A : List (List α))
    (hA : A.length = S.length) :
    get_rewards ops fa S A = allSome (getRewards chans (centre 2) (st fa).W S A) := by
  unfold get_rewards
  rw [T.join2 fa S A hA]
  simp only [Option.bind_eq_bind, Option.bind_some, predict_rows T, T.centers]
  have := allSome_bind_mapM (stepPredSkip chans skipReward (st fa).W)
    (fun c => (channelCentres chans centre (st fa).W 2)[c]?) (List.zipWith (queryRow chans) S A)
  simp only [mapM_eq_allSome] at this ⊢
  rw [this, List.map_zipWith]
  rfl

theorem actions_body (T : Tie ops chans centre prep st cfg th0) (fa : F) (state a : List α) (vc : List Nat) :
    ((ops.join_channel_data fa [[state], [a]] [2]).bind fun d =>
      (ops.predict fa d [2]).bind fun c => c[0]?.bind fun x => pure (vc ++ [x]))
      = (rewardCategory chans (st fa).W state a).bind (fun c => some (vc ++ [c])) := by
  rw [T.join2 fa [state] [a] rfl]
  simp only [Option.bind_some, predict_rows T, List.zipWith, List.map, rewardCategory]
  cases stepPredSkip chans skipReward (st fa).W (queryRow chans state a) <;> rfl

theorem actions_core (T : Tie ops chans centre prep st cfg th0) (fa : F) (state : List α) (sp : List (List α)) :
    ((List.foldlM (fun viable_clusters action =>
        (ops.join_channel_data fa [[state], [action]] [2]).bind fun d =>
          (ops.predict fa d [2]).bind fun c => c[0]?.bind fun x => pure (viable_clusters ++ [x]))
        [] (List.map (prep 1) sp)).bind fun viable_clusters =>
      (List.mapM (fun c => (channelCentres chans centre (st fa).W 2)[c]?) viable_clusters).bind fun r =>
        pure (sp, r))
      = (allSome (sp.map (fun a => getReward chans (centre 2) (st fa).W state (prep 1 a)))).map
          (fun rs => (sp, rs)) := by
  simp only [actions_body T, foldlM_append, List.nil_append, mapM_eq_allSome, List.map_map, Function.comp_def,
    Option.map_id']
  have := allSome_bind_mapM (fun a => rewardCategory chans (st fa).W state (prep 1 a))
    (fun c => (channelCentres chans centre (st fa).W 2)[c]?) sp
  have e : (sp.map (fun a => getReward chans (centre 2) (st fa).W state (prep 1 a)))
      = sp.map (fun x => (rewardCategory chans (st fa).W state (prep 1 x)).bind
          fun c => (channelCentres chans centre (st fa).W 2)[c]?) := rfl
  rw [e, ← this]
  generalize allSome (sp.map (fun a => rewardCategory chans (st fa).W state (prep 1 a))) = oC
  cases oC with
  | none => rfl
  | some C =>
    simp only [Option.bind_some]
    cases allSome (C.map fun c => (channelCentres chans centre (st fa).W 2)[c]?) <;> rfl

/-- **`FALCON.get_actions_and_rewards`** = the model's `actionSpace` and `actionRewards` -/
theorem get_actions_and_rewards_spec (T : Tie ops chans centre prep st cfg th0) (fa : F) (state : List α)
    (space : Option (List (List α))) :
    get_actions_and_rewards ops fa state space
      = (allSome (actionRewards chans (centre 1) (centre 2) (prep 1) (st fa).W state space)).map
          (fun rs => (actionSpace chans (centre 1) (st fa).W space, rs)) := by
  unfold get_actions_and_rewards
  simp only [Option.bind_eq_bind, T.prepare, T.centers]
  cases space with
  | none => exact actions_core T fa state _
  | some sp => exact actions_core T fa state sp

end TieSec

section Sarsa
variable {F α : Type} [Add α] [Sub α] [Mul α] [Div α] [Min α] [Max α] [Zero α] [One α]
  [LT α] [LE α] [DecidableRel (α := α) (· < ·)] [DecidableRel (α := α) (· ≤ ·)]

/-- the SARSA line of `calculate_SARSA` on whole lists, the way numpy evaluates it:
`clip(Q[:-1] + td_alpha * (r[:-1] + td_lambda * Q[1:] - Q[:-1]))` -/
def sarsaVec (al la : α) (Qs rs : List α) : List α :=
  ((List.zipWith (· + ·) Qs.dropLast
      ((List.zipWith (· - ·) (List.zipWith (· + ·) rs.dropLast ((Qs.drop 1).map (la * ·))) Qs.dropLast).map
        (al * ·))).map (min · 1)).map (max · 0)

theorem sarsaList_eq_vec (al la : α) : ∀ (Qs rs : List α), Qs.length = rs.length →
    sarsaList al la Qs rs = sarsaVec al la Qs rs
  | [], [], _ => by simp [sarsaList, sarsaVec]
  | [q], [r], _ => by simp [sarsaList, sarsaVec]
  | q :: q' :: Qs, r :: r' :: rs, h => by
    have ih := sarsaList_eq_vec al la (q' :: Qs) (r' :: rs) (by simpa using h)
    simp only [sarsaVec] at ih
    simp [sarsaList, sarsaVec, ih, sarsaScalar, clip01, List.dropLast]
  | [], _ :: _, h => by simp at h
  | _ :: _, [], h => by simp at h
  | [_], _ :: _ :: _, h => by simp at h
  | _ :: _ :: _, [_], h => by simp at h

/-- the numpy arithmetic of the SARSA line on `(n, 1)` arrays, followed by any continuation `k` -/
theorem sarsa_chain {β : Type} (al la : α) (Qs rs : List α) (h : Qs.length = rs.length)
    (k : List (List α) → Option β) :
    ((npAdd (pyDropLast (col rs) 1) (npSMul la (List.drop 1 (col Qs)))).bind fun x1 =>
      (npSub x1 (pyDropLast (col Qs) 1)).bind fun x2 =>
        (npAdd (pyDropLast (col Qs) 1) (npSMul al x2)).bind fun x3 =>
          (compliment_code (npMaximumS (npMinimumS x3 1) 0)).bind k)
      = k ((sarsaList al la Qs rs).map ccScalar) := by
  rw [sarsaList_eq_vec al la Qs rs h]
  simp only [pyDropLast_col, drop_col, npSMul_col, npAdd, npSub]
  rw [npZip2_col _ _ _ (by simp; omega)]
  simp only [Option.bind_some]
  rw [npZip2_col _ _ _ (by simp; omega)]
  simp only [Option.bind_some, npSMul_col]
  rw [npZip2_col _ _ _ (by simp; omega)]
  simp only [Option.bind_some, npMinimumS_col, npMaximumS_col, compliment_code_col]
  rfl

end Sarsa

section SarsaSpec
variable {F α : Type} [Add α] [Sub α] [Mul α] [Div α] [Min α] [Max α] [Zero α] [One α]
  [LT α] [LE α] [DecidableRel (α := α) (· < ·)] [DecidableRel (α := α) (· ≤ ·)]

/-- **`TD_FALCON.calculate_SARSA`** = the model's `calcSarsa`: for width-2 (complement-coded scalar) reward rows,
as many actions and rewards as states, and — when `modules[0]` has a `W` — a `get_rewards` that returns the scalar
reward centres `Q s a` as an `(n, 1)` array. -/
theorem calculate_SARSA_spec (ops : FusionOps F α) (fa : F) (al la : α) (S A R : List (List α)) (ssr : Option α)
    (Q : List α → List α → α) (hR2 : ∀ r ∈ R, r.length = 2) (hA : A.length = S.length) (hR : R.length = S.length)
    (hQ : ops.module_has_W fa 0 = true → get_rewards ops fa S A = some (col (List.zipWith Q S A))) :
    TD_FALCON.calculate_SARSA ops fa al la S A R ssr
      = some (calcSarsa al la (ops.module_has_W fa 0) Q S A R ssr) := by
  unfold TD_FALCON.calculate_SARSA calcSarsa
  rw [de_compliment_code_eq R hR2]
  simp only [Option.bind_eq_bind, Option.bind_some, gt_iff_lt, decide_eq_true_eq]
  by_cases hn : 1 < S.length
  · simp only [hn, if_true]
    cases htr : ops.module_has_W fa 0 with
    | true =>
      simp only [if_true, hQ htr, Option.bind_some, Option.pure_def]
      rw [sarsa_chain al la _ _ (by simp [hA, hR])]
      simp [pyDropLast_one]
    | false =>
      simp only [Bool.false_eq_true, if_false, Option.bind_some, Option.pure_def, npZerosLike_col]
      rw [sarsa_chain al la _ _ (by simp)]
      simp [pyDropLast_one]
  · simp only [hn, if_false]
    cases ssr with
    | none => rfl
    | some v =>
      have := compliment_code_col [v]
      simp only [col, List.map_cons, List.map_nil] at this
      simp [this]

end SarsaSpec

section Greedy
variable {F α θ : Type} [Field α] [LinearOrder α] [IsStrictOrderedRing α]
variable {ops : FusionOps F α} {chans : List (Chan α)} {centre prep : Nat → List α → List α}
  {st : F → ArtState (List α)} {cfg : SearchCfg (List α) θ} {th0 : θ}

/-- **`FALCON.get_action`** = the model's `getAction` (`optimality == "max"` is the model's `maximize`) -/
theorem get_action_spec (T : Tie ops chans centre prep st cfg th0) (fa : F) (state : List α)
    (space : Option (List (List α))) (optimality : String) :
    get_action ops fa state space optimality
      = getAction chans (centre 1) (centre 2) (prep 1) (st fa).W state space (optimality == "max") := by
  unfold get_action getAction
  rw [get_actions_and_rewards_spec T]
  cases allSome (actionRewards chans (centre 1) (centre 2) (prep 1) (st fa).W state space) with
  | none => rfl
  | some rs =>
    simp only [Option.map_some, Option.bind_eq_bind, Option.bind_some, npArgmax_eq, npArgmin_eq]
    cases (optimality == "max") with
    | true =>
      simp only [if_true]
      cases argmaxFirst rs.flatten <;> rfl
    | false =>
      simp only [Bool.false_eq_true, if_false]
      cases argminFirst rs.flatten <;> rfl

end Greedy

section Model
variable {F α θ : Type} [Field α] [LinearOrder α] [IsStrictOrderedRing α]
variable {ops : FusionOps F α} {chans : List (Chan α)} {centre prep : Nat → List α → List α}
  {st : F → ArtState (List α)} {cfg : SearchCfg (List α) θ} {th0 : θ}

/-- scalar reward centres: `get_rewards` is the `(n, 1)` array of the model's `qValue` -/
theorem get_rewards_scalar (T : Tie ops chans centre prep st cfg th0) (fa : F) (S A : List (List α))
    (hA : A.length = S.length)
    (hsc : ∀ (i : Nat) (s a : List α), S[i]? = some s → A[i]? = some a →
      ∃ q, getReward chans (centre 2) (st fa).W s a = some [q]) :
    get_rewards ops fa S A = some (col (List.zipWith (qValue chans (centre 2) (st fa).W) S A)) := by
  rw [get_rewards_spec T fa S A hA, ← allSome_map_some (col _)]
  congr 1
  apply List.ext_getElem?
  intro i
  simp only [getRewards, col, List.getElem?_map, List.getElem?_zipWith]
  cases hs : S[i]? with
  | none => simp
  | some s =>
    cases ha : A[i]? with
    | none => simp
    | some a =>
      obtain ⟨q, hq⟩ := hsc i s a hs ha
      simp [qValue, hq]

/-- **`TD_FALCON.calculate_SARSA`** on top of the FusionART model: `Q` = the model's `qValue` -/
theorem calculate_SARSA_model (T : Tie ops chans centre prep st cfg th0) (fa : F) (al la : α)
    (S A R : List (List α)) (ssr : Option α)
    (hR2 : ∀ r ∈ R, r.length = 2) (hA : A.length = S.length) (hR : R.length = S.length)
    (hsc : ops.module_has_W fa 0 = true → ∀ (i : Nat) (s a : List α), S[i]? = some s → A[i]? = some a →
      ∃ q, getReward chans (centre 2) (st fa).W s a = some [q]) :
    TD_FALCON.calculate_SARSA ops fa al la S A R ssr
      = some (calcSarsa al la (ops.module_has_W fa 0) (qValue chans (centre 2) (st fa).W) S A R ssr) :=
  calculate_SARSA_spec ops fa al la S A R ssr _ hR2 hA hR
    (fun htr => get_rewards_scalar T fa S A hA (hsc htr))

theorem calcSarsa_lengths (al la : α) (trained : Bool) (Q : List α → List α → α) (S A R : List (List α))
    (ssr : Option α) (hA : A.length = S.length) (hR : R.length = S.length) (h0 : 0 < S.length) :
    (calcSarsa al la trained Q S A R ssr).2.1.length = (calcSarsa al la trained Q S A R ssr).1.length ∧
    (calcSarsa al la trained Q S A R ssr).2.2.length = (calcSarsa al la trained Q S A R ssr).1.length := by
  unfold calcSarsa
  by_cases hn : 1 < S.length
  · simp only [hn, if_true, List.length_dropLast, List.length_map, sarsaList_length, hA, true_and]
    split <;> simp [hA, hR]
  · simp only [hn, if_false, hA, true_and]
    cases ssr with
    | none => simpa using hR
    | some v => simp; omega

/-- **`TD_FALCON.partial_fit`** = the model's `tdPartialFit` -/
theorem td_partial_fit_spec (T : Tie ops chans centre prep st cfg th0) (fa : F) (al la : α)
    (S A R : List (List α)) (ssr : Option α)
    (hR2 : ∀ r ∈ R, r.length = 2) (hA : A.length = S.length) (hR : R.length = S.length) (h0 : 0 < S.length)
    (hsc : ops.module_has_W fa 0 = true → ∀ (i : Nat) (s a : List α), S[i]? = some s → A[i]? = some a →
      ∃ q, getReward chans (centre 2) (st fa).W s a = some [q]) :
    (TD_FALCON.partial_fit ops fa al la S A R ssr).map st
      = some (tdPartialFit chans cfg th0 (centre 2) al la (ops.module_has_W fa 0) (st fa) S A R ssr) := by
  unfold TD_FALCON.partial_fit
  rw [calculate_SARSA_model T fa al la S A R ssr hR2 hA hR hsc]
  obtain ⟨h1, h2⟩ := calcSarsa_lengths al la (ops.module_has_W fa 0) (qValue chans (centre 2) (st fa).W) S A R ssr
    hA hR h0
  simp only [Option.bind_eq_bind, Option.bind_some]
  rw [T.join3 fa _ _ _ h1 h2]
  simp [T.partial_fit, tdPartialFit]

/-! ### the C16 property theorems, transported to the generated code -/

/-- **SARSA targets of the generated `calculate_SARSA`** (transport of `C16.sarsa_target_formula`): the call succeeds,
keeps all states and actions but the last, and its `i`-th target row (`i + 1 < n`) is the complement code of
`clip(Q_i + td_alpha (r_i + td_lambda Q_{i+1} - Q_i), 0, 1)`. -/
theorem gen_sarsa_target_formula (ops : FusionOps F α) (fa : F) (al la : α) (S A R : List (List α)) (ssr : Option α)
    (Q : List α → List α → α) (hR2 : ∀ r ∈ R, r.length = 2) (hA : A.length = S.length) (hR : R.length = S.length)
    (hQ : ops.module_has_W fa 0 = true → get_rewards ops fa S A = some (col (List.zipWith Q S A)))
    (hn : 1 < S.length) (i : Nat) (hi : i + 1 < S.length) :
    let Qs := if ops.module_has_W fa 0 then List.zipWith Q S A else (R.map deccScalar).map (fun _ => (0 : α))
    ∃ out, TD_FALCON.calculate_SARSA ops fa al la S A R ssr = some out ∧
      out.1 = S.dropLast ∧ out.2.1 = A.dropLast ∧
      out.2.2[i]? = some (ccScalar (clip01 (Qs.getD i 0 +
        al * (deccScalar (R.getD i []) + la * Qs.getD (i + 1) 0 - Qs.getD i 0)))) := by
  intro Qs
  refine ⟨_, calculate_SARSA_spec ops fa al la S A R ssr Q hR2 hA hR hQ, ?_⟩
  exact Art.C16.sarsa_target_formula al la (ops.module_has_W fa 0) Q S A R ssr hn hA hR i hi

/-- **targets of the generated `calculate_SARSA` are valid reward rows** (transport of `C16.sarsa_target_valid`) -/
theorem gen_sarsa_target_valid (ops : FusionOps F α) (fa : F) (tol al la : α) (htol : 0 ≤ tol)
    (S A R : List (List α)) (ssr : Option α)
    (Q : List α → List α → α) (hR2 : ∀ r ∈ R, r.length = 2) (hA : A.length = S.length) (hR : R.length = S.length)
    (hQ : ops.module_has_W fa 0 = true → get_rewards ops fa S A = some (col (List.zipWith Q S A)))
    (hn : 1 < S.length) :
    ∃ out, TD_FALCON.calculate_SARSA ops fa al la S A R ssr = some out ∧
      ∀ row ∈ out.2.2, validRewardRow tol row = true ∧ ∃ t, 0 ≤ t ∧ t ≤ 1 ∧ row = [t, 1 - t] :=
  ⟨_, calculate_SARSA_spec ops fa al la S A R ssr Q hR2 hA hR hQ,
    Art.C16.sarsa_target_valid tol al la htol (ops.module_has_W fa 0) Q S A R ssr hn⟩

/-- **the generated `get_action` is greedy, first on ties** (transport of `C16.get_action_greedy`) -/
theorem gen_get_action_greedy (T : Tie ops chans centre prep st cfg th0) (fa : F) (state : List α)
    (space : Option (List (List α))) (vs : List α)
    (hvs : actionRewards chans (centre 1) (centre 2) (prep 1) (st fa).W state space = vs.map (fun v => some [v]))
    (a : List α) :
    (get_action ops fa state space "max" = some a →
      ∃ i v, (actionSpace chans (centre 1) (st fa).W space)[i]? = some a ∧ IsFirstMax (vs.map some) i v) ∧
    (∀ opt : String, opt ≠ "max" → get_action ops fa state space opt = some a →
      ∃ i v, (actionSpace chans (centre 1) (st fa).W space)[i]? = some a ∧ IsFirstMin vs i v) := by
  have h := Art.C16.get_action_greedy chans (centre 1) (centre 2) (prep 1) (st fa).W state space vs hvs a
  refine ⟨fun hg => h.1 (by rw [get_action_spec T] at hg; simpa using hg), fun opt hopt hg => h.2 ?_⟩
  rw [get_action_spec T] at hg
  have : (opt == "max") = false := by simpa using hopt
  rwa [this] at hg

end Model
/-! ### the hypotheses are satisfiable, and the generated code runs: three FuzzyART channels over ℚ
(alpha = 1/4, beta = 1, rho = 3/4 each; identity bounds) — the nested estimator is the model state itself -/
section Example

def exCh : List (Chan ℚ) :=
  [⟨fuzzyKernel (1/4) 1 1, 2, 1/4, 2⟩, ⟨fuzzyKernel (1/4) 1 1, 2, 1/4, 2⟩, ⟨fuzzyKernel (1/4) 1 1, 2, 1/2, 2⟩]
def exCfg : SearchCfg (List ℚ) (List ℚ) := fusionCfg .plus (· + 0) (· - 0) 0
def exTh : List ℚ := [3/4, 3/4, 3/4]
/-- `prepare_data` of a FuzzyART with identity bounds: complement coding -/
def exCC (v : List ℚ) : List ℚ := v ++ vcompl v

/-- a FusionART as an object: its model state -/
def exOps : FusionOps (ArtState (List ℚ)) ℚ :=
  { join_channel_data := fun _ data skip => joinMat (widths exCh) (skipSet exCh.length skip) half data
    fit := fun s X => Art.fit (fusionKernel exCh) exCfg exTh noVeto s X
    partial_fit := fun s X => partialFit (fusionKernel exCh) exCfg exTh noVeto s X
    predict := fun s X skip => allSome (predictSkip exCh skip s.W X)
    get_channel_centers := fun s k => channelCentres exCh (fun _ => fuzzyCentre) s.W k
    module_prepare_data := fun _ _ X => X.map exCC
    module_has_W := fun s _ => !s.W.isEmpty }

theorem exTie : Tie exOps exCh (fun _ => fuzzyCentre) (fun _ => exCC) id exCfg exTh :=
  ⟨rfl, fun _ _ _ => rfl, fun _ _ => rfl, fun _ _ => rfl, fun _ _ _ => rfl, fun _ _ => rfl, fun _ _ _ => rfl⟩

def exS : List (List ℚ) := [[0, 1], [1, 0], [0, 1]]
def exA : List (List ℚ) := [[0, 1], [0, 1], [1, 0]]
def exR : List (List ℚ) := [[1/4, 3/4], [1, 0], [1/2, 1/2]]
/-- the generated `FALCON.fit` run on an untrained object -/
def exFa : ArtState (List ℚ) := (Art.Gen.FALCON.fit exOps {} exS exA exR).getD {}

example : exFa.labels = [0, 1, 2] := by decide +kernel
-- the generated get_rewards: the reward centres of the three training pairs
example : get_rewards exOps exFa exS exA = some [[1/4], [1], [1/2]] := by decide +kernel
-- greedy action in state [0,1] over the action space {0, 1}: action 1 pays 1/2 > 1/4; "min" picks action 0
example : get_action exOps exFa [0, 1] (some [[0], [1]]) "max" = some [1] := by decide +kernel
example : get_action exOps exFa [0, 1] (some [[0], [1]]) "min" = some [0] := by decide +kernel
-- ties go to the first member; default action space = the action-channel centres
example : get_actions_and_rewards exOps exFa [0, 1] (some [[1], [1], [0]])
    = some ([[1], [1], [0]], [[1/2], [1/2], [1/4]]) := by decide +kernel
example : get_action exOps exFa [1, 0] none "max" = some [0] := by decide +kernel
-- SARSA on the same episode with the trained object, td_alpha = td_lambda = 1/2 (second target clipped to 1)
example : TD_FALCON.calculate_SARSA exOps exFa (1/2) (1/2) exS exA exR none
    = some ([[0, 1], [1, 0]], [[0, 1], [0, 1]], [[1/2, 1/2], [1, 0]]) := by decide +kernel
-- untrained object: clip(alpha * r)
example : (TD_FALCON.calculate_SARSA exOps {} (1/2) 1 exS exA exR none).map (·.2.2)
    = some [[1/8, 7/8], [1/2, 1/2]] := by decide +kernel
-- single transition with single_sample_reward; a reward row of odd width makes de_compliment_code raise
example : TD_FALCON.calculate_SARSA exOps exFa 1 1 [[0, 1]] [[1, 0]] [[1/4, 3/4]] (some (1/3))
    = some ([[0, 1]], [[1, 0]], [[1/3, 2/3]]) := by decide +kernel
example : TD_FALCON.calculate_SARSA exOps exFa 1 1 [[0, 1]] [[1, 0]] [[1/4, 3/4, 0]] none = none := by decide +kernel
-- TD partial_fit on the trained object: the two SARSA rows resonate with categories 0 and 1
example : ((TD_FALCON.partial_fit exOps exFa (1/2) (1/2) exS exA exR none).map (·.labels)) = some [0, 1, 2, 0, 1] := by
  decide +kernel

end Example

end Art.GenSpec.Falcon
