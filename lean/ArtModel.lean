import ArtModel.Basic
import ArtModel.Search
import ArtModel.Kernels
import ArtModel.ARTMAP
import ArtModel.Driver
import ArtModel.Dispatch
import ArtModel.Restore
