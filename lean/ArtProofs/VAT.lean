/-
ArtProofs.VAT — helper lemmas for the VAT ordering (`ArtModel.VAT`):
row-major flattening, `np.ix_` sub-matrices, first-minimum specification, and
the loop invariant of `vatLoop` (Prim-style nearest-neighbour chaining).
-/
import Mathlib.Order.Basic
import Mathlib.Order.Defs.LinearOrder
import ArtModel.VAT
import ArtProofs.Order

namespace Art.VAT

/-! ### list plumbing -/

theorem filterMap_getElem?_of_all_some {β γ : Type} {f : β → Option γ} :
    ∀ {l : List β}, (∀ x ∈ l, (f x).isSome) → ∀ a : Nat, (l.filterMap f)[a]? = (l[a]?).bind f
  | [], _, a => by simp
  | x :: xs, h, a => by
    obtain ⟨y, hy⟩ := Option.isSome_iff_exists.mp (h x (by simp))
    rw [List.filterMap_cons_some hy]
    cases a with
    | zero => simp [hy]
    | succ a =>
      have := filterMap_getElem?_of_all_some (l := xs) (fun x hx => h x (by simp [hx])) a
      simpa using this

theorem filterMap_length_of_all_some {β γ : Type} {f : β → Option γ} :
    ∀ {l : List β}, (∀ x ∈ l, (f x).isSome) → (l.filterMap f).length = l.length
  | [], _ => by simp
  | x :: xs, h => by
    obtain ⟨y, hy⟩ := Option.isSome_iff_exists.mp (h x (by simp))
    rw [List.filterMap_cons_some hy]
    have := filterMap_length_of_all_some (l := xs) (fun x hx => h x (by simp [hx]))
    simp [this]

/-- popping position `k` and putting the popped element in front is a permutation -/
theorem cons_eraseIdx_perm {β : Type} : ∀ {l : List β} {k : Nat} {a : β},
    l[k]? = some a → (a :: l.eraseIdx k).Perm l
  | [], k, a, h => by simp at h
  | x :: xs, 0, a, h => by
    simp at h; subst h; simp
  | x :: xs, k + 1, a, h => by
    have ih := cons_eraseIdx_perm (l := xs) (k := k) (a := a) (by simpa using h)
    simp only [List.eraseIdx_cons_succ]
    exact (List.Perm.swap x a _).trans (ih.cons x)

/-! ### row-major flattening of a rectangular matrix -/

theorem flatten_length_rect {β : Type} {m : Nat} :
    ∀ {M : List (List β)}, (∀ r ∈ M, r.length = m) → M.flatten.length = M.length * m
  | [], _ => by simp
  | r :: rs, h => by
    have := flatten_length_rect (M := rs) (fun r hr => h r (by simp [hr]))
    simp [this, h r (by simp), Nat.succ_mul, Nat.add_comm]

/-- `np.unravel_index` / `ravel`: entry `(i, j)` of a matrix with rows of length
`m` sits at position `i * m + j` of the row-major flattening. -/
theorem flatten_getElem?_rect {β : Type} {m : Nat} :
    ∀ {M : List (List β)}, (∀ r ∈ M, r.length = m) → ∀ (i j : Nat), j < m →
      M.flatten[i * m + j]? = ent M i j
  | [], _, i, j, _ => by simp [ent]
  | r :: rs, h, 0, j, hj => by
    have hr : r.length = m := h r (by simp)
    simp [ent, List.getElem?_append_left (hr ▸ hj)]
  | r :: rs, h, i + 1, j, hj => by
    have hr : r.length = m := h r (by simp)
    have ih := flatten_getElem?_rect (M := rs) (fun r hr => h r (by simp [hr])) i j hj
    have hle : r.length ≤ (i + 1) * m + j := by rw [hr, Nat.succ_mul]; omega
    have hsub : (i + 1) * m + j - r.length = i * m + j := by rw [hr, Nat.succ_mul]; omega
    simp only [List.flatten_cons, List.getElem?_append_right hle, hsub, ih]
    simp [ent]

/-- position `p` of the flattening is entry `(p / m, p % m)` -/
theorem flatten_getElem?_divmod {β : Type} {m : Nat} {M : List (List β)}
    (h : ∀ r ∈ M, r.length = m) (hm : 0 < m) (p : Nat) :
    M.flatten[p]? = ent M (p / m) (p % m) := by
  have := flatten_getElem?_rect h (p / m) (p % m) (Nat.mod_lt _ hm)
  rwa [Nat.mul_comm, Nat.div_add_mod] at this

/-! ### entries of a square matrix and of `np.ix_` sub-matrices -/

theorem ent_eq_some_lt {β : Type} {n : Nat} {D : List (List β)} (hsq : Square n D) {i j : Nat} {v : β}
    (h : ent D i j = some v) : i < n ∧ j < n := by
  simp only [ent, Option.bind_eq_some_iff] at h
  obtain ⟨r, hr, hv⟩ := h
  have hi := (List.getElem?_eq_some_iff.mp hr).1
  have hj := (List.getElem?_eq_some_iff.mp hv).1
  have hrl := hsq.2 r (List.mem_of_getElem? hr)
  exact ⟨hsq.1 ▸ hi, hrl ▸ hj⟩

theorem ent_isSome_of_square {β : Type} {n : Nat} {D : List (List β)} (hsq : Square n D) {i j : Nat}
    (hi : i < n) (hj : j < n) : (ent D i j).isSome := by
  have hi' : i < D.length := hsq.1 ▸ hi
  have hr : D[i]? = some D[i] := List.getElem?_eq_getElem hi'
  have hl : D[i].length = n := hsq.2 _ (List.getElem_mem hi')
  have hj' : j < D[i].length := hl ▸ hj
  simp [ent, hr, List.getElem?_eq_getElem hj']

theorem ncols_of_square {β : Type} {n : Nat} {D : List (List β)} (hsq : Square n D) (hn : 0 < n) :
    ncols D = n := by
  cases D with
  | nil => have := hsq.1; simp at this; omega
  | cons r rs => exact hsq.2 r (by simp)

section ixSub
variable {β : Type} {n : Nat} {D : List (List β)}

theorem ixSub_row_isSome (hsq : Square n D) {rows : List Nat} (hr : ∀ i ∈ rows, i < n) (cols : List Nat) :
    ∀ i ∈ rows, ((D[i]?).map (fun r => cols.filterMap (fun j => r[j]?))).isSome := by
  intro i hi
  have : i < D.length := hsq.1 ▸ hr i hi
  simp [List.getElem?_eq_getElem this]

theorem ixSub_length (hsq : Square n D) {rows cols : List Nat} (hr : ∀ i ∈ rows, i < n) :
    (ixSub D rows cols).length = rows.length :=
  filterMap_length_of_all_some (ixSub_row_isSome hsq hr cols)

theorem ixSub_row_length (hsq : Square n D) {rows cols : List Nat} (hc : ∀ j ∈ cols, j < n) :
    ∀ r ∈ ixSub D rows cols, r.length = cols.length := by
  intro r hr
  simp only [ixSub, List.mem_filterMap, Option.map_eq_some_iff] at hr
  obtain ⟨i, _, row, hrow, rfl⟩ := hr
  have hl : row.length = n := hsq.2 _ (List.mem_of_getElem? hrow)
  apply filterMap_length_of_all_some
  intro j hj
  have : j < row.length := hl ▸ hc j hj
  simp [List.getElem?_eq_getElem this]

/-- `D[np.ix_(rows, cols)][a][b] = D[rows[a]][cols[b]]` -/
theorem ent_ixSub (hsq : Square n D) {rows cols : List Nat} (hr : ∀ i ∈ rows, i < n)
    (hc : ∀ j ∈ cols, j < n) (a b : Nat) :
    ent (ixSub D rows cols) a b = (rows[a]?).bind (fun i => (cols[b]?).bind (fun j => ent D i j)) := by
  unfold ent ixSub
  rw [filterMap_getElem?_of_all_some (ixSub_row_isSome hsq hr cols)]
  cases hra : rows[a]? with
  | none => simp
  | some i =>
    have hi : i < D.length := hsq.1 ▸ hr i (List.mem_of_getElem? hra)
    have hl : D[i].length = n := hsq.2 _ (List.getElem_mem hi)
    simp only [Option.bind_some, List.getElem?_eq_getElem hi, Option.map_some]
    have h2 : ∀ j ∈ cols, ((fun j => D[i][j]?) j).isSome := by
      intro j hj
      have : j < D[i].length := hl ▸ hc j hj
      simp [List.getElem?_eq_getElem this]
    rw [filterMap_getElem?_of_all_some h2]

theorem ixSub_square (hsq : Square n D) {idx : List Nat} (hlen : idx.length = n)
    (hb : ∀ i ∈ idx, i < n) : Square n (ixSub D idx idx) :=
  ⟨(ixSub_length hsq hb).trans hlen, fun r hr => (ixSub_row_length hsq hb r hr).trans hlen⟩

end ixSub

/-! ### first minimum -/

section order
variable {α : Type} [LinearOrder α]

/-- `k` is the first index holding the minimal value `v` of `l`. -/
structure IsFirstMin (l : List α) (k : Nat) (v : α) : Prop where
  at_k : l[k]? = some v
  le_all : ∀ (j : Nat) (u : α), l[j]? = some u → v ≤ u
  lt_before : ∀ (j : Nat) (u : α), j < k → l[j]? = some u → v < u

theorem argminV_eq_none {l : List α} : argminV l = none ↔ l = [] := by
  cases l with
  | nil => simp [argminV]
  | cons x xs =>
    simp only [argminV]
    cases argminV xs with
    | none => simp
    | some kv => obtain ⟨k, u⟩ := kv; simp only; split <;> simp

theorem argminV_spec {l : List α} {k : Nat} {v : α} (h : argminV l = some (k, v)) :
    IsFirstMin l k v := by
  induction l generalizing k v with
  | nil => simp [argminV] at h
  | cons w ts ih =>
    simp only [argminV] at h
    cases hts : argminV ts with
    | none =>
      rw [hts] at h
      simp only [Option.some.injEq, Prod.mk.injEq] at h
      obtain ⟨rfl, rfl⟩ := h
      have hn : ts = [] := argminV_eq_none.mp hts
      subst hn
      refine ⟨by simp, ?_, ?_⟩
      · intro j u hj
        cases j with
        | zero => simp at hj; exact le_of_eq hj
        | succ j => simp at hj
      · intro j u hjk; omega
    | some kv =>
      obtain ⟨k', u'⟩ := kv
      rw [hts] at h
      have := ih hts
      simp only at h
      split at h
      · rename_i hlt
        simp only [Option.some.injEq, Prod.mk.injEq] at h
        obtain ⟨rfl, rfl⟩ := h
        refine ⟨by simpa using this.at_k, ?_, ?_⟩
        · intro j u hj
          cases j with
          | zero => simp at hj; exact hj ▸ le_of_lt hlt
          | succ j => exact this.le_all j u (by simpa using hj)
        · intro j u hjk hj
          cases j with
          | zero => simp at hj; exact hj ▸ hlt
          | succ j => exact this.lt_before j u (by omega) (by simpa using hj)
      · rename_i hnlt
        simp only [Option.some.injEq, Prod.mk.injEq] at h
        obtain ⟨rfl, rfl⟩ := h
        refine ⟨by simp, ?_, ?_⟩
        · intro j u hj
          cases j with
          | zero => simp at hj; exact le_of_eq hj
          | succ j => exact le_trans (not_lt.mp hnlt) (this.le_all j u (by simpa using hj))
        · intro j u hjk; omega

theorem argminFirst_spec {l : List α} {k : Nat} (h : argminFirst l = some k) :
    ∃ v, IsFirstMin l k v := by
  simp only [argminFirst, Option.map_eq_some_iff] at h
  obtain ⟨⟨k', v⟩, hkv, rfl⟩ := h
  exact ⟨v, argminV_spec hkv⟩

theorem argminFirst_isSome {l : List α} (h : l ≠ []) : ∃ k, argminFirst l = some k := by
  cases hv : argminV l with
  | none => exact absurd (argminV_eq_none.mp hv) h
  | some kv => exact ⟨kv.1, by simp [argminFirst, hv]⟩

/-- spec of `argmaxFirst` on a plain list, from `nanargmax` -/
theorem argmaxFirst_spec {l : List α} {k : Nat} (h : argmaxFirst l = some k) :
    ∃ v, l[k]? = some v ∧ (∀ (j : Nat) (u : α), l[j]? = some u → u ≤ v) ∧
      (∀ (j : Nat) (u : α), j < k → l[j]? = some u → u < v) := by
  obtain ⟨v, hv⟩ := nanargmax_eq_some_iff.mp h
  refine ⟨v, ?_, ?_, ?_⟩
  · have := hv.at_k
    simp only [List.getElem?_map, Option.map_eq_some_iff] at this
    obtain ⟨a, ha, hav⟩ := this
    simpa [hav] using ha ▸ (Option.some.inj hav ▸ rfl : some a = some v)
  · intro j u hj
    exact hv.ge_all j u (by simp [hj])
  · intro j u hjk hj
    exact hv.gt_before j u hjk (by simp [hj])

theorem argmaxFirst_isSome {l : List α} (h : l ≠ []) : ∃ k, argmaxFirst l = some k := by
  cases hm : argmaxFirst l with
  | some k => exact ⟨k, rfl⟩
  | none =>
    exfalso
    have := nanargmax_eq_none_iff.mp hm
    cases l with
    | nil => exact h rfl
    | cons x xs => simpa using this (some x) (by simp)

end order

/-! ### the loop invariant -/

section loop
variable {α : Type} [LinearOrder α] {n : Nat} {D : List (List α)}

/-- One step of the nearest-neighbour chaining: `nxt` is an unvisited sample and
some visited `i = pre[r]` realises `v = D[i][nxt] = min { D[i'][j'] | i' visited, j' unvisited }`.
Tie rule (first minimum of `D[np.ix_(pre, remaining)]` in row-major order, `remaining`
ascending): no sample visited before `i` is within `v` of an unvisited one, and no
unvisited sample with a smaller number than `nxt` is within `v` of `i`. -/
def PrimStep (D : List (List α)) (n : Nat) (pre : List Nat) (nxt : Nat) : Prop :=
  nxt ∉ pre ∧ nxt < n ∧ ∃ r i v, pre[r]? = some i ∧ ent D i nxt = some v ∧
    (∀ i' ∈ pre, ∀ j', j' < n → j' ∉ pre → ∀ u, ent D i' j' = some u → v ≤ u) ∧
    (∀ (r' i' : Nat), r' < r → pre[r']? = some i' → ∀ j', j' < n → j' ∉ pre →
      ∀ u, ent D i' j' = some u → v < u) ∧
    (∀ j', j' < nxt → j' ∉ pre → ∀ u, ent D i j' = some u → v < u)

theorem vatLoop_done (fuel : Nat) (vis : List Nat) : vatLoop D fuel vis [] = vis := by
  cases fuel <;> simp [vatLoop]

theorem vatLoop_spec (hsq : Square n D) : ∀ (fuel : Nat) (vis rem : List Nat),
    rem.length ≤ fuel → (vis ++ rem).Perm (List.range n) → vis ≠ [] →
    rem.Pairwise (· < ·) →
    (vatLoop D fuel vis rem).Perm (List.range n) ∧ vis <+: vatLoop D fuel vis rem ∧
    ∀ k, vis.length ≤ k → k < n → ∃ nxt, (vatLoop D fuel vis rem)[k]? = some nxt ∧
      PrimStep D n ((vatLoop D fuel vis rem).take k) nxt := by
  intro fuel
  induction fuel with
  | zero =>
    intro vis rem hf hp _ _
    have hrem : rem = [] := List.eq_nil_of_length_eq_zero (by omega)
    subst hrem
    rw [vatLoop_done]
    rw [List.append_nil] at hp
    refine ⟨hp, List.prefix_refl _, fun k hk hkn => ?_⟩
    have := hp.length_eq
    simp at this; omega
  | succ f ih =>
    intro vis rem hf hp hne hsorted
    by_cases hrem : rem = []
    · subst hrem
      rw [vatLoop_done]
      rw [List.append_nil] at hp
      refine ⟨hp, List.prefix_refl _, fun k hk hkn => ?_⟩
      have := hp.length_eq
      simp at this; omega
    · have hm : 0 < rem.length := List.length_pos_iff.mpr hrem
      have hvl : 0 < vis.length := List.length_pos_iff.mpr hne
      have hvb : ∀ i ∈ vis, i < n := fun i hi =>
        List.mem_range.mp (hp.mem_iff.mp (List.mem_append_left _ hi))
      have hrb : ∀ j ∈ rem, j < n := fun j hj =>
        List.mem_range.mp (hp.mem_iff.mp (List.mem_append_right _ hj))
      have hnd : (vis ++ rem).Nodup := hp.nodup_iff.mpr List.nodup_range
      have hrows := ixSub_row_length (rows := vis) hsq hrb
      have hlen := ixSub_length (cols := rem) hsq hvb
      have hflen := flatten_length_rect hrows
      rw [hlen] at hflen
      have hfne : (ixSub D vis rem).flatten ≠ [] := by
        intro h0
        rw [h0] at hflen
        have := Nat.mul_pos hvl hm
        simp at hflen; omega
      obtain ⟨p, hpmin⟩ := argminFirst_isSome hfne
      obtain ⟨v, hv⟩ := argminFirst_spec hpmin
      have hjx : p % rem.length < rem.length := Nat.mod_lt _ hm
      have hj : rem[p % rem.length]? = some rem[p % rem.length] := List.getElem?_eq_getElem hjx
      generalize hjdef : rem[p % rem.length] = j at hj
      have hjmem : j ∈ rem := List.mem_of_getElem? hj
      have hstepEq : vatLoop D (f + 1) vis rem
          = vatLoop D f (vis ++ [j]) (rem.eraseIdx (p % rem.length)) := by
        rw [vatLoop]
        simp only [List.isEmpty_iff, hrem, if_false, hpmin, hj]
      rw [hstepEq]
      have hperm' : (vis ++ [j] ++ rem.eraseIdx (p % rem.length)).Perm (List.range n) := by
        rw [List.append_assoc, List.singleton_append]
        exact ((cons_eraseIdx_perm hj).append_left vis).trans hp
      obtain ⟨hP, hpre, hstep⟩ := ih (vis ++ [j]) (rem.eraseIdx (p % rem.length))
        (by rw [List.length_eraseIdx_of_lt hjx]; omega) hperm' (by simp) (hsorted.eraseIdx _)
      refine ⟨hP, (List.prefix_append vis [j]).trans hpre, fun k hk hkn => ?_⟩
      by_cases hkv : k = vis.length
      · subst hkv
        obtain ⟨t, ht⟩ := hpre
        rw [← ht]
        refine ⟨j, by simp, ?_⟩
        have htake : (vis ++ [j] ++ t).take vis.length = vis := by
          rw [List.append_assoc, List.take_left']
          rfl
        rw [htake]
        -- the chosen flat position, unravelled
        have hplt : p < vis.length * rem.length := by
          have := (List.getElem?_eq_some_iff.mp hv.at_k).1
          omega
        have hrow : p / rem.length < vis.length :=
          Nat.div_lt_of_lt_mul (by rw [Nat.mul_comm]; exact hplt)
        have hent : ent (ixSub D vis rem) (p / rem.length) (p % rem.length) = some v := by
          rw [← flatten_getElem?_divmod hrows hm p]; exact hv.at_k
        rw [ent_ixSub hsq hvb hrb, List.getElem?_eq_getElem hrow, hj] at hent
        simp only [Option.bind_some] at hent
        have hunv : ∀ j', j' < n → j' ∉ vis → ∃ b, rem[b]? = some j' ∧ b < rem.length := by
          intro j' hj'n hj'v
          have hj'mem : j' ∈ rem := by
            have := hp.mem_iff.mpr (List.mem_range.mpr hj'n)
            rcases List.mem_append.mp this with h | h
            · exact absurd h hj'v
            · exact h
          obtain ⟨b, hb⟩ := List.getElem?_of_mem hj'mem
          exact ⟨b, hb, (List.getElem?_eq_some_iff.mp hb).1⟩
        have hdm : p / rem.length * rem.length + p % rem.length = p := by
          rw [Nat.mul_comm]; exact Nat.div_add_mod p rem.length
        refine ⟨?_, hrb j hjmem, p / rem.length, vis[p / rem.length], v,
          List.getElem?_eq_getElem hrow, hent, ?_, ?_, ?_⟩
        · intro hjv
          exact (List.nodup_append.mp hnd).2.2 j hjv j hjmem rfl
        · intro i' hi' j' hj'n hj'v u hu
          obtain ⟨a, ha⟩ := List.getElem?_of_mem hi'
          have hj'mem : j' ∈ rem := by
            have := hp.mem_iff.mpr (List.mem_range.mpr hj'n)
            rcases List.mem_append.mp this with h | h
            · exact absurd h hj'v
            · exact h
          obtain ⟨b, hb⟩ := List.getElem?_of_mem hj'mem
          have hbm : b < rem.length := (List.getElem?_eq_some_iff.mp hb).1
          have hpos := flatten_getElem?_rect hrows a b hbm
          rw [ent_ixSub hsq hvb hrb, ha, hb] at hpos
          simp only [Option.bind_some] at hpos
          exact hv.le_all _ u (hpos.trans hu)
        · intro r' i' hr' ha j' hj'n hj'v u hu
          obtain ⟨b, hb, hbm⟩ := hunv j' hj'n hj'v
          have hpos := flatten_getElem?_rect hrows r' b hbm
          rw [ent_ixSub hsq hvb hrb, ha, hb] at hpos
          simp only [Option.bind_some] at hpos
          refine hv.lt_before _ u ?_ (hpos.trans hu)
          have h1 : (r' + 1) * rem.length ≤ p / rem.length * rem.length :=
            Nat.mul_le_mul_right _ hr'
          rw [Nat.succ_mul] at h1
          omega
        · intro j' hj'lt hj'v u hu
          obtain ⟨b, hb, hbm⟩ := hunv j' (Nat.lt_trans hj'lt (hrb j hjmem)) hj'v
          have hbj : b < p % rem.length := by
            rcases Nat.lt_trichotomy b (p % rem.length) with h | h | h
            · exact h
            · subst h
              rw [hj] at hb
              have : j = j' := Option.some.inj hb
              omega
            · have := List.pairwise_iff_getElem.mp hsorted _ _ hjx hbm h
              have e1 : rem[p % rem.length] = j := hjdef
              have e2 : rem[b] = j' := (List.getElem?_eq_some_iff.mp hb).2
              omega
          have hpos := flatten_getElem?_rect hrows (p / rem.length) b hbm
          rw [ent_ixSub hsq hvb hrb, List.getElem?_eq_getElem hrow, hb] at hpos
          simp only [Option.bind_some] at hpos
          exact hv.lt_before _ u (by omega) (hpos.trans hu)
      · exact hstep k (by simp; omega) hkn

end loop

/-! ### the seed and the whole order -/

section top
variable {α : Type} [LinearOrder α] {n : Nat} {D : List (List α)}

/-- `ix` is the row of the first maximal entry of `D` in row-major order:
row `ix` holds a global maximum `v`, and every earlier row is strictly below `v`. -/
def SeedRow (D : List (List α)) (ix : Nat) : Prop :=
  ∃ j v, ent D ix j = some v ∧ (∀ i' j' u, ent D i' j' = some u → u ≤ v) ∧
    (∀ i' j' u, i' < ix → ent D i' j' = some u → u < v)

theorem vatOrder_empty : vatOrder ([] : List (List α)) = [] := by
  simp [vatOrder, argmaxFirst, nanargmax, nanargmaxV]

theorem vatOrder_seed (hsq : Square n D) (hn : 0 < n) :
    ∃ ix, ix < n ∧ SeedRow D ix ∧
      vatOrder D = vatLoop D n [ix] ((List.range n).eraseIdx ix) := by
  have hflen := flatten_length_rect hsq.2
  rw [hsq.1] at hflen
  have hfne : D.flatten ≠ [] := by
    intro h0
    rw [h0] at hflen
    have := Nat.mul_pos hn hn
    simp at hflen; omega
  obtain ⟨p, hp⟩ := argmaxFirst_isSome hfne
  obtain ⟨v, hat, hge, hgt⟩ := argmaxFirst_spec hp
  have hplt : p < n * n := by
    have := (List.getElem?_eq_some_iff.mp hat).1
    omega
  have hrow : p / n < n := Nat.div_lt_of_lt_mul hplt
  refine ⟨p / n, hrow, ⟨p % n, v, ?_, ?_, ?_⟩, ?_⟩
  · rw [← flatten_getElem?_divmod hsq.2 hn p]; exact hat
  · intro i' j' u hu
    obtain ⟨_, hj'⟩ := ent_eq_some_lt hsq hu
    exact hge (i' * n + j') u ((flatten_getElem?_rect hsq.2 i' j' hj').trans hu)
  · intro i' j' u hi' hu
    obtain ⟨_, hj'⟩ := ent_eq_some_lt hsq hu
    refine hgt (i' * n + j') u ?_ ((flatten_getElem?_rect hsq.2 i' j' hj').trans hu)
    have h1 : (i' + 1) * n ≤ p / n * n := Nat.mul_le_mul_right n hi'
    have h2 := Nat.div_mul_le_self p n
    rw [Nat.succ_mul] at h1
    omega
  · simp only [vatOrder, hp, hsq.1, ncols_of_square hsq hn]

/-- everything C20 says about the index vector, in one statement -/
theorem vatOrder_spec (hsq : Square n D) (hn : 0 < n) :
    (vatOrder D).Perm (List.range n) ∧
    (∃ ix, (vatOrder D)[0]? = some ix ∧ SeedRow D ix) ∧
    ∀ k, 1 ≤ k → k < n → ∃ nxt, (vatOrder D)[k]? = some nxt ∧
      PrimStep D n ((vatOrder D).take k) nxt := by
  obtain ⟨ix, hix, hseed, heq⟩ := vatOrder_seed hsq hn
  have hperm : ([ix] ++ (List.range n).eraseIdx ix).Perm (List.range n) :=
    cons_eraseIdx_perm (List.getElem?_range hix)
  obtain ⟨hP, hpre, hstep⟩ := vatLoop_spec hsq n [ix] ((List.range n).eraseIdx ix)
    (by rw [List.length_eraseIdx_of_lt (by simpa using hix)]; simp) hperm (by simp)
    (List.pairwise_lt_range.eraseIdx ix)
  rw [← heq] at hP hpre hstep
  refine ⟨hP, ⟨ix, ?_, hseed⟩, fun k hk hkn => hstep k (by simpa using hk) hkn⟩
  obtain ⟨t, ht⟩ := hpre
  rw [← ht]; simp

theorem vatOrder_perm (hsq : Square n D) : (vatOrder D).Perm (List.range n) := by
  rcases Nat.eq_zero_or_pos n with h0 | hn
  · subst h0
    have : D = [] := List.eq_nil_of_length_eq_zero hsq.1
    subst this
    rw [vatOrder_empty]; simp
  · exact (vatOrder_spec hsq hn).1

end top

end Art.VAT
