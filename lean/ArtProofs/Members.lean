/-
ArtProofs.Members — every category is exactly the fold of its module's
learning rule over the samples labelled with it (in presentation order),
started from the new-category rule applied to its first member.  Kernel-
independent; holds for every mode, epsilon and veto pattern.
-/
import ArtProofs.Fit

namespace Art

set_option linter.unusedSectionVars false

variable {X Wt α μ θ : Type}

/-- the samples labelled `k`, in presentation order -/
def members (xs : List X) (labels : List Nat) (k : Nat) : List X :=
  ((xs.zip labels).filter (fun p => p.2 == k)).map (·.1)

/-- fold of the learning rule over a category's members -/
def foldMembers (K : Kernel X Wt α μ) : List X → Option Wt
  | [] => none
  | m :: ms => some (ms.foldl (fun w x => K.update x w) (K.newW m))

theorem members_snoc (xs : List X) (labels : List Nat) (x : X) (c k : Nat)
    (h : labels.length = xs.length) :
    members (xs ++ [x]) (labels ++ [c]) k = members xs labels k ++ (if c = k then [x] else []) := by
  unfold members
  rw [List.zip_append h.symm]
  simp only [List.zip_cons_cons, List.zip_nil_right, List.filter_append, List.map_append]
  congr 1
  by_cases e : c = k
  · simp [List.filter, e]
  · have : (c == k) = false := by simpa using e
    simp [List.filter, e, this]

theorem foldMembers_snoc (K : Kernel X Wt α μ) (ms : List X) (x : X) (w : Wt)
    (h : foldMembers K ms = some w) : foldMembers K (ms ++ [x]) = some (K.update x w) := by
  cases ms with
  | nil => simp [foldMembers] at h
  | cons m ms =>
    simp only [foldMembers, Option.some.injEq] at h
    simp [foldMembers, List.foldl_append, h]

variable [LinearOrder α]

/-- The invariant: weights are member folds, labels align with the stream. -/
def MemberInv (K : Kernel X Wt α μ) (xs : List X) (s : ArtState Wt) : Prop :=
  s.labels.length = xs.length ∧ ∀ k, s.W[k]? = foldMembers K (members xs s.labels k)

theorem memberInv_step (K : Kernel X Wt α μ) (cfg : SearchCfg μ θ) (th0 : θ)
    (veto : ArtState Wt → X → Nat → Bool) (xs : List X) (s : ArtState Wt) (x : X)
    (h : MemberInv K xs s) : MemberInv K (xs ++ [x]) (trainStep K cfg th0 veto s x) := by
  obtain ⟨hlen, hW⟩ := h
  obtain ⟨_, hl, hcase⟩ := stepFit_frame K cfg th0 (veto s x) s x
  unfold trainStep
  generalize stepFit K cfg th0 (veto s x) s x = r at hl hcase
  obtain ⟨s', c⟩ := r
  simp only at hl hcase ⊢
  refine ⟨by simp [hl, hlen], ?_⟩
  intro k
  simp only [hl]
  rw [members_snoc xs s.labels x c k hlen]
  rcases hcase with ⟨hlt, w, hw, hW', _⟩ | ⟨he, hW', _⟩
  · rw [hW']
    by_cases e : c = k
    · subst e
      simp only [if_true]
      rw [List.getElem?_set_self hlt]
      have := hW c
      rw [hw] at this
      exact (foldMembers_snoc K _ x w this.symm).symm
    · simp only [e, if_false, List.append_nil]
      rw [List.getElem?_set_ne e]
      exact hW k
  · subst he
    rw [hW']
    by_cases e : s.W.length = k
    · subst e
      simp only [if_true]
      have hnone : foldMembers K (members xs s.labels s.W.length) = none := by
        rw [← hW]; simp
      have hnil : members xs s.labels s.W.length = [] := by
        cases hm : members xs s.labels s.W.length with
        | nil => rfl
        | cons m ms => rw [hm] at hnone; simp [foldMembers] at hnone
      rw [hnil]
      simp [foldMembers]
    · simp only [e, if_false, List.append_nil]
      rw [← hW k]
      rcases Nat.lt_or_gt_of_ne e with hgt | hlt
      · -- k > |W|
        rw [List.getElem?_eq_none (by simp; omega), List.getElem?_eq_none (by omega)]
      · rw [List.getElem?_append_left hlt]

/-- **Categories summarise exactly their members** (one training pass from an
empty model; any mode, epsilon, reset function): for every index `k`, the stored
weight is `update` folded over the members of `k` from `newW` of the first one —
and there is no weight at `k` iff no sample is labelled `k`. -/
theorem weights_are_member_folds (K : Kernel X Wt α μ) (cfg : SearchCfg μ θ) (th0 : θ)
    (veto : ArtState Wt → X → Nat → Bool) (xs : List X) :
    MemberInv K xs (partialFit K cfg th0 veto {} xs) := by
  have key : ∀ (pre xs : List X) (s : ArtState Wt), MemberInv K pre s →
      MemberInv K (pre ++ xs) (partialFit K cfg th0 veto s xs) := by
    intro pre xs
    induction xs generalizing pre with
    | nil => intro s h; simpa [partialFit] using h
    | cons x xs ih =>
      intro s h
      have := ih (pre ++ [x]) _ (memberInv_step K cfg th0 veto pre s x h)
      simpa [partialFit] using this
  have h0 : MemberInv K ([] : List X) ({} : ArtState Wt) := by
    refine ⟨rfl, fun k => ?_⟩
    simp [members, foldMembers]
  simpa using key [] xs {} h0

end Art
