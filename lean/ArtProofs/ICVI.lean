/-
ArtProofs.ICVI — algebra of the incremental Calinski-Harabasz index.
Vectors are lists; every vector identity is reduced to coordinates
(`co v j`), every scalar quantity to a `Finset.sum` over coordinates, and the
remaining one-dimensional identities are closed by `field_simp; ring`.
-/
import Mathlib.Algebra.BigOperators.Group.Finset.Basic
import Mathlib.Algebra.BigOperators.Ring.Finset
import Mathlib.Algebra.BigOperators.Group.List.Basic
import Mathlib.Algebra.Order.Field.Basic
import Mathlib.Data.List.Perm.Basic
import Mathlib.Data.List.Nodup
import Mathlib.Tactic.Ring
import Mathlib.Tactic.FieldSimp
import Mathlib.Tactic.Linarith
import ArtModel.ICVI
import ArtProofs.Search

namespace Art.ICVI

open Finset

set_option linter.unusedSectionVars false

variable {α : Type} [Field α]

/-! ### coordinates of list vectors -/

/-- `j`-th coordinate (0 outside the range) -/
def co (v : List α) (j : Nat) : α := v.getD j 0

@[simp] theorem co_nil (j : Nat) : co ([] : List α) j = 0 := by simp [co]
@[simp] theorem co_cons_zero (a : α) (v : List α) : co (a :: v) 0 = a := by simp [co]
@[simp] theorem co_cons_succ (a : α) (v : List α) (j : Nat) : co (a :: v) (j + 1) = co v j := by
  simp [co]

theorem vsum_eq_list_sum (v : List α) : vsum v = v.sum := by
  induction v with
  | nil => rfl
  | cons a v ih => simp [vsum, ih]

theorem vsum_eq (v : List α) : vsum v = ∑ j ∈ range v.length, co v j := by
  induction v with
  | nil => simp [vsum]
  | cons a v ih =>
    rw [vsum, ih, List.length_cons, Finset.sum_range_succ']
    simp [add_comm]

theorem co_zipWith (f : α → α → α) (a b : List α) (j : Nat) (ha : j < a.length)
    (hb : j < b.length) : co (List.zipWith f a b) j = f (co a j) (co b j) := by
  simp [co, List.getD_eq_getElem?_getD, ha, hb]

theorem co_map (g : α → α) (a : List α) (j : Nat) (ha : j < a.length) :
    co (a.map g) j = g (co a j) := by
  simp [co, List.getD_eq_getElem?_getD, ha]

theorem ext_co {d : Nat} {v w : List α} (hv : v.length = d) (hw : w.length = d)
    (h : ∀ j, j < d → co v j = co w j) : v = w := by
  apply List.ext_getElem (by omega)
  intro j h1 h2
  have := h j (by omega)
  simpa [co, List.getD_eq_getElem?_getD, h1, h2] using this

section lengths
variable {d : Nat} {a b : List α}

@[simp] theorem length_vadd : (vadd a b).length = min a.length b.length := by simp [vadd]
@[simp] theorem length_vsub : (vsub a b).length = min a.length b.length := by simp [vsub]
@[simp] theorem length_vmul : (vmul a b).length = min a.length b.length := by simp [vmul]
@[simp] theorem length_smul (c : α) : (smul c a).length = a.length := by simp [smul]
@[simp] theorem length_vdivs (c : α) : (vdivs a c).length = a.length := by simp [vdivs]
@[simp] theorem length_vzero : (vzero d : List α).length = d := by simp [vzero]

theorem co_vadd {j : Nat} (ha : j < a.length) (hb : j < b.length) :
    co (vadd a b) j = co a j + co b j := co_zipWith _ _ _ _ ha hb
theorem co_vsub {j : Nat} (ha : j < a.length) (hb : j < b.length) :
    co (vsub a b) j = co a j - co b j := co_zipWith _ _ _ _ ha hb
theorem co_vmul {j : Nat} (ha : j < a.length) (hb : j < b.length) :
    co (vmul a b) j = co a j * co b j := co_zipWith _ _ _ _ ha hb
theorem co_smul (c : α) {j : Nat} (ha : j < a.length) : co (smul c a) j = c * co a j :=
  co_map _ _ _ ha
theorem co_vdivs (c : α) {j : Nat} (ha : j < a.length) : co (vdivs a c) j = co a j / c :=
  co_map _ _ _ ha
theorem co_vzero {j : Nat} : co (vzero d : List α) j = 0 := by
  simp only [co, vzero, List.getD_eq_getElem?_getD, List.getElem?_replicate]
  split <;> rfl

theorem dot_eq (ha : a.length = d) (hb : b.length = d) :
    dot a b = ∑ j ∈ range d, co a j * co b j := by
  rw [dot, vsum_eq]
  simp only [length_vmul, ha, hb, min_self]
  apply Finset.sum_congr rfl
  intro j hj
  rw [Finset.mem_range] at hj
  exact co_vmul (by omega) (by omega)

theorem l2sq_eq (ha : a.length = d) : l2sq a = ∑ j ∈ range d, co a j ^ 2 := by
  rw [l2sq, dot_eq ha ha]
  exact Finset.sum_congr rfl (fun j _ => by ring)

end lengths

/-! ### sums over lists of points -/

/-- every vector of the list has length `d` -/
def AllLen (d : Nat) (xs : List (List α)) : Prop := ∀ y ∈ xs, y.length = d

theorem AllLen.cons {d : Nat} {x : List α} {xs : List (List α)} (hx : x.length = d)
    (h : AllLen d xs) : AllLen d (x :: xs) := by
  intro y hy
  rcases List.mem_cons.mp hy with rfl | hy
  · exact hx
  · exact h y hy

theorem AllLen.tail {d : Nat} {x : List α} {xs : List (List α)} (h : AllLen d (x :: xs)) :
    AllLen d xs := fun y hy => h y (List.mem_cons_of_mem _ hy)

theorem AllLen.head {d : Nat} {x : List α} {xs : List (List α)} (h : AllLen d (x :: xs)) :
    x.length = d := h x (List.mem_cons_self ..)

theorem AllLen.perm {d : Nat} {xs ys : List (List α)} (p : xs.Perm ys) (h : AllLen d xs) :
    AllLen d ys := fun y hy => h y (p.mem_iff.mpr hy)

/-- coordinate sum and coordinate sum of squares of a list of points -/
def P1 (xs : List (List α)) (j : Nat) : α := (xs.map (fun y => co y j)).sum
def P2 (xs : List (List α)) (j : Nat) : α := (xs.map (fun y => co y j ^ 2)).sum

@[simp] theorem P1_nil (j : Nat) : P1 ([] : List (List α)) j = 0 := by simp [P1]
@[simp] theorem P2_nil (j : Nat) : P2 ([] : List (List α)) j = 0 := by simp [P2]
@[simp] theorem P1_cons (x : List α) (xs : List (List α)) (j : Nat) :
    P1 (x :: xs) j = co x j + P1 xs j := by simp [P1]
@[simp] theorem P2_cons (x : List α) (xs : List (List α)) (j : Nat) :
    P2 (x :: xs) j = co x j ^ 2 + P2 xs j := by simp [P2]
theorem P1_perm {xs ys : List (List α)} (p : xs.Perm ys) (j : Nat) : P1 xs j = P1 ys j :=
  (p.map _).sum_eq
theorem P2_perm {xs ys : List (List α)} (p : xs.Perm ys) (j : Nat) : P2 xs j = P2 ys j :=
  (p.map _).sum_eq

section
variable {d : Nat} {xs : List (List α)}

theorem length_vsumAll (h : AllLen d xs) : (vsumAll d xs).length = d := by
  induction xs with
  | nil => simp [vsumAll]
  | cons x xs ih =>
    have := ih h.tail
    simp only [vsumAll, List.foldr_cons] at this ⊢
    simp [this, h.head]

theorem co_vsumAll (h : AllLen d xs) {j : Nat} (hj : j < d) : co (vsumAll d xs) j = P1 xs j := by
  induction xs with
  | nil => simp [vsumAll, co_vzero]
  | cons x xs ih =>
    have hl := length_vsumAll h.tail
    have := ih h.tail
    simp only [vsumAll, List.foldr_cons] at this hl ⊢
    rw [co_vadd (by rw [h.head]; exact hj) (by rw [hl]; exact hj), this, P1_cons]

theorem length_vmean (h : AllLen d xs) : (vmean d xs).length = d := by
  simp [vmean, length_vsumAll h]

theorem co_vmean (h : AllLen d xs) {j : Nat} (hj : j < d) :
    co (vmean d xs) j = P1 xs j / (xs.length : α) := by
  rw [vmean, co_vdivs _ (by rw [length_vsumAll h]; exact hj), co_vsumAll h hj]

theorem sum_sq_dev (s : List α) (c : α) :
    (s.map (fun y => (y - c) ^ 2)).sum
      = (s.map (fun y => y ^ 2)).sum - 2 * c * s.sum + (s.length : α) * c ^ 2 := by
  induction s with
  | nil => simp
  | cons a s ih =>
    simp only [List.map_cons, List.sum_cons, ih, List.length_cons]
    push_cast
    ring

/-- `Σ_y ‖y − c‖²` through the per-coordinate sufficient statistics -/
theorem ssq_stat (h : AllLen d xs) {c : List α} (hc : c.length = d) :
    ssq xs c = ∑ j ∈ range d, (P2 xs j - 2 * co c j * P1 xs j + (xs.length : α) * co c j ^ 2) := by
  have h1 : ssq xs c = ∑ j ∈ range d, (xs.map (fun y => (co y j - co c j) ^ 2)).sum := by
    rw [ssq, vsum_eq_list_sum]
    induction xs with
    | nil => simp
    | cons x xs ih =>
      simp only [List.map_cons, List.sum_cons, ih h.tail, Finset.sum_add_distrib]
      congr 1
      rw [l2sq_eq (d := d) (by simp [h.head, hc])]
      apply Finset.sum_congr rfl
      intro j hj
      rw [Finset.mem_range] at hj
      rw [co_vsub (by rw [h.head]; exact hj) (by rw [hc]; exact hj)]
  rw [h1]
  apply Finset.sum_congr rfl
  intro j _
  have := sum_sq_dev (xs.map (fun y => co y j)) (co c j)
  simp only [List.map_map, List.length_map] at this
  simpa [P1, P2, Function.comp_def] using this

end

/-! ### one cluster: the Δ-mean / compactness / `G` recurrences -/

section cluster
variable [LinearOrder α] [IsStrictOrderedRing α] {d : Nat}

/-- the record the invariant prescribes for a cluster with member list `S` -/
def cluOfList (d : Nat) (S : List (List α)) : Clu α :=
  ⟨S.length, vmean d S, ssq S (vmean d S), vzero d⟩

theorem cluOf_eq (D : List (List α × Nat)) (l : Nat) : cluOf d D l = cluOfList d (members D l) := rfl

/-- `add_sample` on an existing cluster: count, centroid, compactness and the
`G` vector of `x :: S` come out, and `CP_diff` is the change of compactness. -/
theorem cluAdd_spec {S : List (List α)} {x : List α} (hS : S ≠ []) (h : AllLen d S)
    (hx : x.length = d) :
    cluAdd (cluOfList d S) x
      = (cluOfList d (x :: S), ssq (x :: S) (vmean d (x :: S)) - ssq S (vmean d S)) := by
  have h' : AllLen d (x :: S) := h.cons hx
  have hn : (S.length : α) ≠ 0 := by
    have : S.length ≠ 0 := by simpa using hS
    exact_mod_cast this
  have hn1 : (S.length : α) + 1 ≠ 0 := by exact_mod_cast Nat.succ_ne_zero S.length
  have hvl := length_vmean (α := α) h
  have hvl' := length_vmean (α := α) h'
  -- coordinates of the intermediate vectors
  set v := vmean d S with hvdef
  set dV := smul (-1 : α) (deltaAdd v x (S.length + 1)) with hdV
  have hdVl : dV.length = d := by simp [hdV, deltaAdd, hx, hvl]
  have cdV : ∀ j, j < d → co dV j = -((co x j - P1 S j / (S.length : α)) / ((S.length : α) + 1)) := by
    intro j hj
    rw [hdV, co_smul _ (by simp [deltaAdd, hx, hvl, hj]), deltaAdd,
      co_vdivs _ (by simp [hx, hvl, hj]), co_vsub (by omega) (by omega), hvdef, co_vmean h hj]
    push_cast
    ring
  have hv' : vsub v dV = vmean d (x :: S) := by
    apply ext_co (d := d) (by simp [hvl, hdVl]) hvl'
    intro j hj
    rw [co_vsub (by omega) (by omega), cdV j hj, hvdef, co_vmean h hj, co_vmean h' hj]
    simp only [P1_cons, List.length_cons]
    push_cast
    field_simp
    ring
  have cv' : ∀ j, j < d → co (vmean d (x :: S)) j = (co x j + P1 S j) / ((S.length : α) + 1) := by
    intro j hj
    rw [co_vmean h' hj]
    simp only [P1_cons, List.length_cons]
    push_cast
    rfl
  have hG : vadd (vadd (vzero d) (vsub x (vmean d (x :: S))))
      (smul (((S.length + 1 : ℕ) : α) - 1) dV) = vzero d := by
    apply ext_co (d := d) (by simp [hx, hvl', hdVl]) (by simp)
    intro j hj
    rw [co_vadd (by simp [hx, hvl', hj]) (by simp [hdVl, hj]),
      co_vadd (by simp [hj]) (by simp [hx, hvl', hj]), co_vsub (by omega) (by omega),
      co_smul _ (by omega), cdV j hj, cv' j hj, co_vzero]
    push_cast
    field_simp
    ring
  have hCP : ssq S v + (dot (vsub x (vmean d (x :: S))) (vsub x (vmean d (x :: S)))
      + (((S.length + 1 : ℕ) : α) - 1) * dot dV dV + (1 + 1) * dot dV (vzero d))
      = ssq (x :: S) (vmean d (x :: S)) := by
    rw [ssq_stat h hvl, ssq_stat h' hvl',
      dot_eq (d := d) (by simp [hx, hvl']) (by simp [hx, hvl']), dot_eq hdVl hdVl,
      dot_eq hdVl (by simp), Finset.mul_sum, Finset.mul_sum, ← Finset.sum_add_distrib,
      ← Finset.sum_add_distrib, ← Finset.sum_add_distrib]
    apply Finset.sum_congr rfl
    intro j hj
    rw [Finset.mem_range] at hj
    rw [co_vsub (by omega) (by omega), cdV j hj, cv' j hj, hvdef, co_vmean h hj, co_vzero]
    simp only [P1_cons, P2_cons, List.length_cons]
    push_cast
    field_simp
    ring
  simp only [cluAdd, cluOfList]
  rw [← hvdef, ← hdV, hv', hG]
  refine Prod.ext ?_ ?_
  · simp only [Clu.mk.injEq, List.length_cons, true_and, and_true]
    exact hCP
  · simp only
    rw [← hCP]
    ring

/-- `remove_sample` on a cluster `T` that contains `x` and at least one more point. -/
theorem cluRemove_spec {T S : List (List α)} {x : List α} (p : T.Perm (x :: S)) (hS : S ≠ [])
    (h : AllLen d T) :
    cluRemove (cluOfList d T) x
      = (cluOfList d S, ssq S (vmean d S) - ssq T (vmean d T)) := by
  have hxS : AllLen d (x :: S) := h.perm p
  have hx : x.length = d := hxS.head
  have h' : AllLen d S := hxS.tail
  have hTl : T.length = S.length + 1 := by simpa using p.length_eq
  have hn : (S.length : α) ≠ 0 := by
    have : S.length ≠ 0 := by simpa using hS
    exact_mod_cast this
  have hn1 : (S.length : α) + 1 ≠ 0 := by exact_mod_cast Nat.succ_ne_zero S.length
  have hvl := length_vmean (α := α) h
  have hvl' := length_vmean (α := α) h'
  have hP1 : ∀ j, P1 T j = co x j + P1 S j := fun j => by rw [P1_perm p j, P1_cons]
  have hP2 : ∀ j, P2 T j = co x j ^ 2 + P2 S j := fun j => by rw [P2_perm p j, P2_cons]
  set v := vmean d T with hvdef
  have cv : ∀ j, j < d → co v j = (co x j + P1 S j) / ((S.length : α) + 1) := by
    intro j hj
    rw [hvdef, co_vmean h hj, hP1, hTl]
    push_cast
    rfl
  set dV := deltaRemove v x T.length with hdV
  have hdVl : dV.length = d := by simp [hdV, deltaRemove, hx, hvl]
  have cdV : ∀ j, j < d → co dV j = (co v j - co x j) / (S.length : α) := by
    intro j hj
    rw [hdV, deltaRemove, co_vdivs _ (by simp [hx, hvl, hj]), co_vsub (by omega) (by omega), hTl]
    push_cast
    ring
  have hcn : T.length - 1 = S.length := by omega
  have hv' : vadd v dV = vmean d S := by
    apply ext_co (d := d) (by simp [hvl, hdVl]) hvl'
    intro j hj
    rw [co_vadd (by omega) (by omega), cdV j hj, cv j hj, co_vmean h' hj]
    field_simp
    ring
  have hG : vsub (vzero d) (vadd (vsub x v) (smul ((S.length : ℕ) : α) dV)) = vzero d := by
    apply ext_co (d := d) (by simp [hx, hvl, hdVl]) (by simp)
    intro j hj
    rw [co_vsub (by simp [hj]) (by simp [hx, hvl, hdVl, hj]),
      co_vadd (by simp [hx, hvl, hj]) (by simp [hdVl, hj]), co_vsub (by omega) (by omega),
      co_smul _ (by omega), cdV j hj, co_vzero]
    field_simp
    ring
  have hCP : ssq T v + (-1 : α) * (dot (vsub x v) (vsub x v)
      + ((S.length : ℕ) : α) * dot dV dV + (1 + 1) * dot dV (vzero d))
      = ssq S (vmean d S) := by
    rw [ssq_stat h hvl, ssq_stat h' hvl',
      dot_eq (d := d) (by simp [hx, hvl]) (by simp [hx, hvl]), dot_eq hdVl hdVl,
      dot_eq hdVl (by simp), Finset.mul_sum, Finset.mul_sum, ← Finset.sum_add_distrib,
      ← Finset.sum_add_distrib, Finset.mul_sum, ← Finset.sum_add_distrib]
    apply Finset.sum_congr rfl
    intro j hj
    rw [Finset.mem_range] at hj
    rw [co_vsub (by omega) (by omega), cdV j hj, cv j hj, co_vmean h' hj, co_vzero, hP1, hP2, hTl]
    push_cast
    field_simp
    ring
  simp only [cluRemove, cluOfList]
  rw [← hvdef, ← hdV, hcn, hv', hG]
  refine Prod.ext ?_ ?_
  · simp only [Clu.mk.injEq, true_and, and_true]
    exact hCP
  · simp only
    rw [← hCP]
    ring

theorem vmean_singleton {x : List α} (hx : x.length = d) : vmean d [x] = x := by
  have h : AllLen d [x] := AllLen.cons hx (fun _ hy => by simp at hy)
  apply ext_co (length_vmean h) hx
  intro j hj
  rw [co_vmean h hj]
  simp

/-- a one-point cluster -/
theorem cluOfList_singleton {x : List α} (hx : x.length = d) :
    cluOfList d [x] = ⟨1, x, 0, vzero d⟩ := by
  have h : AllLen d [x] := AllLen.cons hx (fun _ hy => by simp at hy)
  have hv : vmean d [x] = x := vmean_singleton hx
  simp only [cluOfList, hv, List.length_singleton, Clu.mk.injEq, true_and, and_true]
  rw [ssq_stat h hx]
  apply Finset.sum_eq_zero
  intro j _
  simp
  ring

/-- the record depends on the member list only up to permutation -/
theorem cluOfList_perm {T S : List (List α)} (p : T.Perm S) (h : AllLen d T) :
    cluOfList d T = cluOfList d S := by
  have h' : AllLen d S := h.perm p
  have hv : vmean d T = vmean d S := by
    apply ext_co (length_vmean h) (length_vmean h')
    intro j hj
    rw [co_vmean h hj, co_vmean h' hj, P1_perm p j, p.length_eq]
  simp only [cluOfList, hv, p.length_eq, Clu.mk.injEq, true_and, and_true]
  rw [ssq, ssq, vsum_eq_list_sum, vsum_eq_list_sum]
  exact (p.map _).sum_eq

/-- Δ-mean of the whole data set -/
theorem mean_add {X : List (List α)} {x : List α} (hX : X ≠ []) (h : AllLen d X)
    (hx : x.length = d) :
    vadd (vmean d X) (deltaAdd (vmean d X) x (X.length + 1)) = vmean d (x :: X) := by
  have h' : AllLen d (x :: X) := h.cons hx
  have hn : (X.length : α) ≠ 0 := by
    have : X.length ≠ 0 := by simpa using hX
    exact_mod_cast this
  have hn1 : (X.length : α) + 1 ≠ 0 := by exact_mod_cast Nat.succ_ne_zero X.length
  have hvl := length_vmean (α := α) h
  apply ext_co (d := d) (by simp [deltaAdd, hvl, hx]) (length_vmean h')
  intro j hj
  rw [co_vadd (by omega) (by simp [deltaAdd, hvl, hx, hj]), deltaAdd,
    co_vdivs _ (by simp [hvl, hx, hj]), co_vsub (by omega) (by omega), co_vmean h hj,
    co_vmean h' hj]
  simp only [P1_cons, List.length_cons]
  push_cast
  field_simp
  ring

end cluster

/-! ### the label dictionary as `keys.map (fun k => (k, g k))` -/

section dict
variable {β : Type}

/-- key list after `CD[l] = …` -/
def insKey (K : List Nat) (l : Nat) : List Nat := if l ∈ K then K else K ++ [l]

theorem lookup_map (K : List Nat) (g : Nat → Clu β) (l : Nat) :
    lookup (K.map (fun k => (k, g k))) l = if l ∈ K then some (g l) else none := by
  induction K with
  | nil => simp [lookup]
  | cons k K ih =>
    simp only [List.map_cons, lookup, ih, List.mem_cons]
    by_cases h : k = l
    · subst h; simp
    · have h' : ¬ l = k := fun e => h e.symm
      simp [h, h']

theorem setCD_map (K : List Nat) (hK : K.Nodup) (g : Nat → Clu β) (l : Nat) (c : Clu β) :
    setCD (K.map (fun k => (k, g k))) l c
      = (insKey K l).map (fun k => (k, if k = l then c else g k)) := by
  induction K with
  | nil => simp [setCD, insKey]
  | cons k K ih =>
    have hK' := (List.nodup_cons.mp hK)
    simp only [List.map_cons, setCD]
    by_cases h : k = l
    · subst h
      have : ∀ k' ∈ K, ¬ k' = k := fun k' hk' e => hK'.1 (e ▸ hk')
      simp only [insKey, List.mem_cons, true_or, if_true, List.map_cons]
      congr 1
      apply List.map_congr_left
      intro k' hk'
      simp [this k' hk']
    · have h' : ¬ l = k := fun e => h e.symm
      simp only [h, if_false, ih hK'.2, insKey, List.mem_cons, h', false_or]
      split <;> simp [h]

theorem insKey_nodup {K : List Nat} (hK : K.Nodup) (l : Nat) : (insKey K l).Nodup := by
  unfold insKey
  split
  · exact hK
  · rename_i h
    exact List.Nodup.append hK (by simp) (by simp [h])

theorem mem_insKey {K : List Nat} {l k : Nat} : k ∈ insKey K l ↔ k ∈ K ∨ k = l := by
  unfold insKey
  split
  · rename_i h
    constructor
    · exact Or.inl
    · rintro (h' | rfl) <;> assumption
  · simp

theorem insKey_of_mem {K : List Nat} {l : Nat} (h : l ∈ K) : insKey K l = K := by simp [insKey, h]

theorem length_insKey (K : List Nat) (l : Nat) :
    (insKey K l).length = if l ∈ K then K.length else K.length + 1 := by
  unfold insKey; split <;> simp

/-- changing one entry of a sum over distinct keys -/
theorem sum_map_insKey {K : List Nat} (hK : K.Nodup) (l : Nat) (f f' : Nat → α)
    (hf : ∀ k, k ≠ l → f' k = f k) :
    ((insKey K l).map f').sum = (K.map f).sum + (f' l - if l ∈ K then f l else 0) := by
  induction K with
  | nil => simp [insKey]
  | cons k K ih =>
    have hK' := (List.nodup_cons.mp hK)
    by_cases h : k = l
    · subst h
      have : K.map f' = K.map f :=
        List.map_congr_left (fun k' hk' => hf k' (fun e => hK'.1 (e ▸ hk')))
      simp [insKey, this]
      ring
    · have h' : ¬ l = k := fun e => h e.symm
      have e1 : insKey (k :: K) l = k :: insKey K l := by
        unfold insKey
        simp only [List.mem_cons, h', false_or]
        split <;> simp
      rw [e1, List.map_cons, List.sum_cons, ih hK'.2, hf k h]
      simp only [List.map_cons, List.sum_cons, List.mem_cons, h', false_or]
      ring

end dict

/-! ### labelled data -/

section data
variable {d : Nat}

theorem mem_dedupL {l : List Nat} {a : Nat} : a ∈ dedupL l ↔ a ∈ l := by
  induction l with
  | nil => simp [dedupL]
  | cons b l ih =>
    simp only [dedupL, List.mem_cons, List.mem_filter, ih, bne_iff_ne, ne_eq]
    by_cases h : a = b <;> simp [h]

theorem nodup_dedupL (l : List Nat) : (dedupL l).Nodup := by
  induction l with
  | nil => simp [dedupL]
  | cons b l ih =>
    simp only [dedupL, List.nodup_cons, List.mem_filter, bne_self_eq_false, Bool.false_eq_true,
      and_false, not_false_eq_true, true_and]
    exact ih.filter _

theorem mem_labelsOf {D : List (List α × Nat)} {l : Nat} : l ∈ labelsOf D ↔ l ∈ D.map (·.2) :=
  mem_dedupL

/-- any duplicate-free list of exactly the labels of `D` is a permutation of `labelsOf D` -/
theorem keys_perm {D : List (List α × Nat)} {K : List Nat} (hK : K.Nodup)
    (hm : ∀ l, l ∈ K ↔ l ∈ D.map (·.2)) : K.Perm (labelsOf D) :=
  (List.perm_ext_iff_of_nodup hK (nodup_dedupL _)).mpr (fun l => (hm l).trans mem_labelsOf.symm)

/-- every point has dimension `d` -/
def WF (d : Nat) (D : List (List α × Nat)) : Prop := ∀ p ∈ D, p.1.length = d

theorem WF.allLen_members {D : List (List α × Nat)} (h : WF d D) (l : Nat) : AllLen d (members D l) := by
  intro y hy
  simp only [members, List.mem_map, List.mem_filter] at hy
  obtain ⟨p, ⟨hp, _⟩, rfl⟩ := hy
  exact h p hp

theorem WF.allLen_points {D : List (List α × Nat)} (h : WF d D) : AllLen d (D.map (·.1)) := by
  intro y hy
  simp only [List.mem_map] at hy
  obtain ⟨p, hp, rfl⟩ := hy
  exact h p hp

theorem members_cons (x : List α) (l : Nat) (D : List (List α × Nat)) (k : Nat) :
    members ((x, l) :: D) k = if l = k then x :: members D k else members D k := by
  simp only [members, List.filter_cons, beq_iff_eq]
  split <;> rfl

theorem members_append (D₁ D₂ : List (List α × Nat)) (k : Nat) :
    members (D₁ ++ D₂) k = members D₁ k ++ members D₂ k := by
  simp [members]

theorem members_eq_nil {D : List (List α × Nat)} {k : Nat} :
    members D k = [] ↔ k ∉ D.map (·.2) := by
  simp only [members, List.map_eq_nil_iff, List.filter_eq_nil_iff, beq_iff_eq, List.mem_map,
    not_exists, not_and]

end data

/-! ### the invariant -/

section inv
variable [LinearOrder α] [IsStrictOrderedRing α] {d : Nat}

/-- The record of an `iCVI_CH` object describes the labelled data `D`:
sample count, mean, one dictionary entry per label present (count, centroid,
compactness, zero `G`), within-group sum of squares, and the criterion value is
the batch Calinski-Harabasz index of `D`. -/
structure Inv (d : Nat) (st : State α) (D : List (List α × Nat)) : Prop where
  dim_eq : st.dim = d
  n_eq : st.n = D.length
  mu_nil : D = [] → st.mu = []
  mu_eq : D ≠ [] → st.mu = vmean d (D.map (·.1))
  keys_nodup : (st.CD.map (·.1)).Nodup
  keys_mem : ∀ l, l ∈ st.CD.map (·.1) ↔ l ∈ D.map (·.2)
  entries : st.CD = (st.CD.map (·.1)).map (fun l => (l, cluOf d D l))
  wgss_eq : st.WGSS = wgssB d D
  crit_eq : st.crit = chBatchD d D

theorem wgssB_keys {D : List (List α × Nat)} {K : List Nat} (hK : K.Nodup)
    (hm : ∀ l, l ∈ K ↔ l ∈ D.map (·.2)) :
    wgssB d D = (K.map (fun k => (cluOf d D k).CP)).sum := by
  rw [wgssB, vsum_eq_list_sum]
  exact ((keys_perm hK hm).map _).sum_eq.symm

theorem bgssB_keys {D : List (List α × Nat)} {K : List Nat} (hK : K.Nodup)
    (hm : ∀ l, l ∈ K ↔ l ∈ D.map (·.2)) :
    bgssB d D = (K.map (fun k =>
      sepTerm (vmean d (D.map (·.1))) (cluOf d D k).n (cluOf d D k).v)).sum := by
  rw [bgssB, vsum_eq_list_sum]
  exact ((keys_perm hK hm).map _).sum_eq.symm

theorem chValue_batch (D : List (List α × Nat)) :
    chValue (bgssB d D) (wgssB d D) D.length (labelsOf D).length = chBatchD d D := by
  unfold chValue chBatchD
  simp only
  split
  · rfl
  · by_cases hnk : D.length = (labelsOf D).length
    · simp [hnk]
    · by_cases hw : wgssB d D = 0 <;> simp [hnk, hw]

theorem inv_of_keys {D' : List (List α × Nat)} {K' : List Nat} {n' : Nat} {mu' : List α}
    {W' c' : α} {CD' : List (Nat × Clu α)}
    (hK : K'.Nodup) (hm : ∀ l, l ∈ K' ↔ l ∈ D'.map (·.2)) (hD : D' ≠ [])
    (hn : n' = D'.length) (hmu : mu' = vmean d (D'.map (·.1)))
    (hCD : CD' = K'.map (fun k => (k, cluOf d D' k)))
    (hW : W' = (K'.map (fun k => (cluOf d D' k).CP)).sum)
    (hc : c' = chValue ((K'.map (fun k => sepTerm mu' (cluOf d D' k).n (cluOf d D' k).v)).sum)
      W' n' K'.length) :
    Inv d ⟨d, n', mu', CD', W', c'⟩ D' := by
  have hkeys : CD'.map (·.1) = K' := by simp [hCD, List.map_map, Function.comp_def]
  have hW' : W' = wgssB d D' := by rw [hW, wgssB_keys hK hm]
  refine ⟨rfl, hn, fun h => absurd h hD, fun _ => hmu, ?_, ?_, ?_, hW', ?_⟩
  · simpa [hkeys] using hK
  · simpa [hkeys] using hm
  · simp only [hkeys]; exact hCD
  · simp only
    rw [hc, hmu, ← bgssB_keys hK hm, hW', hn, (keys_perm hK hm).length_eq]
    exact chValue_batch D'

theorem Inv.keys {st : State α} {D : List (List α × Nat)} (hI : Inv d st D) :
    ∃ K : List Nat, K.Nodup ∧ (∀ l, l ∈ K ↔ l ∈ D.map (·.2)) ∧
      st.CD = K.map (fun k => (k, cluOf d D k)) :=
  ⟨_, hI.keys_nodup, hI.keys_mem, hI.entries⟩

theorem WF.cons {D : List (List α × Nat)} {x : List α} (hwf : WF d D) (hx : x.length = d)
    (l : Nat) : WF d ((x, l) :: D) := by
  intro p hp
  rcases List.mem_cons.mp hp with rfl | hp
  · exact hx
  · exact hwf p hp

theorem mu_add {st : State α} {D : List (List α × Nat)} {x : List α} (hI : Inv d st D)
    (hwf : WF d D) (hx : x.length = d) :
    (if st.mu.isEmpty then x else vadd st.mu (deltaAdd st.mu x (st.n + 1)))
      = vmean d (x :: D.map (·.1)) := by
  by_cases hD : D = []
  · subst hD
    rw [hI.mu_nil rfl]
    simpa using (vmean_singleton hx).symm
  · rw [hI.mu_eq hD, hI.n_eq]
    have hl := length_vmean (α := α) hwf.allLen_points
    by_cases hd : d = 0
    · apply ext_co (d := d) ?_ (length_vmean (hwf.allLen_points.cons hx)) (fun j hj => by omega)
      split
      · exact hx
      · simp [deltaAdd, hl, hx]
    · have : (vmean d (D.map (·.1))).isEmpty = false := by
        rw [List.isEmpty_eq_false_iff]
        intro e
        rw [e] at hl
        simp at hl
        omega
      rw [this]
      simp only [Bool.false_eq_true, if_false]
      have := mean_add (x := x) (by simpa using hD) hwf.allLen_points hx
      simpa using this

theorem cluOf_cons_ne {D : List (List α × Nat)} {x : List α} {l k : Nat} (h : l ≠ k) :
    cluOf d ((x, l) :: D) k = cluOf d D k := by
  simp [cluOf, members_cons, h]

/-- **`add_sample` + `update` preserves the invariant.** -/
theorem add_inv {st : State α} {D : List (List α × Nat)} {x : List α} {l : Nat}
    (hwf : WF d D) (hx : x.length = d) (hI : Inv d st D) :
    Inv d (update st (addSample st x l)) ((x, l) :: D) := by
  obtain ⟨K, hKnd, hKm, hE⟩ := hI.keys
  have hmu := mu_add hI hwf hx
  have hW := hI.wgss_eq
  rw [wgssB_keys hKnd hKm] at hW
  have hn := hI.n_eq
  have hdim := hI.dim_eq
  obtain ⟨dim, n, mu, CD, W, c⟩ := st
  simp only at hE hmu hW hn hdim
  subst hE hdim hn
  by_cases hl : l ∈ K
  · have hS : members D l ≠ [] := by
      rw [Ne, members_eq_nil]; simpa using (hKm l).mp hl
    have hspec := cluAdd_spec (d := dim) hS (hwf.allLen_members l) hx
    have hD'l : cluOfList dim (x :: members D l) = cluOf dim ((x, l) :: D) l := by
      simp [cluOf_eq, members_cons]
    rw [← cluOf_eq, hD'l] at hspec
    simp only [addSample, update, lookup_map, hl, if_true, hspec, hmu]
    have hne : ∀ k, k ≠ l → cluOf dim ((x, l) :: D) k = cluOf dim D k :=
      fun k hk => cluOf_cons_ne (fun e => hk e.symm)
    refine inv_of_keys (K' := K) hKnd ?_ (by simp) (by simp) (by simp) ?_ ?_ ?_
    · intro k
      simp only [List.map_cons, List.mem_cons, ← hKm]
      constructor
      · exact Or.inr
      · rintro (rfl | h) <;> assumption
    · rw [setCD_map K hKnd, insKey_of_mem hl]
      apply List.map_congr_left
      intro k _
      by_cases hk : k = l
      · subst hk; simp
      · simp [hk, hne k hk]
    · have := sum_map_insKey hKnd l (fun k => (cluOf dim D k).CP)
        (fun k => (cluOf dim ((x, l) :: D) k).CP) (fun k hk => by rw [hne k hk])
      rw [insKey_of_mem hl] at this
      rw [this, hW]
      simp [hl, cluOf, members_cons]
    · congr 1
      · rw [vsum_eq_list_sum, List.map_map]
        congr 1
        apply List.map_congr_left
        intro k _
        by_cases hk : k = l
        · subst hk; simp
        · simp [hk, hne k hk]
      · simp
  · have hS : members D l = [] := by
      rw [members_eq_nil]; simpa using fun h => hl ((hKm l).mpr h)
    have hD'l : cluOf dim ((x, l) :: D) l = ⟨1, x, 0, vzero dim⟩ := by
      rw [cluOf_eq, members_cons, if_pos rfl, hS, cluOfList_singleton hx]
    have hne : ∀ k, k ≠ l → cluOf dim ((x, l) :: D) k = cluOf dim D k :=
      fun k hk => cluOf_cons_ne (fun e => hk e.symm)
    have hKl : ∀ k ∈ K, k ≠ l := fun k hk e => hl (e ▸ hk)
    simp only [addSample, update, lookup_map, hl, if_false, hmu]
    refine inv_of_keys (K' := insKey K l) (insKey_nodup hKnd l) ?_ (by simp) (by simp) (by simp)
      ?_ ?_ ?_
    · intro k
      simp only [mem_insKey, List.map_cons, List.mem_cons, ← hKm]
      tauto
    · rw [setCD_map K hKnd]
      apply List.map_congr_left
      intro k _
      by_cases hk : k = l
      · subst hk; simp [hD'l]
      · simp [hk, hne k hk]
    · have := sum_map_insKey hKnd l (fun k => (cluOf dim D k).CP)
        (fun k => (cluOf dim ((x, l) :: D) k).CP) (fun k hk => by rw [hne k hk])
      rw [this, hW]
      simp [hl, hD'l]
    · congr 1
      · have := sum_map_insKey hKnd l
          (fun k => sepTerm (vmean dim (x :: List.map (fun x => x.1) D)) (cluOf dim D k).n
            (cluOf dim D k).v)
          (fun k => sepTerm (vmean dim (x :: List.map (fun x => x.1) D))
            (cluOf dim ((x, l) :: D) k).n (cluOf dim ((x, l) :: D) k).v)
          (fun k hk => by simp only [hne k hk])
        rw [this, vsum_eq_list_sum, List.map_map]
        simp [hl, hD'l, sepTerm, Function.comp_def, add_comm]
      · simp [length_insKey, hl]

/-- cluster part of `add_sample` when the members of the label after the step are a
permutation of `x ::` the members before -/
theorem addSample_clu {D D' : List (List α × Nat)} {K : List Nat} {x : List α} {ln : Nat}
    {n : Nat} {mu : List α} {W c : α}
    (hwf : WF d D) (hx : x.length = d) (hK : ln ∈ K ↔ members D ln ≠ [])
    (hp : (members D' ln).Perm (x :: members D ln)) :
    let pa := addSample ⟨d, n, mu, K.map (fun k => (k, cluOf d D k)), W, c⟩ x ln
    pa.CD = cluOf d D' ln ∧ pa.second = none ∧ pa.label = ln ∧
      pa.CPdiff = (cluOf d D' ln).CP - (if ln ∈ K then (cluOf d D ln).CP else 0) := by
  have hall : AllLen d (x :: members D ln) := (hwf.allLen_members ln).cons hx
  have hD' : cluOf d D' ln = cluOfList d (x :: members D ln) := by
    rw [cluOf_eq]
    exact cluOfList_perm hp (hall.perm hp.symm)
  by_cases hl : ln ∈ K
  · have hspec := cluAdd_spec (d := d) (hK.mp hl) (hwf.allLen_members ln) hx
    rw [← cluOf_eq] at hspec
    simp only [addSample, lookup_map, hl, if_true, hspec, hD', true_and]
    simp [cluOf, cluOfList]
  · have hS : members D ln = [] := by
      by_contra h; exact hl (hK.mpr h)
    simp only [addSample, lookup_map, hl, if_false, hD', hS, cluOfList_singleton hx, true_and]
    simp

theorem cluOf_congr {D D' : List (List α × Nat)} {k : Nat} (h : members D' k = members D k) :
    cluOf d D' k = cluOf d D k := by
  simp [cluOf, h]

/-- **`switch_label` + `update` preserves the invariant** (and does not raise)
when the sample `(x, lo)` is in the data and, for a genuine switch, its old
cluster has at least two members. -/
theorem switch_inv {st : State α} {D₁ D₂ : List (List α × Nat)} {x : List α} {lo ln : Nat}
    (hwf : WF d (D₁ ++ (x, lo) :: D₂)) (hI : Inv d st (D₁ ++ (x, lo) :: D₂))
    (hpre : lo ≠ ln → 2 ≤ (members (D₁ ++ (x, lo) :: D₂) lo).length) :
    ∃ p, switchLabel st x lo ln = some p ∧ Inv d (update st p) (D₁ ++ (x, ln) :: D₂) := by
  obtain ⟨K, hKnd, hKm, hE⟩ := hI.keys
  have hW := hI.wgss_eq
  rw [wgssB_keys hKnd hKm] at hW
  have hn := hI.n_eq
  have hdim := hI.dim_eq
  have hmu := hI.mu_eq (by simp)
  have hc := hI.crit_eq
  have hx : x.length = d := hwf (x, lo) (by simp)
  have hlo : lo ∈ K := (hKm lo).mpr (by simp)
  obtain ⟨dim, n, mu, CD, W, c⟩ := st
  simp only at hE hmu hW hn hdim hc
  subst hE hdim
  set D := D₁ ++ (x, lo) :: D₂ with hD
  by_cases hll : ln = lo
  · subst hll
    refine ⟨_, by simp only [switchLabel, if_true, lookup_map, hlo]; rfl, ?_⟩
    have : update ⟨dim, n, mu, K.map (fun k => (k, cluOf dim D k)), W, c⟩
        ⟨ln, n, mu, ⟨(cluOf dim D ln).n, (cluOf dim D ln).v, (cluOf dim D ln).CP,
          (cluOf dim D ln).G⟩, 0, c, none⟩
        = ⟨dim, n, mu, K.map (fun k => (k, cluOf dim D k)), W, c⟩ := by
      simp only [update, add_zero, State.mk.injEq, true_and, and_true]
      rw [setCD_map K hKnd, insKey_of_mem hlo]
      apply List.map_congr_left
      intro k _
      by_cases hk : k = ln
      · subst hk; simp
      · simp [hk]
    rw [this]
    exact hI
  · have hne : lo ≠ ln := fun e => hll e.symm
    set D' := D₁ ++ (x, ln) :: D₂ with hD'
    -- the old cluster
    have hT : members D lo = members D₁ lo ++ x :: members D₂ lo := by
      simp [hD, members_append, members_cons]
    have hS : members D' lo = members D₁ lo ++ members D₂ lo := by
      simp [hD', members_append, members_cons, hll]
    have hperm : (members D lo).Perm (x :: members D' lo) := by
      rw [hT, hS]; exact List.perm_middle
    have hlen : 2 ≤ (members D lo).length := hpre hne
    have hSne : members D' lo ≠ [] := by
      intro e
      have := hperm.length_eq
      rw [e] at this
      simp at this
      omega
    have hrem := cluRemove_spec (d := dim) hperm hSne (hwf.allLen_members lo)
    rw [← cluOf_eq, ← cluOf_eq] at hrem
    -- the new cluster
    have hA : (members D' ln).Perm (x :: members D ln) := by
      have e1 : members D' ln = members D₁ ln ++ x :: members D₂ ln := by
        simp [hD', members_append, members_cons]
      have e2 : members D ln = members D₁ ln ++ members D₂ ln := by
        simp [hD, members_append, members_cons, hne]
      rw [e1, e2]; exact List.perm_middle
    have hKln : ln ∈ K ↔ members D ln ≠ [] := by
      rw [hKm, Ne, members_eq_nil, not_not]
    obtain ⟨hpaCD, hpa2, hpaL, hpaCP⟩ := addSample_clu (D' := D') (n := n) (mu := mu) (W := W) (c := c)
      hwf hx hKln hA
    -- untouched clusters
    have hoth : ∀ k, k ≠ lo → k ≠ ln → cluOf dim D' k = cluOf dim D k := by
      intro k h1 h2
      apply cluOf_congr
      have h1' : ¬ lo = k := fun e => h1 e.symm
      have h2' : ¬ ln = k := fun e => h2 e.symm
      simp [hD, hD', members_append, members_cons, h1', h2']
    have hguard : ¬ (cluOf dim D lo).n ≤ 1 := by
      simp only [cluOf]; omega
    refine ⟨_, by
      simp only [switchLabel, hll, if_false, lookup_map, hlo, if_true, hguard, removeSample]
      rfl, ?_⟩
    simp only [update, hrem, hpaCD, hpaCP]
    have hfst : D'.map (·.1) = D.map (·.1) := by simp [hD, hD']
    have hcl : ∀ k, cluOf dim D' k
        = if k = ln then cluOf dim D' ln else if k = lo then cluOf dim D' lo else cluOf dim D k := by
      intro k
      by_cases h2 : k = ln
      · subst h2; simp
      · by_cases h1 : k = lo
        · subst h1; simp [h2]
        · simp [h1, h2, hoth k h1 h2]
    have hmemD' : ∀ k, k ∈ D'.map (·.2) ↔ members D' k ≠ [] := fun k => by
      rw [Ne, members_eq_nil, not_not]
    have hmemD : ∀ k, k ∈ K ↔ members D k ≠ [] := fun k => by
      rw [hKm, Ne, members_eq_nil, not_not]
    refine inv_of_keys (K' := insKey K ln) (insKey_nodup hKnd ln) ?_ (by simp [hD']) ?_ ?_ ?_ ?_ ?_
    · intro k
      rw [mem_insKey, hmemD', hmemD]
      by_cases h2 : k = ln
      · subst h2
        simp only [or_true, true_iff]
        intro e; have := hA.length_eq; rw [e] at this; simp at this
      · by_cases h1 : k = lo
        · subst h1
          simp only [h2, or_false]
          exact ⟨fun _ => hSne, fun _ => (hmemD k).mp hlo⟩
        · have : members D' k = members D k := by
            have h1' : ¬ lo = k := fun e => h1 e.symm
            have h2' : ¬ ln = k := fun e => h2 e.symm
            simp [hD, hD', members_append, members_cons, h1', h2']
          simp [h2, this]
    · rw [hn]; simp [hD, hD']
    · rw [hfst]; exact hmu
    · rw [setCD_map K hKnd, insKey_of_mem hlo, setCD_map K hKnd]
      apply List.map_congr_left
      intro k _
      rw [hcl k]
    · have s1 := sum_map_insKey hKnd lo (fun k => (cluOf dim D k).CP)
        (fun k => if k = lo then (cluOf dim D' lo).CP else (cluOf dim D k).CP)
        (fun k hk => by simp [hk])
      have s2 := sum_map_insKey hKnd ln
        (fun k => if k = lo then (cluOf dim D' lo).CP else (cluOf dim D k).CP)
        (fun k => (cluOf dim D' k).CP)
        (fun k hk => by
          by_cases h1 : k = lo
          · subst h1; simp
          · simp [h1, hoth k h1 hk])
      rw [insKey_of_mem hlo] at s1
      rw [s2, s1, hW]
      simp only [hlo, if_true, hll, if_false]
      simp only [cluOf]
    · congr 1
      · have s2 := sum_map_insKey hKnd ln
          (fun k => if k = lo then sepTerm mu (cluOf dim D' lo).n (cluOf dim D' lo).v
            else if k = ln then sepTerm mu (cluOf dim D' ln).n (cluOf dim D' ln).v
            else sepTerm mu (cluOf dim D k).n (cluOf dim D k).v)
          (fun k => sepTerm mu (cluOf dim D' k).n (cluOf dim D' k).v)
          (fun k hk => by
            by_cases h1 : k = lo
            · subst h1; simp
            · simp [h1, hk, hoth k h1 hk])
        rw [s2, vsum_eq_list_sum, List.map_map]
        by_cases hl : ln ∈ K
        · simp [hl, hll, Function.comp_def]
        · have hS0 : members D ln = [] := by
            by_contra h; exact hl ((hmemD ln).mpr h)
          have hD'ln : cluOf dim D' ln = ⟨1, x, 0, vzero dim⟩ := by
            rw [cluOf_eq, cluOfList_perm hA ((hwf.allLen_members ln).cons hx |>.perm hA.symm), hS0,
              cluOfList_singleton hx]
          simp [hl, Function.comp_def, hD'ln, sepTerm, add_comm]
      · by_cases hl : ln ∈ K <;> simp [hl, length_insKey]

theorem init_inv : Inv d (init d : State α) [] := by
  refine ⟨rfl, rfl, fun _ => rfl, fun h => absurd rfl h, by simp [init], by simp [init], by simp [init],
    rfl, rfl⟩

theorem update_crit (st : State α) (p : Cand α) : (update st p).crit = p.crit := by
  unfold update
  split <;> rfl

theorem chBatch_eq {D : List (List α × Nat)} (hwf : WF d D) : chBatch D = chBatchD d D := by
  cases D with
  | nil => rfl
  | cons p D => simp only [chBatch, dimOf]; rw [hwf p (by simp)]

theorem WF.switch {D₁ D₂ : List (List α × Nat)} {x : List α} {lo : Nat}
    (hwf : WF d (D₁ ++ (x, lo) :: D₂)) (ln : Nat) : WF d (D₁ ++ (x, ln) :: D₂) := by
  intro p hp
  simp only [List.mem_append, List.mem_cons] at hp
  rcases hp with hp | rfl | hp
  · exact hwf p (by simp [hp])
  · exact hwf (x, lo) (by simp)
  · exact hwf p (by simp [hp])

/-- The histories the API permits, together with the labelled data they
describe: start from a fresh object; `add_sample(x, l)` + `update` adds the
labelled point `(x, l)`; `switch_label(x, lo, ln)` + `update` relabels one
occurrence of `(x, lo)`, and is permitted when that sample is in the data and
(for `lo ≠ ln`) its cluster has at least two members. -/
inductive Reach (d : Nat) : State α → List (List α × Nat) → Prop
  | init : Reach d (init d) []
  | add {st : State α} {D : List (List α × Nat)} (x : List α) (l : Nat) :
      Reach d st D → x.length = d → Reach d (update st (addSample st x l)) ((x, l) :: D)
  | switch {st : State α} {D₁ D₂ : List (List α × Nat)} (x : List α) (lo ln : Nat) (p : Cand α) :
      Reach d st (D₁ ++ (x, lo) :: D₂) →
      (lo ≠ ln → 2 ≤ (members (D₁ ++ (x, lo) :: D₂) lo).length) →
      switchLabel st x lo ln = some p →
      Reach d (update st p) (D₁ ++ (x, ln) :: D₂)

theorem reach_inv {st : State α} {D : List (List α × Nat)} (h : Reach d st D) :
    WF d D ∧ Inv d st D := by
  induction h with
  | init => exact ⟨fun p hp => by simp at hp, init_inv⟩
  | add x l _ hx ih => exact ⟨ih.1.cons hx l, add_inv ih.1 hx ih.2⟩
  | switch x lo ln p _ hpre hp ih =>
    obtain ⟨p', hp', hI⟩ := switch_inv ih.1 ih.2 hpre
    rw [hp] at hp'
    cases hp'
    exact ⟨ih.1.switch ln, hI⟩

end inv

/-! ### the labelled data is a multiset: permutation invariance -/

section perm
variable [LinearOrder α] [IsStrictOrderedRing α] {d : Nat}

theorem members_perm {D D' : List (List α × Nat)} (p : D.Perm D') (l : Nat) :
    (members D l).Perm (members D' l) := (p.filter _).map _

theorem WF.perm {D D' : List (List α × Nat)} (p : D.Perm D') (h : WF d D) : WF d D' :=
  fun q hq => h q (p.mem_iff.mpr hq)

theorem cluOf_perm {D D' : List (List α × Nat)} (p : D.Perm D') (hwf : WF d D) (l : Nat) :
    cluOf d D l = cluOf d D' l := by
  rw [cluOf_eq, cluOf_eq]
  exact cluOfList_perm (members_perm p l) (hwf.allLen_members l)

theorem vmean_perm {T S : List (List α)} (p : T.Perm S) (h : AllLen d T) :
    vmean d T = vmean d S := by
  have := cluOfList_perm p h
  simp only [cluOfList, Clu.mk.injEq] at this
  exact this.2.1

theorem chBatchD_perm {D D' : List (List α × Nat)} (p : D.Perm D') (hwf : WF d D) :
    chBatchD d D = chBatchD d D' := by
  have hK := nodup_dedupL (D.map (·.2))
  have hm : ∀ l, l ∈ labelsOf D ↔ l ∈ D.map (·.2) := fun l => mem_labelsOf
  have hm' : ∀ l, l ∈ labelsOf D ↔ l ∈ D'.map (·.2) := fun l => by
    rw [hm]; exact (p.map _).mem_iff
  have hw : wgssB d D = wgssB d D' := by
    rw [wgssB_keys hK hm, wgssB_keys hK hm']
    simp only [cluOf_perm p hwf]
  have hmu : vmean d (D.map (·.1)) = vmean d (D'.map (·.1)) :=
    vmean_perm (p.map _) hwf.allLen_points
  have hb : bgssB d D = bgssB d D' := by
    rw [bgssB_keys hK hm, bgssB_keys hK hm', hmu]
    simp only [cluOf_perm p hwf]
  have hk : (labelsOf D).length = (labelsOf D').length := (keys_perm hK hm').length_eq
  rw [← chValue_batch, ← chValue_batch, hw, hb, hk, p.length_eq]

theorem Inv.perm {st : State α} {D D' : List (List α × Nat)} (p : D.Perm D') (hwf : WF d D)
    (hI : Inv d st D) : Inv d st D' := by
  have hw : wgssB d D = wgssB d D' := by
    have hm' : ∀ l, l ∈ st.CD.map (·.1) ↔ l ∈ D'.map (·.2) := fun l => by
      rw [hI.keys_mem]; exact (p.map _).mem_iff
    rw [wgssB_keys hI.keys_nodup hI.keys_mem, wgssB_keys hI.keys_nodup hm']
    simp only [cluOf_perm p hwf]
  refine ⟨hI.dim_eq, by rw [hI.n_eq, p.length_eq], ?_, ?_, hI.keys_nodup, ?_, ?_, ?_, ?_⟩
  · intro h; subst h; exact hI.mu_nil (List.perm_nil.mp p)
  · intro h
    have hD : D ≠ [] := fun e => h (by subst e; exact List.nil_perm.mp p)
    rw [hI.mu_eq hD]
    exact vmean_perm (p.map _) hwf.allLen_points
  · intro l; rw [hI.keys_mem]; exact (p.map _).mem_iff
  · conv_lhs => rw [hI.entries]
    simp only [cluOf_perm p hwf]
  · rw [hI.wgss_eq, hw]
  · rw [hI.crit_eq, chBatchD_perm p hwf]

/-! ### `iCVIFuzzyART.fit`: the tracked value -/

/-- all rows have dimension `d` -/
def Rows (d : Nat) (X : List (List α)) : Prop := ∀ x ∈ X, x.length = d

theorem online_inv (X : List (List α)) (cs : List Nat) (hX : Rows d X) :
    ∀ (st : State α) (D : List (List α × Nat)), WF d D → Inv d st D →
      WF d ((X.zip cs).reverse ++ D) ∧
      Inv d ((X.zip cs).foldl (fun st p => update st (addSample st p.1 p.2)) st)
        ((X.zip cs).reverse ++ D) := by
  induction X generalizing cs with
  | nil => intro st D hwf hI; simpa using ⟨hwf, hI⟩
  | cons x X ih =>
    intro st D hwf hI
    cases cs with
    | nil => simpa using ⟨hwf, hI⟩
    | cons c cs =>
      have hx : x.length = d := hX x (by simp)
      have := ih cs (fun y hy => hX y (by simp [hy])) _ _ (hwf.cons hx c) (add_inv hwf hx hI)
      simpa using this

theorem offline_loop (R : List (List α × Nat)) :
    ∀ (st : State α) (Dd : List (List α × Nat)),
      WF d (Dd ++ R.map (fun p => (p.1, 0))) → Inv d st (Dd ++ R.map (fun p => (p.1, 0))) →
      (Dd = [] → ∀ p, R.head? = some p → p.2 = 0) → (Dd ≠ [] → ∃ y, (y, 0) ∈ Dd) →
      ∃ st', offlineLoop st R = some st' ∧ WF d (Dd ++ R) ∧ Inv d st' (Dd ++ R) := by
  induction R with
  | nil => intro st Dd hwf hI _ _; exact ⟨st, rfl, by simpa using hwf, by simpa using hI⟩
  | cons q R ih =>
    obtain ⟨x, c⟩ := q
    intro st Dd hwf hI h0 h1
    simp only [List.map_cons] at hwf hI
    have hpre : 0 ≠ c → 2 ≤ (members (Dd ++ (x, 0) :: R.map (fun p => (p.1, 0))) 0).length := by
      intro hc
      have hDd : Dd ≠ [] := fun e => hc (h0 e (x, c) rfl).symm
      obtain ⟨y, hy⟩ := h1 hDd
      have : members Dd 0 ≠ [] := by
        rw [Ne, members_eq_nil, not_not]
        exact List.mem_map.mpr ⟨(y, 0), hy, rfl⟩
      have hl : 0 < (members Dd 0).length := List.length_pos_iff.mpr this
      simp only [members_append, members_cons, if_true, List.length_append, List.length_cons]
      omega
    obtain ⟨p, hp, hI'⟩ := switch_inv (ln := c) hwf hI hpre
    have hwf' := hwf.switch c
    have e : Dd ++ (x, c) :: R.map (fun p => (p.1, 0))
        = (Dd ++ [(x, c)]) ++ R.map (fun p => (p.1, 0)) := by simp
    rw [e] at hwf' hI'
    obtain ⟨st', hst', hw'', hI''⟩ := ih (update st p) (Dd ++ [(x, c)]) hwf' hI'
      (fun h => by simp at h) (fun _ => by
        by_cases hDd : Dd = []
        · have hc : c = 0 := h0 hDd (x, c) rfl
          exact ⟨x, by simp [hc]⟩
        · obtain ⟨y, hy⟩ := h1 hDd
          exact ⟨y, by simp [hy]⟩)
    refine ⟨st', by simp [offlineLoop, hp, hst'], ?_, ?_⟩
    · simpa using hw''
    · simpa using hI''

theorem adds0_inv (X : List (List α)) (hX : Rows d X) :
    ∀ (st : State α) (D : List (List α × Nat)), WF d D → Inv d st D →
      WF d ((X.map (fun x => (x, 0))).reverse ++ D) ∧
      Inv d (X.foldl (fun st x => update st (addSample st x 0)) st)
        ((X.map (fun x => (x, 0))).reverse ++ D) := by
  induction X with
  | nil => intro st D hwf hI; simpa using ⟨hwf, hI⟩
  | cons x X ih =>
    intro st D hwf hI
    have hx : x.length = d := hX x (by simp)
    have := ih (fun y hy => hX y (by simp [hy])) _ _ (hwf.cons hx 0) (add_inv hwf hx hI)
    simpa using this

theorem track_online (X : List (List α)) (cs : List Nat) (hX : Rows d X) :
    (trackOnline d X cs).crit = chBatch (X.zip cs) := by
  obtain ⟨hwf, hI⟩ := online_inv X cs hX (init d) [] (fun p hp => by simp at hp) init_inv
  rw [List.append_nil] at hwf hI
  have hp : ((X.zip cs).reverse).Perm (X.zip cs) := List.reverse_perm _
  rw [chBatch_eq (hwf.perm hp)]
  exact (hI.perm hp hwf).crit_eq

theorem track_offline (X : List (List α)) (cs : List Nat) (hX : Rows d X)
    (hl : cs.length = X.length) (h0 : ∀ c, cs.head? = some c → c = 0) :
    ∃ st, trackOffline d X cs = some st ∧ st.crit = chBatch (X.zip cs) := by
  obtain ⟨hwf, hI⟩ := adds0_inv X hX (init d) [] (fun p hp => by simp at hp) init_inv
  rw [List.append_nil] at hwf hI
  have hmap : (X.zip cs).map (fun p => (p.1, 0)) = X.map (fun x => (x, 0)) := by
    have : (X.zip cs).map (·.1) = X := List.map_fst_zip (by omega)
    conv_rhs => rw [← this]
    simp [List.map_map, Function.comp_def]
  have hp : ((X.map (fun x => (x, (0 : Nat)))).reverse).Perm
      ([] ++ (X.zip cs).map (fun p => (p.1, 0))) := by
    rw [List.nil_append, hmap]; exact List.reverse_perm _
  have hhead : ∀ p, (X.zip cs).head? = some p → p.2 = 0 := by
    intro p hp'
    cases X with
    | nil => simp at hp'
    | cons x X =>
      cases cs with
      | nil => simp at hp'
      | cons c cs =>
        simp only [List.zip_cons_cons, List.head?_cons, Option.some.injEq] at hp'
        subst hp'
        exact h0 c rfl
  obtain ⟨st', hst', hwf', hI'⟩ := offline_loop (X.zip cs) _ [] (hwf.perm hp) (hI.perm hp hwf)
    (fun _ => hhead) (fun h => absurd rfl h)
  rw [List.nil_append] at hwf' hI'
  exact ⟨st', hst', by rw [chBatch_eq hwf']; exact hI'.crit_eq⟩

end perm

/-! ### the gates as vetoes over the generic search -/

section gate
variable {X Wt β μ θ : Type} [LinearOrder β]

theorem strike_live {veto : Nat → Bool} {T : List (Option β)} {c : Nat} {v : β}
    (h : (strikeVetoed true veto T)[c]? = some (some v)) : veto c = false := by
  simp only [strikeVetoed, if_true, List.getElem?_map, List.getElem?_zipIdx] at h
  cases hT : T[c]? with
  | none => simp [hT] at h
  | some t =>
    simp only [hT, Option.map_some, zero_add, Option.some.injEq] at h
    by_contra hv
    simp [hv] at h

/-- A category that wins the search of a training step was not vetoed by the
reset function (in every match-tracking mode, `MT~` included). -/
theorem stepSearch_winner_allowed (K : Kernel X Wt β μ) (cfg : SearchCfg μ θ) (th0 : θ)
    (veto : Nat → Bool) (W : List Wt) (x : X) (c : Nat)
    (h : (stepSearch K cfg th0 veto W x).winner = some c) : veto c = false := by
  unfold stepSearch at h
  obtain ⟨⟨v, hv⟩, _, _, _, hok⟩ := search_winner_sound cfg (matchAt K W x) veto _ _ th0
    (liveCount_le_length _) c h
  cases ht : cfg.tilde with
  | false => simpa [ht] using hok
  | true =>
    rw [ht] at hv
    exact strike_live hv

/-- `step_fit` returns the label of an *existing* category only when the search
resonated with it. -/
theorem stepFit_existing (K : Kernel X Wt β μ) (cfg : SearchCfg μ θ) (th0 : θ)
    (veto : Nat → Bool) (s : ArtState Wt) (x : X) (c : Nat)
    (h : (stepFit K cfg th0 veto s x).2 = c) (hc : c < s.W.length) :
    (stepSearch K cfg th0 veto s.W x).winner = some c := by
  unfold stepFit at h
  split at h
  · rename_i he
    simp only [applyWinner] at h
    omega
  · cases hw : (stepSearch K cfg th0 veto s.W x).winner with
    | none => rw [hw] at h; simp only [applyWinner] at h; omega
    | some c' =>
      rw [hw] at h
      simp only [applyWinner] at h
      split at h <;> (simp only at h; rw [h])

end gate

end Art.ICVI

