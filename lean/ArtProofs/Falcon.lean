/-
ArtProofs.Falcon — lemmas about the FALCON / TD-FALCON model (`ArtModel/Falcon.lean`).
-/
import Mathlib.Algebra.Order.Field.Basic
import Mathlib.Tactic.Ring
import Mathlib.Tactic.Linarith
import ArtProofs.Fusion
import ArtModel.Falcon

namespace Art.Falcon
open Art Art.Fusion

set_option linter.unusedSectionVars false
set_option linter.unusedVariables false

/-! ### first minimum (for `optimality="min"`) -/
section ArgMin
variable {α : Type} [LinearOrder α]

/-- `k` is the first index holding the minimal value `v` of `l` -/
structure IsFirstMin (l : List α) (k : Nat) (v : α) : Prop where
  at_k : l[k]? = some v
  le_all : ∀ (j : Nat) (u : α), l[j]? = some u → v ≤ u
  lt_before : ∀ (j : Nat) (u : α), j < k → l[j]? = some u → v < u

theorem argminV_nil_iff {l : List α} : argminV l = none ↔ l = [] := by
  cases l with
  | nil => simp [argminV]
  | cons x xs =>
    simp only [argminV]
    cases argminV xs with
    | none => simp
    | some ku => obtain ⟨k, u⟩ := ku; simp only; split <;> simp

theorem argminV_first {l : List α} {k : Nat} {v : α} (h : argminV l = some (k, v)) : IsFirstMin l k v := by
  induction l generalizing k v with
  | nil => simp [argminV] at h
  | cons x xs ih =>
    simp only [argminV] at h
    cases hts : argminV xs with
    | none =>
      rw [hts] at h
      simp only [Option.some.injEq, Prod.mk.injEq] at h
      obtain ⟨rfl, rfl⟩ := h
      have hn : xs = [] := argminV_nil_iff.mp hts
      subst hn
      refine ⟨by simp, ?_, ?_⟩
      · intro j u hj
        cases j with
        | zero => simp at hj; exact le_of_eq hj
        | succ j => simp at hj
      · intro j u hjk; omega
    | some ku =>
      obtain ⟨k', u'⟩ := ku
      rw [hts] at h
      have := ih hts
      simp only at h
      split at h
      · rename_i hlt
        simp only [Option.some.injEq, Prod.mk.injEq] at h
        obtain ⟨rfl, rfl⟩ := h
        refine ⟨by simpa using this.at_k, ?_, ?_⟩
        · intro j u hj
          cases j with
          | zero => simp at hj; exact hj ▸ le_of_lt hlt
          | succ j => exact this.le_all j u (by simpa using hj)
        · intro j u hjk hj
          cases j with
          | zero => simp at hj; exact hj ▸ hlt
          | succ j => exact this.lt_before j u (by omega) (by simpa using hj)
      · rename_i hnlt
        simp only [Option.some.injEq, Prod.mk.injEq] at h
        obtain ⟨rfl, rfl⟩ := h
        refine ⟨by simp, ?_, ?_⟩
        · intro j u hj
          cases j with
          | zero => simp at hj; exact le_of_eq hj
          | succ j => exact le_trans (not_lt.mp hnlt) (this.le_all j u (by simpa using hj))
        · intro j u hjk; omega

theorem argminFirst_first {l : List α} {k : Nat} (h : argminFirst l = some k) : ∃ v, IsFirstMin l k v := by
  simp only [argminFirst, Option.map_eq_some_iff] at h
  obtain ⟨⟨k', v⟩, hkv, rfl⟩ := h
  exact ⟨v, argminV_first hkv⟩

theorem argmaxFirst_first {l : List α} {k : Nat} (h : argmaxFirst l = some k) :
    ∃ v, IsFirstMax (l.map some) k v := nanargmax_eq_some_iff.mp h

end ArgMin

/-! ### clipping and complement coding -/
section Clip
variable {α : Type} [Field α] [LinearOrder α] [IsStrictOrderedRing α]

theorem clip01_mem (t : α) : 0 ≤ clip01 t ∧ clip01 t ≤ 1 := by
  unfold clip01
  exact ⟨le_max_right _ _, max_le (min_le_right _ _) zero_le_one⟩

theorem clip01_of_mem (t : α) (h0 : 0 ≤ t) (h1 : t ≤ 1) : clip01 t = t := by
  unfold clip01
  rw [min_eq_left h1, max_eq_left h0]

/-- a complement-coded value of `[0,1]` passes the reward module's validator -/
theorem validRewardRow_cc (tol t : α) (htol : 0 ≤ tol) (h0 : 0 ≤ t) (h1 : t ≤ 1) :
    validRewardRow tol (ccScalar t) = true := by
  have hs : vsum (ccScalar t) = 1 := by simp [ccScalar, vsum]
  unfold validRewardRow
  rw [hs]
  simp [ccScalar, h0, h1, htol]

theorem sarsaList_length (al la : α) (Qs rs : List α) :
    (sarsaList al la Qs rs).length = min (Qs.length - 1) rs.length := by
  induction rs generalizing Qs with
  | nil =>
    match Qs with
    | [] => simp [sarsaList]
    | [_] => simp [sarsaList]
    | _ :: _ :: _ => simp [sarsaList]
  | cons r rs ih =>
    match Qs with
    | [] => simp [sarsaList]
    | [_] => simp [sarsaList]
    | q :: q' :: Qs =>
      simp only [sarsaList, List.length_cons, ih]
      omega

theorem sarsaList_getElem? (al la : α) (Qs rs : List α) (i : Nat) (hq : i + 1 < Qs.length) (hr : i < rs.length) :
    (sarsaList al la Qs rs)[i]? = some (sarsaScalar al la (Qs.getD i 0) (rs.getD i 0) (Qs.getD (i + 1) 0)) := by
  induction i generalizing Qs rs with
  | zero =>
    match Qs, rs, hq, hr with
    | q :: q' :: Qs, r :: rs, _, _ => simp [sarsaList]
  | succ i ih =>
    match Qs, rs, hq, hr with
    | q :: q' :: Qs, r :: rs, hq, hr =>
      simp only [sarsaList, List.getElem?_cons_succ]
      rw [ih (q' :: Qs) rs (by simpa using hq) (by simpa using hr)]
      simp

end Clip

/-! ### rewards and greedy actions -/
section Act
variable {α : Type} [Field α] [LinearOrder α] [IsStrictOrderedRing α]

theorem flatten_map_singleton' {β : Type} (l : List β) : (l.map (fun v => [v])).flatten = l := by
  induction l with
  | nil => rfl
  | cons a l ih => simp [ih]

theorem getReward_eq (chans : List (Chan α)) (centreR : List α → List α) (W : List (List α)) (s a : List α) :
    getReward chans centreR W s a =
      (rewardCategory chans W s a).bind (fun c => (W[c]?).map (fun w => centreR (slice (wlens chans) 2 w))) := by
  unfold getReward
  cases rewardCategory chans W s a with
  | none => rfl
  | some c => simp [channelCentres]

/-- with scalar rewards `get_action` indexes the action space with the first arg-max / arg-min -/
theorem getAction_scalar (chans : List (Chan α)) (centreA centreR prepA : List α → List α)
    (W : List (List α)) (state : List α) (space : Option (List (List α))) (maximize : Bool) (vs : List α)
    (hvs : actionRewards chans centreA centreR prepA W state space = vs.map (fun v => some [v])) :
    getAction chans centreA centreR prepA W state space maximize =
      (if maximize then argmaxFirst vs else argminFirst vs).bind
        (fun i => (actionSpace chans centreA W space)[i]?) := by
  unfold getAction
  have h1 : allSome (vs.map (fun v => some [v])) = some (vs.map (fun v => [v])) := by
    rw [← allSome_map_some (vs.map (fun v => [v])), List.map_map]; rfl
  rw [hvs, h1]
  simp only [flatten_map_singleton']
  cases (if maximize then argmaxFirst vs else argminFirst vs) <;> rfl

end Act

end Art.Falcon
