/-
ArtProofs.DualVig — lemmas about the `DualVigilanceART` model (`ArtModel.DualVig`):
the `while any(T > 0)` loop for every linear order of activations, every
configuration and veto pattern; the map / label invariants by induction over the
sample stream.
-/
import Mathlib.Data.Int.Order.Basic
import ArtProofs.Search
import ArtModel.DualVig

namespace Art

set_option linter.unusedSectionVars false

/-! ### The loop -/

section Loop
variable {α μ θ : Type} [LinearOrder α]

theorem anyPos_eq_true_iff {pos : α → Bool} {T : List (Option α)} :
    anyPos pos T = true ↔ ∃ (j : Nat) (a : α), T[j]? = some (some a) ∧ pos a = true := by
  simp only [anyPos, List.any_eq_true]
  constructor
  · rintro ⟨t, ht, hp⟩
    cases t with
    | none => simp [isPos] at hp
    | some a =>
      obtain ⟨j, hj⟩ := List.getElem?_of_mem ht
      exact ⟨j, a, hj, hp⟩
  · rintro ⟨j, a, hj, hp⟩
    exact ⟨some a, List.mem_of_getElem? hj, hp⟩

theorem anyPos_false_of_liveCount_zero {pos : α → Bool} {T : List (Option α)}
    (h : liveCount T = 0) : anyPos pos T = false := by
  cases hp : anyPos pos T with
  | false => rfl
  | true =>
    obtain ⟨j, a, hj, _⟩ := anyPos_eq_true_iff.mp hp
    have hn := nanargmax_eq_none_iff.mp (liveCount_eq_zero h) _ (List.mem_of_getElem? hj)
    simp at hn

theorem nanargmax_isSome_of_anyPos {pos : α → Bool} {T : List (Option α)}
    (h : anyPos pos T = true) : ∃ c, nanargmax T = some c := by
  obtain ⟨j, a, hj, _⟩ := anyPos_eq_true_iff.mp h
  cases hc : nanargmax T with
  | some c => exact ⟨c, rfl⟩
  | none =>
    have hn := nanargmax_eq_none_iff.mp hc _ (List.mem_of_getElem? hj)
    simp at hn

/-- `pos` respects the order (true of `posOf zero`). -/
def PosMono (pos : α → Bool) : Prop := ∀ a b, a ≤ b → pos a = true → pos b = true

theorem posOf_mono (zero : α) : PosMono (posOf zero) := by
  intro a b hab ha
  simp only [posOf, decide_eq_true_eq] at ha ⊢
  exact lt_of_lt_of_le ha hab

/-- the arg-max of a list with a positive entry is positive -/
theorem pos_of_nanargmax {pos : α → Bool} (hm : PosMono pos) {T : List (Option α)} {c : Nat} {a : α}
    (hp : anyPos pos T = true) (hc : IsFirstMax T c a) : pos a = true := by
  obtain ⟨j, b, hj, hb⟩ := anyPos_eq_true_iff.mp hp
  exact hm b a (hc.ge_all j b hj) hb

variable (cfg : SearchCfg μ θ) (lb : θ) (pos : α → Bool) (M : Nat → μ) (veto : Nat → Bool)

/-- Unfolding lemma for one iteration of the loop. -/
theorem dualSearch_succ (fuel : Nat) (T : List (Option α)) (th : θ) :
    dualSearch cfg lb pos M veto (fuel + 1) T th =
      if anyPos pos T then
        match nanargmax T with
        | none => ⟨.fresh, th, []⟩
        | some c =>
          if !veto c then
            if cfg.passes th (M c) then
              ⟨.absorb c, th, [⟨c, th, cfg.passes th (M c), cfg.passes lb (M c), !veto c⟩]⟩
            else if cfg.passes lb (M c) then
              ⟨.spawn c, th, [⟨c, th, cfg.passes th (M c), cfg.passes lb (M c), !veto c⟩]⟩
            else (dualSearch cfg lb pos M veto fuel (T.set c none) th).cons
              ⟨c, th, cfg.passes th (M c), cfg.passes lb (M c), !veto c⟩
          else if cfg.passes th (M c) then
            if cfg.keep then
              (dualSearch cfg lb pos M veto fuel (T.set c none) (cfg.track th (M c))).cons
                ⟨c, th, cfg.passes th (M c), cfg.passes lb (M c), !veto c⟩
            else ⟨.fresh, cfg.track th (M c), [⟨c, th, cfg.passes th (M c), cfg.passes lb (M c), !veto c⟩]⟩
          else (dualSearch cfg lb pos M veto fuel (T.set c none) th).cons
            ⟨c, th, cfg.passes th (M c), cfg.passes lb (M c), !veto c⟩
      else ⟨.fresh, th, []⟩ := by
  rw [dualSearch]
  split
  · cases nanargmax T <;> rfl
  · rfl

/-- Termination: any fuel ≥ the number of live candidates gives the same result. -/
theorem dualSearch_fuel_irrelevant (f₁ f₂ : Nat) (T : List (Option α)) (th : θ)
    (h₁ : liveCount T ≤ f₁) (h₂ : liveCount T ≤ f₂) :
    dualSearch cfg lb pos M veto f₁ T th = dualSearch cfg lb pos M veto f₂ T th := by
  induction f₁ generalizing f₂ T th with
  | zero =>
    have h0 : liveCount T = 0 := by omega
    cases f₂ with
    | zero => rfl
    | succ f₂ => rw [dualSearch_succ, anyPos_false_of_liveCount_zero h0]; rfl
  | succ f₁ ih =>
    cases f₂ with
    | zero =>
      have h0 : liveCount T = 0 := by omega
      rw [dualSearch_succ, anyPos_false_of_liveCount_zero h0]; rfl
    | succ f₂ =>
      rw [dualSearch_succ, dualSearch_succ]
      cases hc : nanargmax T with
      | none => rfl
      | some c =>
        obtain ⟨v, hv⟩ := nanargmax_isSome_at hc
        have hl := liveCount_set_none hv
        have e1 : ∀ th', dualSearch cfg lb pos M veto f₁ (T.set c none) th' =
            dualSearch cfg lb pos M veto f₂ (T.set c none) th' :=
          fun th' => ih f₂ _ th' (by omega) (by omega)
        simp only [e1]

/-- Induction principle: a property of `(T, th, result)` that holds for the
terminal shapes and is preserved by prefixing a non-deciding visit (failed both
tests / vetoed after passing the upper test, tracked / vetoed after failing it,
just struck) holds for every run of the loop. -/
theorem dualSearch_induction
    (P : List (Option α) → θ → DualResult θ → Prop)
    (hstop : ∀ T th, anyPos pos T = false → P T th ⟨.fresh, th, []⟩)
    (habsorb : ∀ T th c, anyPos pos T = true → nanargmax T = some c → veto c = false →
      cfg.passes th (M c) = true →
      P T th ⟨.absorb c, th, [⟨c, th, true, cfg.passes lb (M c), true⟩]⟩)
    (hspawn : ∀ T th c, anyPos pos T = true → nanargmax T = some c → veto c = false →
      cfg.passes th (M c) = false → cfg.passes lb (M c) = true →
      P T th ⟨.spawn c, th, [⟨c, th, false, true, true⟩]⟩)
    (hfail : ∀ T th c r, anyPos pos T = true → nanargmax T = some c → veto c = false →
      cfg.passes th (M c) = false → cfg.passes lb (M c) = false →
      P (T.set c none) th r → P T th (r.cons ⟨c, th, false, false, true⟩))
    (htrack : ∀ T th c r, anyPos pos T = true → nanargmax T = some c → veto c = true →
      cfg.passes th (M c) = true → cfg.keep = true → P (T.set c none) (cfg.track th (M c)) r →
      P T th (r.cons ⟨c, th, true, cfg.passes lb (M c), false⟩))
    (habandon : ∀ T th c, anyPos pos T = true → nanargmax T = some c → veto c = true →
      cfg.passes th (M c) = true → cfg.keep = false →
      P T th ⟨.fresh, cfg.track th (M c), [⟨c, th, true, cfg.passes lb (M c), false⟩]⟩)
    (hskip : ∀ T th c r, anyPos pos T = true → nanargmax T = some c → veto c = true →
      cfg.passes th (M c) = false → P (T.set c none) th r →
      P T th (r.cons ⟨c, th, false, cfg.passes lb (M c), false⟩))
    (fuel : Nat) (T : List (Option α)) (th : θ) (hf : liveCount T ≤ fuel) :
    P T th (dualSearch cfg lb pos M veto fuel T th) := by
  induction fuel generalizing T th with
  | zero =>
    have h0 : liveCount T = 0 := by omega
    exact hstop T th (anyPos_false_of_liveCount_zero h0)
  | succ fuel ih =>
    rw [dualSearch_succ]
    cases hp : anyPos pos T with
    | false => simpa using hstop T th hp
    | true =>
      obtain ⟨c, hc⟩ := nanargmax_isSome_of_anyPos hp
      obtain ⟨v, hv⟩ := nanargmax_isSome_at hc
      have hl := liveCount_set_none hv
      simp only [hc, if_true]
      cases hveto : veto c
      · cases hm1 : cfg.passes th (M c)
        · cases hm2 : cfg.passes lb (M c)
          · simpa [hveto, hm1, hm2] using hfail T th c _ hp hc hveto hm1 hm2 (ih _ _ (by omega))
          · simpa [hveto, hm1, hm2] using hspawn T th c hp hc hveto hm1 hm2
        · simpa [hveto, hm1] using habsorb T th c hp hc hveto hm1
      · cases hm1 : cfg.passes th (M c)
        · simpa [hveto, hm1] using hskip T th c _ hp hc hveto hm1 (ih _ _ (by omega))
        · cases hk : cfg.keep
          · simpa [hveto, hm1, hk] using habandon T th c hp hc hveto hm1 hk
          · simpa [hveto, hm1, hk] using htrack T th c _ hp hc hveto hm1 hk (ih _ _ (by omega))

@[simp] theorem DualResult.cons_outcome (v : DVisit θ) (r : DualResult θ) :
    (r.cons v).outcome = r.outcome := rfl
@[simp] theorem DualResult.cons_visits (v : DVisit θ) (r : DualResult θ) :
    (r.cons v).visits = v :: r.visits := rfl
@[simp] theorem DualResult.cons_th (v : DVisit θ) (r : DualResult θ) :
    (r.cons v).th = r.th := rfl

/-- **The loop equals the reference fold** over the categories it visited. -/
theorem dualSearch_eq_ref (fuel : Nat) (T : List (Option α)) (th : θ) (hf : liveCount T ≤ fuel) :
    (dualSearch cfg lb pos M veto fuel T th).outcome =
      dualRef cfg lb M veto ((dualSearch cfg lb pos M veto fuel T th).visits.map (·.c)) th := by
  refine dualSearch_induction cfg lb pos M veto
    (fun _ th r => r.outcome = dualRef cfg lb M veto (r.visits.map (·.c)) th)
    ?_ ?_ ?_ ?_ ?_ ?_ ?_ fuel T th hf
  · intro T th _; simp [dualRef]
  · intro T th c _ _ hv hm1; simp [dualRef, hv, hm1]
  · intro T th c _ _ hv hm1 hm2; simp [dualRef, hv, hm1, hm2]
  · intro T th c r _ _ hv hm1 hm2 ih; simpa [dualRef, hv, hm1, hm2] using ih
  · intro T th c r _ _ hv hm1 hk ih; simpa [dualRef, hv, hm1, hk] using ih
  · intro T th c _ _ hv hm1 hk; simp [dualRef, hv, hm1, hk]
  · intro T th c r _ _ hv hm1 ih; simpa [dualRef, hv, hm1] using ih

/-- Every visit records exactly the tests of its category. -/
theorem dualSearch_visits_faithful (fuel : Nat) (T : List (Option α)) (th : θ)
    (hf : liveCount T ≤ fuel) :
    ∀ v ∈ (dualSearch cfg lb pos M veto fuel T th).visits,
      v.m1 = cfg.passes v.th (M v.c) ∧ v.m2 = cfg.passes lb (M v.c) ∧ v.ok = !veto v.c := by
  refine dualSearch_induction cfg lb pos M veto
    (fun _ _ r => ∀ v ∈ r.visits,
      v.m1 = cfg.passes v.th (M v.c) ∧ v.m2 = cfg.passes lb (M v.c) ∧ v.ok = !veto v.c)
    ?_ ?_ ?_ ?_ ?_ ?_ ?_ fuel T th hf
  · intro T th _ v hv; simp at hv
  · intro T th c _ _ hveto hm1 v hv
    simp only [List.mem_singleton] at hv; subst hv; simp [hveto, hm1]
  · intro T th c _ _ hveto hm1 hm2 v hv
    simp only [List.mem_singleton] at hv; subst hv; simp [hveto, hm1, hm2]
  · intro T th c r _ _ hveto hm1 hm2 ih v hv
    simp only [DualResult.cons_visits, List.mem_cons] at hv
    rcases hv with rfl | hv
    · simp [hveto, hm1, hm2]
    · exact ih v hv
  · intro T th c r _ _ hveto hm1 _ ih v hv
    simp only [DualResult.cons_visits, List.mem_cons] at hv
    rcases hv with rfl | hv
    · simp [hveto, hm1]
    · exact ih v hv
  · intro T th c _ _ hveto hm1 _ v hv
    simp only [List.mem_singleton] at hv; subst hv; simp [hveto, hm1]
  · intro T th c r _ _ hveto hm1 ih v hv
    simp only [DualResult.cons_visits, List.mem_cons] at hv
    rcases hv with rfl | hv
    · simp [hveto, hm1]
    · exact ih v hv

/-- a visit that settles the sample -/
def DVisit.decides (v : DVisit θ) : Bool := v.ok && (v.m1 || v.m2)

/-- **Only the last visit decides**, and it decides as the rule says: absorb if
the upper test in force passed, else spawn. -/
theorem dualSearch_decider (fuel : Nat) (T : List (Option α)) (th : θ) (hf : liveCount T ≤ fuel) :
    ∀ v ∈ (dualSearch cfg lb pos M veto fuel T th).visits, v.decides = true →
      (dualSearch cfg lb pos M veto fuel T th).visits.getLast? = some v ∧
      (dualSearch cfg lb pos M veto fuel T th).outcome = (if v.m1 then .absorb v.c else .spawn v.c) := by
  refine dualSearch_induction cfg lb pos M veto
    (fun _ _ r => ∀ v ∈ r.visits, v.decides = true →
      r.visits.getLast? = some v ∧ r.outcome = (if v.m1 then .absorb v.c else .spawn v.c))
    ?_ ?_ ?_ ?_ ?_ ?_ ?_ fuel T th hf
  · intro T th _ v hv; simp at hv
  · intro T th c _ _ _ _ v hv _
    simp only [List.mem_singleton] at hv; subst hv; simp
  · intro T th c _ _ _ _ _ v hv _
    simp only [List.mem_singleton] at hv; subst hv; simp
  · intro T th c r _ _ _ _ _ ih v hv hd
    simp only [DualResult.cons_visits, List.mem_cons] at hv
    rcases hv with rfl | hv
    · simp [DVisit.decides] at hd
    · obtain ⟨h1, h2⟩ := ih v hv hd
      refine ⟨?_, by simpa using h2⟩
      simp only [DualResult.cons_visits]
      rw [List.getLast?_cons_of_ne_nil] <;> [exact h1; (intro e; simp [e] at h1)]
  · intro T th c r _ _ _ _ _ ih v hv hd
    simp only [DualResult.cons_visits, List.mem_cons] at hv
    rcases hv with rfl | hv
    · simp [DVisit.decides] at hd
    · obtain ⟨h1, h2⟩ := ih v hv hd
      refine ⟨?_, by simpa using h2⟩
      simp only [DualResult.cons_visits]
      rw [List.getLast?_cons_of_ne_nil] <;> [exact h1; (intro e; simp [e] at h1)]
  · intro T th c _ _ _ _ _ v hv hd
    simp only [List.mem_singleton] at hv; subst hv
    simp [DVisit.decides] at hd
  · intro T th c r _ _ _ _ ih v hv hd
    simp only [DualResult.cons_visits, List.mem_cons] at hv
    rcases hv with rfl | hv
    · simp [DVisit.decides] at hd
    · obtain ⟨h1, h2⟩ := ih v hv hd
      refine ⟨?_, by simpa using h2⟩
      simp only [DualResult.cons_visits]
      rw [List.getLast?_cons_of_ne_nil] <;> [exact h1; (intro e; simp [e] at h1)]

/-- **Soundness of the decision.**  `absorb c` / `spawn c` is the last visit, it
was not vetoed, and it passed the upper test in force / failed it and passed the
lower test; `fresh` means no visit decided. -/
theorem dualSearch_sound (fuel : Nat) (T : List (Option α)) (th : θ) (hf : liveCount T ≤ fuel) :
    (∀ c, (dualSearch cfg lb pos M veto fuel T th).outcome = .absorb c →
      ∃ th', (dualSearch cfg lb pos M veto fuel T th).visits.getLast? =
          some ⟨c, th', true, cfg.passes lb (M c), true⟩ ∧
        cfg.passes th' (M c) = true ∧ veto c = false) ∧
    (∀ c, (dualSearch cfg lb pos M veto fuel T th).outcome = .spawn c →
      ∃ th', (dualSearch cfg lb pos M veto fuel T th).visits.getLast? =
          some ⟨c, th', false, true, true⟩ ∧
        cfg.passes th' (M c) = false ∧ cfg.passes lb (M c) = true ∧ veto c = false) ∧
    ((dualSearch cfg lb pos M veto fuel T th).outcome = .fresh →
      ∀ v ∈ (dualSearch cfg lb pos M veto fuel T th).visits, v.decides = false) := by
  refine dualSearch_induction cfg lb pos M veto
    (fun _ _ r =>
      (∀ c, r.outcome = .absorb c → ∃ th', r.visits.getLast? =
          some ⟨c, th', true, cfg.passes lb (M c), true⟩ ∧
        cfg.passes th' (M c) = true ∧ veto c = false) ∧
      (∀ c, r.outcome = .spawn c → ∃ th', r.visits.getLast? = some ⟨c, th', false, true, true⟩ ∧
        cfg.passes th' (M c) = false ∧ cfg.passes lb (M c) = true ∧ veto c = false) ∧
      (r.outcome = .fresh → ∀ v ∈ r.visits, v.decides = false))
    ?_ ?_ ?_ ?_ ?_ ?_ ?_ fuel T th hf
  · intro T th _; simp
  · intro T th c _ _ hveto hm1
    refine ⟨?_, by simp, by simp⟩
    intro c' h
    simp only [DualOutcome.absorb.injEq] at h; subst h
    exact ⟨th, by simp, hm1, hveto⟩
  · intro T th c _ _ hveto hm1 hm2
    refine ⟨by simp, ?_, by simp⟩
    intro c' h
    simp only [DualOutcome.spawn.injEq] at h; subst h
    exact ⟨th, by simp, hm1, hm2, hveto⟩
  · intro T th c r _ _ _ _ _ ⟨ih1, ih2, ih3⟩
    refine ⟨?_, ?_, ?_⟩
    · intro c' h
      obtain ⟨th', hl, hp⟩ := ih1 c' (by simpa using h)
      refine ⟨th', ?_, hp⟩
      simp only [DualResult.cons_visits]
      rw [List.getLast?_cons_of_ne_nil] <;> [exact hl; (intro e; simp [e] at hl)]
    · intro c' h
      obtain ⟨th', hl, hp⟩ := ih2 c' (by simpa using h)
      refine ⟨th', ?_, hp⟩
      simp only [DualResult.cons_visits]
      rw [List.getLast?_cons_of_ne_nil] <;> [exact hl; (intro e; simp [e] at hl)]
    · intro h v hv
      simp only [DualResult.cons_visits, List.mem_cons] at hv
      rcases hv with rfl | hv
      · simp [DVisit.decides]
      · exact ih3 (by simpa using h) v hv
  · intro T th c r _ _ _ _ _ ⟨ih1, ih2, ih3⟩
    refine ⟨?_, ?_, ?_⟩
    · intro c' h
      obtain ⟨th', hl, hp⟩ := ih1 c' (by simpa using h)
      refine ⟨th', ?_, hp⟩
      simp only [DualResult.cons_visits]
      rw [List.getLast?_cons_of_ne_nil] <;> [exact hl; (intro e; simp [e] at hl)]
    · intro c' h
      obtain ⟨th', hl, hp⟩ := ih2 c' (by simpa using h)
      refine ⟨th', ?_, hp⟩
      simp only [DualResult.cons_visits]
      rw [List.getLast?_cons_of_ne_nil] <;> [exact hl; (intro e; simp [e] at hl)]
    · intro h v hv
      simp only [DualResult.cons_visits, List.mem_cons] at hv
      rcases hv with rfl | hv
      · simp [DVisit.decides]
      · exact ih3 (by simpa using h) v hv
  · intro T th c _ _ _ _ _
    refine ⟨by simp, by simp, ?_⟩
    intro _ v hv
    simp only [List.mem_singleton] at hv; subst hv
    simp [DVisit.decides]
  · intro T th c r _ _ _ _ ⟨ih1, ih2, ih3⟩
    refine ⟨?_, ?_, ?_⟩
    · intro c' h
      obtain ⟨th', hl, hp⟩ := ih1 c' (by simpa using h)
      refine ⟨th', ?_, hp⟩
      simp only [DualResult.cons_visits]
      rw [List.getLast?_cons_of_ne_nil] <;> [exact hl; (intro e; simp [e] at hl)]
    · intro c' h
      obtain ⟨th', hl, hp⟩ := ih2 c' (by simpa using h)
      refine ⟨th', ?_, hp⟩
      simp only [DualResult.cons_visits]
      rw [List.getLast?_cons_of_ne_nil] <;> [exact hl; (intro e; simp [e] at hl)]
    · intro h v hv
      simp only [DualResult.cons_visits, List.mem_cons] at hv
      rcases hv with rfl | hv
      · simp [DVisit.decides]
      · exact ih3 (by simpa using h) v hv

/-- threshold after a visit: tracking happens after a vetoed visit that passed the upper test -/
def dNextTh (v : DVisit θ) : θ := if !v.ok && v.m1 then cfg.track v.th (M v.c) else v.th

/-- the visits' thresholds thread from `th` to `thEnd` -/
def DThreadsFrom : θ → List (DVisit θ) → θ → Prop
  | th, [], thEnd => thEnd = th
  | th, v :: vs, thEnd => v.th = th ∧ DThreadsFrom (dNextTh cfg M v) vs thEnd

/-- **Threshold trace.**  The first visit sees the configured threshold; it
changes only after a vetoed visit that passed the upper test, to `track th (M c)`. -/
theorem dualSearch_threshold_trace (fuel : Nat) (T : List (Option α)) (th : θ)
    (hf : liveCount T ≤ fuel) :
    DThreadsFrom cfg M th (dualSearch cfg lb pos M veto fuel T th).visits
      (dualSearch cfg lb pos M veto fuel T th).th := by
  refine dualSearch_induction cfg lb pos M veto
    (fun _ th r => DThreadsFrom cfg M th r.visits r.th) ?_ ?_ ?_ ?_ ?_ ?_ ?_ fuel T th hf
  · intro T th _; simp [DThreadsFrom]
  · intro T th c _ _ _ _; simp [DThreadsFrom, dNextTh]
  · intro T th c _ _ _ _ _; simp [DThreadsFrom, dNextTh]
  · intro T th c r _ _ _ _ _ ih; simpa [DThreadsFrom, dNextTh] using ih
  · intro T th c r _ _ _ _ _ ih; simpa [DThreadsFrom, dNextTh] using ih
  · intro T th c _ _ _ _ _; simp [DThreadsFrom, dNextTh]
  · intro T th c r _ _ _ _ ih; simpa [DThreadsFrom, dNextTh] using ih

/-- Any invariant of the threshold that survives tracking after a *passing* visit
(tracking is only reached in modes that keep searching) holds at every visit. -/
theorem dualSearch_threshold_inv (Q : θ → Prop)
    (hQ : cfg.keep = true → ∀ th m, Q th → cfg.passes th m = true → Q (cfg.track th m))
    (fuel : Nat) (T : List (Option α)) (th : θ) (hf : liveCount T ≤ fuel) (h0 : Q th) :
    ∀ v ∈ (dualSearch cfg lb pos M veto fuel T th).visits, Q v.th := by
  revert h0
  refine dualSearch_induction cfg lb pos M veto
    (fun _ th r => Q th → ∀ v ∈ r.visits, Q v.th) ?_ ?_ ?_ ?_ ?_ ?_ ?_ fuel T th hf
  · intro T th _ _ v hv; simp at hv
  · intro T th c _ _ _ _ h0 v hv; simp at hv; subst hv; exact h0
  · intro T th c _ _ _ _ _ h0 v hv; simp at hv; subst hv; exact h0
  · intro T th c r _ _ _ _ _ ih h0 v hv
    simp only [DualResult.cons_visits, List.mem_cons] at hv
    rcases hv with rfl | hv
    · exact h0
    · exact ih h0 v hv
  · intro T th c r _ _ _ hm1 hk ih h0 v hv
    simp only [DualResult.cons_visits, List.mem_cons] at hv
    rcases hv with rfl | hv
    · exact h0
    · exact ih (hQ hk _ _ h0 hm1) v hv
  · intro T th c _ _ _ _ _ h0 v hv; simp at hv; subst hv; exact h0
  · intro T th c r _ _ _ _ ih h0 v hv
    simp only [DualResult.cons_visits, List.mem_cons] at hv
    rcases hv with rfl | hv
    · exact h0
    · exact ih h0 v hv

/-- "tracking only tightens": whoever passes the tracked threshold passed the old one -/
def TrackTightens (cfg : SearchCfg μ θ) : Prop :=
  cfg.keep = true → ∀ th m m', cfg.passes th m = true → cfg.passes (cfg.track th m) m' = true →
    cfg.passes th m' = true

/-- **The threshold in force is at least as strict as the configured one** when
tracking only tightens: passing it implies passing the configured threshold. -/
theorem dualSearch_tightens (ht : TrackTightens cfg) (fuel : Nat) (T : List (Option α)) (th : θ)
    (hf : liveCount T ≤ fuel) :
    ∀ v ∈ (dualSearch cfg lb pos M veto fuel T th).visits,
      ∀ m, cfg.passes v.th m = true → cfg.passes th m = true := by
  refine dualSearch_threshold_inv cfg lb pos M veto
    (fun th' => ∀ m, cfg.passes th' m = true → cfg.passes th m = true) ?_ fuel T th hf (fun _ h => h)
  intro hk th' m hq hp m' hp'
  exact hq m' (ht hk th' m m' hp hp')

/-- With no veto the threshold never moves: every visit sees the configured one. -/
theorem dualSearch_no_veto_threshold (fuel : Nat) (T : List (Option α)) (th : θ)
    (hf : liveCount T ≤ fuel) :
    ∀ v ∈ (dualSearch cfg lb pos M (fun _ => false) fuel T th).visits, v.th = th := by
  refine dualSearch_induction cfg lb pos M (fun _ => false)
    (fun _ th r => ∀ v ∈ r.visits, v.th = th) ?_ ?_ ?_ ?_ ?_ ?_ ?_ fuel T th hf
  · intro T th _ v hv; simp at hv
  · intro T th c _ _ _ _ v hv; simp at hv; subst hv; rfl
  · intro T th c _ _ _ _ _ v hv; simp at hv; subst hv; rfl
  · intro T th c r _ _ _ _ _ ih v hv
    simp only [DualResult.cons_visits, List.mem_cons] at hv
    rcases hv with rfl | hv
    · rfl
    · exact ih v hv
  · intro T th c r _ _ hv; simp at hv
  · intro T th c _ _ hv; simp at hv
  · intro T th c r _ _ hv; simp at hv

/-- **Visiting order.**  Categories are visited by decreasing activation, ties to
the oldest; only categories with a *positive* activation are visited, each once;
the visited set is closed under "comes before" (nobody is skipped). -/
theorem dualSearch_visit_order (hm : PosMono pos) (fuel : Nat) (T : List (Option α)) (th : θ)
    (hf : liveCount T ≤ fuel) :
    ((dualSearch cfg lb pos M veto fuel T th).visits.map (·.c)).Pairwise (Before T) ∧
    (∀ v ∈ (dualSearch cfg lb pos M veto fuel T th).visits,
      ∃ a, T[v.c]? = some (some a) ∧ pos a = true) ∧
    (∀ v ∈ (dualSearch cfg lb pos M veto fuel T th).visits, ∀ j, Before T j v.c →
      j ∈ (dualSearch cfg lb pos M veto fuel T th).visits.map (·.c)) := by
  have single : ∀ (T : List (Option α)) (c : Nat) (x : DVisit θ), x.c = c → anyPos pos T = true →
      nanargmax T = some c →
      (([x].map (·.c)).Pairwise (Before T)) ∧
      (∀ v ∈ [x], ∃ a, T[v.c]? = some (some a) ∧ pos a = true) ∧
      (∀ v ∈ [x], ∀ j, Before T j v.c → j ∈ [x].map (·.c)) := by
    intro T c x hx hp hc
    obtain ⟨a, ha⟩ := nanargmax_eq_some_iff.mp hc
    refine ⟨by simp, ?_, ?_⟩
    · intro v hv
      simp only [List.mem_singleton] at hv; subst hv
      exact ⟨a, hx ▸ ha.at_k, pos_of_nanargmax hm hp ha⟩
    · intro v hv j hj
      simp only [List.mem_singleton] at hv; subst hv
      obtain ⟨p, q, hp', hq, hpq⟩ := hj
      rw [hx, ha.at_k] at hq
      simp only [Option.some.injEq] at hq; subst hq
      simp only [List.map_cons, List.map_nil, List.mem_singleton, hx]
      rcases hpq with hlt | ⟨heq, hjc⟩
      · exact absurd (ha.ge_all j p hp') (not_le.mpr hlt)
      · subst heq
        exact absurd (ha.gt_before j p (hx ▸ hjc) hp') (lt_irrefl _)
  have key : ∀ (T : List (Option α)) (c : Nat) (r : DualResult θ) (x : DVisit θ), x.c = c →
      anyPos pos T = true → nanargmax T = some c →
      (((r.visits.map (·.c)).Pairwise (Before (T.set c none))) ∧
        (∀ v ∈ r.visits, ∃ a, (T.set c none)[v.c]? = some (some a) ∧ pos a = true) ∧
        (∀ v ∈ r.visits, ∀ j, Before (T.set c none) j v.c → j ∈ r.visits.map (·.c))) →
      (((r.cons x).visits.map (·.c)).Pairwise (Before T)) ∧
        (∀ v ∈ (r.cons x).visits, ∃ a, T[v.c]? = some (some a) ∧ pos a = true) ∧
        (∀ v ∈ (r.cons x).visits, ∀ j, Before T j v.c → j ∈ (r.cons x).visits.map (·.c)) := by
    intro T c r x hx hp hc ⟨ih1, ih2, ih3⟩
    obtain ⟨a, ha⟩ := nanargmax_eq_some_iff.mp hc
    refine ⟨?_, ?_, ?_⟩
    · simp only [DualResult.cons_visits, List.map_cons, List.pairwise_cons, hx]
      constructor
      · intro j hj
        simp only [List.mem_map] at hj
        obtain ⟨v, hv, rfl⟩ := hj
        obtain ⟨b, hb, _⟩ := ih2 v hv
        obtain ⟨hb', hne⟩ := live_of_live_set hb
        refine ⟨a, b, ha.at_k, hb', ?_⟩
        rcases lt_or_eq_of_le (ha.ge_all _ _ hb') with hlt | heq
        · exact Or.inl hlt
        · refine Or.inr ⟨heq.symm, ?_⟩
          rcases Nat.lt_trichotomy c v.c with h | h | h
          · exact h
          · exact absurd h.symm hne
          · exact absurd (ha.gt_before _ _ h hb') (by rw [heq]; exact lt_irrefl _)
      · refine ih1.imp ?_
        rintro i j ⟨p, q, hp, hq, hpq⟩
        exact ⟨p, q, (live_of_live_set hp).1, (live_of_live_set hq).1, hpq⟩
    · intro v hv
      simp only [DualResult.cons_visits, List.mem_cons] at hv
      rcases hv with rfl | hv
      · exact ⟨a, hx ▸ ha.at_k, pos_of_nanargmax hm hp ha⟩
      · obtain ⟨b, hb, hpb⟩ := ih2 v hv
        exact ⟨b, (live_of_live_set hb).1, hpb⟩
    · intro v hv j hj
      simp only [DualResult.cons_visits, List.map_cons, List.mem_cons]
      by_cases e : j = c
      · exact Or.inl (e.trans hx.symm)
      · right
        simp only [DualResult.cons_visits, List.mem_cons] at hv
        rcases hv with rfl | hv
        · -- nothing but `c` itself comes before the arg-max
          obtain ⟨p, q, hp', hq, hpq⟩ := hj
          rw [hx, ha.at_k] at hq
          simp only [Option.some.injEq] at hq; subst hq
          rcases hpq with hlt | ⟨heq, hjc⟩
          · exact absurd (ha.ge_all j p hp') (not_le.mpr hlt)
          · subst heq
            exact absurd (ha.gt_before j p (hx ▸ hjc) hp') (lt_irrefl _)
        · obtain ⟨p, q, hp', hq, hpq⟩ := hj
          obtain ⟨b, hb, _⟩ := ih2 v hv
          have hvc : v.c ≠ c := (live_of_live_set hb).2
          exact ih3 v hv j ⟨p, q, live_set_of_live hp' e, live_set_of_live hq hvc, hpq⟩
  refine dualSearch_induction cfg lb pos M veto
    (fun T _ r => ((r.visits.map (·.c)).Pairwise (Before T)) ∧
      (∀ v ∈ r.visits, ∃ a, T[v.c]? = some (some a) ∧ pos a = true) ∧
      (∀ v ∈ r.visits, ∀ j, Before T j v.c → j ∈ r.visits.map (·.c)))
    ?_ ?_ ?_ ?_ ?_ ?_ ?_ fuel T th hf
  · intro T th _; simp
  · intro T th c hp hc _ _; exact single T c _ rfl hp hc
  · intro T th c hp hc _ _ _; exact single T c _ rfl hp hc
  · intro T th c r hp hc _ _ _ ih; exact key T c r _ rfl hp hc ih
  · intro T th c r hp hc _ _ _ ih; exact key T c r _ rfl hp hc ih
  · intro T th c hp hc _ _ _; exact single T c _ rfl hp hc
  · intro T th c r hp hc _ _ ih; exact key T c r _ rfl hp hc ih

/-- **Exhaustion.**  If no category decided and the search was not abandoned
(MT1 after a vetoed category that passed the upper test), every category with a
positive activation was visited. -/
theorem dualSearch_exhaustive (fuel : Nat) (T : List (Option α)) (th : θ) (hf : liveCount T ≤ fuel)
    (hfresh : (dualSearch cfg lb pos M veto fuel T th).outcome = .fresh)
    (hkeep : cfg.keep = true ∨
      ∀ v ∈ (dualSearch cfg lb pos M veto fuel T th).visits, v.ok = true ∨ v.m1 = false) :
    ∀ c a, T[c]? = some (some a) → pos a = true →
      c ∈ (dualSearch cfg lb pos M veto fuel T th).visits.map (·.c) := by
  revert hfresh hkeep
  refine dualSearch_induction cfg lb pos M veto
    (fun T _ r => r.outcome = .fresh → (cfg.keep = true ∨ ∀ v ∈ r.visits, v.ok = true ∨ v.m1 = false) →
      ∀ c a, T[c]? = some (some a) → pos a = true → c ∈ r.visits.map (·.c))
    ?_ ?_ ?_ ?_ ?_ ?_ ?_ fuel T th hf
  · intro T th hp _ _ c a hc ha
    have : anyPos pos T = true := anyPos_eq_true_iff.mpr ⟨c, a, hc, ha⟩
    simp [hp] at this
  · intro T th c _ _ _ _ h; simp at h
  · intro T th c _ _ _ _ _ h; simp at h
  · intro T th c r _ _ _ _ _ ih h hk c' a hc' ha
    simp only [DualResult.cons_visits, List.map_cons, List.mem_cons]
    by_cases e : c' = c
    · exact Or.inl e
    · refine Or.inr (ih (by simpa using h) ?_ c' a (live_set_of_live hc' e) ha)
      rcases hk with hk | hk
      · exact Or.inl hk
      · exact Or.inr (fun v hv => hk v (by simp [hv]))
  · intro T th c r _ _ _ _ _ ih h hk c' a hc' ha
    simp only [DualResult.cons_visits, List.map_cons, List.mem_cons]
    by_cases e : c' = c
    · exact Or.inl e
    · refine Or.inr (ih (by simpa using h) ?_ c' a (live_set_of_live hc' e) ha)
      rcases hk with hk | hk
      · exact Or.inl hk
      · exact Or.inr (fun v hv => hk v (by simp [hv]))
  · intro T th c _ _ _ _ hkf _ hk
    rcases hk with hk | hk
    · simp [hkf] at hk
    · have := hk _ (List.mem_singleton.mpr rfl)
      simp at this
  · intro T th c r _ _ _ _ ih h hk c' a hc' ha
    simp only [DualResult.cons_visits, List.map_cons, List.mem_cons]
    by_cases e : c' = c
    · exact Or.inl e
    · refine Or.inr (ih (by simpa using h) ?_ c' a (live_set_of_live hc' e) ha)
      rcases hk with hk | hk
      · exact Or.inl hk
      · exact Or.inr (fun v hv => hk v (by simp [hv]))

/-- Candidates the loop can settle on under a fixed upper threshold: positive
activation and the upper or the lower test passed. -/
def dualQualifying (th : θ) (T : List (Option α)) : List (Option α) :=
  (List.zipIdx T).map (fun ti =>
    if isPos pos ti.1 && (cfg.passes th (M ti.2) || cfg.passes lb (M ti.2)) then ti.1 else none)

theorem dualQualifying_getElem? (th : θ) (T : List (Option α)) (j : Nat) :
    (dualQualifying cfg lb pos M th T)[j]? =
      (T[j]?).map (fun t =>
        if isPos pos t && (cfg.passes th (M j) || cfg.passes lb (M j)) then t else none) := by
  simp [dualQualifying, List.getElem?_map, List.getElem?_zipIdx]
  cases T[j]? <;> simp

/-- **No reset function.**  The decision is taken by the first index of maximal
activation among the positive-activation categories that pass the upper or the
lower vigilance: absorb if it passes the upper one, else spawn; a fresh cluster
label iff there is no such category. -/
theorem dualSearch_no_veto (hm : PosMono pos) (fuel : Nat) (T : List (Option α)) (th : θ)
    (hf : liveCount T ≤ fuel) :
    (dualSearch cfg lb pos M (fun _ => false) fuel T th).outcome =
      match nanargmax (dualQualifying cfg lb pos M th T) with
      | some c => if cfg.passes th (M c) then .absorb c else .spawn c
      | none => .fresh := by
  have win : ∀ (T : List (Option α)) (th : θ) (c : Nat), anyPos pos T = true → nanargmax T = some c →
      (cfg.passes th (M c) || cfg.passes lb (M c)) = true →
      nanargmax (dualQualifying cfg lb pos M th T) = some c := by
    intro T th c hp hc hq
    obtain ⟨a, ha⟩ := nanargmax_eq_some_iff.mp hc
    have hpa := pos_of_nanargmax hm hp ha
    rw [nanargmax_eq_some_iff]
    refine ⟨a, ?_, ?_, ?_⟩
    · rw [dualQualifying_getElem?, ha.at_k]; simp [isPos, hpa, hq]
    · intro j u hj
      rw [dualQualifying_getElem?] at hj
      cases hT : T[j]? with
      | none => simp [hT] at hj
      | some t' =>
        simp only [hT, Option.map_some, Option.some.injEq] at hj
        split at hj
        · exact ha.ge_all j u (by rw [hT, hj])
        · simp at hj
    · intro j u hjc hj
      rw [dualQualifying_getElem?] at hj
      cases hT : T[j]? with
      | none => simp [hT] at hj
      | some t' =>
        simp only [hT, Option.map_some, Option.some.injEq] at hj
        split at hj
        · exact ha.gt_before j u hjc (by rw [hT, hj])
        · simp at hj
  refine dualSearch_induction cfg lb pos M (fun _ => false)
    (fun T th r => r.outcome =
      match nanargmax (dualQualifying cfg lb pos M th T) with
      | some c => if cfg.passes th (M c) then .absorb c else .spawn c
      | none => .fresh) ?_ ?_ ?_ ?_ ?_ ?_ ?_ fuel T th hf
  · intro T th hp
    have : nanargmax (dualQualifying cfg lb pos M th T) = none := by
      rw [nanargmax_eq_none_iff]
      intro t ht
      obtain ⟨j, hj⟩ := List.getElem?_of_mem ht
      rw [dualQualifying_getElem?] at hj
      cases hT : T[j]? with
      | none => simp [hT] at hj
      | some t' =>
        simp only [hT, Option.map_some, Option.some.injEq] at hj
        split at hj
        · rename_i hq
          cases t' with
          | none => exact hj.symm
          | some a =>
            have : anyPos pos T = true := anyPos_eq_true_iff.mpr ⟨j, a, hT, by
              simp only [isPos, Bool.and_eq_true] at hq; exact hq.1⟩
            simp [hp] at this
        · exact hj.symm
    simp [this]
  · intro T th c hp hc _ hm1
    rw [win T th c hp hc (by simp [hm1])]; simp [hm1]
  · intro T th c hp hc _ hm1 hm2
    rw [win T th c hp hc (by simp [hm2])]; simp [hm1]
  · intro T th c r hp hc _ hm1 hm2 ih
    simp only [DualResult.cons_outcome]
    rw [ih]
    have : dualQualifying cfg lb pos M th (T.set c none) = dualQualifying cfg lb pos M th T := by
      apply List.ext_getElem?
      intro j
      rw [dualQualifying_getElem?, dualQualifying_getElem?, List.getElem?_set]
      by_cases e : c = j
      · subst e
        have := nanargmax_lt_length hc
        simp [hm1, hm2, this, isPos]
      · simp [e]
    rw [this]
  · intro T th c r _ _ hv; simp at hv
  · intro T th c _ _ hv; simp at hv
  · intro T th c r _ _ hv; simp at hv

/-- **Statement vs. implementation (F18).**  If every non-NaN activation is
positive, the loop that only visits positive activations is the loop that visits
every category. -/
theorem dualSearch_all_positive (fuel : Nat) (T : List (Option α)) (th : θ)
    (hall : ∀ t ∈ T, ∀ a, t = some a → pos a = true) :
    dualSearch cfg lb pos M veto fuel T th = dualSearch cfg lb (fun _ => true) M veto fuel T th := by
  induction fuel generalizing T th with
  | zero => rfl
  | succ fuel ih =>
    have hany : anyPos pos T = anyPos (fun _ => true) T := by
      rw [Bool.eq_iff_iff]
      simp only [anyPos, List.any_eq_true]
      constructor
      · rintro ⟨t, ht, h⟩
        refine ⟨t, ht, ?_⟩
        cases t with
        | none => simp [isPos] at h
        | some a => simp [isPos]
      · rintro ⟨t, ht, h⟩
        refine ⟨t, ht, ?_⟩
        cases t with
        | none => simp [isPos] at h
        | some a => simp [isPos, hall _ ht a rfl]
    rw [dualSearch_succ, dualSearch_succ, hany]
    cases hc : nanargmax T with
    | none => rfl
    | some c =>
      have hset : ∀ t ∈ T.set c none, ∀ a, t = some a → pos a = true := by
        intro t ht a hta
        rcases List.mem_or_eq_of_mem_set ht with h | h
        · exact hall t h a hta
        · simp [h] at hta
      simp only [ih _ _ hset]

end Loop


/-! ### The category → cluster map -/

section MapLemmas

theorem le_mapMax {m : List Nat} {v : Nat} (h : v ∈ m) : v ≤ mapMax m := by
  induction m with
  | nil => simp at h
  | cons a as ih =>
    simp only [List.mem_cons] at h
    simp only [mapMax]
    rcases h with rfl | h
    · exact Nat.le_max_left _ _
    · exact Nat.le_trans (ih h) (Nat.le_max_right _ _)

theorem mapMax_mem {m : List Nat} (h : m ≠ []) : mapMax m ∈ m := by
  induction m with
  | nil => exact absurd rfl h
  | cons a as ih =>
    simp only [mapMax]
    by_cases has : as = []
    · subst has; simp [mapMax]
    · rcases Nat.le_total a (mapMax as) with hle | hle
      · rw [Nat.max_eq_right hle]; exact List.mem_cons_of_mem _ (ih has)
      · rw [Nat.max_eq_left hle]; exact List.mem_cons_self

/-- the set of map values is downward closed (⇔ an initial segment of ℕ) -/
def Contig (m : List Nat) : Prop := ∀ v ∈ m, ∀ j, j ≤ v → j ∈ m

theorem contig_nil : Contig [] := by intro v hv; simp at hv

theorem contig_singleton_zero : Contig [0] := by
  intro v hv j hj
  simp only [List.mem_singleton] at hv; subst hv
  simp [Nat.le_zero.mp hj]

theorem contig_append_mem {m : List Nat} {l : Nat} (hc : Contig m) (hl : l ∈ m) :
    Contig (m ++ [l]) := by
  intro v hv j hj
  simp only [List.mem_append, List.mem_singleton] at hv ⊢
  rcases hv with hv | rfl
  · exact Or.inl (hc v hv j hj)
  · exact Or.inl (hc _ hl j hj)

theorem contig_append_succ_max {m : List Nat} (hc : Contig m) (hne : m ≠ []) :
    Contig (m ++ [mapMax m + 1]) := by
  intro v hv j hj
  simp only [List.mem_append, List.mem_singleton] at hv ⊢
  rcases hv with hv | rfl
  · exact Or.inl (hc v hv j hj)
  · rcases Nat.lt_or_ge j (mapMax m + 1) with h | h
    · exact Or.inl (hc _ (mapMax_mem hne) j (by omega))
    · exact Or.inr (by omega)

theorem zero_mem_of_contig {m : List Nat} (hc : Contig m) (hne : m ≠ []) : 0 ∈ m :=
  hc _ (mapMax_mem hne) 0 (Nat.zero_le _)

theorem getD_mem_of_contig {m : List Nat} (hc : Contig m) (hne : m ≠ []) (c : Nat) :
    m.getD c 0 ∈ m := by
  rw [List.getD_eq_getElem?_getD]
  cases h : m[c]? with
  | none => simpa using zero_mem_of_contig hc hne
  | some v => simpa using List.mem_of_getElem? h

theorem nodup_eraseDups (l : List Nat) : l.eraseDups.Nodup := by
  generalize hn : l.length = n
  induction n using Nat.strongRecOn generalizing l with
  | _ n ih =>
    cases l with
    | nil => simp
    | cons a as =>
      rw [List.eraseDups_cons, List.nodup_cons]
      constructor
      · simp [List.mem_eraseDups]
      · have hlen : (as.filter fun b => !b == a).length < n := by
          have := List.length_filter_le (fun b => !b == a) as
          simp at hn; omega
        exact ih _ hlen _ rfl

/-- **The values of a downward-closed map are exactly `0 … n_clusters − 1`.** -/
theorem nClusters_spec {m : List Nat} (hc : Contig m) :
    (∀ v ∈ m, v < nClusters m) ∧ (∀ j, j < nClusters m → j ∈ m) := by
  by_cases hne : m = []
  · subst hne; simp [nClusters]
  · have hmem : ∀ j, j ∈ m.eraseDups ↔ j ∈ List.range (mapMax m + 1) := by
      intro j
      rw [List.mem_eraseDups, List.mem_range]
      constructor
      · intro h; exact Nat.lt_succ_of_le (le_mapMax h)
      · intro h; exact hc _ (mapMax_mem hne) j (by omega)
    have hperm := (List.perm_ext_iff_of_nodup (nodup_eraseDups m) List.nodup_range).mpr hmem
    have hlen : nClusters m = mapMax m + 1 := by
      simpa [nClusters] using hperm.length_eq
    rw [hlen]
    exact ⟨fun v hv => Nat.lt_succ_of_le (le_mapMax hv),
      fun j hj => hc _ (mapMax_mem hne) j (by omega)⟩

theorem nClusters_eq {m : List Nat} (hc : Contig m) (hne : m ≠ []) : nClusters m = mapMax m + 1 := by
  have hmem : ∀ j, j ∈ m.eraseDups ↔ j ∈ List.range (mapMax m + 1) := by
    intro j
    rw [List.mem_eraseDups, List.mem_range]
    constructor
    · intro h; exact Nat.lt_succ_of_le (le_mapMax h)
    · intro h; exact hc _ (mapMax_mem hne) j (by omega)
  have hperm := (List.perm_ext_iff_of_nodup (nodup_eraseDups m) List.nodup_range).mpr hmem
  simpa [nClusters] using hperm.length_eq

end MapLemmas

/-! ### `np.argmax` -/

section ArgmaxNp
variable {α : Type} [LinearOrder α]

theorem argmaxNp_lt_length {T : List (Option α)} {c : Nat} (h : argmaxNp T = some c) :
    c < T.length := by
  unfold argmaxNp at h
  split at h
  · rename_i i hi
    simp only [Option.some.injEq] at h; subst h
    obtain ⟨hlt, _⟩ := List.findIdx?_eq_some_iff_getElem.mp hi
    exact hlt
  · exact nanargmax_lt_length h

theorem argmaxNp_isSome {T : List (Option α)} (hne : T ≠ []) : ∃ c, argmaxNp T = some c := by
  unfold argmaxNp
  split
  · rename_i i _; exact ⟨i, rfl⟩
  · rename_i hnone
    cases T with
    | nil => exact absurd rfl hne
    | cons t ts =>
      have hall := List.findIdx?_eq_none_iff.mp hnone
      cases hc : nanargmax (t :: ts) with
      | some c => exact ⟨c, rfl⟩
      | none =>
        have h1 := nanargmax_eq_none_iff.mp hc t List.mem_cons_self
        have h2 := hall t List.mem_cons_self
        subst h1; simp at h2

end ArgmaxNp

/-! ### Invariants of the training fold -/

section Fold
variable {X Wt α μ θ : Type} [LinearOrder α]

/-- What every reachable state satisfies. -/
structure DualInv (s : DualState Wt) : Prop where
  /-- the map has exactly one entry per category -/
  total : s.map.length = s.base.W.length
  /-- its values are an initial segment of ℕ -/
  contig : Contig s.map
  /-- every stored label is a map value -/
  labels : ∀ l ∈ s.base.labels, l ∈ s.map

theorem dualInv_init : DualInv ({} : DualState Wt) :=
  ⟨rfl, contig_nil, by intro l hl; simp at hl⟩

variable (K : Kernel X Wt α μ)

/-- `dualApply` on a consistent state: the new state is consistent apart from
`labels`, and the returned label is a value of the new map. -/
theorem dualApply_spec (s : DualState Wt) (x : X) (d : Option DualOutcome)
    (hd : d = none ↔ s.base.W = []) (hi : DualInv s) :
    (dualApply K s x d).1.map.length = (dualApply K s x d).1.base.W.length ∧
    Contig (dualApply K s x d).1.map ∧
    (dualApply K s x d).2 ∈ (dualApply K s x d).1.map ∧
    (∀ l ∈ s.base.labels, l ∈ (dualApply K s x d).1.map) ∧
    (dualApply K s x d).1.base.labels = s.base.labels := by
  cases d with
  | none =>
    have hW : s.base.W = [] := hd.mp rfl
    have hmap : s.map = [] := by
      have := hi.total; rw [hW] at this; simpa using this
    refine ⟨by simp [dualApply, hW], by simpa [dualApply] using contig_singleton_zero,
      by simp [dualApply], ?_, rfl⟩
    intro l hl
    have := hi.labels l hl
    rw [hmap] at this; simp at this
  | some o =>
    have hW : s.base.W ≠ [] := fun h => by simpa using hd.mpr h
    have hne : s.map ≠ [] := by
      intro h
      have := hi.total; rw [h] at this
      exact hW (List.length_eq_zero_iff.mp this.symm)
    cases o with
    | absorb c =>
      simp only [dualApply]
      split
      · refine ⟨by simpa using hi.total, hi.contig, getD_mem_of_contig hi.contig hne c, hi.labels, rfl⟩
      · exact ⟨hi.total, hi.contig, getD_mem_of_contig hi.contig hne c, hi.labels, rfl⟩
    | spawn c =>
      refine ⟨by simp [dualApply, dualAdd, hi.total],
        by simpa [dualApply, dualAdd] using contig_append_mem hi.contig (getD_mem_of_contig hi.contig hne c),
        by simp [dualApply, dualAdd], ?_, rfl⟩
      intro l hl
      simp only [dualApply, dualAdd, List.mem_append]
      exact Or.inl (hi.labels l hl)
    | fresh =>
      refine ⟨by simp [dualApply, dualAdd, hi.total],
        by simpa [dualApply, dualAdd] using contig_append_succ_max hi.contig hne,
        by simp [dualApply, dualAdd], ?_, rfl⟩
      intro l hl
      simp only [dualApply, dualAdd, List.mem_append]
      exact Or.inl (hi.labels l hl)

variable (cfg : SearchCfg μ θ) (th0 lb : θ) (pos : α → Bool)

theorem dualDecide_none_iff (vetoL : Nat → Bool) (s : DualState Wt) (x : X) :
    dualDecide K cfg th0 lb pos vetoL s x = none ↔ s.base.W = [] := by
  unfold dualDecide
  split
  · rename_i h; simpa using List.isEmpty_iff.mp h
  · rename_i h
    simp only [reduceCtorEq, false_iff]
    intro e; simp [e] at h

/-- one training step preserves the invariant -/
theorem dualTrainStep_inv (veto : DualState Wt → X → Nat → Bool) (s : DualState Wt) (x : X)
    (hi : DualInv s) : DualInv (dualTrainStep K cfg th0 lb pos veto s x) := by
  obtain ⟨h1, h2, h3, h4, h5⟩ := dualApply_spec K s x (dualDecide K cfg th0 lb pos (veto s x) s x)
    (dualDecide_none_iff K cfg th0 lb pos (veto s x) s x) hi
  refine ⟨?_, ?_, ?_⟩
  · simpa [dualTrainStep, dualStepFit] using h1
  · simpa [dualTrainStep, dualStepFit] using h2
  · intro l hl
    simp only [dualTrainStep, dualStepFit, List.mem_append, List.mem_singleton] at hl ⊢
    rcases hl with hl | rfl
    · rw [h5] at hl; exact h4 l hl
    · exact h3

/-- `partial_fit` preserves the invariant, for every batch -/
theorem dualPartialFit_inv (veto : DualState Wt → X → Nat → Bool) (s : DualState Wt) (xs : List X)
    (hi : DualInv s) : DualInv (dualPartialFit K cfg th0 lb pos veto s xs) := by
  induction xs generalizing s with
  | nil => exact hi
  | cons x xs ih => exact ih _ (dualTrainStep_inv K cfg th0 lb pos veto s x hi)

/-- the first step after `fit`'s reset establishes the invariant whatever map was left over -/
theorem dualTrainStep_reset_inv (veto : DualState Wt → X → Nat → Bool) (s : DualState Wt) (x : X) :
    DualInv (dualTrainStep K cfg th0 lb pos veto (dualReset s) x) := by
  refine ⟨?_, ?_, ?_⟩
  · simp [dualTrainStep, dualStepFit, dualDecide, dualReset, dualApply]
  · simpa [dualTrainStep, dualStepFit, dualDecide, dualReset, dualApply] using contig_singleton_zero
  · intro l hl
    simp [dualTrainStep, dualStepFit, dualDecide, dualReset, dualApply] at hl ⊢
    exact hl

/-- `fit` on a non-empty stream ends in a consistent state, from any state -/
theorem dualFit_inv (veto : DualState Wt → X → Nat → Bool) (s : DualState Wt) (xs : List X)
    (hne : xs ≠ []) : DualInv (dualFit K cfg th0 lb pos veto s xs) := by
  cases xs with
  | nil => exact absurd rfl hne
  | cons x xs =>
    exact dualPartialFit_inv K cfg th0 lb pos veto _ xs (dualTrainStep_reset_inv K cfg th0 lb pos veto s x)

/-- an `absorb` / `spawn` decision names an existing category -/
theorem dualSearch_outcome_lt (M : Nat → μ) (veto : Nat → Bool) (fuel : Nat) (T : List (Option α)) (th : θ)
    (hf : liveCount T ≤ fuel) :
    ∀ c, ((dualSearch cfg lb pos M veto fuel T th).outcome = .absorb c ∨
      (dualSearch cfg lb pos M veto fuel T th).outcome = .spawn c) → c < T.length := by
  refine dualSearch_induction cfg lb pos M veto
    (fun T _ r => ∀ c, (r.outcome = .absorb c ∨ r.outcome = .spawn c) → c < T.length)
    ?_ ?_ ?_ ?_ ?_ ?_ ?_ fuel T th hf
  · intro T th _ c h; simp at h
  · intro T th c _ hc _ _ c' h
    simp at h; subst h; exact nanargmax_lt_length hc
  · intro T th c _ hc _ _ _ c' h
    simp at h; subst h; exact nanargmax_lt_length hc
  · intro T th c r _ _ _ _ _ ih c' h
    simpa using ih c' (by simpa using h)
  · intro T th c r _ _ _ _ _ ih c' h
    simpa using ih c' (by simpa using h)
  · intro T th c _ _ _ _ _ c' h; simp at h
  · intro T th c r _ _ _ _ ih c' h
    simpa using ih c' (by simpa using h)

/-- **Frame of one step.**  Either exactly one category `newW x` is appended and
no weight changes, or the outcome is `absorb c`, only `W[c]` changes, to
`update x W[c]`, the map is untouched, and `c` — the last visit — was not vetoed
and passed the upper test against the threshold `th'` in force at its visit. -/
theorem dualStepFit_frame (vetoL : Nat → Bool) (s : DualState Wt) (x : X) (hne : s.base.W ≠ []) :
    ((dualStepFit K cfg th0 lb pos vetoL s x).1.base.W = s.base.W ++ [K.newW x] ∧
      (dualStepFit K cfg th0 lb pos vetoL s x).1.map.length = s.map.length + 1 ∧
      (dualStepFit K cfg th0 lb pos vetoL s x).1.map.take s.map.length = s.map ∧
      ∀ c, (dualStepSearch K cfg th0 lb pos vetoL s x).outcome ≠ .absorb c) ∨
    (∃ c w th', (dualStepSearch K cfg th0 lb pos vetoL s x).outcome = .absorb c ∧
      s.base.W[c]? = some w ∧
      (dualStepFit K cfg th0 lb pos vetoL s x).1.base.W = s.base.W.set c (K.update x w) ∧
      (dualStepFit K cfg th0 lb pos vetoL s x).1.map = s.map ∧
      (dualStepSearch K cfg th0 lb pos vetoL s x).visits.getLast? =
        some ⟨c, th', true, cfg.passes lb (K.matchv x w), true⟩ ∧
      cfg.passes th' (K.matchv x w) = true ∧ vetoL (s.map.getD c 0) = false) := by
  have hemp : s.base.W.isEmpty = false := by
    cases h : s.base.W with
    | nil => exact absurd h hne
    | cons _ _ => rfl
  have hdec : dualDecide K cfg th0 lb pos vetoL s x =
      some (dualStepSearch K cfg th0 lb pos vetoL s x).outcome := by
    simp [dualDecide, hemp]
  have hlen : liveCount (activations K s.base.W x) ≤ (activations K s.base.W x).length :=
    liveCount_le_length _
  cases ho : (dualStepSearch K cfg th0 lb pos vetoL s x).outcome with
  | absorb c =>
    right
    have hc : c < s.base.W.length := by
      have := dualSearch_outcome_lt cfg lb pos (matchAt K s.base.W x)
        (fun c => vetoL (s.map.getD c 0)) _ _ th0 hlen c (Or.inl ho)
      simpa [activations] using this
    obtain ⟨th', hl, hp, hv⟩ := (dualSearch_sound cfg lb pos (matchAt K s.base.W x)
      (fun c => vetoL (s.map.getD c 0)) _ _ th0 hlen).1 c ho
    have hw : s.base.W[c]? = some s.base.W[c] := List.getElem?_eq_getElem hc
    have hM : matchAt K s.base.W x c = K.matchv x s.base.W[c] := by simp [matchAt, hw]
    refine ⟨c, s.base.W[c], th', rfl, hw, ?_, ?_, ?_, ?_, hv⟩
    · simp [dualStepFit, hdec, ho, dualApply, hw]
    · simp [dualStepFit, hdec, ho, dualApply, hw]
    · rw [← hM]; exact hl
    · rw [← hM]; exact hp
  | spawn c =>
    left
    refine ⟨by simp [dualStepFit, hdec, ho, dualApply, dualAdd],
      by simp [dualStepFit, hdec, ho, dualApply, dualAdd],
      by simp [dualStepFit, hdec, ho, dualApply, dualAdd], by intro c'; simp⟩
  | fresh =>
    left
    refine ⟨by simp [dualStepFit, hdec, ho, dualApply, dualAdd],
      by simp [dualStepFit, hdec, ho, dualApply, dualAdd],
      by simp [dualStepFit, hdec, ho, dualApply, dualAdd], by intro c'; simp⟩

/-- **Upper bound against the configured threshold.**  When tracking only
tightens (`TrackTightens`), a category that absorbs a sample passed the
*configured* upper vigilance `th0`, with or without a reset function. -/
theorem dualStepFit_absorb_configured (ht : TrackTightens cfg) (vetoL : Nat → Bool)
    (s : DualState Wt) (x : X) (hne : s.base.W ≠ []) (c : Nat)
    (ho : (dualStepSearch K cfg th0 lb pos vetoL s x).outcome = .absorb c) :
    ∃ w, s.base.W[c]? = some w ∧
      (dualStepFit K cfg th0 lb pos vetoL s x).1.base.W = s.base.W.set c (K.update x w) ∧
      cfg.passes th0 (K.matchv x w) = true := by
  rcases dualStepFit_frame K cfg th0 lb pos vetoL s x hne with h | h
  · exact absurd ho (h.2.2.2 c)
  · obtain ⟨c', w, th', ho', hw, hW, _, hl, hp, _⟩ := h
    rw [ho] at ho'
    simp only [DualOutcome.absorb.injEq] at ho'
    subst ho'
    have hth := dualSearch_tightens cfg lb pos (matchAt K s.base.W x)
      (fun c => vetoL (s.map.getD c 0)) ht
      (activations K s.base.W x).length (activations K s.base.W x) th0 (liveCount_le_length _)
      _ (List.mem_of_getLast? hl) (K.matchv x w) hp
    exact ⟨w, hw, hW, hth⟩

/-- prediction answers with a value of the map -/
theorem dualStepPred_mem (s : DualState Wt) (x : X) (l : Nat)
    (h : dualStepPred K s x = some l) : l ∈ s.map := by
  simp only [dualStepPred, Option.bind_eq_some_iff] at h
  obtain ⟨c, _, hc⟩ := h
  exact List.mem_of_getElem? hc

/-- a consistent non-empty model always answers -/
theorem dualStepPred_isSome (s : DualState Wt) (x : X) (hi : DualInv s) (hne : s.base.W ≠ []) :
    ∃ l, dualStepPred K s x = some l := by
  have hT : activations K s.base.W x ≠ [] := by
    simp [activations, hne]
  obtain ⟨c, hc⟩ := argmaxNp_isSome hT
  have hlt : c < s.map.length := by
    have := argmaxNp_lt_length hc
    rw [hi.total]; simpa [activations] using this
  exact ⟨s.map[c], by simp [dualStepPred, stepPred, hc, List.getElem?_eq_getElem hlt]⟩

end Fold


/-! ### "The first category passing the lower vigilance decides" -/

section Lower
variable {α μ θ : Type} [LinearOrder α]
variable (cfg : SearchCfg μ θ) (lb : θ) (pos : α → Bool) (M : Nat → μ)

/-- positive activation and the lower test passed -/
def lowerQualifying (T : List (Option α)) : List (Option α) :=
  (List.zipIdx T).map (fun ti => if isPos pos ti.1 && cfg.passes lb (M ti.2) then ti.1 else none)

/-- When passing the upper test implies passing the lower one (true of every
non-inverted scalar test with `rho_lower_bound ≤ rho`), the categories that can
settle a sample are those passing the lower test. -/
theorem dualQualifying_eq_lower (th : θ) (T : List (Option α))
    (himp : ∀ m, cfg.passes th m = true → cfg.passes lb m = true) :
    dualQualifying cfg lb pos M th T = lowerQualifying cfg lb pos M T := by
  simp only [dualQualifying, lowerQualifying]
  apply List.map_congr_left
  intro ti _
  cases h1 : cfg.passes th (M ti.2)
  · simp
  · simp [himp _ h1]

/-- the non-inverted scalar vigilance test is antitone in the threshold -/
theorem passesScalar_of_le (mode : MT) {lb rho : α} (h : lb ≤ rho) (m : α)
    (hp : passesScalar mode false rho m = true) : passesScalar mode false lb m = true := by
  cases mode <;> simp only [passesScalar, mtStrict, decide_eq_true_eq] at hp ⊢
  · exact le_trans h hp
  · exact le_trans h hp
  · exact lt_of_le_of_lt h hp
  · exact le_trans h hp
  · exact lt_of_le_of_lt h hp

/-- The wrapper's (non-inverted) match tracking only tightens a non-inverted scalar
test in every mode but MT- (which lowers the threshold by design), provided
`M + epsilon ≥ M` (`epsilon ≥ 0`).  Under MT1 nothing is searched after tracking. -/
theorem scalar_track_tightens (mode : MT) (hmode : mode ≠ .minus) (adjP adjM : α → α) (top : α)
    (hadj : ∀ m, m ≤ adjP m) : TrackTightens (scalarCfg mode false adjP adjM top) := by
  intro hk th m m' hp hp'
  cases mode with
  | minus => exact absurd rfl hmode
  | one => simp [scalarCfg] at hk
  | plus =>
    simp only [scalarCfg, passesScalar, mtStrict, trackScalar, decide_eq_true_eq] at hp hp' ⊢
    exact le_trans hp (le_trans (hadj m) hp')
  | zero =>
    simp only [scalarCfg, passesScalar, mtStrict, trackScalar, decide_eq_true_eq] at hp hp' ⊢
    exact lt_trans hp hp'
  | tilde =>
    simpa [scalarCfg, trackScalar] using hp'

end Lower

end Art
