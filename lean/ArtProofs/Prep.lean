/-
ArtProofs.Prep — lemmas about normalisation, complement coding and the
validation predicates of `ArtModel.Prep`, over every linearly ordered field.
Everything lives in `namespace Art.Prep` (other slices have their own `vmin_length` …).
-/
import Mathlib.Algebra.Order.Field.Basic
import Mathlib.Tactic.Ring
import Mathlib.Tactic.Linarith
import Mathlib.Tactic.FieldSimp
import Mathlib.Data.List.Forall2
import ArtModel.Prep

namespace Art.Prep

set_option linter.unusedSectionVars false

open List

/-! ### hypotheses -/

/-- every column of `X` is non-constant, said through the bounds the code
computes: `d_max[j] ≠ d_min[j]` for every column `j` (no divisor is zero) -/
def NonConst {α : Type} [Min α] [Max α] (X : Mat α) : Prop :=
  Forall₂ (· ≠ ·) (colMax X) (colMin X)

/-- the same, said through the data: every column holds two different values -/
def ColsVary {α : Type} (X : Mat α) (d : Nat) : Prop :=
  ∀ j, j < d → ∃ r ∈ X, ∃ r' ∈ X, r[j]? ≠ r'[j]?

/-- remembered bounds fit the data width and no divisor is zero -/
def GoodBounds {α : Type} (dmax dmin : List α) (d : Nat) : Prop :=
  dmax.length = d ∧ Forall₂ (· ≠ ·) dmax dmin

section Order
variable {α : Type} [LinearOrder α]

theorem vmin_length {a b : List α} (h : a.length = b.length) : (vmin a b).length = a.length := by
  simp [vmin, h]

theorem vmax_length {a b : List α} (h : a.length = b.length) : (vmax a b).length = a.length := by
  simp [vmax, h]

theorem vmin_le_left : ∀ {a b : List α}, a.length = b.length → Forall₂ (· ≤ ·) (vmin a b) a
  | [], [], _ => by simp [vmin]
  | [], _ :: _, h => by simp at h
  | _ :: _, [], h => by simp at h
  | x :: xs, y :: ys, h => by
    have ih := vmin_le_left (a := xs) (b := ys) (by simpa using h)
    simpa [vmin] using ih

theorem vmin_le_right : ∀ {a b : List α}, a.length = b.length → Forall₂ (· ≤ ·) (vmin a b) b
  | [], [], _ => by simp [vmin]
  | [], _ :: _, h => by simp at h
  | _ :: _, [], h => by simp at h
  | x :: xs, y :: ys, h => by
    have ih := vmin_le_right (a := xs) (b := ys) (by simpa using h)
    simpa [vmin] using ih

theorem le_vmax_left : ∀ {a b : List α}, a.length = b.length → Forall₂ (· ≤ ·) a (vmax a b)
  | [], [], _ => by simp [vmax]
  | [], _ :: _, h => by simp at h
  | _ :: _, [], h => by simp at h
  | x :: xs, y :: ys, h => by
    have ih := le_vmax_left (a := xs) (b := ys) (by simpa using h)
    simpa [vmax] using ih

theorem le_vmax_right : ∀ {a b : List α}, a.length = b.length → Forall₂ (· ≤ ·) b (vmax a b)
  | [], [], _ => by simp [vmax]
  | [], _ :: _, h => by simp at h
  | _ :: _, [], h => by simp at h
  | x :: xs, y :: ys, h => by
    have ih := le_vmax_right (a := xs) (b := ys) (by simpa using h)
    simpa [vmax] using ih

theorem forall₂_le_trans : ∀ {a b c : List α}, Forall₂ (· ≤ ·) a b → Forall₂ (· ≤ ·) b c →
    Forall₂ (· ≤ ·) a c
  | _, _, _, .nil, .nil => .nil
  | _, _, _, .cons h t, .cons h' t' => .cons (le_trans h h') (forall₂_le_trans t t')

theorem forall₂_le_refl : ∀ (a : List α), Forall₂ (· ≤ ·) a a
  | [] => .nil
  | _ :: xs => .cons le_rfl (forall₂_le_refl xs)

/-- invariant of the `np.min(axis=0)` reduction -/
theorem foldl_vmin_spec {d : Nat} : ∀ (rs : Mat α) (acc : List α), acc.length = d → Rect rs d →
    (rs.foldl vmin acc).length = d ∧ Forall₂ (· ≤ ·) (rs.foldl vmin acc) acc ∧
      ∀ r ∈ rs, Forall₂ (· ≤ ·) (rs.foldl vmin acc) r
  | [], acc, h, _ => ⟨by simpa using h, by simp, by simp⟩
  | r :: rs, acc, h, hr => by
    have hrl : r.length = d := hr r (by simp)
    have hlen : acc.length = r.length := by omega
    have ih := foldl_vmin_spec rs (vmin acc r) (by rw [vmin_length hlen, h])
      (fun q hq => hr q (by simp [hq]))
    simp only [foldl_cons]
    refine ⟨ih.1, forall₂_le_trans ih.2.1 (vmin_le_left hlen), ?_⟩
    intro q hq
    rcases List.mem_cons.mp hq with rfl | hq
    · exact forall₂_le_trans ih.2.1 (vmin_le_right hlen)
    · exact ih.2.2 q hq

theorem foldl_vmax_spec {d : Nat} : ∀ (rs : Mat α) (acc : List α), acc.length = d → Rect rs d →
    (rs.foldl vmax acc).length = d ∧ Forall₂ (· ≤ ·) acc (rs.foldl vmax acc) ∧
      ∀ r ∈ rs, Forall₂ (· ≤ ·) r (rs.foldl vmax acc)
  | [], acc, h, _ => ⟨by simpa using h, by simp, by simp⟩
  | r :: rs, acc, h, hr => by
    have hrl : r.length = d := hr r (by simp)
    have hlen : acc.length = r.length := by omega
    have ih := foldl_vmax_spec rs (vmax acc r) (by rw [vmax_length hlen, h])
      (fun q hq => hr q (by simp [hq]))
    simp only [foldl_cons]
    refine ⟨ih.1, forall₂_le_trans (le_vmax_left hlen) ih.2.1, ?_⟩
    intro q hq
    rcases List.mem_cons.mp hq with rfl | hq
    · exact forall₂_le_trans (le_vmax_right hlen) ih.2.1
    · exact ih.2.2 q hq

/-- `d_min` has the data width and is a lower bound of every row, entry by entry -/
theorem colMin_spec {X : Mat α} {d : Nat} (hX : Rect X d) (hne : X ≠ []) :
    (colMin X).length = d ∧ ∀ r ∈ X, Forall₂ (· ≤ ·) (colMin X) r := by
  cases X with
  | nil => exact absurd rfl hne
  | cons r rs =>
    have h := foldl_vmin_spec rs r (hX r (by simp)) (fun q hq => hX q (by simp [hq]))
    refine ⟨h.1, ?_⟩
    intro q hq
    rcases List.mem_cons.mp hq with rfl | hq
    · exact h.2.1
    · exact h.2.2 q hq

theorem colMax_spec {X : Mat α} {d : Nat} (hX : Rect X d) (hne : X ≠ []) :
    (colMax X).length = d ∧ ∀ r ∈ X, Forall₂ (· ≤ ·) r (colMax X) := by
  cases X with
  | nil => exact absurd rfl hne
  | cons r rs =>
    have h := foldl_vmax_spec rs r (hX r (by simp)) (fun q hq => hX q (by simp [hq]))
    refine ⟨h.1, ?_⟩
    intro q hq
    rcases List.mem_cons.mp hq with rfl | hq
    · exact h.2.1
    · exact h.2.2 q hq

/-- a column holding two different values has `d_max ≠ d_min` -/
theorem nonConst_of_colsVary {X : Mat α} {d : Nat} (hX : Rect X d) (hv : ColsVary X d)
    (hne : X ≠ []) : NonConst X := by
  have hmin := colMin_spec hX hne
  have hmax := colMax_spec hX hne
  refine forall₂_iff_get.mpr ⟨by rw [hmin.1, hmax.1], ?_⟩
  intro j h₁ h₂ heq
  have hj : j < d := by rw [← hmax.1]; exact h₁
  obtain ⟨r, hr, r', hr', hne'⟩ := hv j hj
  have key : ∀ q ∈ X, q[j]? = some ((colMin X).get ⟨j, h₂⟩) := by
    intro q hq
    have hql : j < q.length := by rw [hX q hq]; exact hj
    have lo := (forall₂_iff_get.mp (hmin.2 q hq)).2 j h₂ hql
    have hi := (forall₂_iff_get.mp (hmax.2 q hq)).2 j hql h₁
    rw [List.getElem?_eq_getElem hql]
    simp only [List.get_eq_getElem] at lo hi heq ⊢
    exact congrArg some (le_antisymm (heq ▸ hi) lo)
  exact hne' ((key r hr).trans (key r' hr').symm)

end Order

section Field
variable {α : Type} [Field α] [LinearOrder α] [IsStrictOrderedRing α]

/-! ### normalisation -/

theorem normRow_length : ∀ {x mx mn : List α}, x.length = mx.length → mx.length = mn.length →
    (normRow x mx mn).length = x.length
  | [], _, _, _, _ => by simp [normRow]
  | _ :: _, [], _, h, _ => by simp at h
  | _ :: _, _ :: _, [], _, h => by simp at h
  | x :: xs, m :: ms, n :: ns, h, h' => by
    simp [normRow, normRow_length (x := xs) (mx := ms) (mn := ns) (by simpa using h) (by simpa using h')]

theorem normRow_in_unit : ∀ {x mx mn : List α}, Forall₂ (· ≤ ·) mn x → Forall₂ (· ≤ ·) x mx →
    Forall₂ (· ≠ ·) mx mn → ∀ v ∈ normRow x mx mn, 0 ≤ v ∧ v ≤ 1
  | _, _, _, .nil, .nil, _ => by simp [normRow]
  | _, _, _, .cons (a := n) (b := x) hlo tlo, .cons (b := m) hhi thi, .cons hne tne => by
    intro v hv
    simp only [normRow, List.mem_cons] at hv
    rcases hv with rfl | hv
    · have hlt : n < m := lt_of_le_of_ne (le_trans hlo hhi) (Ne.symm hne)
      have hpos : 0 < m - n := sub_pos.mpr hlt
      exact ⟨div_nonneg (sub_nonneg.mpr hlo) hpos.le, (div_le_one hpos).mpr (by linarith)⟩
    · exact normRow_in_unit tlo thi tne v hv

theorem denormRow_normRow {x mx mn : List α} (h : x.length = mx.length)
    (hne : Forall₂ (· ≠ ·) mx mn) : denormRow (normRow x mx mn) mx mn = x := by
  induction hne generalizing x with
  | nil =>
    cases x with
    | nil => simp [normRow, denormRow]
    | cons _ _ => simp at h
  | @cons m n ms ns hmn _ ih =>
    cases x with
    | nil => simp [normRow, denormRow]
    | cons x xs =>
      have hd : m - n ≠ 0 := sub_ne_zero.mpr hmn
      simp only [normRow, denormRow, List.cons.injEq]
      refine ⟨?_, ih (by simpa using h)⟩
      field_simp
      ring

theorem deNormalize_normWith {X : Mat α} {d : Nat} {dmax dmin : List α} (hX : Rect X d)
    (hb : GoodBounds dmax dmin d) : deNormalize (normWith dmax dmin X) dmax dmin = X := by
  simp only [deNormalize, normWith, List.map_map]
  conv_rhs => rw [← List.map_id X]
  apply List.map_congr_left
  intro r hr
  simp only [Function.comp_apply, id_eq]
  exact denormRow_normRow (by rw [hX r hr, hb.1]) hb.2

/-- the IEEE-aware and the plain normalisation agree wherever no divisor is zero -/
theorem normRowChk_eq : ∀ {x mx mn : List α}, Forall₂ (· ≠ ·) mx mn →
    normRowChk x mx mn = (normRow x mx mn).map some
  | [], _, _, _ => by simp [normRow, normRowChk]
  | _ :: _, _, _, .nil => by simp [normRow, normRowChk]
  | x :: xs, _, _, .cons (a := m) (b := n) hne tne => by
    have hd : m - n ≠ 0 := sub_ne_zero.mpr hne
    simp [normRow, normRowChk, hd, normRowChk_eq (x := xs) tne]

theorem normWithChk_eq {X : Mat α} {dmax dmin : List α} (hb : Forall₂ (· ≠ ·) dmax dmin) :
    normWithChk dmax dmin X = (normWith dmax dmin X).map (fun r => r.map some) := by
  simp only [normWithChk, normWith, List.map_map]
  apply List.map_congr_left
  intro r _
  simp [normRowChk_eq hb]

theorem nonConst_goodBounds {X : Mat α} {d : Nat} (hX : Rect X d) (hne : X ≠ []) (hc : NonConst X) :
    GoodBounds (colMax X) (colMin X) d :=
  ⟨(colMax_spec hX hne).1, hc⟩

theorem normWith_in_unit {X : Mat α} {d : Nat} (hX : Rect X d) (hc : NonConst X) :
    ∀ r ∈ normWith (colMax X) (colMin X) X, ∀ v ∈ r, 0 ≤ v ∧ v ≤ 1 := by
  intro r hr v hv
  simp only [normWith, List.mem_map] at hr
  obtain ⟨q, hq, rfl⟩ := hr
  have hne : X ≠ [] := by rintro rfl; simp at hq
  exact normRow_in_unit ((colMin_spec hX hne).2 q hq) ((colMax_spec hX hne).2 q hq) hc v hv

theorem normWith_rect {X : Mat α} {d : Nat} {dmax dmin : List α} (hX : Rect X d)
    (h1 : dmax.length = d) (h2 : dmin.length = d) : Rect (normWith dmax dmin X) d := by
  intro r hr
  simp only [normWith, List.mem_map] at hr
  obtain ⟨q, hq, rfl⟩ := hr
  rw [normRow_length (by rw [hX q hq, h1]) (by rw [h1, h2]), hX q hq]

/-! ### complement coding -/

theorem vsum_append : ∀ (a b : List α), vsum (a ++ b) = vsum a + vsum b
  | [], b => by simp [vsum]
  | x :: xs, b => by simp [vsum, vsum_append xs b, add_assoc]

theorem vsum_vcompl : ∀ (r : List α), vsum (vcompl r) = (r.length : α) - vsum r
  | [] => by simp [vsum, vcompl]
  | x :: xs => by
    have ih := vsum_vcompl xs
    simp only [vcompl, List.map_cons, vsum, List.length_cons, Nat.cast_add, Nat.cast_one] at ih ⊢
    rw [ih]; ring

theorem ccRow_length (r : List α) : (ccRow r).length = 2 * r.length := by
  simp [ccRow, vcompl]; omega

theorem vsum_ccRow (r : List α) : vsum (ccRow r) = (r.length : α) := by
  rw [ccRow, vsum_append, vsum_vcompl]; ring

theorem zipWith_decc : ∀ (r : List α),
    List.zipWith (fun a b => (a + (1 - b)) / (1 + 1)) r (vcompl r) = r
  | [] => by simp [vcompl]
  | x :: xs => by
    have ih := zipWith_decc xs
    simp only [vcompl, List.map_cons, List.zipWith_cons_cons, List.cons.injEq] at ih ⊢
    refine ⟨?_, ih⟩
    have h2 : (1 + 1 : α) ≠ 0 := by norm_num
    field_simp
    ring

theorem deccRow_ccRow (r : List α) : deccRow (ccRow r) = r := by
  have hl : (r ++ vcompl r).length / 2 = r.length := by simp [vcompl]; omega
  have hv : (vcompl r).length = r.length := by simp [vcompl]
  simp only [deccRow, ccRow, hl, List.take_left', List.drop_left']
  exact zipWith_decc r

theorem deComplementCode_complementCode (X : Mat α) :
    deComplementCode (complementCode X) = some X := by
  have hall : (complementCode X).all (fun r => r.length % 2 == 0) = true := by
    simp only [complementCode, List.all_map, List.all_eq_true]
    intro r _
    simp [ccRow_length]
  unfold deComplementCode
  rw [if_pos hall]
  simp only [complementCode, List.map_map, Option.some.injEq]
  conv_rhs => rw [← List.map_id X]
  apply List.map_congr_left
  intro r _
  simp [deccRow_ccRow]

/-! ### validation predicates on prepared data -/

theorem inUnit_iff {X : Mat α} : inUnit X = true ↔ ∀ r ∈ X, ∀ v ∈ r, 0 ≤ v ∧ v ≤ 1 := by
  simp [inUnit]

theorem ccRow_in_unit {r : List α} (h : ∀ v ∈ r, 0 ≤ v ∧ v ≤ 1) : ∀ v ∈ ccRow r, 0 ≤ v ∧ v ≤ 1 := by
  intro v hv
  simp only [ccRow, vcompl, List.mem_append, List.mem_map] at hv
  rcases hv with hv | ⟨u, hu, rfl⟩
  · exact h v hv
  · have := h u hu
    exact ⟨by linarith [this.2], by linarith [this.1]⟩

theorem inUnit_complementCode {X : Mat α} (h : inUnit X = true) : inUnit (complementCode X) = true := by
  rw [inUnit_iff] at h ⊢
  intro r hr
  simp only [complementCode, List.mem_map] at hr
  obtain ⟨q, hq, rfl⟩ := hr
  exact ccRow_in_unit (h q hq)

theorem width_of_rect {X : Mat α} {d : Nat} (hX : Rect X d) (hne : X ≠ []) : width X = d := by
  cases X with
  | nil => exact absurd rfl hne
  | cons r rs => exact hX r (by simp)

theorem ccTol_nonneg : (0 : α) ≤ ccTol := by
  unfold ccTol
  positivity

theorem complementCode_rect {X : Mat α} {d : Nat} (hX : Rect X d) : Rect (complementCode X) (2 * d) := by
  intro r hr
  simp only [complementCode, List.mem_map] at hr
  obtain ⟨q, hq, rfl⟩ := hr
  rw [ccRow_length, hX q hq]

theorem rowSumsOk_complementCode {X : Mat α} {d : Nat} (hX : Rect X d) (hne : X ≠ []) :
    rowSumsOk (complementCode X) = true := by
  have hw : width (complementCode X) = 2 * d :=
    width_of_rect (complementCode_rect hX) (by simpa [complementCode] using hne)
  have htol := ccTol_nonneg (α := α)
  simp only [rowSumsOk, hw, List.all_eq_true, Bool.and_eq_true, decide_eq_true_eq]
  intro r hr
  simp only [complementCode, List.mem_map] at hr
  obtain ⟨q, hq, rfl⟩ := hr
  have h2 : 2 * d / 2 = d := by omega
  rw [vsum_ccRow, hX q hq, h2]
  simp [htol]

end Field

end Art.Prep
