/-
ArtProofs.Predict — prediction is a pure, row-wise arg-max.
-/
import ArtProofs.Map
import Mathlib.Data.List.Perm.Basic

namespace Art

set_option linter.unusedSectionVars false

variable {X Wt α μ θ : Type} [LinearOrder α]

theorem argmaxNp_of_no_nan {T : List (Option α)} (h : ∀ t ∈ T, t ≠ none) :
    argmaxNp T = nanargmax T := by
  unfold argmaxNp
  have : T.findIdx? (·.isNone) = none := by
    rw [List.findIdx?_eq_none_iff]
    intro t ht
    have := h t ht
    cases t <;> simp_all
  rw [this]

theorem argmaxNp_lt_length {T : List (Option α)} {k : Nat} (h : argmaxNp T = some k) :
    k < T.length := by
  unfold argmaxNp at h
  split at h
  · rename_i i hi
    simp only [Option.some.injEq] at h; subst h
    exact (List.findIdx?_eq_some_iff_getElem.mp hi).1
  · exact nanargmax_lt_length h

theorem argmaxNp_isSome_of_ne_nil {T : List (Option α)} (h : T ≠ []) : (argmaxNp T).isSome := by
  unfold argmaxNp
  split
  · simp
  · rename_i hn
    rw [List.findIdx?_eq_none_iff] at hn
    cases hT : nanargmax T with
    | some k => simp
    | none =>
      exfalso
      have := nanargmax_eq_none_iff.mp hT
      cases T with
      | nil => exact h rfl
      | cons t ts =>
        have h1 := this t (by simp)
        have h2 := hn t (by simp)
        simp [h1] at h2

/-- `step_pred` returns an existing category whenever the model has one. -/
theorem stepPred_lt (K : Kernel X Wt α μ) (W : List Wt) (x : X) (k : Nat)
    (h : stepPred K W x = some k) : k < W.length := by
  have := argmaxNp_lt_length h
  simpa [activations] using this

theorem stepPred_isSome (K : Kernel X Wt α μ) (W : List Wt) (x : X) (h : W ≠ []) :
    (stepPred K W x).isSome := by
  apply argmaxNp_isSome_of_ne_nil
  simp [activations, h]

/-- With finite activations the predicted category is the oldest category of
maximal activation. -/
theorem stepPred_first_max (K : Kernel X Wt α μ) (W : List Wt) (x : X) (k : Nat)
    (hfin : ∀ w ∈ W, K.choice W x w ≠ none) (h : stepPred K W x = some k) :
    ∃ v, IsFirstMax (activations K W x) k v := by
  unfold stepPred at h
  rw [argmaxNp_of_no_nan] at h
  · exact nanargmax_eq_some_iff.mp h
  · intro t ht
    simp only [activations, List.mem_map] at ht
    obtain ⟨w, hw, rfl⟩ := ht
    exact hfin w hw

theorem predict_append (K : Kernel X Wt α μ) (W : List Wt) (xs ys : List X) :
    predict K W (xs ++ ys) = predict K W xs ++ predict K W ys := by
  simp [predict]

theorem predict_perm (K : Kernel X Wt α μ) (W : List Wt) {xs ys : List X} (h : xs.Perm ys) :
    (predict K W xs).Perm (predict K W ys) := h.map _

/-- the label of a row does not depend on where it sits in the batch -/
theorem predict_getElem? (K : Kernel X Wt α μ) (W : List Wt) (xs : List X) (i : Nat) :
    (predict K W xs)[i]? = (xs[i]?).map (stepPred K W) := by
  simp [predict]

theorem predict_replicate (K : Kernel X Wt α μ) (W : List Wt) (x : X) (n : Nat) :
    predict K W (List.replicate n x) = List.replicate n (stepPred K W x) := by
  simp [predict]

/-! ### SimpleARTMAP prediction -/

theorem smapStep_a (K : Kernel X Wt α μ) (cfg : SearchCfg μ θ) (th0 : θ)
    (s : SMapState Wt) (xy : X × Nat) :
    (smapStep K cfg th0 s xy).a = trainStep K cfg th0 (fun _ _ => mapVeto s.map xy.2) s.a xy.1 := by
  simp [smapStep, trainStep]

theorem smapPartialFit_consistent (K : Kernel X Wt α μ) (cfg : SearchCfg μ θ) (th0 : θ)
    (s : SMapState Wt) (xys : List (X × Nat)) (h : Consistent s.a) :
    Consistent (smapPartialFit K cfg th0 s xys).a := by
  unfold smapPartialFit
  induction xys generalizing s with
  | nil => simpa
  | cons xy xys ih =>
    apply ih
    rw [smapStep_a]
    exact trainStep_consistent K cfg th0 _ s.a xy.1 h

/-- Every mapped class was supplied as a training target. -/
theorem map_values_seen {s : SMapState Wt} (hm : MapInv s) (hc : Consistent s.a)
    (c y : Nat) (hlt : c < s.a.W.length) (h : mapGet s.map c = some y) : y ∈ s.labelsB := by
  have hmem := hc.all_used c hlt
  have key : ∀ (la lb : List Nat), List.Forall₂ (fun ca y => mapGet s.map ca = some y) la lb →
      c ∈ la → y ∈ lb := by
    intro la lb hf
    induction hf with
    | nil => simp
    | cons hab _ ih =>
      intro hin
      simp only [List.mem_cons] at hin ⊢
      rcases hin with rfl | hin
      · left
        rw [h] at hab
        exact (Option.some.inj hab)
      · exact Or.inr (ih hin)
  exact key _ _ hm.agree hmem

/-- A SimpleARTMAP prediction is the map of the A-side prediction, is defined
whenever the model has a category, and is a class seen in training. -/
theorem smapStepPred_spec (K : Kernel X Wt α μ) {s : SMapState Wt} (hm : MapInv s)
    (hc : Consistent s.a) (x : X) (hne : s.a.W ≠ []) :
    ∃ c y, stepPred K s.a.W x = some c ∧ mapGet s.map c = some y ∧
      smapStepPred K s x = some (c, y) ∧ y ∈ s.labelsB := by
  have hs := stepPred_isSome K s.a.W x hne
  obtain ⟨c, hcq⟩ := Option.isSome_iff_exists.mp hs
  have hlt := stepPred_lt K s.a.W x c hcq
  obtain ⟨y, hy⟩ := hm.total c hlt
  exact ⟨c, y, hcq, hy, by simp [smapStepPred, hcq, hy], map_values_seen hm hc c y hlt hy⟩

end Art
