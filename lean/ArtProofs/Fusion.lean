/-
ArtProofs.Fusion — lemmas about the FusionART model (`ArtModel/Fusion.lean`):
slices, channel-wise learning, the simulation principle used for the one-channel
and the channel-permutation theorems, and prediction with skipped channels.
-/
import Mathlib.Algebra.Order.Field.Basic
import Mathlib.Tactic.Ring
import Mathlib.Tactic.Linarith
import Mathlib.Data.List.Forall2
import Mathlib.Algebra.BigOperators.Group.List.Basic
import ArtProofs.Members
import ArtProofs.Predict
import ArtModel.Fusion

namespace Art.Fusion
open Art

set_option linter.unusedSectionVars false
set_option linter.unusedVariables false

/-! ### slices -/
section Slices
variable {β : Type}

/-- the pieces have exactly the channel widths -/
def Fit (ws : List Nat) (ps : List (List β)) : Prop := List.Forall₂ (fun w p => p.length = w) ws ps

@[simp] theorem splitBy_length (ws : List Nat) (v : List β) : (splitBy ws v).length = ws.length := by
  induction ws generalizing v with
  | nil => rfl
  | cons w ws ih => simp [splitBy, ih]

/-- cutting a concatenation of pieces of the right widths gives the pieces back -/
theorem splitBy_flatten {ws : List Nat} {ps : List (List β)} (h : Fit ws ps) :
    splitBy ws ps.flatten = ps := by
  induction h with
  | nil => rfl
  | cons hp _ ih =>
    rename_i w p ws ps
    simp only [List.flatten_cons, splitBy]
    rw [List.take_left' hp, List.drop_left' hp, ih]

/-- what survives the store / re-assemble round trip is the prefix of the data width -/
theorem stored_eq_take (ws : List Nat) (v : List β) : stored ws v = v.take ws.sum := by
  induction ws generalizing v with
  | nil => simp [stored, splitBy]
  | cons w ws ih =>
    have := ih (v.drop w)
    simp only [stored] at this
    simp only [stored, splitBy, List.flatten_cons, List.sum_cons, this]
    rw [List.take_add]

theorem stored_of_le {ws : List Nat} {v : List β} (h : v.length ≤ ws.sum) : stored ws v = v := by
  rw [stored_eq_take, List.take_of_length_le h]

theorem stored_length_le (ws : List Nat) (v : List β) : (stored ws v).length ≤ ws.sum := by
  rw [stored_eq_take]; simp

/-- a vector at least as long as the data is cut into pieces of exactly the widths -/
theorem fit_splitBy {ws : List Nat} {v : List β} (h : ws.sum ≤ v.length) : Fit ws (splitBy ws v) := by
  induction ws generalizing v with
  | nil => exact List.Forall₂.nil
  | cons w ws ih =>
    simp only [List.sum_cons] at h
    refine List.Forall₂.cons ?_ (ih ?_)
    · simp; omega
    · simp; omega

theorem Fit.length_eq {ws : List Nat} {ps : List (List β)} (h : Fit ws ps) : ps.length = ws.length :=
  (List.Forall₂.length_eq h).symm

theorem Fit.flatten_length {ws : List Nat} {ps : List (List β)} (h : Fit ws ps) :
    ps.flatten.length = ws.sum := by
  induction h with
  | nil => rfl
  | cons hp _ ih => simp [hp, ih]

theorem Fit.getD {ws : List Nat} {ps : List (List β)} (h : Fit ws ps) (k : Nat) (hk : k < ws.length) :
    (ps.getD k []).length = ws.getD k 0 := by
  induction h generalizing k with
  | nil => simp at hk
  | cons hp _ ih =>
    cases k with
    | zero => simpa using hp
    | succ k => simpa using ih k (by simpa using hk)

/-- index form of `Fit` -/
theorem fit_of_getD {ws : List Nat} {ps : List (List β)} (hl : ps.length = ws.length)
    (h : ∀ k, k < ws.length → (ps.getD k []).length = ws.getD k 0) : Fit ws ps := by
  induction ws generalizing ps with
  | nil =>
    have : ps = [] := List.eq_nil_of_length_eq_zero (by simpa using hl)
    subst this; exact List.Forall₂.nil
  | cons w ws ih =>
    cases ps with
    | nil => simp at hl
    | cons p ps =>
      refine List.Forall₂.cons (by simpa using h 0 (by simp)) (ih (by simpa using hl) ?_)
      intro k hk
      simpa using h (k + 1) (by simpa using hk)

@[simp] theorem slice_cons_zero (w : Nat) (ws : List Nat) (v : List β) :
    slice (w :: ws) 0 v = v.take w := by
  simp [slice, splitBy]

@[simp] theorem slice_cons_succ (w : Nat) (ws : List Nat) (k : Nat) (v : List β) :
    slice (w :: ws) (k + 1) v = slice ws k (v.drop w) := by
  simp [slice, splitBy]

/-- `slice ws k v` is the Python slice `v[start_k : start_k + width_k]` -/
theorem slice_eq_drop_take (ws : List Nat) (k : Nat) (v : List β) (hk : k < ws.length) :
    slice ws k v = (v.drop (offset ws k)).take (ws.getD k 0) := by
  induction ws generalizing k v with
  | nil => simp at hk
  | cons w ws ih =>
    cases k with
    | zero => simp [offset]
    | succ k =>
      rw [slice_cons_succ, ih k (v.drop w) (by simpa using hk)]
      simp [offset, List.drop_drop]

theorem slice_flatten {ws : List Nat} {ps : List (List β)} (h : Fit ws ps) (k : Nat) :
    slice ws k ps.flatten = ps.getD k [] := by
  simp [slice, splitBy_flatten h]

theorem slice_length {ws : List Nat} {v : List β} (h : ws.sum ≤ v.length) (k : Nat) (hk : k < ws.length) :
    (slice ws k v).length = ws.getD k 0 :=
  (fit_splitBy h).getD k hk

theorem slice_of_ge {ws : List Nat} (k : Nat) (v : List β) (hk : ws.length ≤ k) : slice ws k v = [] := by
  have h : (splitBy ws v)[k]? = none := List.getElem?_eq_none (by simpa using hk)
  simp [slice, List.getD_eq_getElem?_getD, h]

/-- all slices of a vector, in order, are its pieces -/
theorem map_slice_range (ws : List Nat) (v : List β) :
    (List.range ws.length).map (fun k => slice ws k v) = splitBy ws v := by
  apply List.ext_getElem?
  intro k
  by_cases hk : k < ws.length
  · have h2 : k < (splitBy ws v).length := by simpa using hk
    simp [slice, List.getElem?_range hk, List.getD_eq_getElem?_getD, List.getElem?_eq_getElem h2]
  · have h1 : (List.range ws.length)[k]? = none := List.getElem?_eq_none (by simpa using hk)
    have h2 : (splitBy ws v)[k]? = none := List.getElem?_eq_none (by simpa using hk)
    simp [h1, h2]

end Slices

/-! ### the per-channel lists -/
section Pieces
variable {α : Type}

theorem zipIdx_map_getElem? {γ δ : Type} (l : List γ) (F : γ × Nat → δ) (k : Nat) :
    (l.zipIdx.map F)[k]? = (l[k]?).map (fun c => F (c, k)) := by
  simp only [List.getElem?_map, List.getElem?_zipIdx, Option.map_map, Nat.zero_add]
  rfl

theorem zipIdx_map_length {γ δ : Type} (l : List γ) (F : γ × Nat → δ) :
    (l.zipIdx.map F).length = l.length := by simp

theorem zipIdx_map_getD {γ : Type} (l : List γ) (F : γ × Nat → List α) (k : Nat) :
    (l.zipIdx.map F).getD k [] = ((l[k]?).map (fun c => F (c, k))).getD [] := by
  rw [List.getD_eq_getElem?_getD, zipIdx_map_getElem?]

@[simp] theorem widths_length (chans : List (Chan α)) : (widths chans).length = chans.length := by
  simp [widths]

theorem widths_getD (chans : List (Chan α)) (k : Nat) (c : Chan α) (h : chans[k]? = some c) :
    (widths chans).getD k 0 = c.width := by
  simp [widths, List.getD_eq_getElem?_getD, List.getElem?_map, h]

@[simp] theorem wlens_length (chans : List (Chan α)) : (wlens chans).length = chans.length := by
  simp [wlens]

theorem wlens_getD (chans : List (Chan α)) (k : Nat) (c : Chan α) (h : chans[k]? = some c) :
    (wlens chans).getD k 0 = c.wlen := by
  simp [wlens, List.getD_eq_getElem?_getD, List.getElem?_map, h]

end Pieces

/-! ### channel-wise learning -/
section Learn
variable {α : Type} [Add α] [Mul α] [Zero α] [One α]

/-- the module's weight vectors have the constant length `wlen` (true of every artlib module:
FuzzyART / ART2A `d`, HypersphereART `d+1`, EllipsoidART `2d+1`, ART1 `2d`, …) -/
def Chan.LenOK (c : Chan α) : Prop :=
  (∀ x w : List α, x.length = c.width → w.length = c.wlen → (c.K.update x w).length = c.wlen) ∧
  (∀ x : List α, x.length = c.width → (c.K.newW x).length = c.wlen)

/-- `dim_` of the FusionART: the width of a data row -/
def total (chans : List (Chan α)) : Nat := (widths chans).sum

/-- the length of a fused weight -/
def wtotal (chans : List (Chan α)) : Nat := (wlens chans).sum

theorem slice_len_chan {chans : List (Chan α)} {v : List α} (hv : v.length = total chans)
    {k : Nat} {c : Chan α} (hc : chans[k]? = some c) :
    (slice (widths chans) k v).length = c.width := by
  have hk : k < chans.length := (List.getElem?_eq_some_iff.mp hc).1
  rw [slice_length (by unfold total at hv; omega) k (by simpa using hk), widths_getD chans k c hc]

theorem slice_len_wchan {chans : List (Chan α)} {v : List α} (hv : v.length = wtotal chans)
    {k : Nat} {c : Chan α} (hc : chans[k]? = some c) :
    (slice (wlens chans) k v).length = c.wlen := by
  have hk : k < chans.length := (List.getElem?_eq_some_iff.mp hc).1
  rw [slice_length (by unfold wtotal at hv; omega) k (by simpa using hk), wlens_getD chans k c hc]

theorem updatePieces_fit (chans : List (Chan α)) (hl : ∀ c ∈ chans, c.LenOK) (x w : List α)
    (hx : x.length = total chans) (hw : w.length = wtotal chans) :
    Fit (wlens chans) (updatePieces chans x w) := by
  apply fit_of_getD
  · simp [updatePieces]
  · intro k hk
    have hk' : k < chans.length := by simpa using hk
    have hc : chans[k]? = some chans[k] := List.getElem?_eq_getElem hk'
    rw [updatePieces, zipIdx_map_getD, hc, wlens_getD chans k _ hc]
    simp only [Option.map_some, Option.getD_some]
    exact (hl _ (List.getElem_mem hk')).1 _ _ (slice_len_chan hx hc) (slice_len_wchan hw hc)

theorem newPieces_fit (chans : List (Chan α)) (hl : ∀ c ∈ chans, c.LenOK) (x : List α)
    (hx : x.length = total chans) : Fit (wlens chans) (newPieces chans x) := by
  apply fit_of_getD
  · simp [newPieces]
  · intro k hk
    have hk' : k < chans.length := by simpa using hk
    have hc : chans[k]? = some chans[k] := List.getElem?_eq_getElem hk'
    rw [newPieces, zipIdx_map_getD, hc, wlens_getD chans k _ hc]
    simp only [Option.map_some, Option.getD_some]
    exact (hl _ (List.getElem_mem hk')).2 _ (slice_len_chan hx hc)

theorem fusion_update_eq (chans : List (Chan α)) (hl : ∀ c ∈ chans, c.LenOK) (x w : List α)
    (hx : x.length = total chans) (hw : w.length = wtotal chans) :
    (fusionKernel chans).update x w = (updatePieces chans x w).flatten := by
  show stored (wlens chans) (rawUpdate chans x w) = _
  exact stored_of_le (by rw [rawUpdate, (updatePieces_fit chans hl x w hx hw).flatten_length])

theorem fusion_new_eq (chans : List (Chan α)) (hl : ∀ c ∈ chans, c.LenOK) (x : List α)
    (hx : x.length = total chans) :
    (fusionKernel chans).newW x = (newPieces chans x).flatten := by
  show stored (wlens chans) (rawNew chans x) = _
  exact stored_of_le (by rw [rawNew, (newPieces_fit chans hl x hx).flatten_length])

theorem fusion_update_length (chans : List (Chan α)) (hl : ∀ c ∈ chans, c.LenOK) (x w : List α)
    (hx : x.length = total chans) (hw : w.length = wtotal chans) :
    ((fusionKernel chans).update x w).length = wtotal chans := by
  rw [fusion_update_eq chans hl x w hx hw, (updatePieces_fit chans hl x w hx hw).flatten_length]; rfl

theorem fusion_new_length (chans : List (Chan α)) (hl : ∀ c ∈ chans, c.LenOK) (x : List α)
    (hx : x.length = total chans) : ((fusionKernel chans).newW x).length = wtotal chans := by
  rw [fusion_new_eq chans hl x hx, (newPieces_fit chans hl x hx).flatten_length]; rfl

/-- **Learning is channel-wise**: channel `k` of the updated fused weight is module
`k`'s own rule applied to the `k`-slices of sample and weight. -/
theorem fusion_update_slice (chans : List (Chan α)) (hl : ∀ c ∈ chans, c.LenOK) (x w : List α)
    (hx : x.length = total chans) (hw : w.length = wtotal chans) (k : Nat) (c : Chan α)
    (hc : chans[k]? = some c) :
    slice (wlens chans) k ((fusionKernel chans).update x w) =
      c.K.update (slice (widths chans) k x) (slice (wlens chans) k w) := by
  rw [fusion_update_eq chans hl x w hx hw, slice_flatten (updatePieces_fit chans hl x w hx hw),
    updatePieces, zipIdx_map_getD, hc]
  rfl

theorem fusion_new_slice (chans : List (Chan α)) (hl : ∀ c ∈ chans, c.LenOK) (x : List α)
    (hx : x.length = total chans) (k : Nat) (c : Chan α) (hc : chans[k]? = some c) :
    slice (wlens chans) k ((fusionKernel chans).newW x) = c.K.newW (slice (widths chans) k x) := by
  rw [fusion_new_eq chans hl x hx, slice_flatten (newPieces_fit chans hl x hx),
    newPieces, zipIdx_map_getD, hc]
  rfl

/-- the fold of the fused rule, seen through channel `k`, is the fold of module `k`'s rule -/
theorem fold_update_slice (chans : List (Chan α)) (hl : ∀ c ∈ chans, c.LenOK) (k : Nat) (c : Chan α)
    (hc : chans[k]? = some c) (ms : List (List α)) (hms : ∀ m ∈ ms, m.length = total chans)
    (w : List α) (hw : w.length = wtotal chans) :
    slice (wlens chans) k (ms.foldl (fun w x => (fusionKernel chans).update x w) w) =
      (ms.map (slice (widths chans) k)).foldl (fun w x => c.K.update x w) (slice (wlens chans) k w) ∧
    (ms.foldl (fun w x => (fusionKernel chans).update x w) w).length = wtotal chans := by
  induction ms generalizing w with
  | nil => exact ⟨rfl, hw⟩
  | cons m ms ih =>
    have hm := hms m (by simp)
    have := ih (fun m' h' => hms m' (by simp [h'])) ((fusionKernel chans).update m w)
      (fusion_update_length chans hl m w hm hw)
    simp only [List.foldl_cons, List.map_cons]
    rw [← fusion_update_slice chans hl m w hm hw k c hc]
    exact this

theorem foldMembers_slice (chans : List (Chan α)) (hl : ∀ c ∈ chans, c.LenOK) (k : Nat) (c : Chan α)
    (hc : chans[k]? = some c) (ms : List (List α)) (hms : ∀ m ∈ ms, m.length = total chans) :
    (foldMembers (fusionKernel chans) ms).map (slice (wlens chans) k) =
      foldMembers c.K (ms.map (slice (widths chans) k)) := by
  cases ms with
  | nil => rfl
  | cons m ms =>
    have hm := hms m (by simp)
    simp only [foldMembers, Option.map_some, List.map_cons, Option.some.injEq]
    rw [(fold_update_slice chans hl k c hc ms (fun m' h' => hms m' (by simp [h'])) _
      (fusion_new_length chans hl m hm)).1, fusion_new_slice chans hl m hm k c hc]

end Learn

theorem members_map {X Y : Type} (f : X → Y) (xs : List X) (labels : List Nat) (k : Nat) :
    members (xs.map f) labels k = (members xs labels k).map f := by
  induction xs generalizing labels with
  | nil => simp [members]
  | cons x xs ih =>
    cases labels with
    | nil => simp [members]
    | cons l ls =>
      have := ih ls
      simp only [members] at this ⊢
      simp only [List.map_cons, List.zip_cons_cons, List.filter_cons]
      split <;> simp [this]

theorem members_subset {X : Type} (xs : List X) (labels : List Nat) (k : Nat) :
    ∀ m ∈ members xs labels k, m ∈ xs := by
  intro m hm
  simp only [members, List.mem_map, List.mem_filter] at hm
  obtain ⟨⟨a, b⟩, ⟨hab, _⟩, rfl⟩ := hm
  exact (List.of_mem_zip hab).1

/-! ### invariants of the stored weights -/
section Inv
variable {X Wt α μ θ : Type} [LinearOrder α]

theorem trainStep_W_inv (K : Kernel X Wt α μ) (cfg : SearchCfg μ θ) (th0 : θ)
    (veto : ArtState Wt → X → Nat → Bool) (P : Wt → Prop) (s : ArtState Wt) (x : X)
    (hu : ∀ w, P w → P (K.update x w)) (hn : P (K.newW x)) (hs : ∀ w ∈ s.W, P w) :
    ∀ w ∈ (trainStep K cfg th0 veto s x).W, P w := by
  obtain ⟨_, _, hcase⟩ := stepFit_frame K cfg th0 (veto s x) s x
  unfold trainStep
  generalize stepFit K cfg th0 (veto s x) s x = r at hcase
  obtain ⟨s', c⟩ := r
  simp only at hcase ⊢
  rcases hcase with ⟨hlt, w, hw, hW, _⟩ | ⟨_, hW, _⟩
  · rw [hW]
    intro v hv
    rcases List.mem_or_eq_of_mem_set hv with h | h
    · exact hs v h
    · subst h; exact hu w (hs w (List.mem_of_getElem? hw))
  · rw [hW]
    intro v hv
    simp only [List.mem_append, List.mem_singleton] at hv
    rcases hv with h | h
    · exact hs v h
    · subst h; exact hn

theorem partialFit_W_inv (K : Kernel X Wt α μ) (cfg : SearchCfg μ θ) (th0 : θ)
    (veto : ArtState Wt → X → Nat → Bool) (P : Wt → Prop) (Q : X → Prop)
    (hu : ∀ x w, Q x → P w → P (K.update x w)) (hn : ∀ x, Q x → P (K.newW x))
    (s : ArtState Wt) (xs : List X) (hs : ∀ w ∈ s.W, P w) (hx : ∀ x ∈ xs, Q x) :
    ∀ w ∈ (partialFit K cfg th0 veto s xs).W, P w := by
  unfold partialFit
  induction xs generalizing s with
  | nil => simpa using hs
  | cons x xs ih =>
    simp only [List.foldl_cons]
    apply ih
    · exact trainStep_W_inv K cfg th0 veto P s x (fun w hw => hu x w (hx x (by simp)) hw)
        (hn x (hx x (by simp))) hs
    · intro x' h'; exact hx x' (by simp [h'])

end Inv

/-! ### the `W` property is the concatenation of the module weights -/
section Concat
variable {α : Type} [Add α] [Mul α] [Zero α] [One α]

/-- the module states `modules[0..n-1]` as projections of the fused state -/
def chanStates (chans : List (Chan α)) (s : ArtState (List α)) : List (ModState α) :=
  (List.range chans.length).map (fun k => chanState (wlens chans) k s)

theorem fusedW_chanStates (chans : List (Chan α)) (hne : chans ≠ []) (s : ArtState (List α))
    (hs : ∀ w ∈ s.W, w.length ≤ wtotal chans) : fusedW (chanStates chans s) = s.W := by
  obtain ⟨c0, cs, rfl⟩ := List.exists_cons_of_ne_nil hne
  have hhead : ((chanStates (c0 :: cs) s).head?.map (·.W.length)).getD 0 = s.W.length := by
    simp [chanStates, List.range_succ_eq_map, chanState]
  unfold fusedW
  rw [hhead]
  apply List.ext_getElem?
  intro i
  by_cases hi : i < s.W.length
  · rw [List.getElem?_map, List.getElem?_range hi, List.getElem?_eq_getElem hi]
    simp only [Option.map_some, Option.some.injEq]
    have h1 : (chanStates (c0 :: cs) s).map (fun m => m.W.getD i []) =
        (List.range (wlens (c0 :: cs)).length).map (fun k => slice (wlens (c0 :: cs)) k s.W[i]) := by
      simp only [chanStates, List.map_map, wlens_length]
      apply List.map_congr_left
      intro k _
      simp [chanState, List.getD_eq_getElem?_getD, List.getElem?_map, List.getElem?_eq_getElem hi]
    rw [h1, map_slice_range]
    exact stored_of_le (hs _ (List.getElem_mem hi))
  · have h1 : (List.range s.W.length)[i]? = none := List.getElem?_eq_none (by simpa using hi)
    simp [h1, List.getElem?_eq_none (Nat.le_of_not_lt hi)]

end Concat

/-! ### simulation of one estimator by another -/
section Sim
variable {α μ₁ μ₂ θ₁ θ₂ : Type} [LinearOrder α]

/-- Two searches over the same activation list whose vigilance tests agree and
whose threshold updates stay related choose the same winner. -/
theorem search_sim (cfg₁ : SearchCfg μ₁ θ₁) (cfg₂ : SearchCfg μ₂ θ₂) (M₁ : Nat → μ₁) (M₂ : Nat → μ₂)
    (veto : Nat → Bool) (R : θ₁ → θ₂ → Prop) (n : Nat)
    (hk : cfg₁.keep = cfg₂.keep) (ht : cfg₁.tilde = cfg₂.tilde)
    (hp : ∀ th₁ th₂ c, c < n → R th₁ th₂ → cfg₁.passes th₁ (M₁ c) = cfg₂.passes th₂ (M₂ c))
    (htr : ∀ th₁ th₂ c, c < n → R th₁ th₂ → R (cfg₁.track th₁ (M₁ c)) (cfg₂.track th₂ (M₂ c)))
    (fuel : Nat) (T : List (Option α)) (hT : T.length = n) (th₁ : θ₁) (th₂ : θ₂) (h : R th₁ th₂) :
    (search cfg₁ M₁ veto fuel T th₁).winner = (search cfg₂ M₂ veto fuel T th₂).winner := by
  induction fuel generalizing T th₁ th₂ with
  | zero => rfl
  | succ fuel ih =>
    rw [search_succ, search_succ]
    cases hc : nanargmax T with
    | none => rfl
    | some c =>
      have hcn : c < n := hT ▸ nanargmax_lt_length hc
      have hpc := hp th₁ th₂ c hcn h
      have hset : (T.set c none).length = n := by simpa using hT
      simp only [← hpc, ← ht, ← hk]
      cases hm : cfg₁.passes th₁ (M₁ c) <;> cases hok : (cfg₁.tilde || !veto c)
      · simpa using ih _ hset _ _ h
      · simpa using ih _ hset _ _ h
      · cases hkk : cfg₁.keep
        · simp
        · simpa using ih _ hset _ _ (htr th₁ th₂ c hcn h)
      · simp

end Sim

section Sim2
variable {X₁ X₂ W₁ W₂ α μ₁ μ₂ θ₁ θ₂ : Type} [LinearOrder α]

/-- `K₂` (with `cfg₂`) computes on `f x`, `g w` what `K₁` (with `cfg₁`) computes on
`x`, `w`, for inputs satisfying `Px` and weights satisfying `Pw`. -/
structure KernelSim (K₁ : Kernel X₁ W₁ α μ₁) (K₂ : Kernel X₂ W₂ α μ₂)
    (cfg₁ : SearchCfg μ₁ θ₁) (cfg₂ : SearchCfg μ₂ θ₂) (f : X₁ → X₂) (g : W₁ → W₂)
    (Px : X₁ → Prop) (Pw : W₁ → Prop) (R : θ₁ → θ₂ → Prop) : Prop where
  keep : cfg₁.keep = cfg₂.keep
  tilde : cfg₁.tilde = cfg₂.tilde
  choice : ∀ (W : List W₁) x w, (∀ v ∈ W, Pw v) → Px x → w ∈ W →
    K₂.choice (W.map g) (f x) (g w) = K₁.choice W x w
  passes : ∀ th₁ th₂ x w, R th₁ th₂ → Px x → Pw w →
    cfg₁.passes th₁ (K₁.matchv x w) = cfg₂.passes th₂ (K₂.matchv (f x) (g w))
  track : ∀ th₁ th₂ x w, R th₁ th₂ → Px x → Pw w →
    R (cfg₁.track th₁ (K₁.matchv x w)) (cfg₂.track th₂ (K₂.matchv (f x) (g w)))
  update : ∀ x w, Px x → Pw w → K₂.update (f x) (g w) = g (K₁.update x w) ∧ Pw (K₁.update x w)
  newW : ∀ x, Px x → K₂.newW (f x) = g (K₁.newW x) ∧ Pw (K₁.newW x)

/-- transport of a state along the weight map -/
def mapState (g : W₁ → W₂) (s : ArtState W₁) : ArtState W₂ :=
  { W := s.W.map g, cnt := s.cnt, n := s.n, labels := s.labels }

variable {K₁ : Kernel X₁ W₁ α μ₁} {K₂ : Kernel X₂ W₂ α μ₂} {cfg₁ : SearchCfg μ₁ θ₁}
  {cfg₂ : SearchCfg μ₂ θ₂} {f : X₁ → X₂} {g : W₁ → W₂} {Px : X₁ → Prop} {Pw : W₁ → Prop}
  {R : θ₁ → θ₂ → Prop}

theorem KernelSim.activations (h : KernelSim K₁ K₂ cfg₁ cfg₂ f g Px Pw R) (W : List W₁) (x : X₁)
    (hW : ∀ v ∈ W, Pw v) (hx : Px x) :
    Art.activations K₂ (W.map g) (f x) = Art.activations K₁ W x := by
  simp only [Art.activations, List.map_map]
  apply List.map_congr_left
  intro w hw
  exact h.choice W x w hW hx hw

theorem KernelSim.stepSearch (h : KernelSim K₁ K₂ cfg₁ cfg₂ f g Px Pw R) (W : List W₁) (x : X₁)
    (hW : ∀ v ∈ W, Pw v) (hx : Px x) (veto : Nat → Bool) (th₁ : θ₁) (th₂ : θ₂) (hR : R th₁ th₂) :
    (stepSearch K₂ cfg₂ th₂ veto (W.map g) (f x)).winner = (stepSearch K₁ cfg₁ th₁ veto W x).winner := by
  unfold Art.stepSearch
  rw [h.activations W x hW hx, ← h.tilde]
  symm
  have hlen : (strikeVetoed cfg₁.tilde veto (Art.activations K₁ W x)).length = W.length := by
    rw [strikeVetoed_length, activations_length]
  have hm : ∀ c, c < W.length → ∃ w, Pw w ∧ matchAt K₁ W x c = K₁.matchv x w ∧
      matchAt K₂ (W.map g) (f x) c = K₂.matchv (f x) (g w) := by
    intro c hc
    have e1 : W[c]? = some W[c] := List.getElem?_eq_getElem hc
    exact ⟨W[c], hW _ (List.getElem_mem hc), by simp [matchAt, e1],
      by simp [matchAt, List.getElem?_map, e1]⟩
  exact search_sim cfg₁ cfg₂ _ _ veto R W.length h.keep h.tilde
    (fun t₁ t₂ c hc hr => by
      obtain ⟨w, p, a, b⟩ := hm c hc
      rw [a, b]; exact h.passes t₁ t₂ x _ hr hx p)
    (fun t₁ t₂ c hc hr => by
      obtain ⟨w, p, a, b⟩ := hm c hc
      rw [a, b]; exact h.track t₁ t₂ x _ hr hx p)
    _ _ hlen th₁ th₂ hR

theorem KernelSim.stepFit (h : KernelSim K₁ K₂ cfg₁ cfg₂ f g Px Pw R) (s : ArtState W₁) (x : X₁)
    (hW : ∀ v ∈ s.W, Pw v) (hx : Px x) (veto : Nat → Bool) (th₁ : θ₁) (th₂ : θ₂) (hR : R th₁ th₂) :
    Art.stepFit K₂ cfg₂ th₂ veto (mapState g s) (f x) =
      (mapState g (Art.stepFit K₁ cfg₁ th₁ veto s x).1, (Art.stepFit K₁ cfg₁ th₁ veto s x).2) := by
  unfold Art.stepFit
  have hempty : (mapState g s).W.isEmpty = s.W.isEmpty := by simp [mapState]
  rw [hempty]
  have hnew : applyWinner K₂ (mapState g s) (f x) none =
      (mapState g (applyWinner K₁ s x none).1, (applyWinner K₁ s x none).2) := by
    simp [applyWinner, mapState, (h.newW x hx).1]
  split
  · exact hnew
  · have hw := h.stepSearch s.W x hW hx veto th₁ th₂ hR
    show applyWinner K₂ (mapState g s) (f x) (Art.stepSearch K₂ cfg₂ th₂ veto (s.W.map g) (f x)).winner = _
    rw [hw]
    cases hc : (Art.stepSearch K₁ cfg₁ th₁ veto s.W x).winner with
    | none => exact hnew
    | some c =>
      have hlt := stepSearch_winner_lt K₁ cfg₁ th₁ veto s.W x c hc
      have e1 : s.W[c]? = some s.W[c] := List.getElem?_eq_getElem hlt
      have hu := (h.update x s.W[c] hx (hW _ (List.getElem_mem hlt))).1
      simp [applyWinner, mapState, e1, List.getElem?_map, hu, List.map_set]

theorem KernelSim.trainStep (h : KernelSim K₁ K₂ cfg₁ cfg₂ f g Px Pw R)
    (veto₁ : ArtState W₁ → X₁ → Nat → Bool) (veto₂ : ArtState W₂ → X₂ → Nat → Bool)
    (hv : ∀ s x c, veto₂ (mapState g s) (f x) c = veto₁ s x c)
    (s : ArtState W₁) (x : X₁) (hW : ∀ v ∈ s.W, Pw v) (hx : Px x) (th₁ : θ₁) (th₂ : θ₂) (hR : R th₁ th₂) :
    Art.trainStep K₂ cfg₂ th₂ veto₂ (mapState g s) (f x) =
      mapState g (Art.trainStep K₁ cfg₁ th₁ veto₁ s x) := by
  unfold Art.trainStep
  have hveto : veto₂ (mapState g s) (f x) = veto₁ s x := funext (hv s x)
  rw [hveto, h.stepFit s x hW hx (veto₁ s x) th₁ th₂ hR]
  simp [mapState]

/-- **Simulation over any stream**: related estimators stay related, sample by sample. -/
theorem KernelSim.partialFit (h : KernelSim K₁ K₂ cfg₁ cfg₂ f g Px Pw R)
    (veto₁ : ArtState W₁ → X₁ → Nat → Bool) (veto₂ : ArtState W₂ → X₂ → Nat → Bool)
    (hv : ∀ s x c, veto₂ (mapState g s) (f x) c = veto₁ s x c)
    (th₁ : θ₁) (th₂ : θ₂) (hR : R th₁ th₂)
    (s : ArtState W₁) (xs : List X₁) (hW : ∀ v ∈ s.W, Pw v) (hx : ∀ x ∈ xs, Px x) :
    Art.partialFit K₂ cfg₂ th₂ veto₂ (mapState g s) (xs.map f) =
      mapState g (Art.partialFit K₁ cfg₁ th₁ veto₁ s xs) := by
  unfold Art.partialFit
  induction xs generalizing s with
  | nil => rfl
  | cons x xs ih =>
    simp only [List.map_cons, List.foldl_cons]
    rw [h.trainStep veto₁ veto₂ hv s x hW (hx x (by simp)) th₁ th₂ hR]
    apply ih
    · exact trainStep_W_inv K₁ cfg₁ th₁ veto₁ Pw s x
        (fun w hw => (h.update x w (hx x (by simp)) hw).2) (h.newW x (hx x (by simp))).2 hW
    · intro x' h'; exact hx x' (by simp [h'])

end Sim2

theorem mapState_id {Wt : Type} (s : ArtState Wt) : mapState (fun w => w) s = s := by
  cases s; simp [mapState]

/-! ### one channel, gamma = 1 -/
section Single
variable {α : Type} [Field α] [LinearOrder α] [IsStrictOrderedRing α]

theorem slice_single (wd : Nat) (v : List α) (h : v.length = wd) : slice [wd] 0 v = v := by
  simp [List.take_of_length_le (Nat.le_of_eq h)]

theorem osum_single (t : Option α) : osum [t.map (· * (1 : α))] = t := by
  cases t <;> simp [osum, oadd]

theorem single_choice (c : Chan α) (hγ : c.gamma = 1) (W : List (List α)) (x w : List α)
    (hW : ∀ v ∈ W, v.length = c.wlen) (hx : x.length = c.width) (hw : w ∈ W) :
    (fusionKernel [c]).choice W x w = c.K.choice W x w := by
  have hWm : W.map (slice (wlens [c]) 0) = W := by
    conv_rhs => rw [← List.map_id W]
    apply List.map_congr_left
    intro v hv
    simpa [wlens] using slice_single c.wlen v (hW v hv)
  have hxs : slice (widths [c]) 0 x = x := by simpa [widths] using slice_single c.width x hx
  have hws : slice (wlens [c]) 0 w = w := by simpa [wlens] using slice_single c.wlen w (hW w hw)
  show choiceSkip [c] noSkip W x w = _
  simp only [choiceSkip, chanTerms, List.zipIdx_cons, List.zipIdx_nil, List.map_cons,
    List.map_nil, chanTerm, noSkip, Bool.false_eq_true, if_false, hWm, hxs, hws, hγ, Nat.zero_add]
  rw [osum_single]

theorem single_sim (c : Chan α) (hγ : c.gamma = 1) (hl : c.LenOK) (mode : MT) (adjP adjM : α → α) (top : α) :
    KernelSim (fusionKernel [c]) c.K (fusionCfg mode adjP adjM top) (scalarCfg mode false adjP adjM top)
      (fun x => x) (fun w => w) (fun x => x.length = c.width) (fun w => w.length = c.wlen)
      (fun th₁ th₂ => th₁ = [th₂]) where
  keep := rfl
  tilde := rfl
  choice := by
    intro W x w hW hx hw
    rw [List.map_id']
    exact (single_choice c hγ W x w hW hx hw).symm
  passes := by
    intro th₁ th₂ x w hR hx hw
    subst hR
    have hxs : slice (widths [c]) 0 x = x := by simpa [widths] using slice_single c.width x hx
    have hws : slice (wlens [c]) 0 w = w := by simpa [wlens] using slice_single c.wlen w hw
    simp [fusionCfg, scalarCfg, fusionKernel, matchVec, hxs, hws]
  track := by
    intro th₁ th₂ x w hR hx hw
    subst hR
    have hxs : slice (widths [c]) 0 x = x := by simpa [widths] using slice_single c.width x hx
    have hws : slice (wlens [c]) 0 w = w := by simpa [wlens] using slice_single c.wlen w hw
    simp [fusionCfg, scalarCfg, fusionKernel, matchVec, hxs, hws]
  update := by
    intro x w hx hw
    have hl' : ∀ c' ∈ [c], c'.LenOK := by simpa using hl
    have ht : total [c] = c.width := by simp [total, widths]
    have hwt : wtotal [c] = c.wlen := by simp [wtotal, wlens]
    have hxs : slice (widths [c]) 0 x = x := by simpa [widths] using slice_single c.width x hx
    have hws : slice (wlens [c]) 0 w = w := by simpa [wlens] using slice_single c.wlen w hw
    have e := fusion_update_eq [c] hl' x w (by rw [ht, hx]) (by rw [hwt, hw])
    have e2 : (fusionKernel [c]).update x w = c.K.update x w := by
      rw [e]; simp [updatePieces, hxs, hws]
    exact ⟨e2.symm, by rw [e2]; exact hl.1 x w hx hw⟩
  newW := by
    intro x hx
    have hl' : ∀ c' ∈ [c], c'.LenOK := by simpa using hl
    have ht : total [c] = c.width := by simp [total, widths]
    have hxs : slice (widths [c]) 0 x = x := by simpa [widths] using slice_single c.width x hx
    have e := fusion_new_eq [c] hl' x (by rw [ht, hx])
    have e2 : (fusionKernel [c]).newW x = c.K.newW x := by
      rw [e]; simp [newPieces, hxs]
    exact ⟨e2.symm, by rw [e2]; exact hl.2 x hx⟩

/-- a one-channel FusionART with `gamma = 1` is, state for state, the bare module -/
theorem single_partialFit (c : Chan α) (hγ : c.gamma = 1) (hl : c.LenOK) (mode : MT)
    (adjP adjM : α → α) (top rho : α) (veto : ArtState (List α) → List α → Nat → Bool)
    (s : ArtState (List α)) (xs : List (List α)) (hs : ∀ w ∈ s.W, w.length = c.wlen)
    (hx : ∀ x ∈ xs, x.length = c.width) :
    partialFit (fusionKernel [c]) (fusionCfg mode adjP adjM top) [rho] veto s xs =
      partialFit c.K (scalarCfg mode false adjP adjM top) rho veto s xs := by
  have h := (single_sim c hγ hl mode adjP adjM top).partialFit veto veto
    (by intro s x k; rw [mapState_id]) [rho] rho rfl s xs hs hx
  rw [mapState_id, mapState_id, List.map_id'] at h
  exact h.symm

end Single

/-! ### swapping two adjacent entries -/
section Swap
variable {β γ : Type}

/-- the transposition of `i` and `i+1` -/
def swapIdx (i k : Nat) : Nat := if k = i then i + 1 else if k = i + 1 then i else k

theorem swapIdx_succ (i k : Nat) : swapIdx (i + 1) (k + 1) = swapIdx i k + 1 := by
  unfold swapIdx; split <;> split <;> (try split) <;> (try split) <;> omega

theorem swapIdx_lt {i k n : Nat} (hi : i + 1 < n) : swapIdx i k < n ↔ k < n := by
  unfold swapIdx; split <;> (try split) <;> omega

@[simp] theorem swapAt_length (i : Nat) (l : List β) : (swapAt i l).length = l.length := by
  induction i generalizing l with
  | zero =>
    match l with
    | [] => rfl
    | [_] => rfl
    | _ :: _ :: _ => simp [swapAt]
  | succ i ih =>
    cases l with
    | nil => rfl
    | cons a l => simp [swapAt, ih]

theorem swapAt_getElem? (i : Nat) (l : List β) (h : i + 1 < l.length) (k : Nat) :
    (swapAt i l)[k]? = l[swapIdx i k]? := by
  induction i generalizing l k with
  | zero =>
    match l, h with
    | a :: b :: l, _ =>
      match k with
      | 0 => simp [swapAt, swapIdx]
      | 1 => simp [swapAt, swapIdx]
      | k + 2 => simp [swapAt, swapIdx]
  | succ i ih =>
    cases l with
    | nil => simp at h
    | cons a l =>
      cases k with
      | zero => simp [swapAt, swapIdx]
      | succ k =>
        rw [swapIdx_succ]
        simpa [swapAt] using ih l (by simpa using h) k

theorem map_swapAt (f : β → γ) (i : Nat) (l : List β) : (swapAt i l).map f = swapAt i (l.map f) := by
  induction i generalizing l with
  | zero =>
    match l with
    | [] => rfl
    | [_] => rfl
    | _ :: _ :: _ => simp [swapAt]
  | succ i ih =>
    cases l with
    | nil => rfl
    | cons a l => simp [swapAt, ih]

theorem swapAt_perm (i : Nat) (l : List β) : (swapAt i l).Perm l := by
  induction i generalizing l with
  | zero =>
    match l with
    | [] => exact List.Perm.refl _
    | [_] => exact List.Perm.refl _
    | a :: b :: l => simpa [swapAt] using List.Perm.swap a b l
  | succ i ih =>
    cases l with
    | nil => exact List.Perm.refl _
    | cons a l => simpa [swapAt] using (ih l).cons a

theorem forall₂_swapAt {R : β → γ → Prop} {l₁ : List β} {l₂ : List γ} (h : List.Forall₂ R l₁ l₂) (i : Nat) :
    List.Forall₂ R (swapAt i l₁) (swapAt i l₂) := by
  induction i generalizing l₁ l₂ with
  | zero =>
    match l₁, l₂, h with
    | [], [], _ => exact List.Forall₂.nil
    | [a], [b], h => exact h
    | a :: a' :: l₁, b :: b' :: l₂, h =>
      cases h with
      | cons h1 h =>
        cases h with
        | cons h2 h => exact List.Forall₂.cons h2 (List.Forall₂.cons h1 h)
  | succ i ih =>
    cases h with
    | nil => exact List.Forall₂.nil
    | cons h1 h => exact List.Forall₂.cons h1 (ih h)

theorem zip_swapAt (i : Nat) (a : List β) (b : List γ) (h : a.length = b.length) :
    List.zip (swapAt i a) (swapAt i b) = swapAt i (List.zip a b) := by
  induction i generalizing a b with
  | zero =>
    match a, b, h with
    | [], [], _ => rfl
    | [x], [y], _ => rfl
    | x :: x' :: a, y :: y' :: b, _ => simp [swapAt]
  | succ i ih =>
    match a, b, h with
    | [], [], _ => rfl
    | x :: a, y :: b, h => simp [swapAt, ih a b (by simpa using h)]

theorem all_swapAt (p : β → Bool) (i : Nat) (l : List β) : (swapAt i l).all p = l.all p :=
  (swapAt_perm i l).all_eq

theorem sum_swapAt (i : Nat) (ws : List Nat) : (swapAt i ws).sum = ws.sum :=
  (swapAt_perm i ws).sum_eq

theorem fit_swap {ws : List Nat} {ps : List (List β)} (h : Fit ws ps) (i : Nat) :
    Fit (swapAt i ws) (swapAt i ps) := forall₂_swapAt h i

theorem splitBy_swapCols (ws : List Nat) (i : Nat) (v : List β) (hv : ws.sum ≤ v.length) :
    splitBy (swapAt i ws) (swapCols ws i v) = swapAt i (splitBy ws v) :=
  splitBy_flatten (fit_swap (fit_splitBy hv) i)

theorem swapCols_length (ws : List Nat) (i : Nat) (v : List β) (hv : ws.sum ≤ v.length) :
    (swapCols ws i v).length = ws.sum := by
  rw [swapCols, (fit_swap (fit_splitBy hv) i).flatten_length, sum_swapAt]

theorem slice_swap (ws : List Nat) (i : Nat) (hi : i + 1 < ws.length) (v : List β)
    (hv : ws.sum ≤ v.length) (k : Nat) :
    slice (swapAt i ws) k (swapCols ws i v) = slice ws (swapIdx i k) v := by
  unfold slice
  rw [splitBy_swapCols ws i v hv, List.getD_eq_getElem?_getD, List.getD_eq_getElem?_getD,
    swapAt_getElem? i _ (by simpa using hi)]

end Swap

/-! ### permuting the channels -/
section Perm
variable {α : Type} [Field α] [LinearOrder α] [IsStrictOrderedRing α]

theorem oadd_right_comm (a b c : Option α) : oadd (oadd a b) c = oadd (oadd a c) b := by
  cases a <;> cases b <;> cases c <;> simp [oadd, add_right_comm]

theorem foldl_oadd_swapAt (i : Nat) (l : List (Option α)) (acc : Option α) :
    (swapAt i l).foldl oadd acc = l.foldl oadd acc := by
  induction i generalizing l acc with
  | zero =>
    match l with
    | [] => rfl
    | [_] => rfl
    | a :: b :: l => simp [swapAt, oadd_right_comm acc b a]
  | succ i ih =>
    cases l with
    | nil => rfl
    | cons a l => simp [swapAt, ih]

/-- the left-to-right sum does not depend on the order of two neighbours -/
theorem osum_swapAt (i : Nat) (l : List (Option α)) : osum (swapAt i l) = osum l :=
  foldl_oadd_swapAt i l _

theorem widths_swapAt (i : Nat) (chans : List (Chan α)) : widths (swapAt i chans) = swapAt i (widths chans) :=
  map_swapAt _ i chans

theorem wlens_swapAt (i : Nat) (chans : List (Chan α)) : wlens (swapAt i chans) = swapAt i (wlens chans) :=
  map_swapAt _ i chans

theorem total_swapAt (i : Nat) (chans : List (Chan α)) : total (swapAt i chans) = total chans := by
  simp [total, widths_swapAt, sum_swapAt]

/-- a per-channel list of the permuted FusionART on permuted data is the permuted list -/
theorem zipIdx_map_swap {δ : Type} (chans : List (Chan α)) (i : Nat) (hi : i + 1 < chans.length)
    (F F' : Chan α × Nat → δ) (h : ∀ c k, F' (c, k) = F (c, swapIdx i k)) :
    (swapAt i chans).zipIdx.map F' = swapAt i (chans.zipIdx.map F) := by
  apply List.ext_getElem?
  intro k
  rw [zipIdx_map_getElem?, swapAt_getElem? i chans hi, swapAt_getElem? i _ (by simpa using hi),
    zipIdx_map_getElem?]
  cases chans[swapIdx i k]? with
  | none => rfl
  | some c => simp [h]

theorem swapCols_flatten (ws : List Nat) (i : Nat) {ps : List (List α)} (h : Fit ws ps) :
    swapCols ws i ps.flatten = (swapAt i ps).flatten := by
  rw [swapCols, splitBy_flatten h]

variable (chans : List (Chan α)) (i : Nat) (hi : i + 1 < chans.length)
include hi

theorem chanTerms_swap (W : List (List α)) (x w : List α) (hW : ∀ v ∈ W, v.length = wtotal chans)
    (hx : x.length = total chans) (hw : w.length = wtotal chans) :
    chanTerms (swapAt i chans) noSkip (W.map (swapCols (wlens chans) i)) (swapCols (widths chans) i x)
        (swapCols (wlens chans) i w) = swapAt i (chanTerms chans noSkip W x w) := by
  have hi' : i + 1 < (widths chans).length := by simpa using hi
  have hi'' : i + 1 < (wlens chans).length := by simpa using hi
  unfold chanTerms
  apply zipIdx_map_swap chans i hi
  intro c k
  have hWm : (W.map (swapCols (wlens chans) i)).map (slice (wlens (swapAt i chans)) k) =
      W.map (slice (wlens chans) (swapIdx i k)) := by
    rw [List.map_map]
    apply List.map_congr_left
    intro v hv
    simp only [Function.comp, wlens_swapAt]
    exact slice_swap _ i hi'' v (by have := hW v hv; unfold wtotal at this; omega) k
  simp only [chanTerm, noSkip, Bool.false_eq_true, if_false, hWm]
  rw [widths_swapAt, wlens_swapAt, slice_swap _ i hi' x (by unfold total at hx; omega) k,
    slice_swap _ i hi'' w (by unfold wtotal at hw; omega) k]

theorem matchVec_swap (x w : List α) (hx : x.length = total chans) (hw : w.length = wtotal chans) :
    matchVec (swapAt i chans) (swapCols (widths chans) i x) (swapCols (wlens chans) i w) =
      swapAt i (matchVec chans x w) := by
  have hi' : i + 1 < (widths chans).length := by simpa using hi
  have hi'' : i + 1 < (wlens chans).length := by simpa using hi
  unfold matchVec
  apply zipIdx_map_swap chans i hi
  intro c k
  simp only []
  rw [widths_swapAt, wlens_swapAt, slice_swap _ i hi' x (by unfold total at hx; omega) k,
    slice_swap _ i hi'' w (by unfold wtotal at hw; omega) k]

theorem updatePieces_swap (x w : List α) (hx : x.length = total chans) (hw : w.length = wtotal chans) :
    updatePieces (swapAt i chans) (swapCols (widths chans) i x) (swapCols (wlens chans) i w) =
      swapAt i (updatePieces chans x w) := by
  have hi' : i + 1 < (widths chans).length := by simpa using hi
  have hi'' : i + 1 < (wlens chans).length := by simpa using hi
  unfold updatePieces
  apply zipIdx_map_swap chans i hi
  intro c k
  simp only []
  rw [widths_swapAt, wlens_swapAt, slice_swap _ i hi' x (by unfold total at hx; omega) k,
    slice_swap _ i hi'' w (by unfold wtotal at hw; omega) k]

theorem newPieces_swap (x : List α) (hx : x.length = total chans) :
    newPieces (swapAt i chans) (swapCols (widths chans) i x) = swapAt i (newPieces chans x) := by
  have hi' : i + 1 < (widths chans).length := by simpa using hi
  unfold newPieces
  apply zipIdx_map_swap chans i hi
  intro c k
  simp only []
  rw [widths_swapAt, slice_swap _ i hi' x (by unfold total at hx; omega) k]

theorem perm_sim (hl : ∀ c ∈ chans, c.LenOK) (mode : MT) (adjP adjM : α → α) (top : α) :
    KernelSim (fusionKernel chans) (fusionKernel (swapAt i chans)) (fusionCfg mode adjP adjM top)
      (fusionCfg mode adjP adjM top) (swapCols (widths chans) i) (swapCols (wlens chans) i)
      (fun x => x.length = total chans) (fun w => w.length = wtotal chans)
      (fun th₁ th₂ => th₁.length = chans.length ∧ th₂ = swapAt i th₁) where
  keep := rfl
  tilde := rfl
  choice := by
    intro W x w hW hx hw
    show choiceSkip (swapAt i chans) noSkip _ _ _ = choiceSkip chans noSkip W x w
    unfold choiceSkip
    rw [chanTerms_swap chans i hi W x w hW hx (hW w hw), osum_swapAt]
  passes := by
    intro th₁ th₂ x w hR hx hw
    obtain ⟨hlen, rfl⟩ := hR
    show _ = (fusionCfg mode adjP adjM top).passes _ (matchVec (swapAt i chans) _ _)
    rw [matchVec_swap chans i hi x w hx hw]
    simp only [fusionCfg]
    rw [zip_swapAt i th₁ _ (by simp [matchVec, hlen]), all_swapAt]
    rfl
  track := by
    intro th₁ th₂ x w hR hx hw
    obtain ⟨hlen, rfl⟩ := hR
    show _ ∧ (fusionCfg mode adjP adjM top).track _ (matchVec (swapAt i chans) _ _) = _
    rw [matchVec_swap chans i hi x w hx hw]
    simp only [fusionCfg]
    rw [zip_swapAt i th₁ _ (by simp [matchVec, hlen]), map_swapAt]
    exact ⟨by simp [fusionKernel, matchVec, hlen], rfl⟩
  update := by
    intro x w hx hw
    have hfit := updatePieces_fit chans hl x w hx hw
    refine ⟨?_, fusion_update_length chans hl x w hx hw⟩
    rw [fusion_update_eq chans hl x w hx hw, swapCols_flatten (wlens chans) i hfit]
    show stored (wlens (swapAt i chans)) (rawUpdate (swapAt i chans) _ _) = _
    rw [rawUpdate, updatePieces_swap chans i hi x w hx hw]
    apply stored_of_le
    rw [wlens_swapAt, (fit_swap hfit i).flatten_length]
  newW := by
    intro x hx
    have hfit := newPieces_fit chans hl x hx
    refine ⟨?_, fusion_new_length chans hl x hx⟩
    rw [fusion_new_eq chans hl x hx, swapCols_flatten (wlens chans) i hfit]
    show stored (wlens (swapAt i chans)) (rawNew (swapAt i chans) _) = _
    rw [rawNew, newPieces_swap chans i hi x hx]
    apply stored_of_le
    rw [wlens_swapAt, (fit_swap hfit i).flatten_length]

/-- **Permuting two neighbouring channels** (with their gammas, widths, vigilances and
data columns) gives the same run: same labels and counters, weights permuted likewise. -/
theorem perm_partialFit (hl : ∀ c ∈ chans, c.LenOK) (mode : MT) (adjP adjM : α → α) (top : α)
    (th : List α) (hth : th.length = chans.length)
    (veto veto' : ArtState (List α) → List α → Nat → Bool)
    (hv : ∀ s x c, veto' (mapState (swapCols (wlens chans) i) s) (swapCols (widths chans) i x) c = veto s x c)
    (s : ArtState (List α)) (xs : List (List α)) (hs : ∀ w ∈ s.W, w.length = wtotal chans)
    (hx : ∀ x ∈ xs, x.length = total chans) :
    partialFit (fusionKernel (swapAt i chans)) (fusionCfg mode adjP adjM top) (swapAt i th) veto'
        (mapState (swapCols (wlens chans) i) s) (xs.map (swapCols (widths chans) i)) =
      mapState (swapCols (wlens chans) i)
        (partialFit (fusionKernel chans) (fusionCfg mode adjP adjM top) th veto s xs) :=
  (perm_sim chans i hi hl mode adjP adjM top).partialFit veto veto' hv th (swapAt i th) ⟨hth, rfl⟩ s xs hs hx

end Perm

/-! ### prediction with skipped channels -/
section SkipCore
variable {α : Type} [Add α] [Mul α] [Zero α] [One α] [LT α] [DecidableRel (α := α) (· < ·)]

theorem chanTerm_indep (chans : List (Chan α)) (skip : Nat → Bool) (W : List (List α)) (x x' w : List α)
    (k : Nat) (c : Chan α) (h : skip k = false → slice (widths chans) k x = slice (widths chans) k x') :
    chanTerm chans skip W x w k c = chanTerm chans skip W x' w k c := by
  unfold chanTerm
  cases hs : skip k with
  | true => simp
  | false => simp [h hs]

/-- the fused activation with channels skipped reads only the supplied slices of the sample -/
theorem choiceSkip_indep (chans : List (Chan α)) (skip : Nat → Bool) (W : List (List α)) (x x' w : List α)
    (h : ∀ k, skip k = false → slice (widths chans) k x = slice (widths chans) k x') :
    choiceSkip chans skip W x w = choiceSkip chans skip W x' w := by
  unfold choiceSkip chanTerms
  congr 1
  apply List.map_congr_left
  intro ck _
  exact chanTerm_indep chans skip W x x' w ck.2 ck.1 (h ck.2)

theorem stepPredSkip_indep (chans : List (Chan α)) (skip : Nat → Bool) (W : List (List α)) (x x' : List α)
    (h : ∀ k, skip k = false → slice (widths chans) k x = slice (widths chans) k x') :
    stepPredSkip chans skip W x = stepPredSkip chans skip W x' := by
  unfold stepPredSkip
  congr 1
  apply List.map_congr_left
  intro w _
  exact choiceSkip_indep chans skip W x x' w h

/-- the gamma-weighted activations of the channels that are not skipped -/
def restTerms (chans : List (Chan α)) (skip : Nat → Bool) (W : List (List α)) (x w : List α) :
    List (Option α) :=
  (chans.zipIdx.filter (fun ck => !skip ck.2)).map (fun ck => chanTerm chans noSkip W x w ck.2 ck.1)

/-- their left-to-right sum -/
def restChoice (chans : List (Chan α)) (skip : Nat → Bool) (W : List (List α)) (x w : List α) : Option α :=
  osum (restTerms chans skip W x w)

end SkipCore

section SkipField
variable {α : Type} [Field α] [LinearOrder α] [IsStrictOrderedRing α]

/-- `Σ_{k skipped} 1·γ_k` -/
def skipConst (chans : List (Chan α)) (skip : Nat → Bool) : α :=
  ((chans.zipIdx.filter (fun ck => skip ck.2)).map (fun ck => 1 * ck.1.gamma)).sum

theorem foldl_oadd_none (l : List (Option α)) : l.foldl oadd none = none := by
  induction l with
  | nil => rfl
  | cons a l ih => simpa [oadd] using ih

theorem foldl_skip {γ : Type} (l : List γ) (sk : γ → Bool) (t : γ → Option α) (kc : γ → α) (a c : α) :
    (l.map (fun e => if sk e then some (kc e) else t e)).foldl oadd (some (a + c)) =
      (((l.filter (fun e => !sk e)).map t).foldl oadd (some a)).map
        (· + (c + ((l.filter sk).map kc).sum)) := by
  induction l generalizing a c with
  | nil => simp
  | cons e l ih =>
    cases hs : sk e with
    | true =>
      have := ih a (c + kc e)
      simp only [List.map_cons, hs, if_true, List.foldl_cons, oadd, List.filter_cons, Bool.not_true,
        Bool.false_eq_true, if_false, List.sum_cons]
      rw [add_assoc a c (kc e), this]
      congr 1
      funext v
      ring
    | false =>
      cases ht : t e with
      | none =>
        simp [hs, ht, oadd, foldl_oadd_none]
      | some b =>
        have := ih (a + b) c
        simp only [List.map_cons, hs, Bool.false_eq_true, if_false, ht, List.foldl_cons, oadd,
          List.filter_cons, Bool.not_false, if_true]
        rw [show a + c + b = a + b + c by ring, this]

/-- with channels skipped the fused activation is the remaining channels' sum plus a constant -/
theorem choiceSkip_eq_rest_add (chans : List (Chan α)) (skip : Nat → Bool) (W : List (List α)) (x w : List α) :
    choiceSkip chans skip W x w = (restChoice chans skip W x w).map (· + skipConst chans skip) := by
  have h := foldl_skip chans.zipIdx (fun ck => skip ck.2)
    (fun ck => chanTerm chans noSkip W x w ck.2 ck.1) (fun ck => 1 * ck.1.gamma) 0 0
  have e : chanTerms chans skip W x w = chans.zipIdx.map (fun ck =>
      if skip ck.2 then some (1 * ck.1.gamma) else chanTerm chans noSkip W x w ck.2 ck.1) := by
    unfold chanTerms
    apply List.map_congr_left
    intro ck _
    unfold chanTerm
    cases skip ck.2 <;> simp [noSkip]
  unfold choiceSkip restChoice restTerms skipConst osum
  rw [e]
  simpa using h

theorem nanargmaxV_map_add (c : α) (T : List (Option α)) :
    nanargmaxV (T.map (Option.map (· + c))) = (nanargmaxV T).map (fun kv => (kv.1, kv.2 + c)) := by
  induction T with
  | nil => rfl
  | cons t T ih =>
    cases t with
    | none =>
      simp only [List.map_cons, Option.map_none, nanargmaxV, ih]
      cases nanargmaxV T <;> simp
    | some v =>
      simp only [List.map_cons, Option.map_some, nanargmaxV, ih]
      cases nanargmaxV T with
      | none => simp
      | some ku =>
        obtain ⟨k, u⟩ := ku
        simp only [Option.map_some, add_lt_add_iff_right]
        split <;> simp

/-- adding one constant to every activation does not change `np.argmax` -/
theorem argmaxNp_map_add (c : α) (T : List (Option α)) :
    argmaxNp (T.map (Option.map (· + c))) = argmaxNp T := by
  have hf : (T.map (Option.map (· + c))).findIdx? (·.isNone) = T.findIdx? (·.isNone) := by
    induction T with
    | nil => rfl
    | cons t T ih => cases t <;> simp [List.findIdx?_cons, ih]
  unfold argmaxNp nanargmax
  rw [hf, nanargmaxV_map_add]
  cases T.findIdx? (·.isNone) with
  | some i => rfl
  | none => cases nanargmaxV T <;> simp

/-- the category predicted with channels skipped is the first arg-max of the remaining
channels' gamma-weighted activation -/
theorem stepPredSkip_eq_rest (chans : List (Chan α)) (skip : Nat → Bool) (W : List (List α)) (x : List α) :
    stepPredSkip chans skip W x = argmaxNp (W.map (restChoice chans skip W x)) := by
  unfold stepPredSkip
  rw [← argmaxNp_map_add (skipConst chans skip) (W.map (restChoice chans skip W x)), List.map_map]
  congr 1
  apply List.map_congr_left
  intro w _
  exact choiceSkip_eq_rest_add chans skip W x w

end SkipField

/-! ### skip indices -/
section Idx

theorem normIdx_neg (n m : Nat) (h : m < n) : normIdx n (-((m : Int) + 1)) = ((n - (m + 1) : Nat) : Int) := by
  unfold normIdx
  have : (-((m : Int) + 1)) < 0 := by omega
  simp only [this, if_true]
  omega

theorem normIdx_nonneg (n : Nat) (k : Int) (h : 0 ≤ k) : normIdx n k = k := by
  unfold normIdx
  have : ¬ k < 0 := by omega
  simp [this]

/-- normalising twice (as `predict_regression` followed by `predict` does) changes nothing
for indices that denote a channel -/
theorem skipSet_normIdx (n : Nat) (ks : List Int) (h : ∀ k ∈ ks, 0 ≤ normIdx n k) :
    skipSet n (ks.map (normIdx n)) = skipSet n ks := by
  funext j
  unfold skipSet
  congr 1
  rw [List.map_map]
  apply List.map_congr_left
  intro k hk
  exact normIdx_nonneg n _ (h k hk)

/-- a negative index and its positive form denote the same skipped channel -/
theorem skipSet_neg (n m : Nat) (h : m < n) (ks : List Int) :
    skipSet n (-((m : Int) + 1) :: ks) = skipSet n (((n - (m + 1) : Nat) : Int) :: ks) := by
  funext j
  unfold skipSet
  simp only [List.map_cons, normIdx_neg n m h]
  rw [normIdx_nonneg n _ (by omega)]

end Idx

/-! ### regression -/
section Regr
variable {β : Type}

theorem allSome_map_some (l : List β) : allSome (l.map some) = some l := by
  induction l with
  | nil => rfl
  | cons a l ih => simp [allSome, ih]

end Regr

section Regr2
variable {α : Type} [Add α] [Mul α] [Zero α] [One α] [LinearOrder α]

theorem channelCentres_getElem? (chans : List (Chan α)) (centre : Nat → List α → List α)
    (W : List (List α)) (k c : Nat) :
    (channelCentres chans centre W k)[c]? = (W[c]?).map (fun w => centre k (slice (wlens chans) k w)) := by
  simp [channelCentres]

/-- **Regression**: for any list of target channels the result is, target by target in the
order given, that channel's centre of the category predicted with the targets skipped. -/
theorem predictRegression_eq (chans : List (Chan α)) (centre : Nat → List α → List α)
    (targets : List Int) (W : List (List α)) (x : List α)
    (hnn : ∀ t ∈ targets, 0 ≤ normIdx chans.length t) (c : Nat)
    (hc : stepPredSkip chans (skipSet chans.length targets) W x = some c) :
    ∃ w, W[c]? = some w ∧
      predictRegression chans centre targets W x =
        some ((targets.map (normIdx chans.length)).map
          (fun k => centre k.toNat (slice (wlens chans) k.toNat w))) := by
  have hs := skipSet_normIdx chans.length targets hnn
  have hlt : c < W.length := by
    have := argmaxNp_lt_length hc
    simpa using this
  refine ⟨W[c], List.getElem?_eq_getElem hlt, ?_⟩
  unfold predictRegression
  simp only [hs, hc]
  generalize targets.map (normIdx chans.length) = tn
  have hcen : ∀ k : Int, (channelCentres chans centre W k.toNat)[c]? =
      some (centre k.toNat (slice (wlens chans) k.toNat W[c])) := by
    intro k
    rw [channelCentres_getElem?, List.getElem?_eq_getElem hlt]; rfl
  split
  · rename_i h1
    match tn, h1 with
    | [k], _ => simp [hcen]
    | [], h => exact absurd h (by simp)
    | _ :: _ :: _, h => exact absurd h (by simp)
  · have : (tn.map (fun k => channelCentres chans centre W k.toNat)).map (·[c]?) =
        (tn.map (fun k => centre k.toNat (slice (wlens chans) k.toNat W[c]))).map some := by
      rw [List.map_map, List.map_map]
      apply List.map_congr_left
      intro k _
      simp [hcen]
    rw [this, allSome_map_some]

end Regr2

/-! ### join / split -/
section JoinSplit
variable {β : Type}

/-- widths of the channels that are kept, from channel number `k` on -/
def keptWidths (skip : Nat → Bool) : Nat → List Nat → List Nat
  | _, [] => []
  | k, w :: ws => if skip k then keptWidths skip (k + 1) ws else w :: keptWidths skip (k + 1) ws

/-- the row with every skipped block overwritten by the filler -/
def maskFrom (filler : β) (skip : Nat → Bool) : Nat → List Nat → List β → List β
  | _, [], _ => []
  | k, w :: ws, v =>
    (if skip k then List.replicate w filler else v.take w) ++ maskFrom filler skip (k + 1) ws (v.drop w)

/-- `split(join(data)) = data` for supplied rows of the kept widths -/
theorem split_join_from (filler : β) (skip : Nat → Bool) (k : Nat) (ws : List Nat) (data : List (List β))
    (h : Fit (keptWidths skip k ws) data) :
    ∃ v, joinFrom filler skip k ws data = some v ∧ splitFrom skip k ws v = data ∧ v.length = ws.sum := by
  induction ws generalizing k data with
  | nil =>
    cases h
    exact ⟨[], rfl, rfl, rfl⟩
  | cons w ws ih =>
    cases hs : skip k with
    | true =>
      simp only [keptWidths, hs, if_true] at h
      obtain ⟨v, hj, hsp, hl⟩ := ih (k + 1) data h
      refine ⟨List.replicate w filler ++ v, by simp [joinFrom, hs, hj], ?_, by simp [hl]⟩
      simp [splitFrom, hs, hsp]
    | false =>
      simp only [keptWidths, hs, Bool.false_eq_true, if_false] at h
      cases h with
      | cons hd h =>
        rename_i d ds
        obtain ⟨v, hj, hsp, hl⟩ := ih (k + 1) ds h
        refine ⟨d ++ v, by simp [joinFrom, hs, hj], ?_, by simp [hl, hd]⟩
        simp [splitFrom, hs, List.take_left' hd, List.drop_left' hd, hsp]

theorem fit_splitFrom (skip : Nat → Bool) (k : Nat) (ws : List Nat) (v : List β) (hv : ws.sum ≤ v.length) :
    Fit (keptWidths skip k ws) (splitFrom skip k ws v) := by
  induction ws generalizing k v with
  | nil => exact List.Forall₂.nil
  | cons w ws ih =>
    simp only [List.sum_cons] at hv
    have hd : ws.sum ≤ (v.drop w).length := by simp; omega
    cases hs : skip k with
    | true => simpa [keptWidths, splitFrom, hs] using ih (k + 1) _ hd
    | false =>
      simp only [keptWidths, splitFrom, hs, Bool.false_eq_true, if_false]
      exact List.Forall₂.cons (by simp; omega) (ih (k + 1) _ hd)

/-- `join(split(row))` is the row with the skipped blocks replaced by the filler -/
theorem join_split_from (filler : β) (skip : Nat → Bool) (k : Nat) (ws : List Nat) (v : List β) :
    joinFrom filler skip k ws (splitFrom skip k ws v) = some (maskFrom filler skip k ws v) := by
  induction ws generalizing k v with
  | nil => rfl
  | cons w ws ih =>
    cases hs : skip k with
    | true => simp [joinFrom, splitFrom, maskFrom, hs, ih]
    | false => simp [joinFrom, splitFrom, maskFrom, hs, ih]

/-- … and agrees with the row on every supplied channel -/
theorem slice_maskFrom (filler : β) (skip : Nat → Bool) (k : Nat) (ws : List Nat) (v : List β)
    (hv : ws.sum ≤ v.length) (j : Nat) (hj : skip (k + j) = false) :
    slice ws j (maskFrom filler skip k ws v) = slice ws j v := by
  induction ws generalizing k v j with
  | nil => simp [slice, splitBy]
  | cons w ws ih =>
    simp only [List.sum_cons] at hv
    have hd : ws.sum ≤ (v.drop w).length := by simp; omega
    have hlen : (if skip k then List.replicate w filler else v.take w).length = w := by
      split
      · simp
      · simp; omega
    cases j with
    | zero =>
      have hs : skip k = false := by simpa using hj
      simp only [slice_cons_zero, maskFrom, hs, Bool.false_eq_true, if_false]
      rw [List.take_left' (by simp; omega)]
    | succ j =>
      simp only [slice_cons_succ, maskFrom]
      rw [List.drop_left' hlen]
      exact ih (k + 1) _ hd j (by rw [← hj]; congr 1; omega)

end JoinSplit

/-! ### prepare / restore for any set of skipped channels -/
section PrepRestore
variable {β : Type}

theorem keptWidths_eq (skip : Nat → Bool) (k : Nat) (ws : List Nat) :
    keptWidths skip k ws =
      ((List.range ws.length).filter (fun j => !skip (k + j))).map (fun j => ws.getD j 0) := by
  induction ws generalizing k with
  | nil => simp [keptWidths]
  | cons w ws ih =>
    have ih' := ih (k + 1)
    have hshift : ((List.range ws.length).map Nat.succ).filter (fun j => !skip (k + j)) =
        ((List.range ws.length).filter (fun j => !skip (k + 1 + j))).map Nat.succ := by
      rw [List.filter_map]
      congr 1
      apply List.filter_congr
      intro j _
      simp only [Function.comp]
      rw [show k + Nat.succ j = k + 1 + j by omega]
    simp only [keptWidths, List.length_cons, List.range_succ_eq_map, List.filter_cons, Nat.add_zero, ih',
      hshift]
    cases skip k <;> simp [Function.comp]

theorem zipIdx_map_lookup {γ δ : Type} (l : List Nat) (g : Nat → γ) (f : Nat → γ → δ) :
    l.zipIdx.map (fun ip => ((l.map g)[ip.2]?).map (f ip.1)) = (l.map (fun i => f i (g i))).map some := by
  apply List.ext_getElem?
  intro k
  rw [zipIdx_map_getElem?, List.getElem?_map, List.getElem?_map]
  cases h : l[k]? with
  | none => rfl
  | some i => simp [List.getElem?_map, h]

/-- **prepare / restore round trip for any set of skipped channels.**  `data` has one entry per
channel.  If every kept module's `restore_data` inverts its `prepare_data` (C18) and prepared
rows have the channel width, `restore_data(prepare_data(data, skip), skip)` returns the supplied
channels, in order. -/
theorem restore_prepare_any (prep rest : Nat → List β → List β) (ws : List Nat) (skip : Nat → Bool)
    (filler : β) (data : List (List β)) (hd : data.length = ws.length)
    (hwid : ∀ i, i < ws.length → skip i = false → (prep i (data.getD i [])).length = ws.getD i 0)
    (hinv : ∀ i, i < ws.length → skip i = false → rest i (prep i (data.getD i [])) = data.getD i []) :
    ∃ v, prepareRow prep ws skip filler data = some v ∧
      restoreRow rest ws skip v = some ((kept ws.length skip).map (fun i => data.getD i [])) := by
  have hmem : ∀ i ∈ kept ws.length skip, i < ws.length ∧ skip i = false := by
    intro i hi
    simp only [kept, List.mem_filter, List.mem_range, Bool.not_eq_eq_eq_not, Bool.not_true] at hi
    exact hi
  let P := (kept ws.length skip).map (fun i => prep i (data.getD i []))
  have hP : (kept ws.length skip).map (fun i => (data[i]?).map (prep i)) = P.map some := by
    rw [List.map_map]
    apply List.map_congr_left
    intro i hi
    have hi' : i < data.length := by have := (hmem i hi).1; omega
    simp [List.getD_eq_getElem?_getD, List.getElem?_eq_getElem hi']
  have hfit : Fit (keptWidths skip 0 ws) P := by
    rw [keptWidths_eq]
    simp only [Nat.zero_add]
    show List.Forall₂ _ (((List.range ws.length).filter (fun j => !skip j)).map _) (List.map _ (kept ws.length skip))
    unfold kept
    rw [List.forall₂_map_left_iff, List.forall₂_map_right_iff, List.forall₂_same]
    intro i hi
    have := hmem i hi
    exact hwid i this.1 this.2
  obtain ⟨v, hj, hsp, _⟩ := split_join_from filler skip 0 ws P hfit
  refine ⟨v, ?_, ?_⟩
  · unfold prepareRow
    rw [hP, allSome_map_some]
    exact hj
  · unfold restoreRow splitRow
    rw [hsp]
    show allSome ((kept ws.length skip).zipIdx.map (fun ip =>
      (((kept ws.length skip).map (fun i => prep i (data.getD i [])))[ip.2]?).map (rest ip.1))) = _
    rw [zipIdx_map_lookup, allSome_map_some]
    congr 1
    apply List.map_congr_left
    intro i hi
    have := hmem i hi
    exact hinv i this.1 this.2

end PrepRestore

section Misc
variable {α : Type} [Field α]

theorem foldl_oadd_some (l : List α) (a : α) : (l.map some).foldl oadd (some a) = some (a + l.sum) := by
  induction l generalizing a with
  | nil => simp
  | cons b l ih => simp [oadd, ih, add_assoc]

end Misc

/-! ### the step on the module lists is the projection of the fused step -/
section Mods
variable {β : Type}

theorem splitBy_stored (ws : List Nat) (v : List β) : splitBy ws (stored ws v) = splitBy ws v := by
  rw [stored_eq_take]
  induction ws generalizing v with
  | nil => rfl
  | cons w ws ih =>
    simp only [splitBy, List.sum_cons, List.cons.injEq]
    constructor
    · rw [List.take_take]; congr 1; omega
    · rw [List.drop_take, Nat.add_sub_cancel_left]; exact ih _

theorem slice_stored (ws : List Nat) (k : Nat) (v : List β) : slice ws k (stored ws v) = slice ws k v := by
  simp [slice, splitBy_stored]

end Mods

section Mods2
variable {α : Type} [Add α] [Mul α] [Zero α] [One α] [LinearOrder α]

theorem chanStates_length (chans : List (Chan α)) (s : ArtState (List α)) :
    (chanStates chans s).length = chans.length := by simp [chanStates]

theorem chanStates_getElem? (chans : List (Chan α)) (s : ArtState (List α)) (k : Nat) (hk : k < chans.length) :
    (chanStates chans s)[k]? = some (chanState (wlens chans) k s) := by
  simp [chanStates, List.getElem?_range hk]

/-- the state after `add_weight` -/
def addW (s : ArtState (List α)) (w : List α) : ArtState (List α) :=
  { s with W := s.W ++ [w], cnt := s.cnt ++ [1] }

/-- the state after `set_weight` -/
def setW (s : ArtState (List α)) (c : Nat) (w : List α) : ArtState (List α) :=
  { s with W := s.W.set c w, cnt := s.cnt.set c (s.cnt.getD c 0 + 1) }

theorem modsAdd_chanStates (chans : List (Chan α)) (s : ArtState (List α)) (w : List α) :
    modsAdd (wlens chans) (chanStates chans s) w =
      chanStates chans (addW s (stored (wlens chans) w)) := by
  apply List.ext_getElem?
  intro k
  unfold modsAdd
  rw [List.getElem?_zipWith']
  by_cases hk : k < chans.length
  · have h2 : (splitBy (wlens chans) w)[k]? = some (slice (wlens chans) k w) := by
      have : k < (splitBy (wlens chans) w).length := by simpa using hk
      simp [slice, List.getD_eq_getElem?_getD, List.getElem?_eq_getElem this]
    rw [chanStates_getElem? chans s k hk, chanStates_getElem? chans _ k hk, h2]
    simp [chanState, slice_stored, addW]
  · have h1 : (chanStates chans s)[k]? = none :=
      List.getElem?_eq_none (by rw [chanStates_length]; omega)
    have h3 : (chanStates chans (addW s (stored (wlens chans) w)))[k]? = none :=
      List.getElem?_eq_none (by rw [chanStates_length]; omega)
    simp [h1, h3]

theorem modsSet_chanStates (chans : List (Chan α)) (s : ArtState (List α)) (c : Nat) (w : List α) :
    modsSet (wlens chans) (chanStates chans s) c w =
      chanStates chans (setW s c (stored (wlens chans) w)) := by
  apply List.ext_getElem?
  intro k
  unfold modsSet
  rw [List.getElem?_zipWith']
  by_cases hk : k < chans.length
  · have h2 : (splitBy (wlens chans) w)[k]? = some (slice (wlens chans) k w) := by
      have : k < (splitBy (wlens chans) w).length := by simpa using hk
      simp [slice, List.getD_eq_getElem?_getD, List.getElem?_eq_getElem this]
    rw [chanStates_getElem? chans s k hk, chanStates_getElem? chans _ k hk, h2]
    simp [chanState, slice_stored, List.map_set, setW]
  · have h1 : (chanStates chans s)[k]? = none :=
      List.getElem?_eq_none (by rw [chanStates_length]; omega)
    have h3 : (chanStates chans (setW s c (stored (wlens chans) w)))[k]? = none :=
      List.getElem?_eq_none (by rw [chanStates_length]; omega)
    simp [h1, h3]

/-- **The FusionART step on the module lists is the projection of the fused step**: same
label, and every module ends with exactly its slice of every fused weight and the shared
counters. -/
theorem modsStep_chanStates {θ : Type} (chans : List (Chan α)) (hne : chans ≠ [])
    (cfg : SearchCfg (List α) θ) (th0 : θ) (veto : Nat → Bool) (s : ArtState (List α))
    (hs : ∀ w ∈ s.W, w.length ≤ wtotal chans) (x : List α) :
    (modsStep chans cfg th0 veto (chanStates chans s) x).1 =
      chanStates chans (stepFit (fusionKernel chans) cfg th0 veto s x).1 ∧
    (modsStep chans cfg th0 veto (chanStates chans s) x).2 =
      (stepFit (fusionKernel chans) cfg th0 veto s x).2 := by
  unfold modsStep stepFit
  rw [fusedW_chanStates chans hne s hs]
  have hnew : modsAdd (wlens chans) (chanStates chans s) (rawNew chans x) =
      chanStates chans (applyWinner (fusionKernel chans) s x none).1 := by
    rw [modsAdd_chanStates]
    simp [applyWinner, chanStates, chanState, fusionKernel, addW]
  by_cases he : s.W.isEmpty
  · simp only [he, if_true]
    have : s.W = [] := by simpa using he
    exact ⟨hnew, by simp [applyWinner, this]⟩
  · simp only [he, Bool.false_eq_true, if_false]
    cases hc : (stepSearch (fusionKernel chans) cfg th0 veto s.W x).winner with
    | none => exact ⟨hnew, by simp [applyWinner]⟩
    | some c =>
      have hlt := stepSearch_winner_lt (fusionKernel chans) cfg th0 veto s.W x c hc
      have e1 : s.W[c]? = some s.W[c] := List.getElem?_eq_getElem hlt
      have e2 : s.W.getD c [] = s.W[c] := by simp [List.getD_eq_getElem?_getD, e1]
      simp only [e2]
      rw [modsSet_chanStates]
      simp [applyWinner, e1, chanStates, chanState, fusionKernel, setW]

/-- over any stream: the module lists are the projections of the fused state, the labels agree -/
theorem modsRun_chanStates {θ : Type} (chans : List (Chan α)) (hne : chans ≠ [])
    (cfg : SearchCfg (List α) θ) (th0 : θ) (veto : List α → Nat → Bool) (s : ArtState (List α))
    (hs : ∀ w ∈ s.W, w.length ≤ wtotal chans) (xs : List (List α)) :
    modsRun chans cfg th0 veto (chanStates chans s, s.labels) xs =
      (chanStates chans (partialFit (fusionKernel chans) cfg th0 (fun _ x c => veto x c) s xs),
       (partialFit (fusionKernel chans) cfg th0 (fun _ x c => veto x c) s xs).labels) := by
  induction xs generalizing s with
  | nil => rfl
  | cons x xs ih =>
    obtain ⟨h1, h2⟩ := modsStep_chanStates chans hne cfg th0 (veto x) s hs x
    have hstep : trainStep (fusionKernel chans) cfg th0 (fun _ x c => veto x c) s x =
        { (stepFit (fusionKernel chans) cfg th0 (veto x) s x).1 with
          labels := (stepFit (fusionKernel chans) cfg th0 (veto x) s x).1.labels ++
            [(stepFit (fusionKernel chans) cfg th0 (veto x) s x).2] } := rfl
    have hl : (stepFit (fusionKernel chans) cfg th0 (veto x) s x).1.labels = s.labels :=
      (stepFit_frame (fusionKernel chans) cfg th0 (veto x) s x).2.1
    have hinv := trainStep_W_inv (fusionKernel chans) cfg th0 (fun _ x c => veto x c)
      (fun w => w.length ≤ wtotal chans) s x (fun w _ => stored_length_le _ _) (stored_length_le _ _) hs
    have := ih (trainStep (fusionKernel chans) cfg th0 (fun _ x c => veto x c) s x) hinv
    simp only [modsRun, h1, h2]
    have hcs : chanStates chans (stepFit (fusionKernel chans) cfg th0 (veto x) s x).1 =
        chanStates chans (trainStep (fusionKernel chans) cfg th0 (fun _ x c => veto x c) s x) := by
      rw [hstep]; rfl
    rw [hcs, ← hl]
    have hlab : (stepFit (fusionKernel chans) cfg th0 (veto x) s x).1.labels ++
        [(stepFit (fusionKernel chans) cfg th0 (veto x) s x).2] =
        (trainStep (fusionKernel chans) cfg th0 (fun _ x c => veto x c) s x).labels := by
      rw [hstep]
    rw [hlab, this]
    simp [partialFit]

end Mods2

end Art.Fusion
