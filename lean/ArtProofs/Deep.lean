/-
ArtProofs.Deep — DeepARTMAP / SMART: the chain of SimpleARTMAP layers keeps
`MapInv` in every layer and "the supervision of layer i+1 is `labels_a` of layer
i", after `fit` and after every `partial_fit` batch; consequences for
`labels_deep_`, `map_deep` and `predict`; batching is irrelevant.
For every linear order, kernel, match-tracking configuration and stream.
-/
import ArtProofs.Predict
import ArtModel.Deep
import Mathlib.Data.Finset.Card
import Mathlib.Data.Finset.Image

namespace Art

set_option linter.unusedSectionVars false
set_option linter.unusedVariables false

variable {X Wt α μ θ : Type} [LinearOrder α]

/-! ### lists -/

theorem lastN_append {β : Type} (n : Nat) (l t : List β) (ht : t.length = n) (hn : 0 < n) :
    lastN n (l ++ t) = t := by
  unfold lastN
  have : ¬ n = 0 := by omega
  simp only [this, if_false, List.length_append, ht]
  have : l.length + n - n = l.length := by omega
  rw [this, List.drop_left]

theorem zip_lastN {β γ : Type} (n : Nat) (xs : List γ) (l t : List β) (hx : xs.length = n)
    (ht : t.length = n) : xs.zip (lastN n (l ++ t)) = xs.zip t := by
  by_cases hn : n = 0
  · subst hn
    have : xs = [] := List.eq_nil_of_length_eq_zero hx
    subst this; simp
  · rw [lastN_append n l t ht (by omega)]

theorem lastN_length_ge {β : Type} (n : Nat) (l : List β) (h : n ≤ l.length) :
    n ≤ (lastN n l).length := by
  unfold lastN
  split
  · omega
  · simp; omega

theorem mapA2B?_eq_some_iff (m : List (Option Nat)) (l l' : List Nat) :
    mapA2B? m l = some l' ↔ mapA2B m l = l'.map some := by
  unfold mapA2B? mapA2B
  induction l generalizing l' with
  | nil => cases l' <;> simp
  | cons a l ih =>
    simp only [List.mapM_cons, List.map_cons]
    cases ha : mapGet m a with
    | none =>
      simp
      cases l' <;> simp
    | some b =>
      cases hl : l.mapM (mapGet m) with
      | none =>
        simp
        intro h
        cases l' with
        | nil => simp at h
        | cons b' l'' =>
          simp at h
          have := (ih l'').mpr h.2
          rw [hl] at this; cases this
      | some r =>
        have := ih r
        simp [hl] at this
        simp
        constructor
        · intro h; subst h; simp [this]
        · intro h
          cases l' with
          | nil => simp at h
          | cons b' l'' =>
            simp at h
            obtain ⟨h1, h2⟩ := h
            subst h1
            have h3 := (ih l'').mpr h2
            rw [hl] at h3
            cases h3; rfl

theorem nested_of_map_eq {f : Nat → Option Nat} {cf cc : List Nat} (h : cf.map f = cc.map some)
    (i j : Nat) (hij : cf[i]? = cf[j]?) : cc[i]? = cc[j]? := by
  have hi : (cc[i]?).map some = (cf[i]?).map f := by
    rw [← List.getElem?_map, ← List.getElem?_map, h]
  have hj : (cc[j]?).map some = (cf[j]?).map f := by
    rw [← List.getElem?_map, ← List.getElem?_map, h]
  rw [hij, ← hj] at hi
  exact Option.map_injective (Option.some_injective _) hi

theorem toFinset_map' {β γ : Type} [DecidableEq β] [DecidableEq γ] (f : β → γ) (l : List β) :
    (l.map f).toFinset = l.toFinset.image f := by
  ext x; simp

theorem card_le_of_map_eq {f : Nat → Option Nat} {cf cc : List Nat} (h : cf.map f = cc.map some) :
    cc.toFinset.card ≤ cf.toFinset.card := by
  have h1 : (cc.map some).toFinset.card = cc.toFinset.card := by
    rw [toFinset_map']
    exact Finset.card_image_of_injective _ (Option.some_injective _)
  have h2 : (cf.map f).toFinset.card ≤ cf.toFinset.card := by
    rw [toFinset_map']
    exact Finset.card_image_le
  rw [← h1, ← h]; exact h2


theorem map_snd_zip_of_length {β γ : Type} (xs : List γ) (t : List β) (h : t.length ≤ xs.length) :
    (xs.zip t).map (·.2) = t := by
  induction xs generalizing t with
  | nil => cases t <;> simp_all
  | cons x xs ih =>
    cases t with
    | nil => simp
    | cons b t => simp at h ⊢; exact ih t (by omega)

theorem zipWith_append_length {β : Type} (n₁ n₂ : Nat) (A B : List (List β))
    (hA : ∀ xs ∈ A, xs.length = n₁) (hB : ∀ xs ∈ B, xs.length = n₂) :
    ∀ zs ∈ List.zipWith (· ++ ·) A B, zs.length = n₁ + n₂ := by
  induction A generalizing B with
  | nil => simp
  | cons a A ih =>
    cases B with
    | nil => simp
    | cons b B =>
      intro zs hz
      simp only [List.zipWith_cons_cons, List.mem_cons] at hz
      rcases hz with rfl | hz
      · simp [hA a (by simp), hB b (by simp)]
      · exact ih B (fun xs h => hA xs (by simp [h])) (fun xs h => hB xs (by simp [h])) zs hz

/-! ### one layer -/

/-- the A-side labels of a SimpleARTMAP only grow, by one per presented sample -/
theorem smapPartialFit_labelsA (K : Kernel X Wt α μ) (cfg : SearchCfg μ θ) (th0 : θ)
    (s : SMapState Wt) (xys : List (X × Nat)) :
    ∃ t, (smapPartialFit K cfg th0 s xys).a.labels = s.a.labels ++ t ∧ t.length = xys.length := by
  unfold smapPartialFit
  induction xys generalizing s with
  | nil => exact ⟨[], by simp, rfl⟩
  | cons xy xys ih =>
    obtain ⟨t, ht, hl⟩ := ih (smapStep K cfg th0 s xy)
    have hstep : ∃ c, (smapStep K cfg th0 s xy).a.labels = s.a.labels ++ [c] := by
      obtain ⟨_, hl, _⟩ := stepFit_frame K cfg th0 (mapVeto s.map xy.2) s.a xy.1
      exact ⟨(stepFit K cfg th0 (mapVeto s.map xy.2) s.a xy.1).2, by simp [smapStep, hl]⟩
    obtain ⟨c, hc⟩ := hstep
    refine ⟨c :: t, ?_, by simp [hl]⟩
    simp only [List.foldl_cons]
    rw [ht, hc]; simp

theorem smapPartialFit_append (K : Kernel X Wt α μ) (cfg : SearchCfg μ θ) (th0 : θ)
    (s : SMapState Wt) (a b : List (X × Nat)) :
    smapPartialFit K cfg th0 (smapPartialFit K cfg th0 s a) b = smapPartialFit K cfg th0 s (a ++ b) := by
  simp [smapPartialFit, List.foldl_append]

/-- a layer in good standing: functional total map consistent with its targets,
and consistent label/weight bookkeeping on the A-side -/
def LayerOK (s : SMapState Wt) : Prop := MapInv s ∧ Consistent s.a

theorem layerOK_empty : LayerOK ({} : SMapState Wt) := ⟨mapInv_empty, consistent_empty⟩

theorem layerOK_partialFit (K : Kernel X Wt α μ) (cfg : SearchCfg μ θ) (th0 : θ)
    (s : SMapState Wt) (xys : List (X × Nat)) (h : LayerOK s) :
    LayerOK (smapPartialFit K cfg th0 s xys) :=
  ⟨(smapPartialFit_inv K cfg th0 s xys h.1).1, smapPartialFit_consistent K cfg th0 s xys h.2⟩

/-! ### the chain invariant -/

/-- Every layer is in good standing and the targets of each layer are exactly
the A-side labels of the layer above it. -/
def DeepInv : List (SMapState Wt) → Prop
  | [] => True
  | s :: r => LayerOK s ∧ (∀ t, r.head? = some t → t.labelsB = s.a.labels) ∧ DeepInv r

theorem deepInv_mem {layers : List (SMapState Wt)} (h : DeepInv layers) :
    ∀ s ∈ layers, LayerOK s := by
  induction layers with
  | nil => simp
  | cons s r ih =>
    intro t ht
    simp only [List.mem_cons] at ht
    rcases ht with rfl | ht
    · exact h.1
    · exact ih h.2.2 t ht

theorem deepInv_getElem? {layers : List (SMapState Wt)} (h : DeepInv layers) {l : Nat} {s : SMapState Wt}
    (hs : layers[l]? = some s) : LayerOK s :=
  deepInv_mem h s (List.mem_of_getElem? hs)

/-- consecutive layers are linked -/
theorem deepInv_link {layers : List (SMapState Wt)} (h : DeepInv layers) {l : Nat} {s t : SMapState Wt}
    (hs : layers[l]? = some s) (ht : layers[l + 1]? = some t) : t.labelsB = s.a.labels := by
  induction layers generalizing l with
  | nil => simp at hs
  | cons s0 r ih =>
    cases l with
    | zero =>
      simp only [List.getElem?_cons_zero, Option.some.injEq] at hs
      subst hs
      apply h.2.1
      simp only [List.getElem?_cons_succ] at ht
      cases r with
      | nil => simp at ht
      | cons t0 r' => simpa using ht
    | succ l =>
      simp only [List.getElem?_cons_succ] at hs ht
      exact ih h.2.2 hs ht

theorem deepInv_replicate (k : Nat) : DeepInv (List.replicate k ({} : SMapState Wt)) := by
  induction k with
  | zero => trivial
  | succ k ih =>
    refine ⟨layerOK_empty, ?_, ih⟩
    intro t ht
    cases k with
    | zero => simp at ht
    | succ k =>
      simp [List.replicate_succ] at ht
      subst ht; rfl

/-! ### `partial_fit` / `fit` preserve the chain invariant -/

theorem chainPartialFit_head (n : Nat) (Ls : List (Level X Wt α μ θ)) (st : List (SMapState Wt))
    (Xs : List (List X)) (y : List Nat) (s' : SMapState Wt)
    (h : (chainPartialFit n Ls st Xs y).head? = some s') :
    ∃ L s xs, Ls.head? = some L ∧ st.head? = some s ∧ Xs.head? = some xs ∧
      s' = smapPartialFit L.K L.cfg L.th s (xs.zip y) := by
  cases Ls with
  | nil => simp [chainPartialFit] at h
  | cons L Ls =>
    cases st with
    | nil => simp [chainPartialFit] at h
    | cons s ss =>
      cases Xs with
      | nil => simp [chainPartialFit] at h
      | cons xs Xs =>
        simp only [chainPartialFit, List.head?_cons, Option.some.injEq] at h
        exact ⟨L, s, xs, rfl, rfl, rfl, h.symm⟩

/-- **Layer invariant, incremental.**  One `partial_fit` call on a hierarchy in
good standing leaves it in good standing: every layer keeps `MapInv`, and the
targets stored by layer i+1 are still exactly `labels_a` of layer i. -/
theorem chainPartialFit_inv (n : Nat) (Ls : List (Level X Wt α μ θ)) (st : List (SMapState Wt))
    (Xs : List (List X)) (y : List Nat) (hinv : DeepInv st)
    (hX : ∀ xs ∈ Xs, xs.length = n) (hy : n ≤ y.length) :
    DeepInv (chainPartialFit n Ls st Xs y) := by
  induction Ls generalizing st Xs y with
  | nil => simp [chainPartialFit, DeepInv]
  | cons L Ls ih =>
    cases st with
    | nil => simp [chainPartialFit, DeepInv]
    | cons s ss =>
      cases Xs with
      | nil => simp [chainPartialFit, DeepInv]
      | cons xs Xs =>
        simp only [chainPartialFit]
        have hxs : xs.length = n := hX xs (by simp)
        obtain ⟨t, ht, htl⟩ := smapPartialFit_labelsA L.K L.cfg L.th s (xs.zip y)
        have htn : t.length = n := by rw [htl, List.length_zip]; omega
        refine ⟨layerOK_partialFit L.K L.cfg L.th s _ hinv.1, ?_, ?_⟩
        · intro t' ht'
          obtain ⟨L1, s1, xs1, hL1, hs1, hx1, rfl⟩ := chainPartialFit_head n Ls ss Xs _ t' ht'
          have hlink := hinv.2.1 s1 hs1
          have hx1n : xs1.length = n := hX xs1 (by
            cases Xs with
            | nil => simp at hx1
            | cons a b => simp at hx1; simp [hx1])
          rw [smapPartialFit_labelsB, hlink, ht, zip_lastN n xs1 s.a.labels t hx1n htn,
            map_snd_zip_of_length xs1 t (by omega)]
        · apply ih ss Xs _ hinv.2.2 (fun xs' h => hX xs' (by simp [h]))
          apply lastN_length_ge
          rw [ht]; simp; omega

theorem chainPartialFit_lastN (n : Nat) (Ls : List (Level X Wt α μ θ)) (st : List (SMapState Wt))
    (Xs : List (List X)) (l t : List Nat) (hX : ∀ xs ∈ Xs, xs.length = n) (ht : t.length = n) :
    chainPartialFit n Ls st Xs (lastN n (l ++ t)) = chainPartialFit n Ls st Xs t := by
  cases Ls with
  | nil => simp [chainPartialFit]
  | cons L Ls =>
    cases st with
    | nil => simp [chainPartialFit]
    | cons s ss =>
      cases Xs with
      | nil => simp [chainPartialFit]
      | cons xs Xs =>
        simp only [chainPartialFit]
        rw [zip_lastN n xs l t (hX xs (by simp)) ht]

/-- On fresh layers one `partial_fit` batch is `fit`. -/
theorem chainPartialFit_fresh (n : Nat) (Ls : List (Level X Wt α μ θ)) (Xs : List (List X))
    (y : List Nat) (hX : ∀ xs ∈ Xs, xs.length = n) (hy : n ≤ y.length) :
    chainPartialFit n Ls (List.replicate Ls.length {}) Xs y = chainFit Ls Xs y := by
  induction Ls generalizing Xs y with
  | nil => simp [chainPartialFit, chainFit]
  | cons L Ls ih =>
    cases Xs with
    | nil => simp [chainPartialFit, chainFit, List.replicate_succ]
    | cons xs Xs =>
      simp only [List.length_cons, List.replicate_succ, chainPartialFit, chainFit]
      have hxs : xs.length = n := hX xs (by simp)
      obtain ⟨t, ht, htl⟩ := smapPartialFit_labelsA L.K L.cfg L.th {} (xs.zip y)
      have htn : t.length = n := by rw [htl, List.length_zip]; omega
      have e : smapFit L.K L.cfg L.th {} (xs.zip y) = smapPartialFit L.K L.cfg L.th {} (xs.zip y) := rfl
      rw [e]
      congr 1
      have hX' : ∀ xs' ∈ Xs, xs'.length = n := fun xs' h => hX xs' (by simp [h])
      have ht' : (smapPartialFit L.K L.cfg L.th {} (xs.zip y)).a.labels = [] ++ t := by
        rw [ht]
      rw [ht', chainPartialFit_lastN n Ls _ Xs [] t hX' htn]
      simpa using ih Xs t hX' (by omega)

/-- **Layer invariant, batch.** -/
theorem chainFit_inv (n : Nat) (Ls : List (Level X Wt α μ θ)) (Xs : List (List X)) (y : List Nat)
    (hX : ∀ xs ∈ Xs, xs.length = n) (hy : n ≤ y.length) : DeepInv (chainFit Ls Xs y) := by
  rw [← chainPartialFit_fresh n Ls Xs y hX hy]
  exact chainPartialFit_inv n Ls _ Xs y (deepInv_replicate _) hX hy

/-- Two `partial_fit` batches equal one batch of the concatenated data, layer by layer. -/
theorem chainPartialFit_two_batches (n₁ n₂ : Nat) (Ls : List (Level X Wt α μ θ))
    (st : List (SMapState Wt)) (Xs₁ Xs₂ : List (List X)) (y₁ y₂ : List Nat)
    (h₁ : ∀ xs ∈ Xs₁, xs.length = n₁) (h₂ : ∀ xs ∈ Xs₂, xs.length = n₂)
    (hy₁ : y₁.length = n₁) (hy₂ : y₂.length = n₂) :
    chainPartialFit n₂ Ls (chainPartialFit n₁ Ls st Xs₁ y₁) Xs₂ y₂ =
      chainPartialFit (n₁ + n₂) Ls st (List.zipWith (· ++ ·) Xs₁ Xs₂) (y₁ ++ y₂) := by
  induction Ls generalizing st Xs₁ Xs₂ y₁ y₂ with
  | nil => simp [chainPartialFit]
  | cons L Ls ih =>
    cases st with
    | nil => simp [chainPartialFit]
    | cons s ss =>
      cases Xs₁ with
      | nil => simp [chainPartialFit]
      | cons xs₁ Xs₁ =>
        cases Xs₂ with
        | nil => simp [chainPartialFit]
        | cons xs₂ Xs₂ =>
          simp only [chainPartialFit, List.zipWith_cons_cons]
          have hx₁ : xs₁.length = n₁ := h₁ xs₁ (by simp)
          have hx₂ : xs₂.length = n₂ := h₂ xs₂ (by simp)
          have hz : (xs₁ ++ xs₂).zip (y₁ ++ y₂) = xs₁.zip y₁ ++ xs₂.zip y₂ :=
            List.zip_append (by omega)
          rw [hz, smapPartialFit_append]
          congr 1
          obtain ⟨t₁, ht₁, hl₁⟩ := smapPartialFit_labelsA L.K L.cfg L.th s (xs₁.zip y₁)
          obtain ⟨t₂, ht₂, hl₂⟩ := smapPartialFit_labelsA L.K L.cfg L.th
            (smapPartialFit L.K L.cfg L.th s (xs₁.zip y₁)) (xs₂.zip y₂)
          have hn₁ : t₁.length = n₁ := by rw [hl₁, List.length_zip]; omega
          have hn₂ : t₂.length = n₂ := by rw [hl₂, List.length_zip]; omega
          rw [smapPartialFit_append] at ht₂
          have h₁' : ∀ xs ∈ Xs₁, xs.length = n₁ := fun xs h => h₁ xs (by simp [h])
          have h₂' : ∀ xs ∈ Xs₂, xs.length = n₂ := fun xs h => h₂ xs (by simp [h])
          have e12 : (smapPartialFit L.K L.cfg L.th s (xs₁.zip y₁ ++ xs₂.zip y₂)).a.labels
              = s.a.labels ++ (t₁ ++ t₂) := by rw [ht₂, ht₁, List.append_assoc]
          rw [ht₁, chainPartialFit_lastN n₁ Ls ss Xs₁ _ t₁ h₁' hn₁]
          rw [ht₂, chainPartialFit_lastN n₂ Ls _ Xs₂ _ t₂ h₂' hn₂]
          rw [← ht₂, e12, chainPartialFit_lastN (n₁ + n₂) Ls ss _ _ (t₁ ++ t₂)
            (zipWith_append_length n₁ n₂ Xs₁ Xs₂ h₁' h₂') (by simp [hn₁, hn₂])]
          exact ih ss Xs₁ Xs₂ t₁ t₂ h₁' h₂' hn₁ hn₂


/-! ### `labels_deep_` -/

theorem labelsDeep_cons_cons (s t : SMapState Wt) (r : List (SMapState Wt)) :
    labelsDeep (s :: t :: r) = s.labelsB :: labelsDeep (t :: r) := rfl

theorem labelsDeep_length (layers : List (SMapState Wt)) (h : layers ≠ []) :
    (labelsDeep layers).length = layers.length + 1 := by
  induction layers with
  | nil => exact absurd rfl h
  | cons s r ih =>
    cases r with
    | nil => rfl
    | cons t r => rw [labelsDeep_cons_cons, List.length_cons, ih (by simp)]; simp

/-- column `l` is `labels_` of layer `l` (no hypothesis: this is how the property is assembled) -/
theorem labelsDeep_getElem?_labelsB (layers : List (SMapState Wt)) (l : Nat) (s : SMapState Wt)
    (hs : layers[l]? = some s) : (labelsDeep layers)[l]? = some s.labelsB := by
  induction layers generalizing l with
  | nil => simp at hs
  | cons s0 r ih =>
    cases r with
    | nil =>
      cases l with
      | zero => simp at hs; subst hs; rfl
      | succ l => simp at hs
    | cons t r =>
      rw [labelsDeep_cons_cons]
      cases l with
      | zero => simp at hs; subst hs; rfl
      | succ l =>
        simp only [List.getElem?_cons_succ] at hs ⊢
        exact ih l hs

/-- the last column is `labels_a` of the last layer -/
theorem labelsDeep_getElem?_last (layers : List (SMapState Wt)) (s : SMapState Wt)
    (hs : layers.getLast? = some s) : (labelsDeep layers)[layers.length]? = some s.a.labels := by
  induction layers with
  | nil => simp at hs
  | cons s0 r ih =>
    cases r with
    | nil => simp at hs; subst hs; rfl
    | cons t r =>
      rw [labelsDeep_cons_cons]
      simp only [List.length_cons, List.getElem?_cons_succ]
      apply ih
      simpa [List.getLast?_cons_cons] using hs

/-- in a linked hierarchy column `l+1` is `labels_a` of layer `l`, for every layer -/
theorem labelsDeep_getElem?_labelsA {layers : List (SMapState Wt)} (h : DeepInv layers) (l : Nat)
    (s : SMapState Wt) (hs : layers[l]? = some s) : (labelsDeep layers)[l + 1]? = some s.a.labels := by
  by_cases hl : l + 1 < layers.length
  · obtain ⟨t, ht⟩ : ∃ t, layers[l + 1]? = some t := ⟨layers[l + 1], List.getElem?_eq_getElem hl⟩
    rw [labelsDeep_getElem?_labelsB layers (l + 1) t ht, deepInv_link h hs ht]
  · have hlt : l < layers.length := (List.getElem?_eq_some_iff.mp hs).1
    have e : l + 1 = layers.length := by omega
    rw [e]
    apply labelsDeep_getElem?_last
    rw [List.getLast?_eq_getElem?]
    have : layers.length - 1 = l := by omega
    rw [this]; exact hs

/-- **Column link.**  Column `l` is the image of column `l+1` under the map of layer `l`. -/
theorem labelsDeep_link {layers : List (SMapState Wt)} (h : DeepInv layers) (l : Nat)
    (s : SMapState Wt) (hs : layers[l]? = some s) :
    (labelsDeep layers)[l + 1]? = some s.a.labels ∧ (labelsDeep layers)[l]? = some s.labelsB ∧
      mapA2B s.map s.a.labels = s.labelsB.map some :=
  ⟨labelsDeep_getElem?_labelsA h l s hs, labelsDeep_getElem?_labelsB layers l s hs,
    mapInv_mapA2B (deepInv_getElem? h hs).1⟩

/-! ### `map_deep` -/

/-- `map_deep(l, column l+1)` is the top column -/
theorem mapDeepNat_column {layers : List (SMapState Wt)} (h : DeepInv layers) (l : Nat)
    (s : SMapState Wt) (hs : layers[l]? = some s) (top : SMapState Wt) (htop : layers[0]? = some top) :
    mapDeepNat layers l s.a.labels = some top.labelsB := by
  induction l generalizing s with
  | zero =>
    rw [hs] at htop; cases htop
    simp only [mapDeepNat, hs, Option.bind_some]
    exact (mapA2B?_eq_some_iff _ _ _).mpr (mapInv_mapA2B (deepInv_getElem? h hs).1)
  | succ l ih =>
    have hlt : l + 1 < layers.length := (List.getElem?_eq_some_iff.mp hs).1
    obtain ⟨t, ht⟩ : ∃ t, layers[l]? = some t := ⟨layers[l]'(by omega), List.getElem?_eq_getElem (by omega)⟩
    simp only [mapDeepNat, hs, Option.bind_some]
    rw [(mapA2B?_eq_some_iff _ _ _).mpr (mapInv_mapA2B (deepInv_getElem? h hs).1), Option.bind_some,
      deepInv_link h ht hs]
    exact ih t ht

theorem forall2_getElem? {β γ : Type} {R : β → γ → Prop} {l₁ : List β} {l₂ : List γ}
    (h : List.Forall₂ R l₁ l₂) (i : Nat) (a : β) (b : γ) (ha : l₁[i]? = some a) (hb : l₂[i]? = some b) :
    R a b := by
  induction h generalizing i with
  | nil => simp at ha
  | cons hab _ ih =>
    cases i with
    | zero => simp at ha hb; subst ha hb; exact hab
    | succ i => simp at ha hb; exact ih i ha hb

/-- `map_deep(l, c)` for a scalar label `c` carried by sample `i` at level `l+1`
is the top-level label of that sample -/
theorem mapDeepNat_label {layers : List (SMapState Wt)} (h : DeepInv layers) (l : Nat)
    (s : SMapState Wt) (hs : layers[l]? = some s) (top : SMapState Wt) (htop : layers[0]? = some top)
    (i c y : Nat) (hc : s.a.labels[i]? = some c) (hy : top.labelsB[i]? = some y) :
    mapDeepNat layers l [c] = some [y] := by
  induction l generalizing s c with
  | zero =>
    rw [hs] at htop; cases htop
    have := forall2_getElem? (deepInv_getElem? h hs).1.agree i c y hc hy
    simp [mapDeepNat, hs, mapA2B?, this]
  | succ l ih =>
    have hlt : l + 1 < layers.length := (List.getElem?_eq_some_iff.mp hs).1
    obtain ⟨t, ht⟩ : ∃ t, layers[l]? = some t := ⟨layers[l]'(by omega), List.getElem?_eq_getElem (by omega)⟩
    have hagree := (deepInv_getElem? h hs).1.agree
    have hlen := hagree.length_eq
    have hi : i < s.a.labels.length := (List.getElem?_eq_some_iff.mp hc).1
    obtain ⟨b, hb⟩ : ∃ b, s.labelsB[i]? = some b := ⟨s.labelsB[i]'(by omega), List.getElem?_eq_getElem (by omega)⟩
    have := forall2_getElem? hagree i c b hc hb
    simp only [mapDeepNat, hs, Option.bind_some, mapA2B?, List.mapM_cons, List.mapM_nil, this]
    simp only [Option.pure_def, Option.bind_eq_bind, Option.bind_some]
    rw [deepInv_link h ht hs] at hb
    exact ih t ht b hb

/-- negative levels count from the last layer -/
theorem mapDeep_neg (layers : List (SMapState Wt)) (k : Nat) (hk : 0 < k) (hkl : k ≤ layers.length)
    (ya : List Nat) : mapDeep layers (-(k : Int)) ya = mapDeepNat layers (layers.length - k) ya := by
  unfold mapDeep
  have h1 : (-(k : Int)) < 0 := by omega
  simp only [h1, if_true]
  have h2 : ¬ (-(k : Int) + (layers.length : Int) < 0) := by omega
  simp only [h2, if_false]
  congr 1
  omega

theorem mapDeep_nonneg (layers : List (SMapState Wt)) (l : Nat) (ya : List Nat) :
    mapDeep layers (l : Int) ya = mapDeepNat layers l ya := by
  unfold mapDeep
  have h1 : ¬ ((l : Int) < 0) := by omega
  simp [h1]


/-! ### `predict` -/

/-- mapping labels that occur among a layer's A-side labels never fails, and
yields targets that layer has stored -/
theorem mapA2B?_of_mem {s : SMapState Wt} (h : LayerOK s) (p : List Nat)
    (hp : ∀ c ∈ p, c ∈ s.a.labels) :
    ∃ q, mapA2B? s.map p = some q ∧ q.length = p.length ∧ ∀ c ∈ q, c ∈ s.labelsB := by
  induction p with
  | nil => exact ⟨[], by simp [mapA2B?], rfl, by simp⟩
  | cons a p ih =>
    obtain ⟨q, hq, hl, hm⟩ := ih (fun c hc => hp c (by simp [hc]))
    have ha := hp a (by simp)
    have hlt := h.2.labels_lt a ha
    obtain ⟨y, hy⟩ := h.1.total a hlt
    refine ⟨y :: q, ?_, by simp [hl], ?_⟩
    · unfold mapA2B? at hq ⊢
      simp [List.mapM_cons, hy, hq]
    · intro c hc
      simp only [List.mem_cons] at hc
      rcases hc with rfl | hc
      · exact map_values_seen h.1 h.2 a c hlt hy
      · exact hm c hc

/-- What `mapUp ss y` returns: one vector per layer plus `y`, consecutive vectors
linked by the layer maps, every label one that the layer has stored. -/
structure UpSpec (ss : List (SMapState Wt)) (y : List Nat) (cols : List (List Nat)) : Prop where
  len : cols.length = ss.length + 1
  last : cols[ss.length]? = some y
  width : ∀ p ∈ cols, p.length = y.length
  linked : ∀ (l : Nat) (s : SMapState Wt), ss[l]? = some s → ∃ pf pc, cols[l + 1]? = some pf ∧ cols[l]? = some pc ∧
    mapA2B s.map pf = pc.map some
  seen : ∀ (l : Nat) (s : SMapState Wt) (p : List Nat), ss[l]? = some s → cols[l]? = some p → ∀ c ∈ p, c ∈ s.labelsB

theorem mapUp_spec (ss : List (SMapState Wt)) (y : List Nat) (hinv : DeepInv ss)
    (hy : ∀ t, ss.getLast? = some t → ∀ c ∈ y, c ∈ t.a.labels) :
    ∃ cols, mapUp ss y = some cols ∧ UpSpec ss y cols := by
  induction ss with
  | nil =>
    refine ⟨[y], rfl, ⟨rfl, rfl, by simp, ?_, ?_⟩⟩
    · intro l s hs; simp at hs
    · intro l s p hs; simp at hs
  | cons s ss ih =>
    have hy' : ∀ t, ss.getLast? = some t → ∀ c ∈ y, c ∈ t.a.labels := by
      intro t ht
      apply hy
      cases ss with
      | nil => simp at ht
      | cons t0 r => simpa [List.getLast?_cons_cons] using ht
    obtain ⟨cols, hc, sp⟩ := ih hinv.2.2 hy'
    -- the head of `cols` consists of labels among `s.a.labels`
    obtain ⟨hd, tl, rfl⟩ : ∃ hd tl, cols = hd :: tl := by
      cases cols with
      | nil => have := sp.len; simp at this
      | cons a b => exact ⟨a, b, rfl⟩
    have hhd : ∀ c ∈ hd, c ∈ s.a.labels := by
      cases ss with
      | nil =>
        have := sp.last
        simp at this
        subst this
        exact hy s (by simp)
      | cons t r =>
        have hlink := hinv.2.1 t (by simp)
        rw [← hlink]
        exact sp.seen 0 t hd (by simp) (by simp)
    obtain ⟨q, hq, hql, hqm⟩ := mapA2B?_of_mem hinv.1 hd hhd
    refine ⟨q :: hd :: tl, ?_, ⟨?_, ?_, ?_, ?_, ?_⟩⟩
    · simp [mapUp, hc, hq]
    · simp [sp.len]
    · simpa using sp.last
    · intro p hp
      simp only [List.mem_cons] at hp
      rcases hp with rfl | hp
      · rw [hql]; exact sp.width hd (by simp)
      · exact sp.width p (by simpa using hp)
    · intro l t ht
      cases l with
      | zero =>
        simp at ht; subst ht
        exact ⟨hd, q, by simp, by simp, (mapA2B?_eq_some_iff _ _ _).mp hq⟩
      | succ l =>
        simp only [List.getElem?_cons_succ] at ht ⊢
        exact sp.linked l t ht
    · intro l t p ht hp
      cases l with
      | zero =>
        simp at ht hp; subst ht hp
        exact hqm
      | succ l =>
        simp only [List.getElem?_cons_succ] at ht hp
        exact sp.seen l t p ht hp

theorem deepInv_append_singleton (init : List (SMapState Wt)) (last : SMapState Wt)
    (h : DeepInv (init ++ [last])) :
    DeepInv init ∧ LayerOK last ∧ (∀ t, init.getLast? = some t → last.labelsB = t.a.labels) := by
  induction init with
  | nil => exact ⟨trivial, h.1, by simp⟩
  | cons s r ih =>
    obtain ⟨h1, h2, h3⟩ := h
    obtain ⟨i1, i2, i3⟩ := ih h3
    refine ⟨⟨h1, ?_, i1⟩, i2, ?_⟩
    · intro t ht
      apply h2
      cases r with
      | nil => simp at ht
      | cons a b => simpa using ht
    · intro t ht
      cases r with
      | nil =>
        simp at ht; subst ht
        exact h2 last (by simp)
      | cons a b =>
        apply i3
        simpa [List.getLast?_cons_cons] using ht

/-- row-wise `predict_ab` of a layer in good standing with at least one category -/
theorem predictAB_spec (K : Kernel X Wt α μ) {s : SMapState Wt} (h : LayerOK s) (hne : s.a.W ≠ [])
    (xs : List X) :
    ∃ ab, xs.mapM (smapStepPred K s) = some ab ∧ ab.length = xs.length ∧
      (∀ c ∈ ab.map (·.1), c ∈ s.a.labels) ∧ (∀ y ∈ ab.map (·.2), y ∈ s.labelsB) ∧
      mapA2B s.map (ab.map (·.1)) = (ab.map (·.2)).map some := by
  induction xs with
  | nil => exact ⟨[], rfl, rfl, by simp, by simp, rfl⟩
  | cons x xs ih =>
    obtain ⟨ab, h1, h2, h3, h4, h5⟩ := ih
    obtain ⟨c, y, hc, hm, hp, hy⟩ := smapStepPred_spec K h.1 h.2 x hne
    have hlt := stepPred_lt K s.a.W x c hc
    refine ⟨(c, y) :: ab, by simp [List.mapM_cons, hp, h1], by simp [h2], ?_, ?_, ?_⟩
    · intro c' hc'
      simp only [List.map_cons, List.mem_cons] at hc'
      rcases hc' with rfl | hc'
      · exact h.2.all_used _ hlt
      · exact h3 c' hc'
    · intro y' hy'
      simp only [List.map_cons, List.mem_cons] at hy'
      rcases hy' with rfl | hy'
      · exact hy
      · exact h4 y' hy'
    · simp only [mapA2B, List.map_cons, hm] at h5 ⊢
      rw [h5]

/-- **predict.**  In a hierarchy in good standing whose last module has a
category, `predict` succeeds and returns `n_layers + 1` vectors, one label per
query each, consecutive levels linked by the layer maps, every predicted label at
level `l` occurring in column `l` of the training labels. -/
theorem deepPredict_spec (K : Kernel X Wt α μ) {layers : List (SMapState Wt)} (h : DeepInv layers)
    (last : SMapState Wt) (hlast : layers.getLast? = some last) (hne : last.a.W ≠ []) (xs : List X) :
    ∃ cols, deepPredict K layers xs = some cols ∧ cols.length = layers.length + 1 ∧
      (∀ p ∈ cols, p.length = xs.length) ∧
      (∀ (l : Nat) (s : SMapState Wt), layers[l]? = some s → ∃ pf pc, cols[l + 1]? = some pf ∧ cols[l]? = some pc ∧
        mapA2B s.map pf = pc.map some) ∧
      (∀ (l : Nat) (p : List Nat), cols[l]? = some p → ∃ tc, (labelsDeep layers)[l]? = some tc ∧ ∀ c ∈ p, c ∈ tc) := by
  have hsplit : layers = layers.dropLast ++ [last] := by
    have := List.dropLast_append_getLast? last hlast
    exact this.symm
  have hinv' := h
  rw [hsplit] at hinv'
  obtain ⟨hinit, hok, hlk⟩ := deepInv_append_singleton _ _ hinv'
  obtain ⟨ab, hab, habl, hA, hB, hmap⟩ := predictAB_spec K hok hne xs
  have hy : ∀ t, layers.dropLast.getLast? = some t → ∀ c ∈ ab.map (·.2), c ∈ t.a.labels := by
    intro t ht c hc
    rw [← hlk t ht]; exact hB c hc
  obtain ⟨cols, hcols, sp⟩ := mapUp_spec layers.dropLast (ab.map (·.2)) hinit hy
  have hlen : layers.length = layers.dropLast.length + 1 := by
    conv_lhs => rw [hsplit]
    simp
  refine ⟨cols ++ [ab.map (·.1)], ?_, ?_, ?_, ?_, ?_⟩
  · simp [deepPredict, hlast, hab, hcols]
  · simp only [List.length_append, List.length_singleton, sp.len]; omega
  · intro p hp
    simp only [List.mem_append, List.mem_singleton] at hp
    rcases hp with hp | rfl
    · rw [sp.width p hp]; simp [habl]
    · simp [habl]
  · intro l s hs
    rw [hsplit] at hs
    by_cases hl : l < layers.dropLast.length
    · rw [List.getElem?_append_left hl] at hs
      obtain ⟨pf, pc, h1, h2, h3⟩ := sp.linked l s hs
      refine ⟨pf, pc, ?_, ?_, h3⟩
      · rw [List.getElem?_append_left (by rw [sp.len]; omega)]; exact h1
      · rw [List.getElem?_append_left (by rw [sp.len]; omega)]; exact h2
    · have hl' : l = layers.dropLast.length := by
        have := (List.getElem?_eq_some_iff.mp hs).1
        simp at this; omega
      subst hl'
      simp at hs; subst hs
      refine ⟨ab.map (·.1), ab.map (·.2), ?_, ?_, hmap⟩
      · rw [List.getElem?_append_right (by rw [sp.len])]; simp [sp.len]
      · rw [List.getElem?_append_left (by rw [sp.len]; omega)]; exact sp.last
  · intro l p hp
    by_cases hl : l < layers.dropLast.length
    · rw [List.getElem?_append_left (by rw [sp.len]; omega)] at hp
      obtain ⟨s, hs⟩ : ∃ s, layers.dropLast[l]? = some s := ⟨_, List.getElem?_eq_getElem hl⟩
      have hs' : layers[l]? = some s := by
        rw [hsplit, List.getElem?_append_left hl]; exact hs
      exact ⟨s.labelsB, labelsDeep_getElem?_labelsB layers l s hs', sp.seen l s p hs hp⟩
    · by_cases hl2 : l = layers.dropLast.length
      · subst hl2
        rw [List.getElem?_append_left (by rw [sp.len]; omega), sp.last] at hp
        cases hp
        have hs' : layers[layers.dropLast.length]? = some last := by
          conv_lhs => rw [hsplit]
          simp
        exact ⟨last.labelsB, labelsDeep_getElem?_labelsB layers _ last hs', hB⟩
      · have hl3 : l = layers.length := by
          have := (List.getElem?_eq_some_iff.mp hp).1
          simp [sp.len] at this; omega
        subst hl3
        rw [List.getElem?_append_right (by rw [sp.len]; omega)] at hp
        have : layers.length - cols.length = 0 := by rw [sp.len]; omega
        rw [this] at hp
        simp at hp; subst hp
        exact ⟨last.a.labels, labelsDeep_getElem?_last layers last hlast, hA⟩


/-! ### unsupervised hierarchies: an ARTMAP on top of the chain -/

/-- `labels_` of a bare module only grows, by one per presented sample -/
theorem partialFit_labels_append (K : Kernel X Wt α μ) (cfg : SearchCfg μ θ) (th0 : θ)
    (veto : ArtState Wt → X → Nat → Bool) (s : ArtState Wt) (xs : List X) :
    ∃ t, (partialFit K cfg th0 veto s xs).labels = s.labels ++ t ∧ t.length = xs.length := by
  induction xs generalizing s with
  | nil => exact ⟨[], by simp [partialFit], rfl⟩
  | cons x xs ih =>
    obtain ⟨t, ht, hlen⟩ := ih (trainStep K cfg th0 veto s x)
    have hstep : ∃ c, (trainStep K cfg th0 veto s x).labels = s.labels ++ [c] := by
      obtain ⟨_, hl, _⟩ := stepFit_frame K cfg th0 (veto s x) s x
      exact ⟨(stepFit K cfg th0 (veto s x) s x).2, by simp [trainStep, hl]⟩
    obtain ⟨c, hc⟩ := hstep
    refine ⟨c :: t, ?_, by simp [hlen]⟩
    simp only [partialFit, List.foldl_cons] at ht ⊢
    rw [ht, hc]; simp

/-- the B-side labels of one ARTMAP `partial_fit` batch -/
theorem artmap_newB (KB : Kernel X Wt α μ) (cfgB : SearchCfg μ θ) (thB : θ) (b : ArtState Wt) (ys : List X) :
    ∃ t, (partialFit KB cfgB thB noVeto b ys).labels = b.labels ++ t ∧ t.length = ys.length ∧
      (partialFit KB cfgB thB noVeto b ys).labels.drop b.labels.length = t := by
  obtain ⟨t, ht, hl⟩ := partialFit_labels_append KB cfgB thB noVeto b ys
  exact ⟨t, ht, hl, by rw [ht]; simp⟩

theorem artmapPartialFit_s (KA KB : Kernel X Wt α μ) (cfgA cfgB : SearchCfg μ θ) (thA thB : θ)
    (st : ArtmapState Wt Wt) (xs ys : List X) :
    (artmapPartialFit KA KB cfgA cfgB thA thB st xs ys).s =
      smapPartialFit KA cfgA thA st.s
        (xs.zip ((partialFit KB cfgB thB noVeto st.b ys).labels.drop st.b.labels.length)) := rfl

/-- ARTMAP: two `partial_fit` batches equal one (as `Art.C06.artmap_two_batches`). -/
theorem artmapPartialFit_append (KA KB : Kernel X Wt α μ) (cfgA cfgB : SearchCfg μ θ) (thA thB : θ)
    (st : ArtmapState Wt Wt) (xs₁ xs₂ ys₁ ys₂ : List X) (h₁ : xs₁.length = ys₁.length) :
    artmapPartialFit KA KB cfgA cfgB thA thB
      (artmapPartialFit KA KB cfgA cfgB thA thB st xs₁ ys₁) xs₂ ys₂ =
    artmapPartialFit KA KB cfgA cfgB thA thB st (xs₁ ++ xs₂) (ys₁ ++ ys₂) := by
  unfold artmapPartialFit
  simp only
  have hb := partialFit_append KB cfgB thB noVeto st.b ys₁ ys₂
  obtain ⟨t₁, ht₁, hlen₁⟩ := partialFit_labels_append KB cfgB thB noVeto st.b ys₁
  obtain ⟨t₂, ht₂, hlen₂⟩ := partialFit_labels_append KB cfgB thB noVeto
    (partialFit KB cfgB thB noVeto st.b ys₁) ys₂
  rw [hb]
  congr 1
  rw [ht₂, ht₁]
  have e1 : List.drop st.b.labels.length (st.b.labels ++ t₁ ++ t₂) = t₁ ++ t₂ := by
    rw [List.append_assoc]; simp
  have e2 : List.drop (st.b.labels ++ t₁).length (st.b.labels ++ t₁ ++ t₂) = t₂ := by simp
  have e3 : List.drop st.b.labels.length (st.b.labels ++ t₁) = t₁ := by simp
  rw [e1, e2, e3]
  have hz : (xs₁ ++ xs₂).zip (t₁ ++ t₂) = xs₁.zip t₁ ++ xs₂.zip t₂ := List.zip_append (by omega)
  rw [hz, smapPartialFit_append]

/-- Standing of an unsupervised hierarchy. -/
structure UnsupInv (d : DeepUnsup Wt) : Prop where
  chain : DeepInv d.layers
  /-- `labels_` stored by the ARTMAP layer are `module_b.labels_` -/
  top_labels : d.top.s.labelsB = d.top.b.labels
  b_ok : Consistent d.top.b

/-- the layers of an unsupervised `fit` are the supervised chain on `modules[1:]`,
supervised by the B-side clustering of `X[0]` -/
theorem deepFitUnsup_layers (L0 L1 : Level X Wt α μ θ) (Ls : List (Level X Wt α μ θ))
    (X0 X1 : List X) (Xs : List (List X)) :
    ∃ d, deepFitUnsup (L0 :: L1 :: Ls) (X0 :: X1 :: Xs) = some d ∧
      d.top.b = fit L0.K L0.cfg L0.th noVeto {} X0 ∧
      d.layers = chainFit (L1 :: Ls) (X1 :: Xs) (fit L0.K L0.cfg L0.th noVeto {} X0).labels :=
  ⟨_, rfl, rfl, rfl⟩

theorem deepFitUnsup_inv (L0 L1 : Level X Wt α μ θ) (Ls : List (Level X Wt α μ θ))
    (X0 X1 : List X) (Xs : List (List X)) (hX : ∀ xs ∈ X1 :: Xs, xs.length = X0.length) :
    ∃ d, deepFitUnsup (L0 :: L1 :: Ls) (X0 :: X1 :: Xs) = some d ∧ UnsupInv d := by
  obtain ⟨d, hd, hb, hl⟩ := deepFitUnsup_layers L0 L1 Ls X0 X1 Xs
  have hbl : (fit L0.K L0.cfg L0.th noVeto {} X0).labels.length = X0.length := by
    have := partialFit_labels_length L0.K L0.cfg L0.th noVeto {} X0
    simpa [fit] using this
  refine ⟨d, hd, ⟨?_, ?_, ?_⟩⟩
  · rw [hl]
    exact chainFit_inv X0.length _ _ _ hX (by omega)
  · have : d.layers.head? = some d.top.s := rfl
    rw [hl] at this
    simp only [chainFit, List.head?_cons, Option.some.injEq] at this
    rw [← this, hb]
    have hlb := smapPartialFit_labelsB L1.K L1.cfg L1.th ({} : SMapState Wt)
      (X1.zip (fit L0.K L0.cfg L0.th noVeto {} X0).labels)
    simp only [smapFit]
    rw [hlb, map_snd_zip_of_length _ _ (by rw [hbl, hX X1 (by simp)])]
    rfl
  · rw [hb]; exact fit_consistent _ _ _ _ _ _

/-- fresh unsupervised layers -/
def freshUnsup (k : Nat) : DeepUnsup Wt := { top := {}, rest := List.replicate k {} }

theorem unsupInv_fresh (k : Nat) : UnsupInv (freshUnsup k : DeepUnsup Wt) :=
  ⟨deepInv_replicate (k + 1), rfl, consistent_empty⟩

/-- the layers after an unsupervised `partial_fit` are the supervised chain step on
`modules[1:]`, supervised by the B-side labels of the batch -/
theorem deepPartialFitUnsup_layers (L0 L1 : Level X Wt α μ θ) (Ls : List (Level X Wt α μ θ))
    (st : Option (DeepUnsup Wt)) (X0 X1 : List X) (Xs : List (List X)) :
    ∃ d', deepPartialFitUnsup (L0 :: L1 :: Ls) st (X0 :: X1 :: Xs) = some d' ∧
      d'.top.b = partialFit L0.K L0.cfg L0.th noVeto (st.getD (freshUnsup Ls.length)).top.b X0 ∧
      d'.layers = chainPartialFit X0.length (L1 :: Ls) (st.getD (freshUnsup Ls.length)).layers (X1 :: Xs)
        ((partialFit L0.K L0.cfg L0.th noVeto (st.getD (freshUnsup Ls.length)).top.b X0).labels.drop
          (st.getD (freshUnsup Ls.length)).top.b.labels.length) :=
  ⟨_, rfl, rfl, rfl⟩

theorem deepPartialFitUnsup_inv (L0 L1 : Level X Wt α μ θ) (Ls : List (Level X Wt α μ θ))
    (st : Option (DeepUnsup Wt)) (X0 X1 : List X) (Xs : List (List X))
    (hst : ∀ d, st = some d → UnsupInv d) (hX : ∀ xs ∈ X1 :: Xs, xs.length = X0.length) :
    ∃ d', deepPartialFitUnsup (L0 :: L1 :: Ls) st (X0 :: X1 :: Xs) = some d' ∧ UnsupInv d' := by
  obtain ⟨d', hd', hb, hl⟩ := deepPartialFitUnsup_layers L0 L1 Ls st X0 X1 Xs
  have hd : UnsupInv (st.getD (freshUnsup Ls.length)) := by
    cases st with
    | none => exact unsupInv_fresh _
    | some d => exact hst d rfl
  generalize st.getD (freshUnsup Ls.length) = d at hb hl hd
  obtain ⟨t, ht, htl, hdrop⟩ := artmap_newB L0.K L0.cfg L0.th d.top.b X0
  rw [hdrop] at hl
  refine ⟨d', hd', ⟨?_, ?_, ?_⟩⟩
  · rw [hl]
    exact chainPartialFit_inv X0.length _ _ _ _ hd.chain hX (by omega)
  · have : d'.layers.head? = some d'.top.s := rfl
    rw [hl] at this
    have e : d.layers = d.top.s :: d.rest := rfl
    rw [e] at this
    simp only [chainPartialFit, List.head?_cons, Option.some.injEq] at this
    rw [← this, hb, smapPartialFit_labelsB, hd.top_labels, ht,
      map_snd_zip_of_length _ _ (by rw [htl, hX X1 (by simp)])]
  · rw [hb]; exact partialFit_consistent _ _ _ _ _ _ hd.b_ok

/-- Unsupervised: two `partial_fit` batches equal one batch of the concatenated data. -/
theorem deepPartialFitUnsup_two_batches (L0 L1 : Level X Wt α μ θ) (Ls : List (Level X Wt α μ θ))
    (st : Option (DeepUnsup Wt)) (X0 X1 Y0 Y1 : List X) (Xs Ys : List (List X))
    (hX : ∀ xs ∈ X1 :: Xs, xs.length = X0.length) (hY : ∀ xs ∈ Y1 :: Ys, xs.length = Y0.length) :
    deepPartialFitUnsup (L0 :: L1 :: Ls)
      (deepPartialFitUnsup (L0 :: L1 :: Ls) st (X0 :: X1 :: Xs)) (Y0 :: Y1 :: Ys) =
    deepPartialFitUnsup (L0 :: L1 :: Ls) st (List.zipWith (· ++ ·) (X0 :: X1 :: Xs) (Y0 :: Y1 :: Ys)) := by
  simp only [deepPartialFitUnsup, List.zipWith_cons_cons, Option.getD_some, List.length_append]
  generalize st.getD { top := {}, rest := List.replicate Ls.length {} } = d
  have hx1 : X1.length = X0.length := hX X1 (by simp)
  have hy1 : Y1.length = Y0.length := hY Y1 (by simp)
  have hX' : ∀ xs ∈ Xs, xs.length = X0.length := fun xs h => hX xs (by simp [h])
  have hY' : ∀ xs ∈ Ys, xs.length = Y0.length := fun xs h => hY xs (by simp [h])
  have htop := artmapPartialFit_append L1.K L0.K L1.cfg L0.cfg L1.th L0.th d.top X1 Y1 X0 Y0 hx1
  rw [← htop]
  congr 2
  -- A-side labels of the ARTMAP layer after batch 1 and batch 2
  obtain ⟨b₁, hb₁, hbl₁, hdrop₁⟩ := artmap_newB L0.K L0.cfg L0.th d.top.b X0
  obtain ⟨b₂, hb₂, hbl₂, hdrop₂⟩ := artmap_newB L0.K L0.cfg L0.th
    (artmapPartialFit L1.K L0.K L1.cfg L0.cfg L1.th L0.th d.top X1 X0).b Y0
  have es₁ : (artmapPartialFit L1.K L0.K L1.cfg L0.cfg L1.th L0.th d.top X1 X0).s =
      smapPartialFit L1.K L1.cfg L1.th d.top.s (X1.zip b₁) := by
    rw [artmapPartialFit_s, hdrop₁]
  have es₂ : (artmapPartialFit L1.K L0.K L1.cfg L0.cfg L1.th L0.th
        (artmapPartialFit L1.K L0.K L1.cfg L0.cfg L1.th L0.th d.top X1 X0) Y1 Y0).s =
      smapPartialFit L1.K L1.cfg L1.th (artmapPartialFit L1.K L0.K L1.cfg L0.cfg L1.th L0.th d.top X1 X0).s
        (Y1.zip b₂) := by
    rw [artmapPartialFit_s, hdrop₂]
  obtain ⟨t₁, ht₁, hl₁⟩ := smapPartialFit_labelsA L1.K L1.cfg L1.th d.top.s (X1.zip b₁)
  obtain ⟨t₂, ht₂, hl₂⟩ := smapPartialFit_labelsA L1.K L1.cfg L1.th
    (artmapPartialFit L1.K L0.K L1.cfg L0.cfg L1.th L0.th d.top X1 X0).s (Y1.zip b₂)
  have hn₁ : t₁.length = X0.length := by rw [hl₁, List.length_zip]; omega
  have hn₂ : t₂.length = Y0.length := by rw [hl₂, List.length_zip]; omega
  rw [← es₂] at ht₂
  rw [← es₁] at ht₁
  have e12 : (artmapPartialFit L1.K L0.K L1.cfg L0.cfg L1.th L0.th
        (artmapPartialFit L1.K L0.K L1.cfg L0.cfg L1.th L0.th d.top X1 X0) Y1 Y0).s.a.labels
      = d.top.s.a.labels ++ (t₁ ++ t₂) := by rw [ht₂, ht₁, List.append_assoc]
  rw [ht₁, chainPartialFit_lastN X0.length Ls d.rest Xs _ t₁ hX' hn₁]
  rw [ht₂, chainPartialFit_lastN Y0.length Ls _ Ys _ t₂ hY' hn₂]
  rw [← ht₂, e12, chainPartialFit_lastN (X0.length + Y0.length) Ls d.rest _ _ (t₁ ++ t₂)
    (zipWith_append_length _ _ Xs Ys hX' hY') (by simp [hn₁, hn₂])]
  exact chainPartialFit_two_batches _ _ Ls d.rest Xs Ys t₁ t₂ hX' hY' hn₁ hn₂


/-! ### the supervised entry points -/

theorem chainPartialFit_length (n : Nat) (Ls : List (Level X Wt α μ θ)) (st : List (SMapState Wt))
    (Xs : List (List X)) (y : List Nat) :
    (chainPartialFit n Ls st Xs y).length = min Ls.length (min st.length Xs.length) := by
  induction Ls generalizing st Xs y with
  | nil => simp [chainPartialFit]
  | cons L Ls ih =>
    cases st with
    | nil => simp [chainPartialFit]
    | cons s ss =>
      cases Xs with
      | nil => simp [chainPartialFit]
      | cons xs Xs => simp only [chainPartialFit, List.length_cons, ih]; omega

theorem batchSize_eq (Xs : List (List X)) (m : Nat) (hne : Xs ≠ []) (h : ∀ xs ∈ Xs, xs.length = m) :
    batchSize Xs = m := by
  cases Xs with
  | nil => exact absurd rfl hne
  | cons xs Xs => simp [batchSize, h xs (by simp)]

/-- what `validate_data` asserts about one supervised call on `k` modules -/
def ValidBatch (k : Nat) (Xs : List (List X)) (y : List Nat) : Prop :=
  Xs.length = k ∧ ∀ xs ∈ Xs, xs.length = y.length

theorem deepPartialFitSup_inv (Ls : List (Level X Wt α μ θ)) (st : List (SMapState Wt))
    (Xs : List (List X)) (y : List Nat) (hinv : DeepInv st) (hX : ∀ xs ∈ Xs, xs.length = y.length) :
    DeepInv (deepPartialFitSup Ls st Xs y) := by
  unfold deepPartialFitSup
  have hst : DeepInv (if st.isEmpty then List.replicate Ls.length ({} : SMapState Wt) else st) := by
    split
    · exact deepInv_replicate _
    · exact hinv
  by_cases hne : Xs = []
  · subst hne
    have : ∀ st' : List (SMapState Wt),
        chainPartialFit (batchSize ([] : List (List X))) Ls st' [] y = [] := by
      intro st'; cases Ls <;> cases st' <;> simp [chainPartialFit]
    rw [this]; trivial
  · have hb := batchSize_eq Xs y.length hne hX
    rw [hb]
    exact chainPartialFit_inv _ Ls _ Xs y hst hX (Nat.le_refl _)

theorem deepFitSup_inv (Ls : List (Level X Wt α μ θ)) (Xs : List (List X)) (y : List Nat)
    (hX : ∀ xs ∈ Xs, xs.length = y.length) : DeepInv (deepFitSup Ls Xs y) :=
  chainFit_inv y.length Ls Xs y hX (Nat.le_refl _)

/-- `partial_fit` on an estimator without layers is `fit` -/
theorem deepPartialFitSup_fresh (Ls : List (Level X Wt α μ θ)) (Xs : List (List X)) (y : List Nat)
    (hX : ∀ xs ∈ Xs, xs.length = y.length) :
    deepPartialFitSup Ls [] Xs y = deepFitSup Ls Xs y := by
  unfold deepPartialFitSup deepFitSup
  simp only [List.isEmpty_nil, if_true]
  by_cases hne : Xs = []
  · subst hne
    cases Ls <;> simp [chainPartialFit, chainFit, List.replicate_succ]
  · rw [batchSize_eq Xs y.length hne hX]
    exact chainPartialFit_fresh _ Ls Xs y hX (Nat.le_refl _)

/-- Supervised: two `partial_fit` batches equal one batch of the concatenated data. -/
theorem deepPartialFitSup_two_batches (Ls : List (Level X Wt α μ θ)) (st : List (SMapState Wt))
    (Xs₁ Xs₂ : List (List X)) (y₁ y₂ : List Nat)
    (hst : st = [] ∨ st.length = Ls.length)
    (h₁ : ValidBatch Ls.length Xs₁ y₁) (h₂ : ValidBatch Ls.length Xs₂ y₂) :
    deepPartialFitSup Ls (deepPartialFitSup Ls st Xs₁ y₁) Xs₂ y₂ =
      deepPartialFitSup Ls st (List.zipWith (· ++ ·) Xs₁ Xs₂) (y₁ ++ y₂) := by
  cases Ls with
  | nil => simp [deepPartialFitSup, chainPartialFit]
  | cons L Ls =>
    obtain ⟨hl₁, hx₁⟩ := h₁
    obtain ⟨hl₂, hx₂⟩ := h₂
    have hne₁ : Xs₁ ≠ [] := by intro h; rw [h] at hl₁; simp at hl₁
    have hne₂ : Xs₂ ≠ [] := by intro h; rw [h] at hl₂; simp at hl₂
    have hz := zipWith_append_length y₁.length y₂.length Xs₁ Xs₂ hx₁ hx₂
    have hne₃ : List.zipWith (· ++ ·) Xs₁ Xs₂ ≠ [] := by
      cases Xs₁ with
      | nil => exact absurd rfl hne₁
      | cons a A => cases Xs₂ with
        | nil => exact absurd rfl hne₂
        | cons b B => simp
    unfold deepPartialFitSup
    rw [batchSize_eq Xs₁ _ hne₁ hx₁, batchSize_eq Xs₂ _ hne₂ hx₂, batchSize_eq _ _ hne₃ hz]
    -- the state the first call starts from
    generalize hst0 : (if st.isEmpty then List.replicate (L :: Ls).length ({} : SMapState Wt) else st) = st0
    have hlen0 : st0.length = (L :: Ls).length := by
      rw [← hst0]
      rcases hst with rfl | h
      · simp
      · split
        · simp
        · exact h
    have hmid : ¬ (chainPartialFit y₁.length (L :: Ls) st0 Xs₁ y₁).isEmpty = true := by
      have := chainPartialFit_length y₁.length (L :: Ls) st0 Xs₁ y₁
      rw [hlen0, hl₁] at this
      intro h
      rw [List.isEmpty_iff] at h
      rw [h] at this
      simp at this
    simp only [hmid]
    exact chainPartialFit_two_batches _ _ (L :: Ls) st0 Xs₁ Xs₂ y₁ y₂ hx₁ hx₂ rfl rfl


/-- unsupervised `partial_fit` on an estimator without layers is `fit` -/
theorem deepPartialFitUnsup_fresh (L0 L1 : Level X Wt α μ θ) (Ls : List (Level X Wt α μ θ))
    (X0 X1 : List X) (Xs : List (List X)) (hX : ∀ xs ∈ X1 :: Xs, xs.length = X0.length) :
    deepPartialFitUnsup (L0 :: L1 :: Ls) none (X0 :: X1 :: Xs) =
      deepFitUnsup (L0 :: L1 :: Ls) (X0 :: X1 :: Xs) := by
  simp only [deepPartialFitUnsup, deepFitUnsup, Option.getD_none]
  have etop : artmapPartialFit L1.K L0.K L1.cfg L0.cfg L1.th L0.th ({} : ArtmapState Wt Wt) X1 X0 =
      artmapFit L1.K L0.K L1.cfg L0.cfg L1.th L0.th {} X1 X0 := rfl
  rw [etop]
  congr 2
  have hX' : ∀ xs ∈ Xs, xs.length = X0.length := fun xs h => hX xs (by simp [h])
  have hbl : (fit L0.K L0.cfg L0.th noVeto {} X0).labels.length = X0.length := by
    have := partialFit_labels_length L0.K L0.cfg L0.th noVeto {} X0
    simpa [fit] using this
  obtain ⟨t, ht, htl⟩ := smapPartialFit_labelsA L1.K L1.cfg L1.th ({} : SMapState Wt)
    (X1.zip (fit L0.K L0.cfg L0.th noVeto {} X0).labels)
  have htn : t.length = X0.length := by
    rw [htl, List.length_zip, hbl, hX X1 (by simp)]; simp
  have e : (artmapFit L1.K L0.K L1.cfg L0.cfg L1.th L0.th ({} : ArtmapState Wt Wt) X1 X0).s.a.labels
      = [] ++ t := by
    rw [← ht]; rfl
  rw [e, chainPartialFit_lastN X0.length Ls _ Xs [] t hX' htn]
  exact chainPartialFit_fresh X0.length Ls Xs _ hX' (by simp [htn])

/-! ### counting categories -/

/-- in a consistent module the distinct labels are exactly the categories -/
theorem distinct_labels_eq_categories {a : ArtState Wt} (h : Consistent a) :
    a.labels.toFinset.card = a.W.length := by
  have : a.labels.toFinset = Finset.range a.W.length := by
    ext k
    simp only [List.mem_toFinset, Finset.mem_range]
    exact ⟨h.labels_lt k, h.all_used k⟩
  rw [this, Finset.card_range]

/-- a finer column comes with the layer that owns it -/
theorem labelsDeep_cols {layers : List (SMapState Wt)} (h : DeepInv layers) (l : Nat) (cf : List Nat)
    (hcf : (labelsDeep layers)[l + 1]? = some cf) :
    ∃ s, layers[l]? = some s ∧ cf = s.a.labels ∧ (labelsDeep layers)[l]? = some s.labelsB ∧
      mapA2B s.map cf = s.labelsB.map some := by
  have hne : layers ≠ [] := by
    intro e; rw [e] at hcf; simp [labelsDeep] at hcf
  have hlt : l + 1 < (labelsDeep layers).length := (List.getElem?_eq_some_iff.mp hcf).1
  rw [labelsDeep_length layers hne] at hlt
  obtain ⟨s, hs⟩ : ∃ s, layers[l]? = some s := ⟨layers[l]'(by omega), List.getElem?_eq_getElem (by omega)⟩
  obtain ⟨h1, h2, h3⟩ := labelsDeep_link h l s hs
  rw [h1] at hcf
  cases hcf
  exact ⟨s, hs, rfl, h2, h3⟩


/-! ### merging batches -/

/-- two aligned batches concatenated matrix by matrix -/
def mergeXs (Xs Ys : List (List X)) : List (List X) := List.zipWith (· ++ ·) Xs Ys

theorem validBatch_merge (k : Nat) (Xs₁ Xs₂ : List (List X)) (y₁ y₂ : List Nat)
    (h₁ : ValidBatch k Xs₁ y₁) (h₂ : ValidBatch k Xs₂ y₂) :
    ValidBatch k (mergeXs Xs₁ Xs₂) (y₁ ++ y₂) := by
  refine ⟨by simp [mergeXs, h₁.1, h₂.1], ?_⟩
  have := zipWith_append_length y₁.length y₂.length Xs₁ Xs₂ h₁.2 h₂.2
  simpa [mergeXs] using this

/-- what `validate_data` (and the assertion `n_modules >= 2`) demand of an
unsupervised call: at least two matrices, all with the same number of rows -/
def UnsupValid : List (List X) → Prop
  | X0 :: X1 :: Xs => ∀ xs ∈ X1 :: Xs, xs.length = X0.length
  | _ => False

theorem unsupValid_merge (Xs Ys : List (List X)) (hX : UnsupValid Xs) (hY : UnsupValid Ys) :
    UnsupValid (mergeXs Xs Ys) := by
  match Xs, Ys, hX, hY with
  | X0 :: X1 :: Xs, Y0 :: Y1 :: Ys, hX, hY =>
    simp only [mergeXs, List.zipWith_cons_cons, UnsupValid]
    intro xs hxs
    simp only [List.mem_cons] at hxs
    rcases hxs with rfl | hxs
    · simp [hX X1 (by simp), hY Y1 (by simp)]
    · have := zipWith_append_length X0.length Y0.length Xs Ys
        (fun xs h => hX xs (by simp [h])) (fun xs h => hY xs (by simp [h])) xs hxs
      simpa using this

theorem deepPartialFitUnsup_merge (L0 L1 : Level X Wt α μ θ) (Ls : List (Level X Wt α μ θ))
    (st : Option (DeepUnsup Wt)) (Xs Ys : List (List X)) (hX : UnsupValid Xs) (hY : UnsupValid Ys) :
    deepPartialFitUnsup (L0 :: L1 :: Ls) (deepPartialFitUnsup (L0 :: L1 :: Ls) st Xs) Ys =
      deepPartialFitUnsup (L0 :: L1 :: Ls) st (mergeXs Xs Ys) := by
  match Xs, Ys, hX, hY with
  | X0 :: X1 :: Xs, Y0 :: Y1 :: Ys, hX, hY =>
    exact deepPartialFitUnsup_two_batches L0 L1 Ls st X0 X1 Y0 Y1 Xs Ys hX hY

theorem deepPartialFitUnsup_fresh' (L0 L1 : Level X Wt α μ θ) (Ls : List (Level X Wt α μ θ))
    (Xs : List (List X)) (hX : UnsupValid Xs) :
    deepPartialFitUnsup (L0 :: L1 :: Ls) none Xs = deepFitUnsup (L0 :: L1 :: Ls) Xs := by
  match Xs, hX with
  | X0 :: X1 :: Xs, hX => exact deepPartialFitUnsup_fresh L0 L1 Ls X0 X1 Xs hX

theorem deepPartialFitSup_length (Ls : List (Level X Wt α μ θ)) (st : List (SMapState Wt))
    (Xs : List (List X)) (y : List Nat) (hst : st = [] ∨ st.length = Ls.length)
    (h : ValidBatch Ls.length Xs y) : (deepPartialFitSup Ls st Xs y).length = Ls.length := by
  unfold deepPartialFitSup
  rw [chainPartialFit_length, h.1]
  rcases hst with rfl | hl
  · simp
  · split
    · simp
    · rw [hl]; simp

end Art
