/-
ArtProofs.Map — SimpleARTMAP / ARTMAP: the category→class map is functional,
total on the A-side categories, never overwritten, and consistent with every
training label; for every kernel, mode, epsilon and stream.
-/
import ArtProofs.Fit
import ArtModel.ARTMAP

namespace Art

set_option linter.unusedSectionVars false

variable {X Wt α μ θ : Type} [LinearOrder α]

/-- The SimpleARTMAP invariant. -/
structure MapInv (s : SMapState Wt) : Prop where
  map_len : s.map.length = s.a.W.length
  total : ∀ c, c < s.a.W.length → ∃ y, mapGet s.map c = some y
  /-- mapping the stored A-side labels reproduces the supplied targets -/
  agree : List.Forall₂ (fun ca y => mapGet s.map ca = some y) s.a.labels s.labelsB

theorem mapInv_empty : MapInv ({} : SMapState Wt) where
  map_len := rfl
  total := by simp
  agree := List.Forall₂.nil

theorem forall2_append {β γ : Type} {R : β → γ → Prop} {l₁ : List β} {l₂ : List γ}
    {m₁ : List β} {m₂ : List γ} (h₁ : List.Forall₂ R l₁ l₂) (h₂ : List.Forall₂ R m₁ m₂) :
    List.Forall₂ R (l₁ ++ m₁) (l₂ ++ m₂) := by
  induction h₁ with
  | nil => simpa
  | cons hab _ ih => exact List.Forall₂.cons hab ih

theorem forall2_imp {β γ : Type} {R S : β → γ → Prop} {l₁ : List β} {l₂ : List γ}
    (h : List.Forall₂ R l₁ l₂) (hi : ∀ a b, R a b → S a b) : List.Forall₂ S l₁ l₂ := by
  induction h with
  | nil => exact List.Forall₂.nil
  | cons hab _ ih => exact List.Forall₂.cons (hi _ _ hab) ih

theorem forall2_map_eq {m : List (Option Nat)} {la lb : List Nat}
    (h : List.Forall₂ (fun ca y => mapGet m ca = some y) la lb) :
    la.map (mapGet m) = lb.map some := by
  induction h with
  | nil => rfl
  | cons hab _ ih => simp [hab, ih]

theorem mapGet_append_left {m : List (Option Nat)} {c : Nat} (h : c < m.length) (t : List (Option Nat)) :
    mapGet (m ++ t) c = mapGet m c := by
  simp [mapGet, List.getElem?_append_left h]

/-- One supervised step preserves the invariant and never overwrites the map. -/
theorem smapStep_inv (K : Kernel X Wt α μ) (cfg : SearchCfg μ θ) (th0 : θ)
    (s : SMapState Wt) (xy : X × Nat) (h : MapInv s) :
    MapInv (smapStep K cfg th0 s xy) ∧
    (∀ c y, mapGet s.map c = some y → mapGet (smapStep K cfg th0 s xy).map c = some y) ∧
    (∃ c, (smapStep K cfg th0 s xy).a.labels = s.a.labels ++ [c] ∧
      mapGet (smapStep K cfg th0 s xy).map c = some xy.2) := by
  obtain ⟨x, y⟩ := xy
  have hframe := stepFit_frame K cfg th0 (mapVeto s.map y) s.a x
  -- the winner, if any, is not vetoed
  have hveto : ∀ c, c < s.a.W.length → (stepFit K cfg th0 (mapVeto s.map y) s.a x).2 = c →
      mapVeto s.map y c = false := by
    intro c hc he
    unfold stepFit at he
    split at he
    · rename_i hemp
      simp [List.isEmpty_iff] at hemp
      simp [hemp] at hc
    · cases hw : (stepSearch K cfg th0 (mapVeto s.map y) s.a.W x).winner with
      | none =>
        rw [hw] at he
        simp [applyWinner] at he
        omega
      | some c' =>
        rw [hw] at he
        have hlt := stepSearch_winner_lt K cfg th0 _ s.a.W x c' hw
        have : (applyWinner K s.a x (some c')).2 = c' := by
          simp [applyWinner, List.getElem?_eq_getElem hlt]
        rw [this] at he
        subst he
        exact stepSearch_winner_not_vetoed K cfg th0 _ s.a.W x c' hw
  unfold smapStep
  generalize hr : stepFit K cfg th0 (mapVeto s.map y) s.a x = r at hframe hveto
  obtain ⟨a', c⟩ := r
  simp only at hframe hveto ⊢
  obtain ⟨_, hl, hcase⟩ := hframe
  rcases hcase with ⟨hlt, w, _, hW, _⟩ | ⟨he, hW, _⟩
  · -- resonance: c is mapped to y already, map unchanged
    obtain ⟨y', hy'⟩ := h.total c hlt
    have hv := hveto c hlt rfl
    have hyy : y' = y := by
      simp [mapVeto, hy'] at hv
      exact hv
    subst hyy
    have hcm : c < s.map.length := by rw [h.map_len]; exact hlt
    have hmap : mapSet s.map c y' = s.map := by
      unfold mapSet
      simp only [hcm, if_true]
      have : s.map[c]? = some (some y') := by
        simp only [mapGet] at hy'
        cases hh : s.map[c]? with
        | none => simp [hh] at hy'
        | some o => cases o with
          | none => simp [hh] at hy'
          | some z => simp [hh] at hy'; rw [hy']
      simp [this]
    rw [hmap]
    refine ⟨⟨?_, ?_, ?_⟩, fun _ _ hh => hh, c, by simp [hl], hy'⟩
    · simp [hW, h.map_len]
    · intro k hk
      simp only [hW, List.length_set] at hk
      exact h.total k hk
    · simp only [hl]
      exact forall2_append h.agree (List.Forall₂.cons hy' List.Forall₂.nil)
  · -- new category c = |W|
    subst he
    have hmap : mapSet s.map s.a.W.length y = s.map ++ [some y] := by
      unfold mapSet
      simp [h.map_len]
    rw [hmap]
    have hnew : mapGet (s.map ++ [some y]) s.a.W.length = some y := by
      simp [mapGet, ← h.map_len]
    have hmono : ∀ c y', mapGet s.map c = some y' → mapGet (s.map ++ [some y]) c = some y' := by
      intro c y' hc
      have hcl : c < s.map.length := by
        simp only [mapGet] at hc
        by_contra hge
        have : s.map[c]? = none := List.getElem?_eq_none (by omega)
        simp [this] at hc
      rw [mapGet_append_left hcl]; exact hc
    refine ⟨⟨?_, ?_, ?_⟩, hmono, s.a.W.length, by simp [hl], hnew⟩
    · simp [hW, h.map_len]
    · intro k hk
      simp only [hW, List.length_append, List.length_singleton] at hk
      by_cases e : k = s.a.W.length
      · exact ⟨y, e ▸ hnew⟩
      · obtain ⟨y', hy'⟩ := h.total k (by omega)
        exact ⟨y', hmono k y' hy'⟩
    · simp only [hl]
      exact forall2_append (forall2_imp h.agree (fun _ _ hh => hmono _ _ hh))
        (List.Forall₂.cons hnew List.Forall₂.nil)

theorem smapPartialFit_inv (K : Kernel X Wt α μ) (cfg : SearchCfg μ θ) (th0 : θ)
    (s : SMapState Wt) (xys : List (X × Nat)) (h : MapInv s) :
    MapInv (smapPartialFit K cfg th0 s xys) ∧
    (∀ c y, mapGet s.map c = some y → mapGet (smapPartialFit K cfg th0 s xys).map c = some y) := by
  unfold smapPartialFit
  induction xys generalizing s with
  | nil => exact ⟨h, fun _ _ hh => hh⟩
  | cons xy xys ih =>
    obtain ⟨h1, hm1, _⟩ := smapStep_inv K cfg th0 s xy h
    obtain ⟨h2, hm2⟩ := ih _ h1
    exact ⟨h2, fun c y hh => hm2 c y (hm1 c y hh)⟩

theorem smapFit_inv (K : Kernel X Wt α μ) (cfg : SearchCfg μ θ) (th0 : θ)
    (s : SMapState Wt) (xys : List (X × Nat)) : MapInv (smapFit K cfg th0 s xys) :=
  (smapPartialFit_inv K cfg th0 {} xys mapInv_empty).1

/-- forgetting the per-sample labels (what the start of a new epoch does) keeps the invariant -/
theorem mapInv_clear_labels {s : SMapState Wt} (h : MapInv s) :
    MapInv { s with a := { s.a with labels := [] }, labelsB := [] } where
  map_len := h.map_len
  total := h.total
  agree := List.Forall₂.nil

/-- **Any number of epochs**: after `fit(X, y, max_iter = k)` the map is total on the A-side
categories, was never overwritten, and maps the stored A-side labels (those of the last epoch) to
the targets. -/
theorem smapFitEpochs_inv (K : Kernel X Wt α μ) (cfg : SearchCfg μ θ) (th0 : θ) (epochs : Nat)
    (xys : List (X × Nat)) : MapInv (smapFitEpochs K cfg th0 epochs xys) := by
  unfold smapFitEpochs
  suffices h : ∀ (l : List Nat) (s : SMapState Wt), MapInv s →
      MapInv (l.foldl (fun s _ => smapPartialFit K cfg th0
        { s with a := { s.a with labels := [] }, labelsB := [] } xys) s) from h _ _ mapInv_empty
  intro l
  induction l with
  | nil => intro s hs; simpa
  | cons _ l ih =>
    intro s hs
    simp only [List.foldl_cons]
    exact ih _ (smapPartialFit_inv K cfg th0 _ xys (mapInv_clear_labels hs)).1

/-- `labelsB` is exactly the stream of supplied targets. -/
theorem smapPartialFit_labelsB (K : Kernel X Wt α μ) (cfg : SearchCfg μ θ) (th0 : θ)
    (s : SMapState Wt) (xys : List (X × Nat)) :
    (smapPartialFit K cfg th0 s xys).labelsB = s.labelsB ++ xys.map (·.2) := by
  unfold smapPartialFit
  induction xys generalizing s with
  | nil => simp
  | cons xy xys ih =>
    simp only [List.foldl_cons, List.map_cons]
    rw [ih]
    simp [smapStep]

/-- `map_a2b(labels_a) = labels_b`, as lists of options. -/
theorem mapInv_mapA2B {s : SMapState Wt} (h : MapInv s) :
    mapA2B s.map s.a.labels = s.labelsB.map some := by
  exact forall2_map_eq h.agree

end Art
