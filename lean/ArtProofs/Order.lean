/-
ArtProofs.Order — facts about `nanargmax` / `argmaxNp` / `argminFirst`
over an arbitrary linear order.
-/
import Mathlib.Order.Basic
import Mathlib.Order.Defs.LinearOrder
import ArtModel.Basic

namespace Art

variable {α : Type} [LinearOrder α]

/-- `k` is the first index holding the maximal non-NaN value `v` of `T`. -/
structure IsFirstMax (T : List (Option α)) (k : Nat) (v : α) : Prop where
  at_k : T[k]? = some (some v)
  ge_all : ∀ (j : Nat) (u : α), T[j]? = some (some u) → u ≤ v
  gt_before : ∀ (j : Nat) (u : α), j < k → T[j]? = some (some u) → u < v

theorem nanargmaxV_none {T : List (Option α)} :
    nanargmaxV T = none ↔ ∀ t ∈ T, t = none := by
  induction T with
  | nil => simp [nanargmaxV]
  | cons t ts ih =>
    cases t with
    | none =>
      simp only [nanargmaxV, Option.map_eq_none_iff, ih]
      simp
    | some v =>
      simp only [nanargmaxV]
      cases h : nanargmaxV ts with
      | none => simp
      | some kv =>
        obtain ⟨k, u⟩ := kv
        simp only
        split <;> simp

theorem nanargmaxV_spec {T : List (Option α)} {k : Nat} {v : α}
    (h : nanargmaxV T = some (k, v)) : IsFirstMax T k v := by
  induction T generalizing k v with
  | nil => simp [nanargmaxV] at h
  | cons t ts ih =>
    cases t with
    | none =>
      simp only [nanargmaxV, Option.map_eq_some_iff] at h
      obtain ⟨⟨k', v'⟩, hk, heq⟩ := h
      simp only [Prod.mk.injEq] at heq
      obtain ⟨rfl, rfl⟩ := heq
      have := ih hk
      refine ⟨by simpa using this.at_k, ?_, ?_⟩
      · intro j u hj
        cases j with
        | zero => simp at hj
        | succ j => exact this.ge_all j u (by simpa using hj)
      · intro j u hjk hj
        cases j with
        | zero => simp at hj
        | succ j => exact this.gt_before j u (by omega) (by simpa using hj)
    | some w =>
      simp only [nanargmaxV] at h
      cases hts : nanargmaxV ts with
      | none =>
        rw [hts] at h
        simp only [Option.some.injEq, Prod.mk.injEq] at h
        obtain ⟨rfl, rfl⟩ := h
        have hn := nanargmaxV_none.mp hts
        refine ⟨by simp, ?_, ?_⟩
        · intro j u hj
          cases j with
          | zero => simp at hj; exact le_of_eq hj.symm
          | succ j =>
            have : some u ∈ ts := List.mem_of_getElem? (by simpa using hj)
            exact absurd (hn _ this) (by simp)
        · intro j u hjk; omega
      | some kv =>
        obtain ⟨k', u'⟩ := kv
        rw [hts] at h
        have := ih hts
        simp only at h
        split at h
        · rename_i hlt
          simp only [Option.some.injEq, Prod.mk.injEq] at h
          obtain ⟨rfl, rfl⟩ := h
          refine ⟨by simpa using this.at_k, ?_, ?_⟩
          · intro j u hj
            cases j with
            | zero => simp at hj; exact hj ▸ le_of_lt hlt
            | succ j => exact this.ge_all j u (by simpa using hj)
          · intro j u hjk hj
            cases j with
            | zero => simp at hj; exact hj ▸ hlt
            | succ j => exact this.gt_before j u (by omega) (by simpa using hj)
        · rename_i hnlt
          simp only [Option.some.injEq, Prod.mk.injEq] at h
          obtain ⟨rfl, rfl⟩ := h
          refine ⟨by simp, ?_, ?_⟩
          · intro j u hj
            cases j with
            | zero => simp at hj; exact le_of_eq hj.symm
            | succ j =>
              exact le_trans (this.ge_all j u (by simpa using hj)) (not_lt.mp hnlt)
          · intro j u hjk; omega

/-- The first maximum is unique. -/
theorem IsFirstMax.unique {T : List (Option α)} {k k' : Nat} {v v' : α}
    (h : IsFirstMax T k v) (h' : IsFirstMax T k' v') : k = k' ∧ v = v' := by
  have hv : v = v' := le_antisymm (h'.ge_all _ _ h.at_k) (h.ge_all _ _ h'.at_k)
  subst hv
  refine ⟨?_, rfl⟩
  rcases Nat.lt_trichotomy k k' with hlt | heq | hgt
  · exact absurd (h'.gt_before _ _ hlt h.at_k) (lt_irrefl _)
  · exact heq
  · exact absurd (h.gt_before _ _ hgt h'.at_k) (lt_irrefl _)

theorem nanargmax_eq_some_iff {T : List (Option α)} {k : Nat} :
    nanargmax T = some k ↔ ∃ v, IsFirstMax T k v := by
  constructor
  · intro h
    simp only [nanargmax, Option.map_eq_some_iff] at h
    obtain ⟨⟨k', v⟩, hkv, rfl⟩ := h
    exact ⟨v, nanargmaxV_spec hkv⟩
  · rintro ⟨v, hv⟩
    cases h : nanargmaxV T with
    | none =>
      have := nanargmaxV_none.mp h _ (List.mem_of_getElem? hv.at_k)
      simp at this
    | some kv =>
      obtain ⟨k', v'⟩ := kv
      have := (nanargmaxV_spec h).unique hv
      simp [nanargmax, h, this.1]

theorem nanargmax_eq_none_iff {T : List (Option α)} :
    nanargmax T = none ↔ ∀ t ∈ T, t = none := by
  simp [nanargmax, nanargmaxV_none]

theorem nanargmax_lt_length {T : List (Option α)} {k : Nat} (h : nanargmax T = some k) :
    k < T.length := by
  obtain ⟨v, hv⟩ := nanargmax_eq_some_iff.mp h
  have := hv.at_k
  exact (List.getElem?_eq_some_iff.mp this).1

theorem nanargmax_isSome_at {T : List (Option α)} {k : Nat} (h : nanargmax T = some k) :
    ∃ v, T[k]? = some (some v) := by
  obtain ⟨v, hv⟩ := nanargmax_eq_some_iff.mp h
  exact ⟨v, hv.at_k⟩

end Art
