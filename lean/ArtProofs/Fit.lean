/-
ArtProofs.Fit — one training step changes exactly one category (frame), and the
bookkeeping invariants of `fit` / `partial_fit` over arbitrary streams.
-/
import ArtProofs.Search
import Mathlib.Data.List.Count

namespace Art

set_option linter.unusedSectionVars false

variable {X Wt α μ θ : Type} [LinearOrder α]

theorem strikeVetoed_length (tilde : Bool) (veto : Nat → Bool) (T : List (Option α)) :
    (strikeVetoed tilde veto T).length = T.length := by
  unfold strikeVetoed; split <;> simp

theorem strikeVetoed_getElem? (tilde : Bool) (veto : Nat → Bool) (T : List (Option α)) (j : Nat) :
    (strikeVetoed tilde veto T)[j]? =
      (T[j]?).map (fun t => if tilde && veto j then none else t) := by
  unfold strikeVetoed
  split
  · rename_i h
    simp [List.getElem?_map, List.getElem?_zipIdx, h]
    cases T[j]? <;> simp
  · rename_i h
    simp at h
    simp [h]

theorem activations_length (K : Kernel X Wt α μ) (W : List Wt) (x : X) :
    (activations K W x).length = W.length := by
  simp [activations]

/-- A winner of a training step indexes an existing category. -/
theorem stepSearch_winner_lt (K : Kernel X Wt α μ) (cfg : SearchCfg μ θ) (th0 : θ)
    (veto : Nat → Bool) (W : List Wt) (x : X) (c : Nat)
    (h : (stepSearch K cfg th0 veto W x).winner = some c) : c < W.length := by
  unfold stepSearch at h
  obtain ⟨⟨v, hv⟩, _⟩ := search_winner_sound cfg _ veto _ _ th0 (liveCount_le_length _) c h
  have := (List.getElem?_eq_some_iff.mp hv).1
  simpa [strikeVetoed_length, activations_length] using this

/-- A winner of a training step was not vetoed — in every mode, MT~ included
(there the vetoed categories were struck before the loop). -/
theorem stepSearch_winner_not_vetoed (K : Kernel X Wt α μ) (cfg : SearchCfg μ θ) (th0 : θ)
    (veto : Nat → Bool) (W : List Wt) (x : X) (c : Nat)
    (h : (stepSearch K cfg th0 veto W x).winner = some c) : veto c = false := by
  unfold stepSearch at h
  obtain ⟨⟨v, hv⟩, th', _, _, hok⟩ :=
    search_winner_sound cfg _ veto _ _ th0 (liveCount_le_length _) c h
  cases ht : cfg.tilde
  · simpa [ht] using hok
  · rw [strikeVetoed_getElem?] at hv
    cases hT : (activations K W x)[c]? with
    | none => simp [hT] at hv
    | some t =>
      simp only [hT, ht, Bool.true_and, Option.map_some, Option.some.injEq] at hv
      by_contra hne
      simp only [Bool.not_eq_false] at hne
      simp [hne] at hv

/-- A winner passed the vigilance test against *some* threshold reachable from
the configured one by tracking steps; `Q` is any invariant of such thresholds. -/
theorem stepSearch_winner_passes (K : Kernel X Wt α μ) (cfg : SearchCfg μ θ) (th0 : θ)
    (veto : Nat → Bool) (W : List Wt) (x : X) (c : Nat) (Q : θ → Prop) (h0 : Q th0)
    (hQ : ∀ th m, Q th → cfg.passes th m = true → Q (cfg.track th m))
    (h : (stepSearch K cfg th0 veto W x).winner = some c) :
    ∃ th, Q th ∧ cfg.passes th (matchAt K W x c) = true := by
  unfold stepSearch at h
  obtain ⟨_, th', hl, hp, _⟩ := search_winner_sound cfg _ veto _ _ th0 (liveCount_le_length _) c h
  refine ⟨th', ?_, hp⟩
  have := search_threshold_inv cfg (matchAt K W x) veto Q hQ _ _ th0 (liveCount_le_length _) h0
    ⟨c, th', true, true⟩ (List.mem_of_getLast? hl)
  exact this

/-! ### Frame of one step -/

theorem applyWinner_frame (K : Kernel X Wt α μ) (s : ArtState Wt) (x : X) (o : Option Nat)
    (ho : ∀ c, o = some c → c < s.W.length) :
    (applyWinner K s x o).1.n = s.n + 1 ∧ (applyWinner K s x o).1.labels = s.labels ∧
    (((applyWinner K s x o).2 < s.W.length ∧ ∃ w, s.W[(applyWinner K s x o).2]? = some w ∧
        (applyWinner K s x o).1.W = s.W.set (applyWinner K s x o).2 (K.update x w) ∧
        (applyWinner K s x o).1.cnt =
          s.cnt.set (applyWinner K s x o).2 (s.cnt.getD (applyWinner K s x o).2 0 + 1)) ∨
     ((applyWinner K s x o).2 = s.W.length ∧ (applyWinner K s x o).1.W = s.W ++ [K.newW x] ∧
        (applyWinner K s x o).1.cnt = s.cnt ++ [1])) := by
  cases o with
  | none => simp [applyWinner]
  | some c =>
    have hc := ho c rfl
    have hw : s.W[c]? = some s.W[c] := List.getElem?_eq_getElem hc
    have e : applyWinner K s x (some c) =
        ({ s with W := s.W.set c (K.update x s.W[c]), cnt := s.cnt.set c (s.cnt.getD c 0 + 1),
                  n := s.n + 1 }, c) := by
      simp [applyWinner, hw]
    rw [e]
    exact ⟨rfl, rfl, Or.inl ⟨hc, s.W[c], hw, rfl, rfl⟩⟩

/-- **Frame.**  One training step either re-writes exactly the winner's weight
with `update` and bumps its counter, or appends exactly one category made by
`newW` with counter 1; nothing else changes, the sample counter grows by one. -/
theorem stepFit_frame (K : Kernel X Wt α μ) (cfg : SearchCfg μ θ) (th0 : θ)
    (veto : Nat → Bool) (s : ArtState Wt) (x : X) :
    (stepFit K cfg th0 veto s x).1.n = s.n + 1 ∧
    (stepFit K cfg th0 veto s x).1.labels = s.labels ∧
    (((stepFit K cfg th0 veto s x).2 < s.W.length ∧
        ∃ w, s.W[(stepFit K cfg th0 veto s x).2]? = some w ∧
        (stepFit K cfg th0 veto s x).1.W = s.W.set (stepFit K cfg th0 veto s x).2 (K.update x w) ∧
        (stepFit K cfg th0 veto s x).1.cnt =
          s.cnt.set (stepFit K cfg th0 veto s x).2 (s.cnt.getD (stepFit K cfg th0 veto s x).2 0 + 1)) ∨
     ((stepFit K cfg th0 veto s x).2 = s.W.length ∧
        (stepFit K cfg th0 veto s x).1.W = s.W ++ [K.newW x] ∧
        (stepFit K cfg th0 veto s x).1.cnt = s.cnt ++ [1])) := by
  unfold stepFit
  split
  · exact applyWinner_frame K s x none (by simp)
  · exact applyWinner_frame K s x _ (fun c hc => stepSearch_winner_lt K cfg th0 veto s.W x c hc)

/-- the label returned by a step is `≤ |W|` before, `< |W|` after -/
theorem stepFit_label_lt (K : Kernel X Wt α μ) (cfg : SearchCfg μ θ) (th0 : θ)
    (veto : Nat → Bool) (s : ArtState Wt) (x : X) :
    (stepFit K cfg th0 veto s x).2 < (stepFit K cfg th0 veto s x).1.W.length ∧
    s.W.length ≤ (stepFit K cfg th0 veto s x).1.W.length := by
  obtain ⟨_, _, h | h⟩ := stepFit_frame K cfg th0 veto s x
  · obtain ⟨hlt, w, _, hW, _⟩ := h
    rw [hW]; simp [hlt]
  · obtain ⟨he, hW, _⟩ := h
    rw [hW, he]; simp

/-! ### Bookkeeping invariant of training histories (C05) -/

/-- Consistency of labels, weights and counters. -/
structure Consistent (s : ArtState Wt) : Prop where
  cnt_len : s.cnt.length = s.W.length
  labels_lt : ∀ l ∈ s.labels, l < s.W.length
  cnt_hist : ∀ k, k < s.W.length → s.cnt.getD k 0 = s.labels.count k
  n_eq : s.n = s.labels.length
  /-- no empty category -/
  all_used : ∀ k, k < s.W.length → k ∈ s.labels
  /-- categories are numbered in order of creation: the first occurrence of
  `k+1` comes after the first occurrence of `k` -/
  ordered : ∀ k, k + 1 < s.W.length → s.labels.idxOf k < s.labels.idxOf (k + 1)

theorem consistent_empty : Consistent ({} : ArtState Wt) where
  cnt_len := rfl
  labels_lt := by simp
  cnt_hist := by simp
  n_eq := rfl
  all_used := by simp
  ordered := by simp

theorem trainStep_consistent (K : Kernel X Wt α μ) (cfg : SearchCfg μ θ) (th0 : θ)
    (veto : ArtState Wt → X → Nat → Bool) (s : ArtState Wt) (x : X) (h : Consistent s) :
    Consistent (trainStep K cfg th0 veto s x) := by
  obtain ⟨hn, hl, hcase⟩ := stepFit_frame K cfg th0 (veto s x) s x
  unfold trainStep
  generalize hr : stepFit K cfg th0 (veto s x) s x = r at hn hl hcase
  obtain ⟨s', c⟩ := r
  simp only at hn hl hcase ⊢
  rcases hcase with ⟨hlt, w, hw, hW, hcnt⟩ | ⟨he, hW, hcnt⟩
  · -- resonance with c
    refine ⟨?_, ?_, ?_, ?_, ?_, ?_⟩
    · simp [hcnt, hW, h.cnt_len]
    · intro l hlm
      simp only [hl, List.mem_append, List.mem_singleton] at hlm
      rcases hlm with hlm | rfl
      · simpa [hW] using h.labels_lt l hlm
      · simpa [hW] using hlt
    · intro k hk
      simp only [hW, List.length_set] at hk
      simp only [hcnt, hl, List.count_append, List.count_singleton]
      by_cases e : c = k
      · subst e
        have hcl : c < s.cnt.length := by rw [h.cnt_len]; exact hlt
        have hh := h.cnt_hist c hlt
        simp only [List.getD_eq_getElem?_getD, List.getElem?_eq_getElem hcl, Option.getD_some] at hh
        simp [List.getD_eq_getElem?_getD, hcl, hh]
      · have := h.cnt_hist k hk
        simp [List.getD_eq_getElem?_getD, List.getElem?_set, e] at this ⊢
        have e' : ¬ k = c := fun h => e h.symm
        simp [e', this]
    · simp [hn, hl, h.n_eq]
    · intro k hk
      simp only [hW, List.length_set] at hk
      simp [hl, h.all_used k hk]
    · intro k hk
      simp only [hW, List.length_set] at hk
      have h1 := h.all_used k (by omega)
      have h2 := h.all_used (k + 1) hk
      rw [hl, List.idxOf_append, List.idxOf_append, if_pos h1, if_pos h2]
      exact h.ordered k hk
  · -- new category c = |W|
    subst he
    refine ⟨?_, ?_, ?_, ?_, ?_, ?_⟩
    · simp [hcnt, hW, h.cnt_len]
    · intro l hlm
      simp only [hl, List.mem_append, List.mem_singleton] at hlm
      rcases hlm with hlm | rfl
      · have := h.labels_lt l hlm
        simp [hW]; omega
      · simp [hW]
    · intro k hk
      simp only [hW, List.length_append, List.length_singleton] at hk
      simp only [hcnt, hl, List.count_append, List.count_singleton]
      by_cases e : k = s.W.length
      · subst e
        have hz : s.labels.count s.W.length = 0 := by
          rw [List.count_eq_zero]
          intro hm
          exact absurd (h.labels_lt _ hm) (Nat.lt_irrefl _)
        simp [List.getD_eq_getElem?_getD, ← h.cnt_len]
        rw [h.cnt_len]; exact hz
      · have hk' : k < s.W.length := by omega
        have := h.cnt_hist k hk'
        have hkc : k < s.cnt.length := by rw [h.cnt_len]; exact hk'
        simp [List.getD_eq_getElem?_getD, List.getElem?_append_left hkc] at this ⊢
        have e' : ¬ s.W.length = k := fun h => e h.symm
        simp [e', this]
    · simp [hn, hl, h.n_eq]
    · intro k hk
      simp only [hW, List.length_append, List.length_singleton] at hk
      by_cases e : k = s.W.length
      · simp [hl, e]
      · simp [hl, h.all_used k (by omega)]
    · intro k hk
      simp only [hW, List.length_append, List.length_singleton] at hk
      have h1 := h.all_used k (by omega)
      rw [hl, List.idxOf_append, if_pos h1]
      by_cases e : k + 1 = s.W.length
      · have hnot : k + 1 ∉ s.labels := by
          intro hm
          exact absurd (h.labels_lt _ hm) (by omega)
        rw [List.idxOf_append, if_neg hnot]
        have := List.idxOf_lt_length_of_mem h1
        omega
      · have h2 := h.all_used (k + 1) (by omega)
        rw [List.idxOf_append, if_pos h2]
        exact h.ordered k (by omega)

theorem partialFit_consistent (K : Kernel X Wt α μ) (cfg : SearchCfg μ θ) (th0 : θ)
    (veto : ArtState Wt → X → Nat → Bool) (s : ArtState Wt) (xs : List X) (h : Consistent s) :
    Consistent (partialFit K cfg th0 veto s xs) := by
  unfold partialFit
  induction xs generalizing s with
  | nil => simpa
  | cons x xs ih => exact ih _ (trainStep_consistent K cfg th0 veto s x h)

theorem fit_consistent (K : Kernel X Wt α μ) (cfg : SearchCfg μ θ) (th0 : θ)
    (veto : ArtState Wt → X → Nat → Bool) (s : ArtState Wt) (xs : List X) :
    Consistent (fit K cfg th0 veto s xs) :=
  partialFit_consistent K cfg th0 veto {} xs consistent_empty

theorem trainStep_labels_length (K : Kernel X Wt α μ) (cfg : SearchCfg μ θ) (th0 : θ)
    (veto : ArtState Wt → X → Nat → Bool) (s : ArtState Wt) (x : X) :
    (trainStep K cfg th0 veto s x).labels.length = s.labels.length + 1 := by
  obtain ⟨_, hl, _⟩ := stepFit_frame K cfg th0 (veto s x) s x
  unfold trainStep
  simp [hl]

theorem partialFit_labels_length (K : Kernel X Wt α μ) (cfg : SearchCfg μ θ) (th0 : θ)
    (veto : ArtState Wt → X → Nat → Bool) (s : ArtState Wt) (xs : List X) :
    (partialFit K cfg th0 veto s xs).labels.length = s.labels.length + xs.length := by
  unfold partialFit
  induction xs generalizing s with
  | nil => simp
  | cons x xs ih =>
    simp only [List.foldl_cons, List.length_cons]
    rw [ih, trainStep_labels_length]; omega

/-! ### Streams (C06) -/

theorem partialFit_append (K : Kernel X Wt α μ) (cfg : SearchCfg μ θ) (th0 : θ)
    (veto : ArtState Wt → X → Nat → Bool) (s : ArtState Wt) (xs ys : List X) :
    partialFit K cfg th0 veto s (xs ++ ys) =
      partialFit K cfg th0 veto (partialFit K cfg th0 veto s xs) ys := by
  simp [partialFit, List.foldl_append]

/-- Any partition of a stream into batches gives the state of the single batch. -/
theorem partialFit_flatten (K : Kernel X Wt α μ) (cfg : SearchCfg μ θ) (th0 : θ)
    (veto : ArtState Wt → X → Nat → Bool) (s : ArtState Wt) (batches : List (List X)) :
    batches.foldl (partialFit K cfg th0 veto) s = partialFit K cfg th0 veto s batches.flatten := by
  induction batches generalizing s with
  | nil => simp [partialFit]
  | cons b bs ih => simp only [List.foldl_cons, List.flatten_cons, partialFit_append, ih]

end Art
