/-
ArtProofs.Topo — helper lemmas for the TopoART model (`ArtModel.Topo`):
the two-winner loop (induction principle and its consequences), the shape
invariant of the five parallel structures, the gather/re-index lemmas of
`prune`, and the label-range invariant of the training loops.
-/
import Mathlib.Order.Basic
import Mathlib.Order.Defs.LinearOrder
import Mathlib.Data.Int.Order.Basic
import ArtProofs.Order
import ArtProofs.Search
import ArtModel.Topo

namespace Art

set_option linter.unusedSectionVars false
set_option linter.unusedVariables false

/-! ## A. the two-winner loop -/

section Loop
variable {α μ θ : Type} [LinearOrder α]

@[simp] theorem TopoResult.cons_best (v : Visit θ) (r : TopoResult θ) : (r.cons v).best = r.best := rfl
@[simp] theorem TopoResult.cons_second (v : Visit θ) (r : TopoResult θ) :
    (r.cons v).second = r.second := rfl
@[simp] theorem TopoResult.cons_visits (v : Visit θ) (r : TopoResult θ) :
    (r.cons v).visits = v :: r.visits := rfl
@[simp] theorem TopoResult.cons_th (v : Visit θ) (r : TopoResult θ) : (r.cons v).th = r.th := rfl

/-- Unfolding lemma for one iteration of the loop. -/
theorem topoSearch_succ (cfg : SearchCfg μ θ) (M : Nat → μ) (veto : Nat → Bool)
    (fuel : Nat) (T : List (Option α)) (th : θ) (best : Option Nat) :
    topoSearch cfg M veto (fuel + 1) T th best =
      match nanargmax T with
      | none => ⟨best, none, th, []⟩
      | some c =>
        if cfg.passes th (M c) && !veto c then
          match best with
          | none => (topoSearch cfg M veto fuel (T.set c none) th (some c)).cons
              ⟨c, th, cfg.passes th (M c), !veto c⟩
          | some b => ⟨some b, some c, th, [⟨c, th, cfg.passes th (M c), !veto c⟩]⟩
        else if cfg.passes th (M c) && !(!veto c) then
          if cfg.keep then
            (topoSearch cfg M veto fuel (T.set c none) (cfg.track th (M c)) best).cons
              ⟨c, th, cfg.passes th (M c), !veto c⟩
          else ⟨best, none, cfg.track th (M c), [⟨c, th, cfg.passes th (M c), !veto c⟩]⟩
        else
          (topoSearch cfg M veto fuel (T.set c none) th best).cons
            ⟨c, th, cfg.passes th (M c), !veto c⟩ := by
  rw [topoSearch]
  cases nanargmax T <;> rfl

/-- Termination: any fuel ≥ the number of live candidates gives the same result
(every iteration that continues strikes one candidate). -/
theorem topoSearch_fuel_irrelevant (cfg : SearchCfg μ θ) (M : Nat → μ) (veto : Nat → Bool)
    (f₁ f₂ : Nat) (T : List (Option α)) (th : θ) (best : Option Nat)
    (h₁ : liveCount T ≤ f₁) (h₂ : liveCount T ≤ f₂) :
    topoSearch cfg M veto f₁ T th best = topoSearch cfg M veto f₂ T th best := by
  induction f₁ generalizing f₂ T th best with
  | zero =>
    have h0 : liveCount T = 0 := by omega
    cases f₂ with
    | zero => rfl
    | succ f₂ => rw [topoSearch_succ, liveCount_eq_zero h0]; rfl
  | succ f₁ ih =>
    cases f₂ with
    | zero =>
      have h0 : liveCount T = 0 := by omega
      rw [topoSearch_succ, liveCount_eq_zero h0]; rfl
    | succ f₂ =>
      rw [topoSearch_succ, topoSearch_succ]
      cases hc : nanargmax T with
      | none => rfl
      | some c =>
        obtain ⟨v, hv⟩ := nanargmax_isSome_at hc
        have hl := liveCount_set_none hv
        have e1 : ∀ th' b', topoSearch cfg M veto f₁ (T.set c none) th' b' =
            topoSearch cfg M veto f₂ (T.set c none) th' b' :=
          fun th' b' => ih f₂ _ th' b' (by omega) (by omega)
        simp only [e1]

/-- The induction principle for the two-winner loop: the six ways one
iteration can go. -/
theorem topoSearch_induction (cfg : SearchCfg μ θ) (M : Nat → μ) (veto : Nat → Bool)
    (P : List (Option α) → θ → Option Nat → TopoResult θ → Prop)
    (hnone : ∀ T th best, nanargmax T = none → P T th best ⟨best, none, th, []⟩)
    (hfirst : ∀ T th c r, nanargmax T = some c → cfg.passes th (M c) = true → veto c = false →
      P (T.set c none) th (some c) r → P T th none (r.cons ⟨c, th, true, true⟩))
    (hsecond : ∀ T th b c, nanargmax T = some c → cfg.passes th (M c) = true → veto c = false →
      P T th (some b) ⟨some b, some c, th, [⟨c, th, true, true⟩]⟩)
    (habandon : ∀ T th best c, nanargmax T = some c → cfg.passes th (M c) = true →
      veto c = true → cfg.keep = false →
      P T th best ⟨best, none, cfg.track th (M c), [⟨c, th, true, false⟩]⟩)
    (htrack : ∀ T th best c r, nanargmax T = some c → cfg.passes th (M c) = true →
      veto c = true → cfg.keep = true →
      P (T.set c none) (cfg.track th (M c)) best r → P T th best (r.cons ⟨c, th, true, false⟩))
    (hfail : ∀ T th best c r, nanargmax T = some c → cfg.passes th (M c) = false →
      P (T.set c none) th best r → P T th best (r.cons ⟨c, th, false, !veto c⟩))
    (fuel : Nat) (T : List (Option α)) (th : θ) (best : Option Nat) (hf : liveCount T ≤ fuel) :
    P T th best (topoSearch cfg M veto fuel T th best) := by
  induction fuel generalizing T th best with
  | zero =>
    have h0 : liveCount T = 0 := by omega
    exact hnone T th best (liveCount_eq_zero h0)
  | succ fuel ih =>
    rw [topoSearch_succ]
    cases hc : nanargmax T with
    | none => exact hnone T th best hc
    | some c =>
      obtain ⟨v, hv⟩ := nanargmax_isSome_at hc
      have hl := liveCount_set_none hv
      simp only
      cases hm : cfg.passes th (M c) <;> cases hv : veto c
      · simpa [hv] using hfail T th best c _ hc hm (ih _ _ _ (by omega))
      · simpa [hv] using hfail T th best c _ hc hm (ih _ _ _ (by omega))
      · cases best with
        | none => simpa using hfirst T th c _ hc hm hv (ih _ _ _ (by omega))
        | some b => simpa using hsecond T th b c hc hm hv
      · cases hk : cfg.keep
        · simpa using habandon T th best c hc hm hv hk
        · simpa using htrack T th best c _ hc hm hv hk (ih _ _ _ (by omega))

section
variable (cfg : SearchCfg μ θ) (M : Nat → μ) (veto : Nat → Bool)

/-- categories whose visit resonated (passed the threshold in force and were not vetoed) -/
def resonantCs (r : TopoResult θ) : List Nat :=
  (r.visits.filter (fun v => v.m && v.ok)).map (·.c)

/-- **Winners.**  A `best` handed in is kept; the winners are live candidates
of `T`; the second differs from the best (the best is struck before the loop
goes on); no second without a best. -/
theorem topoSearch_winners (fuel : Nat) (T : List (Option α)) (th : θ) (best : Option Nat)
    (hf : liveCount T ≤ fuel) :
    let r := topoSearch cfg M veto fuel T th best
    (∀ b, best = some b → r.best = some b) ∧
    (∀ c, r.second = some c → ∃ v, T[c]? = some (some v)) ∧
    (best = none → ∀ b, r.best = some b → ∃ v, T[b]? = some (some v)) ∧
    (best = none → ∀ b c, r.best = some b → r.second = some c → b ≠ c) ∧
    (r.best = none → r.second = none) := by
  refine topoSearch_induction cfg M veto
    (fun T _ best r => (∀ b, best = some b → r.best = some b) ∧
      (∀ c, r.second = some c → ∃ v, T[c]? = some (some v)) ∧
      (best = none → ∀ b, r.best = some b → ∃ v, T[b]? = some (some v)) ∧
      (best = none → ∀ b c, r.best = some b → r.second = some c → b ≠ c) ∧
      (r.best = none → r.second = none))
    ?_ ?_ ?_ ?_ ?_ ?_ fuel T th best hf
  · intro T th best _
    refine ⟨fun b h => h, by simp, ?_, by simp, by simp⟩
    rintro rfl b h; simp at h
  · intro T th c r hc _ _ ⟨h1, h2, _, _, h5⟩
    have hb : r.best = some c := h1 c rfl
    refine ⟨by simp, ?_, ?_, ?_, ?_⟩
    · intro c' h
      obtain ⟨v, hv⟩ := h2 c' (by simpa using h)
      exact ⟨v, (live_of_live_set hv).1⟩
    · intro _ b h
      simp only [TopoResult.cons_best, hb, Option.some.injEq] at h
      subst h
      exact nanargmax_isSome_at hc
    · intro _ b c' h h'
      simp only [TopoResult.cons_best, hb, Option.some.injEq] at h
      subst h
      obtain ⟨v, hv⟩ := h2 c' (by simpa using h')
      exact fun e => (live_of_live_set hv).2 e.symm
    · intro h; simp [hb] at h
  · intro T th b c hc _ _
    refine ⟨by simp, ?_, by simp, by simp, by simp⟩
    intro c' h
    simp only [Option.some.injEq] at h
    subst h
    exact nanargmax_isSome_at hc
  · intro T th best c _ _ _ _
    refine ⟨fun b h => h, by simp, ?_, by simp, by simp⟩
    rintro rfl b h; simp at h
  · intro T th best c r _ _ _ _ ⟨h1, h2, h3, h4, h5⟩
    refine ⟨by simpa using h1, ?_, ?_, by simpa using h4, by simpa using h5⟩
    · intro c' h
      obtain ⟨v, hv⟩ := h2 c' (by simpa using h)
      exact ⟨v, (live_of_live_set hv).1⟩
    · intro hb b h
      obtain ⟨v, hv⟩ := h3 hb b (by simpa using h)
      exact ⟨v, (live_of_live_set hv).1⟩
  · intro T th best c r _ _ ⟨h1, h2, h3, h4, h5⟩
    refine ⟨by simpa using h1, ?_, ?_, by simpa using h4, by simpa using h5⟩
    · intro c' h
      obtain ⟨v, hv⟩ := h2 c' (by simpa using h)
      exact ⟨v, (live_of_live_set hv).1⟩
    · intro hb b h
      obtain ⟨v, hv⟩ := h3 hb b (by simpa using h)
      exact ⟨v, (live_of_live_set hv).1⟩

/-- **The resonating visits are exactly the winners, in order.**  Started with
no best, the visits that passed the threshold in force and were not vetoed are
`[best, second]` (resp. `[best]`, `[]`): every other visited category failed
the vigilance test or was vetoed, the best is the *first* resonating visit and
the second the *next* one. -/
theorem topoSearch_resonant (fuel : Nat) (T : List (Option α)) (th : θ) (best : Option Nat)
    (hf : liveCount T ≤ fuel) :
    resonantCs (topoSearch cfg M veto fuel T th best) =
      (if best.isSome then [] else (topoSearch cfg M veto fuel T th best).best.toList) ++
        (topoSearch cfg M veto fuel T th best).second.toList := by
  refine topoSearch_induction cfg M veto
    (fun _ _ best r => (∀ b, best = some b → r.best = some b) ∧
      resonantCs r = (if best.isSome then [] else r.best.toList) ++ r.second.toList)
    ?_ ?_ ?_ ?_ ?_ ?_ fuel T th best hf |>.2
  · intro T th best _
    refine ⟨fun b h => h, ?_⟩
    cases best <;> simp [resonantCs]
  · intro T th c r _ _ _ ⟨h1, h2⟩
    have hb : r.best = some c := h1 c rfl
    refine ⟨by simp, ?_⟩
    simp only [resonantCs, TopoResult.cons_visits, TopoResult.cons_best, TopoResult.cons_second,
      Bool.and_self, List.filter_cons_of_pos, List.map_cons, hb] at h2 ⊢
    simpa using h2
  · intro T th b c _ _ _
    simp [resonantCs]
  · intro T th best c _ _ _ _
    refine ⟨fun b h => h, ?_⟩
    cases best <;> simp [resonantCs]
  · intro T th best c r _ _ _ _ ⟨h1, h2⟩
    refine ⟨by simpa using h1, ?_⟩
    simpa [resonantCs] using h2
  · intro T th best c r _ _ ⟨h1, h2⟩
    refine ⟨by simpa using h1, ?_⟩
    simpa [resonantCs] using h2

/-- Every visit records exactly the test results for its category. -/
theorem topoSearch_faithful (fuel : Nat) (T : List (Option α)) (th : θ) (best : Option Nat)
    (hf : liveCount T ≤ fuel) :
    ∀ v ∈ (topoSearch cfg M veto fuel T th best).visits,
      v.m = cfg.passes v.th (M v.c) ∧ v.ok = !veto v.c := by
  refine topoSearch_induction cfg M veto
    (fun _ _ _ r => ∀ v ∈ r.visits, v.m = cfg.passes v.th (M v.c) ∧ v.ok = !veto v.c)
    ?_ ?_ ?_ ?_ ?_ ?_ fuel T th best hf
  · intro T th best _ v hv; simp at hv
  · intro T th c r _ hm hv ih v hmem
    simp only [TopoResult.cons_visits, List.mem_cons] at hmem
    rcases hmem with rfl | hmem
    · simp [hm, hv]
    · exact ih v hmem
  · intro T th b c _ hm hv v hmem
    simp only [List.mem_singleton] at hmem; subst hmem
    simp [hm, hv]
  · intro T th best c _ hm hv _ v hmem
    simp only [List.mem_singleton] at hmem; subst hmem
    simp [hm, hv]
  · intro T th best c r _ hm hv _ ih v hmem
    simp only [TopoResult.cons_visits, List.mem_cons] at hmem
    rcases hmem with rfl | hmem
    · simp [hm, hv]
    · exact ih v hmem
  · intro T th best c r _ hm ih v hmem
    simp only [TopoResult.cons_visits, List.mem_cons] at hmem
    rcases hmem with rfl | hmem
    · simp [hm]
    · exact ih v hmem

/-- threshold after a visit: tracked exactly when a *passing* category was vetoed -/
def topoNextTh (v : Visit θ) : θ := if v.m && !v.ok then cfg.track v.th (M v.c) else v.th

/-- `vs` is a visit list whose thresholds thread from `th` to `thEnd` -/
def TopoThreads : θ → List (Visit θ) → θ → Prop
  | th, [], thEnd => thEnd = th
  | th, v :: vs, thEnd => v.th = th ∧ TopoThreads (topoNextTh cfg M v) vs thEnd

/-- **Threshold trace.**  The first visit sees the configured threshold; it
changes exactly after a visit that passed and was vetoed, to `track th (M c)`. -/
theorem topoSearch_threshold_trace (fuel : Nat) (T : List (Option α)) (th : θ)
    (best : Option Nat) (hf : liveCount T ≤ fuel) :
    TopoThreads cfg M th (topoSearch cfg M veto fuel T th best).visits
      (topoSearch cfg M veto fuel T th best).th := by
  refine topoSearch_induction cfg M veto
    (fun _ th _ r => TopoThreads cfg M th r.visits r.th) ?_ ?_ ?_ ?_ ?_ ?_ fuel T th best hf
  · intro T th _ _; simp [TopoThreads]
  · intro T th c r _ _ _ ih; simpa [TopoThreads, topoNextTh] using ih
  · intro T th b c _ _ _; simp [TopoThreads, topoNextTh]
  · intro T th best c _ _ _ _; simp [TopoThreads, topoNextTh]
  · intro T th best c r _ _ _ _ ih; simpa [TopoThreads, topoNextTh] using ih
  · intro T th best c r _ _ ih; simpa [TopoThreads, topoNextTh] using ih

/-- Any invariant of the threshold that survives the tracking of a *passing* match
value holds at every visit (e.g. "not below the configured vigilance" under MT+, MT0). -/
theorem topoSearch_threshold_inv (Q : θ → Prop)
    (hQ : ∀ th m, Q th → cfg.passes th m = true → Q (cfg.track th m))
    (fuel : Nat) (T : List (Option α)) (th : θ) (best : Option Nat) (hf : liveCount T ≤ fuel)
    (h0 : Q th) : ∀ v ∈ (topoSearch cfg M veto fuel T th best).visits, Q v.th := by
  revert h0
  refine topoSearch_induction cfg M veto
    (fun _ th _ r => Q th → ∀ v ∈ r.visits, Q v.th) ?_ ?_ ?_ ?_ ?_ ?_ fuel T th best hf
  · intro T th _ _ _ v hv; simp at hv
  · intro T th c r _ _ _ ih h0 v hv
    simp only [TopoResult.cons_visits, List.mem_cons] at hv
    rcases hv with rfl | hv
    · exact h0
    · exact ih h0 v hv
  · intro T th b c _ _ _ h0 v hv; simp at hv; subst hv; exact h0
  · intro T th best c _ _ _ _ h0 v hv; simp at hv; subst hv; exact h0
  · intro T th best c r _ hm _ _ ih h0 v hv
    simp only [TopoResult.cons_visits, List.mem_cons] at hv
    rcases hv with rfl | hv
    · exact h0
    · exact ih (hQ _ _ h0 hm) v hv
  · intro T th best c r _ _ ih h0 v hv
    simp only [TopoResult.cons_visits, List.mem_cons] at hv
    rcases hv with rfl | hv
    · exact h0
    · exact ih h0 v hv

/-- **Visiting order.**  Categories are visited by decreasing activation, ties
by increasing index; only live candidates are visited, each at most once. -/
theorem topoSearch_visit_order (fuel : Nat) (T : List (Option α)) (th : θ) (best : Option Nat)
    (hf : liveCount T ≤ fuel) :
    ((topoSearch cfg M veto fuel T th best).visits.map (·.c)).Pairwise (Before T) ∧
    ∀ v ∈ (topoSearch cfg M veto fuel T th best).visits, ∃ a, T[v.c]? = some (some a) := by
  have key : ∀ (T : List (Option α)) (c : Nat) (r : TopoResult θ) (x : Visit θ), x.c = c →
      nanargmax T = some c →
      (((r.visits.map (·.c)).Pairwise (Before (T.set c none))) ∧
        ∀ v ∈ r.visits, ∃ a, (T.set c none)[v.c]? = some (some a)) →
      (((r.cons x).visits.map (·.c)).Pairwise (Before T)) ∧
        ∀ v ∈ (r.cons x).visits, ∃ a, T[v.c]? = some (some a) := by
    intro T c r x hx hc ⟨ih1, ih2⟩
    obtain ⟨a, ha⟩ := nanargmax_eq_some_iff.mp hc
    constructor
    · simp only [TopoResult.cons_visits, List.map_cons, List.pairwise_cons, hx]
      constructor
      · intro j hj
        simp only [List.mem_map] at hj
        obtain ⟨v, hv, rfl⟩ := hj
        obtain ⟨b, hb⟩ := ih2 v hv
        obtain ⟨hb', hne⟩ := live_of_live_set hb
        refine ⟨a, b, ha.at_k, hb', ?_⟩
        rcases lt_or_eq_of_le (ha.ge_all _ _ hb') with hlt | heq
        · exact Or.inl hlt
        · refine Or.inr ⟨heq.symm, ?_⟩
          rcases Nat.lt_trichotomy c v.c with h | h | h
          · exact h
          · exact absurd h.symm hne
          · exact absurd (ha.gt_before _ _ h hb') (by rw [heq]; exact lt_irrefl _)
      · refine ih1.imp ?_
        rintro i j ⟨p, q, hp, hq, hpq⟩
        exact ⟨p, q, (live_of_live_set hp).1, (live_of_live_set hq).1, hpq⟩
    · intro v hv
      simp only [TopoResult.cons_visits, List.mem_cons] at hv
      rcases hv with rfl | hv
      · exact ⟨a, hx ▸ ha.at_k⟩
      · obtain ⟨b, hb⟩ := ih2 v hv
        exact ⟨b, (live_of_live_set hb).1⟩
  refine topoSearch_induction cfg M veto
    (fun T _ _ r => ((r.visits.map (·.c)).Pairwise (Before T)) ∧
      ∀ v ∈ r.visits, ∃ a, T[v.c]? = some (some a)) ?_ ?_ ?_ ?_ ?_ ?_ fuel T th best hf
  · intro T th _ _; simp
  · intro T th c r hc _ _ ih; exact key T c r _ rfl hc ih
  · intro T th b c hc _ _
    obtain ⟨a, ha⟩ := nanargmax_isSome_at hc
    simp [ha]
  · intro T th best c hc _ _ _
    obtain ⟨a, ha⟩ := nanargmax_isSome_at hc
    simp [ha]
  · intro T th best c r hc _ _ _ ih; exact key T c r _ rfl hc ih
  · intro T th best c r hc _ ih; exact key T c r _ rfl hc ih

/-- **Exhaustion.**  If the loop ends without a second winner and was not
abandoned (MT1), every live candidate was visited. -/
theorem topoSearch_exhaustive (hkeep : cfg.keep = true) (fuel : Nat) (T : List (Option α))
    (th : θ) (best : Option Nat) (hf : liveCount T ≤ fuel)
    (hnone : (topoSearch cfg M veto fuel T th best).second = none) :
    ∀ c a, T[c]? = some (some a) →
      c ∈ (topoSearch cfg M veto fuel T th best).visits.map (·.c) := by
  revert hnone
  refine topoSearch_induction cfg M veto
    (fun T _ _ r => r.second = none → ∀ c a, T[c]? = some (some a) → c ∈ r.visits.map (·.c))
    ?_ ?_ ?_ ?_ ?_ ?_ fuel T th best hf
  · intro T th _ hn _ c a hc
    have := nanargmax_eq_none_iff.mp hn _ (List.mem_of_getElem? hc)
    simp at this
  · intro T th c r _ _ _ ih h c' a hc'
    simp only [TopoResult.cons_visits, List.map_cons, List.mem_cons]
    by_cases e : c' = c
    · exact Or.inl e
    · exact Or.inr (ih (by simpa using h) c' a (live_set_of_live hc' e))
  · intro T th b c _ _ _ h; simp at h
  · intro T th best c _ _ _ hk; simp [hkeep] at hk
  · intro T th best c r _ _ _ _ ih h c' a hc'
    simp only [TopoResult.cons_visits, List.map_cons, List.mem_cons]
    by_cases e : c' = c
    · exact Or.inl e
    · exact Or.inr (ih (by simpa using h) c' a (live_set_of_live hc' e))
  · intro T th best c r _ _ ih h c' a hc'
    simp only [TopoResult.cons_visits, List.map_cons, List.mem_cons]
    by_cases e : c' = c
    · exact Or.inl e
    · exact Or.inr (ih (by simpa using h) c' a (live_set_of_live hc' e))

/-! ### without a reset function -/

theorem qualifying_none_of_none {th : θ} {T : List (Option α)} (hn : nanargmax T = none) :
    nanargmax (qualifying cfg M th T) = none := by
  rw [nanargmax_eq_none_iff]
  intro t ht
  obtain ⟨j, hj⟩ := List.getElem?_of_mem ht
  rw [qualifying_getElem?] at hj
  cases hT : T[j]? with
  | none => simp [hT] at hj
  | some t' =>
    have := nanargmax_eq_none_iff.mp hn _ (List.mem_of_getElem? hT)
    subst this
    simp [hT] at hj
    exact hj.symm

theorem qualifying_best_of_pass {th : θ} {T : List (Option α)} {c : Nat}
    (hc : nanargmax T = some c) (hm : cfg.passes th (M c) = true) :
    nanargmax (qualifying cfg M th T) = some c := by
  obtain ⟨a, ha⟩ := nanargmax_eq_some_iff.mp hc
  rw [nanargmax_eq_some_iff]
  refine ⟨a, ?_, ?_, ?_⟩
  · rw [qualifying_getElem?, ha.at_k]; simp [hm]
  · intro j u hj
    rw [qualifying_getElem?] at hj
    cases hT : T[j]? with
    | none => simp [hT] at hj
    | some t' =>
      simp only [hT, Option.map_some, Option.some.injEq] at hj
      split at hj
      · exact ha.ge_all j u (by rw [hT, hj])
      · simp at hj
  · intro j u hjc hj
    rw [qualifying_getElem?] at hj
    cases hT : T[j]? with
    | none => simp [hT] at hj
    | some t' =>
      simp only [hT, Option.map_some, Option.some.injEq] at hj
      split at hj
      · exact ha.gt_before j u hjc (by rw [hT, hj])
      · simp at hj

theorem qualifying_set_of_fail {th : θ} {T : List (Option α)} {c : Nat}
    (hm : cfg.passes th (M c) = false) :
    qualifying cfg M th (T.set c none) = qualifying cfg M th T := by
  apply List.ext_getElem?
  intro j
  rw [qualifying_getElem?, qualifying_getElem?, List.getElem?_set]
  by_cases e : c = j
  · subst e
    by_cases hl : c < T.length
    · simp [hm, hl]
    · simp [hl]
  · simp [e]

/-- **No reset function: best and second-best vigilance-passing categories.**
Without vetoes the threshold never moves, the best winner is the first index of
maximal activation among the candidates whose match value passes the configured
threshold, and the second winner is the first index of maximal activation among
the *remaining* passing candidates. -/
theorem topoSearch_no_veto (fuel : Nat) (T : List (Option α)) (th : θ) (best : Option Nat)
    (hf : liveCount T ≤ fuel) :
    let r := topoSearch cfg M (fun _ => false) fuel T th best
    (∀ b, best = some b → r.second = nanargmax (qualifying cfg M th T)) ∧
    (best = none → r.best = nanargmax (qualifying cfg M th T) ∧
      r.second = r.best.bind (fun b => nanargmax (qualifying cfg M th (T.set b none)))) := by
  refine (topoSearch_induction cfg M (fun _ => false)
    (fun T th best r => (∀ b, best = some b → r.best = some b) ∧
      (∀ b, best = some b → r.second = nanargmax (qualifying cfg M th T)) ∧
      (best = none → r.best = nanargmax (qualifying cfg M th T) ∧
        r.second = r.best.bind (fun b => nanargmax (qualifying cfg M th (T.set b none)))))
    ?_ ?_ ?_ ?_ ?_ ?_ fuel T th best hf).2
  · intro T th best hn
    have := qualifying_none_of_none cfg M (th := th) hn
    refine ⟨fun b h => h, fun b _ => this.symm, fun _ => ?_⟩
    subst_vars
    simp [this]
  · intro T th c r hc hm _ ⟨h0, h1, _⟩
    have hb := qualifying_best_of_pass cfg M hc hm
    have hrb : r.best = some c := h0 c rfl
    refine ⟨by simp, by simp, fun _ => ⟨?_, ?_⟩⟩
    · simp [hrb, hb]
    · simp [hrb, h1 c rfl]
  · intro T th b c hc hm _
    refine ⟨by simp, fun b' _ => (qualifying_best_of_pass cfg M hc hm).symm, by simp⟩
  · intro T th best c _ _ hv; simp at hv
  · intro T th best c r _ _ hv; simp at hv
  · intro T th best c r hc hm ⟨h0, h1, h2⟩
    have hq := qualifying_set_of_fail cfg M (th := th) (T := T) hm
    refine ⟨by simpa using h0, fun b hb => by simpa [hq] using h1 b hb, fun hb => ?_⟩
    obtain ⟨h2a, h2b⟩ := h2 hb
    refine ⟨by simpa [hq] using h2a, ?_⟩
    simp only [TopoResult.cons_best, TopoResult.cons_second, h2b]
    congr 1
    funext b
    by_cases e : c = b
    · subst e; rw [List.set_set]
    · rw [List.set_comm _ _ e, qualifying_set_of_fail cfg M hm]

end

end Loop

/-! ## B. shapes of the five parallel structures -/

section Shape
variable {Wt : Type}

/-- `adjacency`, counters, mask and weights have one row / entry per category,
every adjacency row has one column per category, and the diagonal is zero. -/
structure ShapeInv (s : TopoState Wt) : Prop where
  cnt_len : s.cnt.length = s.W.length
  perm_len : s.perm.length = s.W.length
  adj_len : s.adj.length = s.W.length
  row_len : ∀ (i : Nat) (r : List Nat), s.adj[i]? = some r → r.length = s.W.length
  diag : ∀ i, adjAt s.adj i i = 0

/-- What holds between calls even right after `fit` has reset `W` (but not the
adjacency matrix): counters match, and the full invariant whenever the model
is non-empty. -/
def WeakInv (s : TopoState Wt) : Prop :=
  s.cnt.length = s.W.length ∧ (s.W ≠ [] → ShapeInv s)

theorem ShapeInv.weak {s : TopoState Wt} (h : ShapeInv s) : WeakInv s := ⟨h.cnt_len, fun _ => h⟩

theorem adjAt_eq (adj : List (List Nat)) (i j : Nat) :
    adjAt adj i j = ((adj[i]?).getD [])[j]?.getD 0 := by
  simp [adjAt, List.getD_eq_getElem?_getD]

theorem padAdj_length (adj : List (List Nat)) : (padAdj adj).length = adj.length + 1 := by
  simp [padAdj]

theorem padAdj_getElem? (adj : List (List Nat)) (i : Nat) :
    (padAdj adj)[i]? =
      if i < adj.length then (adj[i]?).map (· ++ [0])
      else if i = adj.length then
        some (List.replicate (adjCols adj + 1) 0)
      else none := by
  unfold padAdj
  by_cases h : i < adj.length
  · simp [h, List.getElem?_append_left]
  · simp only [h, if_false]
    rw [List.getElem?_append_right (by simpa using h)]
    by_cases e : i = adj.length
    · simp [e]
    · have : i - (List.map (fun x => x ++ [0]) adj).length ≠ 0 := by
        simp only [List.length_map]; omega
      simp [e]
      omega

/-- padding adds only zeros: every entry (inside or outside) is unchanged -/
theorem adjAt_padAdj (adj : List (List Nat)) (i j : Nat) :
    adjAt (padAdj adj) i j = adjAt adj i j := by
  rw [adjAt_eq, adjAt_eq, padAdj_getElem?]
  by_cases h : i < adj.length
  · simp only [h, if_true]
    cases hr : adj[i]? with
    | none => simp
    | some r =>
      simp only [Option.map_some, Option.getD_some]
      by_cases hj : j < r.length
      · simp [List.getElem?_append_left hj]
      · rw [List.getElem?_append_right (by omega)]
        rw [List.getElem?_eq_none (by omega : r.length ≤ j)]
        cases hk : j - r.length <;> simp
  · simp only [h, if_false]
    rw [List.getElem?_eq_none (by omega : adj.length ≤ i)]
    by_cases e : i = adj.length
    · simp only [e, if_true, Option.getD_some, Option.getD_none, List.getElem?_nil]
      rw [List.getElem?_replicate]
      split <;> simp
    · simp [e]

theorem incAdj_length (b c : Nat) (adj : List (List Nat)) : (incAdj b c adj).length = adj.length := by
  simp [incAdj]

theorem incAdj_row_length (b c : Nat) (adj : List (List Nat)) (i : Nat) (r : List Nat)
    (h : (incAdj b c adj)[i]? = some r) : ∃ r0, adj[i]? = some r0 ∧ r.length = r0.length := by
  simp only [incAdj, List.getElem?_modify] at h
  cases hr : adj[i]? with
  | none => simp [hr] at h
  | some r0 =>
    simp only [hr, Option.map_eq_map, Option.map_some, Option.some.injEq] at h
    refine ⟨r0, rfl, ?_⟩
    split at h <;> simp [← h]

/-- `adjacency[b, c] += 1` changes exactly the cell `(b, c)` -/
theorem adjAt_incAdj (b c : Nat) (adj : List (List Nat)) (i j : Nat) :
    adjAt (incAdj b c adj) i j =
      adjAt adj i j + (if i = b ∧ j = c ∧ c < ((adj[b]?).getD []).length then 1 else 0) := by
  rw [adjAt_eq, adjAt_eq]
  simp only [incAdj, List.getElem?_modify]
  cases hr : adj[i]? with
  | none =>
    by_cases e : i = b
    · subst e; simp [hr]
    · simp [e]
  | some r =>
    by_cases e : b = i
    · subst e
      simp only [Option.map_eq_map, Option.map_some, if_true, Option.getD_some, hr, true_and,
        List.getElem?_modify]
      cases hj : r[j]? with
      | none =>
        have : r.length ≤ j := by
          by_contra hlt
          rw [List.getElem?_eq_getElem (by omega)] at hj
          simp at hj
        have hne : ¬ (j = c ∧ c < r.length) := by omega
        simp [hne]
      | some v =>
        have hlt : j < r.length := (List.getElem?_eq_some_iff.mp hj).1
        by_cases ec : c = j
        · subst ec; simp [hlt]
        · have hne : ¬ (j = c ∧ c < r.length) := fun h => ec h.1.symm
          simp [ec, hne]
    · have : ¬ (i = b ∧ j = c ∧ c < ((adj[b]?).getD []).length) := fun h => e h.1.symm
      simp [e, this]

/-! ### gather -/

theorem topo_filterMap_getElem? {β γ : Type} {f : β → Option γ} :
    ∀ {l : List β}, (∀ x ∈ l, (f x).isSome) → ∀ a : Nat, (l.filterMap f)[a]? = (l[a]?).bind f
  | [], _, a => by simp
  | x :: xs, h, a => by
    obtain ⟨y, hy⟩ := Option.isSome_iff_exists.mp (h x (by simp))
    rw [List.filterMap_cons_some hy]
    cases a with
    | zero => simp [hy]
    | succ a =>
      simp only [List.getElem?_cons_succ]
      exact topo_filterMap_getElem? (fun z hz => h z (by simp [hz])) a

theorem topo_filterMap_length {β γ : Type} {f : β → Option γ} :
    ∀ {l : List β}, (∀ x ∈ l, (f x).isSome) → (l.filterMap f).length = l.length
  | [], _ => by simp
  | x :: xs, h => by
    obtain ⟨y, hy⟩ := Option.isSome_iff_exists.mp (h x (by simp))
    rw [List.filterMap_cons_some hy]
    simp [topo_filterMap_length (l := xs) (fun z hz => h z (by simp [hz]))]

theorem gather_length {β : Type} {keep : List Nat} {l : List β} (h : ∀ i ∈ keep, i < l.length) :
    (gather keep l).length = keep.length :=
  topo_filterMap_length (fun i hi => by simp [h i hi])

theorem gather_getElem? {β : Type} {keep : List Nat} {l : List β} (h : ∀ i ∈ keep, i < l.length)
    (j : Nat) : (gather keep l)[j]? = (keep[j]?).bind (l[·]?) :=
  topo_filterMap_getElem? (fun i hi => by simp [h i hi]) j

theorem mem_keepIdx {mask : List Bool} {i : Nat} :
    i ∈ keepIdx mask ↔ i < mask.length ∧ mask[i]? = some true := by
  simp only [keepIdx, List.mem_filter, List.mem_range, List.getD_eq_getElem?_getD]
  constructor
  · rintro ⟨hl, hb⟩
    refine ⟨hl, ?_⟩
    rw [List.getElem?_eq_getElem hl] at hb ⊢
    simpa using hb
  · rintro ⟨hl, hb⟩
    exact ⟨hl, by simp [hb]⟩

theorem keepIdx_sorted (mask : List Bool) : (keepIdx mask).Pairwise (· < ·) :=
  List.Pairwise.filter _ List.pairwise_lt_range

theorem pruneMask_length (phi : Nat) (s : TopoState Wt) :
    (pruneMask phi s).length = min s.perm.length s.cnt.length := by
  simp [pruneMask]

theorem pruneMask_getElem? (phi : Nat) (s : TopoState Wt) (i : Nat) (p : Bool) (c : Nat)
    (hp : s.perm[i]? = some p) (hc : s.cnt[i]? = some c) :
    (pruneMask phi s)[i]? = some (p || decide (phi ≤ c)) := by
  simp [pruneMask, List.getElem?_zipWith, hp, hc]


/-! ### one training step -/

section Step
variable {X α μ θ : Type} [LinearOrder α]

theorem adjCols_of_shape {s : TopoState Wt} (hs : ShapeInv s) (hne : s.W ≠ []) :
    adjCols s.adj = s.W.length := by
  have hl := hs.adj_len
  cases ha : s.adj with
  | nil =>
    rw [ha] at hl
    exact absurd (List.length_eq_zero_iff.mp hl.symm) hne
  | cons r rs =>
    have := hs.row_len 0 r (by simp [ha])
    simpa [adjCols] using this

theorem applyTopo_shape (K : TopoKernel X Wt α μ) (s : TopoState Wt) (x : X)
    (best second : Option Nat) (hs : ShapeInv s) (hne : s.W ≠ [])
    (hbs : ∀ b c, best = some b → second = some c → b ≠ c) :
    ShapeInv (applyTopo K s x best second).1 := by
  cases best with
  | none =>
    simp only [applyTopo]
    refine ⟨by simp [hs.cnt_len], by simp [hs.perm_len], by simp [padAdj_length, hs.adj_len], ?_, ?_⟩
    · intro i r hr
      simp only [padAdj_getElem?] at hr
      simp only [List.length_append, List.length_cons, List.length_nil]
      split at hr
      · cases h0 : s.adj[i]? with
        | none => simp [h0] at hr
        | some r0 =>
          simp only [h0, Option.map_some, Option.some.injEq] at hr
          subst hr
          simp [hs.row_len i r0 h0]
      · split at hr
        · simp only [Option.some.injEq] at hr
          subst hr
          simp [adjCols_of_shape hs hne]
        · simp at hr
    · intro i
      simp only [adjAt_padAdj]
      exact hs.diag i
  | some b =>
    cases second with
    | none =>
      simp only [applyTopo]
      exact ⟨by simp [hs.cnt_len], by simp [hs.perm_len], by simp [hs.adj_len],
        by simpa using hs.row_len, hs.diag⟩
    | some c =>
      simp only [applyTopo]
      refine ⟨by simp [hs.cnt_len], by simp [hs.perm_len], by simp [incAdj_length, hs.adj_len], ?_, ?_⟩
      · intro i r hr
        obtain ⟨r0, h0, hl⟩ := incAdj_row_length b c s.adj i r hr
        simp only [List.length_modify]
        rw [hl]; exact hs.row_len i r0 h0
      · intro i
        rw [adjAt_incAdj]
        have hne' : b ≠ c := hbs b c rfl rfl
        have : ¬ (i = b ∧ i = c ∧ c < ((s.adj[b]?).getD []).length) := fun h => hne' (h.1 ▸ h.2.1)
        simp [this, hs.diag i]

/-- the winners of a step's search: best and second are different categories of `W` -/
theorem topoStepSearch_winners (K : TopoKernel X Wt α μ) (cfg : SearchCfg μ θ) (th0 : θ)
    (veto : Nat → Bool) (W : List Wt) (x : X) :
    let r := topoStepSearch K cfg th0 veto W x
    (∀ b, r.best = some b → b < W.length) ∧ (∀ c, r.second = some c → c < W.length) ∧
    (∀ b c, r.best = some b → r.second = some c → b ≠ c) ∧ (r.best = none → r.second = none) := by
  have h := topoSearch_winners cfg (topoMatchAt K W x) veto (topoActivations K W x).length
    (topoActivations K W x) th0 none (liveCount_le_length _)
  obtain ⟨_, h2, h3, h4, h5⟩ := h
  have hlen : (topoActivations K W x).length = W.length := by simp [topoActivations]
  refine ⟨?_, ?_, h4 rfl, h5⟩
  · intro b hb
    obtain ⟨v, hv⟩ := h3 rfl b hb
    have := (List.getElem?_eq_some_iff.mp hv).1
    omega
  · intro c hc
    obtain ⟨v, hv⟩ := h2 c hc
    have := (List.getElem?_eq_some_iff.mp hv).1
    omega

/-- **A step establishes the full shape invariant** (from the weak one: the
first sample of an empty model re-initialises adjacency and mask). -/
theorem topoStep_shape (K : TopoKernel X Wt α μ) (cfg : SearchCfg μ θ) (th0 : θ)
    (veto : Nat → Bool) (s : TopoState Wt) (x : X) (hs : WeakInv s) :
    ShapeInv (topoStep K cfg th0 veto s x).1 := by
  unfold topoStep
  split
  · rename_i he
    have hW : s.W = [] := List.isEmpty_iff.mp he
    have hc : s.cnt = [] := List.length_eq_zero_iff.mp (by rw [hs.1, hW]; rfl)
    refine ⟨by simp [hW, hc], by simp [hW], by simp [hW], ?_, ?_⟩
    · intro i r hr
      cases i with
      | zero => simp at hr; subst hr; simp [hW]
      | succ i => simp at hr
    · intro i
      cases i with
      | zero => simp [adjAt]
      | succ i => simp [adjAt]
  · rename_i he
    have hne : s.W ≠ [] := fun h => he (by simp [h])
    exact applyTopo_shape K s x _ _ (hs.2 hne) hne (topoStepSearch_winners K cfg th0 veto s.W x).2.2.1

theorem topoStep_W_ne (K : TopoKernel X Wt α μ) (cfg : SearchCfg μ θ) (th0 : θ)
    (veto : Nat → Bool) (s : TopoState Wt) (x : X) :
    (topoStep K cfg th0 veto s x).1.W ≠ [] := by
  unfold topoStep
  split
  · simp
  · rename_i he
    have hne : s.W ≠ [] := fun h => he (by simp [h])
    simp only [applyTopo]
    split
    · simp
    · split
      · intro h
        have := congrArg List.length h
        simp at this
        exact hne this
      · intro h
        have := congrArg List.length h
        simp at this
        exact hne this

end Step

/-! ### pruning -/

section Prune
variable {X α μ : Type} [LT α] [DecidableRel (α := α) (· < ·)]

theorem pruneKeep_lt {phi : Nat} {s : TopoState Wt} (hs : ShapeInv s) :
    ∀ i ∈ pruneKeep phi s, i < s.W.length := by
  intro i hi
  have := (mem_keepIdx.mp hi).1
  rw [pruneMask_length, hs.perm_len, hs.cnt_len] at this
  simpa using this

/-- the adjacency sub-matrix `adjacency[keep][:, keep]` -/
theorem adjAt_gather {keep : List Nat} {adj : List (List Nat)} {n : Nat}
    (hk : ∀ i ∈ keep, i < n) (hlen : adj.length = n)
    (hrow : ∀ (i : Nat) (r : List Nat), adj[i]? = some r → r.length = n)
    (j k : Nat) (hj : j < keep.length) (hk' : k < keep.length) :
    adjAt ((gather keep adj).map (gather keep)) j k = adjAt adj keep[j] keep[k] := by
  rw [adjAt_eq, adjAt_eq, List.getElem?_map, gather_getElem? (by simpa [hlen] using hk)]
  have hjn : keep[j] < n := hk _ (List.getElem_mem hj)
  simp only [List.getElem?_eq_getElem hj, Option.bind_some]
  rw [List.getElem?_eq_getElem (by omega : keep[j] < adj.length)]
  simp only [Option.map_some, Option.getD_some]
  have hr := hrow keep[j] _ (List.getElem?_eq_getElem (by omega : keep[j] < adj.length))
  rw [gather_getElem? (by intro i hi; rw [hr]; exact hk i hi)]
  simp [List.getElem?_eq_getElem hk']

/-- **Pruning preserves the shape invariant.** -/
theorem prune_shape (K : TopoKernel X Wt α μ) (phi : Nat) (s : TopoState Wt) (xs : List X)
    (hs : ShapeInv s) : ShapeInv (prune K phi s xs) := by
  have hk := pruneKeep_lt (phi := phi) hs
  have hkW : ∀ i ∈ keepIdx (pruneMask phi s), i < s.W.length := hk
  have hml : (pruneMask phi s).length = s.W.length := by
    rw [pruneMask_length, hs.perm_len, hs.cnt_len]; simp
  have hW : (gather (keepIdx (pruneMask phi s)) s.W).length = (keepIdx (pruneMask phi s)).length :=
    gather_length hkW
  simp only [prune]
  refine ⟨?_, ?_, ?_, ?_, ?_⟩
  · simp only [hW]; exact gather_length (by simpa [hs.cnt_len] using hkW)
  · simp only [hW]; exact gather_length (by simpa [hml] using hkW)
  · simp only [hW, List.length_map]; exact gather_length (by simpa [hs.adj_len] using hkW)
  · intro i r hr
    simp only [hW]
    rw [List.getElem?_map] at hr
    cases hg : (gather (keepIdx (pruneMask phi s)) s.adj)[i]? with
    | none => simp [hg] at hr
    | some r0 =>
      simp only [hg, Option.map_some, Option.some.injEq] at hr
      subst hr
      have hmem : r0 ∈ s.adj := by
        have : r0 ∈ gather (keepIdx (pruneMask phi s)) s.adj := List.mem_of_getElem? hg
        simp only [gather, List.mem_filterMap] at this
        obtain ⟨a, _, ha⟩ := this
        exact List.mem_of_getElem? ha
      obtain ⟨i0, hi0⟩ := List.getElem?_of_mem hmem
      have := hs.row_len i0 r0 hi0
      exact gather_length (by simpa [this] using hkW)
  · intro i
    by_cases hi : i < (keepIdx (pruneMask phi s)).length
    · rw [adjAt_gather hkW hs.adj_len hs.row_len i i hi hi]
      exact hs.diag _
    · have hlen : (gather (keepIdx (pruneMask phi s)) s.adj).length ≤ i := by
        rw [gather_length (by simpa [hs.adj_len] using hkW)]; omega
      rw [adjAt_eq, List.getElem?_map, List.getElem?_eq_none hlen]
      simp

end Prune

end Shape

/-! ## C. the training loops -/

section Loops
variable {Wt X α μ θ : Type} [LinearOrder α]

theorem ShapeInv.congr {s s' : TopoState Wt} (h : ShapeInv s) (hW : s'.W = s.W)
    (hc : s'.cnt = s.cnt) (ha : s'.adj = s.adj) (hp : s'.perm = s.perm) : ShapeInv s' :=
  ⟨by rw [hc, hW]; exact h.cnt_len, by rw [hp, hW]; exact h.perm_len,
   by rw [ha, hW]; exact h.adj_len, by rw [ha, hW]; exact h.row_len, by rw [ha]; exact h.diag⟩

theorem WeakInv.congr {s s' : TopoState Wt} (h : WeakInv s) (hW : s'.W = s.W)
    (hc : s'.cnt = s.cnt) (ha : s'.adj = s.adj) (hp : s'.perm = s.perm) : WeakInv s' :=
  ⟨by rw [hc, hW]; exact h.1, fun hne => (h.2 (by rwa [hW] at hne)).congr hW hc ha hp⟩

theorem shapeInv_empty : ShapeInv ({} : TopoState Wt) :=
  ⟨rfl, rfl, rfl, by intro i r h; simp at h, by intro i; simp [adjAt]⟩

/-- invariants of a left fold: `I` before, `J` after at least one step -/
theorem topo_foldl_inv {S P : Type} (f : S → P → S) (I J : S → Prop) (hJI : ∀ s, J s → I s)
    (hstep : ∀ s p, I s → J (f s p)) :
    ∀ (l : List P) (s : S), I s → (l ≠ [] → J (l.foldl f s)) ∧ I (l.foldl f s)
  | [], s, h => ⟨fun h => absurd rfl h, h⟩
  | p :: ps, s, h => by
    have hj := hstep s p h
    have ih := topo_foldl_inv f I J hJI hstep ps (f s p) (hJI _ hj)
    refine ⟨fun _ => ?_, ih.2⟩
    cases ps with
    | nil => exact hj
    | cons q qs => exact ih.1 (by simp)

/-- an invariant indexed by the number of samples presented so far -/
theorem topo_foldl_zipIdx_inv {S P : Type} (f : S → P × Nat → S) (I : Nat → S → Prop)
    (hstep : ∀ k s p, I k s → I (k + 1) (f s (p, k))) :
    ∀ (l : List P) (k : Nat) (s : S), I k s → I (k + l.length) ((l.zipIdx k).foldl f s)
  | [], k, s, h => by simpa using h
  | p :: ps, k, s, h => by
    rw [List.zipIdx_cons, List.foldl_cons]
    have := topo_foldl_zipIdx_inv f I hstep ps (k + 1) _ (hstep k s p h)
    simpa [Nat.add_assoc, Nat.add_comm 1] using this

variable (K : TopoKernel X Wt α μ) (cfg : SearchCfg μ θ) (th0 : θ)
  (veto : TopoState Wt → X → Nat → Bool) (tau phi : Nat)

theorem topoFitStep_shape (xs : List X) (s : TopoState Wt) (xi : X × Nat) (hs : WeakInv s) :
    ShapeInv (topoFitStep K cfg th0 veto tau phi xs s xi) := by
  have h1 := topoStep_shape K cfg th0 (veto s xi.1) s xi.1 hs
  rcases hst : topoStep K cfg th0 (veto s xi.1) s xi.1 with ⟨s1, c⟩
  rw [hst] at h1
  simp only [topoFitStep, hst]
  have h2 : ShapeInv { s1 with labels := s1.labels.set xi.2 (c : Int) } := h1.congr rfl rfl rfl rfl
  split
  · exact prune_shape K phi _ xs h2
  · exact h2

theorem topoPFitStep_shape (s : TopoState Wt) (xi : X × Nat) (hs : WeakInv s) :
    ShapeInv (topoPFitStep K cfg th0 veto s xi) := by
  have h1 := topoStep_shape K cfg th0 (veto s xi.1) s xi.1 hs
  rcases hst : topoStep K cfg th0 (veto s xi.1) s xi.1 with ⟨s1, c⟩
  rw [hst] at h1
  simp only [topoPFitStep, hst]
  exact h1.congr rfl rfl rfl rfl

theorem weakInv_fitInit (s : TopoState Wt) (n : Nat) : WeakInv (topoFitInit s n) :=
  ⟨rfl, fun h => absurd rfl h⟩

/-- `fit` on at least one row ends in a state with the full shape invariant,
whatever the state before; on zero rows only the weak invariant holds (the
adjacency matrix of the previous fit is still there). -/
theorem topoFit_shape (s : TopoState Wt) (xs : List X) :
    (xs ≠ [] → ShapeInv (topoFit K cfg th0 veto tau phi s xs)) ∧
      WeakInv (topoFit K cfg th0 veto tau phi s xs) := by
  have := topo_foldl_inv (topoFitStep K cfg th0 veto tau phi xs) WeakInv ShapeInv
    (fun _ h => h.weak) (fun s p h => topoFitStep_shape K cfg th0 veto tau phi xs s p h)
    xs.zipIdx (topoFitInit s xs.length) (weakInv_fitInit s _)
  refine ⟨fun hne => this.1 ?_, this.2⟩
  intro h
  exact hne (by simpa using congrArg (List.map Prod.fst) h)

theorem topoPartialFit_shape (s : TopoState Wt) (xs : List X) :
    (WeakInv s → WeakInv (topoPartialFit K cfg th0 veto s xs)) ∧
      (ShapeInv s → ShapeInv (topoPartialFit K cfg th0 veto s xs)) := by
  have key := fun h0 => topo_foldl_inv (topoPFitStep K cfg th0 veto) WeakInv ShapeInv
    (fun _ h => h.weak) (fun s p h => topoPFitStep_shape K cfg th0 veto s p h)
    (xs.zipIdx s.labels.length) (topoPFitInit s xs.length) h0
  constructor
  · intro h
    exact (key (h.congr rfl rfl rfl rfl)).2
  · intro h
    cases xs with
    | nil => exact h.congr rfl rfl rfl rfl
    | cons x xs =>
      exact (key (h.weak.congr rfl rfl rfl rfl)).1 (by simp [List.zipIdx_cons])

/-- no `fit` call of the history has zero rows -/
def FitsNonempty : List (TopoCall X) → Prop
  | [] => True
  | .fit xs :: cs => xs ≠ [] ∧ FitsNonempty cs
  | .pfit _ :: cs => FitsNonempty cs

theorem topoRun_weak (s : TopoState Wt) (calls : List (TopoCall X)) (hs : WeakInv s) :
    WeakInv (topoRun K cfg th0 veto tau phi s calls) := by
  induction calls generalizing s with
  | nil => exact hs
  | cons c cs ih =>
    cases c with
    | fit xs => exact ih _ (topoFit_shape K cfg th0 veto tau phi s xs).2
    | pfit xs => exact ih _ ((topoPartialFit_shape K cfg th0 veto s xs).1 hs)

theorem topoRun_shape (s : TopoState Wt) (calls : List (TopoCall X)) (hs : ShapeInv s)
    (hc : FitsNonempty calls) : ShapeInv (topoRun K cfg th0 veto tau phi s calls) := by
  induction calls generalizing s with
  | nil => exact hs
  | cons c cs ih =>
    cases c with
    | fit xs => exact ih _ ((topoFit_shape K cfg th0 veto tau phi s xs).1 hc.1) hc.2
    | pfit xs => exact ih _ ((topoPartialFit_shape K cfg th0 veto s xs).2 hs) hc

/-! ### labels -/

/-- a label is −1 or the index of a category -/
def LabelOk (n : Nat) (l : Int) : Prop := l = -1 ∨ (0 ≤ l ∧ l < (n : Int))

theorem LabelOk.mono {n m : Nat} {l : Int} (h : LabelOk n l) (hnm : n ≤ m) : LabelOk m l := by
  rcases h with h | ⟨h0, h1⟩
  · exact Or.inl h
  · exact Or.inr ⟨h0, by omega⟩

/-- the first `k` labels are in range -/
def LabelsInv (k : Nat) (s : TopoState Wt) : Prop :=
  ∀ (i : Nat) (l : Int), i < k → s.labels[i]? = some l → LabelOk s.W.length l

theorem argmaxNp_lt {T : List (Option α)} {c : Nat} (h : argmaxNp T = some c) : c < T.length := by
  unfold argmaxNp at h
  split at h
  · rename_i i hi
    simp only [Option.some.injEq] at h; subst h
    exact (List.findIdx?_eq_some_iff_getElem.mp hi).1
  · exact nanargmax_lt_length h

theorem argmaxNp_isSome {T : List (Option α)} (hne : T ≠ []) : ∃ c, argmaxNp T = some c := by
  unfold argmaxNp
  split
  · rename_i i _; exact ⟨i, rfl⟩
  · rename_i hnone
    cases hn : nanargmax T with
    | some c => exact ⟨c, rfl⟩
    | none =>
      exfalso
      obtain ⟨t, ts, rfl⟩ := List.exists_cons_of_ne_nil hne
      have h1 := nanargmax_eq_none_iff.mp hn t (by simp)
      have h2 := List.findIdx?_eq_none_iff.mp hnone t (by simp)
      simp [h1] at h2

theorem topoPredLabel_ok (W : List Wt) (x : X) : LabelOk W.length (topoPredLabel K W x) := by
  unfold topoPredLabel
  split
  · rename_i c hc
    have := argmaxNp_lt hc
    simp only [topoActivations, List.length_map] at this
    exact Or.inr ⟨by omega, by omega⟩
  · exact Or.inl rfl

theorem topoPredLabel_nonneg (W : List Wt) (x : X) (hne : W ≠ []) : 0 ≤ topoPredLabel K W x := by
  unfold topoPredLabel
  obtain ⟨c, hc⟩ := argmaxNp_isSome (T := topoActivations K W x) (by simpa [topoActivations] using hne)
  simp [hc]

theorem relabel_ok (keep : List Nat) (W' : List Wt) (x : X) (l : Int)
    (hlen : W'.length = keep.length) : LabelOk W'.length (relabel K keep W' x l) := by
  unfold relabel
  split
  · rename_i h
    have := List.idxOf_lt_length_iff.mpr h.2
    exact Or.inr ⟨by omega, by omega⟩
  · split
    · exact topoPredLabel_ok K W' x
    · exact Or.inl rfl

theorem relabel_nonneg (keep : List Nat) (W' : List Wt) (x : X) (l : Int) (hne : W' ≠ []) :
    0 ≤ relabel K keep W' x l := by
  unfold relabel
  split
  · omega
  · split
    · exact topoPredLabel_nonneg K W' x hne
    · rename_i h; simp [hne] at h

/-- the label returned by a step indexes a category of the new state; the model only grows -/
theorem topoStep_label (vt : Nat → Bool) (s : TopoState Wt) (x : X) :
    (topoStep K cfg th0 vt s x).2 < (topoStep K cfg th0 vt s x).1.W.length ∧
    s.W.length ≤ (topoStep K cfg th0 vt s x).1.W.length ∧
    (topoStep K cfg th0 vt s x).1.labels = s.labels := by
  unfold topoStep
  split
  · simp
  · have hw := topoStepSearch_winners K cfg th0 vt s.W x
    simp only [applyTopo]
    split
    · simp
    · rename_i b hb
      have := hw.1 b hb
      split <;> simp [this]

/-- all labels of rows of `X` are in range after a pruning round -/
theorem prune_labels_ok (s : TopoState Wt) (xs : List X) (hs : ShapeInv s)
    (hlen : s.labels.length ≤ xs.length) :
    ∀ (i : Nat) (l : Int), (prune K phi s xs).labels[i]? = some l →
      LabelOk (prune K phi s xs).W.length l := by
  intro i l hl
  simp only [prune, List.getElem?_mapIdx] at hl ⊢
  cases h0 : s.labels[i]? with
  | none => simp [h0] at hl
  | some l0 =>
    have hi : i < xs.length := by
      have := (List.getElem?_eq_some_iff.mp h0).1; omega
    simp only [h0, Option.map_some, List.getElem?_eq_getElem hi, Option.some.injEq] at hl
    subst hl
    exact relabel_ok K _ _ _ _ (gather_length (pruneKeep_lt (phi := phi) hs))

theorem topoFitStep_labels (xs : List X) (k : Nat) (s : TopoState Wt) (x : X)
    (hs : WeakInv s) (hlen : s.labels.length = xs.length) (hl : LabelsInv k s) :
    (topoFitStep K cfg th0 veto tau phi xs s (x, k)).labels.length = xs.length ∧
      LabelsInv (k + 1) (topoFitStep K cfg th0 veto tau phi xs s (x, k)) := by
  have h1 := topoStep_shape K cfg th0 (veto s x) s x hs
  have h2 := topoStep_label K cfg th0 (veto s x) s x
  rcases hst : topoStep K cfg th0 (veto s x) s x with ⟨s1, c⟩
  rw [hst] at h1 h2
  simp only at h2
  obtain ⟨hc, hgrow, hlab⟩ := h2
  simp only [topoFitStep, hst]
  have hinv2 : LabelsInv (k + 1) { s1 with labels := s1.labels.set k (c : Int) } := by
    intro i l hi hil
    simp only [List.getElem?_set] at hil
    split at hil
    · split at hil
      · simp only [Option.some.injEq] at hil; subst hil
        exact (Or.inr ⟨by omega, by omega⟩ : LabelOk s1.W.length (c : Int))
      · simp at hil
    · rename_i hne
      rw [hlab] at hil
      exact (hl i l (by omega) hil).mono hgrow
  have h1' : ShapeInv { s1 with labels := s1.labels.set k (c : Int) } := h1.congr rfl rfl rfl rfl
  split
  · refine ⟨by simp [prune, hlab, hlen], ?_⟩
    intro i l _ hil
    exact prune_labels_ok K phi _ xs h1' (by simp [hlab, hlen]) i l hil
  · exact ⟨by simp [hlab, hlen], hinv2⟩

/-- **Labels after `fit`**: one per row, each −1 or the index of a category. -/
theorem topoFit_labels (s : TopoState Wt) (xs : List X) :
    (topoFit K cfg th0 veto tau phi s xs).labels.length = xs.length ∧
      LabelsInv xs.length (topoFit K cfg th0 veto tau phi s xs) := by
  have := topo_foldl_zipIdx_inv (topoFitStep K cfg th0 veto tau phi xs)
    (fun k s => WeakInv s ∧ s.labels.length = xs.length ∧ LabelsInv k s)
    (fun k s p ⟨hw, hlen, hl⟩ =>
      ⟨(topoFitStep_shape K cfg th0 veto tau phi xs s (p, k) hw).weak,
       topoFitStep_labels K cfg th0 veto tau phi xs k s p hw hlen hl⟩)
    xs 0 (topoFitInit s xs.length)
    ⟨weakInv_fitInit s _, by simp [topoFitInit], fun i l hi _ => absurd hi (by omega)⟩
  simpa [topoFit] using this.2

theorem topoPFitStep_labels (k : Nat) (s : TopoState Wt) (x : X) (hl : LabelsInv k s) :
    (topoPFitStep K cfg th0 veto s (x, k)).labels.length = s.labels.length ∧
      LabelsInv (k + 1) (topoPFitStep K cfg th0 veto s (x, k)) := by
  have h2 := topoStep_label K cfg th0 (veto s x) s x
  rcases hst : topoStep K cfg th0 (veto s x) s x with ⟨s1, c⟩
  rw [hst] at h2
  simp only at h2
  obtain ⟨hc, hgrow, hlab⟩ := h2
  simp only [topoPFitStep, hst]
  refine ⟨by simp [hlab], ?_⟩
  intro i l hi hil
  simp only [List.getElem?_set] at hil
  split at hil
  · split at hil
    · simp only [Option.some.injEq] at hil; subst hil
      exact (Or.inr ⟨by omega, by omega⟩ : LabelOk s1.W.length (c : Int))
    · simp at hil
  · rw [hlab] at hil
    exact (hl i l (by omega) hil).mono hgrow

/-- **Labels after `partial_fit`**: if all labels were in range before, all are after. -/
theorem topoPartialFit_labels (s : TopoState Wt) (xs : List X)
    (hl : LabelsInv s.labels.length s) :
    LabelsInv (topoPartialFit K cfg th0 veto s xs).labels.length
      (topoPartialFit K cfg th0 veto s xs) := by
  have := topo_foldl_zipIdx_inv (topoPFitStep K cfg th0 veto)
    (fun k t => t.labels.length = s.labels.length + xs.length ∧ LabelsInv k t)
    (fun k t p ⟨hlen, hl⟩ =>
      ⟨by rw [(topoPFitStep_labels K cfg th0 veto k t p hl).1, hlen],
       (topoPFitStep_labels K cfg th0 veto k t p hl).2⟩)
    xs s.labels.length (topoPFitInit s xs.length)
    ⟨by simp [topoPFitInit], by
      intro i l hi hil
      simp only [topoPFitInit, List.getElem?_append_left hi] at hil
      exact hl i l hi hil⟩
  unfold topoPartialFit
  rw [this.1]
  exact this.2

theorem topoRun_labels (s : TopoState Wt) (calls : List (TopoCall X))
    (hl : LabelsInv s.labels.length s) :
    LabelsInv (topoRun K cfg th0 veto tau phi s calls).labels.length
      (topoRun K cfg th0 veto tau phi s calls) := by
  induction calls generalizing s with
  | nil => exact hl
  | cons c cs ih =>
    cases c with
    | fit xs =>
      refine ih _ ?_
      have := topoFit_labels K cfg th0 veto tau phi s xs
      rw [this.1]; exact this.2
    | pfit xs => exact ih _ (topoPartialFit_labels K cfg th0 veto s xs hl)

/-! ### −1 only after a wipe-out -/

theorem topo_foldl_trace_inv {S P : Type} (f : S → P → S) (Q G : S → Prop)
    (hstep : ∀ s p, Q s → G (f s p) → Q (f s p)) :
    ∀ (l : List P) (s : S), Q s → (∀ t ∈ topoTrace f s l, G t) → Q (l.foldl f s)
  | [], s, h, _ => h
  | p :: ps, s, h, hg => by
    simp only [topoTrace, List.mem_cons, forall_eq_or_imp] at hg
    exact topo_foldl_trace_inv f Q G hstep ps (f s p) (hstep s p h hg.1) hg.2

theorem topoFitStep_nonneg (xs : List X) (s : TopoState Wt) (xi : X × Nat)
    (hq : ∀ l ∈ s.labels, (0 : Int) ≤ l)
    (hg : (topoFitStep K cfg th0 veto tau phi xs s xi).n % tau = 0 →
      (topoFitStep K cfg th0 veto tau phi xs s xi).W ≠ []) :
    ∀ l ∈ (topoFitStep K cfg th0 veto tau phi xs s xi).labels, (0 : Int) ≤ l := by
  have h2 := topoStep_label K cfg th0 (veto s xi.1) s xi.1
  rcases hst : topoStep K cfg th0 (veto s xi.1) s xi.1 with ⟨s1, c⟩
  rw [hst] at h2
  simp only at h2
  obtain ⟨_, _, hlab⟩ := h2
  simp only [topoFitStep, hst] at hg ⊢
  have hq2 : ∀ l ∈ s1.labels.set xi.2 (c : Int), (0 : Int) ≤ l := by
    intro l hl
    rcases List.mem_or_eq_of_mem_set hl with h | h
    · exact hq l (hlab ▸ h)
    · omega
  split
  · rename_i hp
    rw [if_pos hp] at hg
    have hne := hg (by simpa [prune] using hp)
    intro l hl
    simp only [prune, List.mem_mapIdx] at hl hne
    obtain ⟨i, hi, rfl⟩ := hl
    split
    · exact relabel_nonneg K _ _ _ _ hne
    · exact hq2 _ (List.getElem_mem _)
  · exact hq2

/-- **−1 only after a wipe-out.**  If no pruning round of a `fit` left the model
empty, no label is negative. -/
theorem topoFit_nonneg (s : TopoState Wt) (xs : List X)
    (hg : ∀ t ∈ topoFitTrace K cfg th0 veto tau phi s xs, t.n % tau = 0 → t.W ≠ []) :
    ∀ l ∈ (topoFit K cfg th0 veto tau phi s xs).labels, (0 : Int) ≤ l :=
  topo_foldl_trace_inv (topoFitStep K cfg th0 veto tau phi xs)
    (fun s => ∀ l ∈ s.labels, (0 : Int) ≤ l) (fun t => t.n % tau = 0 → t.W ≠ [])
    (fun s p hq hg => topoFitStep_nonneg K cfg th0 veto tau phi xs s p hq hg)
    xs.zipIdx (topoFitInit s xs.length)
    (by intro l hl; simp only [topoFitInit, List.mem_replicate] at hl; omega) hg


/-! ### every intermediate state -/

theorem topo_trace_inv {S P : Type} (f : S → P → S) (I J : S → Prop) (hJI : ∀ s, J s → I s)
    (hstep : ∀ s p, I s → J (f s p)) :
    ∀ (l : List P) (s : S), I s → ∀ t ∈ topoTrace f s l, J t
  | [], _, _, t, ht => by simp [topoTrace] at ht
  | p :: ps, s, h, t, ht => by
    simp only [topoTrace, List.mem_cons] at ht
    rcases ht with rfl | ht
    · exact hstep s p h
    · exact topo_trace_inv f I J hJI hstep ps (f s p) (hJI _ (hstep s p h)) t ht

theorem topoFitTrace_shape (s : TopoState Wt) (xs : List X) :
    ∀ t ∈ topoFitTrace K cfg th0 veto tau phi s xs, ShapeInv t :=
  topo_trace_inv (topoFitStep K cfg th0 veto tau phi xs) WeakInv ShapeInv (fun _ h => h.weak)
    (fun s p h => topoFitStep_shape K cfg th0 veto tau phi xs s p h) xs.zipIdx _
    (weakInv_fitInit s _)

theorem topoPFitTrace_shape (s : TopoState Wt) (xs : List X) (hs : WeakInv s) :
    ∀ t ∈ topoPFitTrace K cfg th0 veto s xs, ShapeInv t :=
  topo_trace_inv (topoPFitStep K cfg th0 veto) WeakInv ShapeInv (fun _ h => h.weak)
    (fun s p h => topoPFitStep_shape K cfg th0 veto s p h) _ _ (hs.congr rfl rfl rfl rfl)

/-- the permanence flags of a pruned state are all set -/
theorem prune_perm_all_true (s : TopoState Wt) (xs : List X) :
    ∀ b ∈ (prune K phi s xs).perm, b = true := by
  intro b hb
  simp only [prune, gather, List.mem_filterMap] at hb
  obtain ⟨i, hi, hib⟩ := hb
  have := (mem_keepIdx.mp hi).2
  rw [this] at hib
  exact (Option.some.inj hib).symm

/-- **The schedule of `fit`.**  A state of the fit trace whose sample counter is a
multiple of `tau` is the result of a pruning round: every category is permanent. -/
theorem topoFitTrace_schedule (s : TopoState Wt) (xs : List X) :
    ∀ t ∈ topoFitTrace K cfg th0 veto tau phi s xs, t.n % tau = 0 → ∀ b ∈ t.perm, b = true := by
  refine topo_trace_inv (topoFitStep K cfg th0 veto tau phi xs) (fun _ => True)
    (fun t => t.n % tau = 0 → ∀ b ∈ t.perm, b = true) (fun _ _ => trivial) ?_ xs.zipIdx _ trivial
  intro s p _
  rcases hst : topoStep K cfg th0 (veto s p.1) s p.1 with ⟨s1, c⟩
  simp only [topoFitStep, hst]
  split
  · intro _; exact prune_perm_all_true K phi _ xs
  · rename_i hn
    intro h
    exact absurd (by simpa using h) hn

end Loops

end Art
