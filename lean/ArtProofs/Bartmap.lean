/-
ArtProofs.Bartmap — helper lemmas for C17 (BARTMAP checkerboard):
closed forms of `rowsOf` / `columnsOf`, the "exactly one index" lemma for
`cellBiclusters`, and the label-range invariant of the generic training fold
(the part of C05 that C17 needs).  Everything lives in `Art.Bartmap` so that it cannot clash
with the lemmas of other slices.
-/
import ArtProofs.Search
import ArtModel.Bartmap

namespace Art.Bartmap

/-! ### a-major blocks -/

/-- An `a`-major double comprehension is a single map over `range (na·nb)`
that reads `a = k / nb`, `b = k % nb`. -/
theorem flatMap_range_blocks {γ : Type} (g : Nat → Nat → γ) (na nb : Nat) :
    (List.range na).flatMap (fun a => (List.range nb).map (g a)) =
      (List.range (na * nb)).map (fun k => g (k / nb) (k % nb)) := by
  induction na with
  | zero => simp
  | succ n ih =>
    rw [List.range_succ, List.flatMap_append, ih, Nat.succ_mul, List.range_add, List.map_append]
    congr 1
    simp only [List.flatMap_cons, List.flatMap_nil, List.append_nil, List.map_map]
    apply List.map_congr_left
    intro b hb
    have hb' : b < nb := List.mem_range.mp hb
    have hpos : 0 < nb := by omega
    simp only [Function.comp]
    have h1 : (n * nb + b) / nb = n := by
      rw [Nat.mul_comm, Nat.mul_add_div hpos, Nat.div_eq_of_lt hb']; rfl
    have h2 : (n * nb + b) % nb = b := by
      rw [Nat.mul_comm, Nat.mul_add_mod, Nat.mod_eq_of_lt hb']
    rw [h1, h2]

theorem rowsOf_eq (na nb : Nat) (L : List Nat) :
    rowsOf na nb L = (List.range (na * nb)).map (fun k => L.map (· == k / nb)) :=
  flatMap_range_blocks (fun a _ => L.map (· == a)) na nb

theorem columnsOf_eq (na nb : Nat) (C : List Nat) :
    columnsOf na nb C = (List.range (na * nb)).map (fun k => C.map (· == k % nb)) :=
  flatMap_range_blocks (fun _ b => C.map (· == b)) na nb

theorem rowsOf_length (na nb : Nat) (L : List Nat) : (rowsOf na nb L).length = na * nb := by
  simp [rowsOf_eq]

theorem columnsOf_length (na nb : Nat) (C : List Nat) : (columnsOf na nb C).length = na * nb := by
  simp [columnsOf_eq]

theorem rowsOf_getElem? (na nb : Nat) (L : List Nat) (k : Nat) :
    (rowsOf na nb L)[k]? = if k < na * nb then some (L.map (· == k / nb)) else none := by
  rw [rowsOf_eq, List.getElem?_map]
  by_cases hk : k < na * nb
  · simp [hk]
  · simp [hk]

theorem columnsOf_getElem? (na nb : Nat) (C : List Nat) (k : Nat) :
    (columnsOf na nb C)[k]? = if k < na * nb then some (C.map (· == k % nb)) else none := by
  rw [columnsOf_eq, List.getElem?_map]
  by_cases hk : k < na * nb
  · simp [hk]
  · simp [hk]

/-- `a·nb + b` is a valid pair index and decodes to `(a, b)`. -/
theorem pair_index {na nb a b : Nat} (ha : a < na) (hb : b < nb) :
    a * nb + b < na * nb ∧ (a * nb + b) / nb = a ∧ (a * nb + b) % nb = b := by
  have hpos : 0 < nb := by omega
  refine ⟨?_, ?_, ?_⟩
  · calc a * nb + b < a * nb + nb := by omega
      _ = (a + 1) * nb := (Nat.succ_mul a nb).symm
      _ ≤ na * nb := Nat.mul_le_mul_right nb ha
  · rw [Nat.mul_comm, Nat.mul_add_div hpos, Nat.div_eq_of_lt hb]; rfl
  · rw [Nat.mul_comm, Nat.mul_add_mod, Nat.mod_eq_of_lt hb]

/-- a pair index `k < na·nb` is `(k / nb)·nb + k % nb` with both parts in range -/
theorem pair_decode {na nb k : Nat} (hk : k < na * nb) :
    k / nb < na ∧ k % nb < nb ∧ k = k / nb * nb + k % nb := by
  have hpos : 0 < nb := by
    rcases Nat.eq_zero_or_pos nb with h | h
    · subst h; simp at hk
    · exact h
  refine ⟨?_, Nat.mod_lt _ hpos, ?_⟩
  · exact (Nat.div_lt_iff_lt_mul hpos).mpr hk
  · rw [Nat.mul_comm]; exact (Nat.div_add_mod k nb).symm

theorem memberAt_rowsOf (na nb : Nat) (L : List Nat) (k i : Nat) :
    memberAt (rowsOf na nb L) k i = (decide (k < na * nb) && decide (L[i]? = some (k / nb))) := by
  simp only [memberAt, rowsOf_getElem?]
  by_cases hk : k < na * nb
  · simp only [hk, if_true, Option.bind_some, List.getElem?_map, decide_true, Bool.true_and]
    cases h : L[i]? with
    | none => simp
    | some l => simp [beq_eq_decide]
  · simp [hk]

theorem memberAt_columnsOf (na nb : Nat) (C : List Nat) (k j : Nat) :
    memberAt (columnsOf na nb C) k j = (decide (k < na * nb) && decide (C[j]? = some (k % nb))) := by
  simp only [memberAt, columnsOf_getElem?]
  by_cases hk : k < na * nb
  · simp only [hk, if_true, Option.bind_some, List.getElem?_map, decide_true, Bool.true_and]
    cases h : C[j]? with
    | none => simp
    | some l => simp [beq_eq_decide]
  · simp [hk]

/-! ### exactly one index -/

/-- If `k₀ < n` is the only index below `n` that satisfies `p`, filtering
`range n` by `p` leaves exactly `[k₀]`. -/
theorem filter_range_unique (p : Nat → Bool) (n k₀ : Nat) (h0 : k₀ < n)
    (hp : ∀ k, k < n → (p k = true ↔ k = k₀)) : (List.range n).filter p = [k₀] := by
  obtain ⟨m, rfl⟩ : ∃ m, n = k₀ + (1 + m) := ⟨n - k₀ - 1, by omega⟩
  rw [List.range_add, List.range_add, List.map_append, List.filter_append, List.filter_append]
  have e1 : (List.range k₀).filter p = [] := by
    rw [List.filter_eq_nil_iff]
    intro k hk
    have hk' := List.mem_range.mp hk
    have := hp k (by omega)
    intro hpk
    have := this.mp hpk
    omega
  have e2 : ((List.range 1).map (k₀ + ·)).filter p = [k₀] := by
    have : p k₀ = true := (hp k₀ h0).mpr rfl
    simp [List.range_succ, this]
  have e3 : (((List.range m).map (1 + ·)).map (k₀ + ·)).filter p = [] := by
    rw [List.filter_eq_nil_iff]
    intro k hk
    simp only [List.mem_map, List.mem_range] at hk
    obtain ⟨x, ⟨y, hy, rfl⟩, rfl⟩ := hk
    intro hpk
    have := (hp _ (by omega)).mp hpk
    omega
  rw [e1, e2, e3]; rfl

/-- If no index below `n` satisfies `p`, nothing is left. -/
theorem filter_range_none (p : Nat → Bool) (n : Nat) (hp : ∀ k, k < n → p k = false) :
    (List.range n).filter p = [] := by
  rw [List.filter_eq_nil_iff]
  intro k hk
  simp [hp k (List.mem_range.mp hk)]

/-! ### the generic fold keeps labels in range (C05 fragment) -/

section
set_option linter.unusedSectionVars false
variable {X Wt α μ θ : Type} [LinearOrder α]

theorem strikeVetoed_length (tilde : Bool) (veto : Nat → Bool) (T : List (Option α)) :
    (strikeVetoed tilde veto T).length = T.length := by
  unfold strikeVetoed; split <;> simp

/-- `search_winner_lt`: a resonating category indexes the weight list. -/
theorem stepSearch_winner_lt (K : Kernel X Wt α μ) (cfg : SearchCfg μ θ) (th0 : θ)
    (veto : Nat → Bool) (W : List Wt) (x : X) (c : Nat)
    (h : (stepSearch K cfg th0 veto W x).winner = some c) : c < W.length := by
  unfold stepSearch at h
  obtain ⟨⟨v, hv⟩, _⟩ := search_winner_sound cfg (matchAt K W x) veto _ _ th0
    (liveCount_le_length _) c h
  have := (List.getElem?_eq_some_iff.mp hv).1
  simpa [strikeVetoed_length, activations] using this

/-- One training step: the weight list never shrinks, grows by at most one, and
the returned label indexes the new weight list. -/
theorem stepFit_label_lt (K : Kernel X Wt α μ) (cfg : SearchCfg μ θ) (th0 : θ)
    (veto : Nat → Bool) (s : ArtState Wt) (x : X) :
    s.W.length ≤ (stepFit K cfg th0 veto s x).1.W.length ∧
    (stepFit K cfg th0 veto s x).1.W.length ≤ s.W.length + 1 ∧
    (stepFit K cfg th0 veto s x).2 < (stepFit K cfg th0 veto s x).1.W.length ∧
    (stepFit K cfg th0 veto s x).1.labels = s.labels := by
  have hnew : ∀ s : ArtState Wt, s.W.length ≤ (applyWinner K s x none).1.W.length ∧
      (applyWinner K s x none).1.W.length ≤ s.W.length + 1 ∧
      (applyWinner K s x none).2 < (applyWinner K s x none).1.W.length ∧
      (applyWinner K s x none).1.labels = s.labels := by
    intro s; simp [applyWinner]
  unfold stepFit
  split
  · exact hnew s
  · cases hw : (stepSearch K cfg th0 veto s.W x).winner with
    | none => exact hnew s
    | some c =>
      have hc := stepSearch_winner_lt K cfg th0 veto s.W x c hw
      simp only [applyWinner]
      rw [List.getElem?_eq_getElem hc]
      simp [hc]

/-- **Label range.**  If every label so far is below the number of categories,
the same holds after a batch; and there is one new label per sample. -/
theorem partialFit_labels_lt (K : Kernel X Wt α μ) (cfg : SearchCfg μ θ) (th0 : θ)
    (veto : ArtState Wt → X → Nat → Bool) (s : ArtState Wt) (xs : List X)
    (h : ∀ l ∈ s.labels, l < s.W.length) :
    (∀ l ∈ (partialFit K cfg th0 veto s xs).labels, l < (partialFit K cfg th0 veto s xs).W.length) ∧
    (partialFit K cfg th0 veto s xs).labels.length = s.labels.length + xs.length ∧
    s.W.length ≤ (partialFit K cfg th0 veto s xs).W.length ∧
    (partialFit K cfg th0 veto s xs).W.length ≤ s.W.length + xs.length := by
  induction xs generalizing s with
  | nil => exact ⟨by simpa [partialFit] using h, by simp [partialFit]⟩
  | cons x xs ih =>
    have hs := stepFit_label_lt K cfg th0 (veto s x) s x
    obtain ⟨h1, h2, h3, h4⟩ := hs
    have hstep : ∀ l ∈ (trainStep K cfg th0 veto s x).labels,
        l < (trainStep K cfg th0 veto s x).W.length := by
      intro l hl
      simp only [trainStep, h4, List.mem_append, List.mem_singleton] at hl ⊢
      rcases hl with hl | rfl
      · exact Nat.lt_of_lt_of_le (h l hl) h1
      · exact h3
    have hW : (trainStep K cfg th0 veto s x).W = (stepFit K cfg th0 (veto s x) s x).1.W := rfl
    have hL : (trainStep K cfg th0 veto s x).labels.length = s.labels.length + 1 := by
      simp [trainStep, h4]
    obtain ⟨i1, i2, i3, i4⟩ := ih (trainStep K cfg th0 veto s x) hstep
    have e : partialFit K cfg th0 veto s (x :: xs) =
        partialFit K cfg th0 veto (trainStep K cfg th0 veto s x) xs := rfl
    rw [e]
    refine ⟨i1, ?_, ?_, ?_⟩
    · rw [i2, hL]; simp; omega
    · rw [hW] at i3; omega
    · rw [hW] at i4; simp; omega

theorem fit_labels_lt (K : Kernel X Wt α μ) (cfg : SearchCfg μ θ) (th0 : θ)
    (veto : ArtState Wt → X → Nat → Bool) (s0 : ArtState Wt) (xs : List X) :
    (∀ l ∈ (fit K cfg th0 veto s0 xs).labels, l < (fit K cfg th0 veto s0 xs).W.length) ∧
    (fit K cfg th0 veto s0 xs).labels.length = xs.length ∧
    (fit K cfg th0 veto s0 xs).W.length ≤ xs.length := by
  obtain ⟨a, b, _, d⟩ := partialFit_labels_lt K cfg th0 veto {} xs (by simp)
  refine ⟨a, ?_, ?_⟩
  · simpa [fit] using b
  · simpa [fit] using d

end

end Art.Bartmap
