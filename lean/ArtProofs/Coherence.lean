/-
ArtProofs.Coherence — the operations the compiled driver *executes* at `Rat`
and `Int` (core instances, no Mathlib in `ArtModel`) are definitionally the
operations the theorems are *about* when the generic definitions are
instantiated at Mathlib's ordered-field / linear-order structures on `ℚ`, `ℤ`.
Each `rfl` below closes one instance gap.
-/
import Mathlib.Algebra.Order.Field.Basic
import Mathlib.Algebra.Order.Ring.Rat
import Mathlib.Algebra.Order.Ring.Int
import Mathlib.Algebra.Field.Rat
import ArtModel.Kernels

namespace Art.Coherence

/-! core instances (what `artdrv` runs) vs. the instances found under Mathlib's classes -/

example : (Rat.instAdd : Add ℚ) = (inferInstance : Add ℚ) := rfl
example : (Rat.instMul : Mul ℚ) = (inferInstance : Mul ℚ) := rfl
example : (Rat.instSub : Sub ℚ) = (inferInstance : Sub ℚ) := rfl
example : (Rat.instDiv : Div ℚ) = (inferInstance : Div ℚ) := rfl
example : (Rat.instLT : LT ℚ) = (inferInstance : LT ℚ) := rfl
example : (Rat.instLE : LE ℚ) = (inferInstance : LE ℚ) := rfl
example : (Rat.instMin : Min ℚ) = (inferInstance : Min ℚ) := rfl
example : (Rat.instMax : Max ℚ) = (inferInstance : Max ℚ) := rfl

/-- the field structure's operations on ℚ are the core ones -/
example : (Field.toDiv : Div ℚ) = Rat.instDiv := rfl
example : (LinearOrder.toMin : Min ℚ) = Rat.instMin := rfl
example : (LinearOrder.toMax : Max ℚ) = Rat.instMax := rfl
example : (Preorder.toLT : LT ℚ) = Rat.instLT := rfl

/-- the linear order on ℤ (float keys) is the core one -/
example : (Preorder.toLT : LT ℤ) = Int.instLTInt := rfl

/-- hence the executed Fuzzy ART kernels are the proved ones, e.g. -/
example (a : ℚ) (x w : List ℚ) :
    @fuzzyChoice ℚ Rat.instAdd Rat.instDiv Rat.instMin _ a x w = fuzzyChoice a x w := rfl
example (x w : List ℚ) : @vmin ℚ Rat.instMin x w = @vmin ℚ LinearOrder.toMin x w := rfl
example (T : List (Option ℤ)) :
    @nanargmax ℤ Int.instLTInt (fun a b => Int.decLt a b) T = nanargmax T := rfl

end Art.Coherence
