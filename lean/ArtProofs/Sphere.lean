/-
ArtProofs.Sphere — the Euclidean part of the Hypersphere ART claims, in any real
normed space `V` (so in particular `EuclideanSpace ℝ (Fin d)` with the L2 norm the
code computes with `sqrt(l2norm2(x - c))`).

The update rule (`sphUpdate` in ArtModel/Kernels.lean, proved equal to the Python
source by `ArtGenProofs/GenSpec.sph_update`):
    dist = ‖x − c‖
    R'   = R + β/2 · (max R dist − R)
    c'   = c + t • (x − c),   t = β/2 · (1 − min R dist / dist)   (t = 0 when dist = 0)
-/
import Mathlib.Analysis.Normed.Module.Basic
import Mathlib.Tactic.Linarith
import Mathlib.Tactic.FieldSimp
import Mathlib.Tactic.Ring

namespace Art.Sphere

variable {V : Type} [NormedAddCommGroup V] [NormedSpace ℝ V]

/-- shrink factor of the centre move -/
noncomputable def tFactor (β R dist : ℝ) : ℝ := if 0 < dist then β / 2 * (1 - min R dist / dist) else 0

/-- new radius -/
noncomputable def newRadius (β R dist : ℝ) : ℝ := R + β / 2 * (max R dist - R)

/-- new centre -/
noncomputable def newCentre (β R : ℝ) (c x : V) : V := c + tFactor β R ‖x - c‖ • (x - c)

theorem tFactor_nonneg (β R dist : ℝ) (hβ : 0 ≤ β) (hR : 0 ≤ R) : 0 ≤ tFactor β R dist := by
  unfold tFactor
  split
  · rename_i hd
    have : min R dist / dist ≤ 1 := by
      rw [div_le_one hd]; exact min_le_right R dist
    have : 0 ≤ 1 - min R dist / dist := by linarith
    positivity
  · exact le_rfl

/-- the centre moves by exactly `R' − R` -/
theorem centre_move (β R : ℝ) (c x : V) (hβ : 0 ≤ β) (hR : 0 ≤ R) :
    ‖newCentre β R c x - c‖ = newRadius β R ‖x - c‖ - R := by
  unfold newCentre newRadius
  simp only [add_sub_cancel_left, norm_smul, Real.norm_eq_abs, abs_of_nonneg (tFactor_nonneg β R _ hβ hR)]
  unfold tFactor
  by_cases hd : 0 < ‖x - c‖
  · simp only [hd, if_true]
    have hne : ‖x - c‖ ≠ 0 := ne_of_gt hd
    rcases le_total R ‖x - c‖ with h | h
    · rw [min_eq_left h, max_eq_right h]; field_simp
    · rw [min_eq_right h, max_eq_left h]; field_simp; ring
  · have h0 : ‖x - c‖ = 0 := le_antisymm (not_lt.mp hd) (norm_nonneg _)
    rw [h0]
    simp only [lt_irrefl, if_false, zero_mul]
    rw [max_eq_left hR]; ring

/-- **Each new hypersphere contains the old one.** -/
theorem new_sphere_contains_old (β R : ℝ) (c x y : V) (hβ : 0 ≤ β) (hR : 0 ≤ R) (hy : ‖y - c‖ ≤ R) :
    ‖y - newCentre β R c x‖ ≤ newRadius β R ‖x - c‖ := by
  have h1 : y - newCentre β R c x = (y - c) - (newCentre β R c x - c) := by abel
  calc ‖y - newCentre β R c x‖ = ‖(y - c) - (newCentre β R c x - c)‖ := by rw [h1]
    _ ≤ ‖y - c‖ + ‖newCentre β R c x - c‖ := norm_sub_le _ _
    _ ≤ R + (newRadius β R ‖x - c‖ - R) := by rw [centre_move β R c x hβ hR]; linarith
    _ = newRadius β R ‖x - c‖ := by ring

/-- **With fast learning (β = 1) the new sphere contains the sample it absorbed.** -/
theorem new_sphere_contains_sample (R : ℝ) (c x : V) (hR : 0 ≤ R) :
    ‖x - newCentre 1 R c x‖ ≤ newRadius 1 R ‖x - c‖ := by
  unfold newCentre newRadius tFactor
  by_cases hd : 0 < ‖x - c‖
  · simp only [hd, if_true]
    have hne : ‖x - c‖ ≠ 0 := ne_of_gt hd
    have key : x - (c + (1 / 2 * (1 - min R ‖x - c‖ / ‖x - c‖)) • (x - c)) =
        (1 - 1 / 2 * (1 - min R ‖x - c‖ / ‖x - c‖)) • (x - c) := by
      rw [sub_smul, one_smul]; abel
    rw [key, norm_smul, Real.norm_eq_abs]
    have hle : min R ‖x - c‖ / ‖x - c‖ ≤ 1 := by rw [div_le_one hd]; exact min_le_right _ _
    have hge : 0 ≤ min R ‖x - c‖ / ‖x - c‖ := div_nonneg (le_min hR (le_of_lt hd)) (le_of_lt hd)
    rw [abs_of_nonneg (by linarith)]
    rcases le_total R ‖x - c‖ with h | h
    · rw [min_eq_left h, max_eq_right h]
      have : (1 - 1 / 2 * (1 - R / ‖x - c‖)) * ‖x - c‖ = (‖x - c‖ + R) / 2 := by field_simp; ring
      rw [this]; linarith
    · rw [min_eq_right h, max_eq_left h, div_self hne]
      simp only [sub_self, mul_zero, sub_zero, one_mul]
      linarith
  · have h0 : ‖x - c‖ = 0 := le_antisymm (not_lt.mp hd) (norm_nonneg _)
    rw [h0]
    simp only [lt_irrefl, if_false, zero_smul, add_zero, h0]
    rw [max_eq_left hR]; linarith

/-- **A hypersphere contains all its members (β = 1), by induction over the stream**: if every
earlier member lies in the current sphere, every member (including the new one) lies in the next. -/
theorem sphere_contains_members_step (R : ℝ) (c x : V) (members : List V) (hR : 0 ≤ R)
    (h : ∀ m ∈ members, ‖m - c‖ ≤ R) :
    ∀ m ∈ x :: members, ‖m - newCentre 1 R c x‖ ≤ newRadius 1 R ‖x - c‖ := by
  intro m hm
  simp only [List.mem_cons] at hm
  rcases hm with rfl | hm
  · exact new_sphere_contains_sample R c m hR
  · exact new_sphere_contains_old 1 R c x m zero_le_one hR (h m hm)

/-- the new radius is non-negative again -/
theorem newRadius_nonneg (β R dist : ℝ) (hβ : 0 ≤ β) (hR : 0 ≤ R) : 0 ≤ newRadius β R dist := by
  unfold newRadius
  have : 0 ≤ max R dist - R := sub_nonneg.mpr (le_max_left _ _)
  have : 0 ≤ β / 2 * (max R dist - R) := mul_nonneg (by positivity) this
  linarith

end Art.Sphere
