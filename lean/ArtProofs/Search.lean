/-
ArtProofs.Search — lemmas about the generic resonance search, for every linear
order of activations, every match/threshold type, every configuration.
-/
import ArtProofs.Order
import ArtModel.Search

namespace Art

set_option linter.unusedSectionVars false

variable {α μ θ : Type}

/-- number of non-NaN activations -/
def liveCount (T : List (Option α)) : Nat := (T.filter (·.isSome)).length

theorem liveCount_set_none {T : List (Option α)} {c : Nat} {v : α}
    (h : T[c]? = some (some v)) : liveCount (T.set c none) + 1 = liveCount T := by
  induction T generalizing c with
  | nil => simp at h
  | cons t ts ih =>
    cases c with
    | zero =>
      simp at h; subst h
      simp [liveCount]
    | succ c =>
      simp at h
      have := ih h
      cases t <;> simp [liveCount] at this ⊢ <;> omega

theorem liveCount_le_length (T : List (Option α)) : liveCount T ≤ T.length := by
  simp [liveCount]; exact List.length_filter_le _ _

variable [LinearOrder α]

theorem liveCount_eq_zero {T : List (Option α)} (h : liveCount T = 0) : nanargmax T = none := by
  rw [nanargmax_eq_none_iff]
  intro t ht
  simp only [liveCount, List.length_eq_zero_iff, List.filter_eq_nil_iff] at h
  have := h t ht
  cases t <;> simp_all

/-- Unfolding lemma for one iteration of the loop. -/
theorem search_succ (cfg : SearchCfg μ θ) (M : Nat → μ) (veto : Nat → Bool)
    (fuel : Nat) (T : List (Option α)) (th : θ) :
    search cfg M veto (fuel + 1) T th =
      match nanargmax T with
      | none => ⟨none, th, []⟩
      | some c =>
        if cfg.passes th (M c) && (cfg.tilde || !veto c) then
          ⟨some c, th, [⟨c, th, cfg.passes th (M c), cfg.tilde || !veto c⟩]⟩
        else if cfg.passes th (M c) && !(cfg.tilde || !veto c) then
          if cfg.keep then
            (search cfg M veto fuel (T.set c none) (cfg.track th (M c))).cons
              ⟨c, th, cfg.passes th (M c), cfg.tilde || !veto c⟩
          else ⟨none, cfg.track th (M c), [⟨c, th, cfg.passes th (M c), cfg.tilde || !veto c⟩]⟩
        else
          (search cfg M veto fuel (T.set c none) th).cons
            ⟨c, th, cfg.passes th (M c), cfg.tilde || !veto c⟩ := by
  rw [search]
  cases nanargmax T <;> rfl

/-- Termination: any fuel ≥ the number of live candidates gives the same result
(each iteration strikes one candidate). -/
theorem search_fuel_irrelevant (cfg : SearchCfg μ θ) (M : Nat → μ) (veto : Nat → Bool)
    (f₁ f₂ : Nat) (T : List (Option α)) (th : θ)
    (h₁ : liveCount T ≤ f₁) (h₂ : liveCount T ≤ f₂) :
    search cfg M veto f₁ T th = search cfg M veto f₂ T th := by
  induction f₁ generalizing f₂ T th with
  | zero =>
    have h0 : liveCount T = 0 := by omega
    cases f₂ with
    | zero => rfl
    | succ f₂ => rw [search_succ, liveCount_eq_zero h0]; rfl
  | succ f₁ ih =>
    cases f₂ with
    | zero =>
      have h0 : liveCount T = 0 := by omega
      rw [search_succ, liveCount_eq_zero h0]; rfl
    | succ f₂ =>
      rw [search_succ, search_succ]
      cases hc : nanargmax T with
      | none => rfl
      | some c =>
        obtain ⟨v, hv⟩ := nanargmax_isSome_at hc
        have hl := liveCount_set_none hv
        have e1 : ∀ th', search cfg M veto f₁ (T.set c none) th' =
            search cfg M veto f₂ (T.set c none) th' :=
          fun th' => ih f₂ _ th' (by omega) (by omega)
        simp only [e1]

/-- The general induction principle used below: a property of
`(T, th, result)` that holds for the three terminal shapes and is preserved by
prefixing a rejected visit holds for every search. -/
theorem search_induction (cfg : SearchCfg μ θ) (M : Nat → μ) (veto : Nat → Bool)
    (P : List (Option α) → θ → SearchResult θ → Prop)
    (hnone : ∀ T th, nanargmax T = none → P T th ⟨none, th, []⟩)
    (hwin : ∀ T th c, nanargmax T = some c → cfg.passes th (M c) = true →
      (cfg.tilde || !veto c) = true → P T th ⟨some c, th, [⟨c, th, true, true⟩]⟩)
    (habandon : ∀ T th c, nanargmax T = some c → cfg.passes th (M c) = true →
      (cfg.tilde || !veto c) = false → cfg.keep = false →
      P T th ⟨none, cfg.track th (M c), [⟨c, th, true, false⟩]⟩)
    (htrack : ∀ T th c r, nanargmax T = some c → cfg.passes th (M c) = true →
      (cfg.tilde || !veto c) = false → cfg.keep = true →
      P (T.set c none) (cfg.track th (M c)) r → P T th (r.cons ⟨c, th, true, false⟩))
    (hfail : ∀ T th c r, nanargmax T = some c → cfg.passes th (M c) = false →
      P (T.set c none) th r →
      P T th (r.cons ⟨c, th, false, cfg.tilde || !veto c⟩))
    (fuel : Nat) (T : List (Option α)) (th : θ) (hf : liveCount T ≤ fuel) :
    P T th (search cfg M veto fuel T th) := by
  induction fuel generalizing T th with
  | zero =>
    have h0 : liveCount T = 0 := by omega
    exact hnone T th (liveCount_eq_zero h0)
  | succ fuel ih =>
    rw [search_succ]
    cases hc : nanargmax T with
    | none => exact hnone T th hc
    | some c =>
      obtain ⟨v, hv⟩ := nanargmax_isSome_at hc
      have hl := liveCount_set_none hv
      simp only
      cases hm : cfg.passes th (M c) <;> cases hok : (cfg.tilde || !veto c)
      · simpa using hfail T th c _ hc hm (ih _ _ (by omega)) |> fun h => by simpa [hok] using h
      · simpa using hfail T th c _ hc hm (ih _ _ (by omega)) |> fun h => by simpa [hok] using h
      · cases hk : cfg.keep
        · simpa using habandon T th c hc hm hok hk
        · simpa using htrack T th c _ hc hm hok hk (ih _ _ (by omega))
      · simpa using hwin T th c hc hm hok

/-! ### Consequences -/

section
variable (cfg : SearchCfg μ θ) (M : Nat → μ) (veto : Nat → Bool)

@[simp] theorem SearchResult.cons_winner (v : Visit θ) (r : SearchResult θ) :
    (r.cons v).winner = r.winner := rfl
@[simp] theorem SearchResult.cons_visits (v : Visit θ) (r : SearchResult θ) :
    (r.cons v).visits = v :: r.visits := rfl
@[simp] theorem SearchResult.cons_th (v : Visit θ) (r : SearchResult θ) :
    (r.cons v).th = r.th := rfl

theorem live_of_live_set {T : List (Option α)} {c j : Nat} {u : α}
    (h : (T.set c none)[j]? = some (some u)) : T[j]? = some (some u) ∧ j ≠ c := by
  rw [List.getElem?_set] at h
  split at h
  · split at h <;> simp at h
  · rename_i hne
    exact ⟨h, fun e => hne e.symm⟩

theorem live_set_of_live {T : List (Option α)} {c j : Nat} {u : α}
    (h : T[j]? = some (some u)) (hne : j ≠ c) : (T.set c none)[j]? = some (some u) := by
  rw [List.getElem?_set]
  split
  · rename_i e; exact absurd e.symm hne
  · exact h

/-- **Winner soundness.**  A returned winner is a live candidate, passed the
vigilance test against the threshold in force when it was visited, and was not
vetoed; it is the last visit. -/
theorem search_winner_sound (fuel : Nat) (T : List (Option α)) (th : θ)
    (hf : liveCount T ≤ fuel) (c : Nat)
    (h : (search cfg M veto fuel T th).winner = some c) :
    (∃ v, T[c]? = some (some v)) ∧
    ∃ th', (search cfg M veto fuel T th).visits.getLast? = some ⟨c, th', true, true⟩ ∧
      cfg.passes th' (M c) = true ∧ (cfg.tilde || !veto c) = true := by
  revert c
  refine search_induction cfg M veto
    (fun T _ r => ∀ c, r.winner = some c → (∃ v, T[c]? = some (some v)) ∧
      ∃ th', r.visits.getLast? = some ⟨c, th', true, true⟩ ∧
        cfg.passes th' (M c) = true ∧ (cfg.tilde || !veto c) = true)
    ?_ ?_ ?_ ?_ ?_ fuel T th hf
  · intro T th _ c h; simp at h
  · intro T th c hc hm hok c' h
    simp only [Option.some.injEq] at h; subst h
    exact ⟨nanargmax_isSome_at hc, th, by simp, hm, hok⟩
  · intro T th c _ _ _ _ c' h; simp at h
  · intro T th c r _ _ _ _ ih c' h
    obtain ⟨⟨v, hv⟩, th', hl, hp, ho⟩ := ih c' (by simpa using h)
    refine ⟨⟨v, (live_of_live_set hv).1⟩, th', ?_, hp, ho⟩
    simp only [SearchResult.cons_visits]
    rw [List.getLast?_cons_of_ne_nil] <;> [exact hl; (intro e; simp [e] at hl)]
  · intro T th c r _ _ ih c' h
    obtain ⟨⟨v, hv⟩, th', hl, hp, ho⟩ := ih c' (by simpa using h)
    refine ⟨⟨v, (live_of_live_set hv).1⟩, th', ?_, hp, ho⟩
    simp only [SearchResult.cons_visits]
    rw [List.getLast?_cons_of_ne_nil] <;> [exact hl; (intro e; simp [e] at hl)]

/-- Every visit records exactly the test results for its category; a visit
that passed and was allowed is the winner. -/
theorem search_visits_faithful (fuel : Nat) (T : List (Option α)) (th : θ)
    (hf : liveCount T ≤ fuel) :
    ∀ v ∈ (search cfg M veto fuel T th).visits,
      v.m = cfg.passes v.th (M v.c) ∧ v.ok = (cfg.tilde || !veto v.c) ∧
      ((v.m && v.ok) = true → (search cfg M veto fuel T th).winner = some v.c) := by
  refine search_induction cfg M veto
    (fun _ _ r => ∀ v ∈ r.visits, v.m = cfg.passes v.th (M v.c) ∧
      v.ok = (cfg.tilde || !veto v.c) ∧ ((v.m && v.ok) = true → r.winner = some v.c))
    ?_ ?_ ?_ ?_ ?_ fuel T th hf
  · intro T th _ v hv; simp at hv
  · intro T th c _ hm hok v hv
    simp only [List.mem_singleton] at hv; subst hv
    simp [hm, hok]
  · intro T th c _ hm hok _ v hv
    simp only [List.mem_singleton] at hv; subst hv
    simp [hm, hok]
  · intro T th c r _ hm hok _ ih v hv
    simp only [SearchResult.cons_visits, List.mem_cons] at hv
    rcases hv with rfl | hv
    · simp [hm, hok]
    · simpa using ih v hv
  · intro T th c r _ hm ih v hv
    simp only [SearchResult.cons_visits, List.mem_cons] at hv
    rcases hv with rfl | hv
    · simp [hm]
    · simpa using ih v hv

/-- threshold after a visit -/
def nextTh (v : Visit θ) : θ :=
  if v.m && !v.ok then cfg.track v.th (M v.c) else v.th

/-- `ths` is the threshold trace of the visit list `vs` started at `th`
and ending at `thEnd`. -/
def ThreadsFrom : θ → List (Visit θ) → θ → Prop
  | th, [], thEnd => thEnd = th
  | th, v :: vs, thEnd => v.th = th ∧ ThreadsFrom (nextTh cfg M v) vs thEnd

/-- **Threshold trace.**  The first visit sees the configured threshold; the
threshold changes only after a visit that *passed and was vetoed*, and then to
exactly `track th (M c)`. -/
theorem search_threshold_trace (fuel : Nat) (T : List (Option α)) (th : θ)
    (hf : liveCount T ≤ fuel) :
    ThreadsFrom cfg M th (search cfg M veto fuel T th).visits
      (search cfg M veto fuel T th).th := by
  refine search_induction cfg M veto
    (fun _ th r => ThreadsFrom cfg M th r.visits r.th) ?_ ?_ ?_ ?_ ?_ fuel T th hf
  · intro T th _; simp [ThreadsFrom]
  · intro T th c _ _ _; simp [ThreadsFrom, nextTh]
  · intro T th c _ _ _ _; simp [ThreadsFrom, nextTh]
  · intro T th c r _ _ _ _ ih
    simpa [ThreadsFrom, nextTh] using ih
  · intro T th c r _ _ ih
    simpa [ThreadsFrom, nextTh] using ih

/-- Any invariant of the threshold that survives tracking holds at every visit. -/
theorem search_threshold_inv (Q : θ → Prop)
    (hQ : ∀ th m, Q th → cfg.passes th m = true → Q (cfg.track th m))
    (fuel : Nat) (T : List (Option α)) (th : θ) (hf : liveCount T ≤ fuel) (h0 : Q th) :
    ∀ v ∈ (search cfg M veto fuel T th).visits, Q v.th := by
  revert h0
  refine search_induction cfg M veto
    (fun _ th r => Q th → ∀ v ∈ r.visits, Q v.th) ?_ ?_ ?_ ?_ ?_ fuel T th hf
  · intro T th _ _ v hv; simp at hv
  · intro T th c _ _ _ h0 v hv; simp at hv; subst hv; exact h0
  · intro T th c _ _ _ _ h0 v hv; simp at hv; subst hv; exact h0
  · intro T th c r _ hm _ _ ih h0 v hv
    simp only [SearchResult.cons_visits, List.mem_cons] at hv
    rcases hv with rfl | hv
    · exact h0
    · exact ih (hQ _ _ h0 hm) v hv
  · intro T th c r _ _ ih h0 v hv
    simp only [SearchResult.cons_visits, List.mem_cons] at hv
    rcases hv with rfl | hv
    · exact h0
    · exact ih h0 v hv

/-- `i` is visited before `j`: larger activation, or equal activation and
smaller index. -/
def Before (T : List (Option α)) (i j : Nat) : Prop :=
  ∃ a b, T[i]? = some (some a) ∧ T[j]? = some (some b) ∧ (b < a ∨ (a = b ∧ i < j))

/-- **Visiting order.**  Categories are visited by decreasing activation, ties by
increasing index (oldest first); only live candidates are visited, each once. -/
theorem search_visit_order (fuel : Nat) (T : List (Option α)) (th : θ)
    (hf : liveCount T ≤ fuel) :
    ((search cfg M veto fuel T th).visits.map (·.c)).Pairwise (Before T) ∧
    ∀ v ∈ (search cfg M veto fuel T th).visits, ∃ a, T[v.c]? = some (some a) := by
  have key : ∀ (T : List (Option α)) (c : Nat) (r : SearchResult θ) (x : Visit θ), x.c = c →
      nanargmax T = some c →
      (((r.visits.map (·.c)).Pairwise (Before (T.set c none))) ∧
        ∀ v ∈ r.visits, ∃ a, (T.set c none)[v.c]? = some (some a)) →
      (((r.cons x).visits.map (·.c)).Pairwise (Before T)) ∧
        ∀ v ∈ (r.cons x).visits, ∃ a, T[v.c]? = some (some a) := by
    intro T c r x hx hc ⟨ih1, ih2⟩
    obtain ⟨a, ha⟩ := nanargmax_eq_some_iff.mp hc
    constructor
    · simp only [SearchResult.cons_visits, List.map_cons, List.pairwise_cons, hx]
      constructor
      · intro j hj
        simp only [List.mem_map] at hj
        obtain ⟨v, hv, rfl⟩ := hj
        obtain ⟨b, hb⟩ := ih2 v hv
        obtain ⟨hb', hne⟩ := live_of_live_set hb
        refine ⟨a, b, ha.at_k, hb', ?_⟩
        rcases lt_or_eq_of_le (ha.ge_all _ _ hb') with hlt | heq
        · exact Or.inl hlt
        · refine Or.inr ⟨heq.symm, ?_⟩
          rcases Nat.lt_trichotomy c v.c with h | h | h
          · exact h
          · exact absurd h.symm hne
          · exact absurd (ha.gt_before _ _ h hb') (by rw [heq]; exact lt_irrefl _)
      · refine ih1.imp ?_
        rintro i j ⟨p, q, hp, hq, hpq⟩
        exact ⟨p, q, (live_of_live_set hp).1, (live_of_live_set hq).1, hpq⟩
    · intro v hv
      simp only [SearchResult.cons_visits, List.mem_cons] at hv
      rcases hv with rfl | hv
      · exact ⟨a, hx ▸ ha.at_k⟩
      · obtain ⟨b, hb⟩ := ih2 v hv
        exact ⟨b, (live_of_live_set hb).1⟩
  refine search_induction cfg M veto
    (fun T _ r => ((r.visits.map (·.c)).Pairwise (Before T)) ∧
      ∀ v ∈ r.visits, ∃ a, T[v.c]? = some (some a)) ?_ ?_ ?_ ?_ ?_ fuel T th hf
  · intro T th _; simp
  · intro T th c hc _ _
    obtain ⟨a, ha⟩ := nanargmax_isSome_at hc
    simp [ha]
  · intro T th c hc _ _ _
    obtain ⟨a, ha⟩ := nanargmax_isSome_at hc
    simp [ha]
  · intro T th c r hc _ _ _ ih; exact key T c r _ rfl hc ih
  · intro T th c r hc _ ih; exact key T c r _ rfl hc ih

/-- **Exhaustion.**  If the search ends without a winner and was not abandoned
(MT1), every live candidate was visited. -/
theorem search_exhaustive (hkeep : cfg.keep = true) (fuel : Nat) (T : List (Option α)) (th : θ)
    (hf : liveCount T ≤ fuel) (hnone : (search cfg M veto fuel T th).winner = none) :
    ∀ c a, T[c]? = some (some a) → c ∈ (search cfg M veto fuel T th).visits.map (·.c) := by
  revert hnone
  refine search_induction cfg M veto
    (fun T _ r => r.winner = none → ∀ c a, T[c]? = some (some a) → c ∈ r.visits.map (·.c))
    ?_ ?_ ?_ ?_ ?_ fuel T th hf
  · intro T th hn _ c a hc
    have := nanargmax_eq_none_iff.mp hn _ (List.mem_of_getElem? hc)
    simp at this
  · intro T th c _ _ _ h; simp at h
  · intro T th c _ _ _ hk; simp [hkeep] at hk
  · intro T th c r _ _ _ _ ih h c' a hc'
    simp only [SearchResult.cons_visits, List.map_cons, List.mem_cons]
    by_cases e : c' = c
    · exact Or.inl e
    · exact Or.inr (ih (by simpa using h) c' a (live_set_of_live hc' e))
  · intro T th c r _ _ ih h c' a hc'
    simp only [SearchResult.cons_visits, List.map_cons, List.mem_cons]
    by_cases e : c' = c
    · exact Or.inl e
    · exact Or.inr (ih (by simpa using h) c' a (live_set_of_live hc' e))

/-- Candidates that qualify against a fixed threshold. -/
def qualifying (th : θ) (T : List (Option α)) : List (Option α) :=
  (List.zipIdx T).map (fun ti => if cfg.passes th (M ti.2) then ti.1 else none)

theorem qualifying_getElem? (th : θ) (T : List (Option α)) (j : Nat) :
    (qualifying cfg M th T)[j]? =
      (T[j]?).map (fun t => if cfg.passes th (M j) then t else none) := by
  simp [qualifying, List.getElem?_map, List.getElem?_zipIdx]
  cases T[j]? <;> simp

/-- **No reset function: the best vigilance-passing category wins, else new.**
Without vetoes the result is exactly the first index of maximal activation
among the candidates whose match value passes the configured threshold, and
`none` iff there is no such candidate. -/
theorem search_no_veto (fuel : Nat) (T : List (Option α)) (th : θ)
    (hf : liveCount T ≤ fuel) :
    (search cfg M (fun _ => false) fuel T th).winner = nanargmax (qualifying cfg M th T) := by
  refine search_induction cfg M (fun _ => false)
    (fun T th r => r.winner = nanargmax (qualifying cfg M th T)) ?_ ?_ ?_ ?_ ?_ fuel T th hf
  · intro T th hn
    symm
    rw [nanargmax_eq_none_iff]
    intro t ht
    obtain ⟨j, hj⟩ := List.getElem?_of_mem ht
    rw [qualifying_getElem?] at hj
    cases hT : T[j]? with
    | none => simp [hT] at hj
    | some t' =>
      have := nanargmax_eq_none_iff.mp hn _ (List.mem_of_getElem? hT)
      subst this
      simp [hT] at hj
      exact hj.symm
  · intro T th c hc hm _
    symm
    obtain ⟨a, ha⟩ := nanargmax_eq_some_iff.mp hc
    rw [nanargmax_eq_some_iff]
    refine ⟨a, ?_, ?_, ?_⟩
    · rw [qualifying_getElem?, ha.at_k]; simp [hm]
    · intro j u hj
      rw [qualifying_getElem?] at hj
      cases hT : T[j]? with
      | none => simp [hT] at hj
      | some t' =>
        simp only [hT, Option.map_some, Option.some.injEq] at hj
        split at hj
        · exact ha.ge_all j u (by rw [hT, hj])
        · simp at hj
    · intro j u hjc hj
      rw [qualifying_getElem?] at hj
      cases hT : T[j]? with
      | none => simp [hT] at hj
      | some t' =>
        simp only [hT, Option.map_some, Option.some.injEq] at hj
        split at hj
        · exact ha.gt_before j u hjc (by rw [hT, hj])
        · simp at hj
  · intro T th c _ _ hok; simp at hok
  · intro T th c r _ _ hok; simp at hok
  · intro T th c r hc hm ih
    simp only [SearchResult.cons_winner]
    rw [ih]
    congr 1
    apply List.ext_getElem?
    intro j
    rw [qualifying_getElem?, qualifying_getElem?, List.getElem?_set]
    by_cases e : c = j
    · subst e
      have := nanargmax_lt_length hc
      simp [hm, this]
    · simp [e]

/-- In MT~ mode the loop never consults the reset function. -/
theorem search_tilde_ignores_veto (htilde : cfg.tilde = true) (fuel : Nat) (T : List (Option α)) (th : θ) :
    search cfg M veto fuel T th = search cfg M (fun _ => false) fuel T th := by
  induction fuel generalizing T th with
  | zero => rfl
  | succ fuel ih =>
    rw [search_succ, search_succ]
    cases nanargmax T with
    | none => rfl
    | some c => simp only [htilde, Bool.true_or, ih]

end

end Art
