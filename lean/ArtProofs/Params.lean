/-
ArtProofs.Params — lemmas about the parameter store, `set_params` loop,
`validate`, attribute mirror and the `Own | View` ownership model of
`ArtModel.Params`.  Helper lemmas only; the property theorems are in
`ArtProps/C19.lean`.
-/
import ArtModel.Params

namespace Art.Params

/-! ### stores -/

theorem get?_isSome_iff {p : Store} {k : String} : (get? p k).isSome ↔ k ∈ keys p := by
  induction p with
  | nil => simp [get?, keys]
  | cons kv r ih =>
    obtain ⟨k', v'⟩ := kv
    simp only [get?, keys, List.map_cons, List.mem_cons]
    by_cases h : k' = k
    · simp [h]
    · simp only [h, if_false]
      rw [ih]
      constructor
      · intro hm; exact Or.inr hm
      · intro hm
        rcases hm with hm | hm
        · exact absurd hm.symm h
        · exact hm

theorem get?_eq_none_iff {p : Store} {k : String} : get? p k = none ↔ k ∉ keys p := by
  rw [← get?_isSome_iff]
  cases get? p k <;> simp

theorem keys_assign (p : Store) (k : String) (v : Val) : keys (assign p k v) = keys p := by
  induction p with
  | nil => rfl
  | cons kv r ih =>
    obtain ⟨k', v'⟩ := kv
    simp only [assign]
    split
    · simp [keys]
    · simp only [keys, List.map_cons] at ih ⊢
      rw [ih]

theorem get?_assign_same {p : Store} {k : String} (v : Val) (h : k ∈ keys p) :
    get? (assign p k v) k = some v := by
  induction p with
  | nil => simp [keys] at h
  | cons kv r ih =>
    obtain ⟨k', v'⟩ := kv
    simp only [assign]
    by_cases hk : k' = k
    · simp [hk, get?]
    · simp only [hk, if_false, get?]
      apply ih
      simp only [keys, List.map_cons, List.mem_cons] at h
      rcases h with h | h
      · exact absurd h.symm hk
      · exact h

theorem get?_assign_other {p : Store} {k k' : String} (v : Val) (h : k' ≠ k) :
    get? (assign p k v) k' = get? p k' := by
  induction p with
  | nil => rfl
  | cons kv r ih =>
    obtain ⟨k'', v''⟩ := kv
    simp only [assign]
    by_cases hk : k'' = k
    · subst hk
      have : ¬ k'' = k' := fun e => h e.symm
      simp [get?, this]
    · simp only [hk, if_false, get?]
      rw [ih]

theorem assign_of_get {p : Store} {k : String} {v : Val} (h : get? p k = some v) :
    assign p k v = p := by
  induction p with
  | nil => rfl
  | cons kv r ih =>
    obtain ⟨k', v'⟩ := kv
    simp only [get?] at h
    simp only [assign]
    by_cases hk : k' = k
    · simp only [hk, if_true] at h ⊢
      cases h; rfl
    · simp only [hk, if_false] at h ⊢
      rw [ih h]

theorem upsert_of_mem {p : Store} {k : String} (v : Val) (h : k ∈ keys p) :
    upsert p k v = assign p k v := by
  simp [upsert, get?_isSome_iff.mpr h]

theorem get?_of_mem_nodup {p : Store} {k : String} {v : Val} (hn : (keys p).Nodup)
    (hm : (k, v) ∈ p) : get? p k = some v := by
  induction p with
  | nil => simp at hm
  | cons kv r ih =>
    obtain ⟨k', v'⟩ := kv
    simp only [keys, List.map_cons, List.nodup_cons] at hn
    simp only [List.mem_cons, Prod.mk.injEq] at hm
    simp only [get?]
    rcases hm with ⟨rfl, rfl⟩ | hm
    · simp
    · have : k' ≠ k := by
        intro e
        subst e
        exact hn.1 (List.mem_map.mpr ⟨(k', v), hm, rfl⟩)
      simp only [this, if_false]
      exact ih hn.2 hm

theorem mem_of_get? {p : Store} {k : String} {v : Val} (h : get? p k = some v) : (k, v) ∈ p := by
  induction p with
  | nil => simp [get?] at h
  | cons kv r ih =>
    obtain ⟨k', v'⟩ := kv
    simp only [get?] at h
    by_cases hk : k' = k
    · simp only [hk, if_true, Option.some.injEq] at h
      subst hk; subst h
      exact List.mem_cons_self
    · simp only [hk, if_false] at h
      exact List.mem_cons_of_mem _ (ih h)

/-- two dicts with the same key order and the same values are the same dict -/
theorem store_ext {p q : Store} (hk : keys p = keys q) (hn : (keys p).Nodup)
    (hv : ∀ k, get? p k = get? q k) : p = q := by
  induction p generalizing q with
  | nil =>
    cases q with
    | nil => rfl
    | cons b s => simp [keys] at hk
  | cons a r ih =>
    cases q with
    | nil => simp [keys] at hk
    | cons b s =>
      obtain ⟨ka, va⟩ := a
      obtain ⟨kb, vb⟩ := b
      simp only [keys, List.map_cons, List.cons.injEq] at hk
      obtain ⟨hkab, hrest⟩ := hk
      subst hkab
      simp only [keys, List.map_cons, List.nodup_cons] at hn
      have h0 := hv ka
      simp only [get?, if_true, Option.some.injEq] at h0
      subst h0
      have : r = s := by
        apply ih hrest hn.2
        intro k
        by_cases hk : ka = k
        · subst hk
          have h1 : get? r ka = none := get?_eq_none_iff.mpr hn.1
          have h2 : get? s ka = none := by
            apply get?_eq_none_iff.mpr
            have : keys s = keys r := hrest.symm
            rw [this]; exact hn.1
          rw [h1, h2]
        · have := hv k
          simpa [get?, hk] using this
      rw [this]

/-! ### sequential assignment -/

/-- the effect of the plain-name branch of the loop on a store -/
def applyAll (p : Store) (kvs : List (String × Val)) : Store :=
  kvs.foldl (fun p kv => assign p kv.1 kv.2) p

theorem keys_applyAll (p : Store) (kvs : List (String × Val)) : keys (applyAll p kvs) = keys p := by
  induction kvs generalizing p with
  | nil => rfl
  | cons kv r ih =>
    simp only [applyAll, List.foldl_cons]
    have := ih (assign p kv.1 kv.2)
    simp only [applyAll] at this
    rw [this, keys_assign]

theorem applyAll_get_other {p : Store} {kvs : List (String × Val)} {k : String}
    (h : k ∉ keys kvs) : get? (applyAll p kvs) k = get? p k := by
  induction kvs generalizing p with
  | nil => rfl
  | cons kv r ih =>
    simp only [keys, List.map_cons, List.mem_cons, not_or] at h
    simp only [applyAll, List.foldl_cons]
    have := ih (p := assign p kv.1 kv.2) h.2
    simp only [applyAll] at this
    rw [this, get?_assign_other _ h.1]

theorem applyAll_get_of_mem {p : Store} {kvs : List (String × Val)} {k : String} {v : Val}
    (hn : (keys kvs).Nodup) (hm : (k, v) ∈ kvs) (hk : k ∈ keys p) :
    get? (applyAll p kvs) k = some v := by
  induction kvs generalizing p with
  | nil => simp at hm
  | cons kv r ih =>
    simp only [keys, List.map_cons, List.nodup_cons] at hn
    simp only [applyAll, List.foldl_cons]
    simp only [List.mem_cons] at hm
    rcases hm with hm | hm
    · subst hm
      have hnot : k ∉ keys r := hn.1
      have := applyAll_get_other (p := assign p k v) hnot
      simp only [applyAll] at this
      rw [this]
      exact get?_assign_same v hk
    · have hk' : k ∈ keys (assign p kv.1 kv.2) := by rw [keys_assign]; exact hk
      have := ih (p := assign p kv.1 kv.2) hn.2 hm hk'
      simpa only [applyAll] using this

theorem applyAll_id {p : Store} {kvs : List (String × Val)}
    (h : ∀ kv ∈ kvs, get? p kv.1 = some kv.2) : applyAll p kvs = p := by
  induction kvs with
  | nil => rfl
  | cons kv r ih =>
    simp only [applyAll, List.foldl_cons]
    rw [assign_of_get (h kv List.mem_cons_self)]
    exact ih (fun kv' hm => h kv' (List.mem_cons_of_mem _ hm))

/-! ### the `set_params` loop -/

theorem setAttr_param {e : Est} {k : String} (v : Val) (h : k ∈ keys e.params) :
    setAttr e k v = { e with params := assign e.params k v } := by
  simp [setAttr, get?_isSome_iff.mpr h]

/-- all names plain and known: the loop collects them in order, `local_params` gets them
assigned one after the other, nothing is raised -/
theorem setLoop_plain (p : Store) (st : LoopSt) (kvs : List (String × Val)) (hloc : keys st.loc = keys p)
    (h : ∀ kv ∈ kvs, Plain kv.1 ∧ kv.1 ∈ keys p) :
    setLoop p st kvs = (⟨applyAll st.loc kvs, st.plain ++ kvs, st.nested⟩, none) := by
  induction kvs generalizing st with
  | nil => simp [setLoop, applyAll]
  | cons kv r ih =>
    obtain ⟨key, v⟩ := kv
    have hk := h (key, v) List.mem_cons_self
    have hplain : partitionKey key = (key, none) := hk.1
    have hknown := hk.2
    have hkl : key ∈ keys st.loc := by rw [hloc]; exact hknown
    simp only [setLoop, hplain, get?_isSome_iff.mpr hknown, if_true]
    rw [upsert_of_mem v hkl, ih]
    · simp [applyAll]
    · simp only [keys_assign]; exact hloc
    · intro kv' hm
      exact h kv' (List.mem_cons_of_mem _ hm)

/-- whatever the loop collected as plain names is a known name (or was there before) -/
theorem setLoop_plain_known (p : Store) (st : LoopSt) (kvs : List (String × Val)) :
    ∀ kv ∈ (setLoop p st kvs).1.plain, kv ∈ st.plain ∨ kv.1 ∈ keys p := by
  induction kvs generalizing st with
  | nil => intro kv hm; left; simpa [setLoop] using hm
  | cons kv r ih =>
    obtain ⟨key, v⟩ := kv
    simp only [setLoop]
    split
    · rename_i hknown
      split
      · rename_i sub _
        intro kv hm
        exact ih { st with nested := st.nested ++ [((partitionKey key).1, sub, v)] } kv hm
      · intro kv hm
        rcases ih { st with plain := st.plain ++ [((partitionKey key).1, v)],
                            loc := upsert st.loc (partitionKey key).1 v } kv hm with h1 | h1
        · simp only [List.mem_append, List.mem_singleton] at h1
          rcases h1 with h1 | h1
          · left; exact h1
          · right; subst h1; exact get?_isSome_iff.mp hknown
        · right; exact h1
    · intro kv hm; left; exact hm

/-- an unknown name anywhere in the call raises `ValueError` -/
theorem setLoop_unknown (p : Store) (st : LoopSt) (kvs : List (String × Val))
    (h : ∃ kv ∈ kvs, (partitionKey kv.1).1 ∉ keys p) :
    (setLoop p st kvs).2 = some .value := by
  induction kvs generalizing st with
  | nil => simp at h
  | cons kv r ih =>
    obtain ⟨key, v⟩ := kv
    simp only [setLoop]
    split
    · rename_i hknown
      have hk := get?_isSome_iff.mp hknown
      have hrest : ∃ kv ∈ r, (partitionKey kv.1).1 ∉ keys p := by
        obtain ⟨kv', hm, hu⟩ := h
        simp only [List.mem_cons] at hm
        rcases hm with hm | hm
        · subst hm; exact absurd hk hu
        · exact ⟨kv', hm, hu⟩
      split
      · exact ih _ hrest
      · exact ih _ hrest
    · rfl

/-- the loop raises nothing but `ValueError` -/
theorem setLoop_err (p : Store) (st : LoopSt) (kvs : List (String × Val)) :
    (setLoop p st kvs).2 = none ∨ (setLoop p st kvs).2 = some .value := by
  induction kvs generalizing st with
  | nil => left; rfl
  | cons kv r ih =>
    obtain ⟨key, v⟩ := kv
    simp only [setLoop]
    split
    · split
      · exact ih _
      · exact ih _
    · right; rfl

theorem runNested_nil (p : Store) : runNested p [] = ([], none) := by
  simp [runNested, eraseDupKeys, runNested.go]

/-- the nested routing raises nothing but `AttributeError` -/
theorem runNested_err (p : Store) (n : List (String × String × Val)) :
    (runNested p n).2 = none ∨ (runNested p n).2 = some .attr := by
  simp only [runNested]
  generalize eraseDupKeys (n.map (·.1)) = gs
  induction gs with
  | nil => left; rfl
  | cons g gs ih =>
    simp only [runNested.go]
    split
    · exact ih
    · right; rfl

/-- assigning known names one after the other only rewrites `params` -/
theorem assignAll_known (e : Est) (kvs : List (String × Val)) (h : ∀ kv ∈ kvs, kv.1 ∈ keys e.params) :
    assignAll e kvs = { e with params := applyAll e.params kvs } := by
  induction kvs generalizing e with
  | nil => rfl
  | cons kv r ih =>
    have hk := h kv List.mem_cons_self
    simp only [assignAll, List.foldl_cons, applyAll]
    rw [setAttr_param kv.2 hk]
    have := ih { e with params := assign e.params kv.1 kv.2 } (by
      intro kv' hm
      simp only [keys_assign]
      exact h kv' (List.mem_cons_of_mem _ hm))
    simpa only [assignAll, applyAll] using this

/-- `set_params` with plain, known names: validation of the would-be store first; the object is
replaced only when it passes -/
theorem setParams_plain (checks : List Check) (e : Est) (kvs : List (String × Val)) (hne : kvs ≠ [])
    (h : ∀ kv ∈ kvs, Plain kv.1 ∧ kv.1 ∈ keys e.params) :
    setParams checks e kvs =
      match validate checks (applyAll e.params kvs) with
      | some err => ⟨e, some err, []⟩
      | none => ⟨{ e with params := applyAll e.params kvs }, none, []⟩ := by
  have hl := setLoop_plain e.params ⟨e.params, [], []⟩ kvs rfl h
  have : kvs.isEmpty = false := by cases kvs <;> simp_all
  simp only [setParams, this, hl, List.nil_append]
  cases hv : validate checks (applyAll e.params kvs) with
  | some err => simp
  | none =>
    simp only [Bool.false_eq_true, if_false]
    rw [assignAll_known e kvs (fun kv hm => (h kv hm).2), runNested_nil]

/-- a call that raises anything but the `AttributeError` of the nested routing — that is:
`ValueError` for an unknown name, or whatever `validate_params` raises — changed nothing -/
theorem setParams_rejected_unchanged (checks : List Check) (e : Est) (kvs : List (String × Val))
    (x : Err) (hx : (setParams checks e kvs).err = some x) (hna : x ≠ .attr) :
    (setParams checks e kvs).est = e ∧ (setParams checks e kvs).delegated = [] := by
  simp only [setParams] at hx ⊢
  split
  · simp
  · generalize setLoop e.params ⟨e.params, [], []⟩ kvs = L at hx ⊢
    obtain ⟨st, err⟩ := L
    cases err with
    | some err => simp
    | none =>
      simp only at hx ⊢
      cases hv : validate checks st.loc with
      | some err => simp
      | none =>
        rename_i hemp
        simp only [hemp, hv, Bool.false_eq_true, if_false] at hx
        rcases runNested_err (assignAll e st.plain).params st.nested with h1 | h1
        · rw [h1] at hx; cases hx
        · rw [h1] at hx
          simp only [Option.some.injEq] at hx
          exact absurd hx.symm hna

/-! ### validation -/

theorem validate_ne_none_of_mem {checks : List Check} {p : Store} {c : Check}
    (hm : c ∈ checks) (hf : evalCheck p c ≠ none) : validate checks p ≠ none := by
  induction checks with
  | nil => simp at hm
  | cons c' cs ih =>
    simp only [validate]
    cases h : evalCheck p c' with
    | some e => simp
    | none =>
      simp only
      simp only [List.mem_cons] at hm
      rcases hm with hm | hm
      · subst hm; exact absurd h hf
      · exact ih hm

theorem evalCheck_none_of_validate {checks : List Check} {p : Store} {c : Check}
    (hv : validate checks p = none) (hm : c ∈ checks) : evalCheck p c = none := by
  cases h : evalCheck p c with
  | none => rfl
  | some e => exact absurd hv (validate_ne_none_of_mem hm (by simp [h]))

/-- overwriting one parameter of an accepted store by a float can only produce an
`AssertionError` (no `TypeError`/`KeyError`/`ValueError` appears) -/
theorem evalCheck_assign_flt {p : Store} {c : Check} {k : String} (q : Rat) (hk : k ∈ keys p)
    (h : evalCheck p c = none) :
    evalCheck (assign p k (.flt q)) c = none ∨ evalCheck (assign p k (.flt q)) c = some .assert := by
  cases c with
  | has k' =>
    left
    simp only [evalCheck] at h ⊢
    by_cases hkk : k' = k
    · subst hkk; simp [get?_assign_same _ hk]
    · rw [get?_assign_other _ hkk]; exact h
  | range k' lo hi =>
    simp only [evalCheck] at h ⊢
    by_cases hkk : k' = k
    · subst hkk
      rw [get?_assign_same _ hk]
      simp only [Val.numView]
      by_cases hr : inRange lo hi q = true
      · left; simp [hr]
      · right; simp [hr]
    · rw [get?_assign_other _ hkk]; left; exact h
  | isFloat k' =>
    left
    simp only [evalCheck] at h ⊢
    by_cases hkk : k' = k
    · subst hkk; rw [get?_assign_same _ hk]
    · rw [get?_assign_other _ hkk]; exact h
  | isArr k' =>
    simp only [evalCheck] at h ⊢
    by_cases hkk : k' = k
    · subst hkk; rw [get?_assign_same _ hk]; right; rfl
    · rw [get?_assign_other _ hkk]; left; exact h

theorem validate_assign_flt {checks : List Check} {p : Store} {k : String} (q : Rat) (hk : k ∈ keys p)
    (h : validate checks p = none) :
    validate checks (assign p k (.flt q)) = none ∨ validate checks (assign p k (.flt q)) = some .assert := by
  induction checks with
  | nil => left; rfl
  | cons c cs ih =>
    simp only [validate] at h ⊢
    cases hc : evalCheck p c with
    | some e => simp [hc] at h
    | none =>
      simp only [hc] at h
      rcases evalCheck_assign_flt q hk hc with h1 | h1
      · simp only [h1]; exact ih h
      · simp only [h1]; right; trivial

/-! ### construction -/

theorem bindList_spec {kw defaults : Store} {args : List String} {s : Store}
    (h : bindList kw defaults args = some s) :
    keys s = args ∧ ∀ a v, get? kw a = some v → a ∈ args → args.Nodup → get? s a = some v := by
  induction args generalizing s with
  | nil =>
    simp only [bindList, Option.some.injEq] at h
    subst h
    simp [keys]
  | cons a as ih =>
    simp only [bindList] at h
    split at h
    · simp at h
    · rename_i v hv
      cases hb : bindList kw defaults as with
      | none => simp [hb] at h
      | some s' =>
        simp only [hb, Option.map_some, Option.some.injEq] at h
        subst h
        obtain ⟨ih1, ih2⟩ := ih hb
        refine ⟨by simp [keys] at ih1 ⊢; exact ih1, ?_⟩
        intro a' v' hg hm hn
        simp only [List.nodup_cons] at hn
        simp only [get?]
        by_cases haa : a = a'
        · subst haa
          simp only [if_true]
          rw [hg] at hv
          simpa using hv.symm
        · simp only [haa, if_false]
          simp only [List.mem_cons] at hm
          rcases hm with hm | hm
          · exact absurd hm.symm haa
          · exact ih2 a' v' hg hm hn.2

theorem construct_ok {c : ClassSpec} {kw : Store} {e : Est} (h : construct c kw = .ok e) :
    ∃ s, bindArgs c kw = some s ∧ validate c.checks s = none ∧ e = ⟨c.name, s, initAttrs⟩ := by
  simp only [construct] at h
  split at h
  · simp at h
  · rename_i s hs
    split at h
    · simp at h
    · rename_i hv
      simp only [Except.ok.injEq] at h
      exact ⟨s, hs, hv, h.symm⟩

theorem bindArgs_spec {c : ClassSpec} {kw s : Store} (h : bindArgs c kw = some s) :
    keys s = c.args ∧ (∀ k ∈ keys kw, k ∈ c.args) ∧
    ∀ a v, get? kw a = some v → a ∈ c.args → c.args.Nodup → get? s a = some v := by
  simp only [bindArgs] at h
  split at h
  · rename_i hall
    obtain ⟨h1, h2⟩ := bindList_spec h
    refine ⟨h1, ?_, h2⟩
    intro k hk
    have := List.all_eq_true.mp hall k hk
    simpa using this
  · simp at h

/-- constructing with `p'` = constructing with `p`, then `set_params(**p')`, for any class
description whose argument names are distinct and free of `__` -/
theorem setParams_eq_construct_generic (c : ClassSpec) (hnd : c.args.Nodup) (hpl : ∀ a ∈ c.args, Plain a)
    (p p' : Store) (e e' : Est) (h : construct c p = .ok e) (h' : construct c p' = .ok e')
    (hn' : (keys p').Nodup) (htot : ∀ a ∈ c.args, (get? p' a).isSome) :
    setParams c.checks e p' = ⟨e', none, []⟩ := by
  obtain ⟨s, hs, _, he⟩ := construct_ok h
  obtain ⟨s', hs', hv', he'⟩ := construct_ok h'
  obtain ⟨hks, _, _⟩ := bindArgs_spec hs
  obtain ⟨hks', hsub', hval'⟩ := bindArgs_spec hs'
  have hstore : applyAll s p' = s' := by
    apply store_ext
    · rw [keys_applyAll, hks, hks']
    · rw [keys_applyAll, hks]; exact hnd
    · intro k
      by_cases hk : k ∈ c.args
      · have hsome := htot k hk
        cases hg : get? p' k with
        | none => simp [hg] at hsome
        | some v =>
          rw [hval' k v hg hk hnd]
          exact applyAll_get_of_mem hn' (mem_of_get? hg) (by rw [hks]; exact hk)
      · have h1 : get? (applyAll s p') k = none := by
          apply get?_eq_none_iff.mpr; rw [keys_applyAll, hks]; exact hk
        have h2 : get? s' k = none := by
          apply get?_eq_none_iff.mpr; rw [hks']; exact hk
        rw [h1, h2]
  by_cases hne : p' = []
  · subst hne
    have hargs : c.args = [] := by
      cases ha : c.args with
      | nil => rfl
      | cons a as =>
        have := htot a (by rw [ha]; exact List.mem_cons_self)
        simp [get?] at this
    have : s = s' := by
      simp only [applyAll, List.foldl_nil] at hstore
      exact hstore
    subst he; subst he'
    simp [setParams, this]
  · have hpk : ∀ kv ∈ p', Plain kv.1 ∧ kv.1 ∈ keys e.params := by
      intro kv hm
      have hk : kv.1 ∈ c.args := hsub' kv.1 (List.mem_map.mpr ⟨kv, hm, rfl⟩)
      refine ⟨hpl kv.1 hk, ?_⟩
      subst he
      simp only [hks]
      exact hk
    rw [setParams_plain c.checks e p' hne hpk]
    subst he; subst he'
    simp only [hstore, hv']

/-! ### attributes -/

/-- well-formed object: `params` is a dict (no duplicate keys), its names contain no `__`,
and no `__dict__` entry shadows a parameter name -/
structure Est.WF (e : Est) : Prop where
  nodup : (keys e.params).Nodup
  plain : ∀ k ∈ keys e.params, Plain k
  disjoint : ∀ k ∈ keys e.params, get? e.attrs k = none

theorem get?_append_other {p : Store} {k k' : String} {v : Val} (h : k' ≠ k) :
    get? (p ++ [(k, v)]) k' = get? p k' := by
  induction p with
  | nil =>
    have : ¬ k = k' := fun e => h e.symm
    simp [get?, this]
  | cons kv r ih =>
    obtain ⟨k'', v''⟩ := kv
    simp only [List.cons_append, get?]
    rw [ih]

theorem get?_upsert_other {p : Store} {k k' : String} (v : Val) (h : k' ≠ k) :
    get? (upsert p k v) k' = get? p k' := by
  simp only [upsert]
  split
  · exact get?_assign_other v h
  · exact get?_append_other h

theorem get?_upsert_same (p : Store) (k : String) (v : Val) : get? (upsert p k v) k = some v := by
  simp only [upsert]
  split
  · rename_i h; exact get?_assign_same v (get?_isSome_iff.mp h)
  · rename_i h
    have hn : get? p k = none := by
      cases hg : get? p k with
      | none => rfl
      | some x => simp [hg] at h
    clear h
    induction p with
    | nil => simp [get?]
    | cons kv r ih =>
      obtain ⟨k'', v''⟩ := kv
      simp only [get?] at hn
      by_cases hk : k'' = k
      · simp [hk] at hn
      · simp only [hk, if_false] at hn
        simp only [List.cons_append, get?, hk, if_false]
        exact ih hn

theorem setAttr_WF {e : Est} (h : e.WF) (k : String) (v : Val) : (setAttr e k v).WF := by
  simp only [setAttr]
  split
  · exact ⟨by simpa [keys_assign] using h.nodup, by simpa [keys_assign] using h.plain,
      by simpa [keys_assign] using h.disjoint⟩
  · rename_i hk
    refine ⟨h.nodup, h.plain, ?_⟩
    intro k' hk'
    have hne : k' ≠ k := by
      intro e'
      subst e'
      exact hk (get?_isSome_iff.mpr hk')
    simp only
    rw [get?_upsert_other v hne]
    exact h.disjoint k' hk'

theorem assignAll_inv (e : Est) (kvs : List (String × Val)) (h : ∀ kv ∈ kvs, kv.1 ∈ keys e.params) :
    keys (assignAll e kvs).params = keys e.params ∧ (assignAll e kvs).attrs = e.attrs ∧
    (assignAll e kvs).cls = e.cls := by
  rw [assignAll_known e kvs h]
  exact ⟨keys_applyAll _ _, rfl, rfl⟩

theorem setParams_inv (checks : List Check) (e : Est) (kvs : List (String × Val)) :
    keys (setParams checks e kvs).est.params = keys e.params ∧
    (setParams checks e kvs).est.attrs = e.attrs ∧ (setParams checks e kvs).est.cls = e.cls := by
  simp only [setParams]
  split
  · simp
  · have hk := setLoop_plain_known e.params ⟨e.params, [], []⟩ kvs
    generalize setLoop e.params ⟨e.params, [], []⟩ kvs = L at hk
    obtain ⟨st, err⟩ := L
    cases err with
    | some err => simp
    | none =>
      simp only
      split
      · simp
      · apply assignAll_inv
        intro kv hm
        rcases hk kv hm with h1 | h1
        · simp at h1
        · exact h1

/-! ### ownership -/

theorem read_own_mutate (h : Heap) (a i : Nat) (r : List Rat) {w : Wt} (hw : w.isOwn = true) :
    w.read (h.mutateRow a i r) = w.read h := by
  cases w with
  | own v => rfl
  | view a' i' => simp [Wt.isOwn] at hw

theorem commitRows_copy_own (h : Heap) (a n : Nat) : ∀ w ∈ commitRows true h a n, w.isOwn = true := by
  intro w hw
  simp only [commitRows, if_true, List.mem_filterMap, Option.map_eq_some_iff] at hw
  obtain ⟨i, _, v, _, hv⟩ := hw
  subst hv
  rfl

end Art.Params
