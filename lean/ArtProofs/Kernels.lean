/-
ArtProofs.Kernels — algebra of the elementary learning rules over an arbitrary
linearly ordered field (ℚ as executed, ℝ as the literature means it).
-/
import Mathlib.Algebra.Order.Field.Basic
import Mathlib.Tactic.Ring
import Mathlib.Tactic.Linarith
import Mathlib.Tactic.FieldSimp
import Mathlib.Tactic.Positivity
import ArtProofs.Members
import ArtModel.Kernels

namespace Art

set_option linter.unusedSectionVars false

variable {α : Type} [Field α] [LinearOrder α] [IsStrictOrderedRing α]

/-- component-wise `≤` on vectors of equal length -/
def vle (a b : List α) : Prop := List.Forall₂ (· ≤ ·) a b

theorem vle_refl (a : List α) : vle a a := by
  induction a with
  | nil => exact List.Forall₂.nil
  | cons x xs ih => exact List.Forall₂.cons le_rfl ih

theorem vle_trans {a b c : List α} (h₁ : vle a b) (h₂ : vle b c) : vle a c := by
  induction h₁ generalizing c with
  | nil => cases h₂; exact List.Forall₂.nil
  | cons hab _ ih =>
    cases h₂ with
    | cons hbc h₂' => exact List.Forall₂.cons (le_trans hab hbc) (ih h₂')

theorem vle_length {a b : List α} (h : vle a b) : a.length = b.length := by
  induction h with
  | nil => rfl
  | cons _ _ ih => simp [ih]

theorem vsum_le_of_vle {a b : List α} (h : vle a b) : vsum a ≤ vsum b := by
  induction h with
  | nil => exact le_rfl
  | cons hab _ ih => simp only [vsum]; exact add_le_add hab ih

/-! ### `np.minimum` is the lattice meet -/

theorem vmin_len (x w : List α) (h : x.length = w.length) : (vmin x w).length = w.length := by
  simp [vmin, h]

theorem vminLeRight (x w : List α) (h : x.length = w.length) : vle (vmin x w) w := by
  induction x generalizing w with
  | nil => cases w <;> simp_all [vmin, vle]
  | cons a x ih =>
    cases w with
    | nil => simp at h
    | cons b w =>
      simp only [List.length_cons, Nat.add_right_cancel_iff] at h
      exact List.Forall₂.cons (min_le_right a b) (ih w h)

theorem vminLeLeft (x w : List α) (h : x.length = w.length) : vle (vmin x w) x := by
  induction x generalizing w with
  | nil => cases w <;> simp_all [vmin, vle]
  | cons a x ih =>
    cases w with
    | nil => simp at h
    | cons b w =>
      simp only [List.length_cons, Nat.add_right_cancel_iff] at h
      exact List.Forall₂.cons (min_le_left a b) (ih w h)

/-- greatest lower bound -/
theorem le_vmin {z x w : List α} (h₁ : vle z x) (h₂ : vle z w) : vle z (vmin x w) := by
  induction h₁ generalizing w with
  | nil => cases h₂; exact List.Forall₂.nil
  | cons hzx _ ih =>
    cases h₂ with
    | cons hzw h₂' => exact List.Forall₂.cons (le_min hzx hzw) (ih h₂')

theorem vmin_eq_right_of_vle {x w : List α} (h : vle w x) : vmin x w = w := by
  induction h with
  | nil => rfl
  | cons hab _ ih => simp only [vmin, List.zipWith_cons_cons] at ih ⊢; rw [ih, min_eq_right hab]

/-! ### Fuzzy ART -/

/-- Fast learning (`beta = 1`) is the meet. -/
theorem fuzzyUpdate_one (x w : List α) (h : x.length = w.length) : fuzzyUpdate 1 x w = vmin x w := by
  unfold fuzzyUpdate vadd smul vmin
  induction x generalizing w with
  | nil => cases w <;> simp_all
  | cons a x ih =>
    cases w with
    | nil => simp at h
    | cons b w =>
      simp only [List.length_cons, Nat.add_right_cancel_iff] at h
      simp only [List.zipWith_cons_cons, List.map_cons, List.cons.injEq]
      exact ⟨by ring, ih w h⟩

theorem fuzzyUpdate_length (β : α) (x w : List α) (h : x.length = w.length) :
    (fuzzyUpdate β x w).length = w.length := by
  simp [fuzzyUpdate, vadd, smul, vmin, h]

/-- Weights never increase: `w' ≤ w` for every learning rate in `[0,1]`. -/
theorem fuzzyUpdate_le (β : α) (hβ0 : 0 ≤ β) (_hβ1 : β ≤ 1) (x w : List α) (h : x.length = w.length) :
    vle (fuzzyUpdate β x w) w := by
  unfold fuzzyUpdate vadd smul vmin
  induction x generalizing w with
  | nil => cases w <;> simp_all [vle]
  | cons a x ih =>
    cases w with
    | nil => simp at h
    | cons b w =>
      simp only [List.length_cons, Nat.add_right_cancel_iff] at h
      simp only [List.zipWith_cons_cons, List.map_cons]
      refine List.Forall₂.cons ?_ (ih w h)
      have : min a b ≤ b := min_le_right a b
      nlinarith

/-- … and never drop below the meet with the sample. -/
theorem fuzzyUpdate_ge_meet (β : α) (_hβ0 : 0 ≤ β) (hβ1 : β ≤ 1) (x w : List α) (h : x.length = w.length) :
    vle (vmin x w) (fuzzyUpdate β x w) := by
  unfold fuzzyUpdate vadd smul vmin
  induction x generalizing w with
  | nil => cases w <;> simp_all [vle]
  | cons a x ih =>
    cases w with
    | nil => simp at h
    | cons b w =>
      simp only [List.length_cons, Nat.add_right_cancel_iff] at h
      simp only [List.zipWith_cons_cons, List.map_cons]
      refine List.Forall₂.cons ?_ (ih w h)
      have : min a b ≤ b := min_le_right a b
      nlinarith

theorem vsum_fuzzyUpdate (β : α) (x w : List α) (h : x.length = w.length) :
    vsum (fuzzyUpdate β x w) = β * vsum (vmin x w) + (1 - β) * vsum w := by
  unfold fuzzyUpdate vadd smul vmin
  induction x generalizing w with
  | nil => cases w <;> simp_all [vsum]
  | cons a x ih =>
    cases w with
    | nil => simp at h
    | cons b w =>
      simp only [List.length_cons, Nat.add_right_cancel_iff] at h
      simp only [List.zipWith_cons_cons, List.map_cons, vsum]
      rw [ih w h]; ring

/-- **Vigilance bound, one step.**  If the category passed `rho·d ≤ |x ∧ w|` and
already satisfied the bound, so does the updated weight. -/
theorem fuzzy_size_step (β ρd : α) (hβ0 : 0 ≤ β) (hβ1 : β ≤ 1) (x w : List α)
    (h : x.length = w.length) (hm : ρd ≤ vsum (vmin x w)) (hw : ρd ≤ vsum w) :
    ρd ≤ vsum (fuzzyUpdate β x w) := by
  rw [vsum_fuzzyUpdate β x w h]
  nlinarith

/-- `M ≥ rho` means `|x ∧ w| ≥ rho·d` -/
theorem fuzzyMatch_ge_iff (d ρ : α) (hd : 0 < d) (x w : List α) :
    ρ ≤ fuzzyMatch d x w ↔ ρ * d ≤ vsum (vmin x w) := by
  unfold fuzzyMatch
  rw [le_div_iff₀ hd]

/-! ### Hypersphere ART: radius rule (field part; the Euclidean part is in Sphere.lean) -/

/-- `R' = R + beta/2 (max(R,d) - R)` lies between `R` and `max(R,d)`. -/
theorem sphere_radius_between (β R d : α) (hβ0 : 0 ≤ β) (hβ1 : β ≤ 1) :
    R ≤ R + β / (1 + 1) * (max R d - R) ∧ R + β / (1 + 1) * (max R d - R) ≤ max R d := by
  have h1 : 0 ≤ max R d - R := sub_nonneg.mpr (le_max_left R d)
  have h2 : (0:α) ≤ β / (1 + 1) := by positivity
  have h3 : β / (1 + 1) ≤ 1 := by
    rw [div_le_one (by norm_num)]; linarith
  constructor
  · nlinarith
  · nlinarith

/-- `M = 1 - max(R, max(R,d))/r̂ ≥ rho` means `max(R,d) ≤ r̂ (1 - rho)`. -/
theorem sphere_match_ge_iff (rhat ρ R d : α) (hr : 0 < rhat) :
    ρ ≤ 1 - max R (max R d) / rhat ↔ max R d ≤ rhat * (1 - ρ) := by
  have : max R (max R d) = max R d := max_eq_right (le_max_left R d)
  rw [this]
  constructor
  · intro h
    have : max R d / rhat ≤ 1 - ρ := by linarith
    rwa [div_le_iff₀ hr, mul_comm] at this
  · intro h
    have : max R d / rhat ≤ 1 - ρ := by rwa [div_le_iff₀ hr, mul_comm]
    linarith

/-! ### Running moments (Gaussian / Bayesian ART) -/

/-- scalar running mean: after absorbing `x` into a mean of `n` values -/
theorem running_mean_scalar (n S x : α) (hn : 0 < n) :
    (1 - 1 / (n + 1)) * (S / n) + 1 / (n + 1) * x = (S + x) / (n + 1) := by
  have h1 : n + 1 ≠ 0 := by positivity
  have h2 : n ≠ 0 := ne_of_gt hn
  field_simp
  ring

end Art
