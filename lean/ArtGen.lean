import ArtGen.Kernels
import ArtGen.Control
import ArtGen.Fusion
