import ArtGen.Kernels
