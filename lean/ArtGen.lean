import ArtGen.Kernels
import ArtGen.Control
