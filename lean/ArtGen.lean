import ArtGen.Kernels
import ArtGen.Control
import ArtGen.Fusion
import ArtGen.VAT
import ArtGen.Dual
import ArtGen.Topo
import ArtGen.Falcon
import ArtGen.Prep
