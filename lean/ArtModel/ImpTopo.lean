/-
ArtModel.ImpTopo — target-language helpers of the TopoART translator (`harness/artv/ttrans.py`): the numpy
operations that `artlib/topological/TopoART.py` uses, with their numpy semantics on lists (a 1-D array is a
`List`, a 2-D array a list of rows), a Python `dict` as an association list, the attributes of a `TopoART`
instance, and the abstract methods of its base module.  Core Lean only.  Nothing here mentions the model
(`ArtModel/Topo.lean`); `ArtGenProofs/TopoSpec.lean` relates the two.

Index conventions: every helper is total.  Where numpy raises (index out of range, shapes that do not
broadcast) the helper returns the `Inhabited` default / truncates to the shorter operand; the spec theorems
that need in-range indices carry the shape hypothesis explicitly.
-/
import ArtModel.Imp

namespace Art.ImpTopo

/-- the externals of `TopoART`: the methods of `self.base_module` (an abstract object) that TopoART's own code
calls, and the reads of the `cache` dictionary that TopoART makes itself -/
structure Ext (X Wt P C α : Type) extends Art.Imp.Ext X Wt P C α where
  /-- `cache[key]` / `cache.get(key, default)` for the integer-valued keys TopoART stores in the cache it hands
  to `update` (`"resonant_c"`, `"current_c"`); `none` = key absent -/
  cache_int : C → String → Option Int

/-- the attributes of a `TopoART` instance that the translated methods read or write.  `W` is the property
that aliases `base_module.W`; `phi`, `tau` are `params["phi"]`, `params["tau"]` (read through `__getattr__`) -/
structure Self (Wt P : Type) where
  W : List Wt
  /-- `weight_sample_counter_` -/
  cnt : List Nat
  /-- `adjacency` -/
  adj : List (List Nat)
  /-- `_permanent_mask` -/
  perm : List Bool
  /-- `labels_` (an int array; `-1` is a legal value) -/
  labels : List Int
  /-- `sample_counter_` -/
  n : Nat
  params : P
  phi : Nat
  tau : Nat

/-! ### numpy on lists -/

/-- `v >= k` (elementwise, array against scalar) -/
def npGe (v : List Nat) (k : Nat) : List Bool := v.map (fun c => decide (c ≥ k))

/-- `a += b` on boolean arrays of one shape (numpy adds booleans with logical or) -/
def npOr (a b : List Bool) : List Bool := List.zipWith (fun p q => p || q) a b

/-- indices (counted from `k`) of the `true` entries -/
def whereFrom : Nat → List Bool → List Nat
  | _, [] => []
  | k, b :: m => if b then k :: whereFrom (k + 1) m else whereFrom (k + 1) m

/-- `np.where(m)[0]` for a 1-D boolean array: the positions of the `true` entries, ascending -/
def npWhere (m : List Bool) : List Nat := whereFrom 0 m

/-- `a[idx]` with an integer index array (fancy indexing along the first axis) -/
def npTake {β : Type} [Inhabited β] (a : List β) (idx : List Nat) : List β := idx.map (fun i => a[i]!)

/-- `a[:, idx]` on a 2-D array -/
def npTakeCols {β : Type} [Inhabited β] (a : List (List β)) (idx : List Nat) : List (List β) :=
  a.map (fun row => npTake row idx)

/-- `v == x` (elementwise; `v` an index array, `x` an int that may be negative) -/
def npEq (v : List Nat) (x : Int) : List Bool := v.map (fun (p : Nat) => decide (Int.ofNat p = x))

/-- `x in v` for an ndarray `v`: `(v == x).any()` -/
def npContains (v : List Nat) (x : Int) : Bool := (npEq v x).any id

/-- insertion into an ascending list without duplicates -/
def insertUniq (x : Int) : List Int → List Int
  | [] => [x]
  | y :: ys => if x < y then x :: y :: ys else if x = y then y :: ys else y :: insertUniq x ys

/-- `np.unique(v)`: the distinct values, ascending -/
def npUnique (v : List Int) : List Int := v.foldr insertUniq []

/-- `np.zeros((r, c))` -/
def npZeros2 (r c : Nat) : List (List Nat) := List.replicate r (List.replicate c 0)

/-- `a.shape[1]` (0 for an array without rows) -/
def npCols {β : Type} : List (List β) → Nat
  | [] => 0
  | row :: _ => row.length

/-- `np.pad(a, ((t, b), (l, r)), "constant")` on a 2-D array -/
def npPad2 (a : List (List Nat)) (t b l r : Nat) : List (List Nat) :=
  let w := l + npCols a + r
  List.replicate t (List.replicate w 0) ++ a.map (fun row => List.replicate l 0 ++ row ++ List.replicate r 0)
    ++ List.replicate b (List.replicate w 0)

/-- `np.pad(v, (l, r), "constant")` on a 1-D array whose dtype has the zero `z` -/
def npPad1 {β : Type} (v : List β) (l r : Nat) (z : β) : List β := List.replicate l z ++ v ++ List.replicate r z

/-- `a[i, j] += d` -/
def npAddAt2 (a : List (List Nat)) (i j d : Nat) : List (List Nat) :=
  a.set i ((a[i]!).set j ((a[i]!)[j]! + d))

/-! ### Python dict built by a comprehension -/

/-- `d.get(k)` for the dict built from the pairs in order (a later pair with the same key overwrites) -/
def dictGet {κ ν : Type} [BEq κ] : List (κ × ν) → κ → Option ν
  | [], _ => none
  | (k', v) :: rest, k =>
    match dictGet rest k with
    | some v' => some v'
    | none => if k' == k then some v else none

end Art.ImpTopo
