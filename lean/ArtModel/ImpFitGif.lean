/-
ArtModel.ImpFitGif — what the `fit_gif` translator (`harness/artv/gftrans.py`) adds to the target language of
`ArtModel/Imp.lean`.  Core Lean only.  Nothing here mentions the model; `ArtGenProofs/FitGifSpec.lean` relates the
generated definitions to `ArtGen/Control.lean` (and through `ControlFit.lean` to the model).

`BaseART.fit_gif` fills `labels_` with `-1` before the first epoch, so the label vector is a `List Int` here
(`Art.Imp.Self` keeps it as `List Nat`: `fit` starts from zeros).  `SelfZ` is `Art.Imp.Self` with that one field
retyped.  `BaseART.step_fit` neither reads nor writes `labels_` (checked on the source by the translator, and proved
for the generated `Art.Gen.BaseART.step_fit` in the spec file: `step_fit_labels_frame`), so a call of it passes the
view `toBase` (all attributes but `labels_`) and writes back every attribute of the returned view (`ofBase`).

The three hooks `pre_step_fit` / `post_step_fit` / `post_fit` are empty in BaseART and exist to be overridden; the
training loops call them through `self.`, so in the generated loops they are the fields of `Hooks` (arbitrary
functions of the whole instance, `labels_` included).  Their BaseART bodies are translated on their own.
-/
import ArtModel.Imp

namespace Art.ImpFitGif

/-- the attributes of a `BaseART` instance that `fit` / `fit_gif` read or write; `labels_` may hold `-1` -/
structure SelfZ (Wt P : Type) where
  W : List Wt
  /-- `weight_sample_counter_` -/
  cnt : List Nat
  /-- `sample_counter_` -/
  n : Nat
  params : P
  /-- `labels_` -/
  labels : List Int := []
  /-- `hasattr(self, "W")` -/
  hasW : Bool := true

/-- the instance as `BaseART.step_fit` sees it: everything but `labels_` -/
def SelfZ.toBase {Wt P : Type} (s : SelfZ Wt P) : Art.Imp.Self Wt P :=
  { W := s.W, cnt := s.cnt, n := s.n, params := s.params, labels := [], hasW := s.hasW }

/-- write back every attribute of the view `BaseART.step_fit` returns; `labels_` is outside the view -/
def SelfZ.ofBase {Wt P : Type} (s : SelfZ Wt P) (r : Art.Imp.Self Wt P) : SelfZ Wt P :=
  { W := r.W, cnt := r.cnt, n := r.n, params := r.params, labels := s.labels, hasW := r.hasW }

/-- the overridable hooks the training loops call through `self.` -/
structure Hooks (Xt Wt P : Type) where
  /-- `pre_step_fit(X)` -/
  pre_step_fit : SelfZ Wt P → List Xt → SelfZ Wt P
  /-- `post_step_fit(X)` -/
  post_step_fit : SelfZ Wt P → List Xt → SelfZ Wt P
  /-- `post_fit(X)` -/
  post_fit : SelfZ Wt P → List Xt → SelfZ Wt P

end Art.ImpFitGif
