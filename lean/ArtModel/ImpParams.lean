/-
ArtModel.ImpParams — the target language of the estimator-protocol translator
(`harness/artv/qtrans.py`).  Core Lean only.

Of `ArtModel/Params.lean` only the *data types* `Val` (a Python value as far as the
protocol looks at it), `Err` (the exception kinds) and `Store` (`List (String × Val)`,
a dict in insertion order) are used; every *operation* below is defined here, on its
own, as generic Python semantics — nothing in this file knows about artlib, about
`Check` / `validate` / `setParams` or about the class table:

* dicts as association lists in insertion order (`dget`, `dhas`, `dset` = replace in place
  or append, `getitem` = `KeyError`, `ddset2` = `d[k1][k2] = v` on a `defaultdict(dict)`);
* `str.partition(sep)` on character lists;
* Python's comparison of a dynamically typed value with a number (`cmpVN`, `cmpNV`): a
  `float`/`int` gives a `bool`, a numpy array gives a Boolean array, anything else raises
  `TypeError`; `bool(x)` of a Boolean array with other than one element raises `ValueError`;
  a chained comparison `a op b op c` evaluates `b op c` only when `a op b` is truthy;
* `isinstance`, `np.all`;
* the monad `Py σ` in which a method runs: it returns the value or the exception raised
  **and the state as it is when the call ends** (nothing is rolled back when Python
  raises — an attribute stored before a failing `assert` stays visible);
* the object: `World.self` is the instance `__dict__` (a slot holds a value or the
  `params` dict), `World.calls` is the log of calls made to nested estimators.
-/
import ArtModel.Params

namespace Art.Q
open Art.Params (Val Err Store)

/-! ### dicts -/

section Dict
variable {V : Type}

/-- `d.get(k)` -/
def dget : List (String × V) → String → Option V
  | [], _ => none
  | (k, v) :: r, l => if k = l then some v else dget r l

/-- `k in d` -/
def dhas (d : List (String × V)) (k : String) : Bool := (dget d k).isSome

/-- `d[k] = v`: replace in place, or append -/
def dset : List (String × V) → String → V → List (String × V)
  | [], l, v => [(l, v)]
  | (k, v0) :: r, l, v => if k = l then (k, v) :: r else (k, v0) :: dset r l v

/-- `d.keys()` -/
def dkeys (d : List (String × V)) : List String := d.map (·.1)

/-- `d.items()` -/
def items (d : List (String × V)) : List (String × V) := d

/-- `d.get(k, dflt)` -/
def dgetD (d : List (String × V)) (k : String) (dflt : V) : V := (dget d k).getD dflt

/-- `d[k]` (`KeyError`) -/
def getitem (d : List (String × V)) (k : String) : Except Err V :=
  match dget d k with
  | some v => .ok v
  | none => .error .key

/-- `d[k1][k2] = v` on a `defaultdict(dict)`: a missing `k1` is created (at the end) as `{}` -/
def ddset2 (d : List (String × List (String × V))) (k1 k2 : String) (v : V) :
    List (String × List (String × V)) :=
  dset d k1 (dset (dgetD d k1 []) k2 v)

/-- `bool(d)` -/
def dictTruth (d : List (String × V)) : Bool := !d.isEmpty

end Dict

/-! ### strings -/

/-- first occurrence of `sep` in a character list: what is before it and what is after it -/
def partitionChars (sep : List Char) : List Char → Option (List Char × List Char)
  | [] => none
  | c :: cs =>
    if sep.isPrefixOf (c :: cs) then some ([], (c :: cs).drop sep.length)
    else (partitionChars sep cs).map (fun r => (c :: r.1, r.2))

/-- `s.partition(sep)` for a non-empty `sep` -/
def partition (s sep : String) : String × String × String :=
  match partitionChars sep.toList s.toList with
  | some r => (String.ofList r.1, sep, String.ofList r.2)
  | none => (s, "", "")

/-- `bool(s)` -/
def strTruth (s : String) : Bool := !(s == "")

/-! ### dynamically typed comparisons -/

/-- the result of a comparison: a Python `bool`, or a numpy Boolean array -/
inductive Truth where
  | b (x : Bool)
  | ba (l : List Bool)
  deriving DecidableEq, Repr

/-- `bool(t)` -/
def truth : Truth → Except Err Bool
  | .b x => .ok x
  | .ba [x] => .ok x
  | .ba _ => .error .value

inductive Cmp where
  | ge | gt | le | lt
  deriving DecidableEq, Repr

def Cmp.rel : Cmp → Rat → Rat → Bool
  | .ge, a, b => decide (b ≤ a)
  | .gt, a, b => decide (b < a)
  | .le, a, b => decide (a ≤ b)
  | .lt, a, b => decide (a < b)

/-- `v op c` for a dynamically typed `v` and a number `c` -/
def cmpVN (op : Cmp) (v : Val) (c : Rat) : Except Err Truth :=
  match v with
  | .flt q => .ok (.b (op.rel q c))
  | .int i => .ok (.b (op.rel (i : Rat) c))
  | .arr l => .ok (.ba (l.map (fun x => op.rel x c)))
  | _ => .error .type

/-- `c op v` for a number `c` and a dynamically typed `v` -/
def cmpNV (op : Cmp) (c : Rat) (v : Val) : Except Err Truth :=
  match v with
  | .flt q => .ok (.b (op.rel c q))
  | .int i => .ok (.b (op.rel c (i : Rat)))
  | .arr l => .ok (.ba (l.map (fun x => op.rel c x)))
  | _ => .error .type

/-- `a op1 b op2 c`: `first` is `a op1 b`; `second` (`b op2 c`) is evaluated only when `first` is truthy,
otherwise the (falsy) first result is the value -/
def chain (first : Except Err Truth) (second : Unit → Except Err Truth) : Except Err Truth :=
  match first with
  | .error e => .error e
  | .ok t =>
    match truth t with
    | .error e => .error e
    | .ok true => second ()
    | .ok false => .ok t

/-- `np.all(t)` -/
def npAll : Truth → Bool
  | .b x => x
  | .ba l => l.all id

inductive PyType where
  | float | ndarray
  deriving DecidableEq, Repr

/-- `isinstance(v, T)` -/
def isinstance : Val → PyType → Bool
  | .flt _, .float => true
  | .arr _, .ndarray => true
  | _, _ => false

/-- `assert c` in a function that writes nothing -/
def assert (c : Bool) : Except Err Unit := if c then .ok () else .error .assert

/-! ### methods: state + exceptions -/

/-- a method run on the state `σ`: the value or the exception raised, and the state when the call ends -/
def Py (σ β : Type) : Type := σ → Except Err β × σ

namespace Py
variable {σ β γ : Type}

protected def pure (b : β) : Py σ β := fun s => (.ok b, s)

protected def bind (m : Py σ β) (f : β → Py σ γ) : Py σ γ := fun s =>
  match m s with
  | (.ok b, s') => f b s'
  | (.error e, s') => (.error e, s')

instance : Monad (Py σ) where
  pure := Py.pure
  bind := Py.bind

/-- a call of a function that writes nothing -/
def lift (e : Except Err β) : Py σ β := fun s => (e, s)

/-- `raise E(...)` -/
def raise (e : Err) : Py σ β := fun s => (.error e, s)

/-- `for x in xs: body` with the re-bound local variables threaded as `acc` -/
def forEach {τ : Type} : List γ → τ → (γ → τ → Py σ τ) → Py σ τ
  | [], acc, _ => Py.pure acc
  | x :: r, acc, body => Py.bind (body x acc) (fun acc' => forEach r acc' body)

end Py

/-- what an instance `__dict__` entry holds: the `params` dict, or a value -/
inductive Slot where
  | dict (d : Store)
  | val (v : Val)
  deriving DecidableEq, Repr

structure World where
  /-- the instance `__dict__` -/
  self : List (String × Slot)
  /-- `set_params` calls made to nested estimators: (module id, keyword arguments) -/
  calls : List (Nat × Store)
  deriving DecidableEq, Repr

abbrev M := Py World

/-- `self.__dict__` -/
def selfDict : M (List (String × Slot)) := fun w => (.ok w.self, w)

/-- the load `self.params`: the `params` entry of `__dict__`.  (When it was never stored Python
ends up in `__getattr__("params")`, which loads `self.params` again: `RecursionError`; rendered
as `AttributeError`.  A `params` entry that is not a dict is rendered as `TypeError`.) -/
def selfParams : M Store := fun w =>
  (match dget w.self "params" with
    | some (.dict d) => .ok d
    | some (.val _) => .error .type
    | none => .error .attr, w)

/-- `key in x` for what a `__dict__` entry holds -/
def slotHas (s : Slot) (k : String) : Except Err Bool :=
  match s with
  | .dict d => .ok (dhas d k)
  | .val (.arr _) => .ok false
  | .val (.lst _) => .ok false
  | .val _ => .error .type

/-- a `__dict__`-level value used as a parameter value (a dict is outside the value universe `Val`) -/
def asVal : Slot → Except Err Val
  | .val v => .ok v
  | .dict _ => .error .type

/-- `self.params[k] = v` — also the write `x[k] = v` through an alias `x` of that dict object -/
def paramsSetitem (k : String) (v : Val) : M Unit := fun w =>
  match dget w.self "params" with
  | some (.dict d) => (.ok (), { w with self := dset w.self "params" (.dict (dset d k v)) })
  | some (.val _) => (.error .type, w)
  | none => (.error .attr, w)

/-- `object.__setattr__(self, k, v)`: the instance `__dict__` (no data descriptor is involved) -/
def objectSetattr (k : String) (v : Slot) : M Unit := fun w =>
  (.ok (), { w with self := dset w.self k v })

/-- `getattr(obj, k)`: the instance `__dict__` first, then the class's `__getattr__` -/
def pyGetattr (getattr__ : String → M Val) (k : String) : M Slot := fun w =>
  match dget w.self k with
  | some s => (.ok s, w)
  | none =>
    match getattr__ k w with
    | (.ok v, w') => (.ok (.val v), w')
    | (.error e, w') => (.error e, w')

/-- the stand-in for a nested estimator's `set_params(**sub)`: a value that is an estimator records the
call (and is assumed to return), any other value has no such attribute -/
def logSetParams (v : Val) (sub : Store) : M Unit := fun w =>
  match v with
  | .mod id => (.ok (), { w with calls := w.calls ++ [(id, sub)] })
  | _ => (.error .attr, w)

end Art.Q
