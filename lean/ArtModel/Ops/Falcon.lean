/-
ArtModel.Ops.Falcon — protocol handlers for the `falcon` operation family (C16).
Core Lean only.  `none` = malformed line (the driver prints `bad-op`).
All numbers are exact rationals (`R` lines).  CHANS as in `ArtModel/Ops/Fusion.lean`
(three channels state;action;reward).  Column bounds of all modules are the
identity (`d_min = 0`, `d_max = 1`): `prepare_data` of the action module is plain
complement coding and a Fuzzy centre is `(w[:d] + 1 - w[d:]) / 2`.

    falcon rew CHANS W S A
        `get_rewards(S, A)` on the model with fused weights W (S, A prepared rows)
      output  `r=<centre>|<centre>…`  (`-` for a row without answer)

    falcon act CHANS MAX W STATE SPACE
        `get_action(STATE, SPACE, optimality)`; MAX = 1 for "max", 0 for "min";
        SPACE = matrix of raw (un-prepared) actions or `default` (action-channel centres)
      output  `act=<vector|none> rewards=<centre>|<centre>…`

    falcon sarsa ALPHA LAMBDA TRAINED CHANS W S A R SSR
        `calculate_SARSA(S, A, R, single_sample_reward)`; TRAINED = 1 iff `modules[0]`
        has a `W`; SSR = a number or `none`
      output  `S=<states_fit> A=<actions_fit> T=<sarsa_rewards_fit>`
-/
import ArtModel.Driver
import ArtModel.Falcon
import ArtModel.Ops.Fusion

namespace Art.Ops

open Art.Drv Art.Fusion Art.Falcon

def ccRat (a : List Rat) : List Rat := a ++ vcompl a

def showOptVec : Option (List Rat) → String
  | some v => showVec v
  | none => "none"

/-- handler for lines starting with `falcon `; `a` = the remaining space-separated fields -/
def falcon (a : List String) : Option String := do
  match a with
  | ["rew", chans, W, S, A] =>
    let cs ← parseChans chans
    let W ← parseMat (α := Rat) W
    let S ← parseMat (α := Rat) S
    let A ← parseMat (α := Rat) A
    let ch := cs.map (·.toChan)
    let rs := getRewards ch fuzzyCentre W S A
    some ("r=" ++ (if rs.isEmpty then "-" else "|".intercalate (rs.map showOptVec)))
  | ["act", chans, mx, W, state, space] =>
    let cs ← parseChans chans
    let mx ← parseBool mx
    let W ← parseMat (α := Rat) W
    let st ← parseVec (α := Rat) state
    let sp ← if space == "default" then some none else (parseMat (α := Rat) space).map some
    let ch := cs.map (·.toChan)
    let act := getAction ch fuzzyCentre fuzzyCentre ccRat W st sp mx
    let rs := actionRewards ch fuzzyCentre fuzzyCentre ccRat W st sp
    some s!"act={showOptVec act} rewards={if rs.isEmpty then "-" else "|".intercalate (rs.map showOptVec)}"
  | ["sarsa", al, la, tr, chans, W, S, A, R, ssr] =>
    let al ← parseRat al
    let la ← parseRat la
    let tr ← parseBool tr
    let cs ← parseChans chans
    let W ← parseMat (α := Rat) W
    let S ← parseMat (α := Rat) S
    let A ← parseMat (α := Rat) A
    let R ← parseMat (α := Rat) R
    let ssr ← if ssr == "none" then some none else (parseRat ssr).map some
    let ch := cs.map (·.toChan)
    let (S', A', T) := calcSarsa al la tr (qValue ch fuzzyCentre W) S A R ssr
    some s!"S={showMat S'} A={showMat A'} T={showMat T}"
  | _ => none

end Art.Ops
