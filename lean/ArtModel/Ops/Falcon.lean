/-
ArtModel.Ops.Falcon — protocol handler(s) for the `falcon` operation family.
Core Lean only.  `none` = malformed line (the driver prints `bad-op`).
-/
import ArtModel.Driver

namespace Art.Ops

/-- handler for lines starting with `falcon `; `a` = the remaining space-separated fields -/
def falcon (_a : List String) : Option String := none

end Art.Ops
