/-
ArtModel.Ops.Fusion — protocol handler(s) for the `fusion` operation family.
Core Lean only.  `none` = malformed line (the driver prints `bad-op`).
-/
import ArtModel.Driver

namespace Art.Ops

/-- handler for lines starting with `fusion `; `a` = the remaining space-separated fields -/
def fusion (_a : List String) : Option String := none

end Art.Ops
