/-
ArtModel.Ops.Fusion — protocol handlers for the `fusion` operation family (C10, C11).
Core Lean only.  `none` = malformed line (the driver prints `bad-op`).
All numbers are exact rationals `p/q` (`R` lines).

Common fields
  CHANS    channel specs joined by `;`, each `KIND:WIDTH:GAMMA:RHO:ALPHA:BETA` with
           KIND = `fuzzy` (FuzzyART; `dim_original` = WIDTH/2; weight length WIDTH)
                | `art2a` (ART2A; weight length WIDTH)
                | `art1` (ART1; the ALPHA field carries `L`, BETA is ignored; weight length 2*WIDTH)
  SKIP     comma-joined channel numbers, negative ones allowed (`-` = none)
  vectors  comma-joined, matrices = rows joined by `|`, `-` = empty

    fusion hist MODE EPS VETOTAB CHANS # call # call …
        MODE     MT+ | MT- | MT0 | MT1 | MT~ ;  EPS epsilon of match tracking
        VETOTAB  rows of 0/1 joined by `|` (`-` = no reset function): row i, column c =
                 the reset function vetoes category c for the i-th presented sample
                 (counted over the whole history)
        call     `fit X` | `pfit X` | `pred X` | `pred X SKIP`
      output, one group per call joined by ` # `:
        fit/pfit  `W=<fused W> cnt=<counters> n=<FusionART.sample_counter_> labels=<labels_> ch=<W of module 0>;<W of module 1>;…`
        pred      `pred=<labels>`

    fusion kern MODE CHANS SKIP X W
        public `category_choice(i, w, params, skip_channels)` and
        `match_criterion_bin(i, w, params, cache, op(MODE), skip_channels)` on one sample / one fused weight
      output  `T=<value|nan> M=<channel match values> bin=<0|1>`

    fusion joinsplit WIDTHS SKIP DATA ROW
        `join_channel_data(DATA, SKIP)` for one row (DATA = the supplied channel rows joined by `|`)
        and `split_channel_data(ROW, SKIP)`
      output  `join=<vector|err> split=<matrix>`

    fusion restore CHANS SKIP ROW
        `restore_data(ROW, SKIP)` for one row, modules with identity column bounds
        (fuzzy: de-complement-coding, art2a / art1: the identity)
      output  `restore=<matrix of the kept channels|err>`

    fusion regr CHANS TARGETS W X
        `predict_regression(X, TARGETS)` with centres for identity column bounds
        (fuzzy: `(w[:d] + 1 - w[d:]) / 2`, art2a: `w`, art1: the top-down half `w[dim:]`)
      output  `regr=<row>|<row>…`, a row = the target centres joined by `;`, `err` = IndexError
-/
import ArtModel.Driver
import ArtModel.Fusion

namespace Art.Ops

open Art.Drv Art.Fusion

structure ChanSpec where
  kind : String
  width : Nat
  gamma : Rat
  rho : Rat
  alpha : Rat
  beta : Rat

def parseChanSpec (s : String) : Option ChanSpec := do
  match s.splitOn ":" with
  | [kind, w, g, rho, al, be] =>
    if kind != "fuzzy" && kind != "art2a" && kind != "art1" then none
    else some ⟨kind, ← w.toNat?, ← parseRat g, ← parseRat rho, ← parseRat al, ← parseRat be⟩
  | _ => none

def parseChans (s : String) : Option (List ChanSpec) := (splitList s ";").mapM parseChanSpec

def ChanSpec.toChan (c : ChanSpec) : Chan Rat :=
  if c.kind == "fuzzy" then ⟨fuzzyKernel c.alpha c.beta ((c.width / 2 : Nat) : Rat), c.width, c.gamma, c.width⟩
  else if c.kind == "art1" then ⟨art1Kernel c.alpha c.width, c.width, c.gamma, 2 * c.width⟩
  else ⟨art2Kernel c.alpha c.beta, c.width, c.gamma, c.width⟩

/-- weight-to-centre map of channel `k` for identity column bounds -/
def specCentre (cs : List ChanSpec) (k : Nat) (w : List Rat) : List Rat :=
  match cs[k]? with
  | some c => if c.kind == "fuzzy" then fuzzyCentre w else if c.kind == "art1" then w.drop c.width else w
  | none => w

def parseInts (s : String) : Option (List Int) := (splitList s).mapM String.toInt?

/-- `fusionCfg` over `Rat` (MT1 abandons the search, its `inf` is never compared) -/
def fusionRatCfg (mode : MT) (eps : Rat) : SearchCfg (List Rat) (List Rat) :=
  fusionCfg mode (· + eps) (· - eps) 0

inductive FCall where
  | fit (xs : List (List Rat))
  | pfit (xs : List (List Rat))
  | pred (xs : List (List Rat)) (skip : List Int)

def parseFCall (s : String) : Option FCall := do
  match s.splitOn " " with
  | ["fit", xs] => some (.fit (← parseMat xs))
  | ["pfit", xs] => some (.pfit (← parseMat xs))
  | ["pred", xs] => some (.pred (← parseMat xs) [])
  | ["pred", xs, sk] => some (.pred (← parseMat xs) (← parseInts sk))
  | _ => none

def showFusionState (ws : List Nat) (s : ArtState (List Rat)) : String :=  -- `ws` = weight lengths
  let chW (k : Nat) : String := showMat (chanState ws k s).W
  let ch := ";".intercalate ((List.range ws.length).map chW)
  s!"W={showMat s.W} cnt={showNats s.cnt} n={s.n} labels={showNats s.labels} ch={ch}"

def runFusion (chans : List (Chan Rat)) (cfg : SearchCfg (List Rat) (List Rat)) (th0 : List Rat)
    (vetoTab : Option (List (List Bool))) (calls : List FCall) : List String :=
  let K := fusionKernel chans
  let ws := wlens chans
  let veto (g base : Nat) : ArtState (List Rat) → List Rat → Nat → Bool := fun s _ c =>
    match vetoTab with
    | none => false
    | some vt => ((vt[g + (s.labels.length - base)]?).getD []).getD c false
  let rec go (s : ArtState (List Rat)) (g : Nat) : List FCall → List String
    | [] => []
    | .fit xs :: cs =>
      let s' := fit K cfg th0 (veto g 0) s xs
      showFusionState ws s' :: go s' (g + xs.length) cs
    | .pfit xs :: cs =>
      let s' := partialFit K cfg th0 (veto g s.labels.length) s xs
      showFusionState ws s' :: go s' (g + xs.length) cs
    | .pred xs sk :: cs =>
      ("pred=" ++ showOptNats (predictSkip chans sk s.W xs)) :: go s g cs
  go {} 0 calls

def showOptRat : Option Rat → String
  | some r => showRat r
  | none => "nan"

def opFusionHist (line : String) : Option String := do
  match line.splitOn " # " with
  | [] => none
  | hd :: callStrs =>
    match hd.splitOn " " with
    | [mode, eps, vt, chans] =>
      let mode ← parseMT mode
      let eps ← parseRat eps
      let vt ← if vt == "-" then some none else (parseVetoTab vt).map some
      let cs ← parseChans chans
      let calls ← callStrs.mapM parseFCall
      some (" # ".intercalate
        (runFusion (cs.map (·.toChan)) (fusionRatCfg mode eps) (cs.map (·.rho)) vt calls))
    | _ => none

/-- handler for lines starting with `fusion `; `a` = the remaining space-separated fields -/
def fusion (a : List String) : Option String := do
  match a with
  | "hist" :: rest => opFusionHist (" ".intercalate rest)
  | ["kern", mode, chans, skip, x, w] =>
    let mode ← parseMT mode
    let cs ← parseChans chans
    let sk ← parseInts skip
    let x ← parseVec (α := Rat) x
    let w ← parseVec (α := Rat) w
    let ch := cs.map (·.toChan)
    let skp := skipSet ch.length sk
    let T := choiceSkip ch skp [w] x w
    let M := matchVec ch x w
    let b := matchBinSkip mode skp (cs.map (·.rho)) M
    some s!"T={showOptRat T} M={showVec M} bin={showBool b}"
  | ["joinsplit", ws, skip, data, row] =>
    let ws ← (splitList ws).mapM String.toNat?
    let sk ← parseInts skip
    let data ← parseMat (α := Rat) data
    let row ← parseVec (α := Rat) row
    let skp := skipSet ws.length sk
    let j := match joinRow ws skp (1 / 2 : Rat) data with
      | some v => showVec v
      | none => "err"
    some s!"join={j} split={showMat (splitRow ws skp row)}"
  | ["restore", chans, skip, row] =>
    let cs ← parseChans chans
    let sk ← parseInts skip
    let row ← parseVec (α := Rat) row
    let ws := cs.map (·.width)
    let rest (k : Nat) (v : List Rat) : List Rat :=
      match cs[k]? with
      | some c => if c.kind == "fuzzy" then fuzzyCentre v else v
      | none => v
    some ("restore=" ++ (match restoreRow rest ws (skipSet ws.length sk) row with
      | some m => showMat m
      | none => "err"))
  | ["regr", chans, targets, W, X] =>
    let cs ← parseChans chans
    let tg ← parseInts targets
    let W ← parseMat (α := Rat) W
    let X ← parseMat (α := Rat) X
    let ch := cs.map (·.toChan)
    let rows := X.map (fun x => match predictRegression ch (specCentre cs) tg W x with
      | some vs => ";".intercalate (vs.map showVec)
      | none => "err")
    some ("regr=" ++ (if rows.isEmpty then "-" else "|".intercalate rows))
  | _ => none

end Art.Ops
