/-
ArtModel.Ops.Vat — protocol handler(s) for the `vat` operation family.
Core Lean only.  `none` = malformed line (the driver prints `bad-op`).
-/
import ArtModel.Driver

namespace Art.Ops

/-- handler for lines starting with `vat `; `a` = the remaining space-separated fields -/
def vat (_a : List String) : Option String := none

end Art.Ops
