/-
ArtModel.Ops.Vat — protocol handler(s) for the `vat` operation family.
Core Lean only.  `none` = malformed line (the driver prints `bad-op`).

  vat F <matrix>   entries = 16-hex-digit IEEE doubles, rows `|`, entries `,`
  vat R <matrix>   entries = exact rationals `p/q`
  →  idx=<comma nats> out=<matrix, same encoding>

`F`: the order logic (`vat`) runs on the sign-magnitude integer keys of the
doubles (`keyOfBits`; `-0`/`+0` share a key, exactly as IEEE `<` sees them), i.e.
at `α := Int`, the instance the C20 theorems cover verbatim.  The output matrix
is printed with the *original* bit patterns: it is `ixSub` (the model's
`np.ix_`, polymorphic in the entry type) of the hex matrix by the model's index
vector, and the line is refused (`coherence-error`) unless its keys are exactly
the model's output matrix.
-/
import ArtModel.Driver
import ArtModel.VAT

namespace Art.Ops
open Art.Drv

def isSquareB {β : Type} (D : List (List β)) : Bool := D.all (fun r => r.length == D.length)

def showStrMat (m : List (List String)) : String :=
  if m.isEmpty then "-"
  else "|".intercalate (m.map (fun r => if r.isEmpty then "-" else ",".intercalate r))

def vatF (s : String) : Option String := do
  let S : List (List String) := (splitList s "|").map (fun r => splitList r)
  let K ← S.mapM (fun r => r.mapM parseKey)
  if !isSquareB S then some "bad-shape"
  else
    match K.mapM (fun r => r.mapM id) with
    | none => some "nan-input"   -- NaN is not a value of the order-only model
    | some K =>
      let (idx, outK) := Art.VAT.vat K
      let outS := Art.VAT.ixSub S idx idx
      if outS.map (fun r => r.map (fun t => (parseKey t).join)) == outK.map (fun r => r.map some) then
        some s!"idx={showNats idx} out={showStrMat outS}"
      else some "coherence-error"

def vatR (s : String) : Option String := do
  let D ← parseMat (α := Rat) s
  if !isSquareB D then some "bad-shape"
  else
    let (idx, out) := Art.VAT.vat D
    some s!"idx={showNats idx} out={showMat out}"

/-- handler for lines starting with `vat `; `a` = the remaining space-separated fields -/
def vat (a : List String) : Option String :=
  match a with
  | ["F", m] => vatF m
  | ["R", m] => vatR m
  | _ => none

end Art.Ops
