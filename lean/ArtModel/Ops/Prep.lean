/-
ArtModel.Ops.Prep — protocol handler(s) for the `prep` operation family (C18).
Core Lean only.  `none` = malformed line (the driver prints `bad-op`).

All lines are `R` lines: numbers are exact rationals `p/q`; a matrix is rows
joined by `|`, a row is entries joined by `,` (see `Art.Drv.parseMat`).

  prep norm <X>
      first `BaseART.prepare_data` call on a fresh module
      -> `Y=<mat> dmax=<vec> dmin=<vec>`
         an entry of `Y` is `nf` (non-finite: numpy NaN/±inf) when its divisor
         `d_max - d_min` is zero
  prep norm2 <X1> <X2>
      `prepare_data(X1)` then `prepare_data(X2)` on the same module
      -> `Y=<mat of the 2nd call> dmax=<vec> dmin=<vec> kept=<0|1>`
         (`kept` = the second call left the remembered bounds unchanged)
  prep denorm <Y> <dmax> <dmin>        `utils.de_normalize`      -> `X=<mat>`
  prep cc <X>                          `utils.compliment_code`   -> `Y=<mat>`
  prep decc <Y>                        `utils.de_compliment_code`-> `X=<mat>` | `assert`
  prep prepare <base|fuzzy> <X>        that class's `prepare_data`, fresh module
      -> `Y=<mat> dmax=<vec> dmin=<vec>`
  prep restore <base|fuzzy> <Y> <dmax> <dmin>   that class's `restore_data`
      -> `X=<mat>` | `assert`
  prep roundtrip <base|fuzzy> <X>      restore_data(prepare_data(X)), fresh module
      -> `X=<mat>` | `nf` (some column of X is constant) | `assert`
  prep validate <base|fuzzy|art1|art2a> <alpha|-> <dim|-> <X>
      that class's `validate_data` on a module whose `dim_` is <dim> (`-` = absent)
      -> `ok dim=<n>` | `assert dim=<n|->`     (`dim` = `dim_` AFTER the call)
-/
import ArtModel.Driver
import ArtModel.Prep

namespace Art.Ops
open Art.Drv

def showOptEntry (v : Option Rat) : String :=
  match v with
  | some r => showRat r
  | none => "nf"

def showOptMat (m : List (List (Option Rat))) : String :=
  if m.isEmpty then "-" else "|".intercalate (m.map (fun r =>
    if r.isEmpty then "-" else ",".intercalate (r.map showOptEntry)))

/-- normalised output with non-finite entries masked; `none` if the plain and
the IEEE-aware model disagree on a finite entry (cannot happen, see
`Art.Prep.normWithChk_eq`) -/
def maskedNorm (X : Mat Rat) (s : PrepState Rat) : Option (String × PrepState Rat) :=
  let r := prepareBase s X
  match r.2.dmax, r.2.dmin with
  | some mx, some mn =>
    let chk := normWithChk mx mn X
    let coherent := (List.zip chk r.1).all (fun (c, p) =>
      c.length == p.length && (List.zip c p).all (fun (a, b) =>
        match a with
        | some v => v == b
        | none => true))
    if coherent && chk.length == r.1.length then some (showOptMat chk, r.2) else none
  | _, _ => none

def parseKind (s : String) : Option PrepKind :=
  match s with
  | "base" => some .base
  | "fuzzy" => some .fuzzy
  | _ => none

def parseDim (s : String) : Option (Option Nat) :=
  if s == "-" then some none else s.toNat?.map some

def showDim (d : DimState) : String :=
  match d.dim with
  | some n => toString n
  | none => "-"

/-- is some column of `X` constant (divisor zero on the first call)? -/
def hasConstCol (X : Mat Rat) : Bool :=
  (List.zip (colMax X) (colMin X)).any (fun (a, b) => a == b)

/-- handler for lines starting with `prep `; `a` = the remaining space-separated fields -/
def prep (a : List String) : Option String := do
  match a with
  | ["norm", xs] =>
    let X ← parseMat (α := Rat) xs
    let (y, s) ← maskedNorm X {}
    some s!"Y={y} dmax={showVec (s.dmax.getD [])} dmin={showVec (s.dmin.getD [])}"
  | ["norm2", x1, x2] =>
    let X1 ← parseMat (α := Rat) x1
    let X2 ← parseMat (α := Rat) x2
    let s1 := (prepareBase {} X1).2
    let (y, s2) ← maskedNorm X2 s1
    some s!"Y={y} dmax={showVec (s2.dmax.getD [])} dmin={showVec (s2.dmin.getD [])} kept={showBool (s1 == s2)}"
  | ["denorm", ys, mx, mn] =>
    let Y ← parseMat (α := Rat) ys
    let mx ← parseVec (α := Rat) mx
    let mn ← parseVec (α := Rat) mn
    some s!"X={showMat (deNormalize Y mx mn)}"
  | ["cc", xs] =>
    let X ← parseMat (α := Rat) xs
    some s!"Y={showMat (complementCode X)}"
  | ["decc", ys] =>
    let Y ← parseMat (α := Rat) ys
    match deComplementCode Y with
    | some X => some s!"X={showMat X}"
    | none => some "assert"
  | ["prepare", kind, xs] =>
    let k ← parseKind kind
    let X ← parseMat (α := Rat) xs
    if hasConstCol X then some "nf"
    else
      let r := prepareMod k {} X
      some s!"Y={showMat r.1} dmax={showVec (r.2.dmax.getD [])} dmin={showVec (r.2.dmin.getD [])}"
  | ["restore", kind, ys, mx, mn] =>
    let k ← parseKind kind
    let Y ← parseMat (α := Rat) ys
    let mx ← parseVec (α := Rat) mx
    let mn ← parseVec (α := Rat) mn
    match restoreMod k { dmax := some mx, dmin := some mn } Y with
    | some X => some s!"X={showMat X}"
    | none => some "assert"
  | ["roundtrip", kind, xs] =>
    let k ← parseKind kind
    let X ← parseMat (α := Rat) xs
    if hasConstCol X then some "nf"
    else
      let r := prepareMod k {} X
      match restoreMod k r.2 r.1 with
      | some X' => some s!"X={showMat X'}"
      | none => some "assert"
  | ["validate", cls, alpha, dim, xs] =>
    let d ← parseDim dim
    let X ← parseMat (α := Rat) xs
    let s : DimState := { dim := d }
    let r ← (match cls with
      | "base" => some (runValidate (validBase (α := Rat)) s X)
      | "fuzzy" => some (runValidate (validFuzzy (α := Rat)) s X)
      | "art1" => some (runValidate (validART1 (α := Rat)) s X)
      | "art2a" => do
        let al ← parseRat alpha
        some (runValidateART2A al s X)
      | _ => none)
    some s!"{if r.2 then "ok" else "assert"} dim={showDim r.1}"
  | _ => none

end Art.Ops
