/-
ArtModel.Ops.Prep — protocol handler(s) for the `prep` operation family.
Core Lean only.  `none` = malformed line (the driver prints `bad-op`).
-/
import ArtModel.Driver

namespace Art.Ops

/-- handler for lines starting with `prep `; `a` = the remaining space-separated fields -/
def prep (_a : List String) : Option String := none

end Art.Ops
