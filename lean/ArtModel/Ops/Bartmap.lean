/-
ArtModel.Ops.Bartmap — protocol handler(s) for the `bartmap` operation family.
Core Lean only.  `none` = malformed line (the driver prints `bad-op`).

`bartmap rc NA NB ROWLABELS COLLABELS`
    labels are comma-joined naturals (`-` = empty).  Answer:
    `rows=<m> cols=<m> cells=<c>` where `<m>` is the indicator matrix, one bit
    string per bicluster joined by `|` (`-` = no biclusters), in the order of
    `rows_` / `columns_`; `<c>` has one `|`-separated group per matrix row, each a
    comma-joined list with one entry per matrix column: the index of the unique
    bicluster containing that cell, or the error marker `!n` when the cell lies
    in `n ≠ 1` biclusters.

`bartmap fit AMODE AINVs ARHOs AEPS ASTEPS AXS VETOTAB BMODE BINVs BRHOs BEPS BSTEPS BXS`
    the whole of `BARTMAP.fit` on table-driven kernels (`Drv.tabKernel`): per
    side the recorded activations / match values (`STEPS`, `;`-joined `T/M` as in
    `hist base tab`) and the samples `i:ncat`; `VETOTAB` = `|`-joined bit strings,
    entry `[k][c]` = 1 when the correlation test refused category `c` for matrix
    row `k`.  Answer: `la=<row labels> na=<n> lb=<column labels> nb=<n>` followed
    by the three fields of `rc`.
-/
import ArtModel.Driver
import ArtModel.Bartmap

namespace Art.Ops
open Art.Drv

def showBits (m : List (List Bool)) : String :=
  if m.isEmpty then "-" else "|".intercalate (m.map (fun r => String.ofList (r.map (fun b => if b then '1' else '0'))))

def showCells (rows cols : List (List Bool)) (nr nc : Nat) : String :=
  if nr == 0 then "-" else
  "|".intercalate ((List.range nr).map (fun i =>
    if nc == 0 then "-" else
    ",".intercalate ((List.range nc).map (fun j =>
      match cellBiclusters rows cols i j with
      | [k] => toString k
      | l => s!"!{l.length}"))))

def showRC (rows cols : List (List Bool)) (nr nc : Nat) : String :=
  s!"rows={showBits rows} cols={showBits cols} cells={showCells rows cols nr nc}"

/-- handler for lines starting with `bartmap `; `a` = the remaining space-separated fields -/
def bartmap (a : List String) : Option String := do
  match a with
  | ["rc", na, nb, rl, cl] =>
    let na ← na.toNat?
    let nb ← nb.toNat?
    let rl ← (splitList rl).mapM String.toNat?
    let cl ← (splitList cl).mapM String.toNat?
    some (showRC (rowsOf na nb rl) (columnsOf na nb cl) rl.length cl.length)
  | ["fit", amode, ainv, arho, aeps, asteps, axs, vt, bmode, binv, brho, beps, bsteps, bxs] =>
    let amode ← parseMT amode
    let ainv ← (splitList ainv).mapM parseBool
    let arho ← (splitList arho).mapM (fun s => (parseKey s).join)
    let aeps ← parseFloatBits aeps
    let atab ← (splitList asteps ";").mapM parseTabStep
    let axs ← parseTabXs axs
    let vt ← parseVetoTab vt
    let bmode ← parseMT bmode
    let binv ← (splitList binv).mapM parseBool
    let brho ← (splitList brho).mapM (fun s => (parseKey s).join)
    let beps ← parseFloatBits beps
    let btab ← (splitList bsteps ";").mapM parseTabStep
    let bxs ← parseTabXs bxs
    let veto : Nat × Nat → Nat → Bool := fun x c => ((vt[x.1]?).getD []).getD c false
    let r := bartmapFit (tabKernel atab) (vecCfg amode ainv aeps) arho
      (tabKernel btab) (vecCfg bmode binv beps) brho veto axs bxs
    some (s!"la={showNats r.a.labels} na={r.a.W.length} lb={showNats r.b.labels} nb={r.b.W.length} "
      ++ showRC r.rows r.cols r.a.labels.length r.b.labels.length)
  | _ => none

end Art.Ops
