/-
ArtModel.Ops.Bartmap — protocol handler(s) for the `bartmap` operation family.
Core Lean only.  `none` = malformed line (the driver prints `bad-op`).
-/
import ArtModel.Driver

namespace Art.Ops

/-- handler for lines starting with `bartmap `; `a` = the remaining space-separated fields -/
def bartmap (_a : List String) : Option String := none

end Art.Ops
