/-
ArtModel.Ops.Dual — protocol handler(s) for the `dual` operation family.
Core Lean only.  `none` = malformed line (the driver prints `bad-op`).
-/
import ArtModel.Driver

namespace Art.Ops

/-- handler for lines starting with `dual `; `a` = the remaining space-separated fields -/
def dual (_a : List String) : Option String := none

end Art.Ops
