/-
ArtModel.Ops.Dual — protocol handler for the `dual` operation family (C13).
Core Lean only.  `none` = malformed line (the driver prints `bad-op`).

Line format (table-driven, like `hist base tab`; all numbers are IEEE doubles as
16 hex digits, compared through their sign-magnitude keys):

    dual MODE EPS RHO RHOLB INV VETOTAB STEPS # call # call …

  MODE     MT+ | MT- | MT0 | MT1 | MT~
  EPS      epsilon of match tracking
  RHO      the base module's configured (upper) vigilance
  RHOLB    rho_lower_bound
  INV      1 if the base module's vigilance test is inverted (BayesianART:
           `rho op M`), else 0.  Match tracking is the wrapper's own,
           non-inverted rule in both cases (`rho := M + eps` for MT+ …).
  VETOTAB  rows joined by `|`, one per entry of STEPS (same index), each a
           string of 0/1 indexed by CLUSTER LABEL: 1 = the caller's reset
           function vetoes that cluster for that sample; `-` = no reset function.
           A missing row / column means "not vetoed".
  STEPS    table steps joined by `;`, each `T/M` as in `hist base tab`:
           `T` = comma-joined activations (`nan` allowed), `M` = comma-joined match
           values (`?` = never computed by the implementation).
  call     `fit XS` | `pfit XS` | `pred XS`, `XS` = comma-joined `i:ncat` with `i`
           the index into STEPS and `ncat` the number of categories before the step.

Output: one field group per call, joined by ` # `:

    fit/pfit:  labels=… map=… k=<n_clusters> cnt=… nW=<|W|> n=<sample_counter_> ev=…
               `ev` has one event per sample of the call: `f` first category,
               `a<c>` category c absorbed the sample, `s<c>` a category was spawned
               under c's cluster label, `n` new category with a new cluster label.
    pred:      pred=…            (`-` where the model has no answer)

`unrecorded-match` replaces the whole output when the model visits a category
whose match value the implementation never computed (model and code diverged).
-/
import ArtModel.Driver
import ArtModel.DualVig

namespace Art.Ops

open Art.Drv

/-- scalar configuration of `DualVigilanceART`: the base module's test
(possibly inverted), the wrapper's own non-inverted tracking -/
def dualCfg (mode : MT) (inv : Bool) (eps : Float) : SearchCfg (List Int) Int :=
  { passes := fun th m => match m with
      | [v] => passesScalar mode inv th v
      | _ => false
    track := fun th m => match m with
      | [v] => trackScalar mode (adjKey eps true) (adjKey eps false) infKey th v
      | _ => th
    keep := mode != .one
    tilde := false }

def keyPos : Int → Bool := posOf (0 : Int)

def showEvent : Option DualOutcome → String
  | none => "f"
  | some (.absorb c) => s!"a{c}"
  | some (.spawn c) => s!"s{c}"
  | some .fresh => "n"

def showDual (s : DualState Nat) (ev : List String) : String :=
  s!"labels={showNats s.base.labels} map={showNats s.map} k={nClusters s.map} cnt={showNats s.base.cnt} nW={s.base.W.length} n={s.base.n} ev={if ev.isEmpty then "-" else ",".intercalate ev}"

/-- train on the samples of one call; returns the state, the events and whether
a visited category had no recorded match value -/
def dualRunBatch (tab : List TabStep) (cfg : SearchCfg (List Int) Int) (rho lb : Int)
    (veto : DualState Nat → Nat × Nat → Nat → Bool) :
    DualState Nat → List (Nat × Nat) → DualState Nat × List String × Bool
  | s, [] => (s, [], false)
  | s, x :: xs =>
    let K := tabKernel tab
    let dec := dualDecide K cfg rho lb keyPos (veto s x) s x
    let bad := if s.base.W.isEmpty then false else
      (dualStepSearch K cfg rho lb keyPos (veto s x) s x).visits.any (fun v =>
        (((tab[x.1]?).bind (fun st => (st.M[v.c]?).join))).isNone)
    let s' := dualTrainStep K cfg rho lb keyPos veto s x
    let (sf, ev, b) := dualRunBatch tab cfg rho lb veto s' xs
    (sf, showEvent dec :: ev, bad || b)

def dualRun (tab : List TabStep) (cfg : SearchCfg (List Int) Int) (rho lb : Int)
    (vt : List (List Bool)) : DualState Nat → List (Call (Nat × Nat)) → List String × Bool
  | _, [] => ([], false)
  | s, c :: cs =>
    let veto : DualState Nat → Nat × Nat → Nat → Bool := fun _ x l => ((vt[x.1]?).getD []).getD l false
    match c with
    | .fit xs _ =>
      let (s', ev, b) := dualRunBatch tab cfg rho lb veto (dualReset s) xs
      let (out, b') := dualRun tab cfg rho lb vt s' cs
      (showDual s' ev :: out, b || b')
    | .pfit xs _ =>
      let (s', ev, b) := dualRunBatch tab cfg rho lb veto s xs
      let (out, b') := dualRun tab cfg rho lb vt s' cs
      (showDual s' ev :: out, b || b')
    | .pred xs =>
      let (out, b') := dualRun tab cfg rho lb vt s cs
      (("pred=" ++ showOptNats (dualPredict (tabKernel tab) s xs)) :: out, b')

/-- handler for lines starting with `dual `; `a` = the remaining space-separated fields -/
def dual (a : List String) : Option String := do
  match (" ".intercalate a).splitOn " # " with
  | [] => none
  | hd :: callStrs =>
    match hd.splitOn " " with
    | [mode, eps, rho, lb, inv, vt, steps] =>
      let mode ← parseMT mode
      let eps ← parseFloatBits eps
      let rho ← (parseKey rho).join
      let lb ← (parseKey lb).join
      let inv ← parseBool inv
      let vt ← parseVetoTab vt
      let tab ← (splitList steps ";").mapM parseTabStep
      let calls ← callStrs.mapM (parseCall parseTabXs)
      let (out, bad) := dualRun tab (dualCfg mode inv eps) rho lb vt {} calls
      if bad then some "unrecorded-match" else some (" # ".intercalate out)
    | _ => none

end Art.Ops
