/-
ArtModel.Ops.Kern — protocol handler(s) for the `kern` operation family.
Core Lean only.  `none` = malformed line (the driver prints `bad-op`).
-/
import ArtModel.Driver

namespace Art.Ops

/-- handler for lines starting with `kern `; `a` = the remaining space-separated fields -/
def kern (_a : List String) : Option String := none

end Art.Ops
