/-
ArtModel.Ops.Kern — protocol handlers for single kernel evaluations (C03).
Core Lean only.

  kern R fuzzy.choice  ALPHA X W          -> number        (exact rationals)
  kern R fuzzy.match   D X W              -> number
  kern R fuzzy.update  BETA X W           -> vector
  kern R fuzzy.bbox    N W                -> ref;widths
  kern R fuzzy.shrink  RATIO W            -> vector
  kern R fuzzy.centre  W                  -> vector         (before de-normalisation)
  kern R art1.choice   DIM X W | art1.match DIM X W | art1.update L DIM X W | art1.new L DIM X
  kern R art2.choice   X W     | art2.match ALPHA X W  | art2.update BETA X W
  kern F sph.choice ALPHA RHAT X W | sph.match RHAT X W | sph.update BETA X W   (IEEE doubles as hex bits)
`zerodiv` is printed when the Python expression would divide by zero.
-/
import ArtModel.Driver

namespace Art.Ops

open Art.Drv

private def r (s : String) : Option Rat := parseRat s
private def v (s : String) : Option (List Rat) := parseVec (α := Rat) s
private def fv (s : String) : Option (List Float) := parseVec (α := Float) s
private def showR (q : Rat) : String := showRat q
private def showV (l : List Rat) : String := showVec l

def kernR : List String → Option String
  | ["fuzzy.choice", a, x, w] => do
    let a ← r a; let x ← v x; let w ← v w
    if a + vsum w == 0 then some "zerodiv" else some (showR (fuzzyChoice a x w))
  | ["fuzzy.match", d, x, w] => do
    let d ← r d; let x ← v x; let w ← v w
    if d == 0 then some "zerodiv" else some (showR (fuzzyMatch d x w))
  | ["fuzzy.update", b, x, w] => do some (showV (fuzzyUpdate (← r b) (← v x) (← v w)))
  | ["fuzzy.bbox", n, w] => do
    let bb := fuzzyBBox (← v w) (← n.toNat?)
    some (showV bb.1 ++ ";" ++ showV bb.2)
  | ["fuzzy.shrink", q, w] => do some (showV (fuzzyShrink (← r q) (← v w)))
  | ["fuzzy.centre", w] => do some (showV (fuzzyCentre (← v w)))
  | ["art1.choice", dim, x, w] => do some (showR (art1Choice (← dim.toNat?) (← v x) (← v w)))
  | ["art1.match", dim, x, w] => do
    let x ← v x
    if vsum x == 0 then some "zerodiv" else some (showR (art1Match (← dim.toNat?) x (← v w)))
  | ["art1.update", L, dim, x, w] => do
    let L ← r L; let dim ← dim.toNat?; let x ← v x; let w ← v w
    if L - 1 + vsum (band' x (w.drop dim)) == 0 then some "zerodiv" else some (showV (art1Update L dim x w))
  | ["art1.new", L, dim, x] => do
    let L ← r L; let _dim ← dim.toNat?; let x ← v x
    if L - 1 + vsum x == 0 then some "zerodiv" else some (showV (art1New L x))
  | ["art2.choice", x, w] => do some (showR (art2Choice (← v x) (← v w)))
  | ["art2.match", a, x, w] => do some (showR (art2Match (← r a) (← v x) (← v w)))
  | ["art2.update", b, x, w] => do some (showV (art2Update (← r b) (← v x) (← v w)))
  | _ => none

def kernF : List String → Option String
  | ["sph.choice", a, rh, x, w] => do
    some (showFloatBits (sphChoice (← parseFloatBits a) (← parseFloatBits rh) (← fv x) (← fv w)))
  | ["sph.match", rh, x, w] => do some (showFloatBits (sphMatch (← parseFloatBits rh) (← fv x) (← fv w)))
  | ["sph.update", b, x, w] => do some (showVec (sphUpdate (← parseFloatBits b) (← fv x) (← fv w)))
  | _ => none

/-- handler for lines starting with `kern ` -/
def kern : List String → Option String
  | "R" :: rest => kernR rest
  | "F" :: rest => kernF rest
  | _ => none

end Art.Ops
