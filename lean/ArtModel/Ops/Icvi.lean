/-
ArtModel.Ops.Icvi — protocol handler(s) for the `icvi` operation family (C15).
Core Lean only.  `none` = malformed line (the driver prints `bad-op`).
All numbers are exact rationals (`R` lines).

  icvi seq <dim> <ops>
      <ops> = `;`-separated list, executed left to right on a fresh `iCVI_CH`:
        a:<label>:<vector>          add_sample(x, label)  then update
        s:<old>:<new>:<vector>      switch_label(x, old, new) then update
        qa:<label>:<vector>         add_sample(x, label)   WITHOUT update (candidate only)
        qs:<old>:<new>:<vector>     switch_label(x, old, new) WITHOUT update
      <vector> = `,`-separated rationals `p/q` (length <dim>).
      → one field per op, joined by `;`:
        a / s  :  <criterion_value>:<n_samples>:<WGSS>:<len(CD)>      state after the update
        qa / qs:  q<criterion_value of the candidate>
        err       the Python raised (unknown label, cluster of 1); execution stops there
  icvi batch <points> <labels>
      <points> = rows separated by `|`, <labels> = `,`-separated naturals
      → `ch=<Calinski-Harabasz index of the labelled data, 0 while undefined>`
-/
import ArtModel.Driver
import ArtModel.ICVI

namespace Art.Ops

open Art.Drv Art.ICVI

private def showSt (s : State Rat) : String :=
  s!"{showRat s.crit}:{s.n}:{showRat s.WGSS}:{s.CD.length}"

/-- run the textual ops; returns the output fields -/
private def runSeq (d : Nat) : State Rat → List String → Option (List String)
  | _, [] => some []
  | st, o :: os => do
    match o.splitOn ":" with
    | ["a", l, v] =>
      let l ← l.toNat?
      let x ← parseVec (α := Rat) v
      if x.length != d then none
      else
        let st' := update st (addSample st x l)
        let rest ← runSeq d st' os
        some (showSt st' :: rest)
    | ["s", lo, ln, v] =>
      let lo ← lo.toNat?
      let ln ← ln.toNat?
      let x ← parseVec (α := Rat) v
      if x.length != d then none
      else
        match switchLabel st x lo ln with
        | none => some ["err"]
        | some p =>
          let st' := update st p
          let rest ← runSeq d st' os
          some (showSt st' :: rest)
    | ["qa", l, v] =>
      let l ← l.toNat?
      let x ← parseVec (α := Rat) v
      if x.length != d then none
      else
        let rest ← runSeq d st os
        some (("q" ++ showRat (addSample st x l).crit) :: rest)
    | ["qs", lo, ln, v] =>
      let lo ← lo.toNat?
      let ln ← ln.toNat?
      let x ← parseVec (α := Rat) v
      if x.length != d then none
      else
        match switchLabel st x lo ln with
        | none => some ["err"]
        | some p =>
          let rest ← runSeq d st os
          some (("q" ++ showRat p.crit) :: rest)
    | _ => none

/-- handler for lines starting with `icvi `; `a` = the remaining space-separated fields -/
def icvi (a : List String) : Option String := do
  match a with
  | ["seq", d, ops] =>
    let d ← d.toNat?
    let out ← runSeq d (init d) (splitList ops ";")
    some (if out.isEmpty then "-" else ";".intercalate out)
  | ["batch", pts, labs] =>
    let X ← parseMat (α := Rat) pts
    let ls ← (splitList labs).mapM String.toNat?
    if X.length != ls.length then none
    else some s!"ch={showRat (chBatch (X.zip ls))}"
  | _ => none

end Art.Ops
