/-
ArtModel.Ops.Icvi — protocol handler(s) for the `icvi` operation family.
Core Lean only.  `none` = malformed line (the driver prints `bad-op`).
-/
import ArtModel.Driver

namespace Art.Ops

/-- handler for lines starting with `icvi `; `a` = the remaining space-separated fields -/
def icvi (_a : List String) : Option String := none

end Art.Ops
