/-
ArtModel.Ops.Topo — protocol handler(s) for the `topo` operation family.
Core Lean only.  `none` = malformed line (the driver prints `bad-op`).
-/
import ArtModel.Driver

namespace Art.Ops

/-- handler for lines starting with `topo `; `a` = the remaining space-separated fields -/
def topo (_a : List String) : Option String := none

end Art.Ops
