/-
ArtModel.Ops.Topo — protocol handler for the `topo` operation family (C14).
Core Lean only.  `none` = malformed line (the driver prints `bad-op`).

    topo MODE EPS RHO TAU PHI VETOTAB KTAB # call # call …

*Table-driven kernel.*  The model runs the TopoART control flow of
`ArtModel.Topo` (`topoFit`, `topoPartialFit`, `topoPredict`, and through them
`topoStep`, `topoSearch`, `prune`) on a kernel that is a *finite table of the
base module's kernel functions*, recorded from the real run at the call
boundary of `base_module.category_choice / match_criterion_bin / update /
new_weight`.  Sample values and weight values are interned by the harness
(`xid`, `wid` = small integers, equal bytes ⇔ equal id), so a kernel function
is a finite map on ids and the comparison of weights is *by value*, exact,
for arbitrary floats:

  MODE     `MT+ | MT- | MT0 | MT1 | MT~`
  EPS RHO  16-hex-digit IEEE doubles (epsilon, configured `rho`)
  TAU PHI  naturals
  VETOTAB  `-` (no reset function) or `|`-joined rows, row `g` = answers of the
           reset function for the sample with global step index `g`, one
           character `0/1` per category *position* (`1` = vetoed)
  KTAB     `;`-joined blocks, block `k` describes sample value `xid = k`:
             NEW/ENTRY,ENTRY,…          (`-` for no entries)
           NEW   = `wid` of `new_weight(x)` or `?`
           ENTRY = wid:T:M:U:L  with
             T = activation `category_choice(x, w)` (hex, `nan`, or `?` = never computed)
             M = match value `match_criterion(x, w)` (hex or `?`)
             U = `wid` of `update(x, w)` at `beta`        (or `?`)
             L = `wid` of `update(x, w)` at `beta_lower`  (or `?`)
  call     `fit g:x,g:x,…` | `pfit g:x,…` | `pred x,x,…`   (`-` = zero rows);
           `g` = global step index (selects the veto row), `x` = `xid`

Output: one segment per call, joined by ` # `.
  `pred`  →  `pred=c,c,…`  (`x` for a row where `np.argmax` of an empty list raises; `-` = zero rows)
  `fit` / `pfit` → `STEP ; STEP ; … ; FINAL` where
     STEP  = `L=label B=best|- S=second|- V=visits P=0|1 STATE`   (state after the sample,
             i.e. after the pruning round if `P=1`); a visit is `c:th:m:ok`
             (`th` = threshold in force, hex); `V=unrecorded-match` if the model visited a
             category whose match value the implementation never computed
     FINAL = `end STATE`
     STATE = `W=wids ids=creation-steps cnt=… n=… adj=row|row|… perm=01… labels=… nW=…`
  A weight of the model is `(creation step g, wid)`; an `update` that was never
  recorded yields `wid + 1000000` (so it can never compare equal).
-/
import ArtModel.Driver
import ArtModel.Topo

namespace Art.Ops

open Art.Drv

structure TopoEntry where
  wid : Nat
  T : Option (Option Int)
  M : Option Int
  U : Option Nat
  L : Option Nat

abbrev TopoTab := List (Option Nat × List TopoEntry)

def parseOptNat (s : String) : Option (Option Nat) :=
  if s == "?" then some none else s.toNat?.map some

def parseTopoEntry (s : String) : Option TopoEntry := do
  match s.splitOn ":" with
  | [w, t, m, u, l] =>
    let wid ← w.toNat?
    let T ← if t == "?" then some none else (parseKey t).map some
    let M ← if m == "?" then some none else ((parseKey m).join).map some
    some ⟨wid, T, M, ← parseOptNat u, ← parseOptNat l⟩
  | _ => none

def parseTopoTab (s : String) : Option TopoTab :=
  (splitList s ";").mapM (fun blk => match blk.splitOn "/" with
    | [nw, es] => do some (← parseOptNat nw, ← (splitList es).mapM parseTopoEntry)
    | _ => none)

def TopoTab.find (tab : TopoTab) (xid wid : Nat) : Option TopoEntry :=
  (tab[xid]?).bind (fun b => b.2.find? (·.wid == wid))

def unrec : Nat := 1000000

/-- sample = (global step, xid); weight = (creation step, wid) -/
def topoTabKernel (tab : TopoTab) : TopoKernel (Nat × Nat) (Nat × Nat) Int (List Int) :=
  { choice := fun _ x w => ((tab.find x.2 w.2).bind (·.T)).join
    matchv := fun x w => match (tab.find x.2 w.2).bind (·.M) with
      | some m => [m]
      | none => []
    update := fun x w => (w.1, ((tab.find x.2 w.2).bind (·.U)).getD (w.2 + unrec))
    updateLower := fun x w => (w.1, ((tab.find x.2 w.2).bind (·.L)).getD (w.2 + unrec))
    newW := fun x => (x.1, ((tab[x.2]?).bind (·.1)).getD unrec) }

def showInts (l : List Int) : String := if l.isEmpty then "-" else ",".intercalate (l.map toString)

def showAdj (a : List (List Nat)) : String :=
  if a.isEmpty then "-" else "|".intercalate (a.map showNats)

def showTopoState (s : TopoState (Nat × Nat)) : String :=
  s!"W={showNats (s.W.map (·.2))} ids={showNats (s.W.map (·.1))} cnt={showNats s.cnt} n={s.n} " ++
  s!"adj={showAdj s.adj} perm={if s.perm.isEmpty then "-" else String.join (s.perm.map showBool)} " ++
  s!"labels={showInts s.labels} nW={s.W.length}"

inductive TopoOpCall where
  | fit (xs : List (Nat × Nat))
  | pfit (xs : List (Nat × Nat))
  | pred (xs : List Nat)

def parseTopoCall (s : String) : Option TopoOpCall := do
  match s.splitOn " " with
  | ["fit", xs] => some (.fit (← parseTabXs xs))
  | ["pfit", xs] => some (.pfit (← parseTabXs xs))
  | ["pred", xs] => some (.pred (← (splitList xs).mapM String.toNat?))
  | _ => none

section
variable (tab : TopoTab) (cfg : SearchCfg (List Int) (List Int)) (th0 : List Int)
  (vt : Option (List (List Bool))) (tau phi : Nat)

def topoVeto : TopoState (Nat × Nat) → (Nat × Nat) → Nat → Bool := fun _ x c =>
  match vt with
  | none => false
  | some t => ((t[x.1]?).getD []).getD c false

/-- the `L= B= S= V=` part of a step record: what the search of this step did -/
def showTopoSearch (s : TopoState (Nat × Nat)) (x : Nat × Nat) : String :=
  let K := topoTabKernel tab
  let veto := topoVeto vt s x
  let lab := (topoStep K cfg th0 veto s x).2
  if s.W.isEmpty then s!"L={lab} B=- S=- V=-"
  else
    let r := topoStepSearch K cfg th0 veto s.W x
    let bad := r.visits.any (fun v => match s.W[v.c]? with
      | some w => ((tab.find x.2 w.2).bind (·.M)).isNone
      | none => true)
    let vs := if bad then "unrecorded-match"
      else if r.visits.isEmpty then "-" else ",".intercalate (r.visits.map showVisit)
    s!"L={lab} B={showOptNat r.best} S={showOptNat r.second} V={vs}"

def runTopoCall (s : TopoState (Nat × Nat)) : TopoOpCall → String × TopoState (Nat × Nat)
  | .fit xs =>
    let K := topoTabKernel tab
    let veto := topoVeto vt
    let tr := topoFitTrace K cfg th0 veto tau phi s xs
    let pre := topoFitInit s xs.length :: tr
    let recs := (List.zip xs (List.zip pre tr)).map (fun (x, p, q) =>
      s!"{showTopoSearch tab cfg th0 vt p x} P={showBool (q.n % tau == 0)} {showTopoState q}")
    let fin := topoFit K cfg th0 veto tau phi s xs
    (" ; ".intercalate (recs ++ ["end " ++ showTopoState fin]), fin)
  | .pfit xs =>
    let K := topoTabKernel tab
    let veto := topoVeto vt
    let tr := topoPFitTrace K cfg th0 veto s xs
    let pre := topoPFitInit s xs.length :: tr
    let recs := (List.zip xs (List.zip pre tr)).map (fun (x, p, q) =>
      s!"{showTopoSearch tab cfg th0 vt p x} P=0 {showTopoState q}")
    let fin := topoPartialFit K cfg th0 veto s xs
    (" ; ".intercalate (recs ++ ["end " ++ showTopoState fin]), fin)
  | .pred xs =>
    let ys := topoPredict (topoTabKernel tab) s.W (xs.map (fun x => (0, x)))
    ("pred=" ++ (if ys.isEmpty then "-" else ",".intercalate (ys.map (fun
      | some c => toString c
      | none => "x"))), s)

def runTopoCalls : TopoState (Nat × Nat) → List TopoOpCall → List String
  | _, [] => []
  | s, c :: cs =>
    let (out, s') := runTopoCall tab cfg th0 vt tau phi s c
    out :: runTopoCalls s' cs

end

/-- handler for lines starting with `topo `; `a` = the remaining space-separated fields -/
def topo (a : List String) : Option String := do
  match (" ".intercalate a).splitOn " # " with
  | [] => none
  | hd :: callStrs =>
    match hd.splitOn " " with
    | [mode, eps, rho, tau, phi, vt, ktab] =>
      let mode ← parseMT mode
      let eps ← parseFloatBits eps
      let rho ← (parseKey rho).join
      let tau ← tau.toNat?
      let phi ← phi.toNat?
      let vt ← if vt == "-" then some none else (parseVetoTab vt).map some
      let tab ← parseTopoTab ktab
      let calls ← callStrs.mapM parseTopoCall
      if tau == 0 then none
      else
        some (" # ".intercalate
          (runTopoCalls tab (vecCfg mode [false] eps) [rho] vt tau phi {} calls))
    | _ => none

end Art.Ops
