/-
ArtModel.Ops.Params — protocol handler(s) for the `params` operation family.
Core Lean only.  `none` = malformed line (the driver prints `bad-op`).

  params table
      → the Lean class table, one entry per elementary class, joined by ` | `:
        Name(arg,…){default=val,…}[has:k;rng:k:<lo>:<hi>;float:k;nd:k;…]
        with <lo> = `0<=` / `0<` / `` and <hi> = `<=1` / `<1` / ``
  params run <Class> <kw> ; <cmd> ; <cmd> …
      cmd = set <kw> | get | attr <k> | setattr <k>=<v>
      → one result per command (first = the constructor), joined by ` ; `
        new      ok:<store> | error:<kind>
        set      ok:<store> | error:<kind>:<store>      (store AFTER the call: F25)
        get      <store>
        attr     <val> | error:attr
        setattr  ok:<store>
  params own <copy 0|1> <X> <i> <row>
      → before=<W> after=<W>: one category per row of X, then `X[i,:] = row`
  params partition <key>   → base|sub   (`-` when there is no `__`)

  <kw> = `k=v,k=v` or `-`;  values: f<rat> float, i<int> int, a<r:r:…> ndarray,
  l<r:r:…> list, m<nat> estimator reference, n None.
-/
import ArtModel.Driver
import ArtModel.Params

namespace Art.Ops

open Art.Params Art.Drv

def parseRats (s : String) : Option (List Rat) :=
  if s == "" then some [] else (s.splitOn ":").mapM parseRat

def parseVal (s : String) : Option Val :=
  match s.toList with
  | 'f' :: r => (parseRat (String.ofList r)).map Val.flt
  | 'i' :: r => ((String.ofList r).toInt?).map Val.int
  | 'a' :: r => (parseRats (String.ofList r)).map Val.arr
  | 'l' :: r => (parseRats (String.ofList r)).map Val.lst
  | 'm' :: r => ((String.ofList r).toNat?).map Val.mod
  | ['n'] => some Val.non
  | _ => none

def showRats (l : List Rat) : String := ":".intercalate (l.map showRat)

def showVal : Val → String
  | .flt q => "f" ++ showRat q
  | .int i => "i" ++ toString i
  | .arr l => "a" ++ showRats l
  | .lst l => "l" ++ showRats l
  | .mod id => "m" ++ toString id
  | .non => "n"

def parseKw (s : String) : Option Store :=
  (splitList s).mapM (fun t =>
    match t.splitOn "=" with
    | [k, v] => (parseVal v).map (fun v => (k, v))
    | _ => none)

def showStore (p : Store) : String :=
  if p.isEmpty then "-" else ",".intercalate (p.map (fun kv => kv.1 ++ "=" ++ showVal kv.2))

def showErr : Err → String
  | .value => "value" | .assert => "assert" | .type => "type" | .attr => "attr" | .key => "key"

def showBoundLo : Option Bound → String
  | none => ""
  | some b => toString b.v ++ (if b.strict then "<" else "<=")

def showBoundHi : Option Bound → String
  | none => ""
  | some b => (if b.strict then "<" else "<=") ++ toString b.v

def showCheck : Check → String
  | .has k => "has:" ++ k
  | .range k lo hi => "rng:" ++ k ++ ":" ++ showBoundLo lo ++ ":" ++ showBoundHi hi
  | .isFloat k => "float:" ++ k
  | .isArr k => "nd:" ++ k

def showClass (c : ClassSpec) : String :=
  c.name ++ "(" ++ ",".intercalate c.args ++ "){" ++
    ",".intercalate (c.defaults.map (fun kv => kv.1 ++ "=" ++ showVal kv.2)) ++ "}[" ++
    ";".intercalate (c.checks.map showCheck) ++ "]"

/-- one command on a live object -/
def runCmd (c : ClassSpec) (e : Est) (cmd : String) : Option (Est × String) :=
  match cmd.splitOn " " with
  | ["get"] => some (e, showStore (getParams e))
  | ["set", kw] => do
    let kvs ← parseKw kw
    let r := setParams c.checks e kvs
    match r.err with
    | none => some (r.est, "ok:" ++ showStore r.est.params)
    | some err => some (r.est, "error:" ++ showErr err ++ ":" ++ showStore r.est.params)
  | ["attr", k] =>
    match getAttr e k with
    | .ok v => some (e, showVal v)
    | .error err => some (e, "error:" ++ showErr err)
  | ["setattr", kv] => do
    match ← parseKw kv with
    | [(k, v)] =>
      let e' := setAttr e k v
      some (e', "ok:" ++ showStore e'.params)
    | _ => none
  | _ => none

def runCmds (c : ClassSpec) : Option Est → List String → Option (List String)
  | _, [] => some []
  | none, _ :: cs => do
    let r ← runCmds c none cs
    some ("-" :: r)
  | some e, cmd :: cs => do
    let (e', out) ← runCmd c e cmd
    let r ← runCmds c (some e') cs
    some (out :: r)

def opRun (line : String) : Option String := do
  match line.splitOn " ; " with
  | [] => none
  | hd :: cmds =>
    match hd.splitOn " " with
    | [cls, kw] =>
      let c ← findClass cls
      let kw ← parseKw kw
      match construct c kw with
      | .ok e =>
        let outs ← runCmds c (some e) cmds
        some (" ; ".intercalate (("ok:" ++ showStore e.params) :: outs))
      | .error err =>
        let outs ← runCmds c none cmds
        some (" ; ".intercalate (("error:" ++ showErr err) :: outs))
    | _ => none

def showObs (o : List (Option (List Rat))) : String :=
  if o.isEmpty then "-" else "|".intercalate (o.map (fun
    | some v => showVec v
    | none => "?"))

def opOwn (a : List String) : Option String := do
  match a with
  | [copy, xs, i, row] =>
    let copy ← parseBool copy
    let X ← parseMat (α := Rat) xs
    let i ← i.toNat?
    let row ← parseVec (α := Rat) row
    let h : Heap := [X]
    let W := commitRows copy h 0 X.length
    some s!"before={showObs (observe h W)} after={showObs (observe (h.mutateRow 0 i row) W)}"
  | _ => none

/-- handler for lines starting with `params `; `a` = the remaining space-separated fields -/
def params (a : List String) : Option String :=
  match a with
  | ["table"] => some (" | ".intercalate (classTable.map showClass))
  | "run" :: rest => opRun (" ".intercalate rest)
  | "own" :: rest => opOwn rest
  | ["partition", k] =>
    let r := partitionKey k
    some (r.1 ++ "|" ++ r.2.getD "-")
  | _ => none

end Art.Ops
