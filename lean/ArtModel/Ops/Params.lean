/-
ArtModel.Ops.Params — protocol handler(s) for the `params` operation family.
Core Lean only.  `none` = malformed line (the driver prints `bad-op`).
-/
import ArtModel.Driver

namespace Art.Ops

/-- handler for lines starting with `params `; `a` = the remaining space-separated fields -/
def params (_a : List String) : Option String := none

end Art.Ops
