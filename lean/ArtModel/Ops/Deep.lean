/-
ArtModel.Ops.Deep — protocol handler(s) for the `deep` operation family.
Core Lean only.  `none` = malformed line (the driver prints `bad-op`).
-/
import ArtModel.Driver

namespace Art.Ops

/-- handler for lines starting with `deep `; `a` = the remaining space-separated fields -/
def deep (_a : List String) : Option String := none

end Art.Ops
