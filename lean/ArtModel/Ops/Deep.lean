/-
ArtModel.Ops.Deep — protocol handler for the `deep` operation family: end-to-end
DeepARTMAP / SMART histories over ℚ.  Core Lean only.  `none` = malformed line
(the driver prints `bad-op`).

Line format (one history per line, fields separated by single spaces, calls by ` # `):

    deep sup|unsup MODE EPS LEVELS # CALL # CALL …

  MODE    MT+ | MT- | MT0 | MT1 | MT~      (the same for every call of the history)
  EPS     rational `p/q`
  LEVELS  one module per level, joined by `;`, each one of
            fuzzy:RHO:ALPHA:BETA:D     (D = un-complemented dimension)
            art1:RHO:L:DIM
            art2a:RHO:ALPHA:BETA
          (all three kernels have samples and weights in `List ℚ`, so one hierarchy
          may mix them)
  CALL    fit XS [Y] | pfit XS [Y] | pred XQ
          XS = one matrix per module joined by `;` (rows `|`, entries `,`, rationals),
          Y  = class labels `,`-joined (supervised histories only),
          XQ = ONE matrix: the data of the last module (`predict` reads `X[-1]`).
          SMART is the `unsup` history whose matrices are all equal.

Output: one field per call, joined by ` # `:
  after fit/pfit   cols=C0;C1;…  maps=M0;M1;…  nc=N0,N1,…  [b=B]
                   Ci = column i of `labels_deep_` (`,`-joined), Mi = map of layer i as a
                   list indexed by A-category (`-` = key absent), Ni = number of categories
                   of module i, B = `module_b.labels_` of the ARTMAP layer (unsup only);
                   `fail` when the model's `assert n_modules >= 2` fires
  after pred       pred=P0;P1;…   (top level first, `n_layers+1` vectors) or `pred=!`
                   when the model raises.
-/
import ArtModel.Driver
import ArtModel.Deep

namespace Art.Ops

open Art.Drv

abbrev QLevel := Level (List Rat) (List Rat) Rat Rat Rat

def parseLevel (mode : MT) (eps : Rat) (s : String) : Option QLevel := do
  match s.splitOn ":" with
  | ["fuzzy", rho, alpha, beta, d] =>
    some { K := fuzzyKernel (← parseRat alpha) (← parseRat beta) (← parseRat d)
           cfg := ratCfg mode eps, th := ← parseRat rho }
  | ["art1", rho, L, dim] =>
    let dim ← dim.toNat?
    some { K := art1Kernel (← parseRat L) dim, cfg := ratCfg mode eps, th := ← parseRat rho }
  | ["art2a", rho, alpha, beta] =>
    some { K := art2Kernel (← parseRat alpha) (← parseRat beta), cfg := ratCfg mode eps, th := ← parseRat rho }
  | _ => none

inductive DCall where
  | fit (Xs : List (List (List Rat))) (y : List Nat)
  | pfit (Xs : List (List (List Rat))) (y : List Nat)
  | pred (xq : List (List Rat))

def parseXs (s : String) : Option (List (List (List Rat))) :=
  (s.splitOn ";").mapM (parseMat (α := Rat))

def parseDCall (s : String) : Option DCall := do
  match s.splitOn " " with
  | ["fit", xs] => some (.fit (← parseXs xs) [])
  | ["fit", xs, ys] => some (.fit (← parseXs xs) (← (splitList ys).mapM String.toNat?))
  | ["pfit", xs] => some (.pfit (← parseXs xs) [])
  | ["pfit", xs, ys] => some (.pfit (← parseXs xs) (← (splitList ys).mapM String.toNat?))
  | ["pred", xq] => some (.pred (← parseMat (α := Rat) xq))
  | _ => none

def showCols (cols : List (List Nat)) : String :=
  if cols.isEmpty then "-" else ";".intercalate (cols.map showNats)

def showLayers (mods : List (ArtState (List Rat))) (layers : List (SMapState (List Rat))) : String :=
  let maps := if layers.isEmpty then "-" else ";".intercalate (layers.map (fun s => showMap s.map))
  s!"cols={showCols (labelsDeep layers)} maps={maps} nc={showNats (mods.map (·.W.length))}"

def showPred (p : Option (List (List Nat))) : String :=
  match p with
  | some cols => "pred=" ++ showCols cols
  | none => "pred=!"

def lastKernel (Ls : List QLevel) : Kernel (List Rat) (List Rat) Rat Rat :=
  match Ls.getLast? with
  | some L => L.K
  | none => fuzzyKernel 0 1 1

def runSup (Ls : List QLevel) : List (SMapState (List Rat)) → List DCall → List String
  | _, [] => []
  | _, .fit Xs y :: cs =>
    let st' := deepFitSup Ls Xs y
    showLayers (st'.map (·.a)) st' :: runSup Ls st' cs
  | st, .pfit Xs y :: cs =>
    let st' := deepPartialFitSup Ls st Xs y
    showLayers (st'.map (·.a)) st' :: runSup Ls st' cs
  | st, .pred xq :: cs => showPred (deepPredict (lastKernel Ls) st xq) :: runSup Ls st cs

def showUnsup : Option (DeepUnsup (List Rat)) → String
  | none => "fail"
  | some d => s!"{showLayers (d.top.b :: d.layers.map (·.a)) d.layers} b={showNats d.top.b.labels}"

def runUnsup (Ls : List QLevel) : Option (DeepUnsup (List Rat)) → List DCall → List String
  | _, [] => []
  | _, .fit Xs _ :: cs =>
    let st' := deepFitUnsup Ls Xs
    showUnsup st' :: runUnsup Ls st' cs
  | st, .pfit Xs _ :: cs =>
    let st' := deepPartialFitUnsup Ls st Xs
    showUnsup st' :: runUnsup Ls st' cs
  | st, .pred xq :: cs =>
    showPred (st.bind (fun d => deepPredict (lastKernel Ls) d.layers xq)) :: runUnsup Ls st cs

/-- handler for lines starting with `deep `; `a` = the remaining space-separated fields -/
def deep (a : List String) : Option String := do
  let line := " ".intercalate a
  match line.splitOn " # " with
  | [] => none
  | hd :: callStrs =>
    match hd.splitOn " " with
    | [kind, mode, eps, levels] =>
      let mode ← parseMT mode
      let eps ← parseRat eps
      let Ls ← (levels.splitOn ";").mapM (parseLevel mode eps)
      let calls ← callStrs.mapM parseDCall
      if kind == "sup" then some (" # ".intercalate (runSup Ls [] calls))
      else if kind == "unsup" then some (" # ".intercalate (runUnsup Ls none calls))
      else none
    | _ => none

end Art.Ops
