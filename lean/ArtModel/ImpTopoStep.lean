/-
ArtModel.ImpTopoStep — what the translator of `TopoART.step_fit` (`harness/artv/ttrans2.py`) adds to the target
language of `ArtModel/Imp.lean` / `ArtModel/ImpTopo.lean`.  Core Lean only.  Nothing here mentions the model
(`ArtModel/Topo.lean`); `ArtGenProofs/TopoStepSpec.lean` relates the two.

`TopoART` wraps a base module.  The translated `step_fit` sees
  * `self.W` (the property that aliases `base_module.W`), the wrapper's own `weight_sample_counter_`, `adjacency`,
    `_permanent_mask`, `labels_`, `sample_counter_` and `params` (the dict with `beta_lower`, `tau`, `phi`), and the
    base module's `params` dict (`bparams`: the one match tracking writes and `_set_params` restores);
  * the base module's kernel methods, the inherited `_match_tracking_operator` and the wrapper's `_match_tracking`
    as the fields of `Art.Imp.Ext`; the integer reads of the cache as `Art.ImpTopo.Ext.cache_int`; and the dict
    operations on the opaque `params` / `cache` dictionaries as the four fields added below.
-/
import ArtModel.Imp
import ArtModel.ImpTopo

namespace Art.ImpTopoStep

/-- the externals of `TopoART.step_fit` / `TopoART.update` -/
structure Ext (X Wt P C α : Type) extends toTopoExt : Art.ImpTopo.Ext X Wt P C α where
  /-- `dict(params, **{key: v})`: a copy of a params dict with one entry replaced -/
  dict_with : P → String → α → P
  /-- `params[key]` for a float-valued hyper-parameter (`self.params["beta_lower"]`) -/
  param : P → String → α
  /-- `dict(cache, **{key: v})` for an integer value: a copy of a cache dict with one entry set -/
  cache_with : C → String → Int → C
  /-- `(cache if cache else {})`: the cache itself when it is a non-empty dict, else the empty dict -/
  cache_or_empty : C → C

/-- the attributes of a `TopoART` instance that the translated `step_fit` reads or writes -/
structure Self (Wt P : Type) where
  /-- `W` (alias of `base_module.W`) -/
  W : List Wt
  /-- `weight_sample_counter_` (the wrapper's own) -/
  cnt : List Nat
  /-- `adjacency` -/
  adj : List (List Nat)
  /-- `_permanent_mask` -/
  perm : List Bool
  /-- `labels_` (never touched by `step_fit`; carried so that a whole model state can be read off) -/
  labels : List Int
  /-- `sample_counter_` -/
  n : Nat
  /-- the wrapper's own `params` (read only) -/
  params : P
  /-- `base_module.params` -/
  bparams : P

end Art.ImpTopoStep
