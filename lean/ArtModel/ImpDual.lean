/-
ArtModel.ImpDual — what the DualVigilanceART translator (`harness/artv/dtrans.py`) adds to the target language of
`ArtModel/Imp.lean`.  Core Lean only.

`DualVigilanceART` wraps a base module.  The translated methods see
  * the base module as a record `Art.Imp.Self Wt P` (its `W`, `weight_sample_counter_`, `params`, …),
  * the wrapper's own `map` (a Python dict keyed by category: `List (Option Nat)`, `none` = key absent — the
    convention of `Art.mapGet` / `Art.mapPut`), `sample_counter_` and `rho_lower_bound`,
  * the base module's methods as fields of `DualExt`: the kernel methods and the two decision methods of `Ext`, plus
    the two state-writing methods `add_weight` / `set_weight` (a base module may override them — FusionART does) and
    the dict update `dict(params, **{key: v})`.
-/
import ArtModel.Imp
import ArtModel.ARTMAP
import ArtModel.DualVig

namespace Art.Imp

/-- the attributes of a `DualVigilanceART` instance that its translated methods read or write -/
structure DualSelf (Wt P α : Type) where
  /-- `base_module` -/
  base : Self Wt P
  /-- `map`: base category -> cluster label -/
  map : List (Option Nat)
  /-- the wrapper's own `sample_counter_` -/
  n : Nat
  /-- `rho_lower_bound` (read through `BaseART.__getattr__` from the wrapper's params) -/
  rho_lower_bound : α

/-- the externals of `DualVigilanceART.step_fit`: everything `BaseART.step_fit` calls (`Ext`) — here the methods of
the *base module*, and the wrapper's own `_match_tracking` (which writes the base module's params) — plus -/
structure DualExt (X Wt P C α : Type) extends Ext X Wt P C α where
  /-- `base_module.add_weight(new_w)`: returns the base module after the call -/
  add_weight : Self Wt P → Wt → Self Wt P
  /-- `base_module.set_weight(idx, new_w)` -/
  set_weight : Self Wt P → Nat → Wt → Self Wt P
  /-- `dict(params, **{key: v})`: a copy of the params dict with one entry replaced -/
  dict_with : P → String → α → P

/-- `T > 0` for a vector that may hold NaN (`nan > 0` is `False`) -/
def vecGtZero {α : Type} [LT α] [DecidableRel (α := α) (· < ·)] [Zero α] (T : List (Option α)) : List Bool :=
  T.map (Art.isPos (Art.posOf (0 : α)))

/-- `d.values()` of a dict keyed by position -/
def dictValues (d : List (Option Nat)) : List Nat := d.filterMap id

end Art.Imp
