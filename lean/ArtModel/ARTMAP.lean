/-
ArtModel.ARTMAP — SimpleARTMAP and ARTMAP bookkeeping on top of the generic
search.  Core Lean only.
-/
import ArtModel.Search

namespace Art

/-- Observable state of a `SimpleARTMAP`: the A-side module, the A→class map
(`map`, a Python dict keyed by A-category; `none` = key absent) and `labels_`. -/
structure SMapState (Wt : Type) where
  a : ArtState Wt := {}
  map : List (Option Nat) := []
  labelsB : List Nat := []
  deriving Repr

/-- `self.map[c_a] = c_b` if the key is absent (otherwise the code asserts equality). -/
def mapSet (m : List (Option Nat)) (c y : Nat) : List (Option Nat) :=
  if c < m.length then
    match m[c]? with
    | some (some _) => m
    | _ => m.set c (some y)
  else m ++ List.replicate (c - m.length) none ++ [some y]

def mapGet (m : List (Option Nat)) (c : Nat) : Option Nat := (m[c]?).join

/-- the unconditional dict store `m[c] = y` (keys between the old length and `c` stay absent) -/
def mapPut (m : List (Option Nat)) (c y : Nat) : List (Option Nat) :=
  if c < m.length then m.set c (some y) else m ++ List.replicate (c - m.length) none ++ [some y]

/-- `SimpleARTMAP.match_reset_func` negated: category `c` is vetoed for class `y`
iff it is already mapped to a different class. -/
def mapVeto (m : List (Option Nat)) (y : Nat) (c : Nat) : Bool :=
  match mapGet m c with
  | some y' => y' != y
  | none => false

section
variable {X Wt α μ θ : Type} [LT α] [DecidableRel (α := α) (· < ·)]

/-- `SimpleARTMAP.step_fit` + the label bookkeeping of `fit` / `partial_fit`. -/
def smapStep (K : Kernel X Wt α μ) (cfg : SearchCfg μ θ) (th0 : θ)
    (s : SMapState Wt) (xy : X × Nat) : SMapState Wt :=
  let (a', c) := stepFit K cfg th0 (mapVeto s.map xy.2) s.a xy.1
  { a := { a' with labels := a'.labels ++ [c] }
    map := mapSet s.map c xy.2
    labelsB := s.labelsB ++ [xy.2] }

def smapPartialFit (K : Kernel X Wt α μ) (cfg : SearchCfg μ θ) (th0 : θ)
    (s : SMapState Wt) (xys : List (X × Nat)) : SMapState Wt :=
  xys.foldl (smapStep K cfg th0) s

/-- `SimpleARTMAP.fit` (single epoch): a fresh A-side and a fresh map. -/
def smapFit (K : Kernel X Wt α μ) (cfg : SearchCfg μ θ) (th0 : θ)
    (_s : SMapState Wt) (xys : List (X × Nat)) : SMapState Wt :=
  smapPartialFit K cfg th0 {} xys

/-- `SimpleARTMAP.fit(X, y, max_iter = epochs)`: the A-side and the map start fresh, every epoch
presents the whole stream again and overwrites `labels_a[i]`; weights, counters and the map carry over
from epoch to epoch. -/
def smapFitEpochs (K : Kernel X Wt α μ) (cfg : SearchCfg μ θ) (th0 : θ) (epochs : Nat)
    (xys : List (X × Nat)) : SMapState Wt :=
  (List.range epochs).foldl
    (fun s _ => smapPartialFit K cfg th0 { s with a := { s.a with labels := [] }, labelsB := [] } xys) {}

/-- `SimpleARTMAP.step_pred`: `(c_a, map[c_a])`. -/
def smapStepPred (K : Kernel X Wt α μ) (s : SMapState Wt) (x : X) : Option (Nat × Nat) :=
  match stepPred K s.a.W x with
  | some c => (mapGet s.map c).map (fun y => (c, y))
  | none => none

def smapPredict (K : Kernel X Wt α μ) (s : SMapState Wt) (xs : List X) : List (Option Nat) :=
  xs.map (fun x => (smapStepPred K s x).map (·.2))

def smapPredictAB (K : Kernel X Wt α μ) (s : SMapState Wt) (xs : List X) :
    List (Option (Nat × Nat)) :=
  xs.map (smapStepPred K s)

/-- `BaseARTMAP.map_a2b` on a label vector. -/
def mapA2B (m : List (Option Nat)) (ya : List Nat) : List (Option Nat) := ya.map (mapGet m)

end

/-- ARTMAP: a B-side module clustering the targets, then SimpleARTMAP on the
B-side labels. -/
structure ArtmapState (WtA WtB : Type) where
  b : ArtState WtB := {}
  s : SMapState WtA := {}
  deriving Repr

section
variable {XA XB WtA WtB α μ θ : Type} [LT α] [DecidableRel (α := α) (· < ·)]

/-- `ARTMAP.fit`: `module_b.fit(y)` then `SimpleARTMAP.fit(X, module_b.labels_)`.
The B-side is trained without a reset function. -/
def artmapFit (KA : Kernel XA WtA α μ) (KB : Kernel XB WtB α μ)
    (cfgA cfgB : SearchCfg μ θ) (thA thB : θ)
    (_st : ArtmapState WtA WtB) (xs : List XA) (ys : List XB) : ArtmapState WtA WtB :=
  let b := fit KB cfgB thB noVeto {} ys
  { b := b, s := smapFit KA cfgA thA {} (xs.zip b.labels) }

/-- `ARTMAP.partial_fit`: the B-side sees the new targets, the A-side is
supervised by the B-labels *of this batch*. -/
def artmapPartialFit (KA : Kernel XA WtA α μ) (KB : Kernel XB WtB α μ)
    (cfgA cfgB : SearchCfg μ θ) (thA thB : θ)
    (st : ArtmapState WtA WtB) (xs : List XA) (ys : List XB) : ArtmapState WtA WtB :=
  let b := partialFit KB cfgB thB noVeto st.b ys
  { b := b, s := smapPartialFit KA cfgA thA st.s (xs.zip (b.labels.drop st.b.labels.length)) }

end

end Art
