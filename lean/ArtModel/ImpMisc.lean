/-
ArtModel.ImpMisc — helpers of the "last functions" translator (`harness/artv/mtrans.py`).  Core Lean only.

A 1-d array is a `List α`, a 2-d array a `List (List α)` (list of rows).  A float that may be NaN is an `Option α`
(`none` = NaN).  The generated definitions run in the `Option` monad; `none` there means: the Python code raises,
**or** an array stops being an array of finite numbers (numpy's `x / 0` is `nan` / `±inf` with a RuntimeWarning,
not an exception; the number type `α` has no such values, so the helpers that divide return `none`).
Nothing here mentions the models (`ArtModel/Fusion.lean`, `ArtModel/Falcon.lean`, `ArtModel/Misc.lean`).
-/
namespace Art.ImpMisc

/-! ### tuples, NaN -/

/-- `a, b = zip(*L)`: the two columns of a list of pairs; an empty `L` cannot be unpacked into two names
(`ValueError: not enough values to unpack`) -/
def pyUnzip2 {A B : Type} (l : List (A × B)) : Option (List A × List B) :=
  if l.isEmpty then none else some (l.map (·.1), l.map (·.2))

/-- `np.fmax(a, b)` on floats that may be NaN: a NaN operand is ignored -/
def fmax {α : Type} [Max α] : Option α → Option α → Option α
  | none, t => t
  | some a, none => some a
  | some a, some b => some (max a b)

/-- `np.nanmax(v)` of a sequence of floats: the largest entry that is not NaN, left to right; NaN (`some none`) when
every entry is NaN (numpy warns "All-NaN slice encountered", it does not raise); an empty sequence raises (`none`) -/
def npNanmax {α : Type} [Max α] (l : List (Option α)) : Option (Option α) :=
  if l.isEmpty then none else some (l.foldl fmax none)

/-! ### numbers -/

/-- a Python decimal float literal `m · 10^-e` (`0.0001` = `decLit 1 4`), read as the exact decimal -/
def decLit {α : Type} [NatCast α] [Div α] (m e : Nat) : α := (m : α) / ((10 ^ e : Nat) : α)

section Arith
variable {α : Type}

/-- `np.sum(v)` of a 1-d array (left to right from 0; the order is immaterial for exact numbers) -/
def npSum [Add α] [Zero α] (v : List α) : α := v.foldl (· + ·) 0
/-- `np.sum(A)` of a 2-d array: all entries -/
def npSum2 [Add α] [Zero α] (A : List (List α)) : α := npSum A.flatten

/-- `v / s`, `v /= s` on a 1-d array: with `s = 0` numpy yields `nan` / `inf` entries — `none` -/
def npDivS1 [Div α] [Zero α] [DecidableEq α] (v : List α) (s : α) : Option (List α) :=
  if s = 0 then none else some (v.map (· / s))
/-- `A / s`, `A /= s` on a 2-d array -/
def npDivS2 [Div α] [Zero α] [DecidableEq α] (A : List (List α)) (s : α) : Option (List (List α)) :=
  if s = 0 then none else some (A.map (·.map (· / s)))

/-- `s - v` (scalar on the left) -/
def npSSub1 [Sub α] (s : α) (v : List α) : List α := v.map (s - ·)
/-- `np.minimum(v, s)` -/
def npMinimumS1 [Min α] (v : List α) (s : α) : List α := v.map (min · s)
/-- `np.maximum(v, s)` -/
def npMaximumS1 [Max α] (v : List α) (s : α) : List α := v.map (max · s)
/-- `np.clip(v, lo, hi)` = `np.minimum(np.maximum(v, lo), hi)` (numpy's definition: the upper bound wins) -/
def npClip1 [Min α] [Max α] (v : List α) (lo hi : α) : List α := v.map (fun x => min (max x lo) hi)

/-- `np.random.choice(a, size=1, p=p)` with the generator made explicit: `choice p` is the position drawn for the
probability vector `p`.  numpy raises when `a` is empty, when `a` and `p` differ in length, when an entry of `p` is
negative (or NaN) and when `p` does not sum to 1 — all `none` here; the result is the 1-element array `[a[choice p]]`. -/
def npRandomChoice1 [Add α] [Zero α] [One α] [LE α] [DecidableRel (α := α) (· ≤ ·)] [DecidableEq α]
    (choice : List α → Nat) (a : List Nat) (p : List α) : Option (List Nat) :=
  if a.length ≠ 0 ∧ a.length = p.length ∧ p.all (fun x => decide (0 ≤ x)) = true ∧ npSum p = 1 then
    (a[choice p]?).map (fun c => [c])
  else none

end Arith

/-! ### records of the delegating parameter plumbing -/

/-- an estimator held by a wrapper, as far as `_set_params` / `_deep_copy_params` see it: the `params` dict and
everything else -/
structure Held (P R : Type) where
  params : P
  rest : R

/-- a wrapper (`CVIART`): the held `base_module` and everything else -/
structure Wrapper (P R S : Type) where
  base_module : Held P R
  rest : S

/-- `copy.deepcopy(x)`: values of the target language are immutable, a copy is the value itself.  The translator
only accepts a mutable attribute of `self` as a *result* when it is wrapped in this (an un-copied dict would alias
the estimator's state). -/
def deepcopy {A : Type} (x : A) : A := x

end Art.ImpMisc
