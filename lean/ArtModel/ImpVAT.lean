/-
ArtModel.ImpVAT — the numpy / list primitives that `harness/artv/vtrans.py` renders `artlib/common/VAT.py` into.
Core Lean only.  Everything here is *generic* (it knows nothing about VAT or about `ArtModel/VAT.lean`) and carries
the numpy / Python semantics of the primitive it stands for; `none` = the Python expression raises.

  `M.argmax()` / `M.argmin()`      first occurrence of the extreme value of the row-major flattening, found by one
                                   left-to-right scan that replaces the incumbent only on a *strict* improvement
                                   (NaN-free data: the order is used through `<` only); `ValueError` on an empty array
  `M.shape`                        `(number of rows, length of the first row)` (`(0, 0)` for an array without rows)
  `np.unravel_index(p, (r, c))`    `(p / c, p % c)`; `ValueError` when `p` is not a position of an `r × c` array
  `np.ix_(a, b)` + `M[...]`        open mesh: entry `(s, t)` of the result is `M[a[s]][b[t]]`; `IndexError` when an index
                                   is out of range (indices are naturals here: no wrap-around of negative ones)
  `xs.pop(k)` (as a statement)     removes position `k`; `IndexError` when `k` is out of range
  `while c: B`                     `whileOpt`: at most `fuel` iterations; `none` when `B` raises **or** when the fuel is
                                   used up while `c` still holds, so `some r` always is a genuine result of the loop
-/
namespace Art.ImpVAT

/-- `[f x for x in xs]` where `f x` may raise: the first failure makes the whole comprehension raise. -/
def optMap {β γ : Type} (f : β → Option γ) : List β → Option (List γ)
  | [] => some []
  | x :: xs =>
    match f x with
    | none => none
    | some y =>
      match optMap f xs with
      | none => none
      | some ys => some (y :: ys)

/-- `M.ravel()` (row-major) -/
def npRavel {β : Type} (M : List (List β)) : List β := M.flatten

/-- `M.shape` of a 2-d array given as a list of rows -/
def npShape {β : Type} (M : List (List β)) : Nat × Nat :=
  (M.length, match M with
    | [] => 0
    | r :: _ => r.length)

/-- `np.unravel_index(p, shape)` for a 2-d shape -/
def npUnravel (p : Nat) (shape : Nat × Nat) : Option (Nat × Nat) :=
  if p < shape.1 * shape.2 then some (p / shape.2, p % shape.2) else none

/-- `np.ix_(rows, cols)`: the open mesh is represented by the two index vectors -/
def npIx (rows cols : List Nat) : List Nat × List Nat := (rows, cols)

/-- `M[np.ix_(rows, cols)]` -/
def npFancy2 {β : Type} (M : List (List β)) (ix : List Nat × List Nat) : Option (List (List β)) :=
  optMap (fun i => (M[i]?).bind (fun r => optMap (fun j => r[j]?) ix.2)) ix.1

/-- the statement `xs.pop(k)` -/
def pyPop {β : Type} (xs : List β) (k : Nat) : Option (List β) :=
  if k < xs.length then some (xs.eraseIdx k) else none

section
variable {α : Type} [LT α] [DecidableRel (α := α) (· < ·)]

/-- left-to-right scan for `argmax`: `best` = incumbent value, `bi` = its position, `i` = position of the head of
the rest.  The incumbent is replaced only when the new entry is strictly larger: the first maximum wins. -/
def argmaxScan (best : α) (bi i : Nat) : List α → Nat
  | [] => bi
  | y :: ys => if best < y then argmaxScan y i (i + 1) ys else argmaxScan best bi (i + 1) ys

/-- `np.argmax` of a (flattened) NaN-free array -/
def npArgmax : List α → Option Nat
  | [] => none
  | x :: xs => some (argmaxScan x 0 1 xs)

/-- left-to-right scan for `argmin`; replaced only when strictly smaller: the first minimum wins. -/
def argminScan (best : α) (bi i : Nat) : List α → Nat
  | [] => bi
  | y :: ys => if y < best then argminScan y i (i + 1) ys else argminScan best bi (i + 1) ys

/-- `np.argmin` of a (flattened) NaN-free array -/
def npArgmin : List α → Option Nat
  | [] => none
  | x :: xs => some (argminScan x 0 1 xs)

end

/-- `while cond(s): s = body(s)` where the body may raise. -/
def whileOpt {S : Type} (cond : S → Bool) (body : S → Option S) : Nat → S → Option S
  | 0, s => if cond s then none else some s
  | n + 1, s =>
    if cond s then
      match body s with
      | none => none
      | some s' => whileOpt cond body n s'
    else some s

end Art.ImpVAT
