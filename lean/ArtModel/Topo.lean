/-
ArtModel.Topo — TopoART (`artlib/topological/TopoART.py`) as it is in /repo:
the two-winner training step, the adjacency / permanence bookkeeping, `prune`,
and the `fit` / `partial_fit` loops of `BaseART` with (resp. without) the
`post_step_fit` hook.  Core Lean only.

What the code does (and the model mirrors literally):
* `step_fit` has its own loop.  `T` is computed once from the base module; the
  loop visits `nanargmax T`; on `m and no_match_reset` the category learns: the
  first resonance at the configured rate (`update`), it is remembered as
  `resonant_c`, struck from `T`, and the loop *continues*; the second resonance
  learns at the lower rate (`updateLower`), `adjacency[resonant_c, c] += 1`, and
  the step returns `resonant_c`.  A failing candidate is struck; match tracking
  runs when a category that *passed* the vigilance test is vetoed
  (`if m and not no_match_reset`, as in `BaseART.step_fit`; since the fix of
  finding C14-c / F27 — before, every veto tracked); there is no MT~ pre-pass
  (under MT~ a vetoed category is just struck).
* when the loop ends the parameters are restored; nothing resonated ⇒ a new
  category is appended (`add_weight` pads the adjacency matrix with a zero row
  and column and the permanence mask with `False`).
* the first sample of an empty model creates category 0 and re-initialises
  `adjacency` (1×1 zeros) and `_permanent_mask`.
* `set_weight` increments the sample counter of *both* winners.
* `post_step_fit`: `prune(X)` when `sample_counter_ % tau == 0`.
  `prune`: mask |= counter ≥ phi; keep the masked categories; re-index weights,
  counters, adjacency sub-matrix, mask; rewrite `labels_[i]` for *every* row
  index `i` of `X` (also rows not presented yet, whose label is still the
  initial 0): mapped through `label_map` when its category survives, else
  re-predicted by `step_pred` when anything survives, else −1.
* `fit` resets `W`, the counters and `labels_` (but *not* `adjacency` and
  `_permanent_mask`: they are only re-initialised by the first sample) and calls
  the hooks; `partial_fit` does not call the hooks — no pruning (finding F11).
-/
import ArtModel.Search

namespace Art

/-- Kernel functions of the base module as TopoART uses them: one choice and
match function, and the `update` rule at two learning rates
(`params["beta"]` and `params["beta_lower"]`). -/
structure TopoKernel (X Wt α μ : Type) where
  choice : List Wt → X → Wt → Option α
  matchv : X → Wt → μ
  /-- `base_module.update` with the configured `beta` (best winner) -/
  update : X → Wt → Wt
  /-- `base_module.update` with `beta := beta_lower` (second winner) -/
  updateLower : X → Wt → Wt
  newW : X → Wt

/-- two instances of an elementary kernel that differ only in `beta` -/
def TopoKernel.ofPair {X Wt α μ : Type} (K KL : Kernel X Wt α μ) : TopoKernel X Wt α μ :=
  { choice := K.choice, matchv := K.matchv, update := K.update, updateLower := KL.update,
    newW := K.newW }

/-- Observable state of a `TopoART` instance. -/
structure TopoState (Wt : Type) where
  W : List Wt := []
  /-- `weight_sample_counter_` -/
  cnt : List Nat := []
  /-- `adjacency` (row = best winner, column = second winner) -/
  adj : List (List Nat) := []
  /-- `_permanent_mask` -/
  perm : List Bool := []
  /-- `labels_`; −1 = "no category left" -/
  labels : List Int := []
  /-- `sample_counter_` -/
  n : Nat := 0
  deriving Repr, DecidableEq

/-- Outcome of the two-winner loop. -/
structure TopoResult (θ : Type) where
  /-- `resonant_c` (`none` = −1) -/
  best : Option Nat
  /-- the second resonating category, if the loop found one -/
  second : Option Nat
  /-- threshold state when the loop ended (restored by the caller) -/
  th : θ
  /-- categories in the order they were visited -/
  visits : List (Visit θ)

def TopoResult.cons {θ : Type} (v : Visit θ) (r : TopoResult θ) : TopoResult θ :=
  { r with visits := v :: r.visits }

section
variable {α μ θ : Type} [LT α] [DecidableRel (α := α) (· < ·)]

/-- The `while any(~isnan(T))` loop of `TopoART.step_fit`.  `best` is
`resonant_c`.  Only `passes`, `track`, `keep` of the configuration are read
(`tilde` is not: TopoART has no MT~ pre-pass).  `fuel` bounds the iterations;
`T.length` always suffices (`topoSearch_fuel_irrelevant`). -/
def topoSearch (cfg : SearchCfg μ θ) (M : Nat → μ) (veto : Nat → Bool) :
    Nat → List (Option α) → θ → Option Nat → TopoResult θ
  | 0, _, th, best => ⟨best, none, th, []⟩
  | fuel + 1, T, th, best =>
    match nanargmax T with
    | none => ⟨best, none, th, []⟩
    | some c =>
      let m := cfg.passes th (M c)
      let ok := !veto c
      let v : Visit θ := ⟨c, th, m, ok⟩
      if m && ok then
        match best with
        | none => (topoSearch cfg M veto fuel (T.set c none) th (some c)).cons v
        | some b => ⟨some b, some c, th, [v]⟩
      else
        let T' := T.set c none
        if m && !ok then
          let th' := cfg.track th (M c)
          if cfg.keep then (topoSearch cfg M veto fuel T' th' best).cons v
          else ⟨best, none, th', [v]⟩
        else (topoSearch cfg M veto fuel T' th best).cons v

end

/-! ### adjacency helpers -/

/-- entry `(i, j)` of a list-of-rows matrix (0 outside) -/
def adjAt (adj : List (List Nat)) (i j : Nat) : Nat := (adj.getD i []).getD j 0

/-- `adjacency.shape[1]` (0 for a matrix without rows) -/
def adjCols : List (List Nat) → Nat
  | [] => 0
  | r :: _ => r.length

/-- `np.pad(adjacency, ((0,1),(0,1)), "constant")` -/
def padAdj (adj : List (List Nat)) : List (List Nat) :=
  adj.map (· ++ [0]) ++ [List.replicate (adjCols adj + 1) 0]

/-- `adjacency[b, c] += 1` -/
def incAdj (b c : Nat) (adj : List (List Nat)) : List (List Nat) :=
  adj.modify b (fun row => row.modify c (· + 1))

section
variable {X Wt α μ θ : Type} [LT α] [DecidableRel (α := α) (· < ·)]

def topoActivations (K : TopoKernel X Wt α μ) (W : List Wt) (x : X) : List (Option α) :=
  W.map (K.choice W x)

/-- match value of category `c` (irrelevant default outside the range) -/
def topoMatchAt (K : TopoKernel X Wt α μ) (W : List Wt) (x : X) (c : Nat) : μ :=
  match W[c]? with
  | some w => K.matchv x w
  | none => K.matchv x (K.newW x)

/-- the search of one training step on a non-empty model (activations and match
values are those of the weights *before* the step: `T` is computed once, and the
best winner is struck before any other category is looked at) -/
def topoStepSearch (K : TopoKernel X Wt α μ) (cfg : SearchCfg μ θ) (th0 : θ) (veto : Nat → Bool)
    (W : List Wt) (x : X) : TopoResult θ :=
  let T := topoActivations K W x
  topoSearch cfg (topoMatchAt K W x) veto T.length T th0 none

/-- the state change decided by a search outcome -/
def applyTopo (K : TopoKernel X Wt α μ) (s : TopoState Wt) (x : X) (best second : Option Nat) :
    TopoState Wt × Nat :=
  match best with
  | none =>
    ({ s with W := s.W ++ [K.newW x], cnt := s.cnt ++ [1], adj := padAdj s.adj,
              perm := s.perm ++ [false], n := s.n + 1 }, s.W.length)
  | some b =>
    let W1 := s.W.modify b (K.update x)
    let cnt1 := s.cnt.modify b (· + 1)
    match second with
    | none => ({ s with W := W1, cnt := cnt1, n := s.n + 1 }, b)
    | some c =>
      ({ s with W := W1.modify c (K.updateLower x), cnt := cnt1.modify c (· + 1),
                adj := incAdj b c s.adj, n := s.n + 1 }, b)

/-- `TopoART.step_fit`: new state (labels untouched) and the returned label. -/
def topoStep (K : TopoKernel X Wt α μ) (cfg : SearchCfg μ θ) (th0 : θ) (veto : Nat → Bool)
    (s : TopoState Wt) (x : X) : TopoState Wt × Nat :=
  if s.W.isEmpty then
    ({ s with W := s.W ++ [K.newW x], cnt := s.cnt ++ [1], adj := [[0]], perm := [false],
              n := s.n + 1 }, 0)
  else
    let r := topoStepSearch K cfg th0 veto s.W x
    applyTopo K s x r.best r.second

/-! ### pruning -/

/-- `_permanent_mask += (weight_sample_counter_ >= phi)` -/
def pruneMask (phi : Nat) (s : TopoState Wt) : List Bool :=
  List.zipWith (fun p c => p || decide (phi ≤ c)) s.perm s.cnt

/-- `np.where(mask)[0]` -/
def keepIdx (mask : List Bool) : List Nat :=
  (List.range mask.length).filter (fun i => mask.getD i false)

/-- `perm_labels`: the old indices that survive, ascending -/
def pruneKeep (phi : Nat) (s : TopoState Wt) : List Nat := keepIdx (pruneMask phi s)

/-- `l[keep]` (fancy indexing) -/
def gather {β : Type} (keep : List Nat) (l : List β) : List β := keep.filterMap (l[·]?)

/-- `step_pred` on the pruned model, as an integer label -/
def topoPredLabel (K : TopoKernel X Wt α μ) (W : List Wt) (x : X) : Int :=
  match argmaxNp (topoActivations K W x) with
  | some c => (c : Int)
  | none => -1            -- unreachable when `W ≠ []`

/-- new label of one row in `prune` -/
def relabel (K : TopoKernel X Wt α μ) (keep : List Nat) (W' : List Wt) (x : X) (l : Int) : Int :=
  if 0 ≤ l ∧ l.toNat ∈ keep then (keep.idxOf l.toNat : Int)      -- `label_map`
  else if !W'.isEmpty then topoPredLabel K W' x                  -- `step_pred(x)`
  else -1

/-- `TopoART.prune(X)` -/
def prune (K : TopoKernel X Wt α μ) (phi : Nat) (s : TopoState Wt) (xs : List X) : TopoState Wt :=
  let mask := pruneMask phi s
  let keep := keepIdx mask
  let W' := gather keep s.W
  { s with
    W := W'
    cnt := gather keep s.cnt
    adj := (gather keep s.adj).map (gather keep)
    perm := gather keep mask
    labels := s.labels.mapIdx (fun i l =>
      match xs[i]? with
      | some x => relabel K keep W' x l
      | none => l) }

/-! ### training loops -/

/-- one iteration of `fit`: `step_fit`, `labels_[i] = c`, `post_step_fit` -/
def topoFitStep (K : TopoKernel X Wt α μ) (cfg : SearchCfg μ θ) (th0 : θ)
    (veto : TopoState Wt → X → Nat → Bool) (tau phi : Nat) (xs : List X)
    (s : TopoState Wt) (xi : X × Nat) : TopoState Wt :=
  let (s1, c) := topoStep K cfg th0 (veto s xi.1) s xi.1
  let s2 := { s1 with labels := s1.labels.set xi.2 (c : Int) }
  if s2.n % tau == 0 then prune K phi s2 xs else s2

/-- what `fit` resets before the loop -/
def topoFitInit (s : TopoState Wt) (nrows : Nat) : TopoState Wt :=
  { s with W := [], cnt := [], n := 0, labels := List.replicate nrows 0 }

/-- `TopoART.fit` (single epoch) -/
def topoFit (K : TopoKernel X Wt α μ) (cfg : SearchCfg μ θ) (th0 : θ)
    (veto : TopoState Wt → X → Nat → Bool) (tau phi : Nat) (s : TopoState Wt) (xs : List X) :
    TopoState Wt :=
  xs.zipIdx.foldl (topoFitStep K cfg th0 veto tau phi xs) (topoFitInit s xs.length)

/-- the states after each sample of `fit` (what the harness snapshots) -/
def topoTrace {S P : Type} (f : S → P → S) : S → List P → List S
  | _, [] => []
  | s, p :: ps => f s p :: topoTrace f (f s p) ps

def topoFitTrace (K : TopoKernel X Wt α μ) (cfg : SearchCfg μ θ) (th0 : θ)
    (veto : TopoState Wt → X → Nat → Bool) (tau phi : Nat) (s : TopoState Wt) (xs : List X) :
    List (TopoState Wt) :=
  topoTrace (topoFitStep K cfg th0 veto tau phi xs) (topoFitInit s xs.length) xs.zipIdx

/-- one iteration of `partial_fit`: `step_fit`, `labels_[i + j] = c`; no hooks -/
def topoPFitStep (K : TopoKernel X Wt α μ) (cfg : SearchCfg μ θ) (th0 : θ)
    (veto : TopoState Wt → X → Nat → Bool) (s : TopoState Wt) (xi : X × Nat) : TopoState Wt :=
  let (s1, c) := topoStep K cfg th0 (veto s xi.1) s xi.1
  { s1 with labels := s1.labels.set xi.2 (c : Int) }

/-- `np.pad(labels_, [(0, n)])` -/
def topoPFitInit (s : TopoState Wt) (nrows : Nat) : TopoState Wt :=
  { s with labels := s.labels ++ List.replicate nrows 0 }

/-- `BaseART.partial_fit` on a TopoART: the pruning hook is never called -/
def topoPartialFit (K : TopoKernel X Wt α μ) (cfg : SearchCfg μ θ) (th0 : θ)
    (veto : TopoState Wt → X → Nat → Bool) (s : TopoState Wt) (xs : List X) : TopoState Wt :=
  (xs.zipIdx s.labels.length).foldl (topoPFitStep K cfg th0 veto) (topoPFitInit s xs.length)

def topoPFitTrace (K : TopoKernel X Wt α μ) (cfg : SearchCfg μ θ) (th0 : θ)
    (veto : TopoState Wt → X → Nat → Bool) (s : TopoState Wt) (xs : List X) : List (TopoState Wt) :=
  topoTrace (topoPFitStep K cfg th0 veto) (topoPFitInit s xs.length) (xs.zipIdx s.labels.length)

/-- `predict`: row-wise `TopoART.step_pred`; a model emptied by pruning labels every row `-1`
(the orphan label `prune` uses; repaired defect F14 — it used to raise); `none` is unreachable for a
non-empty model -/
def topoPredict (K : TopoKernel X Wt α μ) (W : List Wt) (xs : List X) : List (Option Int) :=
  xs.map (fun x => if W.isEmpty then some (-1) else (argmaxNp (topoActivations K W x)).map Int.ofNat)

/-- training calls of a history -/
inductive TopoCall (X : Type) where
  | fit (xs : List X)
  | pfit (xs : List X)

/-- a history of training calls on one instance -/
def topoRun (K : TopoKernel X Wt α μ) (cfg : SearchCfg μ θ) (th0 : θ)
    (veto : TopoState Wt → X → Nat → Bool) (tau phi : Nat) (s : TopoState Wt) :
    List (TopoCall X) → TopoState Wt
  | [] => s
  | .fit xs :: cs => topoRun K cfg th0 veto tau phi (topoFit K cfg th0 veto tau phi s xs) cs
  | .pfit xs :: cs => topoRun K cfg th0 veto tau phi (topoPartialFit K cfg th0 veto s xs) cs

end

end Art
