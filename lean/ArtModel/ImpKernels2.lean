/-
ArtModel.ImpKernels2 — the generic matrix helpers that are the target of the second kernel translator
(`harness/artv/k2trans.py`).  Core Lean only; nothing in this file knows about artlib: these are the
*algebraic* numpy operations on a rank-2 array represented as its list of rows.  The non-algebraic
primitives (`np.linalg.det`, `np.linalg.inv`, `np.exp`, `np.sqrt`, `np.pi`) are not here: they are
function parameters of the generated definitions.

Conventions
* a matrix is a list of rows; numpy arrays are rectangular, what the helpers do on a ragged list, or
  on operands whose shapes numpy would refuse to broadcast, is arbitrary but total (`zipWith`
  truncates).  Shapes are the caller's obligation, exactly as in `ArtModel/Basic.lean`.
-/
import ArtModel.Basic

namespace Art.Mat

variable {α : Type}

/-- `v.reshape((r, c))` of a flat vector, row-major: row `k` is `v[k*c : (k+1)*c]` -/
def reshape : Nat → Nat → List α → List (List α)
  | 0, _, _ => []
  | r + 1, c, v => v.take c :: reshape r c (v.drop c)

/-- `u.reshape((-1, 1)) * v.reshape((1, -1))` (= `np.outer(u, v)`): entry `(i, j)` is `u[i] * v[j]` -/
def outer [Mul α] (u v : List α) : List (List α) := u.map (fun a => v.map (fun b => a * b))

/-- `np.matmul(M, v)` of a matrix and a vector: one inner product per row -/
def mulVec [Add α] [Mul α] [Zero α] (M : List (List α)) (v : List α) : List α := M.map (fun r => dot r v)

/-- `a * M` for a scalar `a` -/
def smul [Mul α] (a : α) (M : List (List α)) : List (List α) := M.map (fun r => r.map (fun t => a * t))

/-- `A + B` for two matrices of the same shape -/
def add [Add α] (A B : List (List α)) : List (List α) :=
  List.zipWith (fun r q => List.zipWith (fun s t => s + t) r q) A B

/-- `np.identity(n)` -/
def identity [Zero α] [One α] (n : Nat) : List (List α) :=
  (List.range n).map (fun i => (List.range n).map (fun j => if i = j then (1 : α) else 0))

/-- `v[lo:hi] += e` on a vector (`hi = none`: to the end), as the new value of `v`; `e` has the length of
the slice -/
def sliceAdd [Add α] (v : List α) (lo : Nat) (hi : Option Nat) (e : List α) : List α :=
  let h := hi.getD v.length
  v.take lo ++ List.zipWith (fun s t => s + t) ((v.take h).drop lo) e ++ v.drop h

/-- entry `(i, j)`; `none` = out of range -/
def entry (M : List (List α)) (i j : Nat) : Option α := M[i]?.bind (fun r => r[j]?)

end Art.Mat
