/-
ArtModel.Params — the estimator protocol as implemented by `BaseART`
(`artlib/common/BaseART.py`: `__init__`, `__getattr__`, `__setattr__`,
`get_params`, `set_params`) and by the `validate_params` of the eight elementary
classes, plus a minimal ownership model (`Own | View`).  Core Lean only.

What is modelled (the part that is logic)
* the parameter store `params` — a Python dict, here an association list in
  insertion order;
* `validate_params` of every elementary class, assert by assert, in source
  order (the first failing assert decides the exception kind);
* `BaseART.set_params`, literally (code after the F25 repair, /repo 41ad083):
  `key.partition("__")`, unknown name → `ValueError` while the names are only
  being collected, then `validate_params(local_params)`, only then the plain
  names are assigned through `setattr`, last the nested names are delegated — a
  call rejected for an unknown name or by validation assigns nothing; a failure
  of the nested routing (`AttributeError` on a value that is no estimator) still
  comes after the plain names were assigned;
* `__getattr__` (instance `__dict__` first, then `params`), `__setattr__`
  (`params` first, then `__dict__`);
* ownership: a weight is `own v` or `view arr row`; `mutateRow` rewrites a row
  of a caller array.

What is NOT modelled (covered by the run-time check `harness/artv/checks/C19.py`
only): Python object graphs — `deepcopy`, `pickle`, `sklearn.base.clone`,
identity of the dict returned by `get_params`, the `params` entry of `__dict__`
itself, class attributes/methods shadowing parameter names, nested estimators
(a nested module is the opaque value `Val.mod id`; a delegated
`module.set_params(...)` call is only recorded).
-/
namespace Art.Params

/-- A Python value as far as the protocol looks at it. -/
inductive Val where
  /-- Python `float` (exact value) -/
  | flt (q : Rat)
  /-- Python `int` — fails `isinstance(v, float)` -/
  | int (i : Int)
  /-- `numpy.ndarray`, flattened, by value -/
  | arr (l : List Rat)
  /-- Python `list` of numbers -/
  | lst (l : List Rat)
  /-- opaque reference to a nested estimator -/
  | mod (id : Nat)
  /-- Python `None` -/
  | non
  deriving DecidableEq, Repr, Inhabited

/-- exception kinds (the enum of `harness/artv/impl.py: exc_enum`) -/
inductive Err where
  | value | assert | type | attr | key
  deriving DecidableEq, Repr, Inhabited

/-- a dict in insertion order -/
abbrev Store := List (String × Val)

def keys (p : Store) : List String := p.map (·.1)

/-- `p[k]` / `k in p` -/
def get? : Store → String → Option Val
  | [], _ => none
  | (k', v) :: r, k => if k' = k then some v else get? r k

/-- `p[k] = v` for a key that is present (position kept) -/
def assign : Store → String → Val → Store
  | [], _, _ => []
  | (k', v') :: r, k, v => if k' = k then (k', v) :: r else (k', v') :: assign r k v

/-- `p[k] = v` -/
def upsert (p : Store) (k : String) (v : Val) : Store :=
  if (get? p k).isSome then assign p k v else p ++ [(k, v)]

/-! ### `str.partition("__")` -/

def partitionChars : List Char → List Char × Option (List Char)
  | '_' :: '_' :: rest => ([], some rest)
  | c :: rest => let r := partitionChars rest; (c :: r.1, r.2)
  | [] => ([], none)

/-- `key, delim, sub_key = key.partition("__")`; `sub = none` ⇔ `delim == ""` -/
def partitionKey (s : String) : String × Option String :=
  let r := partitionChars s.toList
  (String.ofList r.1, r.2.map String.ofList)

/-- a name without `__` -/
def Plain (k : String) : Prop := partitionKey k = (k, none)

instance (k : String) : Decidable (Plain k) := by unfold Plain; infer_instance

/-! ### `validate_params` -/

/-- one side of a chained comparison with a literal (all literals in the source are 0 or 1) -/
structure Bound where
  v : Int
  strict : Bool
  deriving DecidableEq, Repr

def Bound.okLo (b : Bound) (q : Rat) : Bool := if b.strict then (b.v : Rat) < q else (b.v : Rat) ≤ q
def Bound.okHi (b : Bound) (q : Rat) : Bool := if b.strict then q < (b.v : Rat) else q ≤ (b.v : Rat)

/-- one `assert` line of a `validate_params` -/
inductive Check where
  /-- `assert "k" in params` -/
  | has (k : String)
  /-- `assert [hi ≥|>] params["k"] [≥|> lo]` -/
  | range (k : String) (lo hi : Option Bound)
  /-- `assert isinstance(params["k"], float)` -/
  | isFloat (k : String)
  /-- `assert isinstance(params["k"], np.ndarray)` -/
  | isArr (k : String)
  deriving DecidableEq, Repr

/-- how a value behaves inside `lit >= v >= lit` -/
inductive NumView where
  | num (q : Rat)
  /-- `TypeError: '>=' not supported between …` -/
  | typeErr
  /-- `ValueError: The truth value of an array with more than one element is ambiguous` -/
  | valueErr

def Val.numView : Val → NumView
  | .flt q => .num q
  | .int i => .num (i : Rat)
  | .arr [x] => .num x
  | .arr _ => .valueErr
  | .lst _ => .typeErr
  | .mod _ => .typeErr
  | .non => .typeErr

def inRange (lo hi : Option Bound) (q : Rat) : Bool :=
  (match hi with | some b => b.okHi q | none => true) &&
  (match lo with | some b => b.okLo q | none => true)

/-- the exception one assert line raises on a store, `none` = passes -/
def evalCheck (p : Store) : Check → Option Err
  | .has k => if (get? p k).isSome then none else some .assert
  | .range k lo hi =>
    match get? p k with
    | none => some .key
    | some v =>
      match v.numView with
      | .num q => if inRange lo hi q then none else some .assert
      | .typeErr => some .type
      | .valueErr => some .value
  | .isFloat k =>
    match get? p k with
    | none => some .key
    | some (.flt _) => none
    | some _ => some .assert
  | .isArr k =>
    match get? p k with
    | none => some .key
    | some (.arr _) => none
    | some _ => some .assert

/-- `validate_params(p)`: the first failing assert decides; `none` = accepted -/
def validate : List Check → Store → Option Err
  | [], _ => none
  | c :: cs, p => match evalCheck p c with
    | some e => some e
    | none => validate cs p

/-! ### the estimator object -/

structure Est where
  cls : String
  /-- `self.params` -/
  params : Store
  /-- the rest of the instance `__dict__` -/
  attrs : Store
  deriving DecidableEq, Repr, Inhabited

/-- `est.get_params()` (BaseART returns `self.params`; only the value is modelled) -/
def getParams (e : Est) : Store := e.params

/-- `getattr(est, k)`: instance `__dict__` first, then `__getattr__` falls back to `params` -/
def getAttr (e : Est) (k : String) : Except Err Val :=
  match get? e.attrs k with
  | some v => .ok v
  | none => match get? e.params k with
    | some v => .ok v
    | none => .error .attr

/-- `setattr(est, k, v)`: a parameter name writes `params[k]`, any other name the `__dict__` -/
def setAttr (e : Est) (k : String) (v : Val) : Est :=
  if (get? e.params k).isSome then { e with params := assign e.params k v }
  else { e with attrs := upsert e.attrs k v }

/-- state of the `for key, value in params.items()` loop of `set_params` -/
structure LoopSt where
  /-- `local_params` -/
  loc : Store
  /-- `plain_params`, in call order (keyword arguments have distinct names; for the final store
  "later wins" is the same as the dict overwrite) -/
  plain : List (String × Val)
  /-- `nested_params`, flat, in call order: (key, sub_key, value) -/
  nested : List (String × String × Val)
  deriving DecidableEq, Repr

/-- the first loop: only COLLECTS; stops at the first unknown name with `ValueError`.
`p` is `valid_params`, the live `self.params`, which the loop does not touch. -/
def setLoop (p : Store) : LoopSt → List (String × Val) → LoopSt × Option Err
  | st, [] => (st, none)
  | st, (key, v) :: rest =>
    let pk := partitionKey key
    if (get? p pk.1).isSome then
      match pk.2 with
      | some sub => setLoop p { st with nested := st.nested ++ [(pk.1, sub, v)] } rest
      | none => setLoop p { st with plain := st.plain ++ [(pk.1, v)], loc := upsert st.loc pk.1 v } rest
    else (st, some .value)

/-- `for key, value in plain_params.items(): setattr(self, key, value)` -/
def assignAll (e : Est) (kvs : List (String × Val)) : Est :=
  kvs.foldl (fun e kv => setAttr e kv.1 kv.2) e

def eraseDupKeys : List String → List String
  | [] => []
  | k :: ks => k :: (eraseDupKeys ks).filter (· ≠ k)

/-- `for key, sub_params in nested_params.items(): valid_params[key].set_params(**sub_params)`:
the delegated calls (module id, sub-parameters) in order, and `AttributeError` at the first
group whose value is not an estimator -/
def runNested (p : Store) (n : List (String × String × Val)) :
    List (Nat × List (String × Val)) × Option Err :=
  go (eraseDupKeys (n.map (·.1)))
where
  go : List String → List (Nat × List (String × Val)) × Option Err
    | [] => ([], none)
    | g :: gs =>
      match get? p g with
      | some (.mod id) =>
        let r := go gs
        ((id, (n.filter (·.1 = g)).map (·.2)) :: r.1, r.2)
      | _ => ([], some .attr)

structure SetRes where
  /-- the object after the call — also when the call raised -/
  est : Est
  /-- the exception raised, `none` = returned `self` -/
  err : Option Err
  /-- nested `set_params` calls issued (assumed to return) -/
  delegated : List (Nat × List (String × Val))
  deriving DecidableEq, Repr

/-- `BaseART.set_params(**kvs)` with `validate_params = validate checks` (code as of /repo 41ad083):
collect and reject unknown names, validate `local_params`, only then assign the plain names,
then route the nested ones. -/
def setParams (checks : List Check) (e : Est) (kvs : List (String × Val)) : SetRes :=
  if kvs.isEmpty then ⟨e, none, []⟩
  else
    match setLoop e.params ⟨e.params, [], []⟩ kvs with
    | (_, some err) => ⟨e, some err, []⟩
    | (st, none) =>
      match validate checks st.loc with
      | some err => ⟨e, some err, []⟩
      | none =>
        let e' := assignAll e st.plain
        let r := runNested e'.params st.nested
        ⟨e', r.2, r.1⟩

/-! ### class table (re-extracted from the source and compared on every run) -/

structure ClassSpec where
  name : String
  /-- `inspect.signature(cls.__init__)` without `self` = `params` keys in dict order -/
  args : List String
  /-- default values of constructor arguments -/
  defaults : Store
  /-- `validate_params`, assert by assert -/
  checks : List Check
  deriving DecidableEq, Repr

def ge0 : Option Bound := some ⟨0, false⟩
def gt0 : Option Bound := some ⟨0, true⟩
def ge1 : Option Bound := some ⟨1, false⟩
def le1 : Option Bound := some ⟨1, false⟩

def art1 : ClassSpec :=
  { name := "ART1", args := ["rho", "L"], defaults := [],
    checks := [.has "rho", .has "L", .range "rho" ge0 le1, .range "L" ge1 none,
               .isFloat "rho", .isFloat "L"] }

def art2a : ClassSpec :=
  { name := "ART2A", args := ["rho", "alpha", "beta"], defaults := [],
    checks := [.has "rho", .has "alpha", .has "beta",
               .range "rho" ge0 le1, .range "alpha" ge0 le1, .range "beta" ge0 le1,
               .isFloat "rho", .isFloat "alpha", .isFloat "beta"] }

def fuzzyART : ClassSpec :=
  { name := "FuzzyART", args := ["rho", "alpha", "beta"], defaults := [],
    checks := [.has "rho", .has "alpha", .has "beta",
               .range "rho" ge0 le1, .range "alpha" ge0 none, .range "beta" gt0 le1,
               .isFloat "rho", .isFloat "alpha", .isFloat "beta"] }

def hypersphereART : ClassSpec :=
  { name := "HypersphereART", args := ["rho", "alpha", "beta", "r_hat"], defaults := [],
    checks := [.has "rho", .has "alpha", .has "beta", .has "r_hat",
               .range "rho" ge0 le1, .range "alpha" ge0 none, .range "beta" ge0 le1,
               .range "r_hat" gt0 none,
               .isFloat "rho", .isFloat "alpha", .isFloat "beta", .isFloat "r_hat"] }

def ellipsoidART : ClassSpec :=
  { name := "EllipsoidART", args := ["rho", "alpha", "beta", "mu", "r_hat"], defaults := [],
    checks := [.has "rho", .has "alpha", .has "beta", .has "mu", .has "r_hat",
               .range "rho" ge0 le1, .range "alpha" ge0 le1, .range "beta" ge0 le1, .range "mu" gt0 le1,
               .range "r_hat" gt0 none,
               .isFloat "rho", .isFloat "alpha", .isFloat "beta", .isFloat "mu", .isFloat "r_hat"] }

/-- the double nearest to `1e-10` (the default of `GaussianART.alpha`) -/
def tenToMinus10 : Rat := mkRat 7737125245533627 77371252455336267181195264

def gaussianART : ClassSpec :=
  { name := "GaussianART", args := ["rho", "sigma_init", "alpha"],
    defaults := [("alpha", .flt tenToMinus10)],
    checks := [.has "rho", .has "sigma_init", .has "alpha",
               .range "rho" ge0 le1, .range "alpha" gt0 none,
               .isFloat "rho", .isArr "sigma_init"] }

def bayesianART : ClassSpec :=
  { name := "BayesianART", args := ["rho", "cov_init"], defaults := [],
    checks := [.has "rho", .has "cov_init", .range "rho" gt0 none,
               .isFloat "rho", .isArr "cov_init"] }

def quadraticNeuronART : ClassSpec :=
  { name := "QuadraticNeuronART", args := ["rho", "s_init", "lr_b", "lr_w", "lr_s"], defaults := [],
    checks := [.has "rho", .has "s_init", .has "lr_b", .has "lr_w", .has "lr_s",
               .range "rho" ge0 le1, .range "lr_b" gt0 le1, .range "lr_w" ge0 le1, .range "lr_s" ge0 le1,
               .isFloat "rho", .isFloat "s_init", .isFloat "lr_b", .isFloat "lr_w", .isFloat "lr_s"] }

def classTable : List ClassSpec :=
  [art1, art2a, fuzzyART, hypersphereART, ellipsoidART, gaussianART, bayesianART, quadraticNeuronART]

def findClass (name : String) : Option ClassSpec := classTable.find? (·.name = name)

/-- `__dict__` (without `params`) right after `BaseART.__init__` -/
def initAttrs : Store :=
  [("sample_counter_", .int 0), ("weight_sample_counter_", .lst []), ("d_min_", .non), ("d_max_", .non)]

/-- look every argument up in the keyword arguments, then in the defaults; `none` = missing argument -/
def bindList (kw defaults : Store) : List String → Option Store
  | [] => some []
  | a :: as =>
    match (match get? kw a with | some v => some v | none => get? defaults a) with
    | none => none
    | some v => (bindList kw defaults as).map ((a, v) :: ·)

/-- bind keyword arguments to the signature: `none` = `TypeError` (unexpected or missing argument) -/
def bindArgs (c : ClassSpec) (kw : Store) : Option Store :=
  if (keys kw).all (fun k => c.args.contains k) then bindList kw c.defaults c.args else none

/-- `Cls(**kw)`: `params = {arg: value …}`, `validate_params(params)`, then the object -/
def construct (c : ClassSpec) (kw : Store) : Except Err Est :=
  match bindArgs c kw with
  | none => .error .type
  | some p =>
    match validate c.checks p with
    | some e => .error e
    | none => .ok ⟨c.name, p, initAttrs⟩

/-! ### ownership -/

/-- a stored weight: its own value, or a view of row `row` of the caller's array `arr` -/
inductive Wt where
  | own (v : List Rat)
  | view (arr row : Nat)
  deriving DecidableEq, Repr

/-- caller-side arrays, by id -/
abbrev Heap := List (List (List Rat))

def Heap.row (h : Heap) (a i : Nat) : Option (List Rat) := (h[a]?).bind (·[i]?)

/-- `X[i, :] = r` on array `a` -/
def Heap.mutateRow (h : Heap) (a i : Nat) (r : List Rat) : Heap :=
  match h[a]? with
  | some A => h.set a (A.set i r)
  | none => h

def Wt.read (h : Heap) : Wt → Option (List Rat)
  | .own v => some v
  | .view a i => h.row a i

def Wt.isOwn : Wt → Bool
  | .own _ => true
  | .view _ _ => false

/-- what an observer sees of the weights -/
def observe (h : Heap) (W : List Wt) : List (Option (List Rat)) := W.map (Wt.read h)

/-- commit one category per row of array `a` (vigilance 1, distinct rows):
`copy = true` is `new_weight = np.copy(i)` (the code now), `false` is `return i` (F23, before the fix) -/
def commitRows (copy : Bool) (h : Heap) (a n : Nat) : List Wt :=
  (List.range n).filterMap (fun i =>
    if copy then (h.row a i).map Wt.own else some (Wt.view a i))

end Art.Params
