/-
ArtModel.Bartmap — BARTMAP (`artlib/biclustering/BARTMAP.py`): the checkerboard
`rows_` / `columns_` and the two-sided training.  Core Lean only.

What `BARTMAP.fit(X)` does, in the order of its effects:
  1. `X_a = module_a.prepare_data(X)`, `X_b = module_b.prepare_data(X.T)`;
  2. `module_b.fit(X_b)` — the column module *alone*, no reset function;
  3. module A is emptied and trained row by row with `BaseART.step_fit`
     (defaults `MT+`, `epsilon = 0`) under the reset function
     "some column cluster has average Pearson correlation ≥ eta with row k";
  4. `rows_`    = `np.vstack([row_labels_ == a for a in range(na) for _ in range(nb)])`,
     `columns_` = `np.vstack([column_labels_ == b for _ in range(na) for b in range(nb)])`
     with `na = len(module_a.W)`, `nb = len(module_b.W)`.

The correlation test of step 3 is *not* modelled: it enters as an oracle
parameter `veto : sample → category → Bool` (`true` = the reset function answered
`False`).  The sample type is abstract; instantiate it with `(k, x)` to let the
veto read the row index as the code does.  Everything C17 states holds for
every such oracle.  What the oracle cannot express is that the real test can
*raise* (finding F13: row mask built from column labels; `pearsonr` on vectors
of length 1) — an exception in glue code the typed model cannot have, which the
correspondence check reports as a violation of "after fit on any data matrix".

`np.vstack([])` raises for `na·nb = 0`; the model returns `[]` there.  This needs a
matrix with no rows or no columns, which `prepare_data` already rejects.
-/
import ArtModel.Search

namespace Art

/-- `rows_`: one mask per (row-cluster `a`, column-cluster `b`) pair, `a`-major;
the mask is `row_labels_ == a` (the inner loop variable is unused, as in the code). -/
def rowsOf (na nb : Nat) (rowLabels : List Nat) : List (List Bool) :=
  (List.range na).flatMap (fun a => (List.range nb).map (fun _ => rowLabels.map (· == a)))

/-- `columns_`: same order of pairs; the mask is `column_labels_ == b`
(here the *outer* loop variable is unused). -/
def columnsOf (na nb : Nat) (colLabels : List Nat) : List (List Bool) :=
  (List.range na).flatMap (fun _ => (List.range nb).map (fun b => colLabels.map (· == b)))

/-- `m[k][i]` of a boolean indicator matrix, `false` outside the matrix. -/
def memberAt (m : List (List Bool)) (k i : Nat) : Bool :=
  ((m[k]?).bind (·[i]?)).getD false

/-- indices of the biclusters that contain cell `(i, j)`:
`[k for k in range(len(rows_)) if rows_[k][i] and columns_[k][j]]` -/
def cellBiclusters (rows cols : List (List Bool)) (i j : Nat) : List Nat :=
  (List.range rows.length).filter (fun k => memberAt rows k i && memberAt cols k j)

/-- observable result of `BARTMAP.fit` -/
structure BartState (Wa Wb : Type) where
  /-- `module_a` (rows) -/
  a : ArtState Wa
  /-- `module_b` (columns) -/
  b : ArtState Wb
  rows : List (List Bool)
  cols : List (List Bool)

section
variable {Xa Wa Xb Wb α μa θa β μb θb : Type}
  [LT α] [DecidableRel (α := α) (· < ·)] [LT β] [DecidableRel (α := β) (· < ·)]

/-- step 3: the row module, emptied, then one `step_fit` per matrix row under
the correlation veto.  It is literally the generic training fold. -/
def bartmapRowFit (Ka : Kernel Xa Wa α μa) (cfga : SearchCfg μa θa) (tha : θa)
    (veto : Xa → Nat → Bool) (rowsX : List Xa) : ArtState Wa :=
  fit Ka cfga tha (fun _ x c => veto x c) {} rowsX

/-- `BARTMAP.fit`: `rowsX` = prepared matrix rows, `colsX` = prepared rows of
the transposed matrix. -/
def bartmapFit (Ka : Kernel Xa Wa α μa) (cfga : SearchCfg μa θa) (tha : θa)
    (Kb : Kernel Xb Wb β μb) (cfgb : SearchCfg μb θb) (thb : θb)
    (veto : Xa → Nat → Bool) (rowsX : List Xa) (colsX : List Xb) : BartState Wa Wb :=
  let b := fit Kb cfgb thb noVeto {} colsX
  let a := bartmapRowFit Ka cfga tha veto rowsX
  { a := a, b := b
    rows := rowsOf a.W.length b.W.length a.labels
    cols := columnsOf a.W.length b.W.length b.labels }

end

end Art
