/-
ArtModel.ImpFalcon — numpy helpers of the FALCON translator (`harness/artv/rtrans.py`).  Core Lean only.

A 1-d array is a `List α`, a 2-d array a `List (List α)` (list of rows; a real ndarray is rectangular).
Every helper has the numpy meaning for operands of the *same shape* (or array-with-scalar); where numpy would
raise — or broadcast two arrays of different shapes, which the translated code never intends — the helper
returns `none`, so that the generated definition fails instead of silently truncating.
Nothing here mentions the FALCON model (`ArtModel/Falcon.lean`).
-/
namespace Art.ImpFalcon

/-- element-wise `f` on two lists of the same length; `none` on a length mismatch -/
def zipSame {β γ δ : Type} (f : β → γ → δ) : List β → List γ → Option (List δ)
  | [], [] => some []
  | a :: as, b :: bs => (zipSame f as bs).map (f a b :: ·)
  | _, _ => none

/-- element-wise `f` on two 2-d arrays of the same shape -/
def npZip2 {α : Type} (f : α → α → α) : List (List α) → List (List α) → Option (List (List α))
  | [], [] => some []
  | a :: as, b :: bs =>
    match zipSame f a b, npZip2 f as bs with
    | some r, some rs => some (r :: rs)
    | _, _ => none
  | _, _ => none

section Arith
variable {α : Type}

/-- `A + B` -/
def npAdd [Add α] (A B : List (List α)) : Option (List (List α)) := npZip2 (· + ·) A B
/-- `A - B` -/
def npSub [Sub α] (A B : List (List α)) : Option (List (List α)) := npZip2 (· - ·) A B
/-- `s * A` (scalar on the left) -/
def npSMul [Mul α] (s : α) (A : List (List α)) : List (List α) := A.map (·.map (s * ·))
/-- `s - A` (scalar on the left) -/
def npSSub [Sub α] (s : α) (A : List (List α)) : List (List α) := A.map (·.map (s - ·))
/-- `A / s` -/
def npDivS [Div α] (A : List (List α)) (s : α) : List (List α) := A.map (·.map (· / s))
/-- `np.minimum(A, s)` -/
def npMinimumS [Min α] (A : List (List α)) (s : α) : List (List α) := A.map (·.map (min · s))
/-- `np.maximum(A, s)` -/
def npMaximumS [Max α] (A : List (List α)) (s : α) : List (List α) := A.map (·.map (max · s))
/-- `np.zeros_like(A)` -/
def npZerosLike [Zero α] (A : List (List α)) : List (List α) := A.map (·.map (fun _ => (0 : α)))

end Arith

section Shape
variable {β : Type}

/-- `np.hstack([A, B, …])` of 2-d arrays: rows are concatenated; all arrays need the same number of rows;
an empty list raises -/
def npHstack : List (List (List β)) → Option (List (List β))
  | [] => none
  | [A] => some A
  | A :: rest =>
    match npHstack rest with
    | some B => zipSame (· ++ ·) A B
    | none => none

/-- `A.shape` of a 2-d array (the column count of an array without rows reads 0) -/
def npShape (A : List (List β)) : Nat × Nat := (A.length, (A.head?.map List.length).getD 0)

/-- `v[:-k]` for a literal `k ≥ 1` (rows of a 2-d array, entries of a 1-d one) -/
def pyDropLast (v : List β) (k : Nat) : List β := v.take (v.length - k)

/-- `A[:, :m]` -/
def npColsTo (A : List (List β)) (m : Nat) : List (List β) := A.map (·.take m)
/-- `A[:, m:]` -/
def npColsFrom (A : List (List β)) (m : Nat) : List (List β) := A.map (·.drop m)

/-- `assert c` -/
def pyAssert (c : Bool) : Option Unit := if c then some () else none

end Shape

section Arg
variable {α : Type} [LT α] [DecidableRel (α := α) (· < ·)]

/-- the scan of `np.argmax`: keep the best (index, value) so far, replace it only by a strictly larger entry -/
def argScan (better : α → α → Bool) : Option (Nat × α) → Nat → List α → Option (Nat × α)
  | best, _, [] => best
  | none, i, x :: xs => argScan better (some (i, x)) (i + 1) xs
  | some (k, v), i, x :: xs =>
    if better x v then argScan better (some (i, x)) (i + 1) xs else argScan better (some (k, v)) (i + 1) xs

/-- `np.argmax(v)` on a 1-d array (a 2-d array is flattened first): the first index of the largest entry;
an empty array raises -/
def npArgmax (v : List α) : Option Nat := (argScan (fun x best => decide (best < x)) none 0 v).map (·.1)

/-- `np.argmin(v)`: the first index of the smallest entry -/
def npArgmin (v : List α) : Option Nat := (argScan (fun x best => decide (x < best)) none 0 v).map (·.1)

end Arg

end Art.ImpFalcon
