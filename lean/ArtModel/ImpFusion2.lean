/-
ArtModel.ImpFusion2 — helpers of the second FusionART translator (`harness/artv/ftrans2.py`: step_pred / predict with
skipped channels, predict_regression, join / split, prepare / restore, the centre accessors).  Core Lean only.

A 1-d array is a `List α`, a 2-d array a `List (List α)` (list of rows), a list of 2-d arrays a
`List (List (List α))`.  Every helper has the Python / numpy meaning; where Python would raise the helper returns
`none`, so that the generated definition fails instead of silently computing something else.
Nothing here mentions the FusionART model (`ArtModel/Fusion.lean`).
-/
import ArtModel.Imp

namespace Art.ImpFusion2

section
variable {β γ δ : Type}

/-- a list of Python ints where the already generated `Art.Gen.FusionART.category_choice` expects the channel numbers
as naturals: the list is only ever used in `k not in skip_channels` with `k` from `range(self.n)`, and a negative
entry equals no such `k` -/
def natsOf (l : List Int) : List Nat := l.filterMap (fun k => if k < 0 then none else some k.toNat)

/-- `assert c` -/
def pyAssert (c : Bool) : Option Unit := if c then some () else none

/-- `xs[k]` for a Python int `k`: a negative index counts from the end; out of range raises -/
def pyIndex (xs : List β) (k : Int) : Option β :=
  if k < 0 then (if xs.length < (-k).toNat then none else xs[xs.length - (-k).toNat]?) else xs[k.toNat]?

/-- `xs[i] = v` on an array / list (`i ≥ 0`): out of range raises -/
def pySetItem (xs : List β) (i : Nat) (v : β) : Option (List β) :=
  if i < xs.length then some (xs.set i v) else none

/-- `a - b` of two non-negative Python ints that is used as a width (a `np.ones` shape entry, the length of a column
slice): a negative width makes `np.ones` raise, and the generated definition fails there too -/
def natSub (a b : Nat) : Option Nat := if b ≤ a then some (a - b) else none

/-- element-wise `f` on two lists of the same length; `none` on a length mismatch -/
def zipSame (f : β → γ → δ) : List β → List γ → Option (List δ)
  | [], [] => some []
  | a :: as, b :: bs => (zipSame f as bs).map (f a b :: ·)
  | _, _ => none

/-- `np.hstack([A, B, …])` of 2-d arrays: rows are concatenated; all arrays need the same number of rows;
an empty list raises -/
def npHstack : List (List (List β)) → Option (List (List β))
  | [] => none
  | [A] => some A
  | A :: rest =>
    match npHstack rest with
    | some B => zipSame (· ++ ·) A B
    | none => none

/-- `A[:, a:b]` -/
def npCols (A : List (List β)) (a b : Nat) : List (List β) := A.map (fun v => Art.Imp.pySlice v a b)

end

section
variable {α : Type}

/-- `np.ones((r, c))` -/
def npOnes [One α] (r c : Nat) : List (List α) := List.replicate r (List.replicate c (1 : α))

/-- `s * A` (scalar on the left) -/
def npSMul [Mul α] (s : α) (A : List (List α)) : List (List α) := A.map (·.map (s * ·))

end

end Art.ImpFusion2
