/-
ArtModel.ImpParams2 — additions to the target language of the estimator-protocol translators
(`ArtModel/ImpParams.lean`) needed by `harness/artv/q2trans.py` for the compound estimators.
Core Lean only.  Like `ImpParams`, nothing here knows about artlib: generic Python semantics.

* `dupdate` — `d.update(pairs)` / `dict(d, **extra)`;
* `selfAttr` — the load `self.a` on a class without `__getattr__` (instance `__dict__` only);
  `selfAttrB` — the same load on a class with `__getattr__` (`__dict__`, then the method);
* `cmpVV` — comparison of two dynamically typed values; `isInt` — `isinstance(v, int)`;
  `valIn` — `v in [c1, c2, …]` for integer constants;
* `Ext` — the methods / attributes of NESTED estimators that the translated methods use and the
  translator does not follow (dynamic dispatch on an object of unknown class): they are fields of
  this structure, which every generated method that touches a nested estimator takes as its first
  argument.
-/
import ArtModel.ImpParams

namespace Art.Q2
open Art.Params (Val Err Store)
open Art.Q

/-- `d.update(pairs)`; also `dict(d, **extra)` (the copy is the same value) -/
def dupdate (d : Store) (kvs : List (String × Val)) : Store :=
  kvs.foldl (fun d kv => dset d kv.1 kv.2) d

/-- the load `self.a` on a class that defines no `__getattr__`: the instance `__dict__` only
(no class attribute / property of that name: checked by the translator).  A `__dict__` entry that is
a dict is outside the value universe: `TypeError`. -/
def selfAttr (a : String) : M Val := fun w =>
  (match dget w.self a with
    | some (.val v) => .ok v
    | some (.dict _) => .error .type
    | none => .error .attr, w)

/-- the load `self.a` on a class with `__getattr__`: the instance `__dict__` first, then the method -/
def selfAttrB (getattr__ : String → M Val) (a : String) : M Val := fun w =>
  match pyGetattr getattr__ a w with
  | (.ok s, w') => (asVal s, w')
  | (.error e, w') => (.error e, w')

/-- how a value enters an arithmetic comparison: a number, an array, or neither -/
inductive Num where
  | n (q : Rat)
  | a (l : List Rat)
  | bad

def numOf : Val → Num
  | .flt q => .n q
  | .int i => .n (i : Rat)
  | .arr l => .a l
  | _ => .bad

/-- `a op b` for two dynamically typed values: numbers give a `bool`, an array against a number a Boolean
array, two arrays of the same length (or one of length one: broadcasting) a Boolean array, any other two arrays
`ValueError` (shapes cannot be broadcast), anything else `TypeError` -/
def cmpVV (op : Cmp) (a b : Val) : Except Err Truth :=
  match numOf a, numOf b with
  | .n x, .n y => .ok (.b (op.rel x y))
  | .a l, .n y => .ok (.ba (l.map (fun x => op.rel x y)))
  | .n x, .a l => .ok (.ba (l.map (fun y => op.rel x y)))
  | .a l, .a m =>
    if l.length = m.length then .ok (.ba (List.zipWith op.rel l m))
    else match l, m with
      | [x], _ => .ok (.ba (m.map (fun y => op.rel x y)))
      | _, [y] => .ok (.ba (l.map (fun x => op.rel x y)))
      | _, _ => .error .value
  | _, _ => .error .type

/-- `isinstance(v, int)` (a Python `bool` is rendered as the int it is) -/
def isInt : Val → Bool
  | .int _ => true
  | _ => false

/-- `v == c` for an integer constant `c`, as `bool(...)` -/
def valEqInt (v : Val) (c : Int) : Except Err Bool :=
  match v with
  | .flt q => .ok (decide (q = (c : Rat)))
  | .int i => .ok (decide (i = c))
  | .arr [x] => .ok (decide (x = (c : Rat)))
  | .arr _ => .error .value
  | _ => .ok false

/-- `v in [c1, c2, …]`: `==` against each element in turn, the first truthy one decides -/
def valIn (v : Val) : List Int → Except Err Bool
  | [] => .ok false
  | c :: cs =>
    match valEqInt v c with
    | .error e => .error e
    | .ok true => .ok true
    | .ok false => valIn v cs

/-- `f"module_{i}"` -/
def moduleName (i : Nat) : String := "module_" ++ toString i

/-- the members of nested estimators that the translated methods use (not translated: parameters) -/
structure Ext where
  /-- `isinstance(v, BaseART)` -/
  isBaseART : Val → Bool
  /-- `v.params`: the parameter dict of the nested estimator `v` -/
  params : Val → M Store
  /-- `v.get_params()` -/
  get_params : Val → M Store
  /-- `v.set_params(**d)` -/
  set_params : Val → Store → M Unit
  /-- `v.validate_params(d)` -/
  validate_params : Val → Store → Except Err Unit

/-- `for i, x in enumerate(xs)` -/
def enumerate {α : Type} (xs : List α) : List (Nat × α) := go 0 xs
where
  go : Nat → List α → List (Nat × α)
    | _, [] => []
    | n, x :: r => (n, x) :: go (n + 1) r

end Art.Q2
