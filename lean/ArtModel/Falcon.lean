/-
ArtModel.Falcon — FALCON and TD-FALCON (`artlib/reinforcement/FALCON.py`) on
top of `ArtModel.Fusion` with the three channels state | action | reward.
Core Lean only; generic over the number type (executed at `Rat`).

How the Python is mirrored
* `fit` / `partial_fit`: `join_channel_data([states, actions, rewards])`, then the
  FusionART call — `falconRows`, `falconFit`, `falconPartialFit`;
* `get_rewards(states, actions)`: join with the reward channel skipped (filler
  `0.5`), `predict(..., skip_channels=[2])`, then `reward_centers[c]`;
* `get_actions_and_rewards` / `get_action`: every member of the action space is
  prepared by module 1 (`prepA`), scored as above, `np.argmax(rewards)` /
  `np.argmin(rewards)` runs over the **flattened** `(n, m)` array of reward centres
  and indexes the action space with that flat index (`m = 1` for a complement-coded
  scalar reward, where flat index = member index);
* `calculate_SARSA`: both branches (`len(states) > 1` or not, `single_sample_reward`),
  `Q = 0` when `modules[0]` has no `W` yet, the exact order of the arithmetic
  `Q[:-1] + td_alpha * (r[:-1] + td_lambda * Q[1:] - Q[:-1])`, clipping with
  `np.maximum(np.minimum(·, 1), 0)`, complement coding `[t, 1 - t]`.
The reward channel is complement-coded with width 2 (a scalar reward) in the SARSA
part, as in the property; centres are passed as functions so that the column
bounds of `prepare_data` stay outside (the harness uses the identity bounds).
Everything lives in `namespace Art.Falcon`.
-/
import ArtModel.Fusion

namespace Art.Falcon
open Art Art.Fusion

section
variable {α : Type} [Add α] [Sub α] [Mul α] [Div α] [Min α] [Max α] [Zero α] [One α]
  [LT α] [LE α] [DecidableRel (α := α) (· < ·)] [DecidableRel (α := α) (· ≤ ·)]

/-- the filler of `join_channel_data`: `0.5` -/
def half : α := 1 / (1 + 1)

/-- `join_channel_data([states, actions, rewards])` for one transition -/
def falconRow (s a r : List α) : List α := s ++ (a ++ r)

def falconRows (S A R : List (List α)) : List (List α) :=
  List.zipWith (fun s ar => falconRow s ar.1 ar.2) S (List.zip A R)

/-- `FALCON.fit` -/
def falconFit {θ : Type} (chans : List (Chan α)) (cfg : SearchCfg (List α) θ) (th0 : θ)
    (st : ArtState (List α)) (S A R : List (List α)) : ArtState (List α) :=
  fit (fusionKernel chans) cfg th0 noVeto st (falconRows S A R)

/-- `FALCON.partial_fit` -/
def falconPartialFit {θ : Type} (chans : List (Chan α)) (cfg : SearchCfg (List α) θ) (th0 : θ)
    (st : ArtState (List α)) (S A R : List (List α)) : ArtState (List α) :=
  partialFit (fusionKernel chans) cfg th0 noVeto st (falconRows S A R)

/-- reward channel withheld -/
def skipReward : Nat → Bool := skipSet 3 [2]

/-- the query row of `get_rewards`: state | action | `0.5` filler of the reward width -/
def queryRow (chans : List (Chan α)) (s a : List α) : List α :=
  s ++ (a ++ List.replicate ((widths chans).getD 2 0) half)

/-- the category chosen for a (state, action) pair with the reward channel withheld -/
def rewardCategory (chans : List (Chan α)) (W : List (List α)) (s a : List α) : Option Nat :=
  stepPredSkip chans skipReward W (queryRow chans s a)

/-- `get_rewards` for one (state, action) pair: `reward_centers[c]`;
`centreR` = the reward module's weight-to-centre map -/
def getReward (chans : List (Chan α)) (centreR : List α → List α) (W : List (List α))
    (s a : List α) : Option (List α) :=
  (rewardCategory chans W s a).bind (fun c => ((channelCentres chans (fun _ => centreR) W 2)[c]?))

def getRewards (chans : List (Chan α)) (centreR : List α → List α) (W : List (List α))
    (S A : List (List α)) : List (Option (List α)) :=
  List.zipWith (getReward chans centreR W) S A

/-- the action space actually used: the supplied one, or the action-channel centres -/
def actionSpace (chans : List (Chan α)) (centreA : List α → List α) (W : List (List α))
    (space : Option (List (List α))) : List (List α) :=
  match space with
  | some sp => sp
  | none => channelCentres chans (fun _ => centreA) W 1

/-- `get_actions_and_rewards`: the reward centre of every member of the action space -/
def actionRewards (chans : List (Chan α)) (centreA centreR : List α → List α)
    (prepA : List α → List α) (W : List (List α)) (state : List α)
    (space : Option (List (List α))) : List (Option (List α)) :=
  (actionSpace chans centreA W space).map (fun a => getReward chans centreR W state (prepA a))

/-- `get_action`: `action_space[np.argmax(rewards)]` (`argmin` on request), the
arg-max running over the flattened reward array -/
def getAction (chans : List (Chan α)) (centreA centreR : List α → List α)
    (prepA : List α → List α) (W : List (List α)) (state : List α)
    (space : Option (List (List α))) (maximize : Bool) : Option (List α) :=
  match allSome (actionRewards chans centreA centreR prepA W state space) with
  | none => none
  | some rs =>
    match (if maximize then argmaxFirst rs.flatten else argminFirst rs.flatten) with
    | none => none
    | some i => (actionSpace chans centreA W space)[i]?

/-! ### TD-FALCON -/

/-- `np.maximum(np.minimum(t, 1.0), 0.0)` -/
def clip01 (t : α) : α := max (min t 1) 0

/-- `compliment_code` of a scalar column: `[t, 1 - t]` -/
def ccScalar (t : α) : List α := [t, 1 - t]

/-- `de_compliment_code` of a width-2 reward row: `(r0 + (1 - r1)) / 2` -/
def deccScalar (r : List α) : α := (r.getD 0 0 + (1 - r.getD 1 0)) / (1 + 1)

/-- one SARSA value, in the order the code evaluates it -/
def sarsaScalar (al la q r q' : α) : α := clip01 (q + al * (r + la * q' - q))

/-- `Q[:-1] + td_alpha * (r[:-1] + td_lambda * Q[1:] - Q[:-1])`, clipped: one value
for every transition but the last -/
def sarsaList (al la : α) : List α → List α → List α
  | q :: q' :: Qs, r :: rs => sarsaScalar al la q r q' :: sarsaList al la (q' :: Qs) rs
  | _, _ => []

/-- `calculate_SARSA`.  `trained` = `hasattr(modules[0], "W")`; `Q s a` = the scalar
`get_rewards` value of a pair; `ssr` = `single_sample_reward`.
Returns `(states_fit, actions_fit, sarsa_rewards_fit)`. -/
def calcSarsa (al la : α) (trained : Bool) (Q : List α → List α → α)
    (S A R : List (List α)) (ssr : Option α) : List (List α) × List (List α) × List (List α) :=
  if 1 < S.length then
    let rs := R.map deccScalar
    let Qs := if trained then List.zipWith Q S A else rs.map (fun _ => (0 : α))
    (S.dropLast, A.dropLast, (sarsaList al la Qs rs).map ccScalar)
  else
    (S, A, match ssr with
           | none => R
           | some v => [ccScalar v])

/-- the scalar `Q(s,a)` the trained model supplies: first (only) coordinate of the
reward centre; `0` stands for an absent value (empty model), which cannot occur
once `modules[0]` has a `W` with at least one category -/
def qValue (chans : List (Chan α)) (centreR : List α → List α) (W : List (List α))
    (s a : List α) : α :=
  ((getReward chans centreR W s a).map (fun v => v.getD 0 0)).getD 0

/-- `TD_FALCON.partial_fit`: SARSA targets, join, FusionART `partial_fit` -/
def tdPartialFit {θ : Type} (chans : List (Chan α)) (cfg : SearchCfg (List α) θ) (th0 : θ)
    (centreR : List α → List α) (al la : α) (trained : Bool) (st : ArtState (List α))
    (S A R : List (List α)) (ssr : Option α) : ArtState (List α) :=
  let (S', A', R') := calcSarsa al la trained (qValue chans centreR st.W) S A R ssr
  partialFit (fusionKernel chans) cfg th0 noVeto st (falconRows S' A' R')

/-- the reward module's `validate_data` on one row of width 2:
even width, entries in `[0,1]`, `|sum - 1| ≤ tol` (`tol` = 0.01 in the code) -/
def validRewardRow (tol : α) (r : List α) : Bool :=
  r.length == 2 && r.all (fun v => decide (0 ≤ v) && decide (v ≤ 1)) &&
    decide (vsum r - 1 ≤ tol) && decide (1 - vsum r ≤ tol)

end

end Art.Falcon
