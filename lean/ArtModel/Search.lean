/-
ArtModel.Search — the generic resonance search (`BaseART.step_fit`), the
training folds (`fit`, `partial_fit`) and prediction (`step_pred`, `predict`).
Core Lean only.

The loop sees a committed category only through
  * its activation  `T c : Option α`   (`none` = NaN = not a candidate),
  * its match value `M c : μ`,
  * the veto bit    `veto c`            (what `match_reset_func` answers, negated).
`μ` and the threshold type `θ` are abstract: `θ = α` for a bare module,
a vector of per-channel thresholds for FusionART.
-/
import ArtModel.Basic

namespace Art

/-- What one `match_tracking` mode means for one search. -/
structure SearchCfg (μ θ : Type) where
  /-- binary match test `match_criterion_bin` with the operator of the mode -/
  passes : θ → μ → Bool
  /-- threshold after a *matching* category was vetoed (`_match_tracking`) -/
  track : θ → μ → θ
  /-- `false` for MT1: abandon the search after the first vetoed match -/
  keep : Bool
  /-- MT~: vetoed categories are struck before the loop, the loop never asks -/
  tilde : Bool

/-- One visited category: which, the threshold in force, did it pass the
vigilance test, and was it allowed (not vetoed). -/
structure Visit (θ : Type) where
  c : Nat
  th : θ
  m : Bool
  ok : Bool
  deriving Repr

structure SearchResult (θ : Type) where
  /-- `some c` = resonance with `c`; `none` = no category qualifies -/
  winner : Option Nat
  /-- threshold state when the loop ended (restored by the caller) -/
  th : θ
  /-- categories in the order they were visited -/
  visits : List (Visit θ)

def SearchResult.cons {θ : Type} (v : Visit θ) (r : SearchResult θ) : SearchResult θ :=
  { r with visits := v :: r.visits }

section
variable {α μ θ : Type} [LT α] [DecidableRel (α := α) (· < ·)]

/-- The `while any(~isnan(T))` loop of `BaseART.step_fit`.  `fuel` bounds the
number of iterations; `T.length` always suffices (`search_fuel_irrelevant`). -/
def search (cfg : SearchCfg μ θ) (M : Nat → μ) (veto : Nat → Bool) :
    Nat → List (Option α) → θ → SearchResult θ
  | 0, _, th => ⟨none, th, []⟩
  | fuel + 1, T, th =>
    match nanargmax T with
    | none => ⟨none, th, []⟩
    | some c =>
      let m := cfg.passes th (M c)
      let ok := cfg.tilde || !veto c
      let v : Visit θ := ⟨c, th, m, ok⟩
      if m && ok then ⟨some c, th, [v]⟩
      else
        let T' := T.set c none
        if m && !ok then
          let th' := cfg.track th (M c)
          if cfg.keep then (search cfg M veto fuel T' th').cons v
          else ⟨none, th', [v]⟩
        else (search cfg M veto fuel T' th).cons v

/-- MT~ pre-pass: vetoed categories get a NaN activation before the loop. -/
def strikeVetoed (tilde : Bool) (veto : Nat → Bool) (T : List (Option α)) : List (Option α) :=
  if tilde then (List.zipIdx T).map (fun (t, i) => if veto i then none else t) else T

end

/-- The four kernel functions of an elementary module, for fixed
hyper-parameters.  `choice` also receives the whole weight list because the
Gaussian/Bayesian prior reads the counts of all categories. -/
structure Kernel (X Wt α μ : Type) where
  choice : List Wt → X → Wt → Option α
  matchv : X → Wt → μ
  update : X → Wt → Wt
  newW : X → Wt

/-- Observable training state of a `BaseART` instance. -/
structure ArtState (Wt : Type) where
  W : List Wt := []
  /-- `weight_sample_counter_` -/
  cnt : List Nat := []
  /-- `sample_counter_` -/
  n : Nat := 0
  /-- `labels_` -/
  labels : List Nat := []
  deriving Repr

section
variable {X Wt α μ θ : Type} [LT α] [DecidableRel (α := α) (· < ·)]

def activations (K : Kernel X Wt α μ) (W : List Wt) (x : X) : List (Option α) :=
  W.map (K.choice W x)

/-- match value of category `c` (irrelevant default outside the range) -/
def matchAt (K : Kernel X Wt α μ) (W : List Wt) (x : X) (c : Nat) : μ :=
  match W[c]? with
  | some w => K.matchv x w
  | none => K.matchv x (K.newW x)

/-- The search of one training step, without the state change. -/
def stepSearch (K : Kernel X Wt α μ) (cfg : SearchCfg μ θ) (th0 : θ) (veto : Nat → Bool)
    (W : List Wt) (x : X) : SearchResult θ :=
  let T := strikeVetoed cfg.tilde veto (activations K W x)
  search cfg (matchAt K W x) veto T.length T th0

/-- Apply the outcome of a search to the weights and counters. -/
def applyWinner (K : Kernel X Wt α μ) (s : ArtState Wt) (x : X) : Option Nat → ArtState Wt × Nat
  | some c =>
    match s.W[c]? with
    | some w =>
      ({ s with W := s.W.set c (K.update x w), cnt := s.cnt.set c (s.cnt.getD c 0 + 1), n := s.n + 1 }, c)
    | none => ({ s with n := s.n + 1 }, c)   -- unreachable: winners index W (search_winner_lt)
  | none =>
    ({ s with W := s.W ++ [K.newW x], cnt := s.cnt ++ [1], n := s.n + 1 }, s.W.length)

/-- `BaseART.step_fit`: returns the new state (labels untouched) and the label.
The threshold `th0` is the *configured* one: the caller's parameters are saved
before and restored after the search, so nothing of `r.th` survives. -/
def stepFit (K : Kernel X Wt α μ) (cfg : SearchCfg μ θ) (th0 : θ) (veto : Nat → Bool)
    (s : ArtState Wt) (x : X) : ArtState Wt × Nat :=
  if s.W.isEmpty then applyWinner K s x none
  else applyWinner K s x (stepSearch K cfg th0 veto s.W x).winner

/-- one step of `fit` / `partial_fit`: `labels_[i] = step_fit(x)` -/
def trainStep (K : Kernel X Wt α μ) (cfg : SearchCfg μ θ) (th0 : θ)
    (veto : ArtState Wt → X → Nat → Bool) (s : ArtState Wt) (x : X) : ArtState Wt :=
  let (s', c) := stepFit K cfg th0 (veto s x) s x
  { s' with labels := s'.labels ++ [c] }

/-- `partial_fit` on a batch: a left fold of `trainStep`. -/
def partialFit (K : Kernel X Wt α μ) (cfg : SearchCfg μ θ) (th0 : θ)
    (veto : ArtState Wt → X → Nat → Bool) (s : ArtState Wt) (xs : List X) : ArtState Wt :=
  xs.foldl (trainStep K cfg th0 veto) s

/-- `fit` (single epoch): forget weights, labels and counters, then train. -/
def fit (K : Kernel X Wt α μ) (cfg : SearchCfg μ θ) (th0 : θ)
    (veto : ArtState Wt → X → Nat → Bool) (_s : ArtState Wt) (xs : List X) : ArtState Wt :=
  partialFit K cfg th0 veto {} xs

/-- one presentation inside an epoch of `fit`: `labels_[i] = step_fit(x)` (the label vector has its final length
from the start; later epochs overwrite) -/
def epochStep (K : Kernel X Wt α μ) (cfg : SearchCfg μ θ) (th0 : θ)
    (veto : ArtState Wt → X → Nat → Bool) (s : ArtState Wt) (xi : X × Nat) : ArtState Wt :=
  let (s', c) := stepFit K cfg th0 (veto s xi.1) s xi.1
  { s' with labels := s'.labels.set xi.2 c }

/-- `fit(X, max_iter = epochs)`: weights, counters and labels start fresh; every epoch presents the whole stream
again; weights and counters carry over from epoch to epoch -/
def fitEpochs (K : Kernel X Wt α μ) (cfg : SearchCfg μ θ) (th0 : θ)
    (veto : ArtState Wt → X → Nat → Bool) (epochs : Nat) (xs : List X) : ArtState Wt :=
  (List.range epochs).foldl (fun s _ => (xs.zipIdx).foldl (epochStep K cfg th0 veto) s)
    { W := [], cnt := [], n := 0, labels := List.replicate xs.length 0 }

def noVeto {S X : Type} : S → X → Nat → Bool := fun _ _ _ => false

/-- `step_pred`: `np.argmax` of the activations. -/
def stepPred (K : Kernel X Wt α μ) (W : List Wt) (x : X) : Option Nat :=
  argmaxNp (activations K W x)

/-- `predict`: row-wise `step_pred`. -/
def predict (K : Kernel X Wt α μ) (W : List Wt) (xs : List X) : List (Option Nat) :=
  xs.map (stepPred K W)

end

/-! ### The standard scalar-threshold configurations -/

section
variable {α : Type} [LT α] [LE α] [DecidableRel (α := α) (· < ·)] [DecidableRel (α := α) (· ≤ ·)]

/-- `_match_tracking_operator` -/
def mtStrict : MT → Bool
  | .plus | .minus | .one => false
  | .zero | .tilde => true

/-- `M op rho` with `op ∈ {ge, gt}`; `inverted` swaps the operands (BayesianART). -/
def passesScalar (mode : MT) (inverted : Bool) (rho m : α) : Bool :=
  match inverted, mtStrict mode with
  | false, false => decide (rho ≤ m)     -- M ≥ rho
  | false, true => decide (rho < m)      -- M > rho
  | true, false => decide (m ≤ rho)      -- rho ≥ M
  | true, true => decide (m < rho)       -- rho > M

/-- `_match_tracking`, for a threshold that lives in an order with a top
element supplied by the caller (`inf`, resp. `-inf` when inverted).
`adjP m` is `M + epsilon`, `adjM m` is `M - epsilon` (swapped by the caller
for BayesianART). -/
def trackScalar (mode : MT) (adjP adjM : α → α) (top : α) (rho m : α) : α :=
  match mode with
  | .plus => adjP m
  | .minus => adjM m
  | .zero => m
  | .one => top
  | .tilde => rho

def scalarCfg (mode : MT) (inverted : Bool) (adjP adjM : α → α) (top : α) : SearchCfg α α :=
  { passes := passesScalar mode inverted
    track := trackScalar mode adjP adjM top
    keep := mode != .one
    tilde := mode == .tilde }

end

end Art
