/-
ArtModel.Dispatch — routes a protocol line to its handler by first word.
-/
import ArtModel.Driver
import ArtModel.Ops.Vat
import ArtModel.Ops.Icvi
import ArtModel.Ops.Prep
import ArtModel.Ops.Topo
import ArtModel.Ops.Dual
import ArtModel.Ops.Bartmap
import ArtModel.Ops.Params
import ArtModel.Ops.Kern
import ArtModel.Ops.Fusion
import ArtModel.Ops.Deep
import ArtModel.Ops.Falcon

namespace Art.Drv

def dispatch (line : String) : String :=
  let line := line.trimAscii.toString
  match line.splitOn " " with
  | "search" :: rest => (opSearch rest).getD "bad-op"
  | "hist" :: _ => (opHist (line.drop 5).toString).getD "bad-op"
  | "vat" :: rest => (Art.Ops.vat rest).getD "bad-op"
  | "icvi" :: rest => (Art.Ops.icvi rest).getD "bad-op"
  | "prep" :: rest => (Art.Ops.prep rest).getD "bad-op"
  | "topo" :: rest => (Art.Ops.topo rest).getD "bad-op"
  | "dual" :: rest => (Art.Ops.dual rest).getD "bad-op"
  | "bartmap" :: rest => (Art.Ops.bartmap rest).getD "bad-op"
  | "params" :: rest => (Art.Ops.params rest).getD "bad-op"
  | "kern" :: rest => (Art.Ops.kern rest).getD "bad-op"
  | "fusion" :: rest => (Art.Ops.fusion rest).getD "bad-op"
  | "deep" :: rest => (Art.Ops.deep rest).getD "bad-op"
  | "falcon" :: rest => (Art.Ops.falcon rest).getD "bad-op"
  | _ => "bad-op"

end Art.Drv
