/-
ArtModel.Basic — list-vector primitives and arg-max rules.
Core Lean only (no Mathlib): this file is part of the executable model.

Conventions
* a "vector" is a `List α`; numpy broadcasting is never modelled, shapes are
  the caller's obligation and are checked by the correspondence, not assumed.
* NaN is not a value: an activation is `Option α`, `none` = NaN.
-/
namespace Art

/-- The five match-tracking modes of `BaseART.step_fit`. -/
inductive MT where
  | plus | minus | zero | one | tilde
  deriving DecidableEq, Repr, Inhabited

section Vec
variable {α : Type} [Add α] [Sub α] [Mul α] [Div α] [Min α] [Max α] [Zero α] [One α]

/-- `np.sum` of a vector. -/
def vsum : List α → α
  | [] => 0
  | x :: xs => x + vsum xs

/-- `fuzzy_and` = `np.minimum`. -/
def vmin (x w : List α) : List α := List.zipWith min x w

def vmax (x w : List α) : List α := List.zipWith max x w

def vadd (x w : List α) : List α := List.zipWith (· + ·) x w

def vsub (x w : List α) : List α := List.zipWith (· - ·) x w

def vmul (x w : List α) : List α := List.zipWith (· * ·) x w

/-- scalar * vector -/
def smul (a : α) (x : List α) : List α := x.map (a * ·)

/-- `np.dot`. -/
def dot (x w : List α) : α := vsum (vmul x w)

/-- `l2norm2`. -/
def l2sq (x : List α) : α := dot x x

/-- complement of a vector: `1 - x`. -/
def vcompl (x : List α) : List α := x.map (1 - ·)

end Vec

section ArgMax
variable {α : Type} [LT α] [DecidableRel (α := α) (· < ·)]

/-- First maximal non-NaN entry with its index, computed from the right: the
head wins unless some later entry is *strictly* larger, so ties go to the
smallest index — numpy's rule. -/
def nanargmaxV : List (Option α) → Option (Nat × α)
  | [] => none
  | t :: ts =>
    match t, nanargmaxV ts with
    | none, r => r.map (fun kv => (kv.1 + 1, kv.2))
    | some v, none => some (0, v)
    | some v, some (k, u) => if v < u then some (k + 1, u) else some (0, v)

/-- `np.nanargmax` on a vector with at least one non-NaN entry: first index of
the maximal non-NaN value; `none` when every entry is NaN (the loop guard
`any(~isnan(T))` is false). -/
def nanargmax (T : List (Option α)) : Option Nat :=
  (nanargmaxV T).map (·.1)

/-- `np.argmax` (used by `step_pred`): the first NaN wins if there is one;
otherwise the first maximal entry.  `none` only for the empty list
(numpy raises). -/
def argmaxNp (T : List (Option α)) : Option Nat :=
  match T.findIdx? (·.isNone) with
  | some i => some i
  | none => nanargmax T

/-- `np.argmin` on a NaN-free list: first minimal entry. -/
def argminV : List α → Option (Nat × α)
  | [] => none
  | v :: ts =>
    match argminV ts with
    | none => some (0, v)
    | some (k, u) => if u < v then some (k + 1, u) else some (0, v)

def argminFirst (l : List α) : Option Nat := (argminV l).map (·.1)

def argmaxFirst (l : List α) : Option Nat := nanargmax (l.map some)

end ArgMax

/-- `l.set i v` as used for Python `W[i] = v`. -/
abbrev setAt {β : Type} (l : List β) (i : Nat) (v : β) : List β := l.set i v

/-- histogram of labels over `n` bins -/
def histogram (n : Nat) (labels : List Nat) : List Nat :=
  (List.range n).map (fun k => labels.count k)

end Art
