/-
ArtModel.ImpParams3 — additions to the target language of the estimator-protocol translators
(`ArtModel/ImpParams.lean`, `ArtModel/ImpParams2.lean`) needed by `harness/artv/q3trans.py`.
Core Lean only.  Like its two predecessors, nothing here knows about artlib: generic Python semantics.

* `paramsUpdate` — `x.update(pairs)` where `x` is an alias of the dict object `self.params`
  (`x = self.params`: no copy, the write lands in the instance).
* the WIDE world (`Slot`, `World`, `M`, `selfDict`, `selfParams`, `slotHas`, `asVal`, `paramsSetitem`,
  `objectSetattr`, `pyGetattr`, `selfAttr`, `selfAttrB`, `Ext`): the same operations as in `ImpParams` /
  `ImpParams2`, word for word, over a `__dict__` whose entries may also hold a Python list of objects
  (`self.modules`), a list of number pairs (`self._channel_indices`), a number computed by the method
  (`len(…)`, `sum(…)`) or a reference to an object the method constructed (`self.fusion_art = FusionART(…)`;
  the constructed objects live in `World.heap`).  The constructors of FusionART, DeepARTMAP, FALCON and
  TD_FALCON store such values; `Params.Val` has none of them.
* `lenVal`, `iterNums`, `isList`, `Num` (Python's `sum` — float additions round, so it is a parameter),
  `newObject`, `selfVals` / `selfVal` / `selfRanges` (typed loads of attributes the constructor stored).
-/
import ArtModel.ImpParams2

namespace Art.Q3
open Art.Params (Val Err Store)
open Art.Q

/-- `x.update(pairs)` through an alias `x` of the dict object `self.params` -/
def paramsUpdate (kvs : List (String × Val)) : M Unit := fun w =>
  match dget w.self "params" with
  | some (.dict d) => (.ok (), { w with self := dset w.self "params" (.dict (Q2.dupdate d kvs)) })
  | some (.val _) => (.error .type, w)
  | none => (.error .attr, w)

/-! ### the wide world -/

/-- what an instance `__dict__` entry holds -/
inductive Slot where
  /-- the `params` dict -/
  | dict (d : Store)
  /-- a value of the protocol's universe -/
  | val (v : Val)
  /-- a Python list of objects (`self.modules`) -/
  | vals (l : List Val)
  /-- a Python list of `(start, end)` tuples -/
  | ranges (l : List (Rat × Rat))
  /-- a Python number computed by the method (`len(…)`, `sum(…)`; int and float are not distinguished) -/
  | num (q : Rat)
  /-- a reference to an object constructed by the method: its index in `World.heap` -/
  | ref (id : Nat)
  deriving DecidableEq, Repr

structure World where
  /-- the instance `__dict__` -/
  self : List (String × Slot)
  /-- `set_params` calls made to nested estimators: (module id, keyword arguments) -/
  calls : List (Nat × Store)
  /-- the instance `__dict__`s of the objects constructed so far (`C(…)` expressions), in allocation order -/
  heap : List (List (String × Slot))
  deriving DecidableEq, Repr

abbrev M := Py World

/-- `self.__dict__` -/
def selfDict : M (List (String × Slot)) := fun w => (.ok w.self, w)

/-- the load `self.params` (as `Q.selfParams`) -/
def selfParams : M Store := fun w =>
  (match dget w.self "params" with
    | some (.dict d) => .ok d
    | some _ => .error .type
    | none => .error .attr, w)

/-- `key in x` for what a `__dict__` entry holds (as `Q.slotHas`; a list has no string member, a number or a
reference is not a container) -/
def slotHas (s : Slot) (k : String) : Except Err Bool :=
  match s with
  | .dict d => .ok (dhas d k)
  | .val (.arr _) => .ok false
  | .val (.lst _) => .ok false
  | .vals _ => .ok false
  | .ranges _ => .ok false
  | _ => .error .type

/-- a `__dict__`-level value used as a parameter value (only a `Val` is inside the value universe) -/
def asVal : Slot → Except Err Val
  | .val v => .ok v
  | _ => .error .type

/-- `self.params[k] = v` (as `Q.paramsSetitem`) -/
def paramsSetitem (k : String) (v : Val) : M Unit := fun w =>
  match dget w.self "params" with
  | some (.dict d) => (.ok (), { w with self := dset w.self "params" (.dict (dset d k v)) })
  | some _ => (.error .type, w)
  | none => (.error .attr, w)

/-- `object.__setattr__(self, k, v)` -/
def objectSetattr (k : String) (v : Slot) : M Unit := fun w =>
  (.ok (), { w with self := dset w.self k v })

/-- `getattr(obj, k)`: the instance `__dict__` first, then the class's `__getattr__` -/
def pyGetattr (getattr__ : String → M Val) (k : String) : M Slot := fun w =>
  match dget w.self k with
  | some s => (.ok s, w)
  | none =>
    match getattr__ k w with
    | (.ok v, w') => (.ok (.val v), w')
    | (.error e, w') => (.error e, w')

/-- the load `self.a` on a class without `__getattr__`, of an attribute holding a value -/
def selfAttr (a : String) : M Val := fun w =>
  (match dget w.self a with
    | some (.val v) => .ok v
    | some _ => .error .type
    | none => .error .attr, w)

/-- the load `self.a` on a class with `__getattr__`, of an attribute holding a value -/
def selfAttrB (getattr__ : String → M Val) (a : String) : M Val := fun w =>
  match pyGetattr getattr__ a w with
  | (.ok s, w') => (asVal s, w')
  | (.error e, w') => (.error e, w')

/-- the load `self.a` of an attribute holding a list of objects -/
def selfVals (getattr__ : String → M Val) (a : String) : M (List Val) := fun w =>
  match pyGetattr getattr__ a w with
  | (.ok (.vals l), w') => (.ok l, w')
  | (.ok _, w') => (.error .type, w')
  | (.error e, w') => (.error e, w')

/-- the load `self.a` of an attribute holding a list of pairs -/
def selfRanges (getattr__ : String → M Val) (a : String) : M (List (Rat × Rat)) := fun w =>
  match pyGetattr getattr__ a w with
  | (.ok (.ranges l), w') => (.ok l, w')
  | (.ok _, w') => (.error .type, w')
  | (.error e, w') => (.error e, w')

/-- the members of nested estimators that the translated methods use (as `Q2.Ext`, on the wide world) -/
structure Ext where
  /-- `v.get_params()` -/
  get_params : Val → M Store

/-- `len(v)`: a list or an array has a length, anything else `TypeError` -/
def lenVal : Val → Except Err Nat
  | .lst l => .ok l.length
  | .arr l => .ok l.length
  | _ => .error .type

/-- `for x in v` / `[… for x in v]`: a list or an array of numbers is iterated, anything else `TypeError` -/
def iterNums : Val → Except Err (List Rat)
  | .lst l => .ok l
  | .arr l => .ok l
  | _ => .error .type

/-- `isinstance(v, list)` -/
def isList : Val → Bool
  | .lst _ => true
  | _ => false

/-- Python's built-in `sum(v)`: left-to-right additions, which ROUND on floats — not translated, a parameter of the
generated definitions (on a list of ints it is the exact sum: a hypothesis where a theorem needs it) -/
structure Num where
  sum : Val → Except Err Rat

/-- `C(…)`: run the constructor `init` on a fresh instance; the new object's `__dict__` goes to the heap and the
reference is the value.  When the constructor raises, the exception propagates (no object) -/
def newObject (init : M Unit) : M Slot := fun w =>
  match init ⟨[], w.calls, w.heap⟩ with
  | (.ok (), w') => (.ok (.ref w'.heap.length), ⟨w.self, w'.calls, w'.heap ++ [w'.self]⟩)
  | (.error e, w') => (.error e, ⟨w.self, w'.calls, w'.heap⟩)

end Art.Q3
