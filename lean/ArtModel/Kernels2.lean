/-
ArtModel.Kernels2 — the published activation / match / learning rules of the two elementary modules
that `ArtModel/Kernels.lean` does not cover: Bayesian ART (Vigdor & Lerner 2007) and Quadratic Neuron
ART (Su & Liu 2001, 2005).  One definition per equation, generic over the number type, core Lean only.

`det`, `inv` and `π` are supplied per number type (class `LinAlg`), like `sqrt` / `exp` (class `Transc`).
-/
import ArtModel.Kernels
import ArtModel.ImpKernels2

namespace Art

/-- `np.linalg.det`, `np.linalg.inv`, `np.pi`, supplied per number type -/
class LinAlg (α : Type) where
  det : List (List α) → α
  inv : List (List α) → List (List α)
  pi : α

section
variable {α : Type} [Add α] [Sub α] [Mul α] [Div α] [Neg α] [Zero α] [One α] [Transc α] [LinAlg α]

/-- `a ^ n` for a natural exponent -/
def powNat (a : α) : Nat → α
  | 0 => 1
  | n + 1 => powNat a n * a

/-! ### Bayesian ART.  A weight is `mean ++ flatten(cov) ++ [n]` (`dim + dim² + 1` numbers). -/

def bayesMean (dim : Nat) (w : List α) : List α := w.take dim
def bayesCov (dim : Nat) (w : List α) : List (List α) := Mat.reshape dim dim (w.drop dim).dropLast
def bayesCount (w : List α) : α := w.getLastD 0

/-- the Gaussian density `p(x | c) = exp(−½ (μ−x)ᵀ Σ⁻¹ (μ−x)) / sqrt((2π)^d · det Σ)` -/
def bayesLik (dim : Nat) (x w : List α) : α :=
  let d := vsub (bayesMean dim w) x
  Transc.exp (-(1 / (1 + 1)) * dot d (Mat.mulVec (LinAlg.inv (bayesCov dim w)) d))
    / Transc.sqrt (powNat ((1 + 1) * LinAlg.pi) dim * LinAlg.det (bayesCov dim w))

/-- the prior `P(c) = n_c / Σ_k n_k` -/
def bayesPrior (allW : List (List α)) (w : List α) : α := bayesCount w / vsum (allW.map bayesCount)

/-- `T = p(x | c) · P(c)` -/
def bayesChoice (dim : Nat) (allW : List (List α)) (x w : List α) : α :=
  bayesLik dim x w * bayesPrior allW w

/-- `Σ' = n/(n+1) · Σ + (x − μ')(x − μ')ᵀ / (n+1)` -/
def bayesCovStep (n : α) (cov : List (List α)) (d : List α) : List (List α) :=
  Mat.add (Mat.smul (n / (n + 1)) cov) (Mat.smul (1 / (n + 1)) (Mat.outer d d))

/-- running mean `μ'` (`runningMean`), covariance `Σ'` around the *new* mean, count `n + 1` -/
def bayesUpdate (dim : Nat) (x w : List α) : List α :=
  let n := bayesCount w
  let mean' := runningMean n (bayesMean dim w) x
  mean' ++ (bayesCovStep n (bayesCov dim w) (vsub x mean')).flatten ++ [n + 1]

/-- the match value is the hyper-volume `det Σ'` of the category *after* it would have learned the
sample (compared with the vigilance the other way round: `rho ≥ M`) -/
def bayesMatch (dim : Nat) (x w : List α) : α := LinAlg.det (bayesCov dim (bayesUpdate dim x w))

def bayesNew (covInit : List (List α)) (x : List α) : List α := x ++ covInit.flatten ++ [1]

/-! ### Quadratic Neuron ART.  A weight is `flatten(W) ++ b ++ [s]` (`dim² + dim + 1` numbers). -/

def qnW (dim : Nat) (w : List α) : List (List α) := Mat.reshape dim dim (w.take (dim * dim))
def qnB (dim : Nat) (w : List α) : List α := (w.drop (dim * dim)).dropLast
def qnS (w : List α) : α := w.getLastD 0

/-- `z = W x` -/
def qnZ (dim : Nat) (x w : List α) : List α := Mat.mulVec (qnW dim w) x

/-- `T = exp(−s² ‖W x − b‖²)`; it is also the match value -/
def qnAct (dim : Nat) (x w : List α) : α :=
  Transc.exp (-(qnS w * qnS w) * l2sq (vsub (qnZ dim x w) (qnB dim w)))

/-- gradient ascent on `T`: `∂T/∂b = 2 s² T (z − b)` -/
def qnStepB (lrB s T : α) (b e : List α) : List α := vadd b (smul lrB (smul ((1 + 1) * s * s * T) e))

/-- `∂T/∂W = −2 s² T (z − b) xᵀ` -/
def qnStepW (lrW s T : α) (W : List (List α)) (e x : List α) : List (List α) :=
  Mat.add W (Mat.smul lrW (Mat.smul (-((1 + 1) * s * s * T)) (Mat.outer e x)))

/-- `∂T/∂s = −2 s T ‖z − b‖²` -/
def qnStepS (lrS s T nrm : α) : α := s + lrS * (-((1 + 1) * s * T * nrm))

def qnUpdate (lrB lrW lrS : α) (dim : Nat) (x w : List α) : List α :=
  let e := vsub (qnZ dim x w) (qnB dim w)
  let T := qnAct dim x w
  (qnStepW lrW (qnS w) T (qnW dim w) e x).flatten ++ qnStepB lrB (qnS w) T (qnB dim w) e
    ++ [qnStepS lrS (qnS w) T (l2sq e)]

/-- a new category: `W = I`, `b = x`, `s = s_init` -/
def qnNew (sInit : α) (dim : Nat) (x : List α) : List α :=
  (Mat.identity dim).flatten ++ x ++ [sInit]

end

end Art
