/-
ArtModel.ImpWhole — what the whole-call translator (`harness/artv/wtrans.py`) adds to the target language of
`ArtModel/Imp.lean`.  Core Lean only.  Nothing here mentions the model (`ArtModel/Topo.lean`, `ArtModel/DualVig.lean`);
`ArtGenProofs/WholeSpec.lean` relates the two.

`BaseART.fit / partial_fit / predict`, executed on a `TopoART` instance, reach methods that two earlier slices
translated over two different *views* of the same Python object:
  * `TopoART.step_fit` (ttrans2, `ArtGen/TopoStep.lean`) sees `Art.ImpTopoStep.Self` (… `params`, `bparams`),
  * `TopoART.post_step_fit / prune / step_pred` and the inherited hooks (ttrans, `ArtGen/Topo.lean`) see
    `Art.ImpTopo.Self` (… `params`, `phi`, `tau`).
`TopoSelf` is the record of all attributes any of them (or the inherited loop bodies) reads or writes; a call of a
method generated over a view passes the projection (`toStep` / `toTopo`) and writes every attribute of the returned
view back (`ofStep` / `ofTopo`): the attributes outside the view are, by construction of the callee, untouched.

A `DualVigilanceART` instance needs nothing new: `Art.Imp.DualSelf` already carries the base module as an
`Art.Imp.Self` (with its `labels_` and the `hasattr(…, "W")` flag).
-/
import ArtModel.Imp
import ArtModel.ImpTopo
import ArtModel.ImpTopoStep

namespace Art.ImpWhole

/-- the attributes of a `TopoART` instance that the inherited training / prediction calls and the methods they reach
read or write -/
structure TopoSelf (Wt P : Type) where
  /-- `W` (the property that aliases `base_module.W`) -/
  W : List Wt
  /-- `weight_sample_counter_` (the wrapper's own list) -/
  cnt : List Nat
  /-- `adjacency` -/
  adj : List (List Nat)
  /-- `_permanent_mask` -/
  perm : List Bool
  /-- `labels_` (the wrapper's own array; `-1` is a legal value) -/
  labels : List Int
  /-- `sample_counter_` -/
  n : Nat
  /-- the wrapper's own `params` dict -/
  params : P
  /-- `base_module.params` -/
  bparams : P
  /-- `params["phi"]`, read through `BaseART.__getattr__` -/
  phi : Nat
  /-- `params["tau"]` -/
  tau : Nat
  /-- `hasattr(self, "W")`, i.e. `hasattr(self.base_module, "W")` -/
  hasW : Bool := true

/-- the instance as `TopoART.step_fit` sees it -/
def TopoSelf.toStep {Wt P : Type} (s : TopoSelf Wt P) : Art.ImpTopoStep.Self Wt P :=
  { W := s.W, cnt := s.cnt, adj := s.adj, perm := s.perm, labels := s.labels, n := s.n, params := s.params,
    bparams := s.bparams }

/-- write back every attribute of the view `TopoART.step_fit` returns -/
def TopoSelf.ofStep {Wt P : Type} (s : TopoSelf Wt P) (r : Art.ImpTopoStep.Self Wt P) : TopoSelf Wt P :=
  { s with W := r.W, cnt := r.cnt, adj := r.adj, perm := r.perm, labels := r.labels, n := r.n, params := r.params,
           bparams := r.bparams }

/-- the instance as `TopoART.prune / post_step_fit / step_pred` and the inherited hooks see it -/
def TopoSelf.toTopo {Wt P : Type} (s : TopoSelf Wt P) : Art.ImpTopo.Self Wt P :=
  { W := s.W, cnt := s.cnt, adj := s.adj, perm := s.perm, labels := s.labels, n := s.n, params := s.params,
    phi := s.phi, tau := s.tau }

/-- write back every attribute of the view those methods return -/
def TopoSelf.ofTopo {Wt P : Type} (s : TopoSelf Wt P) (r : Art.ImpTopo.Self Wt P) : TopoSelf Wt P :=
  { s with W := r.W, cnt := r.cnt, adj := r.adj, perm := r.perm, labels := r.labels, n := r.n, params := r.params,
           phi := r.phi, tau := r.tau }

end Art.ImpWhole
