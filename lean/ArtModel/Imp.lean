/-
ArtModel.Imp — the small target language of the control-flow translator
(`harness/artv/ctrans.py`).  Core Lean only.

A Python block is translated to an expression of type `Flow R S`:
`ret r` = a `return r` was executed, `next s` = the block fell through with
the (re-bound) mutable variables `s`.  `while` becomes `whileFuel` (fuel = an
explicit bound on the number of iterations, proved sufficient where used),
`for x in xs` becomes `forEach`.
-/
import ArtModel.Basic

namespace Art.Imp

inductive Flow (R S : Type) where
  | ret : R → Flow R S
  | next : S → Flow R S

/-- `while cond(s): s = body(s)` with early `return`; stops (falls through) when the fuel is used up. -/
def whileFuel {R S : Type} (cond : S → Bool) (body : S → Flow R S) : Nat → S → Flow R S
  | 0, s => .next s
  | n + 1, s =>
    if cond s then
      match body s with
      | .ret r => .ret r
      | .next s' => whileFuel cond body n s'
    else .next s

/-- `for a in xs: s = body(s, a)` with early `return`. -/
def forEach {R S A : Type} (body : S → A → Flow R S) : List A → S → Flow R S
  | [], s => .next s
  | a :: as, s =>
    match body s a with
    | .ret r => .ret r
    | .next s' => forEach body as s'

/-- Python `v[a:b]` for non-negative bounds (clips at the end of the vector) -/
def pySlice {β : Type} (v : List β) (a b : Nat) : List β := (v.take b).drop a

/-- `a * g` where `a` may be NaN (`none`) -/
def optMul {α : Type} [Mul α] (a : Option α) (g : α) : Option α := a.map (· * g)

/-- Python `sum([...])` of floats that may be NaN: left to right, starting from `0` -/
def optSum {α : Type} [Add α] [Zero α] (l : List (Option α)) : Option α :=
  l.foldl (fun acc t => match acc, t with
    | some a, some b => some (a + b)
    | _, _ => none) (some 0)

/-- the externals of `BaseART.step_fit`: the abstract kernel methods a subclass supplies, and the two
methods of BaseART that are translated on their own (`_match_tracking`, `_match_tracking_operator`).
`C` is the type of the `cache` dictionaries, `P` of the `params` dictionary. -/
structure Ext (X Wt P C α : Type) where
  /-- `category_choice(i, w, params) -> (T, cache)`; `none` = NaN.  The first argument is `self.W`, which the
  method may read (the Gaussian / Bayesian prior sums the counts stored in all categories) -/
  category_choice : List Wt → X → Wt → P → Option α × C
  /-- `match_criterion_bin(i, w, params, cache, op) -> (bool, cache)`; `op` is passed as "strict?" -/
  match_criterion_bin : X → Wt → P → C → Bool → Bool × C
  /-- `update(i, w, params, cache) -> w'` -/
  update : X → Wt → P → C → Wt
  /-- `new_weight(i, params) -> w` -/
  new_weight : X → P → Wt
  /-- `_match_tracking(cache, epsilon, params, method) -> keep_searching`, writing `self.params` -/
  match_tracking : C → α → P → MT → Bool × P
  /-- `_match_tracking_operator(method)`: `true` = `operator.gt` -/
  operator : MT → Bool
  /-- the Python value `None` where a cache is expected -/
  noneC : C

/-- the attributes of a `BaseART` instance that the translated methods read or write -/
structure Self (Wt P : Type) where
  W : List Wt
  /-- `weight_sample_counter_` -/
  cnt : List Nat
  /-- `sample_counter_` -/
  n : Nat
  params : P
  /-- `labels_` -/
  labels : List Nat := []
  /-- `hasattr(self, "W")`: the constructor does not create `W`, the first training call does -/
  hasW : Bool := true

/-- the attributes of a `SimpleARTMAP` that its translated methods read or write: the nested A-side estimator and
the dict `map` (A-category -> class; `none` = key absent) -/
structure SMapSelf (Wt P : Type) where
  a : Self Wt P
  map : List (Option Nat)
  /-- `labels_`: the class labels seen so far -/
  labelsB : List Nat := []
  /-- `hasattr(self, "labels_")` -/
  hasLabels : Bool := true

end Art.Imp
