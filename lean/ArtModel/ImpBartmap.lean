/-
ArtModel.ImpBartmap — target-language helpers of the BARTMAP translator (`harness/artv/btrans.py`).  Core Lean only.

A 1-d array is a `List β`, a 2-d array a `List (List β)` (list of rows; a real ndarray is rectangular).  The
generated definitions run in the `Option` monad (`none` = the Python code raises).  Every helper has the numpy
meaning; where numpy raises (a boolean mask of the wrong length, `np.vstack` of nothing or of arrays of different
widths, a missing dictionary key) the helper returns `none`.
Nothing here mentions the BARTMAP model (`ArtModel/Bartmap.lean`); `ArtGenProofs/BartmapSpec.lean` relates the two.
-/
namespace Art.ImpBartmap

/-- `labels == label` (1-d integer array against an integer): the boolean mask -/
def npEqMask (v : List Nat) (x : Nat) : List Bool := v.map (· == x)

/-- the entries of `a` at which the mask is `True` (both lists of the same length) -/
def maskSel {β : Type} (a : List β) (mask : List Bool) : List β :=
  (a.zip mask).filterMap (fun p => if p.2 then some p.1 else none)

/-- `a[mask]` on a 1-d array, `A[mask, :]` on a 2-d one: boolean-mask selection along the first axis.  numpy raises
`IndexError` when the mask is not as long as that axis. -/
def npMask {β : Type} (a : List β) (mask : List Bool) : Option (List β) :=
  if a.length = mask.length then some (maskSel a mask) else none

/-- `np.vstack([v0, v1, …])` of 1-d arrays: at least one array, all of the same length -/
def npVstack {β : Type} : List (List β) → Option (List (List β))
  | [] => none
  | r :: rs => if rs.all (fun r' => r'.length == r.length) then some (r :: rs) else none

/-- `X.T` of a 2-d array given as its list of rows (the column count is read off the first row: an array without
rows transposes to an array without rows) -/
def npT {β : Type} (A : List (List β)) : List (List β) :=
  (List.range ((A.head?.map List.length).getD 0)).map (fun j => A.filterMap (·[j]?))

/-- `if c: raise …` -/
def pyRaiseIf (c : Bool) : Option Unit := if c then none else some ()

/-- `d[key]` of a dict display `{k0: v0, …}` with distinct keys (`KeyError` = `none`) -/
def dictGet {κ ν : Type} [BEq κ] (d : List (κ × ν)) (key : κ) : Option ν := d.lookup key

/-- `for a in it: body` where the body may `return`: `some (some r)` = an iteration returned `r` (the later ones
are not run), `some none` = the loop fell through, `none` = an iteration raised -/
def forRet {A R : Type} : List A → (A → Option (Option R)) → Option (Option R)
  | [], _ => some none
  | a :: as, body =>
    match body a with
    | none => none
    | some (some r) => some (some r)
    | some none => forRet as body

end Art.ImpBartmap
