/-
ArtModel.ImpGuards — the target language of the validation-gate translator
(`harness/artv/p2trans.py`).  Core Lean only; nothing in this file knows about
artlib.  The pure numpy helpers (`Np.shape`, `Np.ew2`, `Np.all2`, `Np.cols`) are
those of `ArtModel/ImpPrep.lean`; this file adds

* `Gd.Err`  — the exceptions a gate can raise (ImpPrep's four plus `IndexError`);
* `Gd.Py σ β = σ → Except Err β × σ` — a method run on the attribute record `σ`
  of `self`: the result *and the attributes as they are when the call ends,
  normally or by raising*.  Python rolls nothing back, so an attribute stored
  before a failing `assert` stays visible here, and "rejected before anything
  changed" is a statement about the generated term;
* `Gd.Obj α μ` — an estimator *held* by `self` (`self.module_a`,
  `self.base_module`, `self.modules[k]`): its own state `st : μ` and the two
  gate methods of *its* class.  What such a method checks and stores is the held
  estimator's contract — a field of the record, a parameter of every generated
  definition, never translated here;
* `Gd.callObj` / `Gd.callItem` — a method call on a held estimator: the method
  runs on the held estimator's state, the new state is written back into the
  attribute of `self` it came from (Python mutates the object in place), and an
  exception propagates *with* whatever the callee had stored by then;
* `Gd.forRange` — `for k in range(n): …`.
-/
import ArtModel.ImpPrep

namespace Art.Gd

/-- the Python exceptions a translated gate can raise -/
inductive Err where
  /-- `AssertionError` -/
  | assertion
  /-- `ValueError` (sklearn's `check_X_y`) -/
  | value
  /-- `TypeError` -/
  | type
  /-- `AttributeError`: an attribute that was never assigned is read -/
  | attribute
  /-- `IndexError`: a list is indexed past its end -/
  | index
  deriving DecidableEq, Repr

/-- a method of `self` (attribute record `σ`) returning `β` or raising; the second component is the attribute
record at the end of the call, also when it raises -/
def Py (σ β : Type) : Type := σ → Except Err β × σ

namespace Py
variable {σ β γ : Type}

protected def pure (b : β) : Py σ β := fun s => (.ok b, s)

protected def bind (m : Py σ β) (f : β → Py σ γ) : Py σ γ := fun s =>
  match m s with
  | (.ok b, s') => f b s'
  | (.error e, s') => (.error e, s')

instance : Monad (Py σ) where
  pure := Py.pure
  bind := Py.bind

/-- read `self` -/
def get : Py σ σ := fun s => (.ok s, s)

/-- `self.a = v` -/
def modify (f : σ → σ) : Py σ Unit := fun s => (.ok (), f s)

/-- `assert c` -/
def assert (c : Bool) : Py σ Unit := fun s => (if c then .ok () else .error .assertion, s)

/-- a call of a function that writes no attribute of `self` -/
def lift (e : Except Err β) : Py σ β := fun s => (e, s)

/-- read an attribute that may never have been assigned (`AttributeError`) -/
def attr (f : σ → Option β) : Py σ β := fun s =>
  (match f s with
    | some b => .ok b
    | none => .error .attribute, s)

/-- `l[k]` of a Python list (`IndexError` past the end; indices are non-negative here) -/
def item (l : List β) (k : Nat) : Py σ β := fun s =>
  (match l[k]? with
    | some b => .ok b
    | none => .error .index, s)

end Py

/-- an estimator held by `self`: its state and the gate methods of its class -/
structure Obj (α μ : Type) where
  st : μ
  validate_data : List (List α) → Py μ Unit
  check_dimensions : List (List α) → Py μ Unit

/-- the held estimator after one of its methods ran and left the state `st'` -/
def Obj.withSt {α μ : Type} (o : Obj α μ) (st' : μ) : Obj α μ := { o with st := st' }

/-- `self.<a>.m(arg)`: `get`/`set` name the attribute `a`, `meth` the method `m` -/
def callObj {σ α μ A β : Type} (get : σ → Obj α μ) (set : σ → Obj α μ → σ) (meth : Obj α μ → A → Py μ β) (arg : A) :
    Py σ β := fun s =>
  let o := get s
  let r := meth o arg o.st
  (r.1, set s (o.withSt r.2))

/-- `self.<a>[k].m(arg)`: the list attribute `a` is indexed first (`IndexError`), then the method runs -/
def callItem {σ α μ A β : Type} (get : σ → List (Obj α μ)) (set : σ → List (Obj α μ) → σ) (k : Nat)
    (meth : Obj α μ → A → Py μ β) (arg : A) : Py σ β := fun s =>
  match (get s)[k]? with
  | none => (.error .index, s)
  | some o =>
    let r := meth o arg o.st
    (r.1, set s ((get s).set k (o.withSt r.2)))

/-- the loop body run for every element of the list in turn; an exception ends the loop -/
def forList {σ : Type} (f : Nat → Py σ Unit) : List Nat → Py σ Unit
  | [] => Py.pure ()
  | k :: ks => Py.bind (f k) (fun _ => forList f ks)

/-- `for k in range(n): …` (`range(n)` is evaluated once, before the first iteration) -/
def forRange {σ : Type} (n : Nat) (f : Nat → Py σ Unit) : Py σ Unit := forList f (List.range n)

end Art.Gd
