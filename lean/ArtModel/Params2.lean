/-
ArtModel.Params2 — reference semantics of the estimator protocol of the COMPOUND estimators
(property C19), on top of `ArtModel/Params.lean` (stores, `validate`, `setLoop`, `Est`).  Core Lean only.

An estimator is a tree: a node has a class name, its own parameter store and named children
(`Tree`).  A wrapper sees a nested estimator as an object reference (`Val.mod id`) and through three
members only: `.params`, `.get_params()`, `.set_params(**sub)`; what the wrapper does to it is the
list of delegated `set_params` calls (`delegated`), which `replay` runs on the children, in order,
stopping at the first one that raises — Python's nested method call.

What is here
* `prefixed`, `getParamsNode` — sklearn's `name__sub` flattening as the wrappers' `get_params` do it
  (`out = {own…, name: module…}`, then `out.update(name__k ↦ v …)` per child when `deep`);
* `mapSetParams` — `BaseARTMAP.set_params` / `DeepARTMAP.set_params`: routing by `partition("__")`,
  unknown names rejected; the code assigns a plain name AS IT MEETS IT (no validation: the ARTMAP
  family has none), nested groups are routed at the end;
* `dynSetParams` — `BaseART.set_params` run by a subclass that overrides `get_params`
  (DualVigilanceART): collect, reject unknown names, validate the merged dict, assign, route;
* `setParamsV` — `Art.Params.setParams` with the validation function abstract (TopoART, CVIART:
  their `validate_params` is no list of `Check`s); `setParams checks = setParamsV (validate checks)`;
* `topoValidate`, `dualValidate`, `cviValidate` — the three `validate_params`;
* `construct…` — what the constructors leave; the notions the property names:
  `Tree`, `getParamsDeep`, `replay`, `Tree2.setParams` ("set_params on the whole tree"),
  `NoOp`, and `constructed with these values` = the result of the constructor function.
-/
import ArtModel.Params

namespace Art.Params2
open Art.Params

/-! ### dict helpers -/

/-- `d.update(kvs)` -/
def upsertAll (p : Store) (kvs : List (String × Val)) : Store :=
  kvs.foldl (fun p kv => upsert p kv.1 kv.2) p

/-- the keys `name__k` under which a wrapper exposes the parameters of the child `name` -/
def prefixed (name : String) (sub : Store) : Store :=
  sub.map (fun (k, v) => ((name ++ "__") ++ k, v))

section Generic
variable {σ : Type}

/-- `d[k] = v` on a dict with values of any type -/
def gupsert : List (String × σ) → String → σ → List (String × σ)
  | [], l, v => [(l, v)]
  | (k, v0) :: r, l, v => if k = l then (k, v) :: r else (k, v0) :: gupsert r l v

def gget? : List (String × σ) → String → Option σ
  | [], _ => none
  | (k, v) :: r, l => if k = l then some v else gget? r l

end Generic

/-- `nested_params[g][k] = v` on a `defaultdict(dict)` -/
def ginsert : List (String × Store) → String → String → Val → List (String × Store)
  | [], g, k, v => [(g, [(k, v)])]
  | (g', s) :: r, g, k, v => if g' = g then (g', upsert s k v) :: r else (g', s) :: ginsert r g k v

/-! ### `get_params` of a wrapper -/

/-- a nested estimator as its wrapper sees it: attribute name, the object, what its `get_params()` returns -/
structure KidView where
  name : String
  obj : Val
  deep : Store
  deriving DecidableEq, Repr

/-- `out = {own…, name: module …}`; when `deep`: `out.update(name__k ↦ v)` for each child in turn -/
def getParamsNode (own : Store) (kids : List KidView) (deep : Bool) : Store :=
  let base := own ++ kids.map (fun k => (k.name, k.obj))
  if deep then kids.foldl (fun out k => upsertAll out (prefixed k.name k.deep)) base else base

/-! ### `set_params` -/

/-- `for key, sub_params in nested_params.items(): valid_params[key].set_params(**sub_params)`: the delegated
calls, and the exception at the first group whose value is no estimator -/
def route (valid : Store) : List (String × Store) → List (Nat × Store) × Option Err
  | [] => ([], none)
  | (g, sub) :: r =>
    match get? valid g with
    | some (.mod id) => let x := route valid r; ((id, sub) :: x.1, x.2)
    | some _ => ([], some .attr)
    | none => ([], some .key)

/-- result of a wrapper's `set_params`: its instance `__dict__` after the call (also when it raised), the
exception, the calls delegated to nested estimators -/
structure Res (σ : Type) where
  dict : List (String × σ)
  err : Option Err
  delegated : List (Nat × Store)

section Map
variable {σ : Type} (inj : Val → σ)

/-- state of the loop of `BaseARTMAP.set_params`: `valid_params`, the instance `__dict__`, `nested_params` -/
structure MapSt (σ : Type) where
  valid : Store
  dict : List (String × σ)
  nested : List (String × Store)

/-- the loop: an unknown name stops it with `ValueError` — the plain names met before STAY assigned -/
def mapLoop : MapSt σ → List (String × Val) → MapSt σ × Option Err
  | st, [] => (st, none)
  | st, (key, v) :: rest =>
    let pk := partitionKey key
    if (get? st.valid pk.1).isSome then
      match pk.2 with
      | some sub => mapLoop { st with nested := ginsert st.nested pk.1 sub v } rest
      | none => mapLoop { st with dict := gupsert st.dict pk.1 (inj v), valid := upsert st.valid pk.1 v } rest
    else (st, some .value)

/-- `BaseARTMAP.set_params(**kvs)` (and `DeepARTMAP.set_params`, the same text) on an estimator whose
`get_params(deep=True)` is `gp` and whose `__dict__` is `dict` -/
def mapSetParams (gp : Store) (dict : List (String × σ)) (kvs : List (String × Val)) : Res σ :=
  if kvs.isEmpty then ⟨dict, none, []⟩
  else
    match mapLoop inj ⟨gp, dict, []⟩ kvs with
    | (st, some e) => ⟨st.dict, some e, []⟩
    | (st, none) => let r := route st.valid st.nested; ⟨st.dict, r.2, r.1⟩

end Map

/-- state of the first loop of `BaseART.set_params`: `local_params`, `nested_params`, `plain_params` -/
structure DynSt where
  loc : Store
  nested : List (String × Store)
  plain : Store

/-- the collecting loop (`valid` = `valid_params`, not touched here) -/
def dynLoop (valid : Store) : DynSt → List (String × Val) → DynSt × Option Err
  | st, [] => (st, none)
  | st, (key, v) :: rest =>
    let pk := partitionKey key
    if (get? valid pk.1).isSome then
      match pk.2 with
      | some sub => dynLoop valid { st with nested := ginsert st.nested pk.1 sub v } rest
      | none => dynLoop valid { st with plain := upsert st.plain pk.1 v, loc := upsert st.loc pk.1 v } rest
    else (st, some .value)

/-! ### `BaseART.set_params` with an abstract validation function -/

/-- `Art.Params.setParams` with `validate_params` any function of the merged dict -/
def setParamsV (validate : Store → Option Err) (e : Est) (kvs : List (String × Val)) : SetRes :=
  if kvs.isEmpty then ⟨e, none, []⟩
  else
    match setLoop e.params ⟨e.params, [], []⟩ kvs with
    | (_, some err) => ⟨e, some err, []⟩
    | (st, none) =>
      match validate st.loc with
      | some err => ⟨e, some err, []⟩
      | none =>
        let e' := assignAll e st.plain
        let r := runNested e'.params st.nested
        ⟨e', r.2, r.1⟩

theorem setParams_eq_setParamsV (checks : List Check) (e : Est) (kvs : List (String × Val)) :
    setParams checks e kvs = setParamsV (validate checks) e kvs := rfl

/-! ### the three `validate_params` of the wrappers -/

/-- how a value enters `a >= b`: a number, an array (element-wise), or `TypeError` -/
inductive Operand where
  | num (q : Rat)
  | arr (l : List Rat)
  | bad

def operand : Val → Operand
  | .flt q => .num q
  | .int i => .num (i : Rat)
  | .arr l => .arr l
  | _ => .bad

/-- `bool(array)` -/
def arrTruth : List Bool → Except Err Bool
  | [x] => .ok x
  | _ => .error .value

/-- `bool(a >= b)` (`ge`) / `bool(a <= b)` for two parameter values -/
def cmpTruth (ge : Bool) (a b : Val) : Except Err Bool :=
  let rel : Rat → Rat → Bool := fun x y => if ge then decide (y ≤ x) else decide (x ≤ y)
  match operand a, operand b with
  | .num x, .num y => .ok (rel x y)
  | .arr l, .num y => arrTruth (l.map (fun x => rel x y))
  | .num x, .arr l => arrTruth (l.map (fun y => rel x y))
  | .arr l, .arr m =>
    if l.length = m.length then arrTruth (List.zipWith rel l m)
    else match l, m with
      | [x], _ => arrTruth (m.map (fun y => rel x y))
      | _, [y] => arrTruth (l.map (fun x => rel x y))
      | _, _ => .error .value
  | _, _ => .error .type

/-- `assert params[k1] >= params[k2]` / `<=` -/
def checkCmp (p : Store) (ge : Bool) (k1 k2 : String) : Option Err :=
  match get? p k1 with
  | none => some .key
  | some a =>
    match get? p k2 with
    | none => some .key
    | some b =>
      match cmpTruth ge a b with
      | .error e => some e
      | .ok true => none
      | .ok false => some .assert

/-- `assert isinstance(params[k], int)` -/
def checkInt (p : Store) (k : String) : Option Err :=
  match get? p k with
  | none => some .key
  | some (.int _) => none
  | some _ => some .assert

/-- the first failure decides -/
def firstErr : List (Option Err) → Option Err
  | [] => none
  | some e :: _ => some e
  | none :: r => firstErr r

/-- `TopoART.validate_params` -/
def topoValidate (p : Store) : Option Err :=
  firstErr [validate [.has "beta", .has "beta_lower", .has "tau", .has "phi"] p,
    checkCmp p true "beta" "beta_lower", checkCmp p false "phi" "tau",
    validate [.isFloat "beta", .isFloat "beta_lower"] p, checkInt p "tau", checkInt p "phi"]

/-- `DualVigilanceART.validate_params` -/
def dualChecks : List Check := [.has "rho_lower_bound", .range "rho_lower_bound" ge0 none, .isFloat "rho_lower_bound"]

/-- `assert params["validity"] in [1, 2, 3]` once `validity` is known to be an int -/
def checkValidity (p : Store) : Option Err :=
  match get? p "validity" with
  | none => some .key
  | some (.int i) => if i = 1 ∨ i = 2 ∨ i = 3 then none else some .assert
  | some _ => some .assert

/-- `CVIART.validate_params`: the base module's `validate_params` (`base`) on the whole flat dict first -/
def cviValidate (base : Store → Option Err) (p : Store) : Option Err :=
  firstErr [base p, validate [.has "validity"] p, checkInt p "validity", checkValidity p]

/-! ### constructors -/

/-- `TopoART(base_module, beta_lower, tau, phi).params`: the FLAT COPY `dict(base_module.params, **{…})` -/
def topoParams (base : Store) (beta_lower tau phi : Val) : Store :=
  upsertAll base [("beta_lower", beta_lower), ("tau", tau), ("phi", phi)]

/-- `CVIART(base_module, validity).params`: the flat copy again -/
def cviParams (base : Store) (validity : Val) : Store := upsertAll base [("validity", validity)]

/-- the `__dict__` (without `params`) of a TopoART after `__init__` -/
def topoAttrs (base_module : Val) : Store :=
  initAttrs ++ [("base_module", base_module), ("adjacency", .arr [0]), ("_permanent_mask", .arr [0])]

/-- `TopoART(base_module, beta_lower, tau, phi)` where `base` = `base_module.params` -/
def constructTopo (base_module : Val) (base : Store) (beta_lower tau phi : Val) : Except Err Est :=
  match topoValidate (topoParams base beta_lower tau phi) with
  | some e => .error e
  | none => .ok ⟨"TopoART", topoParams base beta_lower tau phi, topoAttrs base_module⟩

/-! ### trees -/

/-- an estimator tree: a leaf is an elementary estimator (class, `params`), a node a wrapper with its own
parameter store and named children.  `id` is the Python object (`Val.mod id`). -/
inductive Tree where
  | leaf (id : Nat) (cls : String) (params : Store)
  | node (id : Nat) (cls : String) (own : Store) (kids : List (String × Tree))

def Tree.id : Tree → Nat
  | .leaf i _ _ => i
  | .node i _ _ _ => i

mutual
/-- sklearn's `get_params(deep=True)`: own parameters, each child under its name, the child's parameters as
`name__sub` -/
def getParamsDeep : Tree → Store
  | .leaf _ _ p => p
  | .node _ _ own kids => own ++ flattenKids kids
def flattenKids : List (String × Tree) → Store
  | [] => []
  | (n, t) :: r => ((n, Val.mod t.id) :: prefixed n (getParamsDeep t)) ++ flattenKids r
end

/-- a wrapper over elementary estimators, as far as the protocol goes: the wrapper object and, by object id,
the nested estimators (`Est` of `ArtModel/Params.lean`) each with its `validate_params` -/
structure Tree2 (σ : Type) where
  /-- the wrapper object (its instance `__dict__`, or an `Est`) -/
  top : σ
  kids : List (Nat × Est × (Store → Option Err))

/-- run the delegated calls on the nested estimators, in order; the first one that raises stops the run (its
exception propagates out of the wrapper's `set_params`), calls to unknown objects are skipped -/
def replay : List (Nat × Est × (Store → Option Err)) → List (Nat × Store) →
    List (Nat × Est × (Store → Option Err)) × Option Err
  | kids, [] => (kids, none)
  | kids, (id, sub) :: r =>
    match kids.find? (·.1 = id) with
    | none => replay kids r
    | some (_, e, vp) =>
      let res := setParamsV vp e sub
      let kids' := kids.map (fun k => if k.1 = id then (k.1, res.est, k.2.2) else k)
      match res.err with
      | some x => (kids', some x)
      | none => replay kids' r

/-- `set_params` on the whole two-level tree: the wrapper's own step (`step`: its `__dict__` after the call, the
exception, the delegated calls — all issued before the wrapper's own exception, if any), then the delegated calls on
the children -/
def Tree2.setParams {σ : Type} (step : σ → σ × Option Err × List (Nat × Store)) (t : Tree2 σ) :
    Tree2 σ × Option Err :=
  let s := step t.top
  let r := replay t.kids s.2.2
  match r.2 with
  | some x => (⟨s.1, r.1⟩, some x)
  | none => (⟨s.1, r.1⟩, s.2.1)

end Art.Params2
