/-
ArtModel.Restore — the save / mutate / restore discipline of the vigilance
parameter around one training step, made explicit: the module's parameter slot
is part of the state, the search overwrites it while tracking, and every exit
path (`resonance`, `new category`, `abandoned search`) writes the saved copy back.
Mirrors `base_params = self._deep_copy_params()` … `self._set_params(base_params)`
in BaseART / DualVigilanceART / TopoART / FusionART / CVIART `step_fit`.
-/
import ArtModel.Search

namespace Art

/-- a module: its vigilance slot (a vector of slots for FusionART) and its training state -/
structure Module (θ Wt : Type) where
  rho : θ
  st : ArtState Wt

section
variable {X Wt α μ θ : Type} [LT α] [DecidableRel (α := α) (· < ·)]

/-- which way the step left -/
inductive Exit where
  | first | resonance | newCategory | abandoned
  deriving DecidableEq, Repr

/-- `step_fit` with the parameter slot threaded through.  Returns the module,
the label, the exit taken and the value the slot held when the loop ended
(before the restore). -/
def stepFitP (K : Kernel X Wt α μ) (cfg : SearchCfg μ θ) (veto : Nat → Bool)
    (m : Module θ Wt) (x : X) : Module θ Wt × Nat × Exit × θ :=
  let base := m.rho                                   -- _deep_copy_params()
  if m.st.W.isEmpty then
    let r := applyWinner K m.st x none
    (⟨m.rho, r.1⟩, r.2, .first, m.rho)                 -- returns before any mutation
  else
    let res := stepSearch K cfg m.rho veto m.st.W x    -- mutates the slot while tracking
    let mutated : Module θ Wt := ⟨res.th, m.st⟩
    match res.winner with
    | some c =>
      let r := applyWinner K mutated.st x (some c)
      (⟨base, r.1⟩, r.2, .resonance, res.th)           -- _set_params(base_params); return c_
    | none =>
      let r := applyWinner K mutated.st x none
      let abandoned := !cfg.keep && res.visits.any (fun v => v.m && !v.ok)
      (⟨base, r.1⟩, r.2, if abandoned then .abandoned else .newCategory, res.th)

def trainStepP (K : Kernel X Wt α μ) (cfg : SearchCfg μ θ)
    (veto : ArtState Wt → X → Nat → Bool) (m : Module θ Wt) (x : X) : Module θ Wt :=
  let r := stepFitP K cfg (veto m.st x) m x
  ⟨r.1.rho, { r.1.st with labels := r.1.st.labels ++ [r.2.1] }⟩

def partialFitP (K : Kernel X Wt α μ) (cfg : SearchCfg μ θ)
    (veto : ArtState Wt → X → Nat → Bool) (m : Module θ Wt) (xs : List X) : Module θ Wt :=
  xs.foldl (trainStepP K cfg veto) m

end

end Art
