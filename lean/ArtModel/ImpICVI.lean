/-
ArtModel.ImpICVI — target-language helpers of the iCVI translator (`harness/artv/itrans.py`).
Core Lean only.

* Python dicts are association lists in insertion order (`aget` / `aset` / `ahas` / `akeys`,
  generic in the key and value type); a missing key (`KeyError`) is `none`.
* `Val α` is the type of the values `iCVI_CH` stores in its string-keyed dicts (a Python int, a
  number, a numpy vector, a cluster label, a nested dict); reading a value at the type the code
  uses it at is a projection `Val.asInt …` (`none` on any other shape).
* Python ints are `Int`; `((i : Int) : α)` is Python's int -> float promotion.
* numpy vector arithmetic that `ArtModel/Basic.lean` does not already have.
-/
import ArtModel.Imp

namespace Art.Imp

/-- a value stored in one of `iCVI_CH`'s dicts -/
inductive Val (α : Type) where
  | int (i : Int)
  | num (a : α)
  | vec (v : List α)
  | key (k : Nat)
  | dict (d : List (String × Val α))

/-- a string-keyed Python dict -/
abbrev Dict (α : Type) := List (String × Val α)

namespace Val
variable {α : Type}

def asInt : Val α → Option Int
  | .int i => some i
  | _ => none

def asNum : Val α → Option α
  | .num a => some a
  | _ => none

def asVec : Val α → Option (List α)
  | .vec v => some v
  | _ => none

def asKey : Val α → Option Nat
  | .key k => some k
  | _ => none

def asDict : Val α → Option (Dict α)
  | .dict d => some d
  | _ => none

end Val

section Assoc
variable {K V : Type} [DecidableEq K]

/-- `d[k]` (`none` = `KeyError`) -/
def aget : List (K × V) → K → Option V
  | [], _ => none
  | (k, v) :: r, l => if k = l then some v else aget r l

/-- `d[k] = v`: replace in place, or append — a dict keeps insertion order -/
def aset : List (K × V) → K → V → List (K × V)
  | [], l, v => [(l, v)]
  | (k, v0) :: r, l, v => if k = l then (k, v) :: r else (k, v0) :: aset r l v

/-- `k in d` -/
def ahas : List (K × V) → K → Bool
  | [], _ => false
  | (k, _) :: r, l => if k = l then true else ahas r l

/-- the keys in iteration order (`for k in d`) -/
def akeys (d : List (K × V)) : List K := d.map (·.1)

end Assoc

section Num
variable {α : Type}

/-- Python's builtin `sum(xs)`: left to right, starting from `0` -/
def pySum [Add α] [Zero α] (l : List α) : α := l.foldl (· + ·) 0

/-- `v ** 2` on a numpy vector -/
def vsq [Mul α] (v : List α) : List α := v.map (fun a => a * a)

/-- numpy vector / scalar -/
def vdivs [Div α] (v : List α) (c : α) : List α := v.map (· / c)

/-- `np.zeros(n)`; a negative dimension raises -/
def npZeros [Zero α] (n : Int) : Option (List α) :=
  if n < 0 then none else some (List.replicate n.toNat 0)

end Num

end Art.Imp
