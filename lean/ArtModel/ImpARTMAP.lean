/-
ArtModel.ImpARTMAP — helpers of the ARTMAP translator (`harness/artv/atrans.py`).  Core Lean only.

The attributes of an `ARTMAP` instance, the one method of the nested B-side estimator that stays abstract
(`get_cluster_centers`), the argument type of `BaseARTMAP.map_a2b` (`Union[np.ndarray, int]`) and the numpy
operations that method uses.  Every helper has the numpy / Python meaning on 1-d arrays (`List`); where Python
raises the helper returns `none`.  Nothing here mentions the ARTMAP model (`ArtModel/ARTMAP.lean`) beyond the
dict encoding `List (Option Nat)` that the control-flow translator already uses for `self.map`.
-/
import ArtModel.Imp

namespace Art.ImpARTMAP

/-- the attributes of an `ARTMAP` instance that its translated methods read or write: the nested B-side estimator
and the inherited `SimpleARTMAP` part (`module_a`, `map`, `labels_`) -/
structure Self (WtA PA WtB PB : Type) where
  /-- `self.module_b` -/
  module_b : Art.Imp.Self WtB PB
  /-- the attributes inherited from `SimpleARTMAP`; `super(ARTMAP, self)` is this part -/
  smap : Art.Imp.SMapSelf WtA PA

/-- what the translated code calls on a nested estimator besides the translated `BaseART` methods:
`get_cluster_centers()` (abstract in BaseART: `raise NotImplementedError`, every elementary module overrides it);
`none` = the call raises -/
structure ModuleOps (Wt P Ctr : Type) where
  get_cluster_centers : Art.Imp.Self Wt P → Option (List Ctr)

/-- a value of Python type `Union[np.ndarray, int]` (1-d integer array) -/
inductive IntOrArr where
  | int (v : Nat)
  | arr (v : List Nat)
  deriving DecidableEq, Repr

/-- Python `v[-n:]` for `n >= 0`: the last `n` entries, everything when `n = 0` (because `-0 == 0`) or `n > len(v)` -/
def pyLastN {β : Type} (v : List β) (n : Nat) : List β :=
  if n = 0 then v else v.drop (v.length - n)

/-- insert into a strictly increasing list, keeping it strictly increasing -/
def insertU (x : Nat) : List Nat → List Nat
  | [] => [x]
  | y :: ys => if x < y then x :: y :: ys else if x = y then y :: ys else y :: insertU x ys

/-- the sorted distinct values of `v` -/
def npUniqueVals (v : List Nat) : List Nat := v.foldr insertU []

/-- `np.unique(v, return_inverse=True)`: the sorted distinct values `u` and, for every entry of `v`, its index in `u` -/
def npUnique (v : List Nat) : List Nat × List Nat :=
  (npUniqueVals v, v.map (fun x => (npUniqueVals v).idxOf x))

/-- `A[idx]` with an integer index array (non-negative indices): `none` = IndexError -/
def npTake {β : Type} (A : List β) (idx : List Nat) : Option (List β) := idx.mapM (fun i => A[i]?)

/-- `A.reshape(v.shape)` for 1-d `A` and `v`: the identity when the sizes agree, otherwise it raises -/
def npReshapeLike {β γ : Type} (A : List β) (v : List γ) : Option (List β) :=
  if A.length = v.length then some A else none

/-- `d.values()` of a dict encoded as `List (Option Nat)` (key = position, `none` = key absent) -/
def dictValues (d : List (Option Nat)) : List Nat := d.filterMap id

end Art.ImpARTMAP
