/-
ArtModel.ImpDeep — Python / numpy helpers of the DeepARTMAP translator (`harness/artv/htrans.py`).  Core Lean only.

Python integers are `Int` (an index may be negative: `xs[-1]`, `level += len(self.layers)`), a Python list is a
`List`, a 1-d array a `List`, a 2-d array a list of rows.  Where Python raises (`IndexError`, a failed `assert`,
numpy's shape mismatch) the helper returns `none`.  Nothing here mentions the DeepARTMAP model (`ArtModel/Deep.lean`).
-/
namespace Art.ImpDeep

variable {β : Type}

/-- `xs[i]` for a Python integer `i`: a negative index counts from the end, an index out of range raises -/
def pyIndex (l : List β) (i : Int) : Option β :=
  if 0 ≤ i then l[i.toNat]?
  else if 0 ≤ i + (l.length : Int) then l[(i + (l.length : Int)).toNat]? else none

/-- `xs[i] = v` (the new list; `none` = `IndexError`) -/
def pySet (l : List β) (i : Int) (v : β) : Option (List β) :=
  if 0 ≤ i then (if i.toNat < l.length then some (l.set i.toNat v) else none)
  else if 0 ≤ i + (l.length : Int) then some (l.set (i + (l.length : Int)).toNat v) else none

/-- `range(a, b)` as a list of Python integers -/
def pyRange (a b : Int) : List Int := (List.range (b - a).toNat).map (fun (k : Nat) => a + (k : Int))

/-- `xs[lo:]` — a negative bound counts from the end, bounds are clipped -/
def pySliceFrom (l : List β) (lo : Int) : List β :=
  if 0 ≤ lo then l.drop lo.toNat else l.drop (lo + (l.length : Int)).toNat

/-- `xs[:hi]` -/
def pySliceTo (l : List β) (hi : Int) : List β :=
  if 0 ≤ hi then l.take hi.toNat else l.take (hi + (l.length : Int)).toNat

/-- `xs * n` (list repetition; `n ≤ 0` gives the empty list) -/
def pyRepeat (l : List β) (n : Int) : List β := (List.replicate n.toNat l).flatten

/-- `assert c` -/
def pyAssert (c : Bool) : Option Unit := if c then some () else none

/-- truth value of an `Optional[bool]` (`None` is falsy) -/
def pyTruthy : Option Bool → Bool
  | some true => true
  | _ => false

/-- `v.reshape((-1, 1))` of a 1-d array: the `(n, 1)` array of its entries -/
def npCol (v : List β) : List (List β) := v.map (fun x => [x])

/-- element-wise `f` on two lists of the same length; `none` on a length mismatch -/
def zipSame {γ δ : Type} (f : β → γ → δ) : List β → List γ → Option (List δ)
  | [], [] => some []
  | a :: as, b :: bs => (zipSame f as bs).map (f a b :: ·)
  | _, _ => none

/-- `np.concatenate([A, B, …], axis=1)` of 2-d arrays: rows are concatenated; all arrays need the same number of
rows; an empty list raises -/
def npConcat1 : List (List (List β)) → Option (List (List β))
  | [] => none
  | [A] => some A
  | A :: rest =>
    match npConcat1 rest with
    | some B => zipSame (· ++ ·) A B
    | none => none

end Art.ImpDeep
