/-
ArtModel.ICVI — the incremental Calinski-Harabasz index `iCVI_CH`
(`artlib/cvi/iCVIs/CalinkskiHarabasz.py`), the textbook batch index, and the
validity-index gates of `iCVIFuzzyART` / `CVIART`.  Core Lean only; generic over
the number type through core classes; executed at `Rat`.

Mirrors the Python literally:
* `add_sample`, `remove_sample`, `switch_label` *return* the candidate parameter
  record (`newP`) and do not touch the object; `update` accepts it;
* `CD` is an association list in insertion order of the labels (a Python dict);
* Δ-mean `(x - avg) / n`, `CP_diff` with the `2 * (deltaV @ G)` term, the `G`
  update, the `SEP` list (a new cluster's term first), `WGSS == 0 → 0`,
  `n_clusters < 2 → 0`, `(BGSS / WGSS) * (n - k) / (k - 1)`;
* `switch_label` keeps `mu` (the *unchanged* mean) and `n_samples`;
* a Python exception (`KeyError` on an unknown label, "Can't remove a value from
  a cluster of 1") is `none`.
`remove_sample`'s stand-alone `mu` update has the wrong sign in the Python source
(`mu - (mu - x)/(n-1)`); it is mirrored as written and is not used by
`switch_label`.
-/
import ArtModel.Search

namespace Art.ICVI

/-- per-label entry of `iCVI_CH.CD`: `{"n", "v", "CP", "G"}` -/
structure Clu (α : Type) where
  n : Nat
  v : List α
  CP : α
  G : List α
  deriving Repr

/-- the attributes of an `iCVI_CH` object -/
structure State (α : Type) where
  dim : Nat
  /-- `n_samples` -/
  n : Nat
  mu : List α
  CD : List (Nat × Clu α)
  WGSS : α
  /-- `criterion_value` -/
  crit : α
  deriving Repr

/-- the dict `newP` returned by `add_sample` / `remove_sample` / `switch_label`;
`second` = `(label2, CD2, CP_diff2)`, present for a genuine label switch -/
structure Cand (α : Type) where
  label : Nat
  n : Nat
  mu : List α
  CD : Clu α
  CPdiff : α
  crit : α
  second : Option (Nat × Clu α × α)
  deriving Repr

section
variable {α : Type}

/-- `self.CD[l]` (`none` = `KeyError` / `l not in self.CD`) -/
def lookup : List (Nat × Clu α) → Nat → Option (Clu α)
  | [], _ => none
  | (k, c) :: r, l => if k = l then some c else lookup r l

/-- `self.CD[l] = c`: replace in place, or append — dicts keep insertion order -/
def setCD : List (Nat × Clu α) → Nat → Clu α → List (Nat × Clu α)
  | [], l, c => [(l, c)]
  | (k, c0) :: r, l, c => if k = l then (k, c) :: r else (k, c0) :: setCD r l c

end

section
variable {α : Type} [Add α] [Sub α] [Mul α] [Div α] [Neg α] [Zero α] [One α] [NatCast α]
  [DecidableEq α]

/-- vector / scalar -/
def vdivs (v : List α) (c : α) : List α := v.map (· / c)

/-- `np.zeros(d)` -/
def vzero (d : Nat) : List α := List.replicate d 0

/-- `delta_add_sample_to_average(average, sample, total_samples)` -/
def deltaAdd (avg x : List α) (total : Nat) : List α := vdivs (vsub x avg) (total : α)

/-- `delta_remove_sample_from_average(average, sample, total_samples)` -/
def deltaRemove (avg x : List α) (total : Nat) : List α := vdivs (vsub avg x) ((total : α) - 1)

/-- `iCVI_CH(x)`: the freshly constructed object -/
def init (d : Nat) : State α := ⟨d, 0, [], [], 0, 0⟩

/-- `n * sum((v - mu)**2)` -/
def sepTerm (mu : List α) (n : Nat) (v : List α) : α := (n : α) * l2sq (vsub v mu)

/-- the tail of all three entry points: `0` when `n_clusters < 2`, `0` when
`WGSS == 0`, else `(BGSS / WGSS) * (n_samples - n_clusters) / (n_clusters - 1)` -/
def chValue (bgss wgss : α) (n k : Nat) : α :=
  if k < 2 then 0
  else if wgss = 0 then 0
  else ((bgss / wgss) * ((n : α) - (k : α))) / ((k : α) - 1)

/-- the `label in self.CD` branch of `add_sample`: the new entry and `CP_diff` -/
def cluAdd (data : Clu α) (x : List α) : Clu α × α :=
  let cn := data.n + 1
  -- "The paper defines deltaV = Vold - Vnew, so I need to switch this sign."
  let deltaV := smul (-1) (deltaAdd data.v x cn)
  let v' := vsub data.v deltaV
  let diff := vsub x v'
  let cpdiff := dot diff diff + ((cn : α) - 1) * dot deltaV deltaV + (1 + 1) * dot deltaV data.G
  (⟨cn, v', data.CP + cpdiff, vadd (vadd data.G diff) (smul ((cn : α) - 1) deltaV)⟩, cpdiff)

/-- the cluster part of `remove_sample` (caller has checked `data.n > 1`) -/
def cluRemove (data : Clu α) (x : List α) : Clu α × α :=
  let cn := data.n - 1
  let dVp := deltaRemove data.v x data.n
  let v' := vadd data.v dVp
  let diffP := vsub x data.v
  let G' := vsub data.G (vadd diffP (smul (cn : α) dVp))
  let cpdiff := (-1) * (dot diffP diffP + (cn : α) * dot dVp dVp + (1 + 1) * dot dVp G')
  (⟨cn, v', data.CP + cpdiff, G'⟩, cpdiff)

/-- `iCVI_CH.add_sample(x, label)` -/
def addSample (st : State α) (x : List α) (label : Nat) : Cand α :=
  let n' := st.n + 1
  let mu' := if st.mu.isEmpty then x else vadd st.mu (deltaAdd st.mu x n')
  match lookup st.CD label with
  | none =>
    let cd : Clu α := ⟨1, x, 0, vzero st.dim⟩
    let k := st.CD.length + 1
    let sep := l2sq (vsub x mu') :: st.CD.map (fun e => sepTerm mu' e.2.n e.2.v)
    ⟨label, n', mu', cd, 0, chValue (vsum sep) (st.WGSS + 0) n' k, none⟩
  | some data =>
    let r := cluAdd data x
    let k := st.CD.length
    let sep := st.CD.map (fun e =>
      if e.1 = label then sepTerm mu' r.1.n r.1.v else sepTerm mu' e.2.n e.2.v)
    ⟨label, n', mu', r.1, r.2, chValue (vsum sep) (st.WGSS + r.2) n' k, none⟩

/-- `iCVI_CH.remove_sample(x, label)` -/
def removeSample (st : State α) (x : List α) (label : Nat) : Option (Cand α) :=
  match lookup st.CD label with
  | none => none
  | some data =>
    if data.n ≤ 1 then none
    else
      let mu' := vsub st.mu (deltaRemove st.mu x st.n)
      let n' := st.n - 1
      let r := cluRemove data x
      let k := st.CD.length
      let sep := st.CD.map (fun e =>
        if e.1 = label then sepTerm mu' r.1.n r.1.v else sepTerm mu' e.2.n e.2.v)
      some ⟨label, n', mu', r.1, r.2, chValue (vsum sep) (st.WGSS + r.2) n' k, none⟩

/-- `iCVI_CH.switch_label(x, label_old, label_new)` -/
def switchLabel (st : State α) (x : List α) (lo ln : Nat) : Option (Cand α) :=
  if ln = lo then
    match lookup st.CD lo with
    | none => none
    | some c => some ⟨lo, st.n, st.mu, ⟨c.n, c.v, c.CP, c.G⟩, 0, st.crit, none⟩
  else
    match lookup st.CD lo with
    | none => none
    | some cOld =>
      if cOld.n ≤ 1 then none
      else
        match removeSample st x lo with
        | none => none
        | some pr =>
          let pa := addSample st x ln
          let isNew := (lookup st.CD ln).isNone
          let k := if isNew then st.CD.length + 1 else st.CD.length
          let sep0 : List α := if isNew then [l2sq (vsub x st.mu)] else []
          let sep := sep0 ++ st.CD.map (fun e =>
            if e.1 = lo then sepTerm st.mu pr.CD.n pr.CD.v
            else if e.1 = ln then sepTerm st.mu pa.CD.n pa.CD.v
            else sepTerm st.mu e.2.n e.2.v)
          some ⟨lo, st.n, st.mu, pr.CD, pr.CPdiff,
            chValue (vsum sep) ((st.WGSS + pr.CPdiff) + pa.CPdiff) st.n k,
            some (ln, pa.CD, pa.CPdiff)⟩

/-- `iCVI_CH.update(params)` -/
def update (st : State α) (p : Cand α) : State α :=
  let cd1 := setCD st.CD p.label p.CD
  let w1 := st.WGSS + p.CPdiff
  match p.second with
  | none => { st with n := p.n, mu := p.mu, crit := p.crit, CD := cd1, WGSS := w1 }
  | some (l2, c2, d2) =>
    { st with n := p.n, mu := p.mu, crit := p.crit, CD := setCD cd1 l2 c2, WGSS := w1 + d2 }

/-! ### The batch (textbook) index of labelled data `D : List (point × label)` -/

/-- labels in order of first appearance -/
def dedupL : List Nat → List Nat
  | [] => []
  | a :: r => a :: (dedupL r).filter (· != a)

def labelsOf (D : List (List α × Nat)) : List Nat := dedupL (D.map (·.2))

/-- the points carrying label `l` -/
def members (D : List (List α × Nat)) (l : Nat) : List (List α) :=
  (D.filter (·.2 == l)).map (·.1)

/-- sum of `d`-dimensional vectors -/
def vsumAll (d : Nat) (xs : List (List α)) : List α := xs.foldr vadd (vzero d)

/-- centroid -/
def vmean (d : Nat) (xs : List (List α)) : List α := vdivs (vsumAll d xs) (xs.length : α)

/-- `Σ_{y ∈ xs} ‖y − c‖²` -/
def ssq (xs : List (List α)) (c : List α) : α := vsum (xs.map (fun y => l2sq (vsub y c)))

/-- within-group sum of squares -/
def wgssB (d : Nat) (D : List (List α × Nat)) : α :=
  vsum ((labelsOf D).map (fun l => ssq (members D l) (vmean d (members D l))))

/-- between-group sum of squares -/
def bgssB (d : Nat) (D : List (List α × Nat)) : α :=
  vsum ((labelsOf D).map (fun l =>
    ((members D l).length : α) * l2sq (vsub (vmean d (members D l)) (vmean d (D.map (·.1))))))

/-- Calinski-Harabasz index of `d`-dimensional labelled data; `0` by convention
while it is undefined (fewer than two clusters, `n = k`, or `WGSS = 0`). -/
def chBatchD (d : Nat) (D : List (List α × Nat)) : α :=
  let k := (labelsOf D).length
  let n := D.length
  if k < 2 then 0
  else if n = k then 0
  else if wgssB d D = 0 then 0
  else ((bgssB d D / wgssB d D) * ((n : α) - (k : α))) / ((k : α) - 1)

def dimOf (D : List (List α × Nat)) : Nat :=
  match D with
  | [] => 0
  | p :: _ => p.1.length

/-- Calinski-Harabasz index of labelled data (dimension read off the first point) -/
def chBatch (D : List (List α × Nat)) : α := chBatchD (dimOf D) D

/-- what the invariant says a cluster entry is: count, centroid, compactness, zero `G` -/
def cluOf (d : Nat) (D : List (List α × Nat)) (l : Nat) : Clu α :=
  ⟨(members D l).length, vmean d (members D l), ssq (members D l) (vmean d (members D l)), vzero d⟩

/-! ### Operation sequences (`add_sample`+`update`, `switch_label`+`update`) -/

inductive Op (α : Type) where
  | add (x : List α) (label : Nat)
  | switch (x : List α) (lo ln : Nat)

/-- one operation followed by `update`; `none` = the Python raised -/
def applyOp (st : State α) : Op α → Option (State α)
  | .add x l => some (update st (addSample st x l))
  | .switch x lo ln => (switchLabel st x lo ln).map (update st)

/-- states after each operation; stops at the first exception -/
def runOps (st : State α) : List (Op α) → List (Option (State α))
  | [] => []
  | op :: ops =>
    match applyOp st op with
    | none => [none]
    | some st' => some st' :: runOps st' ops

/-! ### What `iCVIFuzzyART.fit` does to its `iCVI` object.  `cs[i]` is the label
`step_fit` returned for sample `i` (whatever the search decided). -/

/-- online mode: `add_sample(x_i, c_i)` + `update` per sample -/
def trackOnline (d : Nat) (X : List (List α)) (cs : List Nat) : State α :=
  (X.zip cs).foldl (fun st p => update st (addSample st p.1 p.2)) (init d)

/-- the per-sample loop of offline mode: `switch_label(x_i, labels_[i] = 0, c_i)` + `update` -/
def offlineLoop (st : State α) : List (List α × Nat) → Option (State α)
  | [] => some st
  | (x, c) :: r => (switchLabel st x 0 c).bind (fun p => offlineLoop (update st p) r)

/-- offline mode: first every sample is added with label 0, then the loop; `none` = raised -/
def trackOffline (d : Nat) (X : List (List α)) (cs : List Nat) : Option (State α) :=
  offlineLoop (X.foldl (fun st x => update st (addSample st x 0)) (init d)) (X.zip cs)

end

/-! ### The gates -/

section
variable {α : Type} [Add α] [Sub α] [Mul α] [Div α] [Neg α] [Zero α] [One α] [NatCast α]
  [DecidableEq α] [LT α] [DecidableRel (α := α) (· < ·)]

/-- `iCVIFuzzyART.iCVI_match(x, w, c_, …)`: `true` = the category is allowed.
`cur` = `labels_[index]` (offline mode only).  An exception of `switch_label`
is modelled as "not allowed" (it is unreachable: `icvi_offline_defined`). -/
def icviMatch (offline : Bool) (st : State α) (x : List α) (cur : Nat) (c : Nat) : Bool :=
  match (if offline then switchLabel st x cur c else some (addSample st x c)) with
  | some p => decide (st.crit < p.crit)
  | none => false

/-- the reset function handed to `step_fit`: an optional user function `and` the gate -/
def gateVeto (user gate : Nat → Bool) : Nat → Bool := fun c => !(user c && gate c)

end

section
variable {α L : Type} [LT α] [DecidableRel (α := α) (· < ·)]

/-- `CVIART.CVI_match`: `nW = len(self.W)`, `db` = the index is Davies-Bouldin
(smaller is better), `vi` = the sklearn score (an oracle), `old` = `labels_`,
`cand c` = `labels_` with `labels_[index] = c`. -/
def cviMatch (nW : Nat) (db : Bool) (vi : L → α) (old : L) (cand : Nat → L) (c : Nat) : Bool :=
  if nW < 2 then true
  else if db then decide (vi (cand c) < vi old)
  else decide (vi old < vi (cand c))

end

end Art.ICVI
